import Lemmas.TRel
/-!
  Lemmas/TRel2.lean — non-interference of the OS model, part 2: `Mkdir`, `OpenFile`, `Write`,
  `Remove`, the metadata calls on two disks with the same base view give the same result (value
  and error class) and leave the same base view.
-/
namespace BFS
open MFS

section
variable {bk kk : Key}

theorem NameiRel.split {m1 m2 : MFS} {K : Key} {r1 r2 : Res} (h : NameiRel m1 m2 K r1 r2) :
    (∃ n1 n2, r1 = .found K n1 ∧ r2 = .found K n2 ∧ m1.get K = some n1 ∧ m2.get K = some n2 ∧
      eraseMt n1 = eraseMt n2 ∧ n1.isLink = false ∧ n2.isLink = false) ∨
    (∃ (hne : K ≠ []) (mt1 mt2 : Meta), r1 = .missing K.dropLast (K.getLast hne) ∧
      r2 = .missing K.dropLast (K.getLast hne) ∧ m1.get K = none ∧ m2.get K = none ∧
      m1.get K.dropLast = some (.dir mt1) ∧ m2.get K.dropLast = some (.dir mt2) ∧
      eraseMt (.dir mt1) = eraseMt (.dir mt2)) ∨
    (∃ e, r1 = .err e ∧ r2 = .err e ∧ K ≠ [] ∧ m1.get K = none ∧ m2.get K = none ∧ e.isNotFound = true) := by
  cases h with
  | found n1 n2 h1 h2 he hl1 hl2 => exact Or.inl ⟨n1, n2, rfl, rfl, h1, h2, he, hl1, hl2⟩
  | missing hne mt1 mt2 h1 h2 hp1 hp2 hpe => exact Or.inr (Or.inl ⟨hne, mt1, mt2, rfl, rfl, h1, h2, hp1, hp2, hpe⟩)
  | err e hne h1 h2 _ _ he => exact Or.inr (Or.inr ⟨e, rfl, rfl, hne, h1, h2, he⟩)

theorem inheritGid_dir {m : MFS} {P : Key} {mt : Meta} (h : m.get P = some (.dir mt)) :
    inheritGid m P = if mt.mode &&& S_ISGID != 0 then (mt.gid, true) else (0, false) := by
  unfold inheritGid
  rw [h]

theorem inheritGid_rel {m1 m2 : MFS} {P : Key} {mt1 mt2 : Meta} (h1 : m1.get P = some (.dir mt1))
    (h2 : m2.get P = some (.dir mt2)) (he : eraseMt (.dir mt1) = eraseMt (.dir mt2)) :
    inheritGid m1 P = inheritGid m2 P := by
  obtain ⟨a, _, c⟩ := erase_dir_dir he
  rw [inheritGid_dir h1, inheritGid_dir h2, a, c]

/-- the hypotheses shared by all lemmas below -/
structure Twin (bk kk : Key) (m1 m2 : MFS) : Prop where
  g1 : OSGood bk kk m1
  g2 : OSGood bk kk m2
  eq : BEq bk m1 m2

theorem Twin.namei {m1 m2 : MFS} (h : Twin bk kk m1 m2) (hbk : PKey bk) {k : Key} (hk : PKey k) {t : Path}
    (ht : TextOf t (bk ++ k)) (f : Bool) :
    NameiRel m1 m2 (bk ++ k) (namei m1 t f) (namei m2 t f) :=
  namei_rel h.g1 h.g2 h.eq (hbk.append hk) ht f

/-! ### Mkdir -/

theorem mkdir_rel {m1 m2 : MFS} (h : Twin bk kk m1 m2) (hbk : PKey bk) {k : Key} (hk : PKey k) {t : Path}
    (ht : TextOf t (bk ++ k)) (perm : Nat) :
    (m1.mkdir t perm).2 = (m2.mkdir t perm).2 ∧ BEq bk (m1.mkdir t perm).1 (m2.mkdir t perm).1 := by
  unfold MFS.mkdir
  rcases (h.namei hbk hk ht false).split with ⟨n1, n2, e1, e2, _⟩ | ⟨hne, mt1, mt2, e1, e2, _, _, hp1, hp2, hpe⟩ |
    ⟨e, e1, e2, _⟩
  · rw [e1, e2]
    exact ⟨rfl, h.eq⟩
  · rw [e1, e2]
    simp only [inheritGid_rel hp1 hp2 hpe, h.eq.umask]
    exact ⟨trivial, (h.eq.set _ rfl).touchDir _ _⟩
  · rw [e1, e2]
    exact ⟨rfl, h.eq⟩

/-! ### OpenFile -/

theorem openFile_rel {m1 m2 : MFS} (h : Twin bk kk m1 m2) (hbk : PKey bk) {k : Key} (hk : PKey k) {t : Path}
    (ht : TextOf t (bk ++ k)) (flag perm : Nat) :
    (m1.openFile t flag perm).2 = (m2.openFile t flag perm).2 ∧
      BEq bk (m1.openFile t flag perm).1 (m2.openFile t flag perm).1 := by
  unfold MFS.openFile
  simp only
  rcases (h.namei hbk hk ht (!(hasFlag flag O_CREATE && hasFlag flag O_EXCL))).split with
    ⟨n1, n2, e1, e2, _, _, he, hl1, hl2⟩ | ⟨hne, mt1, mt2, e1, e2, _, _, hp1, hp2, hpe⟩ | ⟨e, e1, e2, _⟩
  · rw [e1, e2]
    simp only
    split
    · exact ⟨rfl, h.eq⟩
    · cases n1 with
      | link t1 mt1 => cases hl1
      | dir mt1 =>
        obtain ⟨mt2, rfl⟩ := erase_dir_left he
        simp only
        split
        · exact ⟨rfl, h.eq⟩
        · exact ⟨rfl, h.eq⟩
      | file c1 mt1 =>
        have := erase_nondir he rfl
        subst this
        simp only
        split
        · exact ⟨rfl, h.eq.set _ rfl⟩
        · exact ⟨rfl, h.eq⟩
  · rw [e1, e2]
    simp only
    split
    · exact ⟨rfl, h.eq⟩
    · simp only [inheritGid_rel hp1 hp2 hpe, h.eq.umask]
      exact ⟨trivial, (h.eq.set _ rfl).touchDir _ _⟩
  · rw [e1, e2]
    exact ⟨rfl, h.eq⟩

/-! ### Write through a handle -/

theorem hwrite_rel {m1 m2 : MFS} (hb : BEq bk m1 m2) {hd : Handle} (hkey : bk <+: hd.key) (off : Nat) (d : String) :
    (m1.hwrite hd off d).2 = (m2.hwrite hd off d).2 ∧ BEq bk (m1.hwrite hd off d).1 (m2.hwrite hd off d).1 := by
  unfold MFS.hwrite
  split
  · exact ⟨rfl, hb⟩
  · have hget := hb.get hd.key hkey
    cases h1 : m1.get hd.key with
    | none =>
      rw [map_erase_none hget h1]
      exact ⟨rfl, hb⟩
    | some n1 =>
      obtain ⟨n2, h2, he⟩ := map_erase_some hget h1
      rw [h2]
      cases n1 with
      | file c mt =>
        have := erase_nondir he rfl
        subst this
        simp only
        split
        · exact ⟨rfl, hb⟩
        · exact ⟨rfl, hb.set _ rfl⟩
      | dir mt =>
        obtain ⟨mt2, rfl⟩ := erase_dir_left he
        exact ⟨rfl, hb⟩
      | link tt mt =>
        have := erase_nondir he rfl
        subst this
        exact ⟨rfl, hb⟩

/-! ### Remove -/

theorem hasChildren_rel {m1 m2 : MFS} (h : Twin bk kk m1 m2) {K : Key} (hK : bk <+: K) :
    m1.hasChildren K = m2.hasChildren K := by
  have hiff : m1.hasChildren K = false ↔ m2.hasChildren K = false := by
    rw [hasChildren_false_iff h.g1, hasChildren_false_iff h.g2]
    have hp : ∀ c, bk <+: K ++ [c] := fun c => List.IsPrefix.trans hK (List.prefix_append _ _)
    exact ⟨fun a c => (h.eq.none_iff (hp c)).mp (a c), fun a c => (h.eq.none_iff (hp c)).mpr (a c)⟩
  cases a : m1.hasChildren K <;> cases b : m2.hasChildren K <;> simp_all

theorem remove_rel {m1 m2 : MFS} (h : Twin bk kk m1 m2) (hbk : PKey bk) {k : Key} (hk : PKey k) {t : Path}
    (ht : TextOf t (bk ++ k)) :
    (m1.remove t).2 = (m2.remove t).2 ∧ BEq bk (m1.remove t).1 (m2.remove t).1 := by
  unfold MFS.remove
  rcases (h.namei hbk hk ht false).split with ⟨n1, n2, e1, e2, _, _, he, hl1, hl2⟩ | ⟨hne, mt1, mt2, e1, e2, _⟩ |
    ⟨e, e1, e2, _⟩
  · rw [e1, e2]
    simp only
    split
    · exact ⟨rfl, h.eq⟩
    · cases n1 with
      | link t1 mt1 => cases hl1
      | dir mt1 =>
        obtain ⟨mt2, rfl⟩ := erase_dir_left he
        simp only [hasChildren_rel h (List.prefix_append bk k)]
        split
        · exact ⟨rfl, h.eq⟩
        · exact ⟨rfl, (h.eq.set _ rfl).touchDir _ _⟩
      | file c1 mt1 =>
        have := erase_nondir he rfl
        subst this
        exact ⟨rfl, (h.eq.set _ rfl).touchDir _ _⟩
  · rw [e1, e2]
    exact ⟨rfl, h.eq⟩
  · rw [e1, e2]
    exact ⟨rfl, h.eq⟩

/-! ### Chmod, Chown, Lchown, Chtimes -/

/-- node updates that respect equality up to directory timestamps -/
def EraseCongr (f : Node → Node) : Prop := ∀ n1 n2, eraseMt n1 = eraseMt n2 → eraseMt (f n1) = eraseMt (f n2)

theorem metaOp_rel {m1 m2 : MFS} (h : Twin bk kk m1 m2) (hbk : PKey bk) {k : Key} (hk : PKey k) {t : Path}
    (ht : TextOf t (bk ++ k)) (follow : Bool) {f : Node → Node} (hf : EraseCongr f) :
    (metaOp m1 t follow f).2 = (metaOp m2 t follow f).2 ∧ BEq bk (metaOp m1 t follow f).1 (metaOp m2 t follow f).1 := by
  unfold metaOp
  rcases (h.namei hbk hk ht follow).split with ⟨n1, n2, e1, e2, _, _, he, _, _⟩ | ⟨hne, mt1, mt2, e1, e2, _⟩ |
    ⟨e, e1, e2, _⟩
  · rw [e1, e2]
    refine ⟨rfl, h.eq.set _ ?_⟩
    simp only [Option.map_some, Option.some.injEq]
    exact hf n1 n2 he
  · rw [e1, e2]
    exact ⟨rfl, h.eq⟩
  · rw [e1, e2]
    exact ⟨rfl, h.eq⟩

theorem ec_chmod (mode : Nat) : EraseCongr (fun n => n.setMeta { n.meta with mode := mode &&& 0o7777 }) := by
  intro n1 n2 he
  cases n1 <;> cases n2 <;> simp_all [eraseMt, Node.setMeta, Node.meta]

theorem ec_chtimes (t : Time) : EraseCongr (fun n => n.setMeta { n.meta with mtime := t }) := by
  intro n1 n2 he
  cases n1 <;> cases n2 <;> simp_all [eraseMt, Node.setMeta, Node.meta]

theorem ec_chown (u g : Int) : EraseCongr (chownF u g) := by
  intro n1 n2 he
  cases n1 with
  | file c1 mt1 =>
    have := erase_nondir he rfl
    subst this
    rfl
  | link c1 mt1 =>
    have := erase_nondir he rfl
    subst this
    rfl
  | dir mt1 =>
    obtain ⟨mt2, rfl⟩ := erase_dir_left he
    obtain ⟨a, b, c⟩ := erase_dir_dir he
    simp only [chownF, Node.setMeta, Node.meta, Node.isLink, chownMode, Node.isDir, eraseMt, a, b, c]
    rfl

end

end BFS
