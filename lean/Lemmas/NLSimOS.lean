import Lemmas.NLSimOSLaws3
/-!
  Lemmas/NLSimOS.lean — the contract `NL.Sim` (symlinks as leaves + hidden keys, Lemmas/NLSim.lean)
  discharged for the nested (README) layering
  `N.nestedCfg bk hk = NewWithFS (PrefixFS (kp bk) osfs) (kp hk)` over the OS model.

  Definitions in `Lemmas/NLSimOSBase.lean`, the laws in `Lemmas/NLSimOSLaws1..3.lean`; all of them are
  derived from the laws of the inner `PrefixFS (kp bk) osfs` for disks with symlinks as leaves
  (`Lemmas/LSimOSLaws*.lean`), the shape of the calls through the two layers
  (`Lemmas/NSimOSFwd.lean`) and the safety of `HiddenFS.RemoveAll` over such disks
  (`Lemmas/NLHidRA.lean`).
-/
namespace BFS.NL
open N

def nlSim (bk hk dd : Key) (h : NRoots bk hk dd) : Sim (nestedCfg bk hk) where
  G := NLGood bk hk dd
  view := nlview bk hk
  H := NH bk hk
  LinkOK := NLLinkOK bk hk dd
  Hid := NHid hk
  Par := NPar hk
  hid_none := fun _ hh => n_hid_none hh
  par_dir := fun hg hp => nl_par_dir hg hp
  root_dir := fun hg => nl_root_dir h hg
  parent_dir := fun hg hv hne => nl_parent_dir hg hv hne
  pkey := fun hg hv => nl_pkey hg hv
  mode_lt := fun hg hv => nl_mode_lt hg hv
  erased := fun hg hv => nl_erased hg hv
  link_erased := fun hg hv => nl_link_erased hg hv
  link_canon := fun hg hv => nl_link_canon hg hv
  pure_lstat := fun he => n_pure_lstat h he
  pure_stat := fun he => n_pure_stat h he
  pure_readlink := fun he => n_pure_readlink h he
  pure_open := fun he => n_pure_open h he
  pure_openRO := fun he => n_pure_openRO h he
  openFile_flag := fun he => n_openFile_flag h he
  lstat_some := fun hg hk hv => nl_lstat_some h hg hk hv
  lstat_none := fun hg hk hna hv => nl_lstat_none h hg hk hna hv
  readlink_link := fun hg hk hv => nl_readlink_link h hg hk hv
  open_some := fun hg hk hv => nl_open_some h hg hk hv
  open_handle := fun hg hk ha he => nl_open_handle h hg hk ha he
  create_frame := fun hg hk ha he => nl_create_frame h hg hk ha he
  openFile_frame := fun hg hk ha he => nl_openFile_frame h hg hk ha he
  openW_file := fun hg hk hv => nl_openW_file h hg hk hv
  openW_none := fun hg hk hvis hv hp => nl_openW_none h hg hk hvis hv hp
  openW_post := fun hg hk ha he => nl_openW_post h hg hk ha he
  hwrite_ro := fun ha => n_hwrite_ro ha
  hwrite_frame := fun hg hH he => nl_hwrite_frame h hg hH he
  hwrite_file := fun _ hH ha hv => nl_hwrite_file hH ha hv
  hread_file := fun _ hH ha hv => nl_hread_file hH ha hv
  hstat_some := fun _ hH hv => nl_hstat_some hH hv
  readdir_plain := fun hg _ he => nl_readdir_plain hg he
  mkdir_frame := fun hg hk hna he => nl_mkdir_frame h hg hk hna he
  mkdirAll_frame := fun hg hk ha he => nl_mkdirAll_frame h hg hk ha he
  mkdirAll_ok := fun hg hk hvis hp hv => nl_mkdirAll_ok h hg hk hvis hp hv
  remove_frame := fun hg hk hne hna he => nl_remove_frame h hg hk hne hna he
  remove_ok := fun hg hk hne hp hv => nl_remove_ok h hg hk hne hp hv
  removeAll_frame := fun hg hk hne hna he => nl_removeAll_frame h hg hk hne hna he
  rename_frame := fun hg hko hkn hnao hnan he => nl_rename_frame h hg hko hkn hnao hnan he
  chmod_frame := fun hg hk ha he => nl_chmod_frame h hg hk ha he
  chmod_some := fun hg hk hv hl => nl_chmod_some h hg hk hv hl
  chown_frame := fun hg hk ha he => nl_chown_frame h hg hk ha he
  chown_some := fun hg hk hv hl => nl_chown_some h hg hk hv hl
  lchown_frame := fun hg hk hna he => nl_lchown_frame h hg hk hna he
  lchown_link := fun hg hk hv => nl_lchown_link h hg hk hv
  chtimes_frame := fun hg hk ha he => nl_chtimes_frame h hg hk ha he
  chtimes_file := fun hg hk hv => nl_chtimes_file h hg hk hv
  chtimes_dir := fun hg hk hv => nl_chtimes_dir h hg hk hv
  symlink_frame := fun hg hk hna he => nl_symlink_frame h hg hk hna he
  symlink_post := fun hg hk hna hct he => nl_symlink_post h hg hk hna hct he
  symlink_ok := fun hg hk hct hok hv hp => nl_symlink_ok h hg hk hct hok hv hp

end BFS.NL
