import Lemmas.TClean
import Lemmas.Keeps
import Lemmas.Sat
/-!
  Lemmas/TUmask.lean — the process umask (a field of the OS model's state) is never changed by any
  filesystem call, hence not by `prepare` (`realPath; tryBackup`) either.  Needed because the result
  of `Mkdir`/`OpenFile(O_CREATE)` depends on it.
-/
namespace BFS
open MFS BackupFS

/-! ### the OS model -/

theorem set_umask (m : MFS) (K : Key) (v : Option Node) : (m.set K v).umask = m.umask := rfl

theorem mkdir_umask (m : MFS) (p : Path) (perm : Nat) : (m.mkdir p perm).1.umask = m.umask := by
  unfold MFS.mkdir
  cases namei m p false <;> simp [touchDir_umask, set_umask]

theorem mkdirAll_umask (perm : Nat) : ∀ (fuel : Nat) (m : MFS) (p : Path), (m.mkdirAll perm fuel p).1.umask = m.umask
  | 0, m, p => by rw [MFS.mkdirAll]
  | fuel + 1, m, p => by
    rw [MFS.mkdirAll]
    cases hst : stat m p with
    | ok i =>
      simp only
      split <;> rfl
    | error e =>
      simp only
      have hrec : ∀ r : MFS × Except Err Unit,
          r = (if (uptoLastSep (stripTrailingSeps p)).length > 0 then m.mkdirAll perm fuel (uptoLastSep (stripTrailingSeps p)) else (m, .ok ())) →
          r.1.umask = m.umask := by
        intro r hr
        rw [hr]
        split
        · exact mkdirAll_umask perm fuel m _
        · rfl
      generalize hr : (if (uptoLastSep (stripTrailingSeps p)).length > 0 then m.mkdirAll perm fuel (uptoLastSep (stripTrailingSeps p)) else (m, Except.ok ())) = r
      have h1 := hrec r hr.symm
      obtain ⟨m1, r1⟩ := r
      cases r1 with
      | error e' => exact h1
      | ok u =>
        simp only
        have h2 := mkdir_umask m1 p perm
        cases hmk : m1.mkdir p perm with
        | mk m2 r2 =>
          rw [hmk] at h2
          simp only at h1 h2
          cases r2 with
          | ok u2 => simp only; rw [h2, h1]
          | error e2 =>
            simp only
            cases lstat m2 p with
            | ok i =>
              simp only
              split <;> (simp only; rw [h2, h1])
            | error e3 => simp only; rw [h2, h1]

theorem openFile_umask (m : MFS) (p : Path) (flag perm : Nat) : (m.openFile p flag perm).1.umask = m.umask := by
  unfold MFS.openFile
  simp only
  cases namei m p (!(hasFlag flag O_CREATE && hasFlag flag O_EXCL)) with
  | err e => rfl
  | found k n =>
    simp only
    split
    · rfl
    · cases n with
      | dir mt => simp only; split <;> rfl
      | link t mt => rfl
      | file c mt => simp only; split <;> rfl
  | missing parent name =>
    simp only
    split
    · rfl
    · simp [touchDir_umask, set_umask]

theorem hwrite_umask (m : MFS) (h : Handle) (off : Nat) (d : String) : (m.hwrite h off d).1.umask = m.umask := by
  unfold MFS.hwrite
  split
  · rfl
  · split
    · split <;> rfl
    · rfl

theorem remove_umask (m : MFS) (p : Path) : (m.remove p).1.umask = m.umask := by
  unfold MFS.remove
  cases namei m p false with
  | err e => rfl
  | missing a b => rfl
  | found k n =>
    simp only
    split
    · rfl
    · cases n with
      | dir mt => simp only; split <;> simp [touchDir_umask, set_umask]
      | link t mt => simp [touchDir_umask, set_umask]
      | file c mt => simp [touchDir_umask, set_umask]

theorem removeAll_umask (m : MFS) (p : Path) : (m.removeAll p).1.umask = m.umask := by
  unfold MFS.removeAll
  split
  · rfl
  split
  · rfl
  split
  · rfl
  · rfl
  · rfl
  · split
    · rfl
    · simp only [touchDir_umask]; rfl

theorem rename_umask (m : MFS) (o n : Path) : (m.rename o n).1.umask = m.umask := by
  unfold MFS.rename
  simp only
  split
  · rfl
  · split
    · rfl
    · rfl
    · rfl
    · repeat' split
      all_goals first | rfl | (simp only [touchDir_umask]; rfl)
    · split
      · rfl
      · simp only [touchDir_umask]; rfl

theorem metaOp_umask (m : MFS) (p : Path) (follow : Bool) (f : Node → Node) : (metaOp m p follow f).1.umask = m.umask := by
  unfold metaOp
  cases namei m p follow <;> rfl

theorem symlink_umask (m : MFS) (o n : Path) : (m.symlink o n).1.umask = m.umask := by
  unfold MFS.symlink
  split
  · rfl
  · cases namei m n false <;> simp [touchDir_umask, set_umask]

theorem osCall_umask (m : MFS) (c : Call) : (osCall m c).1.umask = m.umask := by
  cases c with
  | create n => exact openFile_umask m _ _ _
  | mkdir n p => exact mkdir_umask m _ _
  | mkdirAll n p => exact mkdirAll_umask _ _ m _
  | open_ n => exact openFile_umask m _ _ _
  | openFile n f p => exact openFile_umask m _ _ _
  | remove n => exact remove_umask m _
  | removeAll n => exact removeAll_umask m _
  | rename o n => exact rename_umask m _ _
  | stat n => rfl
  | chmod n md => show (liftU (m.chmod n md)).1.umask = _; rw [mfs_chmod_eq]; exact metaOp_umask m _ _ _
  | chown n u g => show (liftU (m.chown n u g)).1.umask = _; rw [mfs_chown_eq]; exact metaOp_umask m _ _ _
  | chtimes n a t => show (liftU (m.chtimes n t)).1.umask = _; rw [mfs_chtimes_eq]; exact metaOp_umask m _ _ _
  | lstat n => rfl
  | symlink o n => exact symlink_umask m _ _
  | readlink n => rfl
  | lchown n u g => show (liftU (m.lchown n u g)).1.umask = _; rw [mfs_lchown_eq]; exact metaOp_umask m _ _ _

/-! ### the configuration -/

/-- no call of either filesystem changes the umask -/
structure FsKeepsUmask (cfg : Cfg) : Prop where
  call : ∀ s m c, ((cfg.side s).call m c).1.umask = m.umask
  hwrite : ∀ s m h off d, ((cfg.side s).hwrite m h off d).1.umask = m.umask

theorem osCfg_keeps_umask (bk kk : Key) : FsKeepsUmask (osCfg bk kk) := by
  constructor
  · intro s m c
    rw [side_eq, prefixFS_call]
    cases PrefixFS.translate (PrefixFS.mk (kp (osRoot bk kk s))) c with
    | error e => rfl
    | ok c' => exact osCall_umask m c'
  · intro s m h off d
    rw [side_hwrite]
    exact hwrite_umask m h off d

/-! ### the computations of BackupFS -/

section
variable {cfg : Cfg} (hu : FsKeepsUmask cfg)
include hu

abbrev KU {α} (x : M α) : Prop := Keeps (fun w => w.fs.umask) x

theorem primCall_ku (side : Side) (c : Call) : KU (primCall cfg side c) := by
  intro w
  have hexec : ∀ w1 : World, (execCall cfg side c w1).1.fs.umask = w1.fs.umask := by
    intro w1
    unfold execCall
    have := hu.call side w1.fs c
    cases hc : (cfg.side side).call w1.fs c with
    | mk m' r => rw [hc] at this; exact this
  unfold primCall
  split
  · split
    · rfl
    · exact hexec w
  · cases hacc : account ⟨side, callMethod c, callArgs c⟩ (callMutating c) w with
    | mk w1 faulted =>
      have hs := account_sameFS ⟨side, callMethod c, callArgs c⟩ (callMutating c) w
      rw [hacc] at hs
      cases faulted with
      | true => simp only; rw [hs.fs]
      | false => simp only; rw [hexec w1, hs.fs]

omit hu in
theorem primH_ku (wh : WHandle) (m : String) (ex : List Path) (b : Bool) : KU (primH wh m ex b) := by
  intro w
  unfold primH account
  simp only
  split <;> rfl

omit hu in
theorem ku_pure {α} (a : α) : KU (pure a : M α) := Keeps.pure _ a
omit hu in
theorem ku_throw {α} (e : Err) : KU (M.throw e : M α) := Keeps.throw _ e

theorem primInfo_ku (side : Side) (c : Call) : KU (primInfo cfg side c) := by
  unfold primInfo
  apply Keeps.bind (primCall_ku hu side c); intro r
  cases r <;> first | exact Keeps.pure _ _ | exact Keeps.throw _ _

theorem primStr_ku (side : Side) (c : Call) : KU (primStr cfg side c) := by
  unfold primStr
  apply Keeps.bind (primCall_ku hu side c); intro r
  cases r <;> first | exact Keeps.pure _ _ | exact Keeps.throw _ _

theorem primUnit_ku (side : Side) (c : Call) : KU (primUnit cfg side c) := by
  unfold primUnit
  apply Keeps.bind (primCall_ku hu side c); intro r
  exact Keeps.pure _ _

theorem primOpen_ku (side : Side) (c : Call) : KU (primOpen cfg side c) := by
  unfold primOpen
  apply Keeps.bind (primCall_ku hu side c); intro r
  cases r <;> first | exact Keeps.pure _ _ | exact Keeps.throw _ _

omit hu in
theorem ignorePerm_ku {x : M Unit} (h : KU x) : KU (ignorePerm x) := by
  unfold ignorePerm
  apply Keeps.bind (Keeps.attempt h); intro r
  cases r with
  | ok u => exact Keeps.pure _ _
  | error e => exact Keeps.ite (Keeps.pure _ _) (Keeps.throw _ _)

omit hu in
theorem wrapped_ku {α} {x : M α} (h : KU x) : KU (wrapped x) := by
  intro w
  unfold wrapped
  have := h w
  cases hx : x w with
  | mk w' r => rw [hx] at this; cases r <;> exact this

theorem chownTo_ku (side : Side) (src : Info) (n : Path) : KU (chownTo cfg side src n) := by
  unfold chownTo
  apply Keeps.bind (primInfo_ku hu side _); intro old
  exact Keeps.whenM (primUnit_ku hu side _)

theorem copyDir_ku (side : Side) (name : Path) (info : Info) : KU (copyDir cfg side name info) := by
  unfold copyDir
  apply wrapped_ku
  apply Keeps.ite (Keeps.throw _ _)
  apply Keeps.ite (Keeps.pure _ _)
  apply Keeps.bind (primUnit_ku hu side _); intro _
  apply Keeps.bind (primInfo_ku hu side _); intro cur
  apply Keeps.bind (Keeps.whenM (primUnit_ku hu side _)); intro _
  apply Keeps.bind (Keeps.whenM (ignorePerm_ku (primUnit_ku hu side _))); intro _
  exact ignorePerm_ku (chownTo_ku hu side info name)

theorem hWrite_ku (wh : WHandle) (off : Nat) (d : String) : KU (hWrite cfg wh off d) := by
  unfold hWrite
  apply Keeps.bind (primH_ku wh _ _ _); intro _
  intro w
  have := hu.hwrite wh.side w.fs wh.h off d
  simp only
  exact this

theorem copyChunks_ku (dst src : WHandle) : ∀ (off : Nat) (cs : List String), KU (copyChunks cfg dst src off cs)
  | _, [] => by unfold copyChunks hRead; exact primH_ku _ _ _ _
  | off, c :: cs => by
    unfold copyChunks
    apply Keeps.bind (by unfold hRead; exact primH_ku _ _ _ _); intro _
    apply Keeps.bind (hWrite_ku hu dst off c); intro _
    exact copyChunks_ku dst src _ cs

omit hu in
theorem peek_ku (wh : WHandle) : KU (peek cfg wh) := by
  unfold peek
  apply Keeps.bind (Keeps.getW _); intro w
  split <;> first | exact Keeps.pure _ _ | exact Keeps.throw _ _

theorem writeFile_ku (side : Side) (name : Path) (perm : Nat) (src : WHandle) : KU (writeFile cfg side name perm src) := by
  unfold writeFile
  apply Keeps.bind (primOpen_ku hu side _); intro dst
  apply Keeps.bind (peek_ku src); intro data
  apply Keeps.bind (Keeps.attempt (copyChunks_ku hu dst src 0 _)); intro r
  apply Keeps.bind (Keeps.attempt (by unfold hClose; exact primH_ku _ _ _ _)); intro c
  cases r with
  | error e => exact Keeps.throw _ _
  | ok u => cases c with
    | error e => exact Keeps.throw _ _
    | ok u' => exact Keeps.pure _ _

theorem copyFile_ku (side : Side) (name : Path) (info : Info) (src : WHandle) : KU (copyFile cfg side name info src) := by
  unfold copyFile
  apply wrapped_ku
  apply Keeps.ite (Keeps.throw _ _)
  apply Keeps.bind (writeFile_ku hu side name _ src); intro _
  apply Keeps.bind (ignorePerm_ku (chownTo_ku hu side info name)); intro _
  apply Keeps.bind (primInfo_ku hu side _); intro cur
  apply Keeps.bind (Keeps.whenM (primUnit_ku hu side _)); intro _
  exact Keeps.whenM (ignorePerm_ku (primUnit_ku hu side _))

theorem copySymlink_ku (source target : Side) (name : Path) (info : Info) : KU (copySymlink cfg source target name info) := by
  unfold copySymlink
  apply wrapped_ku
  apply Keeps.ite (Keeps.throw _ _)
  apply Keeps.bind (primStr_ku hu source _); intro _
  apply Keeps.bind (primUnit_ku hu target _); intro _
  exact ignorePerm_ku (primUnit_ku hu target _)

theorem resolveLoop_ku : ∀ (fuel : Nat) (l : List Path) (last : Path) (fi : Option Info),
    KU (resolveLoop cfg fuel l last fi)
  | 0, _, _, _ => by unfold resolveLoop; exact Keeps.pure _ _
  | _ + 1, [], _, _ => by unfold resolveLoop; exact Keeps.pure _ _
  | fuel + 1, p :: rest, _, _ => by
    unfold resolveLoop
    apply Keeps.bind (Keeps.attempt (primInfo_ku hu .base _)); intro r
    cases r with
    | error e => exact Keeps.ite (Keeps.pure _ _) (Keeps.throw _ _)
    | ok fi =>
      simp only
      apply Keeps.ite
      · apply Keeps.bind (primStr_ku hu .base _); intro linked
        exact resolveLoop_ku fuel _ _ _
      · exact resolveLoop_ku fuel _ _ _

theorem realPath_ku (name : Path) : KU (realPath cfg name) := by
  unfold realPath resolvePathWithInfo
  apply Keeps.bind
  · apply Keeps.ite (Keeps.throw _ _)
    exact resolveLoop_ku hu _ _ _ _
  · intro r; exact Keeps.pure _ _

omit hu in
theorem setInfo_ku (p : Path) (i : Option Info) : KU (setInfo p i) := by
  intro w
  unfold setInfo modifyW
  simp only
  split <;> rfl

theorem backupRequired_ku (p : Path) : KU (backupRequired cfg p) := by
  unfold backupRequired lookupInfo
  apply Keeps.bind
  · apply Keeps.bind (Keeps.getW _); intro w; exact Keeps.pure _ _
  intro r
  cases r with
  | some info => exact Keeps.pure _ _
  | none =>
    simp only
    apply Keeps.bind (Keeps.attempt (primInfo_ku hu .base _)); intro r
    cases r with
    | error e =>
      simp only
      apply Keeps.ite
      · apply Keeps.bind (setInfo_ku _ _); intro _; exact Keeps.pure _ _
      · exact Keeps.throw _ _
    | ok info => exact Keeps.pure _ _

theorem backupDirsVisit_ku : ∀ l : List Path, KU (backupDirsVisit cfg l)
  | [] => by unfold backupDirsVisit; exact Keeps.pure _ _
  | sub :: rest => by
    unfold backupDirsVisit
    apply Keeps.bind (backupRequired_ku hu sub); intro r
    obtain ⟨fi, required⟩ := r
    simp only
    apply Keeps.ite (backupDirsVisit_ku rest)
    cases fi with
    | none => exact backupDirsVisit_ku rest
    | some i =>
      simp only
      apply Keeps.bind (copyDir_ku hu .backup sub i); intro _
      apply Keeps.bind (setInfo_ku _ _); intro _
      exact backupDirsVisit_ku rest

theorem tryBackup_ku (p : Path) : KU (tryBackup cfg p) := by
  unfold tryBackup
  apply Keeps.bind (backupRequired_ku hu p); intro r
  obtain ⟨info, needsBackup⟩ := r
  simp only
  apply Keeps.bind (by unfold backupDirs; exact backupDirsVisit_ku hu _); intro _
  apply Keeps.ite (Keeps.pure _ _)
  cases info with
  | none => exact Keeps.pure _ _
  | some i =>
    simp only
    apply Keeps.ite (Keeps.pure _ _)
    apply Keeps.ite
    · apply Keeps.bind (primOpen_ku hu .base _); intro sf
      apply Keeps.bind
      · apply Keeps.attempt
        apply Keeps.bind (copyFile_ku hu .backup p i sf); intro _
        exact setInfo_ku _ _
      intro r
      apply Keeps.bind (Keeps.attempt (by unfold hClose; exact primH_ku _ _ _ _)); intro _
      cases r with
      | ok u => exact Keeps.pure _ _
      | error e => exact Keeps.throw _ _
    · apply Keeps.bind (copySymlink_ku hu .base .backup p i); intro _
      exact setInfo_ku _ _

theorem prepare_ku (name : Path) : KU (prepare cfg name) := by
  unfold prepare
  apply Keeps.bind (realPath_ku hu name); intro r
  apply Keeps.bind (tryBackup_ku hu r); intro _
  exact Keeps.pure _ _

end

end BFS
