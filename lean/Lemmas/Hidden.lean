import Lemmas.Prefix
/-! `isHidden` is component-wise containment in some hidden path. -/
namespace BFS
open HiddenFS

theorem not_climb_dot : ¬ (hasPrefix dot relParent = true) ∧ dot ≠ dotdot := by decide

/-- `isInHiddenPath name h = some true` exactly when `relInside h name` accepts -/
theorem isInHiddenPath_true_iff {name h : Path} :
    isInHiddenPath name h = some true ↔ (relInside h name).isSome = true := by
  unfold isInHiddenPath relInside
  cases hr : rel h name with
  | none => simp
  | some r =>
    simp only
    by_cases hd : r = dot
    · subst hd
      have := not_climb_dot
      simp [this.1, this.2]
    · by_cases hc : (hasPrefix r relParent = true ∨ r = dotdot)
      · have h1 : (!decide (r = dot) && (hasPrefix r relParent || decide (r = dotdot))) = true := by
          simp [hd]; exact hc
        have h2 : (decide (r = dotdot) || hasPrefix r relParent) = true := by
          simp; exact hc.symm
        simp [h1, h2]
      · have hc' : ¬ hasPrefix r relParent = true ∧ r ≠ dotdot := not_or.mp hc
        have h1 : (!decide (r = dot) && (hasPrefix r relParent || decide (r = dotdot))) = false := by
          simp [hc'.1, hc'.2]
        have h2 : (decide (r = dotdot) || hasPrefix r relParent) = false := by
          simp [hc'.1, hc'.2]
        simp [h1, h2]

theorem isInHiddenPath_of_within {name h : Path} (hw : Within h name) :
    isInHiddenPath name h = some true :=
  isInHiddenPath_true_iff.mpr (relInside_isSome_iff.mpr hw)

theorem within_of_isInHiddenPath {name h : Path} (hh : isInHiddenPath name h = some true) :
    Within h name :=
  relInside_isSome_iff.mp (isInHiddenPath_true_iff.mp hh)

theorem within_clean_right {h name : Path} : Within h (clean name) ↔ Within h name := by
  unfold Within; rw [cleanC_clean]

theorem isHiddenLoop_true {n : Path} : ∀ {hs : List Path}, isHiddenLoop n hs = .ok true →
    ∃ h ∈ hs, Within h n
  | [], hh => by simp [isHiddenLoop] at hh
  | h :: hs, hh => by
    simp only [isHiddenLoop] at hh
    cases hi : isInHiddenPath n h with
    | none => rw [hi] at hh; cases hh
    | some b =>
      rw [hi] at hh
      cases b with
      | true => exact ⟨h, by simp, within_of_isInHiddenPath hi⟩
      | false =>
        obtain ⟨h', hm, hw⟩ := isHiddenLoop_true (hs := hs) hh
        exact ⟨h', List.mem_cons_of_mem _ hm, hw⟩

theorem isHiddenLoop_false {n : Path} : ∀ {hs : List Path}, isHiddenLoop n hs = .ok false →
    ∀ h ∈ hs, ¬ Within h n
  | [], _ => by simp
  | h :: hs, hh => by
    simp only [isHiddenLoop] at hh
    cases hi : isInHiddenPath n h with
    | none => rw [hi] at hh; cases hh
    | some b =>
      rw [hi] at hh
      cases b with
      | true => cases hh
      | false =>
        intro h' hm hw
        rcases List.mem_cons.mp hm with rfl | hm
        · rw [isInHiddenPath_of_within hw] at hi; cases hi
        · exact isHiddenLoop_false (hs := hs) hh h' hm hw

theorem isHiddenLoop_of_within {n : Path} : ∀ {hs : List Path}, (∃ h ∈ hs, Within h n) →
    isHiddenLoop n hs = .ok true ∨ isHiddenLoop n hs = .error .hiddenCheck
  | [], ⟨_, hm, _⟩ => by simp at hm
  | h :: hs, ⟨h', hm, hw⟩ => by
    simp only [isHiddenLoop]
    cases hi : isInHiddenPath n h with
    | none => right; rfl
    | some b =>
      cases b with
      | true => left; rfl
      | false =>
        simp only
        rcases List.mem_cons.mp hm with rfl | hm
        · rw [isInHiddenPath_of_within hw] at hi; cases hi
        · exact isHiddenLoop_of_within ⟨h', hm, hw⟩

/-- the loop reports an error only if some hidden path is incomparable with the name -/
theorem isHiddenLoop_error {n : Path} {e : Err} : ∀ {hs : List Path}, isHiddenLoop n hs = .error e →
    e = .hiddenCheck ∧ ∃ h ∈ hs, rel h n = none
  | [], hh => by simp [isHiddenLoop] at hh
  | h :: hs, hh => by
    simp only [isHiddenLoop] at hh
    cases hi : isInHiddenPath n h with
    | none =>
      rw [hi] at hh; cases hh
      refine ⟨rfl, h, by simp, ?_⟩
      unfold isInHiddenPath at hi
      cases hr : rel h n with
      | none => rfl
      | some r => rw [hr] at hi; simp at hi; split at hi <;> cases hi
    | some b =>
      rw [hi] at hh
      cases b with
      | true => cases hh
      | false =>
        obtain ⟨he, h', hm, hr⟩ := isHiddenLoop_error (hs := hs) hh
        exact ⟨he, h', List.mem_cons_of_mem _ hm, hr⟩

/-- the paths that `filepath.Rel` can relate: same rootedness, and an unrooted base must not
start with `..` below the common part (always true for rooted paths) -/
def Comparable (hs : List Path) (name : Path) : Prop := ∀ h ∈ hs, rel h (clean name) ≠ none

instance (hs : List Path) (name : Path) : Decidable (Comparable hs name) :=
  inferInstanceAs (Decidable (∀ h ∈ hs, rel h (clean name) ≠ none))

theorem isParentLoop_error {n : Path} {e : Err} : ∀ {hs : List Path}, isParentLoop n hs = .error e →
    e = .parentCheck
  | [], hh => by simp [isParentLoop] at hh
  | h :: hs, hh => by
    simp only [isParentLoop] at hh
    split at hh
    · cases hh; rfl
    · cases hh
    · exact isParentLoop_error (hs := hs) hh

theorem isParentOfHidden_error {n : Path} {e : Err} {hs : List Path}
    (h : isParentOfHidden n hs = .error e) : e = .parentCheck := by
  unfold isParentOfHidden at h
  split at h
  · cases h
  · exact isParentLoop_error h

theorem isHidden_true {name : Path} {hs : List Path} (h : isHidden name hs = .ok true) :
    ∃ h ∈ hs, Within h name := by
  unfold isHidden at h
  split at h
  · cases h
  · obtain ⟨h', hm, hw⟩ := isHiddenLoop_true h
    exact ⟨h', hm, within_clean_right.mp hw⟩

theorem isHidden_false {name : Path} {hs : List Path} (h : isHidden name hs = .ok false) :
    ∀ h ∈ hs, ¬ Within h name := by
  unfold isHidden at h
  split at h
  · rename_i e; subst e; simp
  · intro h' hm hw
    exact isHiddenLoop_false h h' hm (within_clean_right.mpr hw)

theorem isHidden_of_within {name : Path} {hs : List Path} (h : ∃ h ∈ hs, Within h name) :
    isHidden name hs = .ok true ∨ isHidden name hs = .error .hiddenCheck := by
  unfold isHidden
  obtain ⟨h', hm, hw⟩ := h
  have hne : hs ≠ [] := by intro e; subst e; simp at hm
  simp only [hne, if_false]
  exact isHiddenLoop_of_within ⟨h', hm, within_clean_right.mpr hw⟩

theorem isHidden_of_within_comparable {name : Path} {hs : List Path}
    (h : ∃ h ∈ hs, Within h name) (hc : Comparable hs name) : isHidden name hs = .ok true := by
  rcases isHidden_of_within h with h1 | h1
  · exact h1
  · exfalso
    unfold isHidden at h1
    split at h1
    · cases h1
    · obtain ⟨_, h', hm, hr⟩ := isHiddenLoop_error h1
      exact hc h' hm hr

theorem isHidden_visible {name : Path} {hs : List Path}
    (hv : ∀ h ∈ hs, ¬ Within h name) (hc : Comparable hs name) : isHidden name hs = .ok false := by
  cases hh : isHidden name hs with
  | error e =>
    exfalso
    unfold isHidden at hh
    split at hh
    · cases hh
    · obtain ⟨_, h', hm, hr⟩ := isHiddenLoop_error hh
      exact hc h' hm hr
  | ok b =>
    cases b with
    | false => rfl
    | true =>
      obtain ⟨h', hm, hw⟩ := isHidden_true hh
      exact absurd hw (hv h' hm)

theorem hguard_ok {hs : List Path} {n : Path} {e : Err} (h : hguard hs n e = .ok ()) :
    isHidden n hs = .ok false := by
  unfold hguard at h
  cases hh : isHidden n hs with
  | error e' => rw [hh] at h; cases h
  | ok b => cases b with
    | true => rw [hh] at h; cases h
    | false => rfl

theorem hguard_of_visible {hs : List Path} {n : Path} (e : Err) (h : isHidden n hs = .ok false) :
    hguard hs n e = .ok () := by
  unfold hguard; rw [h]

theorem hguard_of_hidden {hs : List Path} {n : Path} (e : Err) (h : isHidden n hs = .ok true) :
    hguard hs n e = .error e := by
  unfold hguard; rw [h]

end BFS
