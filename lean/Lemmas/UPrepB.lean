import Lemmas.UInvB
import Lemmas.TPrep
/-!
  Lemmas/UPrepB.lean — the key lemma of C03 for the symlink development: on healthy filesystems, under the
  transaction invariant `L.Inv` and the backup-side clauses `U.BInvL`, `tryBackup (kp k)` for a key none of
  whose proper ancestors is a symlink

  * keeps `L.Inv` and `BInvL` and never changes the base view (`AdvBL`),
  * either succeeds, all prefixes of `k` then being tracked,
  * or fails — and then only with `errDirInfoExpected` (class `typeMismatch`) raised by `copyDir` in
    `backupDirs`, because a proper ancestor of `k` is, in the base view, an untracked regular file
    (`FileAnc`; the direct call then fails with ENOTDIR).

  `Lemmas/LTrack.lean` (every fault plan) and `Lemmas/TPrep.lean` (link-free, with reasons) in one.  When `k`
  is a symlink its copy needs the BACKUP side to admit the link (`LinkOK .backup`).
-/
namespace BFS
namespace U
open BackupFS

variable {cfg : Cfg} {S : L.LSim cfg} {v0 : View} {r0 : Option Node}

/-! ### backupRequired -/

theorem sat_backupRequiredBL {k : Key} {w : World} (hinv : L.Inv S v0 w) (hb : BInvL S r0 w) (hk : PKey k)
    (hacc : L.NoLinkAnc (S.view .base w.fs) k) :
    Sat (backupRequired cfg (kp k)) w (fun w' r => AdvBL S v0 r0 w w' ∧ OnlyAdded (· = k) w w' ∧
      ∃ oi req, r = .ok (oi, req) ∧
        (req = false → w'.infos.lookup (kp k) = some oi) ∧
        (req = true → w'.infos.lookup (kp k) = none ∧
          ∃ i n, oi = some i ∧ S.view .base w'.fs k = some n ∧ L.InfoForL i n)) := by
  unfold backupRequired lookupInfo
  apply Sat.bind
  apply Sat.bind
  apply Sat.getW
  simp only
  apply Sat.pure
  simp only
  cases hl : w.infos.lookup (kp k) with
  | some info =>
    simp only
    apply Sat.pure
    exact ⟨AdvBL.refl hinv hb, OnlyAdded.refl w, info, false, rfl, fun _ => hl, fun h => by cases h⟩
  | none =>
    simp only
    apply Sat.bind
    apply Sat.attempt
    apply (L.sat_lstat hinv.good hk hacc).mono
    intro w1 r ⟨hs, hr⟩
    have hinv1 := hinv.of_same hs
    have hb1 := hb.of_same hs
    have hl1 : w1.infos.lookup (kp k) = none := by rw [hs.infos]; exact hl
    simp only
    rcases hr with ⟨n, i, hv, rfl, hfor⟩ | ⟨hv, e, rfl, hnf⟩ | ⟨rfl, hf⟩
    · simp only
      apply Sat.pure
      exact ⟨AdvBL.of_same hinv hb hs, OnlyAdded.of_infos hs.infos, some i, true, rfl,
        fun h => (by cases h), fun _ => ⟨hl1, i, n, rfl, (by rw [hs.fs]; exact hv), hfor⟩⟩
    · simp only [hnf, if_true]
      apply Sat.bind
      have hv1 : S.view .base w1.fs k = none := by rw [hs.fs]; exact hv
      apply Sat.of_eq (setInfo_untracked hl1)
      simp only
      apply Sat.pure
      have hadd := L.Adv.add (S := S) (v0 := v0) (x := none) hk hl1
        (hinv1.add_none hk hl1 hv1 (by rw [hs.fs]; exact hacc))
      refine ⟨⟨(L.Adv.of_same hinv hs).trans hadd, hb1.add_plain (fun _ _ _ _ _ h => by cases h)⟩,
        (OnlyAdded.of_infos hs.infos).trans (OnlyAdded.add hk), none, false, rfl,
        fun _ => lookup_snoc_self hl1, fun h => by cases h⟩
    · exact absurd hb.nofault hf

/-! ### backupDirs -/

/-- one step of the `backupDirs` visitor: it stops only at an untracked regular file -/
theorem sat_visit_consTL {a : Key} {rest : List Path} {w : World} {Q : World → Except Err Unit → Prop}
    (hinv : L.Inv S v0 w) (hb : BInvL S r0 w) (ha : PKey a) (hacc : L.NoLinkAnc (S.view .base w.fs) a)
    (hnl : ¬ Tracked w a → ¬ L.isLinkAt (S.view .base w.fs) a)
    (hpre : ∀ b, b <+: a → b ≠ a → Tracked w b)
    (hstop : ∀ w', AdvBL S v0 r0 w w' → OnlyAdded (· = a) w w' → (S.view .base w.fs).isFileAt a →
      ¬ Tracked w a → Q w' (.error .typeMismatch))
    (hnext : ∀ w', AdvBL S v0 r0 w w' → OnlyAdded (· = a) w w' → Tracked w' a →
      Sat (backupDirsVisit cfg rest) w' Q) :
    Sat (backupDirsVisit cfg (kp a :: rest)) w Q := by
  unfold backupDirsVisit
  apply Sat.bind
  apply (sat_backupRequiredBL hinv hb ha hacc).mono
  intro w1 r ⟨hadv1, hon1, fi, required, hr, hfalse, htrue⟩
  subst hr
  simp only
  cases required with
  | false =>
    simp only [Bool.not_false, if_true]
    apply hnext w1 hadv1 hon1
    unfold Tracked
    rw [(hfalse rfl)]
    simp
  | true =>
    simp only [Bool.not_true, Bool.false_eq_true, if_false]
    obtain ⟨hun1, i, n, rfl, hv1, hfor⟩ := htrue rfl
    simp only
    have hinv1 := hadv1.adv.inv
    have hb1 := hadv1.b
    have hg1 := hinv1.good
    have hbase1 := hadv1.adv.base
    cases hisd : i.isDir with
    | false =>
      -- `copyDir` refuses before any call: the entry is a regular file
      apply Sat.bind
      apply Sat.of_eq (copyDir_not_dir hisd)
      apply hstop _ hadv1 hon1
      · rw [← hbase1]
        cases n with
        | file c mt => exact ⟨c, mt, hv1⟩
        | dir mt =>
          have : i.kind = .dir := hfor.1
          simp [Info.isDir, this] at hisd
        | link t mt =>
          exact absurd ⟨t, mt, by rw [← hbase1]; exact hv1⟩
            (hnl (fun ht => (ht.monoL hadv1.adv) hun1))
      · intro ht
        have := ht.monoL hadv1.adv
        exact this hun1
    | true =>
      obtain ⟨mt, hn⟩ := L.infoForL_dir hfor hisd
      subst hn
      have hanc : ∀ b, b <+: a → b ≠ a → w1.infos.lookup (kp b) ≠ none :=
        fun b hb' hne => (hpre b hb' hne).monoL hadv1.adv
      by_cases hroot : a = []
      · -- the root itself: nothing is copied
        subst hroot
        apply Sat.bind
        apply Sat.of_eq (copyDir_root (cfg := cfg) (s := .backup) (i := i) (w := w1) hisd)
        simp only
        have hinv3 := hinv1.add_some (i := i) ha hun1 hv1 hfor
          (by intro c mt' e; cases e) (by intro t mt' e; cases e) hanc
        have hb3 := hb1.add_plain (q := kp []) (x := some i)
          (fun j _ hj hjne e _ => hjne (kp_inj hj PKey.nil e.symm))
        apply Sat.bind
        apply Sat.of_eq (setInfo_untracked hun1)
        simp only
        have hadv3 : AdvBL S v0 r0 w1 (addInfo w1 (kp []) (some i)) :=
          ⟨L.Adv.add (S := S) (v0 := v0) (x := some i) ha hun1 hinv3, hb3⟩
        apply hnext _ (hadv1.trans hadv3) (hon1.trans (OnlyAdded.add ha))
        unfold Tracked
        rw [show (addInfo w1 (kp []) (some i)).infos.lookup (kp []) = some (some i) from
          lookup_snoc_self hun1]
        simp
      · have hperm : i.perm < 4096 := by rw [hfor.2.1]; exact S.mode_lt hg1 hv1
        have hpar : (S.view .backup w1.fs).parentDir a :=
          ⟨hroot, parent_bdirL hinv1 hb1 ha hroot hun1 (by rw [hv1]; simp)
            (hanc a.dropLast (List.dropLast_prefix a) (by
              intro e
              have := congrArg List.length e
              rw [List.length_dropLast] at this
              have := List.length_pos_iff.mpr hroot
              omega))⟩
        apply Sat.bind
        apply (L.sat_copyDir_strong (S := S) (s := .backup) (i := i) hg1 ha hroot hisd hperm hpar
          (Or.inl (hb1.absent hroot hun1))).mono
        intro w2 r2 ⟨hc2, hof2, hp2⟩
        obtain ⟨u, hr⟩ := OnlyFault.nofault hof2 hb1.nofault
        subst hr
        simp only
        have hadv2 : L.Adv S v0 w1 w2 := L.Adv.backup_soft hinv1 ha hun1 hc2.soft
        have hun2 : w2.infos.lookup (kp a) = none := by rw [hc2.infos]; exact hun1
        have hv2 : S.view .base w2.fs a = some (.dir mt) := by rw [hadv2.base]; exact hv1
        have hinv3 := hadv2.inv.add_some (i := i) ha hun2 hv2 hfor
          (by intro c mt' e; cases e) (by intro t mt' e; cases e)
          (fun b hb' hne => ((hpre b hb' hne).monoL hadv1.adv).monoL hadv2)
        have hb3 := hb1.add_some (i := i) ha hroot hun1 hc2.toChgL (fun _ => ⟨_, hp2 rfl⟩)
        apply Sat.bind
        apply Sat.of_eq (setInfo_untracked hun2)
        simp only
        have hadv3 : L.Adv S v0 w2 (addInfo w2 (kp a) (some i)) := L.Adv.add ha hun2 hinv3
        apply hnext _ (hadv1.trans ⟨hadv2.trans hadv3, hb3⟩)
          ((hon1.trans (OnlyAdded.of_infos hc2.infos)).trans (OnlyAdded.add ha))
        unfold Tracked
        rw [show (addInfo w2 (kp a) (some i)).infos.lookup (kp a) = some (some i) from
          lookup_snoc_self hun2]
        simp

/-- why a run of the visitor failed: `errDirInfoExpected` at an untracked regular file on the chain -/
def VisitFailL (S : L.LSim cfg) (w : World) (k : Key) (r : Except Err Unit) : Prop :=
  ∀ e, r = .error e → e = .typeMismatch ∧ ∃ a, a <+: k ∧ (S.view .base w.fs).isFileAt a ∧ ¬ Tracked w a

theorem VisitFailL.of_later {w w' : World} {k k' : Key} {r : Except Err Unit} (hadv : AdvBL S v0 r0 w w')
    (hp : k <+: k') (h : VisitFailL S w' k r) : VisitFailL S w k' r := by
  intro e he
  obtain ⟨h1, a, ha, hf, hu⟩ := h e he
  refine ⟨h1, a, List.IsPrefix.trans ha hp, ?_, fun ht => hu (ht.monoL hadv.adv)⟩
  rw [← hadv.adv.base]; exact hf

theorem sat_visitTL : ∀ (xs : List Name) (pre : Key) (w : World), PKey (pre ++ xs) → L.Inv S v0 w → BInvL S r0 w →
    L.NoLinkAnc (S.view .base w.fs) (pre ++ xs) →
    (∀ b, b <+: pre ++ xs → ¬ Tracked w b → ¬ L.isLinkAt (S.view .base w.fs) b) →
    (∀ b, b <+: pre → Tracked w b) →
    Sat (backupDirsVisit cfg ((inits1 xs).map (fun l => kp (pre ++ l)))) w (fun w' r =>
      AdvBL S v0 r0 w w' ∧ OnlyAdded (· <+: pre ++ xs) w w' ∧
        (r = .ok () → ∀ b, b <+: pre ++ xs → Tracked w' b) ∧ VisitFailL S w (pre ++ xs) r)
  | [], pre, w, _, hinv, hb, _, _, hpre => by
    simp only [inits1, List.map_nil, backupDirsVisit, List.append_nil]
    apply Sat.pure
    exact ⟨AdvBL.refl hinv hb, OnlyAdded.refl w, fun _ => hpre, fun e h => by cases h⟩
  | x :: xs, pre, w, hpk, hinv, hb, hacc, hnl, hpre => by
    have hlist : (inits1 (x :: xs)).map (fun l => kp (pre ++ l)) =
        kp (pre ++ [x]) :: (inits1 xs).map (fun l => kp ((pre ++ [x]) ++ l)) := by
      simp [inits1, List.map_map, Function.comp_def]
    rw [hlist]
    have happ : (pre ++ [x]) ++ xs = pre ++ x :: xs := by simp
    have hsubp : pre ++ [x] <+: pre ++ x :: xs := ⟨xs, happ⟩
    have ha : PKey (pre ++ [x]) := hpk.of_prefix hsubp
    have hsub : ∀ j, j = pre ++ [x] → j <+: pre ++ x :: xs := by
      intro j hj; subst hj; exact hsubp
    apply sat_visit_consTL hinv hb ha (hacc.of_prefix hsubp) (hnl _ hsubp)
    · intro b hb' hne
      rcases prefix_snoc_iff.mp hb' with h | h
      · exact hpre b h
      · exact absurd h hne
    · intro w' hadv hon hfile hun
      refine ⟨hadv, hon.mono hsub, (fun h => by cases h), ?_⟩
      intro e he
      cases he
      exact ⟨rfl, pre ++ [x], hsubp, hfile, hun⟩
    · intro w' hadv hon htr
      have hpre' : ∀ b, b <+: pre ++ [x] → Tracked w' b := by
        intro b hb'
        rcases prefix_snoc_iff.mp hb' with h | h
        · exact (hpre b h).monoL hadv.adv
        · subst h; exact htr
      have ih := sat_visitTL xs (pre ++ [x]) w' (by rw [happ]; exact hpk) hadv.adv.inv hadv.b
        (by rw [happ, hadv.adv.base]; exact hacc)
        (by
          rw [happ, hadv.adv.base]
          intro b hb' hnt
          exact hnl b hb' (fun ht => hnt (ht.monoL hadv.adv))) hpre'
      rw [happ] at ih
      apply ih.mono
      intro w'' r ⟨hadv', hon', hall, hfail⟩
      exact ⟨hadv.trans hadv', (hon.mono hsub).trans hon', hall, hfail.of_later hadv List.prefix_rfl⟩

theorem sat_backupDirsTL {d : Key} {w : World} (hinv : L.Inv S v0 w) (hb : BInvL S r0 w) (hd : PKey d)
    (hacc : L.NoLinkAnc (S.view .base w.fs) d)
    (hnl : ∀ b, b <+: d → ¬ Tracked w b → ¬ L.isLinkAt (S.view .base w.fs) b) :
    Sat (backupDirs cfg (kp d)) w (fun w' r => AdvBL S v0 r0 w w' ∧ OnlyAdded (· <+: d) w w' ∧
      (r = .ok () → ∀ b, b <+: d → Tracked w' b) ∧ VisitFailL S w d r) := by
  unfold backupDirs
  rw [iterateDirTree_kp hd]
  have hroot : rootP = kp [] := rfl
  rw [hroot]
  apply sat_visit_consTL hinv hb PKey.nil (L.NoLinkAnc.root _)
    (fun _ => L.isLinkAt_not_dir (S.root_dir hinv.good))
  · intro b hb' hne
    exact absurd (List.prefix_nil.mp hb') hne
  · intro w' hadv hon hfile hun
    refine ⟨hadv, hon.mono (fun j hj => by subst hj; exact List.nil_prefix), (fun h => by cases h), ?_⟩
    intro e he
    cases he
    exact ⟨rfl, [], List.nil_prefix, hfile, hun⟩
  · intro w' hadv hon htr
    have := sat_visitTL (cfg := cfg) d [] w' (by simpa using hd) hadv.adv.inv hadv.b
      (by simp only [List.nil_append]; rw [hadv.adv.base]; exact hacc)
      (by
        simp only [List.nil_append]
        rw [hadv.adv.base]
        intro b hb' hnt
        exact hnl b hb' (fun ht => hnt (ht.monoL hadv.adv)))
      (by intro b hb'; rw [List.prefix_nil.mp hb']; exact htr)
    simp only [List.nil_append] at this
    apply this.mono
    intro w'' r ⟨hadv', hon', hall, hfail⟩
    exact ⟨hadv.trans hadv', (hon.mono (fun j hj => by subst hj; exact List.nil_prefix)).trans hon', hall,
      hfail.of_later hadv List.prefix_rfl⟩

/-! ### tryBackup: why it fails -/

theorem sat_tryBackupTL {k : Key} {w : World} (hinv : L.Inv S v0 w) (hb : BInvL S r0 w) (hk : PKey k)
    (hacc : L.NoLinkAnc (S.view .base w.fs) k)
    (hlok : ∀ t mt, S.view .base w.fs k = some (.link t mt) → S.LinkOK .base k t ∧ S.LinkOK .backup k t) :
    Sat (tryBackup cfg (kp k)) w (fun w' r => AdvBL S v0 r0 w w' ∧ (r = .ok () → ∀ b, b <+: k → Tracked w' b) ∧
      (∀ e, r = .error e → e = .typeMismatch ∧ FileAnc (S.view .base w.fs) k)) := by
  unfold tryBackup
  apply Sat.bind
  apply (sat_backupRequiredBL hinv hb hk hacc).mono
  intro w1 r1 ⟨hadv1, hon1, info, needsBackup, hr1, hfalse, htrue⟩
  subst hr1
  simp only
  have hinv1 := hadv1.adv.inv
  have hbase1 := hadv1.adv.base
  -- the directory whose chain is backed up
  have hdir : ∀ inf : Option Info, ∃ d, PKey d ∧ backupDirPath inf (kp k) = kp d ∧ (d = k ∨ d = k.dropLast) ∧
      (∀ i, inf = some i → i.isDir = true → d = k) ∧ (∀ i, inf = some i → i.isDir = false → d = k.dropLast) ∧
      (inf = none → d = k.dropLast) := by
    intro inf
    cases inf with
    | none => exact ⟨k.dropLast, hk.dropLast, (by simp [backupDirPath, dir_kp hk]), Or.inr rfl, (by intro i h; cases h), (by intro i h; cases h), fun _ => rfl⟩
    | some i =>
      cases hd : i.isDir with
      | true =>
        refine ⟨k, hk, (by simp [backupDirPath, hd]), Or.inl rfl, fun _ _ _ => rfl, ?_, fun h => by cases h⟩
        intro i' h h'; cases h; rw [hd] at h'; cases h'
      | false =>
        refine ⟨k.dropLast, hk.dropLast, (by simp [backupDirPath, hd, dir_kp hk]), Or.inr rfl, ?_, fun _ _ _ => rfl, fun h => by cases h⟩
        intro i' h h'; cases h; rw [hd] at h'; cases h'
  obtain ⟨d, hd, hdeq, hdk, hd_dir, hd_file, hd_none⟩ := hdir info
  rw [hdeq]
  have hdpre : d <+: k := by
    rcases hdk with rfl | rfl
    · exact List.prefix_rfl
    · exact List.dropLast_prefix k
  have hacc1 : L.NoLinkAnc (S.view .base w1.fs) k := by rw [hbase1]; exact hacc
  have hk0_of : k = k.dropLast → k = [] := by
    intro e
    apply Classical.byContradiction
    intro hne
    have h2 := congrArg List.length e
    rw [List.length_dropLast] at h2
    have := List.length_pos_iff.mpr hne
    omega
  -- the key itself is, in the base view, a directory or tracked whenever its own chain is walked
  have hself : d = k → (S.view .base w1.fs).isDirAt k ∨ Tracked w1 k := by
    intro hdk'
    have hrootcase : k = k.dropLast → (S.view .base w1.fs).isDirAt k ∨ Tracked w1 k := by
      intro e
      rw [hk0_of e]
      exact Or.inl (S.root_dir hinv1.good)
    cases info with
    | none => exact hrootcase (hdk'.symm.trans (hd_none rfl))
    | some i =>
      cases hisd : i.isDir with
      | false => exact hrootcase (hdk'.symm.trans (hd_file i rfl hisd))
      | true =>
        cases needsBackup with
        | false =>
          right
          unfold Tracked
          rw [hfalse rfl]
          simp
        | true =>
          left
          obtain ⟨_, i', n, hi, hv1, hfor⟩ := htrue rfl
          cases hi
          obtain ⟨mt, rfl⟩ := L.infoForL_dir hfor hisd
          exact ⟨mt, hv1⟩
  -- untracked chain elements are not symlinks
  have hnld : ∀ b, b <+: d → ¬ Tracked w1 b → ¬ L.isLinkAt (S.view .base w1.fs) b := by
    intro b hb' hnt
    by_cases hbk : b = k
    · subst hbk
      have hdk' : d = b := L.prefix_antisymm hdpre hb'
      rcases hself hdk' with hdir' | htr
      · exact L.isLinkAt_not_dir hdir'
      · exact absurd htr hnt
    · exact hacc1 b (List.IsPrefix.trans hb' hdpre) hbk
  have hfileanc : ∀ a, a <+: d → (S.view .base w1.fs).isFileAt a → ¬ Tracked w1 a → FileAnc (S.view .base w.fs) k := by
    intro a ha hf hu
    refine ⟨a, List.IsPrefix.trans ha hdpre, ?_, by rw [← hbase1]; exact hf⟩
    intro e
    subst e
    have hdk' : d = a := L.prefix_antisymm hdpre ha
    obtain ⟨c, mt, hfv⟩ := hf
    rcases hself hdk' with ⟨mt', h⟩ | h
    · rw [hfv] at h; cases h
    · exact hu h
  apply Sat.bind
  apply (sat_backupDirsTL hinv1 hadv1.b hd (hacc1.of_prefix hdpre) hnld).mono
  intro w2 r2 ⟨hadv2, hon2, hall, hfail2⟩
  have hadv12 := hadv1.trans hadv2
  cases r2 with
  | error e =>
    refine ⟨hadv12, (by intro h; cases h), ?_⟩
    intro e' he'
    cases he'
    obtain ⟨h1, a, ha, hf, hu⟩ := hfail2 e rfl
    exact ⟨h1, hfileanc a ha hf hu⟩
  | ok u2 =>
    simp only
    have hall := hall rfl
    have hpref : ∀ w', (∀ b, b <+: d → Tracked w' b) → Tracked w' k → ∀ b, b <+: k → Tracked w' b := by
      intro w' hd' hk' b hb'
      by_cases hbk : b = k
      · subst hbk; exact hk'
      · rcases hdk with rfl | rfl
        · exact hd' b hb'
        · exact hd' b (prefix_proper_dropLast hb' hbk)
    cases needsBackup with
    | false =>
      simp only [Bool.not_false, if_true]
      apply Sat.pure
      refine ⟨hadv12, fun _ => ?_, fun e h => by cases h⟩
      have : Tracked w1 k := by unfold Tracked; rw [hfalse rfl]; simp
      exact hpref w2 hall (this.monoL hadv2.adv)
    | true =>
      simp only [Bool.not_true, Bool.false_eq_true, if_false]
      obtain ⟨hun1, i, n, rfl, hv1, hfor⟩ := htrue rfl
      simp only
      cases hisd : i.isDir with
      | true =>
        simp only [if_true]
        apply Sat.pure
        refine ⟨hadv12, fun _ => ?_, fun e h => by cases h⟩
        have := hd_dir i rfl hisd
        subst this
        exact hall
      | false =>
        simp only [Bool.false_eq_true, if_false]
        have hdl := hd_file i rfl hisd
        subst hdl
        have hkne : k ≠ [] := by
          intro e; subst e
          obtain ⟨mt', hroot⟩ := S.root_dir (s := .base) hinv1.good
          rw [hroot] at hv1; cases hv1
          simp [Info.isDir, hfor.1, Node.kind] at hisd
        have hinv2 := hadv2.adv.inv
        have hb2 := hadv2.b
        have hun2 : w2.infos.lookup (kp k) = none := by
          cases hl : w2.infos.lookup (kp k) with
          | none => rfl
          | some x =>
            exfalso
            have ht : Tracked w2 k := by unfold Tracked; rw [hl]; simp
            rcases hon2 k hk ht with h | h
            · exact h hun1
            · exact not_prefix_dropLast hkne h
        have hv2 : S.view .base w2.fs k = some n := by rw [hadv2.adv.base]; exact hv1
        have hg2 := hinv2.good
        -- the backup side of `k`: not reached through a symlink, absent, below a directory
        have haccb2 : L.NoLinkAnc (S.view .backup w2.fs) k :=
          hinv2.backup_noLinkAnc hk hun2 (by rw [hv2]; simp)
            (fun b hb' hne => hall b (prefix_proper_dropLast hb' hne))
        have habs2 : S.view .backup w2.fs k = none := hb2.absent hkne hun2
        have hpar2 : (S.view .backup w2.fs).parentDir k :=
          ⟨hkne, parent_bdirL hinv2 hb2 hk hkne hun2 (by rw [hv2]; simp) (hall _ List.prefix_rfl)⟩
        cases hreg : i.isRegular with
        | true =>
          simp only [if_true]
          -- the node is a regular file
          obtain ⟨c, mt, hn⟩ : ∃ c mt, n = .file c mt := by
            have hkd := hfor.1
            cases n with
            | file c mt => exact ⟨c, mt, rfl⟩
            | dir mt => simp [Info.isRegular, hkd, Node.kind] at hreg
            | link t mt => simp [Info.isRegular, hkd, Node.kind] at hreg
          subst hn
          apply Sat.bind
          apply (L.sat_open_ro (S := S) hg2 hk (S.accF_present hg2 hv2 rfl)).mono
          intro w3 r3 ⟨hs3, hwh, hof3⟩
          have hadv23 := AdvBL.of_same hinv2 hb2 hs3
          have hadv3 : AdvBL S v0 r0 w w3 := hadv12.trans hadv23
          obtain ⟨sf, hsf⟩ := OnlyFault.nofault (hof3 (Or.inl ⟨c, mt, hv2⟩)) hb2.nofault
          subst hsf
          simp only
          obtain ⟨hside, hH, hflag⟩ := hwh sf rfl
          have hinv3 := hadv3.adv.inv
          have hb3 := hadv3.b
          have hun3 : w3.infos.lookup (kp k) = none := by rw [hs3.infos]; exact hun2
          have hv3 : S.view .base w3.fs k = some (.file c mt) := by rw [hs3.fs]; exact hv2
          have haccb3 : L.AccF (S.view .backup w3.fs) k := by
            rw [hs3.fs]
            exact ⟨haccb2, hinv2.backup_notLink hun2 (L.isLinkAt_not_file ⟨c, mt, hv2⟩)⟩
          have hall3 : ∀ b, b <+: k.dropLast → Tracked w3 b := fun b hb' => (hall b hb').monoL hadv23.adv
          apply Sat.bind
          apply Sat.attempt
          -- copy, then record
          have hcopy : Sat (do copyFile cfg .backup (kp k) i sf; setInfo (kp k) (some i) : M Unit) w3
              (fun w' r => AdvBL S v0 r0 w3 w' ∧ (r = .ok () → Tracked w' k) ∧ ∃ u, r = .ok u) := by
            apply Sat.bind
            apply (L.sat_copyFile (S := S) (s := .backup) (ks := k) (data := c) (mt0 := mt) hinv3.good hk haccb3
              hside hH (by rw [hflag]; decide) hv3 hreg
              (by rw [hfor.2.1]; exact S.mode_lt hinv3.good hv3)).mono
            intro w4 r4 ⟨hc4, hp4, hof4⟩
            have hcw : CanWrite (S.view .backup w3.fs) k := by
              rw [hs3.fs]
              exact Or.inr ⟨habs2, hpar2⟩
            obtain ⟨u4, hr4⟩ := OnlyFault.nofault (hof4 hcw) hb3.nofault
            subst hr4
            have hadv4 : L.Adv S v0 w3 w4 := L.Adv.backup_soft hinv3 hk hun3 hc4.soft
            simp only
            have hun4 : w4.infos.lookup (kp k) = none := by rw [hc4.infos]; exact hun3
            apply Sat.of_eq (setInfo_untracked hun4)
            have hv4 : S.view .base w4.fs k = some (.file c mt) := by rw [hadv4.base]; exact hv3
            have hinv5 := hadv4.inv.add_some (i := i) hk hun4 hv4 hfor
              (by
                intro c' mt' hn
                cases hn
                exact ⟨_, hp4 rfl⟩)
              (by intro t mt' e; cases e)
              (by
                intro b hb' hne
                exact (hall3 b (prefix_proper_dropLast hb' hne)).monoL hadv4)
            have hb5 := hb3.add_some (i := i) hk hkne hun3 hc4.toChgL
              (fun h => by rw [hfor.1] at h; cases h)
            refine ⟨⟨hadv4.trans (L.Adv.add hk hun4 hinv5), hb5⟩, fun _ => ?_, ⟨_, rfl⟩⟩
            unfold Tracked
            rw [show (addInfo w4 (kp k) (some i)).infos.lookup (kp k) = some (some i) from lookup_snoc_self hun4]
            simp
          apply hcopy.mono
          intro w5 r5 ⟨hadv5, htr5, hok5⟩
          obtain ⟨u5, hu5⟩ := hok5
          subst hu5
          simp only
          apply Sat.bind
          apply Sat.attempt
          apply (sat_hClose (wh := sf) (w := w5)).mono
          intro w6 r6 ⟨hs6, _⟩
          simp only
          have hadv56 := AdvBL.of_same hadv5.adv.inv hadv5.b hs6
          have hadv6 : AdvBL S v0 r0 w w6 := (hadv3.trans hadv5).trans hadv56
          cases u5
          refine ⟨hadv6, fun _ => ?_, fun e h => by cases h⟩
          have hk6 : Tracked w6 k := (htr5 rfl).monoL hadv56.adv
          apply hpref w6 _ hk6
          intro b hb'
          exact ((hall3 b hb').monoL hadv5.adv).monoL hadv56.adv
        | false =>
          simp only [Bool.false_eq_true, if_false]
          -- the node is a symlink
          obtain ⟨t, mt, hn⟩ : ∃ t mt, n = .link t mt := by
            have hkd := hfor.1
            cases n with
            | link t mt => exact ⟨t, mt, rfl⟩
            | dir mt => simp [Info.isDir, hkd, Node.kind] at hisd
            | file c mt => simp [Info.isRegular, hkd, Node.kind] at hreg
          subst hn
          have hlink2 : L.isLinkAt (S.view .base w2.fs) k := ⟨t, mt, hv2⟩
          have hvw : S.view .base w.fs k = some (.link t mt) := by rw [← hadv12.adv.base]; exact hv2
          obtain ⟨hlokbase, hlokbk⟩ := hlok t mt hvw
          have hsym : i.isSymlink = true := by
            unfold Info.isSymlink
            rw [hfor.1]; rfl
          apply Sat.bind
          have hcs := L.sat_copySymlink (cfg := cfg) (S := S) (s := .backup) (i := i) hg2 hk haccb2
            (show S.view Side.backup.other w2.fs k = some (.link t mt) from hv2)
          apply hcs.mono
          intro w3 r3 ⟨hc3, hp3, hof3⟩
          obtain ⟨u3, hr3⟩ := OnlyFault.nofault (hof3 habs2 hpar2 hlokbk hsym) hb2.nofault
          subst hr3
          have hadv3' : L.Adv S v0 w2 w3 := L.Adv.backup_link hinv2 hk hun2 hlink2 hc3
          simp only
          have hun3 : w3.infos.lookup (kp k) = none := by rw [hc3.infos]; exact hun2
          apply Sat.of_eq (setInfo_untracked hun3)
          have hv3 : S.view .base w3.fs k = some (.link t mt) := by rw [hadv3'.base]; exact hv2
          obtain ⟨mt', hb3', _, _⟩ := hp3 rfl
          have hinv4 := hadv3'.inv.add_some (i := i) hk hun3 hv3 hfor
            (by intro c' mt'' e; cases e)
            (by
              intro t' mt'' e
              cases e
              exact ⟨⟨mt', hb3'⟩, hlokbase⟩)
            (by
              intro b hb' hne
              exact (hall b (prefix_proper_dropLast hb' hne)).monoL hadv3')
          have hadv4 := L.Adv.add (S := S) (v0 := v0) (x := some i) hk hun3 hinv4
          have hb4 := hb2.add_some (i := i) hk hkne hun2 hc3 (fun h => by rw [hfor.1] at h; cases h)
          refine ⟨hadv12.trans ⟨hadv3'.trans hadv4, hb4⟩, fun _ => ?_, fun e h => by cases h⟩
          have hk4 : Tracked (addInfo w3 (kp k) (some i)) k := by
            unfold Tracked
            rw [show (addInfo w3 (kp k) (some i)).infos.lookup (kp k) = some (some i) from lookup_snoc_self hun3]
            simp
          apply hpref _ _ hk4
          intro b hb'
          exact ((hall b hb').monoL hadv3').monoL hadv4

end U
end BFS
