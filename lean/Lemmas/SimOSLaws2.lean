import Lemmas.SimOSLaws1
/-!
  Lemmas/SimOSLaws2.lean — frames: states that agree off one key up to directory timestamps;
  `OpenFile`/`Create`, handle primitives.
-/
namespace BFS
open MFS

section
variable {bk kk : Key}

/-- `m'` agrees with `m` except possibly at `K`, up to directory timestamps -/
def EqOff (m m' : MFS) (K : Key) : Prop := ∀ K', K' ≠ K → (m'.get K').map eraseMt = (m.get K').map eraseMt

theorem EqOff.refl (m : MFS) (K : Key) : EqOff m m K := fun _ _ => rfl

theorem EqOff.set (m : MFS) (K : Key) (v : Option Node) : EqOff m (m.set K v) K := by
  intro K' h
  rw [set_get_ne m v h]

theorem EqOff.touch {m m' : MFS} {K : Key} (h : EqOff m m' K) (P : Key) : EqOff m (m'.touchDir P) K := by
  intro K' hne
  rw [touchDir_erase, h K' hne]

/-- the frame part of most laws -/
theorem frame_of {m m' : MFS} {s : Side} {k : Key} (hr : Roots bk kk)
    (h : EqOff m m' (osRoot bk kk s ++ k)) :
    osView bk kk s.other m' = osView bk kk s.other m ∧ (∀ j, j ≠ k → osView bk kk s m' j = osView bk kk s m j) := by
  refine ⟨?_, ?_⟩
  · funext x
    exact h _ (fun e => hr.apart s k x e.symm)
  · intro j hj
    exact h _ (fun e => hj (List.append_cancel_left e))

theorem mode_and_lt (a b c : Nat) (hc : c < 4096) : (a &&& c) &&& b < 4096 :=
  Nat.lt_of_le_of_lt (Nat.le_trans Nat.and_le_left Nat.and_le_right) hc

/-! ### `OpenFile` -/

theorem openFile_spec {m : MFS} (s : Side) {k : Key} (hr : Roots bk kk) (hg : OSGood bk kk m) (hk : PKey k)
    {flag perm : Nat} {m' : MFS} {r : Except Err Handle}
    (h : m.openFile (kp (osRoot bk kk s ++ k)) flag perm = (m', r)) :
    OSGood bk kk m' ∧ EqOff m m' (osRoot bk kk s ++ k) ∧
    (∀ hd, r = .ok hd → hd.key = osRoot bk kk s ++ k ∧ hd.flag = flag) := by
  unfold MFS.openFile at h
  simp only at h
  rcases namei_below s hr hg hk (!(hasFlag flag O_CREATE && hasFlag flag O_EXCL)) with
    ⟨n, hn, hnl, hres⟩ | ⟨hne, mt, hn, hp, hres⟩ | ⟨e, hne, hn, hp, hres, he⟩
  · rw [hres] at h
    simp only at h
    split at h
    · cases h
      exact ⟨hg, EqOff.refl _ _, fun _ e => by cases e⟩
    · cases n with
      | link t mt => cases hnl
      | dir mt =>
        simp only at h
        split at h
        · cases h
          exact ⟨hg, EqOff.refl _ _, fun _ e => by cases e⟩
        · cases h
          exact ⟨hg, EqOff.refl _ _, fun _ e => by cases e; exact ⟨rfl, rfl⟩⟩
      | file c mt =>
        simp only at h
        split at h
        · cases h
          exact ⟨good_set_repl hg hn rfl rfl (hg.mode _ (.file c mt) hn), EqOff.set _ _ _,
            fun _ e => by cases e; exact ⟨rfl, rfl⟩⟩
        · cases h
          exact ⟨hg, EqOff.refl _ _, fun _ e => by cases e; exact ⟨rfl, rfl⟩⟩
  · rw [hres] at h
    simp only at h
    split at h
    · cases h
      exact ⟨hg, EqOff.refl _ _, fun _ e => by cases e⟩
    · rw [dropLast_append_getLast' hne] at h
      cases h
      have hc := ((hr.pkey s).append hk).getLast hne
      have hnone : m.get ((osRoot bk kk s ++ k).dropLast ++ [(osRoot bk kk s ++ k).getLast hne]) = none := by
        rw [dropLast_append_getLast' hne]; exact hn
      have hgood := good_set_new (n' := .file "" ⟨(perm &&& 0o7777) &&& (0o7777 ^^^ m.umask), 0, (inheritGid m (osRoot bk kk s ++ k).dropLast).1, .fresh⟩)
        hg hp hc hnone rfl (mode_and_lt _ _ _ (by decide))
      rw [dropLast_append_getLast' hne] at hgood
      exact ⟨good_touchDir hgood _, (EqOff.set _ _ _).touch _, fun _ e => by cases e; exact ⟨rfl, rfl⟩⟩
  · rw [hres] at h
    simp only at h
    cases h
    exact ⟨hg, EqOff.refl _ _, fun _ e => by cases e⟩

theorem map_handle_ok {x : Except Err Handle} {f : Handle → Handle} {h : Handle}
    (e : x.map (fun hd => Ret.handle (f hd)) = .ok (.handle h)) : ∃ hd, x = .ok hd ∧ h = f hd := by
  cases x with
  | error err => cases e
  | ok hd =>
    simp only [Except.map, Except.ok.injEq, Ret.handle.injEq] at e
    exact ⟨hd, rfl, e.symm⟩

theorem side_openFile {m : MFS} (s : Side) {k : Key} (hr : Roots bk kk) (hk : PKey k) (flag perm : Nat) :
    ((osCfg bk kk).side s).call m (.openFile (kp k) flag perm) =
      ((m.openFile (kp (osRoot bk kk s ++ k)) flag perm).1,
       (m.openFile (kp (osRoot bk kk s ++ k)) flag perm).2.map (fun hd => Ret.handle { hd with name := PrefixFS.reportedName (kp (osRoot bk kk s)) (kp (osRoot bk kk s ++ k)) hd.name })) :=
  side_call_handle hr s m (tr_openFile (hr.pkey s) hk flag perm) (x := m.openFile (kp (osRoot bk kk s ++ k)) flag perm) rfl

theorem side_create {m : MFS} (s : Side) {k : Key} (hr : Roots bk kk) (hk : PKey k) :
    ((osCfg bk kk).side s).call m (.create (kp k)) =
      ((m.openFile (kp (osRoot bk kk s ++ k)) wflags 0o666).1,
       (m.openFile (kp (osRoot bk kk s ++ k)) wflags 0o666).2.map (fun hd => Ret.handle { hd with name := PrefixFS.reportedName (kp (osRoot bk kk s)) (kp (osRoot bk kk s ++ k)) hd.name })) :=
  side_call_handle hr s m (tr_create (hr.pkey s) hk) (x := m.openFile (kp (osRoot bk kk s ++ k)) wflags 0o666) rfl

theorem side_open {m : MFS} (s : Side) {k : Key} (hr : Roots bk kk) (hk : PKey k) :
    ((osCfg bk kk).side s).call m (.open_ (kp k)) =
      ((m.openFile (kp (osRoot bk kk s ++ k)) O_RDONLY 0).1,
       (m.openFile (kp (osRoot bk kk s ++ k)) O_RDONLY 0).2.map (fun hd => Ret.handle { hd with name := PrefixFS.reportedName (kp (osRoot bk kk s)) (kp (osRoot bk kk s ++ k)) hd.name })) :=
  side_call_handle hr s m (tr_open (hr.pkey s) hk) (x := m.openFile (kp (osRoot bk kk s ++ k)) O_RDONLY 0) rfl

/-- frame and handle facts for any of the three opening calls, from the OS-level equation -/
theorem open_frame_aux {m m' : MFS} {s : Side} {k : Key} {flag perm : Nat} {r : Except Err Ret} (hr : Roots bk kk)
    (hg : OSGood bk kk m) (hk : PKey k)
    (h : ((m.openFile (kp (osRoot bk kk s ++ k)) flag perm).1,
          (m.openFile (kp (osRoot bk kk s ++ k)) flag perm).2.map (fun hd => Ret.handle { hd with name := PrefixFS.reportedName (kp (osRoot bk kk s)) (kp (osRoot bk kk s ++ k)) hd.name })) = (m', r)) :
    OSGood bk kk m' ∧ osView bk kk s.other m' = osView bk kk s.other m ∧
      (∀ j, j ≠ k → osView bk kk s m' j = osView bk kk s m j) ∧
      (∀ hd, r = .ok (.handle hd) → hd.key = osRoot bk kk s ++ k ∧ hd.flag = flag) := by
  obtain ⟨h1, h2⟩ := Prod.mk.inj h
  obtain ⟨g1, g2, g3⟩ := openFile_spec s hr hg hk (flag := flag) (perm := perm) rfl
  subst h1
  obtain ⟨f1, f2⟩ := frame_of hr g2
  refine ⟨g1, f1, f2, ?_⟩
  intro hd e
  rw [e] at h2
  obtain ⟨hd0, e0, e1⟩ := map_handle_ok h2
  obtain ⟨a, b⟩ := g3 hd0 e0
  rw [e1]
  exact ⟨a, b⟩

theorem os_openFile_frame {m m' : MFS} {s : Side} {k : Key} {flag perm : Nat} {r : Except Err Ret} (hr : Roots bk kk)
    (hg : OSGood bk kk m) (hk : PKey k)
    (h : ((osCfg bk kk).side s).call m (.openFile (kp k) flag perm) = (m', r)) :
    OSGood bk kk m' ∧ osView bk kk s.other m' = osView bk kk s.other m ∧
      (∀ j, j ≠ k → osView bk kk s m' j = osView bk kk s m j) ∧
      (∀ hd, r = .ok (.handle hd) → hd.key = osRoot bk kk s ++ k) := by
  rw [side_openFile s hr hk] at h
  obtain ⟨a, b, c, d⟩ := open_frame_aux hr hg hk h
  exact ⟨a, b, c, fun hd e => (d hd e).1⟩

theorem os_create_frame {m m' : MFS} {s : Side} {k : Key} {r : Except Err Ret} (hr : Roots bk kk)
    (hg : OSGood bk kk m) (hk : PKey k)
    (h : ((osCfg bk kk).side s).call m (.create (kp k)) = (m', r)) :
    OSGood bk kk m' ∧ osView bk kk s.other m' = osView bk kk s.other m ∧
      (∀ j, j ≠ k → osView bk kk s m' j = osView bk kk s m j) ∧
      (∀ hd, r = .ok (.handle hd) → hd.key = osRoot bk kk s ++ k ∧ hd.flag = wflags) := by
  rw [side_create s hr hk] at h
  exact open_frame_aux hr hg hk h

theorem os_open_handle {m m' : MFS} {s : Side} {k : Key} {hd : Handle} (hr : Roots bk kk)
    (hg : OSGood bk kk m) (hk : PKey k)
    (h : ((osCfg bk kk).side s).call m (.open_ (kp k)) = (m', .ok (.handle hd))) :
    hd.key = osRoot bk kk s ++ k ∧ hd.flag = O_RDONLY := by
  rw [side_open s hr hk] at h
  exact (open_frame_aux hr hg hk h).2.2.2 hd rfl

/-- a handle carries the flags it was opened with (any path) -/
theorem openFile_flag_os {m : MFS} {p : Path} {flag perm : Nat} {hd : Handle}
    (h : (m.openFile p flag perm).2 = .ok hd) : hd.flag = flag := by
  unfold MFS.openFile at h
  simp only at h
  cases hres : namei m p (!(hasFlag flag O_CREATE && hasFlag flag O_EXCL)) with
  | err e => rw [hres] at h; cases h
  | missing a b =>
    rw [hres] at h
    simp only at h
    split at h
    · cases h
    · cases h; rfl
  | found K n =>
    rw [hres] at h
    simp only at h
    split at h
    · cases h
    · cases n with
      | link t mt => cases h
      | dir mt =>
        simp only at h
        split at h
        · cases h
        · cases h; rfl
      | file c mt =>
        simp only at h
        split at h
        · cases h; rfl
        · cases h; rfl

theorem os_openFile_flag {m m' : MFS} {s : Side} {p : Path} {flag perm : Nat} {hd : Handle} (hr : Roots bk kk)
    (h : ((osCfg bk kk).side s).call m (.openFile p flag perm) = (m', .ok (.handle hd))) : hd.flag = flag := by
  rcases side_call_cases hr s m (.openFile p flag perm) with ⟨e, he⟩ | ⟨c', htr, he⟩
  · rw [he] at h; cases h
  · obtain ⟨p', rfl⟩ := tr_shape_openFile htr
    rw [he] at h
    obtain ⟨_, h2⟩ := Prod.mk.inj h
    change ((m.openFile p' flag perm).2.map Ret.handle).map _ = _ at h2
    cases hx : (m.openFile p' flag perm).2 with
    | error e => rw [hx] at h2; cases h2
    | ok hd0 =>
      rw [hx] at h2
      simp only [Except.map, post_handle, Except.ok.injEq, Ret.handle.injEq] at h2
      have := openFile_flag_os hx
      rw [← h2]
      exact this

end
end BFS
