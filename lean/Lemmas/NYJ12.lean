import Lemmas.J12Valid
import Lemmas.J12Txs
import Lemmas.NRestore
import Lemmas.NSimOS
import Lemmas.DWalk
/-!
  Lemmas/NYJ12.lean — C12 end to end for the NESTED (README, `NewWithFS`) layering: the generic
  lemmas of Lemmas/J12Valid.lean and Lemmas/J12Txs.lean replayed over the contract `N.Sim`, and the
  three facts about `N.nestedCfg bk hk` they need:
  * `lstatN_nestedK` — base `Lstat` (HiddenFS over PrefixFS) reports `Base` of an absolute cleaned path
    (HiddenFS passes FileInfos through unchanged);
  * `smallCfg_nested` — every call of either side with small uid/gid arguments keeps "all owners on the
    disk fit 32 bits", the whole `HiddenFS.RemoveAll` program included (`D.hiddenRemoveAll_inv`);
  * `smallView_nested_of_sd`.
-/
namespace BFS
namespace J12
open BackupFS

variable {cfg : Cfg}

/-! ### generic part, over `N.Sim` -/

theorem valid_of_invN {S : N.Sim cfg} {v0 : View} {w : World} (hinv : N.Inv S v0 w) (hsm : SmallView v0)
    (hn : AllN NameK w.infos) : AllValid w.infos := by
  intro e he i hi
  obtain ⟨p, oi⟩ := e
  simp only at hi
  subst hi
  obtain ⟨k, hk, rfl⟩ := hinv.keys p _ he
  have hl := lookup_of_mem hinv.nodup he
  obtain ⟨n, hn0, hfor, _⟩ := hinv.saved k i hk hl
  obtain ⟨_, h2, h3, h4, _⟩ := hfor
  exact ⟨hn _ _ he k hk rfl, by rw [h2]; exact hinv.orig.mode hn0,
    by rw [h3]; exact (hsm k n hn0).1, by rw [h4]; exact (hsm k n hn0).2⟩

theorem runOpsR_eqN {S : N.Sim cfg} {v0 : View} (hL : LstatN cfg NameK) (hsm : SmallView v0) :
    ∀ (steps : List Step) (w : World), N.Inv S v0 w → AllN NameK w.infos →
      N.CoveredHist cfg S w (opsOf steps) → runOpsR cfg w steps = runOps cfg w (opsOf steps)
  | [], _, _, _, _ => rfl
  | .inl op :: rest, w, hi, hn, hc => by
    show runOpsR cfg (op.step cfg w) rest = runOps cfg (op.step cfg w) (opsOf rest)
    exact runOpsR_eqN hL hsm rest _ (N.op_keeps hi hc.1).inv (step_allN hL w op hn) hc.2
  | .inr () :: rest, w, hi, hn, hc => by
    show runOpsR cfg (restart w) rest = runOps cfg w (opsOf rest)
    rw [restart_id (valid_of_invN hi hsm hn)]
    exact runOpsR_eqN hL hsm rest w hi hn hc

/-- E1, generic form over `N.Sim` -/
theorem valid_after_historyN {S : N.Sim cfg} (hL : LstatN cfg NameK) {w : World} (hg : S.G w.fs)
    (hinfos : w.infos = []) (hsm : SmallView (S.view .base w.fs)) (ops : List Op)
    (hcov : N.CoveredHist cfg S w ops) : AllValid (runOps cfg w ops).infos :=
  valid_of_invN (N.history_keeps ops w (N.Inv.init hg hinfos) hcov).inv hsm
    (runOps_allN hL ops w (by rw [hinfos]; exact AllN.nil))

/-- E2, generic form over `N.Sim` -/
theorem restart_anywhereN {S : N.Sim cfg} (hL : LstatN cfg NameK) {w : World} (hg : S.G w.fs)
    (hinfos : w.infos = []) (hsm : SmallView (S.view .base w.fs)) (steps : List Step)
    (hcov : N.CoveredHist cfg S w (opsOf steps)) : runOpsR cfg w steps = runOps cfg w (opsOf steps) :=
  runOpsR_eqN hL hsm steps w (N.Inv.init hg hinfos) (by rw [hinfos]; exact AllN.nil) hcov

/-- E2 also when the session starts in the middle of a transaction (any invariant state) -/
theorem restart_anywhere_midN {S : N.Sim cfg} {v0 : View} (hL : LstatN cfg NameK) (hsm : SmallView v0)
    {w : World} (hinv : N.Inv S v0 w) (hn : AllN NameK w.infos) (steps : List Step)
    (hcov : N.CoveredHist cfg S w (opsOf steps)) : runOpsR cfg w steps = runOps cfg w (opsOf steps) :=
  runOpsR_eqN hL hsm steps w hinv hn hcov

theorem txsR_eqN {S : N.Sim cfg} (hL : LstatN cfg NameK) (hC : SmallCfg cfg)
    (hview : ∀ m, SD m → SmallView (S.view .base m)) :
    ∀ (txs : List (List Step)) (w : World), S.G w.fs → w.infos = [] → w.faults = [] → SD w.fs →
      N.CoveredTxs cfg S w (txs.map opsOf) → (∀ tx ∈ txs, ∀ op ∈ opsOf tx, OpSmall op) →
      runTxsR cfg w txs = (txs.map opsOf).foldl (runTx cfg) w
  | [], _, _, _, _, _, _, _ => rfl
  | tx :: rest, w, hg, hi, hf, hsd, hc, hs => by
    have e : runTxR cfg w tx = runTx cfg w (opsOf tx) := by
      unfold runTxR runTx
      rw [restart_anywhereN (S := S) hL hg hi (hview _ hsd) tx hc.1]
    obtain ⟨g1, i1, f1, _⟩ := N.tx_restores (cfg := cfg) hg hi hf (opsOf tx) hc.1
    have sd1 := runTx_SD hC hsd hi (opsOf tx) (hs tx (List.mem_cons_self ..))
    show runTxsR cfg (runTxR cfg w tx) rest = (rest.map opsOf).foldl (runTx cfg) (runTx cfg w (opsOf tx))
    rw [e]
    exact txsR_eqN hL hC hview rest _ g1 i1 f1 sd1 hc.2 (fun t ht => hs t (List.mem_cons_of_mem _ ht))

/-- the world each transaction's `Rollback` starts from -/
theorem txsR_eachN {S : N.Sim cfg} (hL : LstatN cfg NameK) (hC : SmallCfg cfg)
    (hview : ∀ m, SD m → SmallView (S.view .base m)) :
    ∀ (txs : List (List Step)) (w : World), S.G w.fs → w.infos = [] → w.faults = [] → SD w.fs →
      N.CoveredTxs cfg S w (txs.map opsOf) → (∀ tx ∈ txs, ∀ op ∈ opsOf tx, OpSmall op) →
      ∀ pre tx post, txs = pre ++ tx :: post →
        runOpsR cfg (runTxsR cfg w pre) tx = runOps cfg ((pre.map opsOf).foldl (runTx cfg) w) (opsOf tx)
  | [], _, _, _, _, _, _, _ => by
    intro pre tx post h
    simp at h
  | t :: rest, w, hg, hi, hf, hsd, hc, hs => by
    intro pre tx post heq
    cases pre with
    | nil =>
      simp only [List.nil_append, List.cons.injEq] at heq
      obtain ⟨rfl, _⟩ := heq
      exact restart_anywhereN (S := S) hL hg hi (hview _ hsd) t hc.1
    | cons p pre' =>
      simp only [List.cons_append, List.cons.injEq] at heq
      obtain ⟨rfl, heq'⟩ := heq
      have e : runTxR cfg w t = runTx cfg w (opsOf t) := by
        unfold runTxR runTx
        rw [restart_anywhereN (S := S) hL hg hi (hview _ hsd) t hc.1]
      obtain ⟨g1, i1, f1, _⟩ := N.tx_restores (cfg := cfg) hg hi hf (opsOf t) hc.1
      have sd1 := runTx_SD hC hsd hi (opsOf t) (hs t (List.mem_cons_self ..))
      show runOpsR cfg (runTxsR cfg (runTxR cfg w t) pre') tx =
        runOps cfg ((pre'.map opsOf).foldl (runTx cfg) (runTx cfg w (opsOf t))) (opsOf tx)
      rw [e]
      exact txsR_eachN hL hC hview rest _ g1 i1 f1 sd1 hc.2 (fun t' ht => hs t' (List.mem_cons_of_mem _ ht))
        pre' tx post heq'

/-! ### the nested configuration -/

open N in
/-- base `Lstat` through `HiddenFS [loc]` over `PrefixFS (kp bk)`: HiddenFS hands the inner FileInfo on
unchanged, so an absolute cleaned path is named by its `Base` -/
theorem lstatN_nestedK (bk hk : Key) (hbk : PKey bk) : LstatN (N.nestedCfg bk hk) NameK := by
  intro m p m' i h
  have hb : (N.nestedCfg bk hk).base = (N.nestedCfg bk hk).side .base := rfl
  rw [hb, N.side_base (dd := bk), N.hiddenFS_call _ _ _ _ (fun n e => by cases e)] at h
  cases htr : HiddenFS.translate (HiddenFS.mk [kp hk]) (.lstat p) with
  | error e =>
    rw [htr] at h
    simp only [Prod.mk.injEq] at h
    cases h.2
  | ok c' =>
    rw [htr] at h
    have hc' : c' = .lstat p := by
      simp only [HiddenFS.translate, bind, Except.bind, pure, Except.pure] at htr
      split at htr
      · cases htr
      · cases htr; rfl
    subst hc'
    simp only [Prod.mk.injEq] at h
    obtain ⟨h1, h2⟩ := h
    cases hr : ((N.inner bk bk).call m (.lstat p)).2 with
    | error e => rw [hr] at h2; cases h2
    | ok r =>
      rw [hr] at h2
      simp only [Except.map, Except.ok.injEq] at h2
      cases r with
      | info i0 =>
        simp only [hiddenPost, Ret.info.injEq] at h2
        subst h2
        exact lstatN_osK bk bk hbk m p _ i0 (Prod.ext rfl hr)
      | unit => simp [hiddenPost] at h2
      | str s => simp [hiddenPost] at h2
      | handle hd => simp [hiddenPost] at h2

theorem hidden_translate_small {hs : List Path} {c c' : Call} (h : HiddenFS.translate hs c = .ok c')
    (hsm : SmallArgs c) : SmallArgs c' := by
  cases c with
  | chown n u g => obtain ⟨q, _, h2⟩ := bindE_ok h; cases h2; exact hsm
  | lchown n u g => obtain ⟨q, _, h2⟩ := bindE_ok h; cases h2; exact hsm
  | create n => obtain ⟨q, _, h2⟩ := bindE_ok h; cases h2; trivial
  | mkdir n p => obtain ⟨q, _, h2⟩ := bindE_ok h; cases h2; trivial
  | mkdirAll n p => obtain ⟨q, _, h2⟩ := bindE_ok h; cases h2; trivial
  | open_ n => obtain ⟨q, _, h2⟩ := bindE_ok h; cases h2; trivial
  | openFile n f p => obtain ⟨q, _, h2⟩ := bindE_ok h; cases h2; trivial
  | remove n => obtain ⟨q, _, h2⟩ := bindE_ok h; cases h2; trivial
  | removeAll n => obtain ⟨q, _, h2⟩ := bindE_ok h; cases h2; trivial
  | stat n => obtain ⟨q, _, h2⟩ := bindE_ok h; cases h2; trivial
  | chmod n md => obtain ⟨q, _, h2⟩ := bindE_ok h; cases h2; trivial
  | chtimes n a t => obtain ⟨q, _, h2⟩ := bindE_ok h; cases h2; trivial
  | lstat n => obtain ⟨q, _, h2⟩ := bindE_ok h; cases h2; trivial
  | readlink n => obtain ⟨q, _, h2⟩ := bindE_ok h; cases h2; trivial
  | rename o n =>
    obtain ⟨q, _, h2⟩ := bindE_ok h
    split at h2
    · cases h2
    · cases h2
    · obtain ⟨q', _, h3⟩ := bindE_ok h2
      split at h3
      · cases h3
      · cases h3
      · cases h3; trivial
  | symlink o n =>
    obtain ⟨q, _, h2⟩ := bindE_ok h
    obtain ⟨q', _, h3⟩ := bindE_ok h2
    cases h3; trivial

/-- "all owners fit 32 bits" through the inner `PrefixFS (kp bk) osfs` -/
theorem inner_SD (bk dd : Key) {m : MFS} (h : SD m) {c : Call} (hs : SmallArgs c) :
    SD ((N.inner bk dd).call m c).1 := h.prefixFS_call _ hs

theorem inner_info (bk dd : Key) {m : MFS} (h : SD m) {c : Call} {m' : MFS} {i : Info}
    (hc : (N.inner bk dd).call m c = (m', .ok (.info i))) : Smi i := prefixFS_call_info h _ hc

theorem hiddenPost_info {c c' : Call} {r : Ret} {i : Info} (h : hiddenPost c c' r = .info i) : r = .info i := by
  cases r <;> simp only [hiddenPost] at h <;> first | exact h | cases h

/-- the nested configuration keeps small owners: both sides forward to the inner `PrefixFS`, the
`HiddenFS.RemoveAll` program is a sequence of inner `Lstat`/`Open`/`Remove` calls -/
theorem smallCfg_nested (bk hk : Key) (hhk : PKey hk) : SmallCfg (N.nestedCfg bk hk) where
  call := fun s m c h hs => by
    cases s with
    | base =>
      by_cases hra : ∃ n, c = .removeAll n
      · obtain ⟨n, rfl⟩ := hra
        rw [N.base_removeAll (dd := bk)]
        show SD (hiddenRemoveAll (N.nhs hk) (N.inner bk bk) 64 m (rmName n)).1
        exact D.hiddenRemoveAll_inv (I := SD)
          ⟨fun s p hs => inner_SD bk bk hs trivial, fun s p hs => inner_SD bk bk hs trivial,
            fun s p hs _ => inner_SD bk bk hs trivial⟩ 64 m _ h
      · have hnr : ∀ n, c ≠ .removeAll n := fun n e => hra ⟨n, e⟩
        rw [N.side_base (dd := bk), N.hiddenFS_call _ _ _ _ hnr]
        cases htr : HiddenFS.translate (HiddenFS.mk [kp hk]) c with
        | error e => exact h
        | ok c' => exact inner_SD bk bk h (hidden_translate_small htr hs)
    | backup =>
      rw [N.side_backup (dd := bk), N.prefixFS_call_gen]
      cases htr : PrefixFS.translate (PrefixFS.mk (kp hk)) c with
      | error e => exact h
      | ok c' => exact inner_SD bk bk h (translate_small (by rw [mk_kp hhk] at htr; exact htr) hs)
  info := fun s m c m' i h hc => by
    cases s with
    | base =>
      by_cases hra : ∃ n, c = .removeAll n
      · obtain ⟨n, rfl⟩ := hra
        rw [N.base_removeAll (dd := bk)] at hc
        simp only [liftU, Prod.mk.injEq] at hc
        cases hr : (hiddenRemoveAll (N.nhs hk) (N.inner bk bk) 64 m (rmName n)).2 with
        | error e => rw [hr] at hc; cases hc.2
        | ok u => rw [hr] at hc; cases hc.2
      · have hnr : ∀ n, c ≠ .removeAll n := fun n e => hra ⟨n, e⟩
        rw [N.side_base (dd := bk), N.hiddenFS_call _ _ _ _ hnr] at hc
        cases htr : HiddenFS.translate (HiddenFS.mk [kp hk]) c with
        | error e => rw [htr] at hc; simp only [Prod.mk.injEq] at hc; cases hc.2
        | ok c' =>
          rw [htr] at hc
          simp only [Prod.mk.injEq] at hc
          obtain ⟨_, h2⟩ := hc
          cases hr : ((N.inner bk bk).call m c').2 with
          | error e => rw [hr] at h2; cases h2
          | ok r =>
            rw [hr] at h2
            simp only [Except.map, Except.ok.injEq] at h2
            have := hiddenPost_info h2
            subst this
            exact inner_info bk bk h (Prod.ext rfl hr)
    | backup =>
      rw [N.side_backup (dd := bk), N.prefixFS_call_gen] at hc
      cases htr : PrefixFS.translate (PrefixFS.mk (kp hk)) c with
      | error e => rw [htr] at hc; simp only [Prod.mk.injEq] at hc; cases hc.2
      | ok c' =>
        rw [htr] at hc
        simp only [Prod.mk.injEq] at hc
        obtain ⟨_, h2⟩ := hc
        cases hr : ((N.inner bk bk).call m c').2 with
        | error e => rw [hr] at h2; cases h2
        | ok r =>
          rw [hr] at h2
          simp only [Except.map, Except.ok.injEq] at h2
          obtain ⟨i0, rfl, hu, hg⟩ := prefixPost_info h2
          have := inner_info bk bk h (Prod.ext rfl hr)
          exact ⟨by rw [hu]; exact this.1, by rw [hg]; exact this.2⟩
  hwrite := fun s m hd off d h => by
    rw [N.side_hwrite']
    exact h.hwrite hd off d

theorem smallView_nested_of_sd (bk hk : Key) (s : Side) {m : MFS} (h : SD m) : SmallView (N.nview bk hk s m) := by
  intro k n hv
  cases s with
  | base =>
    simp only [N.nview] at hv
    split at hv
    · cases hv
    · cases hm : m.get (bk ++ k) with
      | none => rw [hm] at hv; cases hv
      | some n0 =>
        rw [hm] at hv
        simp only [Option.map_some, Option.some.injEq] at hv
        subst hv
        rw [(eraseMt_meta_owner n0).1, (eraseMt_meta_owner n0).2]
        exact h _ _ hm
  | backup =>
    simp only [N.nview] at hv
    cases hm : m.get (bk ++ hk ++ k) with
    | none => rw [hm] at hv; cases hv
    | some n0 =>
      rw [hm] at hv
      simp only [Option.map_some, Option.some.injEq] at hv
      subst hv
      rw [(eraseMt_meta_owner n0).1, (eraseMt_meta_owner n0).2]
      exact h _ _ hm

end J12
end BFS
