import Lemmas.TOps4
/-!
  Lemmas/TStep.lean — transparency of one covered operation other than `RemoveAll`, assembled
  from the per-class lemmas of `Lemmas/TOps*.lean`; and what `ResAgree` means in plain words.
-/
namespace BFS
open BackupFS MFS

section
variable {bk kk : Key}

def Op.isRemoveAll : Op → Prop
  | .removeAll _ => True
  | _ => False

/-- what transparency needs of the next operation — less than `Op.Covered`: absolute names (any
spelling), `Remove`/`RemoveAll` not of the root itself, no `Symlink`/`ForceBackup`; in particular a
`Rename` of a non-empty directory is admitted -/
def Op.AbsNames : Op → Prop
  | .creat p _ | .write p _ _ _ | .mkdir p _ | .mkdirAll p _ | .chmod p _ | .chown p _ _
  | .lchown p _ _ | .chtimes p _ => isAbs p = true
  | .remove p | .removeAll p => isAbs p = true ∧ clean p ≠ rootP
  | .rename o n => isAbs o = true ∧ isAbs n = true
  | .stat _ | .lstat _ | .readlink _ => True
  | .symlink _ _ | .force _ => False

theorem Op.Covered.absNames {cfg : Cfg} {S : Sim cfg} {w : World} {op : Op} (h : Op.Covered S w op) : op.AbsNames := by
  cases op <;> first | exact h | exact ⟨h.1, h.2.1⟩

theorem op_transp (hr : Roots bk kk) {v0 : View} {r0 : Option Node} {w : World} {op : Op}
    (hinv : InvB (osSimR hr) v0 r0 w) (hc : op.AbsNames) (hnra : ¬ op.isRemoveAll) :
    Transp bk kk (Op.exec (osCfg bk kk) op w).1 (Op.exec (osCfg bk kk) op w).2
      (Op.direct (baseFS bk kk) w.fs op) := by
  have key : Sat (Op.exec (osCfg bk kk) op) w
      (fun w' r => Transp bk kk w' r (Op.direct (baseFS bk kk) w.fs op)) := by
    cases op with
    | creat p d =>
      obtain ⟨k, hk, hname⟩ := clean_abs hc
      exact creat_transp hr hinv hk hname d
    | write p f pm d =>
      obtain ⟨k, hk, hname⟩ := clean_abs hc
      exact write_transp hr hinv hk hname f pm d
    | mkdir p m =>
      obtain ⟨k, hk, hname⟩ := clean_abs hc
      exact mkdir_transp hr hinv hk hname m
    | mkdirAll p m =>
      obtain ⟨k, hk, hname⟩ := clean_abs hc
      exact mkdirAll_transp hr hinv hk hname m
    | remove p =>
      obtain ⟨k, hk, hname⟩ := clean_abs hc.1
      have hne : k ≠ [] := by
        intro e; subst e; exact hc.2 hname
      exact remove_transp hr hinv hk hne hname
    | removeAll p => exact absurd trivial hnra
    | rename o n =>
      obtain ⟨ko, hko, ho⟩ := clean_abs hc.1
      obtain ⟨kn, hkn, hn⟩ := clean_abs hc.2
      exact rename_transp hr hinv hko hkn ho hn
    | symlink o n => exact absurd hc id
    | chmod p m =>
      obtain ⟨k, hk, hname⟩ := clean_abs hc
      exact chmod_transp hr hinv hk hname m
    | chown p u g =>
      obtain ⟨k, hk, hname⟩ := clean_abs hc
      exact chown_transp hr hinv hk hname u g
    | lchown p u g =>
      obtain ⟨k, hk, hname⟩ := clean_abs hc
      exact lchown_transp hr hinv hk hname u g
    | chtimes p t =>
      obtain ⟨k, hk, hname⟩ := clean_abs hc
      exact chtimes_transp hr hinv hk hname t
    | stat p => exact stat_transp hr hinv p
    | lstat p => exact lstat_transp hr hinv p
    | readlink p => exact readlink_transp hr hinv p
    | force p => exact absurd hc id
  exact key

/-! ### `ResAgree` and `Twin` in plain words -/

theorem ResAgree.success_iff {rx : Except Err OpOut} {rd : Except Err DOut} (h : ResAgree rx rd) :
    (∃ a, rx = .ok a) ↔ (∃ b, rd = .ok b) := by
  cases rx <;> cases rd <;> simp_all [ResAgree]

theorem ResAgree.same_data {rx : Except Err OpOut} {rd : Except Err DOut} (h : ResAgree rx rd) {a : OpOut} {b : DOut}
    (ha : rx = .ok a) (hb : rd = .ok b) : a.data = b := by
  subst ha hb
  exact h

theorem ResAgree.error_class {rx : Except Err OpOut} {rd : Except Err DOut} (h : ResAgree rx rd) {e1 e2 : Err}
    (h1 : rx = .error e1) (h2 : rd = .error e2) : e1 = e2 ∨ (e1 = .typeMismatch ∧ e2.isNotFound = true) := by
  subst h1 h2
  exact h

theorem Twin.same_view {m1 m2 : MFS} (h : Twin bk kk m1 m2) (k : Key) :
    osView bk kk .base m1 k = osView bk kk .base m2 k :=
  h.eq.get (bk ++ k) (List.prefix_append _ _)

end

end BFS
