import Lemmas.PXLink
import Lemmas.F16Str
/-!
  Lemmas/PXLex.lean — a relative link target WITH `..` components.

  `PrefixFS.Symlink` tests such a target lexically, from the directory the link's name spells.  The
  kernel applies it physically.  The two coincide when (a) the directory of the link and all its
  ancestors are real directories and (b) the target text, applied lexically from there, never stands
  on a symlink while a `..` still lies ahead (`LexOK`).  After its last `..` the walk may run through
  tame links again.  `walk_inside_but`: on a disk whose links below `pk` are tame except ONE such link,
  name resolution from inside `pk` still never leaves `pk` — also when it runs through that link,
  repeatedly.
-/
namespace BFS
namespace PX
open MFS D F16

/-- `cur` and all its ancestors are live directories -/
def AllDirs (m : MFS) (cur : Key) : Prop := ∀ p, p <+: cur → ∃ mt, m.get p = some (.dir mt)

theorem AllDirs.dropLast {m : MFS} {cur : Key} (h : AllDirs m cur) : AllDirs m cur.dropLast :=
  fun p hp => h p (hp.trans (dropLast_prefix cur))

theorem AllDirs.snoc {m : MFS} {cur : Key} {c : Name} {mt : Meta} (h : AllDirs m cur)
    (hc : m.get (cur ++ [c]) = some (.dir mt)) : AllDirs m (cur ++ [c]) := by
  intro p hp
  by_cases he : p = cur ++ [c]
  · exact ⟨mt, he ▸ hc⟩
  · have := prefix_dropLast hp he
    rw [List.dropLast_concat] at this
    exact h p this

/-- the component list, applied lexically from `cur`, never stands on a symlink while a `..` still
lies ahead -/
def LexOK (m : MFS) : Key → List Name → Bool
  | _, [] => true
  | cur, c :: cs =>
    if c = [] || c = dot then LexOK m cur cs
    else if c = dotdot then LexOK m cur.dropLast cs
    else (!cs.contains dotdot || !isLinkB m (cur ++ [c])) && LexOK m (cur ++ [c]) cs

theorem lexK_nodd : ∀ (cs : List Name) (cur : Key), dotdot ∉ cs → lexK cur cs = cur ++ strip cs
  | [], cur, _ => by simp [lexK, strip]
  | c :: cs, cur, h => by
    have hcs : dotdot ∉ cs := fun e => h (List.mem_cons_of_mem _ e)
    have hc : c ≠ dotdot := fun e => h (e ▸ List.mem_cons_self)
    rw [lexK_cons]
    by_cases h1 : (c = [] || c = dot) = true
    · rw [stepK_triv h1, strip_cons_triv h1]
      exact lexK_nodd cs cur hcs
    · have h1' : (c = [] || c = dot) = false := by simpa using h1
      have : stepK cur c = cur ++ [c] := by
        unfold stepK
        simp only [h1', Bool.false_eq_true, if_false, hc]
      rw [this, strip_cons_keep h1', lexK_nodd cs _ hcs]
      simp

theorem walk_dd' (m : MFS) (f : Bool) (fuel hops : Nat) (cur : Key) (rest : List Name) :
    walk m f (fuel + 1) hops cur (dotdot :: rest) = walk m f fuel hops (parentKey cur) rest := by
  rw [walk]
  have : (dotdot = [] || dotdot = dot) = false := by decide
  simp only [this, Bool.false_eq_true, if_false, if_true]

/-- every walk from an invariant position with this much fuel stays inside `pk` -/
def InsideAll (pk : Key) (m : MFS) (f : Bool) (fuel : Nat) : Prop :=
  ∀ (hops : Nat) (cur : Key) (comps : List Name), WInv pk m cur comps →
    ∃ K, pk <+: K ∧ NC m K (walk m f fuel hops cur comps)

section
variable {pk : Key} {m : MFS}

theorem winv_of_lex {cur : Key} {comps rest : List Name} (hdirs : AllDirs m cur)
    (hnd : dotdot ∉ comps) (hrest : dotdot ∉ rest) (hin : pk <+: lexK cur comps) :
    WInv pk m cur (comps ++ rest) := by
  refine ⟨hdirs cur List.prefix_rfl, ?_, ?_⟩
  · intro h
    rcases List.mem_append.mp h with h | h
    · exact hnd h
    · exact hrest h
  · rw [lexK_nodd comps cur hnd] at hin
    rcases List.prefix_or_prefix_of_prefix hin (List.prefix_append cur _) with h | h
    · exact Or.inl h
    · obtain ⟨d, hd⟩ := h
      by_cases hde : d = []
      · left
        rw [← hd, hde, List.append_nil]
        exact List.prefix_rfl
      · right
        refine ⟨d, hde, hd, ?_⟩
        rw [← hd] at hin
        rw [strip_append]
        exact ((List.prefix_append_right_inj _).mp hin).trans (List.prefix_append _ _)

/-- the lexical phase: while a `..` lies ahead the walk moves exactly as the text says (or fails); from
its last `..` on it is an ordinary walk from an invariant position -/
theorem lex_walk (f : Bool) (n : Nat) (hP : ∀ fuel', fuel' ≤ n → InsideAll pk m f fuel') :
    ∀ (comps : List Name) (cur : Key) (fuel hops : Nat) (rest : List Name), fuel ≤ n → AllDirs m cur →
      LexOK m cur comps = true → dotdot ∉ rest → pk <+: lexK cur comps →
      ∃ K, pk <+: K ∧ NC m K (walk m f fuel hops cur (comps ++ rest)) := by
  intro comps
  induction comps with
  | nil =>
    intro cur fuel hops rest hle hdirs _ hrest hin
    exact hP fuel hle hops cur _ (winv_of_lex hdirs (by simp) hrest hin)
  | cons c cs ih =>
    intro cur fuel hops rest hle hdirs hlex hrest hin
    by_cases hdd : dotdot ∈ c :: cs
    · cases fuel with
      | zero => exact ⟨pk, List.prefix_rfl, .err .loop (by rw [walk])⟩
      | succ fuel =>
        have hle' : fuel ≤ n := by omega
        rw [lexK_cons] at hin
        rw [LexOK] at hlex
        rw [List.cons_append]
        by_cases h1 : (c = [] || c = dot) = true
        · rw [walk_skip m f fuel hops cur _ h1]
          simp only [h1, if_true] at hlex
          rw [stepK_triv h1] at hin
          exact ih cur fuel hops rest hle' hdirs hlex hrest hin
        · have h1' : (c = [] || c = dot) = false := by simpa using h1
          simp only [h1', Bool.false_eq_true, if_false] at hlex
          by_cases h2 : c = dotdot
          · subst h2
            rw [walk_dd']
            simp only [if_true] at hlex
            rw [stepK_dd] at hin
            exact ih _ fuel hops rest hle' hdirs.dropLast hlex hrest hin
          · simp only [h2, if_false, Bool.and_eq_true, Bool.or_eq_true, Bool.not_eq_true'] at hlex
            have hcs : dotdot ∈ cs := by
              rcases List.mem_cons.mp hdd with e | e
              · exact absurd e.symm h2
              · exact e
            have hnl : isLinkB m (cur ++ [c]) = false := by
              rcases hlex.1 with e | e
              · rw [List.contains_iff_mem.mpr hcs] at e; cases e
              · exact e
            have hstep : stepK cur c = cur ++ [c] := by
              unfold stepK
              simp only [h1', Bool.false_eq_true, if_false, h2]
            rw [hstep] at hin
            have htr : trivialRest (cs ++ rest) = false := by
              unfold trivialRest
              rw [List.all_eq_false]
              exact ⟨dotdot, List.mem_append_left _ hcs, by decide⟩
            rw [walk_cons_plain m f fuel hops cur _ h1' h2]
            cases hg : m.get (cur ++ [c]) with
            | none =>
              simp only [htr, Bool.false_eq_true, if_false]
              exact ⟨pk, List.prefix_rfl, .err _ rfl⟩
            | some nd =>
              cases nd with
              | dir mt =>
                simp only
                exact ih _ fuel hops rest hle' (hdirs.snoc hg) hlex.2 hrest hin
              | file ct mt =>
                simp only [htr, Bool.false_eq_true, if_false]
                exact ⟨pk, List.prefix_rfl, .err _ rfl⟩
              | link t mt =>
                exfalso
                unfold isLinkB at hnl
                rw [hg] at hnl
                cases hnl
    · exact hP fuel hle hops cur _ (winv_of_lex hdirs hdd hrest hin)

/-- every link at or below `pk` is tame, except possibly the link at `K` with target text `o` -/
def TameBut (pk : Key) (m : MFS) (K : Key) (o : Path) : Prop :=
  ∀ k t mt, pk <+: k → m.get k = some (.link t mt) → TameTarget pk t ∨ (k = K ∧ t = o)

/-- the exceptional link: relative, its directory and all ancestors real directories, its text
lexically harmless from there, and lexically ending at or below `pk` -/
structure Special (pk : Key) (m : MFS) (K : Key) (o : Path) : Prop where
  rel : isRooted o = false
  dirs : AllDirs m K.dropLast
  lex : LexOK m K.dropLast (splitSep o) = true
  inside : pk <+: lexK K.dropLast (splitSep o)

/-- name resolution from inside `pk` never leaves `pk` on such a disk -/
theorem walk_inside_but (hd : PrefDirs pk m) {K : Key} {o : Path} (ht : TameBut pk m K o)
    (hs : Special pk m K o) (f : Bool) : ∀ fuel, InsideAll pk m f fuel := by
  intro fuel
  induction fuel using Nat.strongRecOn with
  | _ fuel IH =>
    cases fuel with
    | zero =>
      intro hops cur comps _
      exact ⟨pk, List.prefix_rfl, .err .loop (by rw [walk])⟩
    | succ fuel =>
      have ih := IH fuel (Nat.lt_succ_self _)
      intro hops cur comps hI
      cases comps with
      | nil =>
        have hin : pk <+: cur := by
          rcases hI.pos with h | ⟨d, hne, _, hp⟩
          · exact h
          · exfalso
            apply hne
            simpa [strip] using hp
        rw [walk]
        cases hc : m.get cur with
        | none => exact ⟨pk, List.prefix_rfl, .err _ rfl⟩
        | some n => exact ⟨cur, hin, .found n hc rfl⟩
      | cons c rest =>
        have hndr : dotdot ∉ rest := fun h => hI.nodd (List.mem_cons_of_mem _ h)
        by_cases hc1 : (c = [] || c = dot) = true
        · rw [walk_skip m f fuel hops cur rest hc1]
          apply ih
          refine ⟨hI.dir, hndr, ?_⟩
          have hpos := hI.pos
          rw [strip_cons_triv hc1] at hpos
          exact hpos
        · have hc1' : (c = [] || c = dot) = false := by simpa using hc1
          have hc2 : c ≠ dotdot := fun e => hI.nodd (e ▸ List.mem_cons_self)
          rw [walk_cons_plain m f fuel hops cur rest hc1' hc2]
          rcases hI.pos with hin | ⟨d, hne, hcd, hp⟩
          · have hk : pk <+: cur ++ [c] := hin.trans (List.prefix_append _ _)
            cases hg : m.get (cur ++ [c]) with
            | none =>
              simp only
              split
              · obtain ⟨mt, hcur⟩ := hI.dir
                refine ⟨cur ++ [c], hk, .missing (by simp) mt hg (by rw [List.dropLast_concat]; exact hcur) ?_⟩
                simp [List.dropLast_concat]
              · exact ⟨pk, List.prefix_rfl, .err _ rfl⟩
            | some n =>
              cases n with
              | dir mt =>
                simp only
                exact ih hops (cur ++ [c]) rest ⟨⟨mt, hg⟩, hndr, Or.inl hk⟩
              | file ct mt =>
                simp only
                split
                · exact ⟨cur ++ [c], hk, .found _ hg rfl⟩
                · exact ⟨pk, List.prefix_rfl, .err _ rfl⟩
              | link t mt =>
                simp only
                split
                · exact ⟨cur ++ [c], hk, .found _ hg rfl⟩
                split
                · exact ⟨pk, List.prefix_rfl, .err _ rfl⟩
                split
                · exact ⟨pk, List.prefix_rfl, .err _ rfl⟩
                · rcases ht _ t mt hk hg with ⟨htd, htr⟩ | ⟨hK, hto⟩
                  · apply ih
                    have hnd : dotdot ∉ splitSep t ++ rest := by
                      intro h
                      rcases List.mem_append.mp h with h | h
                      · exact htd h
                      · exact hndr h
                    by_cases hr : isRooted t = true
                    · simp only [hr, if_true]
                      refine ⟨hd [] List.nil_prefix, hnd, ?_⟩
                      by_cases hpk : pk = []
                      · left; rw [hpk]; exact List.nil_prefix
                      · right
                        refine ⟨pk, hpk, by simp, ?_⟩
                        rw [strip_append]
                        exact (htr hr).trans (List.prefix_append _ _)
                    · simp only [hr]
                      exact ⟨hI.dir, hnd, Or.inl hin⟩
                  · -- the exceptional link: its text is applied lexically, then an ordinary walk
                    subst hto
                    have hcur : cur = K.dropLast := by rw [← hK, List.dropLast_concat]
                    simp only [hs.rel, Bool.false_eq_true, if_false]
                    rw [hcur]
                    exact lex_walk f fuel (fun fuel' hle => IH fuel' (Nat.lt_succ_of_le hle))
                      (splitSep t) K.dropLast fuel (hops + 1) rest (Nat.le_refl _) hs.dirs hs.lex hndr hs.inside
          · cases d with
            | nil => exact absurd rfl hne
            | cons c' d' =>
              rw [strip_cons_keep hc1'] at hp
              have hcc : c' = c := (List.cons_prefix_cons.mp hp).1
              subst hcc
              have hp' : d' <+: strip rest := (List.cons_prefix_cons.mp hp).2
              have hpre : cur ++ [c'] <+: pk := by
                rw [← hcd]
                exact ⟨d', by simp⟩
              obtain ⟨mt, hg⟩ := hd _ hpre
              rw [hg]
              simp only
              apply ih
              refine ⟨⟨mt, hg⟩, hndr, ?_⟩
              by_cases hd' : d' = []
              · left
                subst hd'
                rw [← hcd]
                exact List.prefix_rfl
              · right
                exact ⟨d', hd', by rw [← hcd]; simp, hp'⟩

/-- following the exceptional link itself never leaves `pk` -/
theorem special_link_resolves_inside (hd : PrefDirs pk m) {K : Key} {o : Path} (ht : TameBut pk m K o)
    (hs : Special pk m K o) (f : Bool) (fuel hops : Nat) (rest : List Name) (hrest : dotdot ∉ rest) :
    ∃ K', pk <+: K' ∧ NC m K' (walk m f fuel hops K.dropLast (splitSep o ++ rest)) :=
  lex_walk f fuel (fun fuel' _ => walk_inside_but hd ht hs f fuel') (splitSep o) K.dropLast fuel hops rest
    (Nat.le_refl _) hs.dirs hs.lex hrest hs.inside

/-- every name through the layer still resolves inside `pk` on such a disk -/
theorem namei_inside_but (hpk : PKey pk) (hd : PrefDirs pk m) {K : Key} {o : Path} (ht : TameBut pk m K o)
    (hs : Special pk m K o) {x : Key} (hx : PKey x) {t : Path} (htx : TextOf t (pk ++ x)) (f : Bool) :
    ∃ K', pk <+: K' ∧ NC m K' (namei m t f) := by
  obtain ⟨tl, hsp, htl, _⟩ := splitSep_text (hpk.append hx) htx
  unfold namei
  simp only [htx.ne_nil, if_false, hsp]
  exact walk_inside_but hd ht hs f _ _ _ _ (winv_text hpk hd hx htl)

/-- a key all of whose proper ancestors are real directories is where its own text resolves
(final symlink not followed) -/
theorem namei_nc_of_dirs {K : Key} (hK : PKey K) {t : Path} (htx : TextOf t K)
    (hanc : ∀ p, p <+: K → p ≠ K → ∃ mt, m.get p = some (.dir mt)) (hroot : (m.get []).isSome) :
    NC m K (namei m t false) := by
  cases hg : m.get K with
  | some n => exact .found n hg (L.namei_found' m false hK htx hg (Or.inr rfl) hanc)
  | none =>
    have hne : K ≠ [] := by
      intro e
      rw [e] at hg
      rw [hg] at hroot
      cases hroot
    obtain ⟨mt, hp⟩ := hanc K.dropLast (dropLast_prefix K) (dropLast_ne_self hne)
    exact .missing hne mt hg hp (namei_missing m false hK htx hne hg hanc)

theorem within_kp {E : Key} (hpk : PKey pk) (hE : PKey E) (h : Within (kp pk) (kp E)) : pk <+: E := by
  unfold Within WithinC at h
  rw [oscleanC_kp hpk, oscleanC_kp hE] at h
  exact List.isPrefixOf_iff_prefix.mp h.2.1

/-- the lexical effective target of a relative link text at key `K`, as `toAbsSymlink` computes it -/
theorem toAbsSymlink_rel {K : Key} (hK : PKey K) {o : Path} (hrel : isAbs o = false) :
    toAbsSymlink o (kp K) = kp (lexK K.dropLast (splitSep o)) := by
  unfold toAbsSymlink
  simp only [hrel, Bool.not_false, if_true]
  rw [dir_kp hK, join_kp_lexK hK.dropLast]

end
end PX
end BFS
