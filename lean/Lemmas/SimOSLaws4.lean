import Lemmas.SimOSLaws3
/-!
  Lemmas/SimOSLaws4.lean — metadata calls (`Chmod`, `Chown`, `Lchown`, `Chtimes`).
-/
namespace BFS
open MFS

section
variable {bk kk : Key}

/-- the common shape of the metadata calls -/
def metaOp (m : MFS) (p : Path) (follow : Bool) (f : Node → Node) : MFS × Except Err Unit :=
  match namei m p follow with
  | .err e => (m, .error e)
  | .missing _ _ => (m, .error .notExist)
  | .found k n => (m.set k (some (f n)), .ok ())

theorem mfs_chmod_eq (m : MFS) (p : Path) (mode : Nat) :
    m.chmod p mode = metaOp m p true (fun n => n.setMeta { n.meta with mode := mode &&& 0o7777 }) := by
  unfold MFS.chmod metaOp
  cases namei m p true <;> rfl

def chownF (uid gid : Int) (n : Node) : Node :=
  n.setMeta { n.meta with uid := if uid < 0 then n.meta.uid else uid.toNat, gid := if gid < 0 then n.meta.gid else gid.toNat, mode := if n.isLink then n.meta.mode else chownMode n }

theorem mfs_chown_eq (m : MFS) (p : Path) (u g : Int) : m.chown p u g = metaOp m p true (chownF u g) := by
  unfold MFS.chown metaOp
  cases namei m p true <;> rfl

theorem mfs_lchown_eq (m : MFS) (p : Path) (u g : Int) : m.lchown p u g = metaOp m p false (chownF u g) := by
  unfold MFS.lchown metaOp
  cases namei m p false <;> rfl

theorem mfs_chtimes_eq (m : MFS) (p : Path) (t : Time) :
    m.chtimes p t = metaOp m p true (fun n => n.setMeta { n.meta with mtime := t }) := by
  unfold MFS.chtimes metaOp
  cases namei m p true <;> rfl

/-- a node update that keeps the kind and the mode bound -/
def KindKeeping (f : Node → Node) : Prop :=
  ∀ n, n.meta.mode < 4096 → (f n).isDir = n.isDir ∧ (f n).isLink = n.isLink ∧ (f n).meta.mode < 4096

theorem metaOp_spec {m m' : MFS} (s : Side) {k : Key} {follow : Bool} {f : Node → Node} {r : Except Err Unit}
    (hr : Roots bk kk) (hg : OSGood bk kk m) (hk : PKey k) (hf : KindKeeping f)
    (h : metaOp m (kp (osRoot bk kk s ++ k)) follow f = (m', r)) :
    OSGood bk kk m' ∧ EqOff m m' (osRoot bk kk s ++ k) := by
  unfold metaOp at h
  rcases namei_below s hr hg hk follow with ⟨n, hn, hnl, hres⟩ | ⟨hne, mt, hn, hp, hres⟩ | ⟨e, hne, hn, hp, hres, he⟩
  · rw [hres] at h
    cases h
    obtain ⟨a, b, c⟩ := hf n (hg.mode _ n hn)
    exact ⟨good_set_repl hg hn a b c, EqOff.set _ _ _⟩
  · rw [hres] at h
    cases h
    exact ⟨hg, EqOff.refl _ _⟩
  · rw [hres] at h
    cases h
    exact ⟨hg, EqOff.refl _ _⟩

theorem metaOp_live {m : MFS} {s : Side} {k : Key} {n0 : Node} (follow : Bool) (f : Node → Node)
    (hr : Roots bk kk) (hg : OSGood bk kk m) (hk : PKey k) (h0 : m.get (osRoot bk kk s ++ k) = some n0) :
    metaOp m (kp (osRoot bk kk s ++ k)) follow f = (m.set (osRoot bk kk s ++ k) (some (f n0)), .ok ()) := by
  unfold metaOp
  rw [namei_live hr hg hk h0]

/-- the frame law for a call that is a `metaOp` -/
theorem meta_frame {m m' : MFS} {s : Side} {k : Key} {c c' : Call} {follow : Bool} {f : Node → Node}
    {r : Except Err Ret} (hr : Roots bk kk) (hg : OSGood bk kk m) (hk : PKey k) (hf : KindKeeping f)
    (htr : PrefixFS.translate (kp (osRoot bk kk s)) c = .ok c')
    (hos : osCall m c' = liftU (metaOp m (kp (osRoot bk kk s ++ k)) follow f))
    (h : ((osCfg bk kk).side s).call m c = (m', r)) :
    OSGood bk kk m' ∧ osView bk kk s.other m' = osView bk kk s.other m ∧
      (∀ j, j ≠ k → osView bk kk s m' j = osView bk kk s m j) := by
  rw [side_call_unit hr s m htr hos] at h
  obtain ⟨h1, _⟩ := Prod.mk.inj h
  obtain ⟨g1, g2⟩ := metaOp_spec s hr hg hk hf (Prod.ext h1 rfl)
  exact ⟨g1, frame_of hr g2⟩

/-- the exact-effect law for a call that is a `metaOp` -/
theorem meta_some {m : MFS} {s : Side} {k : Key} {c c' : Call} {follow : Bool} {f : Node → Node} {n0 : Node}
    (hr : Roots bk kk) (hg : OSGood bk kk m) (hk : PKey k)
    (htr : PrefixFS.translate (kp (osRoot bk kk s)) c = .ok c')
    (hos : osCall m c' = liftU (metaOp m (kp (osRoot bk kk s ++ k)) follow f))
    (h0 : m.get (osRoot bk kk s ++ k) = some n0) :
    ∃ m', ((osCfg bk kk).side s).call m c = (m', .ok .unit) ∧ osView bk kk s m' k = some (eraseMt (f n0)) := by
  rw [side_call_unit hr s m htr hos, metaOp_live follow f hr hg hk h0]
  refine ⟨_, rfl, ?_⟩
  rw [osView_eq, set_get_self]
  rfl

theorem kk_chmod (mode : Nat) : KindKeeping (fun n => n.setMeta { n.meta with mode := mode &&& 0o7777 }) := by
  intro n _
  have : mode &&& 0o7777 < 4096 := Nat.lt_of_le_of_lt Nat.and_le_right (by decide)
  cases n <;> exact ⟨rfl, rfl, this⟩

theorem chownMode_le (n : Node) : chownMode n ≤ n.meta.mode := by
  unfold chownMode
  simp only
  split
  · exact Nat.le_refl _
  · split
    · exact Nat.le_trans Nat.and_le_left Nat.and_le_left
    · exact Nat.and_le_left

theorem kk_chown (u g : Int) : KindKeeping (chownF u g) := by
  intro n hn
  have h1 := chownMode_le n
  unfold chownF
  cases n with
  | file c mt => exact ⟨rfl, rfl, Nat.lt_of_le_of_lt h1 hn⟩
  | dir mt => exact ⟨rfl, rfl, Nat.lt_of_le_of_lt h1 hn⟩
  | link t mt => exact ⟨rfl, rfl, hn⟩

theorem kk_chtimes (t : Time) : KindKeeping (fun n => n.setMeta { n.meta with mtime := t }) := by
  intro n hn
  cases n <;> exact ⟨rfl, rfl, hn⟩

/-! ### the laws -/

theorem os_chmod_frame {m m' : MFS} {s : Side} {k : Key} {mode : Nat} {r : Except Err Ret} (hr : Roots bk kk)
    (hg : OSGood bk kk m) (hk : PKey k) (h : ((osCfg bk kk).side s).call m (.chmod (kp k) mode) = (m', r)) :
    OSGood bk kk m' ∧ osView bk kk s.other m' = osView bk kk s.other m ∧
      (∀ j, j ≠ k → osView bk kk s m' j = osView bk kk s m j) :=
  meta_frame hr hg hk (kk_chmod mode) (tr_chmod (hr.pkey s) hk mode)
    (by show liftU (m.chmod _ _) = _; rw [mfs_chmod_eq]) h

theorem os_chmod_some {m : MFS} {s : Side} {k : Key} {mode : Nat} {n : Node} (hr : Roots bk kk)
    (hg : OSGood bk kk m) (hk : PKey k) (hv : osView bk kk s m k = some n) :
    ∃ m', ((osCfg bk kk).side s).call m (.chmod (kp k) mode) = (m', .ok .unit) ∧
      osView bk kk s m' k = some (n.setMeta { n.meta with mode := mode &&& 0o7777 }) := by
  obtain ⟨n0, h0, he⟩ := osView_some hv
  obtain ⟨m', e1, e2⟩ := meta_some (c := .chmod (kp k) mode) hr hg hk (tr_chmod (hr.pkey s) hk mode)
    (by show liftU (m.chmod _ _) = _; rw [mfs_chmod_eq]) h0
  refine ⟨m', e1, ?_⟩
  rw [e2, ← he]
  cases n0 <;> rfl

theorem os_chown_frame {m m' : MFS} {s : Side} {k : Key} {u g : Int} {r : Except Err Ret} (hr : Roots bk kk)
    (hg : OSGood bk kk m) (hk : PKey k) (h : ((osCfg bk kk).side s).call m (.chown (kp k) u g) = (m', r)) :
    OSGood bk kk m' ∧ osView bk kk s.other m' = osView bk kk s.other m ∧
      (∀ j, j ≠ k → osView bk kk s m' j = osView bk kk s m j) :=
  meta_frame hr hg hk (kk_chown u g) (tr_chown (hr.pkey s) hk u g)
    (by show liftU (m.chown _ _ _) = _; rw [mfs_chown_eq]) h

theorem os_lchown_frame {m m' : MFS} {s : Side} {k : Key} {u g : Int} {r : Except Err Ret} (hr : Roots bk kk)
    (hg : OSGood bk kk m) (hk : PKey k) (h : ((osCfg bk kk).side s).call m (.lchown (kp k) u g) = (m', r)) :
    OSGood bk kk m' ∧ osView bk kk s.other m' = osView bk kk s.other m ∧
      (∀ j, j ≠ k → osView bk kk s m' j = osView bk kk s m j) :=
  meta_frame hr hg hk (kk_chown u g) (tr_lchown (hr.pkey s) hk u g)
    (by show liftU (m.lchown _ _ _) = _; rw [mfs_lchown_eq]) h

theorem os_chown_some {m : MFS} {s : Side} {k : Key} {u g : Int} {n : Node} (hr : Roots bk kk)
    (hg : OSGood bk kk m) (hk : PKey k) (hv : osView bk kk s m k = some n) :
    ∃ m', ((osCfg bk kk).side s).call m (.chown (kp k) u g) = (m', .ok .unit) ∧
      osView bk kk s m' k = some (chownNode n u g) := by
  obtain ⟨n0, h0, he⟩ := osView_some hv
  obtain ⟨m', e1, e2⟩ := meta_some (c := .chown (kp k) u g) hr hg hk (tr_chown (hr.pkey s) hk u g)
    (by show liftU (m.chown _ _ _) = _; rw [mfs_chown_eq]) h0
  refine ⟨m', e1, ?_⟩
  rw [e2, ← he]
  cases n0 <;> rfl

theorem os_chtimes_frame {m m' : MFS} {s : Side} {k : Key} {a t : Time} {r : Except Err Ret} (hr : Roots bk kk)
    (hg : OSGood bk kk m) (hk : PKey k) (h : ((osCfg bk kk).side s).call m (.chtimes (kp k) a t) = (m', r)) :
    OSGood bk kk m' ∧ osView bk kk s.other m' = osView bk kk s.other m ∧
      (∀ j, j ≠ k → osView bk kk s m' j = osView bk kk s m j) :=
  meta_frame hr hg hk (kk_chtimes t) (tr_chtimes (hr.pkey s) hk a t)
    (by show liftU (m.chtimes _ _) = _; rw [mfs_chtimes_eq]) h

theorem os_chtimes_file {m : MFS} {s : Side} {k : Key} {a t : Time} {c : String} {mt : Meta} (hr : Roots bk kk)
    (hg : OSGood bk kk m) (hk : PKey k) (hv : osView bk kk s m k = some (.file c mt)) :
    ∃ m', ((osCfg bk kk).side s).call m (.chtimes (kp k) a t) = (m', .ok .unit) ∧
      osView bk kk s m' k = some (.file c { mt with mtime := t }) := by
  obtain ⟨n0, h0, he⟩ := osView_some hv
  rw [eraseMt_file] at he
  subst he
  obtain ⟨m', e1, e2⟩ := meta_some (c := .chtimes (kp k) a t) hr hg hk (tr_chtimes (hr.pkey s) hk a t)
    (by show liftU (m.chtimes _ _) = _; rw [mfs_chtimes_eq]) h0
  exact ⟨m', e1, e2⟩

theorem os_chtimes_dir {m : MFS} {s : Side} {k : Key} {a t : Time} (hr : Roots bk kk)
    (hg : OSGood bk kk m) (hk : PKey k) (hv : (osView bk kk s m).isDirAt k) :
    ∃ m', ((osCfg bk kk).side s).call m (.chtimes (kp k) a t) = (m', .ok .unit) ∧
      osView bk kk s m' k = osView bk kk s m k := by
  obtain ⟨mt, h0⟩ := osView_isDirAt hv
  obtain ⟨m', e1, e2⟩ := meta_some (c := .chtimes (kp k) a t) hr hg hk (tr_chtimes (hr.pkey s) hk a t)
    (by show liftU (m.chtimes _ _) = _; rw [mfs_chtimes_eq]) h0
  refine ⟨m', e1, ?_⟩
  rw [e2, osView_eq, h0]
  rfl

end
end BFS
