import Lemmas.NSimOS
/-!
  Lemmas/S4Ex.lean — a concrete disk for the non-vacuity examples of C04 at disk level: base root
  `/b` holding a file `/b/f`, a directory `/b/d` (mode 0750, uid 7) with a file `/b/d/g`, and the
  backup location `/b/d/k` — two levels below the base root — which already holds a file `x`;
  `/k` is the unrelated directory of `OSGood`.
-/
namespace BFS.S4

def deepDisk : MFS where
  get := fun k =>
    if k = [] then some (.dir exMeta)
    else if k = [['b']] then some (.dir exMeta)
    else if k = [['k']] then some (.dir exMeta)
    else if k = [['b'], ['f']] then some (.file "hello" { exMeta with mode := 0o644 })
    else if k = [['b'], ['d']] then some (.dir { exMeta with mode := 0o750, uid := 7 })
    else if k = [['b'], ['d'], ['g']] then some (.file "gg" { exMeta with mode := 0o600 })
    else if k = [['b'], ['d'], ['k']] then some (.dir exMeta)
    else if k = [['b'], ['d'], ['k'], ['x']] then some (.file "secret" { exMeta with mode := 0o600 })
    else none
  dom := [[], [['b']], [['k']], [['b'], ['f']], [['b'], ['d']], [['b'], ['d'], ['g']], [['b'], ['d'], ['k']],
    [['b'], ['d'], ['k'], ['x']]]
  umask := 0o022

theorem deepDisk_live {k : Key} {n : Node} (h : deepDisk.get k = some n) :
    (k = [] ∧ n = .dir exMeta) ∨ (k = [['b']] ∧ n = .dir exMeta) ∨ (k = [['k']] ∧ n = .dir exMeta) ∨
    (k = [['b'], ['f']] ∧ n = .file "hello" { exMeta with mode := 0o644 }) ∨
    (k = [['b'], ['d']] ∧ n = .dir { exMeta with mode := 0o750, uid := 7 }) ∨
    (k = [['b'], ['d'], ['g']] ∧ n = .file "gg" { exMeta with mode := 0o600 }) ∨
    (k = [['b'], ['d'], ['k']] ∧ n = .dir exMeta) ∨
    (k = [['b'], ['d'], ['k'], ['x']] ∧ n = .file "secret" { exMeta with mode := 0o600 }) := by
  simp only [deepDisk] at h
  split at h
  · cases h; exact Or.inl ⟨‹_›, rfl⟩
  split at h
  · cases h; exact Or.inr (Or.inl ⟨‹_›, rfl⟩)
  split at h
  · cases h; exact Or.inr (Or.inr (Or.inl ⟨‹_›, rfl⟩))
  split at h
  · cases h; exact Or.inr (Or.inr (Or.inr (Or.inl ⟨‹_›, rfl⟩)))
  split at h
  · cases h; exact Or.inr (Or.inr (Or.inr (Or.inr (Or.inl ⟨‹_›, rfl⟩))))
  split at h
  · cases h; exact Or.inr (Or.inr (Or.inr (Or.inr (Or.inr (Or.inl ⟨‹_›, rfl⟩)))))
  split at h
  · cases h; exact Or.inr (Or.inr (Or.inr (Or.inr (Or.inr (Or.inr (Or.inl ⟨‹_›, rfl⟩))))))
  split at h
  · cases h; exact Or.inr (Or.inr (Or.inr (Or.inr (Or.inr (Or.inr (Or.inr ⟨‹_›, rfl⟩))))))
  · cases h

theorem deepDisk_osGood : OSGood [['b']] [['k']] deepDisk := by
  refine ⟨⟨_, rfl⟩, ?_, ?_, ?_, ?_, ⟨_, rfl⟩, ⟨_, rfl⟩, ?_⟩
  · intro k n h
    rcases deepDisk_live h with ⟨rfl, _⟩ | ⟨rfl, _⟩ | ⟨rfl, _⟩ | ⟨rfl, _⟩ | ⟨rfl, _⟩ | ⟨rfl, _⟩ | ⟨rfl, _⟩ | ⟨rfl, _⟩ <;> decide
  · intro k n h
    rcases deepDisk_live h with ⟨rfl, _⟩ | ⟨rfl, _⟩ | ⟨rfl, _⟩ | ⟨rfl, _⟩ | ⟨rfl, _⟩ | ⟨rfl, _⟩ | ⟨rfl, _⟩ | ⟨rfl, _⟩ <;> decide
  · intro k n h
    rcases deepDisk_live h with ⟨_, rfl⟩ | ⟨_, rfl⟩ | ⟨_, rfl⟩ | ⟨_, rfl⟩ | ⟨_, rfl⟩ | ⟨_, rfl⟩ | ⟨_, rfl⟩ | ⟨_, rfl⟩ <;> decide
  · intro k n h hne
    rcases deepDisk_live h with ⟨rfl, _⟩ | ⟨rfl, _⟩ | ⟨rfl, _⟩ | ⟨rfl, _⟩ | ⟨rfl, _⟩ | ⟨rfl, _⟩ | ⟨rfl, _⟩ | ⟨rfl, _⟩
    · exact absurd rfl hne
    all_goals exact ⟨_, rfl⟩
  · intro k t mt _ h
    rcases deepDisk_live h with ⟨_, e⟩ | ⟨_, e⟩ | ⟨_, e⟩ | ⟨_, e⟩ | ⟨_, e⟩ | ⟨_, e⟩ | ⟨_, e⟩ | ⟨_, e⟩ <;> cases e

/-- base root `/b`, location `/d/k` (two levels down), other directory `/k` -/
theorem deepRoots : N.NRoots [['b']] [['d'], ['k']] [['k']] :=
  ⟨by decide, by decide, by decide, by decide, by decide, by decide, by decide, by decide⟩

theorem deepDisk_good : N.NGood [['b']] [['d'], ['k']] [['k']] deepDisk := ⟨deepDisk_osGood, ⟨_, rfl⟩⟩

/-- base root `/b`, location `/d` (directly below the root) on the same disk -/
theorem deepRoots1 : N.NRoots [['b']] [['d']] [['k']] :=
  ⟨by decide, by decide, by decide, by decide, by decide, by decide, by decide, by decide⟩

theorem deepDisk_good1 : N.NGood [['b']] [['d']] [['k']] deepDisk := ⟨deepDisk_osGood, ⟨_, rfl⟩⟩

end BFS.S4
