import Lemmas.UOps6
import Lemmas.UMk
/-!
  Lemmas/UOps7.lean — transparency through flat symlinks (C03): `MkdirAll` when the resolved key exists
  or has a live parent directory (the `Stat` fast path of `os.MkdirAll`, or one `Mkdir` below the existing
  parent).  `os.MkdirAll` walks the TEXT of the path; the caller's text goes through the symlinks, the
  resolved text does not: `U.mkdirAll_rel_flat`.
-/
namespace BFS
namespace U
open BackupFS MFS F16

section
variable {bk kk : Key}
variable (hr : Roots bk kk) {v0 : View} {w : World} {name : Path} {k : Key}
include hr

theorem side_mkdirAllU (m : MFS) (j : Key) (hj : PKey j) (perm : Nat) :
    (baseFS bk kk).call m (.mkdirAll (kp j) perm) =
      ((m.mkdirAll perm ((kp (bk ++ j)).length + 2) (kp (bk ++ j))).1,
       (m.mkdirAll perm ((kp (bk ++ j)).length + 2) (kp (bk ++ j))).2.map (fun _ => Ret.unit)) :=
  side_mkdirAll (m := m) .base hr hj perm

theorem mkdirAll_transpU (hinv : L.Inv (osSimLR hr) v0 w) (hnf : w.faults = []) (hflat : Flat bk w.fs) (hk : PKey k)
    (hname : clean name = kp k) (hlen : k.length ≤ 40)
    (hfin : ∀ t mt, w.fs.get (bk ++ L.G.rk bk w k) ≠ some (.link t mt))
    (hpar : w.fs.get (bk ++ L.G.rk bk w k) ≠ none ∨
      ∃ mt, w.fs.get (bk ++ (L.G.rk bk w k).dropLast) = some (.dir mt)) (perm : Nat) :
    Sat (Op.exec (osCfg bk kk) (.mkdirAll name perm)) w
      (fun w' res => TranspU bk w ((Op.backupPhase (osCfg bk kk) (.mkdirAll name perm) w).2) w' res
        (Op.direct (baseFS bk kk) w.fs (.mkdirAll name perm))) := by
  have hrk := L.G.rk_pkey hr hinv.good hflat hk
  have hlok : ∀ t mt, L.osViewL bk kk .base w.fs (L.G.rk bk w k) = some (.link t mt) →
      L.osLinkOK bk kk .base (L.G.rk bk w k) t := by
    intro t mt hv
    obtain ⟨raw, m0, h0, _⟩ := L.osViewL_link hv
    exact absurd h0 (hfin raw m0)
  have h := single_transpU hr (c := fun r => .mkdirAll r perm) hinv hnf hflat hk hname hlok
    (fun m => (base_call_spelling m hk hname).2.2.1 perm)
    (fun m2 hg2 hb => callRelU_of_sys (c := fun r => .mkdirAll r perm)
      (sys := fun m p => m.mkdirAll perm (p.length + 2) p)
      (fun m j hj => side_mkdirAllU hr m j hj perm) hk hrk
      (mkdirAll_rel_flat hr hinv.good hg2 hb hflat hk hlen hfin hpar perm _ _))
  have e : (Op.backupPhase (osCfg bk kk) (.mkdirAll name perm) w).2 =
      (prepare (osCfg bk kk) name w).2.map (fun _ => ()) := prepPhase_snd _ _ _
  rw [e]
  exact h

end

end U
end BFS
