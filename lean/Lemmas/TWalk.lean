import Lemmas.TStep
/-!
  Lemmas/TWalk.lean — tools for `RemoveAll` (C03):

  * `single_core`: a single-path mutator through BackupFS against the direct call on *another* disk
    with the same base view;
  * `walkRec_sim` / `walkNames_sim` / `walkTree_sim`: a generic lock-step simulation of two runs of
    `Walk` (walk.go) over different state spaces.
-/
namespace BFS
open BackupFS MFS

section
variable {bk kk : Key}

theorem Twin.trans {m1 m2 m3 : MFS} (h1 : Twin bk kk m1 m2) (h2 : Twin bk kk m2 m3) : Twin bk kk m1 m3 :=
  ⟨h1.g1, h2.g2, h1.eq.trans h2.eq⟩

theorem Twin.symm {m1 m2 : MFS} (h : Twin bk kk m1 m2) : Twin bk kk m2 m1 := ⟨h.g2, h.g1, h.eq.symm⟩

/-- the result of a mutator without return value through BackupFS agrees with the direct one -/
def UnitAgree (r : Except Err Unit) (rd : Except Err Ret) : Prop :=
  match r, rd with
  | .ok _, .ok _ => True
  | .error e1, .error e2 => e1 = e2 ∨ (e1 = .typeMismatch ∧ e2.isNotFound = true)
  | _, _ => False

/-- `single_transp` against the direct call on any disk `m` with the same base view as `w.fs` -/
theorem single_core (hr : Roots bk kk) {v0 : View} {r0 : Option Node} {w : World} {m : MFS} {name : Path} {k : Key}
    {c : Path → Call} (hinv : InvB (osSimR hr) v0 r0 w) (htw0 : Twin bk kk w.fs m) (hk : PKey k)
    (hname : clean name = kp k)
    (hspell : ∀ m, (baseFS bk kk).call m (c name) = (baseFS bk kk).call m (c (kp k)))
    (hrel : ∀ m1 m2, Twin bk kk m1 m2 → CallRel bk kk m1 m2 (c (kp k)))
    (hfail : ∀ m, OSGood bk kk m → FileAnc (osView bk kk .base m) k →
      (baseFS bk kk).call m (c (kp k)) = (m, .error .notDir)) :
    Sat (prepare (osCfg bk kk) name >>= fun r => primUnit (osCfg bk kk) .base (c r)) w
      (fun w' r => UnitAgree r ((baseFS bk kk).call m (c name)).2 ∧
        Twin bk kk w'.fs ((baseFS bk kk).call m (c name)).1) := by
  rw [hspell]
  apply Sat.bind
  apply ((sat_prepareT hinv hk hname).and
    (show Sat (prepare (osCfg bk kk) name) w (fun w' _ => w'.fs.umask = w.fs.umask) from
      prepare_ku (osCfg_keeps_umask bk kk) name w)).mono
  intro w1 r ⟨⟨hadv, hok, hfl⟩, hu⟩
  have htw := (twin_of_adv hr hinv hadv hu).trans htw0
  cases r with
  | error e =>
    obtain ⟨he, hfa⟩ := hfl e rfl
    have hfa' : FileAnc (osView bk kk .base m) k := by
      obtain ⟨a, h1, h2, c', mt, h3⟩ := hfa
      exact ⟨a, h1, h2, c', mt, by rw [← htw0.same_view a]; exact h3⟩
    rw [hfail m htw0.g2 hfa']
    exact ⟨by rw [he]; exact Or.inr ⟨rfl, rfl⟩, htw⟩
  | ok p =>
    obtain ⟨hp, _⟩ := hok p rfl
    subst hp
    simp only
    apply (sat_primUnit_nf (cfg := osCfg bk kk) (c := c (kp k)) hadv.inv.nofault).mono
    intro w2 r2 ⟨hfs, hr2⟩
    obtain ⟨hres, htw2⟩ := hrel w1.fs m htw
    have hr2' : r2 = ((baseFS bk kk).call w1.fs (c (kp k))).2.map (fun _ => ()) := hr2
    have hfs' : w2.fs = ((baseFS bk kk).call w1.fs (c (kp k))).1 := hfs
    rw [hres] at hr2'
    rw [← hfs'] at htw2
    refine ⟨?_, htw2⟩
    rw [hr2']
    cases ((baseFS bk kk).call m (c (kp k))).2 with
    | ok a => trivial
    | error e => exact Or.inl rfl

end

/-! ### two runs of `Walk` in lock-step -/

section
variable {σ₁ σ₂ α : Type} (R : σ₁ → σ₂ → α → Prop) (Good : Path → Prop)
  (ops₁ : WalkOps σ₁) (ops₂ : WalkOps σ₂) (fn₁ : WalkFn σ₁ α) (fn₂ : WalkFn σ₂ α)

/-- if the second run reports no error, neither does the first, and the states are related again -/
def OutSim (X : (σ₁ × α) × Option Err) (Y : (σ₂ × α) × Option Err) : Prop :=
  Y.2 = none → X.2 = none ∧ X.1.2 = Y.1.2 ∧ R X.1.1 Y.1.1 Y.1.2

/-- the two `lstat`s: related states again, and both fail or both succeed with the same `IsDir` -/
def LstatSim : Prop := ∀ s₁ s₂ a p, R s₁ s₂ a → Good p →
  R (ops₁.lstat s₁ p).1 (ops₂.lstat s₂ p).1 a ∧
    ((∃ i1 i2, (ops₁.lstat s₁ p).2 = .ok i1 ∧ (ops₂.lstat s₂ p).2 = .ok i2 ∧ i1.isDir = i2.isDir) ∨
     (∃ e1 e2, (ops₁.lstat s₁ p).2 = .error e1 ∧ (ops₂.lstat s₂ p).2 = .error e2))

def ReadSim : Prop := ∀ s₁ s₂ a p, R s₁ s₂ a → Good p →
  R (ops₁.readDirNames s₁ p).1 (ops₂.readDirNames s₂ p).1 a ∧
    ((∃ ns, (ops₁.readDirNames s₁ p).2 = .ok ns ∧ (ops₂.readDirNames s₂ p).2 = .ok ns ∧ ∀ n ∈ ns, Good (join p n)) ∨
     (∃ e1 e2, (ops₁.readDirNames s₁ p).2 = .error e1 ∧ (ops₂.readDirNames s₂ p).2 = .error e2))

/-- the walk functions on an entry (no error reported by `Walk`) -/
def FnSim : Prop := ∀ s₁ s₂ a p i1 i2, R s₁ s₂ a → Good p → i1.isDir = i2.isDir →
  OutSim R (fn₁ s₁ a p (some i1) none) (fn₂ s₂ a p (some i2) none)

/-- the second walk function passes on every error `Walk` reports -/
def FnErr : Prop := ∀ s₂ a p oi e, (fn₂ s₂ a p oi (some e)).2 ≠ none

variable {R Good ops₁ ops₂ fn₁ fn₂}

theorem walk_sim (hl : LstatSim R Good ops₁ ops₂) (hrd : ReadSim R Good ops₁ ops₂) (hf : FnSim R Good fn₁ fn₂)
    (he : FnErr fn₂) :
    ∀ fuel,
      (∀ s₁ s₂ a p i1 i2, R s₁ s₂ a → Good p → i1.isDir = i2.isDir →
        OutSim R (walkRec ops₁ fn₁ fuel s₁ a p i1) (walkRec ops₂ fn₂ fuel s₂ a p i2)) ∧
      (∀ names s₁ s₂ a p, R s₁ s₂ a → Good p → (∀ n ∈ names, Good (join p n)) →
        OutSim R (walkNames ops₁ fn₁ fuel s₁ a p names) (walkNames ops₂ fn₂ fuel s₂ a p names)) := by
  have names_of_rec : ∀ fuel,
      (∀ s₁ s₂ a p i1 i2, R s₁ s₂ a → Good p → i1.isDir = i2.isDir →
        OutSim R (walkRec ops₁ fn₁ fuel s₁ a p i1) (walkRec ops₂ fn₂ fuel s₂ a p i2)) →
      (∀ names s₁ s₂ a p, R s₁ s₂ a → Good p → (∀ n ∈ names, Good (join p n)) →
        OutSim R (walkNames ops₁ fn₁ fuel s₁ a p names) (walkNames ops₂ fn₂ fuel s₂ a p names)) := by
    intro fuel hrec names
    induction names with
    | nil =>
      intro s₁ s₂ a p hR _ _
      rw [walkNames, walkNames]
      intro _
      exact ⟨rfl, rfl, hR⟩
    | cons n rest ih =>
      intro s₁ s₂ a p hR hp hall
      have hgn : Good (join p n) := hall n (by simp)
      have hrest : ∀ x ∈ rest, Good (join p x) := fun x hx => hall x (List.mem_cons_of_mem _ hx)
      rw [walkNames, walkNames]
      obtain ⟨hR1, hcase⟩ := hl s₁ s₂ a (join p n) hR hgn
      cases h1 : ops₁.lstat s₁ (join p n) with
      | mk t1 r1 =>
        cases h2 : ops₂.lstat s₂ (join p n) with
        | mk t2 r2 =>
          rw [h1, h2] at hR1 hcase
          simp only at hR1 hcase
          rcases hcase with ⟨i1, i2, e1, e2, hd⟩ | ⟨x1, x2, e1, e2⟩
          · subst e1 e2
            simp only
            have hsub := hrec t1 t2 a (join p n) i1 i2 hR1 hgn hd
            cases hw1 : walkRec ops₁ fn₁ fuel t1 a (join p n) i1 with
            | mk sa1 oe1 =>
              cases hw2 : walkRec ops₂ fn₂ fuel t2 a (join p n) i2 with
              | mk sa2 oe2 =>
                rw [hw1, hw2] at hsub
                obtain ⟨u1, b1⟩ := sa1
                obtain ⟨u2, b2⟩ := sa2
                cases oe2 with
                | some e => intro h; cases h
                | none =>
                  obtain ⟨g1, g2, g3⟩ := hsub rfl
                  simp only at g1 g2 g3
                  subst g1 g2
                  simp only
                  exact ih u1 u2 b1 p g3 hp hrest
          · subst e1 e2
            simp only
            have := he t2 a (join p n) none x2
            cases hf2 : fn₂ t2 a (join p n) none (some x2) with
            | mk sa2 oe2 =>
              rw [hf2] at this
              cases oe2 with
              | none => exact absurd rfl this
              | some e => intro h; cases h
  intro fuel
  induction fuel with
  | zero =>
    have hrec : ∀ s₁ s₂ a p i1 i2, R s₁ s₂ a → Good p → i1.isDir = i2.isDir →
        OutSim R (walkRec ops₁ fn₁ 0 s₁ a p i1) (walkRec ops₂ fn₂ 0 s₂ a p i2) := by
      intro s₁ s₂ a p i1 i2 _ _ _
      rw [walkRec, walkRec]
      intro h; cases h
    exact ⟨hrec, names_of_rec 0 hrec⟩
  | succ fuel ih =>
    have hrec : ∀ s₁ s₂ a p i1 i2, R s₁ s₂ a → Good p → i1.isDir = i2.isDir →
        OutSim R (walkRec ops₁ fn₁ (fuel + 1) s₁ a p i1) (walkRec ops₂ fn₂ (fuel + 1) s₂ a p i2) := by
      intro s₁ s₂ a p i1 i2 hR hp hd
      rw [walkRec, walkRec]
      have hfn := hf s₁ s₂ a p i1 i2 hR hp hd
      cases hf1 : fn₁ s₁ a p (some i1) none with
      | mk sa1 oe1 =>
        cases hf2 : fn₂ s₂ a p (some i2) none with
        | mk sa2 oe2 =>
          rw [hf1, hf2] at hfn
          obtain ⟨u1, b1⟩ := sa1
          obtain ⟨u2, b2⟩ := sa2
          cases oe2 with
          | some e => intro h; cases h
          | none =>
            obtain ⟨g1, g2, g3⟩ := hfn rfl
            simp only at g1 g2 g3
            subst g1 g2
            simp only [hd]
            split
            · intro _; exact ⟨rfl, rfl, g3⟩
            · obtain ⟨hR2, hcase⟩ := hrd u1 u2 b1 p g3 hp
              cases hr1 : ops₁.readDirNames u1 p with
              | mk t1 r1 =>
                cases hr2 : ops₂.readDirNames u2 p with
                | mk t2 r2 =>
                  rw [hr1, hr2] at hR2 hcase
                  simp only at hR2 hcase
                  rcases hcase with ⟨ns, e1, e2, hgood⟩ | ⟨x1, x2, e1, e2⟩
                  · subst e1 e2
                    simp only
                    exact ih.2 ns t1 t2 b1 p hR2 hp hgood
                  · subst e1 e2
                    simp only
                    have := he t2 b1 p (some i2) x2
                    cases hf3 : fn₂ t2 b1 p (some i2) (some x2) with
                    | mk sa3 oe3 =>
                      rw [hf3] at this
                      cases oe3 with
                      | none => exact absurd rfl this
                      | some e => intro h; cases h
    exact ⟨hrec, names_of_rec (fuel + 1) hrec⟩

theorem walkTree_sim (hl : LstatSim R Good ops₁ ops₂) (hrd : ReadSim R Good ops₁ ops₂) (hf : FnSim R Good fn₁ fn₂)
    (he : FnErr fn₂) (fuel : Nat) {s₁ : σ₁} {s₂ : σ₂} {a : α} {p : Path} (hR : R s₁ s₂ a) (hp : Good p) :
    OutSim R (walkTree ops₁ fn₁ fuel s₁ a p) (walkTree ops₂ fn₂ fuel s₂ a p) := by
  unfold walkTree
  obtain ⟨hR1, hcase⟩ := hl s₁ s₂ a p hR hp
  cases h1 : ops₁.lstat s₁ p with
  | mk t1 r1 =>
    cases h2 : ops₂.lstat s₂ p with
    | mk t2 r2 =>
      rw [h1, h2] at hR1 hcase
      simp only at hR1 hcase
      rcases hcase with ⟨i1, i2, e1, e2, hd⟩ | ⟨x1, x2, e1, e2⟩
      · subst e1 e2
        exact (walk_sim hl hrd hf he fuel).1 t1 t2 a p i1 i2 hR1 hp hd
      · subst e1 e2
        simp only
        have := he t2 a p none x2
        cases hf2 : fn₂ t2 a p none (some x2) with
        | mk sa2 oe2 =>
          rw [hf2] at this
          cases oe2 with
          | none => exact absurd rfl this
          | some e => intro h; cases h

end

end BFS
