import Model.Direct
/-! the definitions of `Op.direct` live in Model/Direct.lean (executed by the driver) -/
