import Lemmas.PXAgree
import Lemmas.SimOSDir
/-!
  Lemmas/PXDom.lean — the representation invariant of `MFS` ("`dom` is a superset of the support",
  `DomSup`) is preserved by every syscall of the OS model on ANY disk (no well-formedness), and under
  it directory listings and the emptiness test of `Remove` are functions of the nodes below the
  directory: two disks that agree below `pk` list every directory at or below `pk` the same way.
-/
namespace BFS
namespace PX
open MFS D

/-- every live key is enumerated by `dom` (the model's representation invariant) -/
def DomSup (m : MFS) : Prop := ∀ k, (m.get k).isSome → k ∈ m.dom

theorem DomSup.set {m : MFS} (h : DomSup m) (K : Key) (v : Option Node) : DomSup (m.set K v) := by
  intro k hk
  by_cases e : k = K
  · subst e; exact mem_set_dom_self _ _ _
  · rw [set_get_ne m v e] at hk
    exact mem_set_dom_of_mem _ _ _ (h k hk)

theorem DomSup.touchDir {m : MFS} (h : DomSup m) (k : Key) : DomSup (m.touchDir k) := by
  rcases touchDir_cases m k with ⟨mt, _, e⟩ | e
  · rw [e]; exact h.set _ _
  · rw [e]; exact h

theorem DomSup.removeSubtree {m : MFS} (h : DomSup m) (K : Key) : DomSup (m.removeSubtree K) := by
  intro k hk
  obtain ⟨n, hn⟩ := Option.isSome_iff_exists.mp hk
  exact h k (by rw [(removeSubtree_get_some hn).2]; rfl)

theorem DomSup.moveSubtree {m : MFS} (h : DomSup m) (Ko Kn : Key) : DomSup (m.moveSubtree Ko Kn) := by
  intro k hk
  obtain ⟨n, hn⟩ := Option.isSome_iff_exists.mp hk
  show k ∈ m.dom ++ (m.dom.filter (fun k => Ko.isPrefixOf k)).map (fun k => Kn ++ k.drop Ko.length)
  rcases moveSubtree_get_some hn with ⟨x, rfl, h'⟩ | ⟨_, _, h'⟩
  · apply List.mem_append_right
    rw [List.mem_map]
    refine ⟨Ko ++ x, ?_, by rw [List.drop_left]⟩
    rw [List.mem_filter]
    exact ⟨h _ (by rw [h']; rfl), List.isPrefixOf_iff_prefix.mpr (List.prefix_append _ _)⟩
  · exact List.mem_append_left _ (h k (by rw [h']; rfl))

/-! ### every syscall keeps the invariant -/

theorem ds_metaOp {m : MFS} (h : DomSup m) (t : Path) (follow : Bool) (f : Node → Node) :
    DomSup (metaOp m t follow f).1 := by
  unfold metaOp
  split
  · exact h
  · exact h
  · exact h.set _ _

theorem ds_mkdir {m : MFS} (h : DomSup m) (t : Path) (perm : Nat) : DomSup (m.mkdir t perm).1 := by
  unfold MFS.mkdir
  split
  · exact h
  · exact h
  · exact (h.set _ _).touchDir _

theorem ds_symlink {m : MFS} (h : DomSup m) (o t : Path) : DomSup (m.symlink o t).1 := by
  unfold MFS.symlink
  split
  · exact h
  · split
    · exact h
    · exact h
    · exact (h.set _ _).touchDir _

theorem ds_openFile {m : MFS} (h : DomSup m) (t : Path) (flag perm : Nat) :
    DomSup (m.openFile t flag perm).1 := by
  unfold MFS.openFile
  simp only
  split
  · exact h
  · split
    · exact h
    · split
      · split <;> exact h
      · exact h
      · split
        · exact h.set _ _
        · exact h
  · split
    · exact h
    · exact (h.set _ _).touchDir _

theorem ds_remove {m : MFS} (h : DomSup m) (t : Path) : DomSup (m.remove t).1 := by
  unfold MFS.remove
  split
  · exact h
  · exact h
  · split
    · exact h
    · split
      · split
        · exact h
        · exact (h.set _ _).touchDir _
      · exact (h.set _ _).touchDir _

theorem ds_removeAll {m : MFS} (h : DomSup m) (t : Path) : DomSup (m.removeAll t).1 := by
  unfold MFS.removeAll
  split
  · exact h
  split
  · exact h
  split
  · exact h
  · exact h
  · exact h
  · split
    · exact h
    · exact (h.removeSubtree _).touchDir _

theorem ds_rename {m : MFS} (h : DomSup m) (o n : Path) : DomSup (m.rename o n).1 := by
  unfold MFS.rename
  simp only
  split
  · exact h
  · split
    · exact h
    · exact h
    · exact h
    · repeat (first | exact h | exact ((h.moveSubtree _ _).touchDir _).touchDir _ | split)
    · repeat (first | exact h | exact ((h.moveSubtree _ _).touchDir _).touchDir _ | split)

theorem ds_mkdirAll (perm : Nat) : ∀ (fuel : Nat) (m : MFS) (t : Path), DomSup m →
    DomSup (m.mkdirAll perm fuel t).1 := by
  intro fuel
  induction fuel with
  | zero => intro m t h; exact h
  | succ fuel ih =>
    intro m t h
    cases hst : m.stat t with
    | ok i =>
      rw [mkdirAll_succ_ok m perm fuel t hst]
      split <;> exact h
    | error e0 =>
      rw [mkdirAll_succ_err m perm fuel t hst]
      have h1 : DomSup (if (uptoLastSep (stripTrailingSeps t)).length > 0
          then m.mkdirAll perm fuel (uptoLastSep (stripTrailingSeps t)) else (m, Except.ok ())).1 := by
        split
        · exact ih _ _ h
        · exact h
      revert h1
      generalize (if (uptoLastSep (stripTrailingSeps t)).length > 0
          then m.mkdirAll perm fuel (uptoLastSep (stripTrailingSeps t)) else (m, Except.ok ())) = r
      intro h1
      obtain ⟨m1, r1⟩ := r
      cases r1 with
      | error e => exact h1
      | ok u =>
        show DomSup (mkdirAllTail m1 perm t).1
        rw [mkdirAllTail_state]
        exact ds_mkdir h1 _ _

theorem ds_osCall {m : MFS} (h : DomSup m) (c : Call) : DomSup (osCall m c).1 := by
  cases c with
  | create n => exact ds_openFile h _ _ _
  | mkdir n p => exact ds_mkdir h _ _
  | mkdirAll n p => exact ds_mkdirAll _ _ _ _ h
  | open_ n => exact ds_openFile h _ _ _
  | openFile n f p => exact ds_openFile h _ _ _
  | remove n => exact ds_remove h _
  | removeAll n => exact ds_removeAll h _
  | rename o n => exact ds_rename h _ _
  | stat n => exact h
  | chmod n md => show DomSup (m.chmod n md).1; rw [mfs_chmod_eq]; exact ds_metaOp h _ _ _
  | chown n u g => show DomSup (m.chown n u g).1; rw [mfs_chown_eq]; exact ds_metaOp h _ _ _
  | chtimes n a t => show DomSup (m.chtimes n t).1; rw [mfs_chtimes_eq]; exact ds_metaOp h _ _ _
  | lstat n => exact h
  | symlink o n => exact ds_symlink h _ _
  | readlink n => exact h
  | lchown n u g => show DomSup (m.lchown n u g).1; rw [mfs_lchown_eq]; exact ds_metaOp h _ _ _

theorem ds_hwrite {m : MFS} (h : DomSup m) (hd : Handle) (off : Nat) (d : String) :
    DomSup (m.hwrite hd off d).1 := by
  unfold MFS.hwrite
  split
  · exact h
  · split
    · split
      · exact h
      · exact h.set _ _
    · exact h

/-! ### listings -/

/-- the names `Readdirnames` reports are exactly those of the live children -/
theorem mem_childNames' {m : MFS} (hg : DomSup m) (K : Key) (n : Name) :
    n ∈ m.childNames K ↔ (m.get (K ++ [n])).isSome := by
  unfold MFS.childNames
  rw [List.mem_eraseDups, List.mem_filterMap]
  constructor
  · rintro ⟨c, hc, hl⟩
    rw [List.mem_filter] at hc
    obtain ⟨_, hc⟩ := hc
    simp only [Bool.and_eq_true, decide_eq_true_eq] at hc
    obtain ⟨⟨_, hpar⟩, hsome⟩ := hc
    obtain ⟨ys, rfl⟩ := List.getLast?_eq_some_iff.mp hl
    unfold parentKey at hpar
    simp only [List.dropLast_concat] at hpar
    subst hpar
    exact hsome
  · intro h
    refine ⟨K ++ [n], ?_, by simp⟩
    rw [List.mem_filter]
    refine ⟨hg _ h, ?_⟩
    simp [parentKey, h]

theorem childNames_nodup (m : MFS) (K : Key) : (m.childNames K).Nodup := by
  unfold MFS.childNames
  exact nodup_eraseDups_aux _ _ (Nat.le_refl _)

section
variable {pk : Key} {m1 m2 : MFS}

theorem childNames_agree (hag : AgreeIn pk m1 m2) (h1 : DomSup m1) (h2 : DomSup m2) {K : Key} (hK : pk <+: K) :
    sortStrings (m1.childNames K) = sortStrings (m2.childNames K) := by
  unfold sortStrings
  apply sortBy_perm_invariant strictTotal_strLt
  rw [List.perm_ext_iff_of_nodup (childNames_nodup _ _) (childNames_nodup _ _)]
  intro n
  rw [mem_childNames' h1, mem_childNames' h2, hag _ (hK.trans (List.prefix_append _ _))]

theorem hasChildren_iff {m : MFS} (hg : DomSup m) (K : Key) :
    m.hasChildren K = true ↔ ∃ c, c ≠ [] ∧ c.dropLast = K ∧ (m.get c).isSome := by
  unfold MFS.hasChildren parentKey
  rw [List.any_eq_true]
  constructor
  · rintro ⟨c, _, hc⟩
    simp only [Bool.and_eq_true, decide_eq_true_eq] at hc
    exact ⟨c, hc.1.1, hc.1.2, hc.2⟩
  · rintro ⟨c, h1, h2, h3⟩
    refine ⟨c, hg c h3, ?_⟩
    simp [h1, h2, h3]

theorem hasChildren_agree (hag : AgreeIn pk m1 m2) (h1 : DomSup m1) (h2 : DomSup m2) {K : Key} (hK : pk <+: K) :
    m1.hasChildren K = m2.hasChildren K := by
  have key : ∀ c : Key, c.dropLast = K → m1.get c = m2.get c := by
    intro c hc
    apply hag
    rw [← hc] at hK
    exact hK.trans (dropLast_prefix c)
  have : m1.hasChildren K = true ↔ m2.hasChildren K = true := by
    rw [hasChildren_iff h1, hasChildren_iff h2]
    constructor
    · rintro ⟨c, a, b, d⟩
      exact ⟨c, a, b, by rw [← key c b]; exact d⟩
    · rintro ⟨c, a, b, d⟩
      exact ⟨c, a, b, by rw [key c b]; exact d⟩
  cases e1 : m1.hasChildren K <;> cases e2 : m2.hasChildren K <;> simp_all

/-- handle reads are functions of the node at the handle's key (and, for listings, of its children) -/
theorem hread_agree (hag : AgreeIn pk m1 m2) {h : Handle} (hk : pk <+: h.key) : m1.hread h = m2.hread h := by
  unfold MFS.hread
  rw [hag _ hk]

theorem hstat_agree (hag : AgreeIn pk m1 m2) {h : Handle} (hk : pk <+: h.key) : m1.hstat h = m2.hstat h := by
  unfold MFS.hstat
  rw [hag _ hk]

theorem hreaddirnames_agree (hag : AgreeIn pk m1 m2) (h1 : DomSup m1) (h2 : DomSup m2) {h : Handle}
    (hk : pk <+: h.key) : m1.hreaddirnames h = m2.hreaddirnames h := by
  unfold MFS.hreaddirnames
  rw [hag _ hk, childNames_agree hag h1 h2 hk]

end
end PX
end BFS
