import Lemmas.Sat
/-!
  Lemmas/R2Crash.lean — crash plans and the computations of `Rollback`.

  A *crash-only* fault plan (`CrashOnly fl`) contains nothing but entries that can never match the
  signature of a real primitive call (their argument list is empty, that of every real call is
  not): the crash markers of `Model/World.lean`.  Under such a plan a primitive is refused iff the
  world is `crashed`.

  `CS fl x` ("crash-similar") packages what we need to know about a computation `x`:
  * `mono`  — once crashed, always crashed;
  * `keep`  — the fault plan is never modified;
  * `sim`   — started in a fault-free world with the plan swapped for `fl`, **if the run ends in a world
              that is not crashed, the run is the fault-free run** (same result, same final world up to
              the fault plan): before the crash point the plan refuses nothing.
  `Frozen x` — in a crashed world `x` leaves the disk untouched (and the world stays crashed).

  Both are compositional; the instances cover every function in the call graph of `rollback`.
-/
namespace BFS
open BackupFS

/-- fault plans that contain crash markers only -/
def CrashOnly (fl : List Fault) : Prop := ∀ f ∈ fl, f.sig.args = []

/-- the same world under another fault plan -/
def withFaults (fl : List Fault) (w : World) : World := { w with faults := fl }

@[simp] theorem withFaults_fs (fl : List Fault) (w : World) : (withFaults fl w).fs = w.fs := rfl
@[simp] theorem withFaults_infos (fl : List Fault) (w : World) : (withFaults fl w).infos = w.infos := rfl
@[simp] theorem withFaults_trace (fl : List Fault) (w : World) : (withFaults fl w).trace = w.trace := rfl
@[simp] theorem withFaults_faults (fl : List Fault) (w : World) : (withFaults fl w).faults = fl := rfl
@[simp] theorem withFaults_seen (fl : List Fault) (w : World) : (withFaults fl w).seen = w.seen := rfl

theorem crashed_of_le {w w' : World} (hf : w'.faults = w.faults) (hl : w.trace.length ≤ w'.trace.length)
    (h : crashed w = true) : crashed w' = true := by
  unfold crashed at h ⊢
  rw [hf]
  simp only [List.any_eq_true, Bool.and_eq_true, decide_eq_true_eq] at h ⊢
  obtain ⟨f, hf, hm, ho⟩ := h
  exact ⟨f, hf, hm, by omega⟩

theorem crashed_congr {w w' : World} (hf : w'.faults = w.faults) (hl : w'.trace = w.trace) :
    crashed w' = crashed w := by
  unfold crashed; rw [hf, hl]

theorem not_crashed_nofault {w : World} (h : w.faults = []) : crashed w = false := by
  unfold crashed; rw [h]; rfl

/-! ### `account` -/

theorem account_faults (sig : Sig) (mu : Bool) (w : World) : (account sig mu w).1.faults = w.faults := rfl

theorem account_fs (sig : Sig) (mu : Bool) (w : World) : (account sig mu w).1.fs = w.fs := rfl

theorem account_crashed (sig : Sig) (mu : Bool) (w : World) (h : crashed w = true) :
    (account sig mu w).2 = true ∧ crashed (account sig mu w).1 = true := by
  refine ⟨by simp [account, h], ?_⟩
  exact crashed_of_le (w := w) (w' := (account sig mu w).1) rfl (by simp [account]) h

theorem account_eq (sig : Sig) (mu : Bool) (w : World) :
    account sig mu w = ({ w with seen := (sig, (w.seen.lookup sig).getD 0 + 1) :: w.seen.filter (fun p => p.1 ≠ sig),
                                 trace := ⟨sig, (account sig mu w).2, mu⟩ :: w.trace }, (account sig mu w).2) := rfl

/-- under a crash-only plan, in a world that is not crashed, a primitive is accounted for exactly
as in the fault-free world -/
theorem account_swap {fl : List Fault} (hfl : CrashOnly fl) (sig : Sig) (hs : sig.args ≠ []) (mu : Bool)
    (w : World) (hw : w.faults = []) (hc : crashed (withFaults fl w) = false) :
    account sig mu (withFaults fl w) = (withFaults fl (account sig mu w).1, false) ∧
      (account sig mu w).2 = false := by
  have hany : ∀ o, fl.any (fun f => f.sig = sig && f.occ = o) = false := by
    intro o
    apply List.any_eq_false.mpr
    intro f hf
    simp only [Bool.and_eq_true, decide_eq_true_eq, not_and]
    intro e
    exact absurd (e ▸ hfl f hf) hs
  have h2 : (account sig mu w).2 = false := account_nofault sig mu w hw
  have h2' : (account sig mu (withFaults fl w)).2 = false := by
    show ((withFaults fl w).faults.any _ || crashed (withFaults fl w)) = false
    rw [hc, Bool.or_false]
    exact hany _
  refine ⟨?_, h2⟩
  rw [account_eq sig mu (withFaults fl w), account_eq sig mu w, h2', h2]
  rfl

/-! ### the predicate -/

structure CS {α} (fl : List Fault) (x : M α) : Prop where
  mono : ∀ w, crashed w = true → crashed (x w).1 = true
  keep : ∀ w, (x w).1.faults = w.faults
  sim : ∀ w, w.faults = [] → crashed (x (withFaults fl w)).1 = false →
    x (withFaults fl w) = (withFaults fl (x w).1, (x w).2)

variable {fl : List Fault}

theorem CS.pure {α} (a : α) : CS fl (pure a : M α) :=
  ⟨fun _ h => h, fun _ => rfl, fun _ _ _ => rfl⟩

theorem CS.throw {α} (e : Err) : CS fl (M.throw e : M α) :=
  ⟨fun _ h => h, fun _ => rfl, fun _ _ _ => rfl⟩

theorem CS.bind {α β} {x : M α} {f : α → M β} (hx : CS fl x) (hf : ∀ a, CS fl (f a)) : CS fl (x >>= f) := by
  refine ⟨?_, ?_, ?_⟩
  · intro w hc
    rw [M.bind_apply]
    have h1 := hx.mono w hc
    cases hxw : x w with
    | mk w1 r =>
      rw [hxw] at h1
      cases r with
      | ok a => exact (hf a).mono w1 h1
      | error e => exact h1
  · intro w
    rw [M.bind_apply]
    have h1 := hx.keep w
    cases hxw : x w with
    | mk w1 r =>
      rw [hxw] at h1
      cases r with
      | ok a => exact ((hf a).keep w1).trans h1
      | error e => exact h1
  · intro w hw hc
    rw [M.bind_apply] at hc ⊢
    rw [M.bind_apply]
    have hk := hx.keep w
    cases hxw' : x (withFaults fl w) with
    | mk w1' r' =>
      rw [hxw'] at hc
      cases r' with
      | ok a =>
        simp only at hc ⊢
        have hnc : crashed w1' = false := by
          cases hcr : crashed w1' with
          | false => rfl
          | true => rw [(hf a).mono w1' hcr] at hc; cases hc
        have hs := hx.sim w hw (by rw [hxw']; exact hnc)
        rw [hxw'] at hs
        cases hxw : x w with
        | mk w1 r =>
          rw [hxw] at hs hk
          simp only [Prod.mk.injEq] at hs
          obtain ⟨e1, e2⟩ := hs
          subst e1; subst e2
          simp only
          exact (hf a).sim w1 (hk.trans hw) hc
      | error e =>
        simp only at hc ⊢
        have hs := hx.sim w hw (by rw [hxw']; exact hc)
        rw [hxw'] at hs
        cases hxw : x w with
        | mk w1 r =>
          rw [hxw] at hs
          simp only [Prod.mk.injEq] at hs
          obtain ⟨e1, e2⟩ := hs
          subst e1; subst e2
          rfl

theorem CS.attempt {α} {x : M α} (hx : CS fl x) : CS fl (attempt x) := by
  refine ⟨fun w h => by rw [attempt_apply]; exact hx.mono w h, fun w => by rw [attempt_apply]; exact hx.keep w, ?_⟩
  intro w hw hc
  rw [attempt_apply] at hc ⊢
  rw [attempt_apply]
  have := hx.sim w hw hc
  rw [this]

theorem CS.ite {α} {c : Prop} [Decidable c] {x y : M α} (hx : CS fl x) (hy : CS fl y) :
    CS fl (if c then x else y) := by
  split
  · exact hx
  · exact hy

theorem CS.whenM {c : Bool} {x : M Unit} (hx : CS fl x) : CS fl (whenM c x) := by
  unfold BFS.whenM
  cases c with
  | true => exact hx
  | false => exact CS.pure _

/-- a state update that commutes with swapping the fault plan and leaves plan and trace alone -/
theorem CS.modifyW {f : World → World} (hfa : ∀ w, (f w).faults = w.faults) (htr : ∀ w, (f w).trace = w.trace)
    (hsw : ∀ w, f (withFaults fl w) = withFaults fl (f w)) : CS fl (modifyW f) := by
  refine ⟨?_, fun w => hfa w, ?_⟩
  · intro w h
    show crashed (f w) = true
    rw [crashed_congr (hfa w) (htr w)]; exact h
  · intro w _ _
    show (f (withFaults fl w), Except.ok ()) = _
    rw [hsw w]; rfl

/-- a computation that only reads the disk -/
theorem CS.reader {α} (g : MFS → Except Err α) : CS fl (fun w => (w, g w.fs) : M α) :=
  ⟨fun _ h => h, fun _ => rfl, fun _ _ _ => rfl⟩

/-- a computation that acts on the disk alone (no primitive gate: used behind one) -/
theorem CS.fsStep {α} (g : MFS → MFS × Except Err α) :
    CS fl (fun w => ({ w with fs := (g w.fs).1 }, (g w.fs).2) : M α) :=
  ⟨fun w h => by rw [← h]; exact crashed_congr rfl rfl, fun _ => rfl, fun _ _ _ => rfl⟩

theorem CS.of_eq {α} {x y : M α} (h : x = y) (hy : CS fl y) : CS fl x := h ▸ hy

/-! ### the primitive gate -/

theorem callArgs_ne_nil (c : Call) : callArgs c ≠ [] := by
  cases c <;> simp [callArgs]

theorem execCall_swap (cfg : Cfg) (side : Side) (c : Call) (fl : List Fault) (w : World) :
    execCall cfg side c (withFaults fl w) = (withFaults fl (execCall cfg side c w).1, (execCall cfg side c w).2) := by
  unfold execCall
  simp only [withFaults_fs]
  cases (cfg.side side).call w.fs c with
  | mk m' r => rfl

theorem execCall_crashed (cfg : Cfg) (side : Side) (c : Call) (w : World) :
    crashed (execCall cfg side c w).1 = crashed w := by
  unfold execCall
  cases (cfg.side side).call w.fs c with
  | mk m' r => exact crashed_congr rfl rfl

theorem execCall_faults (cfg : Cfg) (side : Side) (c : Call) (w : World) :
    (execCall cfg side c w).1.faults = w.faults := by
  unfold execCall
  cases (cfg.side side).call w.fs c with
  | mk m' r => rfl

theorem CS.primCall (hfl : CrashOnly fl) (cfg : Cfg) (side : Side) (c : Call) : CS fl (primCall cfg side c) := by
  refine ⟨?_, ?_, ?_⟩
  · intro w h
    unfold BFS.primCall
    split
    · simp [h]
    · have := account_crashed ⟨side, callMethod c, callArgs c⟩ (callMutating c) w h
      cases hacc : account ⟨side, callMethod c, callArgs c⟩ (callMutating c) w with
      | mk w1 b =>
        rw [hacc] at this
        obtain ⟨hb, hc⟩ := this
        simp only at hb hc
        subst hb
        exact hc
  · intro w
    unfold BFS.primCall
    split
    · split
      · rfl
      · exact execCall_faults cfg side c w
    · have := account_faults ⟨side, callMethod c, callArgs c⟩ (callMutating c) w
      cases hacc : account ⟨side, callMethod c, callArgs c⟩ (callMutating c) w with
      | mk w1 b =>
        rw [hacc] at this
        cases b with
        | true => exact this
        | false => exact (execCall_faults cfg side c w1).trans this
  · intro w hw hc
    have hnc : crashed w = false := not_crashed_nofault hw
    unfold BFS.primCall at hc ⊢
    cases hg : isGhost c with
    | true =>
      simp only [hg, if_true] at hc ⊢
      cases hcr : crashed (withFaults fl w) with
      | true => simp [hcr] at hc
      | false =>
        simp only [hnc, Bool.false_eq_true, if_false]
        exact execCall_swap cfg side c fl w
    | false =>
      simp only [hg, Bool.false_eq_true, if_false] at hc ⊢
      cases hcr : crashed (withFaults fl w) with
      | true =>
        exfalso
        have := account_crashed ⟨side, callMethod c, callArgs c⟩ (callMutating c) (withFaults fl w) hcr
        cases hacc : account ⟨side, callMethod c, callArgs c⟩ (callMutating c) (withFaults fl w) with
        | mk w1 b =>
          rw [hacc] at this hc
          obtain ⟨hb, hc1⟩ := this
          simp only at hb hc1
          subst hb
          simp only at hc
          rw [hc1] at hc; cases hc
      | false =>
        obtain ⟨h1, h2⟩ := account_swap hfl ⟨side, callMethod c, callArgs c⟩ (callArgs_ne_nil c) (callMutating c) w hw hcr
        rw [h1]
        cases hacc : account ⟨side, callMethod c, callArgs c⟩ (callMutating c) w with
        | mk w1 b =>
          rw [hacc] at h2
          simp only at h2
          subst h2
          simp only
          exact execCall_swap cfg side c fl w1

theorem CS.primH (hfl : CrashOnly fl) (wh : WHandle) (method : String) (extra : List Path) (mu : Bool) :
    CS fl (primH wh method extra mu) := by
  refine ⟨?_, ?_, ?_⟩
  · intro w h
    unfold BFS.primH
    have := account_crashed ⟨wh.side, method, wh.arg :: extra⟩ mu w h
    cases hacc : account ⟨wh.side, method, wh.arg :: extra⟩ mu w with
    | mk w1 b =>
      rw [hacc] at this
      simp only
      split <;> exact this.2
  · intro w
    unfold BFS.primH
    have := account_faults ⟨wh.side, method, wh.arg :: extra⟩ mu w
    cases hacc : account ⟨wh.side, method, wh.arg :: extra⟩ mu w with
    | mk w1 b =>
      rw [hacc] at this
      simp only
      split <;> exact this
  · intro w hw hc
    unfold BFS.primH at hc ⊢
    cases hcr : crashed (withFaults fl w) with
    | true =>
      exfalso
      have := account_crashed ⟨wh.side, method, wh.arg :: extra⟩ mu (withFaults fl w) hcr
      cases hacc : account ⟨wh.side, method, wh.arg :: extra⟩ mu (withFaults fl w) with
      | mk w1 b =>
        rw [hacc] at this hc
        obtain ⟨hb, hc1⟩ := this
        simp only at hb hc1
        subst hb
        simp only [if_true] at hc
        rw [hc1] at hc; cases hc
    | false =>
      obtain ⟨h1, h2⟩ := account_swap hfl ⟨wh.side, method, wh.arg :: extra⟩ (by simp) mu w hw hcr
      rw [h1]
      cases hacc : account ⟨wh.side, method, wh.arg :: extra⟩ mu w with
      | mk w1 b =>
        rw [hacc] at h2
        simp only at h2
        subst h2
        simp

section prims
variable (hfl : CrashOnly fl) (cfg : Cfg)
include hfl

theorem CS.primInfo (side : Side) (c : Call) : CS fl (primInfo cfg side c) := by
  unfold BFS.primInfo
  apply CS.bind (CS.primCall hfl cfg side c); intro r
  cases r <;> first | exact CS.pure _ | exact CS.throw _

theorem CS.primStr (side : Side) (c : Call) : CS fl (primStr cfg side c) := by
  unfold BFS.primStr
  apply CS.bind (CS.primCall hfl cfg side c); intro r
  cases r <;> first | exact CS.pure _ | exact CS.throw _

theorem CS.primUnit (side : Side) (c : Call) : CS fl (primUnit cfg side c) := by
  unfold BFS.primUnit
  apply CS.bind (CS.primCall hfl cfg side c); intro r
  exact CS.pure _

theorem CS.primOpen (side : Side) (c : Call) : CS fl (primOpen cfg side c) := by
  unfold BFS.primOpen
  apply CS.bind (CS.primCall hfl cfg side c); intro r
  cases r <;> first | exact CS.pure _ | exact CS.throw _

theorem CS.hClose (wh : WHandle) : CS fl (hClose wh) := CS.primH hfl wh _ _ _

theorem CS.hRead (wh : WHandle) : CS fl (hRead wh) := CS.primH hfl wh _ _ _

theorem CS.hStat (wh : WHandle) : CS fl (hStat cfg wh) := by
  unfold BFS.hStat
  apply CS.bind (CS.primH hfl wh _ _ _); intro _
  refine CS.of_eq ?_ (CS.reader (fun m => (cfg.side wh.side).hstat m wh.h))
  funext w
  rw [M.bind_apply]
  simp only [getW]
  cases (cfg.side wh.side).hstat w.fs wh.h <;> rfl

omit hfl in
theorem CS.peek (wh : WHandle) : CS fl (peek cfg wh) := by
  unfold BFS.peek
  refine CS.of_eq ?_ (CS.reader (fun m => (cfg.side wh.side).hread m wh.h))
  funext w
  rw [M.bind_apply]
  simp only [getW]
  cases (cfg.side wh.side).hread w.fs wh.h <;> rfl

theorem CS.hWrite (wh : WHandle) (off : Nat) (d : String) : CS fl (hWrite cfg wh off d) := by
  unfold BFS.hWrite
  apply CS.bind (CS.primH hfl wh _ _ _); intro _
  refine CS.of_eq ?_ (CS.fsStep (fun m => (cfg.side wh.side).hwrite m wh.h off d))
  funext w
  cases (cfg.side wh.side).hwrite w.fs wh.h off d <;> rfl

/-! ### fs_utils.go -/

theorem CS.lexists (side : Side) (p : Path) : CS fl (lexists cfg side p) := by
  unfold BackupFS.lexists
  apply CS.bind (CS.attempt (CS.primInfo hfl cfg side _)); intro r
  cases r with
  | ok i => exact CS.pure _
  | error e => exact CS.ite (CS.pure _) (CS.throw _)

omit hfl in
theorem CS.ignorePerm {x : M Unit} (hx : CS fl x) : CS fl (ignorePerm x) := by
  unfold BackupFS.ignorePerm
  apply CS.bind (CS.attempt hx); intro r
  cases r with
  | ok u => exact CS.pure _
  | error e => exact CS.ite (CS.pure _) (CS.throw _)

omit hfl in
theorem CS.wrapped {α} {x : M α} (hx : CS fl x) : CS fl (wrapped x) := by
  refine ⟨?_, ?_, ?_⟩
  · intro w h
    have := hx.mono w h
    unfold BackupFS.wrapped
    cases hxw : x w with
    | mk w1 r => rw [hxw] at this; cases r <;> exact this
  · intro w
    have := hx.keep w
    unfold BackupFS.wrapped
    cases hxw : x w with
    | mk w1 r => rw [hxw] at this; cases r <;> exact this
  · intro w hw hc
    have hc' : crashed (x (withFaults fl w)).1 = false := by
      unfold BackupFS.wrapped at hc
      cases hxw : x (withFaults fl w) with
      | mk w1 r => rw [hxw] at hc; cases r <;> exact hc
    have := hx.sim w hw hc'
    unfold BackupFS.wrapped
    rw [this]
    cases hxw : x w with
    | mk w1 r => cases r <;> rfl

theorem CS.chownTo (side : Side) (src : Info) (n : Path) : CS fl (chownTo cfg side src n) := by
  unfold BackupFS.chownTo
  apply CS.bind (CS.primInfo hfl cfg side _); intro old
  exact CS.whenM (CS.primUnit hfl cfg side _)

theorem CS.copyDir (side : Side) (name : Path) (info : Info) : CS fl (copyDir cfg side name info) := by
  unfold BackupFS.copyDir
  apply CS.wrapped
  apply CS.ite (CS.throw _)
  apply CS.ite (CS.pure _)
  apply CS.bind (CS.primUnit hfl cfg side _); intro _
  apply CS.bind (CS.primInfo hfl cfg side _); intro cur
  apply CS.bind (CS.whenM (CS.primUnit hfl cfg side _)); intro _
  apply CS.bind (CS.whenM (CS.ignorePerm (CS.primUnit hfl cfg side _))); intro _
  exact CS.ignorePerm (CS.chownTo hfl cfg side info name)

theorem CS.copyChunks (dst src : WHandle) : ∀ (off : Nat) (cs : List String), CS fl (copyChunks cfg dst src off cs)
  | _, [] => by
    unfold BackupFS.copyChunks
    exact CS.hRead hfl src
  | off, c :: cs => by
    unfold BackupFS.copyChunks
    apply CS.bind (CS.hRead hfl src); intro _
    apply CS.bind (CS.hWrite hfl cfg dst off c); intro _
    exact CS.copyChunks dst src _ cs

theorem CS.writeFile (side : Side) (name : Path) (perm : Nat) (src : WHandle) :
    CS fl (writeFile cfg side name perm src) := by
  unfold BackupFS.writeFile
  apply CS.bind (CS.primOpen hfl cfg side _); intro dst
  apply CS.bind (CS.peek cfg src); intro data
  apply CS.bind (CS.attempt (CS.copyChunks hfl cfg dst src 0 _)); intro r
  apply CS.bind (CS.attempt (CS.hClose hfl dst)); intro c
  cases r with
  | error e => exact CS.throw _
  | ok u =>
    cases c with
    | error e => exact CS.throw _
    | ok u' => exact CS.pure _

theorem CS.copyFile (side : Side) (name : Path) (info : Info) (src : WHandle) :
    CS fl (copyFile cfg side name info src) := by
  unfold BackupFS.copyFile
  apply CS.wrapped
  apply CS.ite (CS.throw _)
  apply CS.bind (CS.writeFile hfl cfg side name _ src); intro _
  apply CS.bind (CS.ignorePerm (CS.chownTo hfl cfg side info name)); intro _
  apply CS.bind (CS.primInfo hfl cfg side _); intro cur
  apply CS.bind (CS.whenM (CS.primUnit hfl cfg side _)); intro _
  exact CS.whenM (CS.ignorePerm (CS.primUnit hfl cfg side _))

theorem CS.copySymlink (source target : Side) (name : Path) (info : Info) :
    CS fl (copySymlink cfg source target name info) := by
  unfold BackupFS.copySymlink
  apply CS.wrapped
  apply CS.ite (CS.throw _)
  apply CS.bind (CS.primStr hfl cfg source _); intro pointsAt
  apply CS.bind (CS.primUnit hfl cfg target _); intro _
  exact CS.ignorePerm (CS.primUnit hfl cfg target _)

theorem CS.restoreFile (name : Path) (fi : Info) : CS fl (restoreFile cfg name fi) := by
  unfold BackupFS.restoreFile
  apply CS.bind (CS.primOpen hfl cfg .backup _); intro f
  apply CS.bind (CS.attempt (by
    apply CS.bind (CS.hStat hfl cfg f); intro fi'
    apply CS.bind (CS.lexists hfl cfg .base name); intro baseFi
    apply CS.ite
    · apply CS.bind (CS.primUnit hfl cfg .base _); intro _
      exact CS.copyFile hfl cfg .base name fi f
    · apply CS.bind (CS.whenM (CS.primUnit hfl cfg .base _)); intro _
      exact CS.copyFile hfl cfg .base name fi f)); intro r
  apply CS.bind (CS.attempt (CS.hClose hfl f)); intro _
  cases r with
  | ok u => exact CS.pure _
  | error e => exact CS.throw _

theorem CS.restoreSymlink (name : Path) (fi : Info) : CS fl (restoreSymlink cfg name fi) := by
  unfold BackupFS.restoreSymlink
  apply CS.bind (CS.lexists hfl cfg .backup name); intro ex
  cases ex with
  | none => exact CS.throw _
  | some i =>
    simp only
    apply CS.bind (CS.lexists hfl cfg .base name); intro cur
    apply CS.bind (CS.whenM (CS.primUnit hfl cfg .base _)); intro _
    exact CS.copySymlink hfl cfg .backup .base name fi

/-! ### Rollback's loops -/

omit hfl in
theorem CS.forEachCollect {α} {f : α → M Unit} (hf : ∀ a, CS fl (f a)) : ∀ xs : List α, CS fl (forEachCollect f xs)
  | [] => CS.pure _
  | x :: xs => by
    unfold BackupFS.forEachCollect
    apply CS.bind (CS.attempt (hf x)); intro r
    apply CS.bind (CS.forEachCollect hf xs); intro rest
    exact CS.pure _

theorem CS.ensureRoot (p : Path) (i : Info) : CS fl (ensureRoot cfg p i) := by
  unfold BackupFS.ensureRoot
  apply CS.bind (CS.attempt (CS.lexists hfl cfg .base p)); intro r
  cases r with
  | error e => exact CS.pure _
  | ok o => cases o with
    | some _ => exact CS.pure _
    | none =>
      apply CS.bind (CS.attempt (CS.primUnit hfl cfg .base _)); intro r2
      cases r2 <;> exact CS.pure _

theorem CS.classify : ∀ (l : List (Path × Option Info)) (pl : RollbackPlan), CS fl (classify cfg l pl)
  | [], _ => CS.pure _
  | (p, none) :: rest, pl => by
    unfold BackupFS.classify
    apply CS.bind (CS.attempt (CS.lexists hfl cfg .base p)); intro r
    cases r with
    | error e => exact CS.classify rest _
    | ok o => cases o <;> exact CS.classify rest _
  | (p, some i) :: rest, pl => by
    unfold BackupFS.classify
    split
    · apply CS.bind (CS.ensureRoot hfl cfg p i); intro f
      exact CS.classify rest _
    · cases i.kind <;> exact CS.classify rest _

theorem CS.removeBaseAct (p : Path) : CS fl (removeBaseAct cfg p) := by
  unfold BackupFS.removeBaseAct
  exact CS.primUnit hfl cfg .base _

theorem CS.restoreDirAct (infos) (p : Path) : CS fl (restoreDirAct cfg infos p) := by
  unfold BackupFS.restoreDirAct
  apply CS.bind (CS.lexists hfl cfg .base p); intro cur
  apply CS.bind (CS.whenM (CS.primUnit hfl cfg .base _)); intro _
  split
  · exact CS.copyDir hfl cfg .base p _
  · exact CS.pure _

theorem CS.restoreFileAct (infos) (p : Path) : CS fl (restoreFileAct cfg infos p) := by
  unfold BackupFS.restoreFileAct
  split
  · exact CS.restoreFile hfl cfg p _
  · exact CS.pure _

theorem CS.restoreLinkAct (infos) (p : Path) : CS fl (restoreLinkAct cfg infos p) := by
  unfold BackupFS.restoreLinkAct
  split
  · exact CS.restoreSymlink hfl cfg p _
  · exact CS.pure _

theorem CS.cleanupAct (p : Path) : CS fl (cleanupAct cfg p) := by
  unfold BackupFS.cleanupAct
  apply CS.bind (CS.lexists hfl cfg .backup p); intro o
  cases o with
  | none => exact CS.pure _
  | some i => exact CS.primUnit hfl cfg .backup _

theorem CS.removeBackupPaths (ps : List Path) : CS fl (removeBackupPaths cfg ps) := by
  unfold BackupFS.removeBackupPaths
  exact CS.forEachCollect (CS.cleanupAct hfl cfg) _

end prims

/-! ### frozen after the crash -/

/-- in a crashed world the computation leaves the disk as it is, and the world stays crashed -/
def Frozen {α} (x : M α) : Prop := ∀ w, crashed w = true → (x w).1.fs = w.fs ∧ crashed (x w).1 = true

theorem Frozen.pure {α} (a : α) : Frozen (pure a : M α) := fun _ h => ⟨rfl, h⟩
theorem Frozen.throw {α} (e : Err) : Frozen (M.throw e : M α) := fun _ h => ⟨rfl, h⟩

theorem Frozen.bind {α β} {x : M α} {f : α → M β} (hx : Frozen x) (hf : ∀ a, Frozen (f a)) : Frozen (x >>= f) := by
  intro w h
  rw [M.bind_apply]
  have h1 := hx w h
  cases hxw : x w with
  | mk w1 r =>
    rw [hxw] at h1
    cases r with
    | ok a =>
      have h2 := hf a w1 h1.2
      exact ⟨h2.1.trans h1.1, h2.2⟩
    | error e => exact h1

theorem Frozen.attempt {α} {x : M α} (hx : Frozen x) : Frozen (attempt x) := by
  intro w h; rw [attempt_apply]; exact hx w h

theorem Frozen.ite {α} {c : Prop} [Decidable c] {x y : M α} (hx : Frozen x) (hy : Frozen y) :
    Frozen (if c then x else y) := by
  split
  · exact hx
  · exact hy

theorem Frozen.primCall (cfg : Cfg) (side : Side) (c : Call) : Frozen (primCall cfg side c) := by
  intro w h
  unfold BFS.primCall
  split
  · simp [h]
  · have := account_crashed ⟨side, callMethod c, callArgs c⟩ (callMutating c) w h
    have hfs := account_fs ⟨side, callMethod c, callArgs c⟩ (callMutating c) w
    cases hacc : account ⟨side, callMethod c, callArgs c⟩ (callMutating c) w with
    | mk w1 b =>
      rw [hacc] at this hfs
      obtain ⟨hb, hc⟩ := this
      simp only at hb hc hfs
      subst hb
      exact ⟨hfs, hc⟩

theorem Frozen.primInfo (cfg : Cfg) (side : Side) (c : Call) : Frozen (primInfo cfg side c) := by
  unfold BFS.primInfo
  apply Frozen.bind (Frozen.primCall cfg side c); intro r
  cases r <;> first | exact Frozen.pure _ | exact Frozen.throw _

theorem Frozen.primUnit (cfg : Cfg) (side : Side) (c : Call) : Frozen (primUnit cfg side c) := by
  unfold BFS.primUnit
  apply Frozen.bind (Frozen.primCall cfg side c); intro r
  exact Frozen.pure _

theorem Frozen.lexists (cfg : Cfg) (side : Side) (p : Path) : Frozen (lexists cfg side p) := by
  unfold BackupFS.lexists
  apply Frozen.bind (Frozen.attempt (Frozen.primInfo cfg side _)); intro r
  cases r with
  | ok i => exact Frozen.pure _
  | error e => exact Frozen.ite (Frozen.pure _) (Frozen.throw _)

theorem Frozen.cleanupAct (cfg : Cfg) (p : Path) : Frozen (cleanupAct cfg p) := by
  unfold BackupFS.cleanupAct
  apply Frozen.bind (Frozen.lexists cfg .backup p); intro o
  cases o with
  | none => exact Frozen.pure _
  | some i => exact Frozen.primUnit cfg .backup _

theorem Frozen.forEachCollect {α} {f : α → M Unit} (hf : ∀ a, Frozen (f a)) : ∀ xs : List α, Frozen (forEachCollect f xs)
  | [] => Frozen.pure _
  | x :: xs => by
    unfold BackupFS.forEachCollect
    apply Frozen.bind (Frozen.attempt (hf x)); intro r
    apply Frozen.bind (Frozen.forEachCollect hf xs); intro rest
    exact Frozen.pure _

theorem Frozen.removeBackupPaths (cfg : Cfg) (ps : List Path) : Frozen (removeBackupPaths cfg ps) := by
  unfold BackupFS.removeBackupPaths
  exact Frozen.forEachCollect (Frozen.cleanupAct cfg) _

end BFS
