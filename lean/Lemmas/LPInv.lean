import Lemmas.LPFoot
/-!
  Lemmas/LPInv.lean — the hypotheses of the footprint theorem (`Lemmas/LPFoot.lean`) are clauses or
  consequences of the transaction invariant `L.Inv`: every world reached by a covered history (no
  other actors) satisfies them, whatever the fault plan did to the operations.
-/
namespace BFS
namespace L
open BackupFS

variable {cfg : Cfg} {S : LSim cfg} {v0 : View}

/-- the invariant does not mention the fault plan -/
theorem Inv.with_faults {w : World} (h : Inv S v0 w) (f : List Fault) : Inv S v0 { w with faults := f } :=
  ⟨h.good, h.orig, h.keys, h.nodup, h.frame, h.absent, h.saved, h.anc, h.blink, h.bklinks⟩

theorem Inv.footprint_hyps {w : World} (h : Inv S v0 w) :
    (∀ p oi, (p, oi) ∈ w.infos → ∃ k, PKey k ∧ p = kp k) ∧
    (kp [], none) ∉ w.infos ∧
    BaseAncOK (S.view .base w.fs) w.infos ∧
    BackupAncOK (S.view .backup w.fs) w.infos ∧
    CopiesIntact (S.view .backup w.fs) w.infos := by
  refine ⟨h.keys, ?_, ?_, ?_, ?_⟩
  · intro hm
    have hl := lookup_of_mem h.nodup hm
    have := h.absent [] PKey.nil hl
    obtain ⟨mt, hd⟩ := h.orig.root
    rw [hd] at this; cases this
  · intro k oi ⟨hk, _, hm⟩
    apply h.blink k hk
    unfold Tracked
    rw [lookup_of_mem h.nodup hm]
    simp
  · intro k i ⟨hk, _, hm⟩
    exact h.backup_noLinkAnc_ts hk (lookup_of_mem h.nodup hm)
  · intro k i ⟨hk, _, hm⟩ hkind
    obtain ⟨n, _, hfor, hfile, _⟩ := h.saved k i hk (lookup_of_mem h.nodup hm)
    cases n with
    | file c mt =>
      obtain ⟨mt', hb⟩ := hfile c mt rfl
      exact ⟨c, mt', hb⟩
    | dir mt => have := hfor.1; rw [hkind] at this; cases this
    | link t mt => have := hfor.1; rw [hkind] at this; cases this

end L
end BFS
