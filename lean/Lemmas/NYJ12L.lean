import Lemmas.NYJ12
import Lemmas.NLTx
import Lemmas.NLSimOS
/-!
  Lemmas/NYJ12L.lean — C12 end to end for the nested layering WITH SYMLINKS AS LEAVES: the generic lemmas of
  Lemmas/J12Valid.lean / J12Txs.lean (`…L` versions) replayed over the contract `NL.Sim`; the configuration facts
  (`lstatN_nestedK`, `smallCfg_nested`) are those of Lemmas/NYJ12.lean (they do not depend on the contract); the
  views of `NL.nlSim` on a disk with small owners are small.
-/
namespace BFS
namespace J12
open BackupFS

variable {cfg : Cfg}

theorem valid_of_invNL {S : NL.Sim cfg} {v0 : View} {w : World} (hinv : NL.Inv S v0 w) (hsm : SmallView v0)
    (hn : AllN NameK w.infos) : AllValid w.infos := by
  intro e he i hi
  obtain ⟨p, oi⟩ := e
  simp only at hi
  subst hi
  obtain ⟨k, hk, rfl⟩ := hinv.keys p _ he
  have hl := lookup_of_mem hinv.nodup he
  obtain ⟨n, hn0, hfor, _⟩ := hinv.saved k i hk hl
  obtain ⟨_, h2, h3, h4, _⟩ := hfor
  exact ⟨hn _ _ he k hk rfl, by rw [h2]; exact hinv.orig.mode hn0,
    by rw [h3]; exact (hsm k n hn0).1, by rw [h4]; exact (hsm k n hn0).2⟩

theorem runOpsR_eqNL {S : NL.Sim cfg} {v0 : View} (hL : LstatN cfg NameK) (hsm : SmallView v0) :
    ∀ (steps : List Step) (w : World), NL.Inv S v0 w → AllN NameK w.infos →
      NL.CoveredHist cfg S w (opsOf steps) → runOpsR cfg w steps = runOps cfg w (opsOf steps)
  | [], _, _, _, _ => rfl
  | .inl op :: rest, w, hi, hn, hc => by
    show runOpsR cfg (op.step cfg w) rest = runOps cfg (op.step cfg w) (opsOf rest)
    exact runOpsR_eqNL hL hsm rest _ (NL.op_keeps hi hc.1).inv (step_allN hL w op hn) hc.2
  | .inr () :: rest, w, hi, hn, hc => by
    show runOpsR cfg (restart w) rest = runOps cfg w (opsOf rest)
    rw [restart_id (valid_of_invNL hi hsm hn)]
    exact runOpsR_eqNL hL hsm rest w hi hn hc

theorem valid_after_historyNL {S : NL.Sim cfg} (hL : LstatN cfg NameK) {w : World} (hg : S.G w.fs)
    (hinfos : w.infos = []) (hbl : NL.BackupLinksOK S w.fs) (hsm : SmallView (S.view .base w.fs))
    (ops : List Op) (hcov : NL.CoveredHist cfg S w ops) : AllValid (runOps cfg w ops).infos :=
  valid_of_invNL (NL.history_keeps ops w (NL.Inv.init hg hinfos hbl) hcov).inv hsm
    (runOps_allN hL ops w (by rw [hinfos]; exact AllN.nil))

theorem restart_anywhereNL {S : NL.Sim cfg} (hL : LstatN cfg NameK) {w : World} (hg : S.G w.fs)
    (hinfos : w.infos = []) (hbl : NL.BackupLinksOK S w.fs) (hsm : SmallView (S.view .base w.fs))
    (steps : List Step) (hcov : NL.CoveredHist cfg S w (opsOf steps)) :
    runOpsR cfg w steps = runOps cfg w (opsOf steps) :=
  runOpsR_eqNL hL hsm steps w (NL.Inv.init hg hinfos hbl) (by rw [hinfos]; exact AllN.nil) hcov

theorem txsR_eqNL {S : NL.Sim cfg} (hL : LstatN cfg NameK) (hC : SmallCfg cfg)
    (hview : ∀ m, SD m → SmallView (S.view .base m)) :
    ∀ (txs : List (List Step)) (w : World), S.G w.fs → w.infos = [] → w.faults = [] → NL.BackupLinksOK S w.fs →
      SD w.fs → NL.CoveredTxs cfg S w (txs.map opsOf) → (∀ tx ∈ txs, ∀ op ∈ opsOf tx, OpSmall op) →
      runTxsR cfg w txs = (txs.map opsOf).foldl (runTx cfg) w
  | [], _, _, _, _, _, _, _, _ => rfl
  | tx :: rest, w, hg, hi, hf, hb, hsd, hc, hs => by
    have e : runTxR cfg w tx = runTx cfg w (opsOf tx) := by
      unfold runTxR runTx
      rw [restart_anywhereNL (S := S) hL hg hi hb (hview _ hsd) tx hc.1]
    obtain ⟨g1, i1, f1, b1, _⟩ := NL.tx_restores (cfg := cfg) hg hi hf hb (opsOf tx) hc.1
    have sd1 := runTx_SD hC hsd hi (opsOf tx) (hs tx (List.mem_cons_self ..))
    show runTxsR cfg (runTxR cfg w tx) rest = (rest.map opsOf).foldl (runTx cfg) (runTx cfg w (opsOf tx))
    rw [e]
    exact txsR_eqNL hL hC hview rest _ g1 i1 f1 b1 sd1 hc.2 (fun t ht => hs t (List.mem_cons_of_mem _ ht))

theorem relink_meta (pre : Path) (n : Node) : (NL.relink pre n).meta = n.meta := by cases n <;> rfl

theorem smallViewNL_nested_of_sd (bk hk : Key) (s : Side) {m : MFS} (h : SD m) :
    SmallView (NL.nlview bk hk s m) := by
  intro k n hv
  cases s with
  | base =>
    simp only [NL.nlview] at hv
    split at hv
    · cases hv
    · cases hm : m.get (bk ++ k) with
      | none => rw [hm] at hv; cases hv
      | some n0 =>
        rw [hm] at hv
        simp only [Option.map_some, Option.some.injEq] at hv
        subst hv
        rw [(eraseV_meta_owner _ n0).1, (eraseV_meta_owner _ n0).2]
        exact h _ _ hm
  | backup =>
    simp only [NL.nlview] at hv
    cases hm : m.get (bk ++ (hk ++ k)) with
    | none => rw [hm] at hv; cases hv
    | some n0 =>
      rw [hm] at hv
      simp only [Option.map_some, Option.some.injEq] at hv
      subst hv
      rw [relink_meta, (eraseV_meta_owner _ n0).1, (eraseV_meta_owner _ n0).2]
      exact h _ _ hm

end J12
end BFS
