import Model.JsonText
/-! JSON text layer (C12): hex digits and `\uXXXX` groups. -/
namespace BFS.JsonText

theorem hexVal_hexDigit : ∀ n, n < 16 → hexVal (hexDigit n) = some n := by decide

theorem hexVal_zero : hexVal '0' = some 0 := by decide
theorem hexVal_two : hexVal '2' = some 2 := by decide

/-- upper-case digits are read too (`getu4`) -/
theorem hexVal_upper : hexVal 'A' = some 10 ∧ hexVal 'F' = some 15 ∧ hexVal 'a' = some 10 ∧
    hexVal 'f' = some 15 ∧ hexVal 'g' = none ∧ hexVal 'G' = none ∧ hexVal '/' = none ∧
    hexVal ':' = none ∧ hexVal '@' = none ∧ hexVal '`' = none := by decide

theorem hexVal_lt (c : Char) (n : Nat) (h : hexVal c = some n) : n < 16 := by
  unfold hexVal at h
  simp only at h
  split at h
  · cases h; omega
  · split at h
    · cases h; omega
    · split at h
      · cases h; omega
      · cases h

/-- `\u00xy` as the encoder writes it reads back as `16 x + y` -/
theorem hex4_00 (a b : Nat) (ha : a < 16) (hb : b < 16) (rest : List Char) :
    hex4 ('0' :: '0' :: hexDigit a :: hexDigit b :: rest) = some (a * 16 + b, rest) := by
  simp only [hex4, hexVal_zero, hexVal_hexDigit a ha, hexVal_hexDigit b hb]
  congr 2; omega

/-- `\u202x` -/
theorem hex4_202 (d : Nat) (hd : d < 16) (rest : List Char) :
    hex4 ('2' :: '0' :: '2' :: hexDigit d :: rest) = some (8224 + d, rest) := by
  simp only [hex4, hexVal_zero, hexVal_two, hexVal_hexDigit d hd]

theorem hex4_lt (inp : List Char) (n : Nat) (r : List Char) (h : hex4 inp = some (n, r)) :
    n < 65536 := by
  match inp, h with
  | a :: b :: c :: d :: rest, h =>
    simp only [hex4] at h
    split at h
    · rename_i x y z w hx hy hz hw
      have := hexVal_lt _ _ hx; have := hexVal_lt _ _ hy
      have := hexVal_lt _ _ hz; have := hexVal_lt _ _ hw
      simp only [Option.some.injEq, Prod.mk.injEq] at h
      omega
    · cases h

end BFS.JsonText
