import Lemmas.LSim
import Props.C14
/-!
  Lemmas/LSimOSBase.lean — the OS instance of the `LSim` contract (trees with symlinks as leaves):
  definitions (`eraseV`, `osViewL`, `OSGoodL`, `osLinkOK`), ancestry facts of well-formed disks,
  views, the relation `LinkSub` (no symlink appeared, no symlink's stored target changed) and the
  translation of the view-level hypotheses `NoLinkAnc`/`AccF` to the disk.
-/
namespace BFS
namespace L
open MFS

/-- view node: directory mtimes erased; a symlink's mtime and mode erased and its target as
`Readlink` through `PrefixFS(pre)` reports it -/
def eraseV (pre : Path) : Node → Node
  | .dir m => .dir { m with mtime := .fresh }
  | .link t m => .link (PrefixFS.readlinkPost pre t) { m with mtime := .fresh, mode := 0o777 }
  | n => n

def osViewL (bk kk : Key) (s : Side) (m : MFS) : View :=
  fun k => (m.get (osRoot bk kk s ++ k)).map (eraseV (kp (osRoot bk kk s)))

/-- well-formed disks: a tree of plain names whose inner nodes are directories, with the two
roots live directories.  Symlinks (with any target text) may sit anywhere; since every live key's
parent is a live directory, no proper prefix of a live key is a symlink. -/
structure OSGoodL (bk kk : Key) (m : MFS) : Prop where
  root : ∃ mt, m.get [] = some (.dir mt)
  pkey : ∀ k n, m.get k = some n → PKey k
  dom : ∀ k n, m.get k = some n → k ∈ m.dom
  mode : ∀ k n, m.get k = some n → n.meta.mode < 4096
  parent : ∀ k n, m.get k = some n → k ≠ [] → ∃ mt, m.get k.dropLast = some (.dir mt)
  bdir : ∃ mt, m.get bk = some (.dir mt)
  kdir : ∃ mt, m.get kk = some (.dir mt)

/-- `PrefixFS`'s admission check for `Symlink(t, kp k)` on side `s` -/
def osLinkOK (bk kk : Key) (s : Side) (k : Key) (t : Path) : Prop :=
  isAbs t = true ∨
    (relInside (kp (osRoot bk kk s)) (join (dir (kp (osRoot bk kk s ++ k))) t)).isSome = true

section
variable {bk kk : Key}

theorem OSGoodL.rdir {m} (hg : OSGoodL bk kk m) (s : Side) : ∃ mt, m.get (osRoot bk kk s) = some (.dir mt) := by
  cases s
  · exact hg.bdir
  · exact hg.kdir

/-- below a live key, every proper ancestor is a live directory -/
theorem OSGoodL.anc {m} (hg : OSGoodL bk kk m) :
    ∀ (n : Nat) (k : Key) (node : Node), k.length = n → m.get k = some node →
      ∀ p, p <+: k → p ≠ k → ∃ mt, m.get p = some (.dir mt) := by
  intro n
  induction n with
  | zero =>
    intro k node hl _ p hp hne
    have : k = [] := List.length_eq_zero_iff.mp hl
    subst this
    exact absurd (List.prefix_nil.mp hp) hne
  | succ n ih =>
    intro k node hl hk p hp hne
    have hkne : k ≠ [] := by intro e; rw [e] at hl; cases hl
    obtain ⟨mt, hpar⟩ := hg.parent k node hk hkne
    have hp' := prefix_dropLast hp hne
    by_cases he : p = k.dropLast
    · exact ⟨mt, he ▸ hpar⟩
    · exact ih k.dropLast _ (by simp [hl]) hpar p hp' he

theorem OSGoodL.ancestor {m} (hg : OSGoodL bk kk m) {k : Key} {node : Node} (hk : m.get k = some node)
    {p : Key} (hp : p <+: k) (hne : p ≠ k) : ∃ mt, m.get p = some (.dir mt) :=
  hg.anc k.length k node rfl hk p hp hne

/-- all proper prefixes of a key whose parent is a live directory are live directories -/
theorem OSGoodL.anc_of_parent {m} (hg : OSGoodL bk kk m) {K : Key} {mt : Meta}
    (hp : m.get K.dropLast = some (.dir mt)) :
    ∀ p, p <+: K → p ≠ K → ∃ mt, m.get p = some (.dir mt) := by
  intro p hpre hpne
  by_cases he : p = K.dropLast
  · exact ⟨mt, he ▸ hp⟩
  · exact hg.ancestor hp (prefix_dropLast hpre hpne) he

/-- an absent key has no live descendant -/
theorem OSGoodL.below_none {m} (hg : OSGoodL bk kk m) {p k : Key} (hp : p <+: k) (h : m.get p = none) :
    m.get k = none := by
  cases hk : m.get k with
  | none => rfl
  | some node =>
    by_cases he : p = k
    · rw [he, hk] at h; cases h
    · obtain ⟨mt, h'⟩ := hg.ancestor hk hp he
      rw [h] at h'; cases h'

/-- below a live non-directory nothing is live -/
theorem OSGoodL.below_nondir {m} (hg : OSGoodL bk kk m) {p k : Key} {n : Node} (hp : p <+: k) (hne : p ≠ k)
    (h : m.get p = some n) (hnd : n.isDir = false) : m.get k = none := by
  cases hk : m.get k with
  | none => rfl
  | some node =>
    obtain ⟨mt, h'⟩ := hg.ancestor hk hp hne
    rw [h] at h'
    cases h'
    cases hnd

theorem key_ne_of_none {m : MFS} {s : Side} {k : Key} (hg : OSGoodL bk kk m)
    (hn : m.get (osRoot bk kk s ++ k) = none) : k ≠ [] := by
  intro e
  obtain ⟨mt, h⟩ := hg.rdir s
  rw [e, List.append_nil, h] at hn
  cases hn

end

/-! ### `eraseV` -/

theorem eraseV_file {pre : Path} {n : Node} {c mt} : eraseV pre n = .file c mt ↔ n = .file c mt := by
  cases n <;> simp [eraseV]

theorem eraseV_dir {pre : Path} {n : Node} {mt} (h : eraseV pre n = .dir mt) :
    ∃ m0, n = .dir m0 ∧ mt = { m0 with mtime := .fresh } := by
  cases n with
  | dir m0 => simp only [eraseV, Node.dir.injEq] at h; exact ⟨m0, rfl, h.symm⟩
  | file c m0 => simp [eraseV] at h
  | link t m0 => simp [eraseV] at h

theorem eraseV_link {pre : Path} {n : Node} {t mt} (h : eraseV pre n = .link t mt) :
    ∃ raw m0, n = .link raw m0 ∧ t = PrefixFS.readlinkPost pre raw ∧
      mt = { m0 with mtime := .fresh, mode := 0o777 } := by
  cases n with
  | dir m0 => simp [eraseV] at h
  | file c m0 => simp [eraseV] at h
  | link raw m0 =>
    simp only [eraseV, Node.link.injEq] at h
    exact ⟨raw, m0, rfl, h.1.symm, h.2.symm⟩

theorem eraseV_dir' (pre : Path) (m0 : Meta) : eraseV pre (.dir m0) = .dir { m0 with mtime := .fresh } := rfl

theorem eraseV_link' (pre raw : Path) (m0 : Meta) :
    eraseV pre (.link raw m0) = .link (PrefixFS.readlinkPost pre raw) { m0 with mtime := .fresh, mode := 0o777 } := rfl

theorem eraseV_uid (pre : Path) (n : Node) : (eraseV pre n).meta.uid = n.meta.uid := by cases n <;> rfl
theorem eraseV_gid (pre : Path) (n : Node) : (eraseV pre n).meta.gid = n.meta.gid := by cases n <;> rfl
theorem eraseV_kind (pre : Path) (n : Node) : (eraseV pre n).kind = n.kind := by cases n <;> rfl
theorem eraseV_isDir (pre : Path) (n : Node) : (eraseV pre n).isDir = n.isDir := by cases n <;> rfl
theorem eraseV_isLink (pre : Path) (n : Node) : (eraseV pre n).isLink = n.isLink := by cases n <;> rfl
theorem eraseV_isFile (pre : Path) (n : Node) : (eraseV pre n).isFile = n.isFile := by cases n <;> rfl

/-- the view erasure factors through the erasure of directory timestamps -/
theorem eraseV_eraseMt (pre : Path) (n : Node) : eraseV pre (eraseMt n) = eraseV pre n := by
  cases n <;> rfl

theorem map_eraseV_of_eraseMt (pre : Path) {a b : Option Node} (h : a.map eraseMt = b.map eraseMt) :
    a.map (eraseV pre) = b.map (eraseV pre) := by
  have := congrArg (fun o => Option.map (eraseV pre) o) h
  simp only [Option.map_map] at this
  have e : eraseV pre ∘ eraseMt = eraseV pre := by
    funext n
    exact eraseV_eraseMt pre n
  rw [e] at this
  exact this

theorem isLink_true {n : Node} (h : n.isLink = true) : ∃ t mt, n = .link t mt := by
  cases n with
  | link t mt => exact ⟨t, mt, rfl⟩
  | file c mt => cases h
  | dir mt => cases h

/-- what `Readlink` reports is a cleaned text -/
theorem clean_readlinkPost (pre raw : Path) :
    clean (PrefixFS.readlinkPost pre raw) = PrefixFS.readlinkPost pre raw := by
  unfold PrefixFS.readlinkPost
  simp only
  split
  · exact clean_idempotent raw
  · exact join_clean_is_clean rootP _ (by decide)

/-! ### views -/

section
variable {bk kk : Key}

theorem osViewL_eq (bk kk : Key) (s : Side) (m : MFS) (k : Key) :
    osViewL bk kk s m k = (m.get (osRoot bk kk s ++ k)).map (eraseV (kp (osRoot bk kk s))) := rfl

theorem osViewL_some {s m k n} (h : osViewL bk kk s m k = some n) :
    ∃ n0, m.get (osRoot bk kk s ++ k) = some n0 ∧ eraseV (kp (osRoot bk kk s)) n0 = n := by
  rw [osViewL_eq] at h
  cases hk : m.get (osRoot bk kk s ++ k) with
  | none => rw [hk] at h; cases h
  | some n0 => rw [hk] at h; simp only [Option.map_some, Option.some.injEq] at h; exact ⟨n0, rfl, h⟩

theorem osViewL_none {s m k} (h : osViewL bk kk s m k = none) : m.get (osRoot bk kk s ++ k) = none := by
  rw [osViewL_eq] at h
  cases hk : m.get (osRoot bk kk s ++ k) with
  | none => rfl
  | some n0 => rw [hk] at h; cases h

theorem osViewL_ne_none {s m k} (h : osViewL bk kk s m k ≠ none) :
    ∃ n0, m.get (osRoot bk kk s ++ k) = some n0 := by
  cases hk : m.get (osRoot bk kk s ++ k) with
  | none => exact absurd (by rw [osViewL_eq, hk]; rfl) h
  | some n0 => exact ⟨n0, rfl⟩

theorem osViewL_isDirAt {s m k} (h : (osViewL bk kk s m).isDirAt k) :
    ∃ mt, m.get (osRoot bk kk s ++ k) = some (.dir mt) := by
  obtain ⟨mt, h⟩ := h
  obtain ⟨n0, h0, he⟩ := osViewL_some h
  obtain ⟨m0, rfl, _⟩ := eraseV_dir he
  exact ⟨m0, h0⟩

theorem osViewL_isDirAt_of {s m k mt} (h : m.get (osRoot bk kk s ++ k) = some (.dir mt)) :
    (osViewL bk kk s m).isDirAt k := ⟨{ mt with mtime := .fresh }, by rw [osViewL_eq, h]; rfl⟩

theorem osViewL_isFileAt {s m k} (h : (osViewL bk kk s m).isFileAt k) :
    ∃ c mt, m.get (osRoot bk kk s ++ k) = some (.file c mt) := by
  obtain ⟨c, mt, h⟩ := h
  obtain ⟨n0, h0, he⟩ := osViewL_some h
  rw [eraseV_file] at he
  subst he
  exact ⟨c, mt, h0⟩

theorem osViewL_isLinkAt {s m k} (h : isLinkAt (osViewL bk kk s m) k) :
    ∃ raw mt, m.get (osRoot bk kk s ++ k) = some (.link raw mt) := by
  obtain ⟨t, mt, h⟩ := h
  obtain ⟨n0, h0, he⟩ := osViewL_some h
  obtain ⟨raw, m0, rfl, _, _⟩ := eraseV_link he
  exact ⟨raw, m0, h0⟩

theorem osViewL_link {s m k t mt} (h : osViewL bk kk s m k = some (.link t mt)) :
    ∃ raw m0, m.get (osRoot bk kk s ++ k) = some (.link raw m0) ∧
      t = PrefixFS.readlinkPost (kp (osRoot bk kk s)) raw ∧ mt = { m0 with mtime := .fresh, mode := 0o777 } := by
  obtain ⟨n0, h0, he⟩ := osViewL_some h
  obtain ⟨raw, m0, rfl, e1, e2⟩ := eraseV_link he
  exact ⟨raw, m0, h0, e1, e2⟩

theorem osViewL_isLinkAt_of {s m k raw mt} (h : m.get (osRoot bk kk s ++ k) = some (.link raw mt)) :
    isLinkAt (osViewL bk kk s m) k := ⟨_, _, by rw [osViewL_eq, h]; rfl⟩

theorem osViewL_not_link {s m k n0} (h0 : m.get (osRoot bk kk s ++ k) = some n0)
    (h : ¬ isLinkAt (osViewL bk kk s m) k) : n0.isLink = false := by
  cases n0 with
  | link t mt => exact absurd (osViewL_isLinkAt_of h0) h
  | file c mt => rfl
  | dir mt => rfl

/-! ### no symlink appeared, no symlink's stored target changed -/

def LinkSub (m m' : MFS) : Prop :=
  ∀ K t mt', m'.get K = some (.link t mt') → ∃ mt, m.get K = some (.link t mt)

theorem LinkSub.refl (m : MFS) : LinkSub m m := fun _ _ mt' h => ⟨mt', h⟩

theorem LinkSub.trans {m m1 m2 : MFS} (h1 : LinkSub m m1) (h2 : LinkSub m1 m2) : LinkSub m m2 := by
  intro K t mt' h
  obtain ⟨mt1, h'⟩ := h2 K t mt' h
  exact h1 K t mt1 h'

theorem LinkSub.set_nonlink (m : MFS) (K : Key) {v : Option Node} (hv : ∀ t mt, v ≠ some (.link t mt)) :
    LinkSub m (m.set K v) := by
  intro K' t mt' h
  rcases set_get_some h with ⟨_, e⟩ | ⟨_, h'⟩
  · exact absurd e (hv t mt')
  · exact ⟨mt', h'⟩

theorem LinkSub.set_keep {m : MFS} {K : Key} {a b : Node} (ha : m.get K = some a)
    (hb : ∀ t mt', b = .link t mt' → ∃ mt, a = .link t mt) : LinkSub m (m.set K (some b)) := by
  intro K' t mt' h
  rcases set_get_some h with ⟨rfl, e⟩ | ⟨_, h'⟩
  · cases e
    obtain ⟨mt, rfl⟩ := hb t mt' rfl
    exact ⟨mt, ha⟩
  · exact ⟨mt', h'⟩

theorem LinkSub.touch {m m' : MFS} (h : LinkSub m m') (P : Key) : LinkSub m (m'.touchDir P) := by
  rcases touchDir_cases m' P with ⟨mt, hk, e⟩ | e
  · rw [e]
    exact h.trans (LinkSub.set_nonlink m' P (by intro t mt' e'; cases e'))
  · rw [e]; exact h

theorem LinkSub.removeSubtree (m : MFS) (K : Key) : LinkSub m (m.removeSubtree K) := by
  intro K' t mt' h
  exact ⟨mt', (removeSubtree_get_some h).2⟩

theorem noLinkUpto_of_linkSub {m m' : MFS} {K : Key} (hl : LinkSub m m') (h : NoLinkUpto m K) : NoLinkUpto m' K := by
  intro p hp t mt' hget
  obtain ⟨mt, h'⟩ := hl p t mt' hget
  exact h p hp t mt h'

/-- the view of either side shows no new symlink and no changed target -/
theorem linkMono_of_linkSub {m m' : MFS} (s : Side) (h : LinkSub m m') :
    LinkMono (osViewL bk kk s m) (osViewL bk kk s m') := by
  intro j t mt' hv
  obtain ⟨raw, m0, h0, e1, _⟩ := osViewL_link hv
  obtain ⟨mt, h1⟩ := h _ raw m0 h0
  refine ⟨{ mt with mtime := .fresh, mode := 0o777 }, ?_⟩
  rw [osViewL_eq, h1, e1]
  rfl

/-! ### the view-level hypotheses on the disk -/

/-- no proper ancestor of `K` is a symlink -/
def NoLinkProper (m : MFS) (K : Key) : Prop := ∀ p, p <+: K → p ≠ K → ∀ t mt, m.get p ≠ some (.link t mt)

theorem noLinkProper_of_upto {m : MFS} {K : Key} (h : NoLinkUpto m K) : NoLinkProper m K :=
  fun p hp _ => h p hp

theorem noLinkProper_of_view {m : MFS} {s : Side} {k : Key} (hg : OSGoodL bk kk m)
    (h : NoLinkAnc (osViewL bk kk s m) k) : NoLinkProper m (osRoot bk kk s ++ k) := by
  intro p hp hne t mt hget
  rcases List.prefix_or_prefix_of_prefix hp (List.prefix_append (osRoot bk kk s) k) with h1 | h1
  · obtain ⟨mt0, hr⟩ := hg.rdir s
    by_cases he : p = osRoot bk kk s
    · rw [he, hr] at hget; cases hget
    · obtain ⟨mt1, h2⟩ := hg.ancestor hr h1 he
      rw [h2] at hget; cases hget
  · obtain ⟨a, rfl⟩ := h1
    have ha : a <+: k := (List.prefix_append_right_inj _).mp hp
    have hane : a ≠ k := fun e => hne (by rw [e])
    exact h a ha hane (osViewL_isLinkAt_of hget)

theorem noLinkUpto_of_view {m : MFS} {s : Side} {k : Key} (hg : OSGoodL bk kk m)
    (h : AccF (osViewL bk kk s m) k) : NoLinkUpto m (osRoot bk kk s ++ k) := by
  intro p hp t mt hget
  by_cases he : p = osRoot bk kk s ++ k
  · subst he
    exact h.2 (osViewL_isLinkAt_of hget)
  · exact noLinkProper_of_view hg h.1 p hp he t mt hget

/-- for a key whose parent is a directory in the view, no proper ancestor is a symlink -/
theorem noLinkAnc_of_parentDir {m : MFS} {s : Side} {k : Key} (hg : OSGoodL bk kk m)
    (hp : (osViewL bk kk s m).isDirAt k.dropLast) : NoLinkAnc (osViewL bk kk s m) k := by
  intro a ha hne hl
  obtain ⟨pmt, hpd⟩ := osViewL_isDirAt hp
  obtain ⟨raw, mt, hl⟩ := osViewL_isLinkAt hl
  have ha' := prefix_dropLast ha hne
  by_cases he : a = k.dropLast
  · rw [he, hpd] at hl; cases hl
  · have hpre : osRoot bk kk s ++ a <+: osRoot bk kk s ++ k.dropLast := (List.prefix_append_right_inj _).mpr ha'
    obtain ⟨mt1, h1⟩ := hg.ancestor hpd hpre (fun e => he (List.append_cancel_left e))
    rw [h1] at hl; cases hl

/-- for a key present in the view, no proper ancestor is a symlink -/
theorem noLinkAnc_of_present {m : MFS} {s : Side} {k : Key} (hg : OSGoodL bk kk m)
    (h : osViewL bk kk s m k ≠ none) : NoLinkAnc (osViewL bk kk s m) k := by
  intro a ha hne hl
  obtain ⟨n0, h0⟩ := osViewL_ne_none h
  obtain ⟨raw, mt, hl⟩ := osViewL_isLinkAt hl
  have hpre : osRoot bk kk s ++ a <+: osRoot bk kk s ++ k := (List.prefix_append_right_inj _).mpr ha
  obtain ⟨mt1, h1⟩ := hg.ancestor h0 hpre (fun e => hne (List.append_cancel_left e))
  rw [h1] at hl; cases hl

/-- all proper prefixes of a live key below a root are live directories -/
theorem OSGoodL.anc_live {m : MFS} (hg : OSGoodL bk kk m) {K : Key} {n0 : Node} (hn : m.get K = some n0) :
    ∀ p, p <+: K → p ≠ K → ∃ mt, m.get p = some (.dir mt) := fun _ hp hne => hg.ancestor hn hp hne

/-- the proper prefixes of a key below a root whose parent is a directory in the view -/
theorem anc_of_parentDir {m : MFS} {s : Side} {k : Key} (hg : OSGoodL bk kk m) (hne : k ≠ []) {pmt : Meta}
    (hpd : m.get (osRoot bk kk s ++ k.dropLast) = some (.dir pmt)) :
    ∀ p, p <+: osRoot bk kk s ++ k → p ≠ osRoot bk kk s ++ k → ∃ mt, m.get p = some (.dir mt) := by
  have hpd' : m.get (osRoot bk kk s ++ k).dropLast = some (.dir pmt) := by rw [append_dropLast hne]; exact hpd
  exact hg.anc_of_parent hpd'

end

end L
end BFS
