import Lemmas.Footprint
import Lemmas.R2Crash
/-!
  Lemmas/R2Split.lean — `Rollback` as two halves.

  `rollback = restorePart >>= cleanupPart` (`rollback_split`): the *restore half* is the
  classification loop and the four restore loops (remove created paths, restore directories, files,
  symlinks), the *clean-up half* the three loops that delete the backup copies and the reset of the
  tracked map.  For any world with a well-formed disk and ANY fault plan:
  * the restore half never changes the backup view, and changes the base view within the footprint
    of the tracked map only (`sat_restorePart_foot`; the footprint is computed from the backup view
    the half starts with, see `Touches`);
  * the clean-up half never changes the base view (`sat_cleanupPart_foot`).
  Under a crash-only plan the restore half is `CS` (coincides with the fault-free run until the crash
  point) and the clean-up half is `Frozen` once crashed.
-/
namespace BFS
namespace BackupFS

variable (cfg : Cfg)

/-- what the restore half hands to the clean-up half: the plan and the four error flags -/
abbrev RestoreRes := RollbackPlan × Bool × Bool × Bool × Bool

/-- the four restore loops of `Rollback` for a given plan -/
def restoreLoops (infos : List (Path × Option Info)) (pl : RollbackPlan) : M RestoreRes := do
  let e1 ← forEachCollect (removeBaseAct cfg) (sortMost pl.removeBase)
  let e2 ← forEachCollect (restoreDirAct cfg infos) (sortLeast pl.dirs)
  let e3 ← forEachCollect (restoreFileAct cfg infos) (sortStrings pl.files)
  let e4 ← forEachCollect (restoreLinkAct cfg infos) (sortStrings pl.links)
  pure (pl, e1, e2, e3, e4)

/-- the restore half of `Rollback`: classification, then the restore loops -/
def restorePart (infos : List (Path × Option Info)) : M RestoreRes :=
  classify cfg infos {} >>= restoreLoops cfg infos

/-- the clean-up half of `Rollback`: delete the backup copies, forget the tracked map -/
def cleanupPart (r : RestoreRes) : M Bool := do
  let e5 ← removeBackupPaths cfg r.1.links
  let e6 ← removeBackupPaths cfg r.1.files
  let e7 ← removeBackupPaths cfg r.1.dirs
  modifyW (fun w => { w with infos := [] })
  pure ((if r.2.1 then true else r.1.failed) || r.2.2.1 || r.2.2.2.1 || r.2.2.2.2 || e5 || e6 || e7)

/-- `Rollback` is the restore half followed by the clean-up half -/
theorem rollback_split (w : World) : rollback cfg w = (restorePart cfg w.infos >>= cleanupPart cfg) w := by
  unfold rollback restorePart restoreLoops cleanupPart
  simp only [M.bind_apply, getW, M.pure_apply]
  cases classify cfg w.infos {} w with
  | mk w1 r1 =>
    cases r1 with
    | error e => rfl
    | ok pl =>
      simp only
      cases forEachCollect (removeBaseAct cfg) (sortMost pl.removeBase) w1 with
      | mk w2 r2 =>
        cases r2 with
        | error e => rfl
        | ok e1 =>
          simp only
          cases forEachCollect (restoreDirAct cfg w.infos) (sortLeast pl.dirs) w2 with
          | mk w3 r3 =>
            cases r3 with
            | error e => rfl
            | ok e2 =>
              simp only
              cases forEachCollect (restoreFileAct cfg w.infos) (sortStrings pl.files) w3 with
              | mk w4 r4 =>
                cases r4 with
                | error e => rfl
                | ok e3 =>
                  simp only
                  cases forEachCollect (restoreLinkAct cfg w.infos) (sortStrings pl.links) w4 with
                  | mk w5 r5 =>
                    cases r5 with
                    | error e => rfl
                    | ok e4 => rfl

theorem restoreLoops_total (infos : List (Path × Option Info)) (pl : RollbackPlan) : Total (restoreLoops cfg infos pl) := by
  unfold restoreLoops
  apply Total.bind (forEachCollect_total _ _); intro e1
  apply Total.bind (forEachCollect_total _ _); intro e2
  apply Total.bind (forEachCollect_total _ _); intro e3
  apply Total.bind (forEachCollect_total _ _); intro e4
  exact Total.pure _

theorem restorePart_total (infos : List (Path × Option Info)) : Total (restorePart cfg infos) := by
  unfold restorePart
  exact Total.bind (classify_total cfg infos {}) (restoreLoops_total cfg infos)

/-- the plan the restore loops return is the plan they were given -/
theorem restoreLoops_fst (infos : List (Path × Option Info)) (pl : RollbackPlan) (w : World) (res : RestoreRes)
    (h : (restoreLoops cfg infos pl w).2 = .ok res) : res.1 = pl := by
  unfold restoreLoops at h
  simp only [M.bind_apply, M.pure_apply] at h
  cases h1 : forEachCollect (removeBaseAct cfg) (sortMost pl.removeBase) w with
  | mk w2 r2 =>
    rw [h1] at h
    cases r2 with
    | error e => cases h
    | ok e1 =>
      simp only at h
      cases h2 : forEachCollect (restoreDirAct cfg infos) (sortLeast pl.dirs) w2 with
      | mk w3 r3 =>
        rw [h2] at h
        cases r3 with
        | error e => cases h
        | ok e2 =>
          simp only at h
          cases h3 : forEachCollect (restoreFileAct cfg infos) (sortStrings pl.files) w3 with
          | mk w4 r4 =>
            rw [h3] at h
            cases r4 with
            | error e => cases h
            | ok e3 =>
              simp only at h
              cases h4 : forEachCollect (restoreLinkAct cfg infos) (sortStrings pl.links) w4 with
              | mk w5 r5 =>
                rw [h4] at h
                cases r5 with
                | error e => cases h
                | ok e4 =>
                  simp only at h
                  cases h
                  rfl

/-! ### crash behaviour of the two halves -/

variable {cfg}

theorem CS.restoreLoops {fl : List Fault} (hfl : CrashOnly fl) (infos : List (Path × Option Info)) (pl : RollbackPlan) :
    CS fl (restoreLoops cfg infos pl) := by
  unfold BackupFS.restoreLoops
  apply CS.bind (CS.forEachCollect (CS.removeBaseAct hfl cfg) _); intro e1
  apply CS.bind (CS.forEachCollect (CS.restoreDirAct hfl cfg infos) _); intro e2
  apply CS.bind (CS.forEachCollect (CS.restoreFileAct hfl cfg infos) _); intro e3
  apply CS.bind (CS.forEachCollect (CS.restoreLinkAct hfl cfg infos) _); intro e4
  exact CS.pure _

theorem CS.restorePart {fl : List Fault} (hfl : CrashOnly fl) (infos : List (Path × Option Info)) :
    CS fl (restorePart cfg infos) := by
  unfold BackupFS.restorePart
  exact CS.bind (CS.classify hfl cfg infos {}) (CS.restoreLoops hfl infos)

theorem CS.cleanupPart {fl : List Fault} (hfl : CrashOnly fl) (r : RestoreRes) : CS fl (cleanupPart cfg r) := by
  unfold BackupFS.cleanupPart
  apply CS.bind (CS.removeBackupPaths hfl cfg _); intro e5
  apply CS.bind (CS.removeBackupPaths hfl cfg _); intro e6
  apply CS.bind (CS.removeBackupPaths hfl cfg _); intro e7
  apply CS.bind (CS.modifyW (f := fun w => { w with infos := [] }) (fun _ => rfl) (fun _ => rfl) (fun _ => rfl)); intro _
  exact CS.pure _

theorem Frozen.cleanupPart (r : RestoreRes) : Frozen (cleanupPart cfg r) := by
  unfold BackupFS.cleanupPart
  apply Frozen.bind (Frozen.removeBackupPaths cfg _); intro e5
  apply Frozen.bind (Frozen.removeBackupPaths cfg _); intro e6
  apply Frozen.bind (Frozen.removeBackupPaths cfg _); intro e7
  apply Frozen.bind (fun w h => ⟨rfl, by rw [← h]; exact crashed_congr rfl rfl⟩); intro _
  exact Frozen.pure _

/-! ### footprints of the two halves (any world with a well-formed disk, any fault plan) -/

variable {S : Sim cfg}

/-- every path the clean-up half will visit is the path of a key other than the root -/
def PlanKeys (pl : RollbackPlan) : Prop :=
  ∀ p, p ∈ pl.links ∨ p ∈ pl.files ∨ p ∈ pl.dirs → ∃ k, PKey k ∧ k ≠ [] ∧ p = kp k

theorem planOK_keys {infos : List (Path × Option Info)} {pl : RollbackPlan} (h : PlanOK infos pl)
    (hkeys : ∀ p oi, (p, oi) ∈ infos → ∃ k, PKey k ∧ p = kp k) : PlanKeys pl := by
  have hsome : ∀ {p : Path} {i : Info}, p ≠ rootP → (p, some i) ∈ infos → ∃ k, PKey k ∧ k ≠ [] ∧ p = kp k := by
    intro p i hp hm
    obtain ⟨k, hk, rfl⟩ := hkeys p _ hm
    exact ⟨k, hk, fun e => hp (by rw [e]; rfl), rfl⟩
  intro p hp
  rcases hp with hp | hp | hp
  · obtain ⟨hne, i, hm, _⟩ := h.links p hp; exact hsome hne hm
  · obtain ⟨hne, i, hm, _⟩ := h.files p hp; exact hsome hne hm
  · obtain ⟨hne, i, hm, _⟩ := h.dirs p hp; exact hsome hne hm

/-- **the restore half never touches the backup** and stays within the base footprint of the tracked
map — whatever the fault plan, whatever it returns; the plan it hands on lists tracked entries only -/
theorem sat_restorePart_foot {w : World} {infos : List (Path × Option Info)} (hg : S.G w.fs)
    (hkeys : ∀ p oi, (p, oi) ∈ infos → ∃ k, PKey k ∧ p = kp k)
    (hroot : (kp [], none) ∉ infos)
    (hnolink : ∀ p i, (p, some i) ∈ infos → i.kind ≠ .link) :
    Sat (restorePart cfg infos) w (fun w' r =>
      S.Foot (BaseFoot (S.view .backup w.fs) infos) (FileFoot (S.view .backup w.fs) infos) (fun _ => False) w w' ∧
        ∀ res, r = .ok res → PlanOK infos res.1) := by
  have hsome : ∀ {p : Path} {i : Info}, p ≠ rootP → (p, some i) ∈ infos → ∃ k, p = kp k ∧ TrackedKey infos k (some i) := by
    intro p i hp hm
    obtain ⟨k, hk, rfl⟩ := hkeys p _ hm
    exact ⟨k, rfl, hk, fun e => hp (by rw [e]; rfl), hm⟩
  have hnone : ∀ {p : Path}, (p, none) ∈ infos → ∃ k, p = kp k ∧ TrackedKey infos k none := by
    intro p hm
    obtain ⟨k, hk, rfl⟩ := hkeys p _ hm
    exact ⟨k, rfl, hk, fun e => hroot (e ▸ hm), hm⟩
  unfold restorePart
  apply Sat.bind
  apply (sat_classify_any S (infos := infos) infos {} w w (fun _ h => h) (SameFS.refl w) hg (PlanOK.empty _)).mono
  intro w1 r ⟨hs1, hplan⟩
  have h1 : S.Foot (BaseFoot (S.view .backup w.fs) infos) (FileFoot (S.view .backup w.fs) infos) (fun _ => False) w w1 := Sim.Foot.of_same hg hs1
  cases r with
  | error e => exact ⟨h1, fun res h => by cases h⟩
  | ok pl =>
    have hpl := hplan pl rfl
    simp only
    refine ⟨?_, fun res h => by rw [restoreLoops_fst cfg infos pl w1 res h]; exact hpl⟩
    show Sat (restoreLoops cfg infos pl) w1 (fun w' _ => S.Foot (BaseFoot (S.view .backup w.fs) infos) (FileFoot (S.view .backup w.fs) infos) (fun _ => False) w w')
    unfold restoreLoops
    -- created entries are removed
    apply Sat.seq (P := S.Foot (BaseFoot (S.view .backup w.fs) infos) (FileFoot (S.view .backup w.fs) infos) (fun _ => False) w) _ (fun _ h => h)
    rotate_left
    · apply sat_forEach_any (P := S.Foot (BaseFoot (S.view .backup w.fs) infos) (FileFoot (S.view .backup w.fs) infos) (fun _ => False) w) _ w1 h1
      intro x hx w' h'
      obtain ⟨k, rfl, ht⟩ := hnone (hpl.rem x ((sortBy_perm _ _).mem_iff.mp hx))
      exact (sat_removeBaseAct_chg h'.good ht.1 ht.2.1).mono (fun _ _ hc => h'.trans
        (Sim.Foot.of_base hc (fun j e => ⟨k, none, ht, Or.inl e⟩) (fun j e => ⟨k, none, ht, Or.inl e⟩)))
    intro e1 w2 h2
    -- directories are restored
    apply Sat.seq (P := S.Foot (BaseFoot (S.view .backup w.fs) infos) (FileFoot (S.view .backup w.fs) infos) (fun _ => False) w) _ (fun _ h => h)
    rotate_left
    · apply sat_forEach_any (P := S.Foot (BaseFoot (S.view .backup w.fs) infos) (FileFoot (S.view .backup w.fs) infos) (fun _ => False) w) _ w2 h2
      intro x hx w' h'
      obtain ⟨hp, i, hm, hkind⟩ := hpl.dirs x ((sortBy_perm _ _).mem_iff.mp hx)
      obtain ⟨k, rfl, ht⟩ := hsome hp hm
      exact (sat_restoreDirAct_frame h'.good ht.1 ht.2.1).mono (fun _ _ hc => h'.trans
        (Sim.Foot.of_dir hc (fun j hj => ⟨k, some i, ht, Or.inr (Or.inr ⟨i, rfl, hkind, hj⟩)⟩)
          ⟨k, some i, ht, Or.inl rfl⟩))
    intro e2 w3 h3
    -- files are restored
    apply Sat.seq (P := S.Foot (BaseFoot (S.view .backup w.fs) infos) (FileFoot (S.view .backup w.fs) infos) (fun _ => False) w) _ (fun _ h => h)
    rotate_left
    · apply sat_forEach_any (P := S.Foot (BaseFoot (S.view .backup w.fs) infos) (FileFoot (S.view .backup w.fs) infos) (fun _ => False) w) _ w3 h3
      intro x hx w' h'
      obtain ⟨hp, i, hm, hkind⟩ := hpl.files x ((sortBy_perm _ _).mem_iff.mp hx)
      obtain ⟨k, rfl, ht⟩ := hsome hp hm
      have hbk : S.view .backup w'.fs = S.view .backup w.fs := funext (fun j => h'.backup j (fun h => h))
      exact (sat_restoreFileAct_chg h'.good ht.1 ht.2.1).mono (fun _ _ hc => h'.trans
        (Sim.Foot.of_base hc (fun j hj => ⟨k, some i, ht, (FileReach.touches hkind (hbk ▸ hj)).touches⟩)
          (fun j hj => ⟨k, some i, ht, FileReach.touches hkind (hbk ▸ hj)⟩)))
    intro e3 w4 h4
    -- no symlink is tracked
    have hnl : ∀ x, x ∈ pl.links → False := by
      intro x hx
      obtain ⟨_, i, hm, hkind⟩ := hpl.links x hx
      exact hnolink x i hm hkind
    apply Sat.seq (P := S.Foot (BaseFoot (S.view .backup w.fs) infos) (FileFoot (S.view .backup w.fs) infos) (fun _ => False) w) _ (fun _ h => h)
    rotate_left
    · apply sat_forEach_any (P := S.Foot (BaseFoot (S.view .backup w.fs) infos) (FileFoot (S.view .backup w.fs) infos) (fun _ => False) w) _ w4 h4
      intro x hx w' h'
      exact absurd ((sortBy_perm _ _).mem_iff.mp hx) (hnl x)
    intro e4 w5 h5
    exact Sat.pure h5

/-- **the clean-up half never touches the base** — whatever the fault plan, whatever it returns -/
theorem sat_cleanupPart_foot {w : World} {r : RestoreRes} (hg : S.G w.fs) (hpk : PlanKeys r.1) :
    Sat (cleanupPart cfg r) w (fun w' _ =>
      S.Foot (fun _ => False) (fun _ => False) (fun _ => True) w w') := by
  unfold cleanupPart
  have h0 : S.Foot (fun _ => False) (fun _ => False) (fun _ => True) w w := Sim.Foot.refl hg
  apply Sat.seq (P := S.Foot (fun _ => False) (fun _ => False) (fun _ => True) w) _ (fun _ h => h)
  rotate_left
  · exact sat_removeBackupPaths_foot h0 (fun p hp => by
      obtain ⟨k, hk, hne, e⟩ := hpk p (Or.inl hp); exact ⟨k, hk, hne, e, trivial⟩)
  intro e5 w6 h6
  apply Sat.seq (P := S.Foot (fun _ => False) (fun _ => False) (fun _ => True) w) _ (fun _ h => h)
  rotate_left
  · exact sat_removeBackupPaths_foot h6 (fun p hp => by
      obtain ⟨k, hk, hne, e⟩ := hpk p (Or.inr (Or.inl hp)); exact ⟨k, hk, hne, e, trivial⟩)
  intro e6 w7 h7
  apply Sat.seq (P := S.Foot (fun _ => False) (fun _ => False) (fun _ => True) w) _ (fun _ h => h)
  rotate_left
  · exact sat_removeBackupPaths_foot h7 (fun p hp => by
      obtain ⟨k, hk, hne, e⟩ := hpk p (Or.inr (Or.inr hp)); exact ⟨k, hk, hne, e, trivial⟩)
  intro e7 w8 h8
  apply Sat.bind
  apply Sat.modifyW
  apply Sat.pure
  exact ⟨h8.good, h8.base, h8.files, h8.backup⟩

end BackupFS
end BFS
