import Lemmas.NLCopy
/-!
  Lemmas/NLInv.lean (copy of Lemmas/LInv.lean over `NL.Sim`) — the transaction invariant of a BackupFS over an `Sim` (symlinks as leaves).

  `Inv S v0 w` is `BFS.Inv` (Lemmas/Inv.lean) plus:
  * a key tracked with a symlink's info has, in the backup view, a symlink with the same target
    text, and the base side admits re-creating it (`LinkOK`);
  * `blink`: no tracked key has a symlink as a proper ancestor in the current base view (otherwise
    Rollback's `lexists`/`Remove` on tracked paths would be redirected);
  * `bklinks`: every symlink in the backup view sits at a key tracked with a symlink's info, or at
    an untracked key where the base view has a symlink too (so backup writes are never redirected).
-/
namespace BFS
namespace NL
open BackupFS

variable {cfg : Cfg}

structure Inv (S : Sim cfg) (v0 : View) (w : World) : Prop where
  good : S.G w.fs
  orig : GoodView (S.Hid .base) (S.Par .base) v0
  keys : ∀ p oi, (p, oi) ∈ w.infos → ∃ k, PKey k ∧ p = kp k
  nodup : (w.infos.map Prod.fst).Nodup
  frame : ∀ k, PKey k → w.infos.lookup (kp k) = none → S.view .base w.fs k = v0 k
  absent : ∀ k, PKey k → w.infos.lookup (kp k) = some none → v0 k = none
  saved : ∀ k i, PKey k → w.infos.lookup (kp k) = some (some i) →
    ∃ n, v0 k = some n ∧ InfoForL i n ∧
      (∀ c mt, n = .file c mt → ∃ mt', S.view .backup w.fs k = some (.file c mt')) ∧
      (∀ t mt, n = .link t mt → (∃ mt', S.view .backup w.fs k = some (.link t mt')) ∧ S.LinkOK .base k t)
  anc : ∀ k i, PKey k → w.infos.lookup (kp k) = some (some i) →
    ∀ a, a <+: k → w.infos.lookup (kp a) ≠ none
  blink : ∀ k, PKey k → Tracked w k → NoLinkAnc (S.view .base w.fs) k
  bklinks : ∀ k, isLinkAt (S.view .backup w.fs) k →
    (∃ i, w.infos.lookup (kp k) = some (some i) ∧ i.kind = .link) ∨
    (w.infos.lookup (kp k) = none ∧ isLinkAt (S.view .base w.fs) k)

variable {S : Sim cfg} {v0 : View}

/-- the bookkeeping only advances: the invariant holds again, the base view is the same, and what
was tracked stays tracked with the same entry -/
structure Adv (S : Sim cfg) (v0 : View) (w w' : World) : Prop where
  inv : Inv S v0 w'
  base : S.view .base w'.fs = S.view .base w.fs
  faults : w'.faults = w.faults
  mono : ∀ p x, w.infos.lookup p = some x → w'.infos.lookup p = some x

theorem Adv.refl {w : World} (h : Inv S v0 w) : Adv S v0 w w := ⟨h, rfl, rfl, fun _ _ h => h⟩

theorem Adv.trans {a b c : World} (h1 : Adv S v0 a b) (h2 : Adv S v0 b c) : Adv S v0 a c :=
  ⟨h2.inv, h2.base.trans h1.base, h2.faults.trans h1.faults, fun p x h => h2.mono p x (h1.mono p x h)⟩

theorem _root_.BFS.Tracked.monoNL {w w' : World} {k : Key} (h : Tracked w k) (ha : Adv S v0 w w') : Tracked w' k := by
  unfold Tracked at *
  cases hl : w.infos.lookup (kp k) with
  | none => exact absurd hl h
  | some x => rw [ha.mono _ _ hl]; simp

/-- the invariant does not look at the trace or the occurrence counters -/
theorem Inv.of_same {w w' : World} (h : Inv S v0 w) (hs : SameFS w w') : Inv S v0 w' := by
  refine ⟨hs.fs ▸ h.good, h.orig, ?_, ?_, ?_, ?_, ?_, ?_, ?_, ?_⟩
  · rw [hs.infos]; exact h.keys
  · rw [hs.infos]; exact h.nodup
  · rw [hs.infos, hs.fs]; exact h.frame
  · rw [hs.infos]; exact h.absent
  · rw [hs.infos, hs.fs]; exact h.saved
  · rw [hs.infos]; exact h.anc
  · unfold Tracked; rw [hs.infos, hs.fs]; exact h.blink
  · rw [hs.infos, hs.fs]; exact h.bklinks

theorem Adv.of_same {w w' : World} (h : Inv S v0 w) (hs : SameFS w w') : Adv S v0 w w' :=
  ⟨h.of_same hs, by rw [hs.fs], hs.faults, fun p x hx => by rw [hs.infos]; exact hx⟩

/-- a backup-side step that keeps regular files and symlinks elsewhere and creates no symlink,
working on an untracked key -/
theorem Inv.backup_soft {w w' : World} {d : Key} (h : Inv S v0 w) (_hd : PKey d)
    (hun : w.infos.lookup (kp d) = none) (hs : S.Soft .backup d w w') : Inv S v0 w' := by
  have hb : S.view .base w'.fs = S.view .base w.fs := hs.other
  refine ⟨hs.good, h.orig, ?_, ?_, ?_, ?_, ?_, ?_, ?_, ?_⟩
  · rw [hs.infos]; exact h.keys
  · rw [hs.infos]; exact h.nodup
  · rw [hs.infos, hb]; exact h.frame
  · rw [hs.infos]; exact h.absent
  · rw [hs.infos]
    intro k i hk hl
    obtain ⟨n, hn, hfor, hcopy, hlcopy⟩ := h.saved k i hk hl
    have hkd : k ≠ d := by
      intro e; subst e; rw [hun] at hl; cases hl
    refine ⟨n, hn, hfor, ?_, ?_⟩
    · intro c mt hnc
      obtain ⟨mt', hv⟩ := hcopy c mt hnc
      exact ⟨mt', by rw [hs.keep k hkd (Or.inl ⟨c, mt', hv⟩)]; exact hv⟩
    · intro t mt hnc
      obtain ⟨⟨mt', hv⟩, hok⟩ := hlcopy t mt hnc
      exact ⟨⟨mt', by rw [hs.keep k hkd (Or.inr ⟨t, mt', hv⟩)]; exact hv⟩, hok⟩
  · rw [hs.infos]; exact h.anc
  · unfold Tracked; rw [hs.infos, hb]; exact h.blink
  · rw [hs.infos, hb]
    intro k hl
    exact h.bklinks k (hs.links.isLinkAt hl)

theorem Adv.backup_soft {w w' : World} {d : Key} (h : Inv S v0 w) (hd : PKey d)
    (hun : w.infos.lookup (kp d) = none) (hs : S.Soft .backup d w w') : Adv S v0 w w' :=
  ⟨h.backup_soft hd hun hs, hs.other, hs.faults, fun p x hx => by rw [hs.infos]; exact hx⟩

/-- a backup-side step confined to an untracked key at which the base view has a symlink (the
copy of that symlink) -/
theorem Inv.backup_link {w w' : World} {d : Key} (h : Inv S v0 w) (_hd : PKey d)
    (hun : w.infos.lookup (kp d) = none) (hbl : isLinkAt (S.view .base w.fs) d)
    (hs : S.ChgL .backup (· = d) w w') : Inv S v0 w' := by
  have hb : S.view .base w'.fs = S.view .base w.fs := hs.other
  refine ⟨hs.good, h.orig, ?_, ?_, ?_, ?_, ?_, ?_, ?_, ?_⟩
  · rw [hs.infos]; exact h.keys
  · rw [hs.infos]; exact h.nodup
  · rw [hs.infos, hb]; exact h.frame
  · rw [hs.infos]; exact h.absent
  · rw [hs.infos]
    intro k i hk hl
    have hkd : k ≠ d := by
      intro e; subst e; rw [hun] at hl; cases hl
    rw [hs.frame k hkd]
    exact h.saved k i hk hl
  · rw [hs.infos]; exact h.anc
  · unfold Tracked; rw [hs.infos, hb]; exact h.blink
  · rw [hs.infos, hb]
    intro k hl
    by_cases hkd : k = d
    · subst hkd; exact Or.inr ⟨hun, hbl⟩
    · apply h.bklinks k
      obtain ⟨t, mt, ht⟩ := hl
      exact ⟨t, mt, by rw [← hs.frame k hkd]; exact ht⟩

theorem Adv.backup_link {w w' : World} {d : Key} (h : Inv S v0 w) (hd : PKey d)
    (hun : w.infos.lookup (kp d) = none) (hbl : isLinkAt (S.view .base w.fs) d)
    (hs : S.ChgL .backup (· = d) w w') : Adv S v0 w w' :=
  ⟨h.backup_link hd hun hbl hs, hs.other, hs.faults, fun p x hx => by rw [hs.infos]; exact hx⟩

/-- a base-side step that changes only tracked keys, given that afterwards still no tracked key
has a symlink ancestor -/
theorem Inv.base_chgL {w w' : World} {K : Key → Prop} (h : Inv S v0 w) (hc : S.ChgL .base K w w')
    (hK : ∀ j, PKey j → K j → w.infos.lookup (kp j) ≠ none)
    (hbl : ∀ k, PKey k → Tracked w k → NoLinkAnc (S.view .base w'.fs) k) : Inv S v0 w' := by
  have hk : S.view .backup w'.fs = S.view .backup w.fs := hc.other
  refine ⟨hc.good, h.orig, ?_, ?_, ?_, ?_, ?_, ?_, ?_, ?_⟩
  · rw [hc.infos]; exact h.keys
  · rw [hc.infos]; exact h.nodup
  · rw [hc.infos]
    intro k hkk hl
    rw [hc.frame k (fun hKk => hK k hkk hKk hl)]
    exact h.frame k hkk hl
  · rw [hc.infos]; exact h.absent
  · rw [hc.infos, hk]; exact h.saved
  · rw [hc.infos]; exact h.anc
  · unfold Tracked; rw [hc.infos]; exact hbl
  · rw [hc.infos, hk]
    intro k hl
    rcases h.bklinks k hl with hleft | ⟨hun, hbase⟩
    · exact Or.inl hleft
    · right
      refine ⟨hun, ?_⟩
      have hpk : PKey k := by
        obtain ⟨t, mt, ht⟩ := hbase
        exact S.pkey h.good (by rw [ht]; simp)
      obtain ⟨t, mt, ht⟩ := hbase
      exact ⟨t, mt, by rw [hc.frame k (fun hKk => hK k hpk hKk hun)]; exact ht⟩

/-- a base-side step that changes only tracked keys and creates no symlink -/
theorem Inv.base_chg {w w' : World} {K : Key → Prop} (h : Inv S v0 w) (hc : S.Chg .base K w w')
    (hK : ∀ j, PKey j → K j → w.infos.lookup (kp j) ≠ none) : Inv S v0 w' :=
  h.base_chgL hc.toChgL hK (fun k hk ht => hc.links.noLinkAnc (h.blink k hk ht))

/-! ### what the invariant says about the backup side of a key about to be copied -/

/-- an untracked key that exists in the base, all of whose proper ancestors are tracked, has no
symlink among its ancestors in the backup view -/
theorem Inv.backup_noLinkAnc {w : World} {k : Key} (h : Inv S v0 w) (hk : PKey k)
    (hun : w.infos.lookup (kp k) = none) (hv : S.view .base w.fs k ≠ none)
    (hpre : ∀ b, b <+: k → b ≠ k → Tracked w b) : NoLinkAnc (S.view .backup w.fs) k := by
  intro b hb hne hl
  have hpb : PKey b := hk.of_prefix hb
  rcases h.bklinks b hl with ⟨i, hts, hkind⟩ | ⟨hunb, _⟩
  · obtain ⟨n, hn, hfor, _, _⟩ := h.saved b i hpb hts
    have hv0 : v0 k ≠ none := by rw [← h.frame k hk hun]; exact hv
    obtain ⟨mt, hd⟩ := h.orig.ancestors hv0 hb hne
    rw [hd] at hn; cases hn
    have := hfor.1
    rw [hkind] at this
    cases this
  · exact hpre b hb hne hunb

/-- … and if it is not a symlink in the base, it is not one in the backup -/
theorem Inv.backup_notLink {w : World} {k : Key} (h : Inv S v0 w)
    (hun : w.infos.lookup (kp k) = none) (hv : ¬ isLinkAt (S.view .base w.fs) k) :
    ¬ isLinkAt (S.view .backup w.fs) k := by
  intro hl
  rcases h.bklinks k hl with ⟨i, hts, _⟩ | ⟨_, hb⟩
  · rw [hun] at hts; cases hts
  · exact hv hb

/-! ### recording an entry -/

theorem Inv.add_common {w : World} {k : Key} {x : Option Info} (h : Inv S v0 w) (hk : PKey k)
    (hun : w.infos.lookup (kp k) = none) :
    (∀ p oi, (p, oi) ∈ (addInfo w (kp k) x).infos → ∃ k, PKey k ∧ p = kp k) ∧
    ((addInfo w (kp k) x).infos.map Prod.fst).Nodup ∧
    (∀ j, PKey j → j ≠ k → (addInfo w (kp k) x).infos.lookup (kp j) = w.infos.lookup (kp j)) ∧
    (addInfo w (kp k) x).infos.lookup (kp k) = some x := by
  refine ⟨?_, ?_, ?_, lookup_snoc_self hun⟩
  · intro p oi hm
    simp only [addInfo, List.mem_append, List.mem_singleton] at hm
    rcases hm with hm | hm
    · exact h.keys p oi hm
    · cases hm; exact ⟨k, hk, rfl⟩
  · simp only [addInfo, List.map_append, List.map_cons, List.map_nil]
    apply List.nodup_append.mpr
    refine ⟨h.nodup, by simp, ?_⟩
    intro a ha b hb
    simp only [List.mem_singleton] at hb
    subst hb
    intro e; subst e
    exact lookup_none_not_mem hun ha
  · intro j hj hjk
    exact lookup_snoc_ne (fun e => hjk (kp_inj hj hk e))

theorem backup_pkey {w : World} (hg : S.G w.fs) {s : Side} {k : Key} (hl : isLinkAt (S.view s w.fs) k) : PKey k := by
  obtain ⟨t, mt, ht⟩ := hl
  exact S.pkey hg (by rw [ht]; simp)

theorem Inv.add_none {w : World} {k : Key} (h : Inv S v0 w) (hk : PKey k)
    (hun : w.infos.lookup (kp k) = none) (hv : S.view .base w.fs k = none)
    (hacc : NoLinkAnc (S.view .base w.fs) k) :
    Inv S v0 (addInfo w (kp k) none) := by
  obtain ⟨hkeys, hnd, hother, hself⟩ := h.add_common (x := none) hk hun
  refine ⟨h.good, h.orig, hkeys, hnd, ?_, ?_, ?_, ?_, ?_, ?_⟩
  · intro j hj hl
    by_cases hjk : j = k
    · subst hjk; rw [hself] at hl; cases hl
    · rw [hother j hj hjk] at hl; exact h.frame j hj hl
  · intro j hj hl
    by_cases hjk : j = k
    · subst hjk; rw [← h.frame j hj hun]; exact hv
    · rw [hother j hj hjk] at hl; exact h.absent j hj hl
  · intro j i hj hl
    by_cases hjk : j = k
    · subst hjk; rw [hself] at hl; cases hl
    · rw [hother j hj hjk] at hl; exact h.saved j i hj hl
  · intro j i hj hl a ha
    by_cases hjk : j = k
    · subst hjk; rw [hself] at hl; cases hl
    · rw [hother j hj hjk] at hl
      have := h.anc j i hj hl a ha
      by_cases hak : a = k
      · subst hak; rw [hself]; simp
      · rw [hother a (hj.of_prefix ha) hak]; exact this
  · intro j hj ht
    by_cases hjk : j = k
    · subst hjk; exact hacc
    · unfold Tracked at ht
      rw [hother j hj hjk] at ht
      exact h.blink j hj ht
  · intro j hl
    have hj : PKey j := backup_pkey h.good hl
    by_cases hjk : j = k
    · subst hjk
      rcases h.bklinks j hl with ⟨i, hts, _⟩ | ⟨_, hb⟩
      · rw [hun] at hts; cases hts
      · exact absurd hb (isLinkAt_not_none hv)
    · show _ ∨ ((addInfo w (kp k) none).infos.lookup (kp j) = none ∧ _)
      rw [hother j hj hjk]
      exact h.bklinks j hl

theorem Inv.add_some {w : World} {k : Key} {i : Info} {n : Node} (h : Inv S v0 w) (hk : PKey k)
    (hun : w.infos.lookup (kp k) = none) (hv : S.view .base w.fs k = some n) (hfor : InfoForL i n)
    (hcopy : ∀ c mt, n = .file c mt → ∃ mt', S.view .backup w.fs k = some (.file c mt'))
    (hlcopy : ∀ t mt, n = .link t mt → (∃ mt', S.view .backup w.fs k = some (.link t mt')) ∧ S.LinkOK .base k t)
    (hanc : ∀ a, a <+: k → a ≠ k → w.infos.lookup (kp a) ≠ none) :
    Inv S v0 (addInfo w (kp k) (some i)) := by
  obtain ⟨hkeys, hnd, hother, hself⟩ := h.add_common (x := some i) hk hun
  refine ⟨h.good, h.orig, hkeys, hnd, ?_, ?_, ?_, ?_, ?_, ?_⟩
  · intro j hj hl
    by_cases hjk : j = k
    · subst hjk; rw [hself] at hl; cases hl
    · rw [hother j hj hjk] at hl; exact h.frame j hj hl
  · intro j hj hl
    by_cases hjk : j = k
    · subst hjk; rw [hself] at hl; cases hl
    · rw [hother j hj hjk] at hl; exact h.absent j hj hl
  · intro j i' hj hl
    by_cases hjk : j = k
    · subst hjk
      rw [hself] at hl
      cases hl
      exact ⟨n, by rw [← h.frame j hj hun]; exact hv, hfor, hcopy, hlcopy⟩
    · rw [hother j hj hjk] at hl; exact h.saved j i' hj hl
  · intro j i' hj hl a ha
    by_cases hak : a = k
    · subst hak; rw [hself]; simp
    · rw [hother a (hj.of_prefix ha) hak]
      by_cases hjk : j = k
      · subst hjk; exact hanc a ha hak
      · rw [hother j hj hjk] at hl; exact h.anc j i' hj hl a ha
  · intro j hj ht
    by_cases hjk : j = k
    · subst hjk
      have : S.view .base w.fs j ≠ none := by rw [hv]; simp
      exact S.noLinkAnc_present h.good this
    · unfold Tracked at ht
      rw [hother j hj hjk] at ht
      exact h.blink j hj ht
  · intro j hl
    have hj : PKey j := backup_pkey h.good hl
    by_cases hjk : j = k
    · subst hjk
      left
      refine ⟨i, hself, ?_⟩
      rcases h.bklinks j hl with ⟨i', hts, _⟩ | ⟨_, t, mt, hb⟩
      · rw [hun] at hts; cases hts
      · rw [hv] at hb
        cases hb
        exact hfor.1
    · show (∃ i', (addInfo w (kp k) (some i)).infos.lookup (kp j) = some (some i') ∧ _) ∨
        ((addInfo w (kp k) (some i)).infos.lookup (kp j) = none ∧ _)
      rw [hother j hj hjk]
      exact h.bklinks j hl

theorem Adv.add {w : World} {k : Key} {x : Option Info} (_hk : PKey k)
    (hun : w.infos.lookup (kp k) = none) (hinv : Inv S v0 (addInfo w (kp k) x)) :
    Adv S v0 w (addInfo w (kp k) x) := by
  refine ⟨hinv, rfl, rfl, ?_⟩
  intro p y hp
  by_cases hpk : p = kp k
  · subst hpk; rw [hun] at hp; cases hp
  · show (w.infos ++ [(kp k, x)]).lookup p = some y
    rw [lookup_snoc_ne hpk]; exact hp

end NL
end BFS
