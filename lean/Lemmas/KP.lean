import Lemmas.Sim
import Lemmas.Join
import Lemmas.Chain
import Lemmas.Sort
/-!
  Lemmas/KP.lean — absolute cleaned paths as keys: `kp k` for `PKey k`.  What the string
  functions the BackupFS code uses (`clean`, `dir`, `join`, `IterateDirTree`, the two sort
  orders) do on such paths, in terms of the key.
-/
namespace BFS

def kc (k : Key) : CPath := ⟨true, k⟩

theorem kp_eq_render (k : Key) : kp k = (kc k).render := by simp [kp, kc, CPath.render]

theorem kp_nil : kp [] = rootP := rfl

theorem Plain.nameOK {n : Name} (h : Plain n) : NameOK n := ⟨h.1, h.2.1⟩

theorem PKey.nameOK {k : Key} (h : PKey k) : ∀ n ∈ k, NameOK n := fun n hn => (h n hn).nameOK

theorem PKey.canon {k : Key} (h : PKey k) : (kc k).Canon := by
  refine ⟨fun n hn => ⟨(h n hn).nameOK, (h n hn).2.2.1⟩, ?_, fun _ hd => (h _ hd).2.2.2 rfl⟩
  unfold DDLeading
  apply List.Pairwise.imp_of_mem (R := fun _ _ => True)
  · intro a b _ hb _ _ e
    exact (h b hb).2.2.2 e
  · simp [List.pairwise_iff_forall_sublist]

theorem PKey.nil : PKey [] := fun _ h => by cases h

theorem PKey.append {a b : Key} (ha : PKey a) (hb : PKey b) : PKey (a ++ b) := by
  intro n hn
  rcases List.mem_append.mp hn with h | h
  · exact ha n h
  · exact hb n h

theorem PKey.snoc {a : Key} {n : Name} (ha : PKey a) (hn : Plain n) : PKey (a ++ [n]) :=
  ha.append (fun m hm => by simp at hm; subst hm; exact hn)

theorem PKey.of_prefix {a k : Key} (hk : PKey k) (h : a <+: k) : PKey a := by
  obtain ⟨t, rfl⟩ := h
  exact fun n hn => hk n (List.mem_append_left _ hn)

theorem PKey.dropLast {k : Key} (hk : PKey k) : PKey k.dropLast :=
  hk.of_prefix (List.dropLast_prefix k)

theorem cleanC_kp {k : Key} (h : PKey k) : cleanC (kp k) = kc k := by
  rw [kp_eq_render]; exact cleanC_render h.canon

theorem clean_kp {k : Key} (h : PKey k) : clean (kp k) = kp k := by
  unfold clean; rw [cleanC_kp h, kp_eq_render]

theorem isClean_kp {k : Key} (h : PKey k) : IsClean (kp k) := clean_kp h

/-- `HiddenFS.RemoveAll` cleans its name first; a key path is in cleaned form already -/
theorem rmName_kp {k : Key} (h : PKey k) : rmName (kp k) = kp k := by
  unfold rmName
  split
  · rfl
  · exact clean_kp h

theorem comps_kp {k : Key} (h : PKey k) : comps (kp k) = k := comps_render_rooted h.nameOK

theorem kp_inj {a b : Key} (ha : PKey a) (hb : PKey b) (h : kp a = kp b) : a = b := by
  have := congrArg comps h
  rwa [comps_kp ha, comps_kp hb] at this

theorem kp_ne_nil (k : Key) : kp k ≠ [] := by simp [kp]

theorem isRooted_kp (k : Key) : isRooted (kp k) = true := by simp [kp, isRooted]

/-- every absolute name cleans to the path of a key -/
theorem clean_abs {name : Path} (h : isAbs name = true) : ∃ k, PKey k ∧ clean name = kp k := by
  have hc := cleanC_canon name
  have hr : (cleanC name).rooted = true := h
  refine ⟨(cleanC name).comps, ?_, ?_⟩
  · intro n hn
    have := hc.ok n hn
    refine ⟨this.1.1, this.1.2, this.2, ?_⟩
    intro e
    exact hc.rootedNoDD hr (e ▸ hn)
  · unfold clean CPath.render
    simp [hr, kp]

theorem iterateDirTree_kp {k : Key} (h : PKey k) :
    iterateDirTree (kp k) = rootP :: (inits1 k).map kp := by
  rw [iterateDirTree_clean (isClean_kp h)]
  unfold chain
  rw [isRooted_kp, comps_kp h]
  simp only [if_true]
  rfl

theorem mem_inits1_iff {α} {cs l : List α} : l ∈ inits1 cs ↔ l ≠ [] ∧ l <+: cs := by
  constructor
  · intro h
    obtain ⟨h1, t, ht⟩ := mem_inits1 h
    exact ⟨h1, t, ht.symm⟩
  · intro ⟨hne, t, ht⟩
    induction cs generalizing l with
    | nil =>
      have : l = [] := by simpa using List.append_eq_nil_iff.mp ht |>.1
      exact absurd this hne
    | cons x xs ih =>
      cases l with
      | nil => exact absurd rfl hne
      | cons y ys =>
        simp only [List.cons_append, List.cons.injEq] at ht
        obtain ⟨rfl, ht⟩ := ht
        simp only [inits1, List.mem_cons, List.mem_map]
        by_cases hys : ys = []
        · left; simp [hys]
        · right; exact ⟨ys, ih hys ht, rfl⟩

/-- the paths `IterateDirTree` visits are exactly the paths of the prefixes of the key -/
theorem mem_iterateDirTree_kp {k : Key} (h : PKey k) {p : Path} :
    p ∈ iterateDirTree (kp k) ↔ ∃ a, a <+: k ∧ p = kp a := by
  rw [iterateDirTree_kp h]
  simp only [List.mem_cons, List.mem_map]
  constructor
  · rintro (rfl | ⟨a, ha, rfl⟩)
    · exact ⟨[], List.nil_prefix, rfl⟩
    · exact ⟨a, (mem_inits1_iff.mp ha).2, rfl⟩
  · rintro ⟨a, ha, rfl⟩
    by_cases hne : a = []
    · left; rw [hne]; rfl
    · right; exact ⟨a, mem_inits1_iff.mpr ⟨hne, ha⟩, rfl⟩

theorem joinSep_snoc {ns : List Name} (hne : ns ≠ []) (n : Name) :
    joinSep (ns ++ [n]) = joinSep ns ++ '/' :: n := by
  induction ns with
  | nil => exact absurd rfl hne
  | cons a as ih =>
    cases as with
    | nil => simp [joinSep]
    | cons b bs =>
      have := ih (by simp)
      simp only [List.cons_append] at this ⊢
      rw [joinSep_cons_cons, this, joinSep_cons_cons]
      simp

theorem kp_snoc (ns : List Name) (n : Name) :
    kp (ns ++ [n]) = (if ns = [] then [] else kp ns) ++ '/' :: n := by
  by_cases h : ns = []
  · subst h; simp [kp, joinSep]
  · simp only [h, if_false, kp]
    rw [joinSep_snoc h]
    simp

theorem uptoLastSep_sepfree : ∀ (n : Name), '/' ∉ n → uptoLastSep n = []
  | [], _ => rfl
  | c :: cs, h => by
    have hc : c ≠ '/' := by intro e; apply h; simp [e]
    have := uptoLastSep_sepfree cs (by intro h'; apply h; simp [h'])
    simp [uptoLastSep, this, hc]

theorem uptoLastSep_append (x : Path) (n : Name) (hn : '/' ∉ n) :
    uptoLastSep (x ++ '/' :: n) = x ++ ['/'] := by
  induction x with
  | nil => simp [uptoLastSep, uptoLastSep_sepfree n hn]
  | cons c cs ih =>
    simp only [List.cons_append, uptoLastSep, ih]
    simp

theorem clean_trailing_sep {k : Key} (h : PKey k) (hne : k ≠ []) : clean (kp k ++ ['/']) = kp k := by
  have h1 : cleanC (kp k ++ ['/']) = cleanC (kp k) := by
    unfold cleanC
    have : kp k ++ ['/'] = kp k ++ '/' :: [] := rfl
    rw [this, splitSep_append, isRooted_append _ (kp_ne_nil k)]
    simp [splitSep, List.foldl_append, cleanStep]
  unfold clean
  rw [h1, cleanC_kp h, kp_eq_render]

theorem dir_kp {k : Key} (h : PKey k) : dir (kp k) = kp k.dropLast := by
  unfold dir
  rcases List.eq_nil_or_concat k with rfl | ⟨ns, n, hk⟩
  · decide
  · rw [List.concat_eq_append] at hk
    subst hk
    have hn : Plain n := h n (by simp)
    have hns : PKey ns := h.of_prefix ⟨[n], rfl⟩
    rw [kp_snoc, uptoLastSep_append _ _ hn.2.1]
    simp only [List.dropLast_concat]
    by_cases hnil : ns = []
    · subst hnil; decide
    · simp only [hnil, if_false]
      exact clean_trailing_sep hns hnil

theorem cleanStep_plain {r : Bool} {st : List Name} {n : Name} (h : Plain n) :
    cleanStep r st n = n :: st := by
  unfold cleanStep
  simp [h.1, h.2.2.1, h.2.2.2]

theorem join_kp {k : Key} {n : Name} (h : PKey k) (hn : Plain n) : join (kp k) n = kp (k ++ [n]) := by
  have hne := kp_ne_nil k
  have key : cleanC (join (kp k) n) = kc (k ++ [n]) := by
    rw [cleanC_join _ hne, cleanC_kp h, splitSep_sepfree_eq n hn.2.1, isRooted_kp]
    simp [kc, cleanStep_plain hn]
  rw [← join_clean_is_clean _ _ hne]
  unfold clean
  rw [key, kp_eq_render]

/-! ### the sort orders on key paths -/

theorem sepKey_kp {k : Key} (h : PKey k) : sepKey (kp k) = if k = [] then 0 else k.length + 1 := by
  by_cases hne : k = []
  · subst hne; decide
  · simp only [hne, if_false]
    exact sepKey_rooted hne h.nameOK

theorem lessFPS_kp_of_length_lt {a b : Key} (ha : PKey a) (hb : PKey b) (h : a.length < b.length) :
    lessFPS (kp a) (kp b) = true := by
  apply lessFPS_of_sepKey_lt
  rw [sepKey_kp ha, sepKey_kp hb]
  have hbne : b ≠ [] := by intro e; subst e; simp at h
  simp only [hbne, if_false]
  split <;> omega

/-- in deepest-first order, an earlier path is never shorter than a later one -/
theorem sortMost_kp_pairwise (l : List Path) :
    (sortMost l).Pairwise (fun p q => ∀ a b, PKey a → PKey b → p = kp a → q = kp b → b.length ≤ a.length) := by
  have := sortBy_pairwise (strictTotal_flip strictTotal_lessFPS) l
  refine this.imp ?_
  intro p q hle a b ha hb hp hq
  subst hp hq
  unfold leOf at hle
  simp only at hle
  apply Classical.byContradiction
  intro hlt
  rw [lessFPS_kp_of_length_lt ha hb (by omega)] at hle
  cases hle

/-- in shallowest-first order, an earlier path is never longer than a later one -/
theorem sortLeast_kp_pairwise (l : List Path) :
    (sortLeast l).Pairwise (fun p q => ∀ a b, PKey a → PKey b → p = kp a → q = kp b → a.length ≤ b.length) := by
  have := sortBy_pairwise strictTotal_lessFPS l
  refine this.imp ?_
  intro p q hle a b ha hb hp hq
  subst hp hq
  unfold leOf at hle
  apply Classical.byContradiction
  intro hlt
  rw [lessFPS_kp_of_length_lt hb ha (by omega)] at hle
  cases hle

end BFS
