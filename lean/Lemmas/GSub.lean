import Lemmas.GTx
/-!
  Lemmas/GSub.lean — on flat disks the through-flat-links fragment CONTAINS the symlink-leaves
  fragment: when no proper ancestor of the cleaned key is a symlink, `realPath` resolves it to itself
  (`rk_id`), so an operation covered by `L.Op.Covered` on a `Flat` disk is covered by
  `G.Op.Covered` (`covered_of_L`).
-/
namespace BFS
namespace L
namespace G
open BackupFS F16

/-- without a symlink among the proper ancestors the key-level resolver is the identity -/
theorem resK_id {bk : Key} {m : MFS} : ∀ (S : List Name) (D : Key), L.NoLinkProper m (bk ++ (D ++ S)) →
    resK m bk D S = D ++ S
  | [], D, _ => by simp [resK]
  | [s], D, _ => resK_single D s
  | s :: s' :: S, D, h => by
    have hne : s' :: S ≠ [] := by simp
    cases hk : m.get (bk ++ D ++ [s]) with
    | none => exact resK_none hk
    | some n =>
      cases n with
      | file ct mt => exact resK_file hk
      | dir mt =>
        rw [resK_dir hne hk, resK_id (s' :: S) (D ++ [s]) (by simpa using h)]
        simp
      | link t mt =>
        exfalso
        refine h (bk ++ D ++ [s]) ⟨s' :: S, by simp⟩ ?_ t mt hk
        intro e
        have := congrArg List.length e
        simp at this

section
variable {bk kk : Key} {hbk : PKey bk} {hkk : PKey kk} {hne1 : bk ≠ []} {hne2 : kk ≠ []}
  {hd1 : ¬ bk <+: kk} {hd2 : ¬ kk <+: bk}

theorem rk_id {w : World} (hg : OSGoodL bk kk w.fs) {k : Key}
    (hacc : NoLinkAnc ((osSimL bk kk hbk hkk hne1 hne2 hd1 hd2).view .base w.fs) k) : rk bk w k = k := by
  have h : NoLinkProper w.fs (bk ++ ([] ++ k)) := noLinkProper_of_view (s := .base) hg hacc
  unfold rk
  rw [resK_id k [] h]
  rfl

/-- on a flat well-formed disk, what the symlink-leaves theorem covers the through-flat-links
theorem covers too -/
theorem covered_of_L {w : World} (hg : OSGoodL bk kk w.fs) (hflat : Flat bk w.fs) {op : Op}
    (hc : L.Op.Covered (osSimL bk kk hbk hkk hne1 hne2 hd1 hd2) w op) :
    Op.Covered bk (osSimL bk kk hbk hkk hne1 hne2 hd1 hd2) w op := by
  cases op with
  | creat p d => exact ⟨hc.1, hflat, fun k hk e => by rw [rk_id hg (hc.2 k hk e).1]; exact (hc.2 k hk e).2⟩
  | mkdirAll p m => exact ⟨hc.1, hflat, fun k hk e => by rw [rk_id hg (hc.2 k hk e).1]; exact (hc.2 k hk e).2⟩
  | chmod p m => exact ⟨hc.1, hflat, fun k hk e => by rw [rk_id hg (hc.2 k hk e).1]; exact (hc.2 k hk e).2⟩
  | chown p u g => exact ⟨hc.1, hflat, fun k hk e => by rw [rk_id hg (hc.2 k hk e).1]; exact (hc.2 k hk e).2⟩
  | chtimes p t => exact ⟨hc.1, hflat, fun k hk e => by rw [rk_id hg (hc.2 k hk e).1]; exact (hc.2 k hk e).2⟩
  | write p f pm d =>
    rcases hc with h | ⟨habs, h⟩
    · exact Or.inl h
    · exact Or.inr ⟨habs, hflat, fun k hk e => by rw [rk_id hg (h k hk e).1]; exact (h k hk e).2⟩
  | mkdir p m => exact ⟨hc.1, hflat, fun k hk e => by rw [rk_id hg (hc.2 k hk e).1]; exact (hc.2 k hk e).2⟩
  | lchown p u g => exact ⟨hc.1, hflat, fun k hk e => by rw [rk_id hg (hc.2 k hk e).1]; exact (hc.2 k hk e).2⟩
  | remove p =>
    exact ⟨hc.1, hc.2.1, hflat, fun k hk e => by rw [rk_id hg (hc.2.2 k hk e).1]; exact (hc.2.2 k hk e).2⟩
  | removeAll p =>
    exact ⟨hc.1, hc.2.1, hflat, fun k hk e => by rw [rk_id hg (hc.2.2 k hk e).1]; exact (hc.2.2 k hk e).2⟩
  | rename o n =>
    refine ⟨hc.1, hc.2.1, hflat, ?_⟩
    intro ko kn hko hkn eo en
    obtain ⟨hro, hrn, hleaf, hnb⟩ := hc.2.2 ko kn hko hkn eo en
    rw [rk_id hg hro.1, rk_id hg hrn.1]
    exact ⟨hro.2, hrn.2, hleaf, hnb⟩
  | symlink o n =>
    refine ⟨hc.1, hflat, ?_⟩
    intro kn hkn en
    obtain ⟨hrn, hnb⟩ := hc.2 kn hkn en
    rw [rk_id hg hrn.1]
    exact ⟨hrn.2, hnb⟩
  | stat p => trivial
  | lstat p => trivial
  | readlink p => trivial
  | force p => exact hc

end

end G
end L
end BFS
