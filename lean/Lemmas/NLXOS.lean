import Lemmas.NLXOps
import Lemmas.NLBOS
import Lemmas.LXOS
/-!
  Lemmas/NLXOS.lean — the one fact about the filesystems that the exactness invariant `NL.InvX` needs
  beyond the contract `NL.Sim`, for the NESTED (README) layering over the OS model: `MkdirAll` returns
  no value (`NL.MkdirAllUnit`).  Both sides either refuse before the inner call or forward a `MkdirAll`
  to the inner `PrefixFS(root)` over the OS (`L.prefixFS_mkdirAll_unit`, Lemmas/LXOS.lean), and neither
  `HiddenFS` nor `PrefixFS(loc)` post-processes a unit result.
-/
namespace BFS
namespace NL
open N

theorem hidden_tr_mkdirAll {hs : List Path} {p : Path} {perm : Nat} {c' : Call}
    (htr : HiddenFS.translate hs (.mkdirAll p perm) = .ok c') : c' = .mkdirAll p perm := by
  simp only [HiddenFS.translate, bind, Except.bind, pure, Except.pure] at htr
  split at htr
  · cases htr
  · cases htr; rfl

theorem prefix_tr_mkdirAll {ps : Path} {p : Path} {perm : Nat} {c' : Call}
    (htr : PrefixFS.translate ps (.mkdirAll p perm) = .ok c') : ∃ n', c' = .mkdirAll n' perm := by
  simp only [PrefixFS.translate, bind, Except.bind, pure, Except.pure] at htr
  cases hpp : PrefixFS.prefixPath ps p with
  | error e1 => rw [hpp] at htr; cases htr
  | ok np => rw [hpp] at htr; cases htr; exact ⟨_, rfl⟩

theorem inner_mkdirAll_unit {bk dd : Key} {m : MFS} {p : Path} {perm : Nat} {ret : Ret}
    (h : ((inner bk dd).call m (.mkdirAll p perm)).2 = .ok ret) : ret = .unit := by
  have he : inner bk dd = prefixFS (kp bk) osfs := side_eq bk dd .base
  rw [he] at h
  exact L.prefixFS_mkdirAll_unit (kp bk) (m := m) (m' := ((prefixFS (kp bk) osfs).call m (.mkdirAll p perm)).1)
    (Prod.ext rfl h)

/-- in the nested layering `MkdirAll` returns no value (either side, any arguments) -/
theorem nlMkdirAllUnit (bk hk : Key) : MkdirAllUnit (nestedCfg bk hk) := by
  intro s m p perm m' ret h
  cases s with
  | base =>
    rw [side_base (dd := bk), hiddenFS_call _ _ _ _ (fun n hn => by cases hn)] at h
    cases htr : HiddenFS.translate (HiddenFS.mk [kp hk]) (.mkdirAll p perm) with
    | error e' => rw [htr] at h; cases h
    | ok c' =>
      rw [htr] at h
      simp only at h
      have hc := hidden_tr_mkdirAll htr
      subst hc
      obtain ⟨_, h2⟩ := Prod.mk.inj h
      cases hx : ((inner bk bk).call m (.mkdirAll p perm)).2 with
      | error e1 => rw [hx] at h2; cases h2
      | ok r0 =>
        rw [hx] at h2
        have := inner_mkdirAll_unit hx
        subst this
        simp only [Except.map, Except.ok.injEq] at h2
        rw [← h2]; rfl
  | backup =>
    rw [side_backup (dd := bk), prefixFS_call_gen] at h
    cases htr : PrefixFS.translate (PrefixFS.mk (kp hk)) (.mkdirAll p perm) with
    | error e' => rw [htr] at h; cases h
    | ok c' =>
      rw [htr] at h
      simp only at h
      obtain ⟨n', hc⟩ := prefix_tr_mkdirAll htr
      subst hc
      obtain ⟨_, h2⟩ := Prod.mk.inj h
      cases hx : ((inner bk bk).call m (.mkdirAll n' perm)).2 with
      | error e1 => rw [hx] at h2; cases h2
      | ok r0 =>
        rw [hx] at h2
        have := inner_mkdirAll_unit hx
        subst this
        simp only [Except.map, Except.ok.injEq] at h2
        rw [← h2]; rfl

end NL
end BFS
