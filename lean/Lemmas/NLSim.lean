import Lemmas.Sat
import Lemmas.KP
/-!
  Lemmas/NLSim.lean — the contract between `BackupFS` and the two filesystems it is built from, for
  trees that contain **symlinks as leaves which are never traversed**, one side of which *masks* part
  of its tree (the `HiddenFS` base of the README layering, `NewWithFS`).

  `NL.Sim cfg` is `L.LSim cfg` (Lemmas/LSim.lean: `Sim` with symlinks in the views) extended exactly as
  `N.Sim` (Lemmas/NSim.lean) extends `Sim`:
  * `Hid s k` — key `k` is a hidden entry or lies below one: the view shows nothing there
    (`hid_none`); the *success* laws for creation (`openW_none`, `mkdirAll_ok`) ask for `¬ Hid`
    (`symlink_ok` needs no extra clause: the side's admission predicate `LinkOK` covers it);
  * `Par s k` — key `k` is a proper ancestor of a hidden entry: it is a directory in every
    well-formed state (`par_dir`), and `remove_ok` asks for `¬ Par`;
  * `removeAll_ok` is dropped (Rollback has not used `RemoveAll` since the C13 fix).
  All frame laws are those of `LSim` verbatim (a refused call changes nothing).

  The file is self-contained: the vocabulary (`isLinkAt`, `NoLinkAnc`, `AccF`, `LinkMono`, `eraseL`,
  `InfoForL`) is re-declared in namespace `BFS.NL` with the bodies of Lemmas/LSim.lean, so that the
  copy of the L-development over this contract (Lemmas/NLChg … NLTx.lean) never mixes the two
  namespaces; the definitions are syntactically those of `BFS.L`, hence interchangeable by `Iff.rfl`
  (used in Lemmas/NLSimOS*.lean).
-/
namespace BFS
namespace NL

def isLinkAt (v : View) (k : Key) : Prop := ∃ t mt, v k = some (.link t mt)

/-- no proper ancestor of `k` is a symlink -/
def NoLinkAnc (v : View) (k : Key) : Prop := ∀ a, a <+: k → a ≠ k → ¬ isLinkAt v a

/-- `k` can be named without traversing or following a symlink -/
def AccF (v : View) (k : Key) : Prop := NoLinkAnc v k ∧ ¬ isLinkAt v k

/-- from `v` to `v'` no symlink appeared and no symlink's target changed -/
def LinkMono (v v' : View) : Prop := ∀ j t mt', v' j = some (.link t mt') → ∃ mt, v j = some (.link t mt)

/-- directory timestamps, and a symlink's timestamp and mode bits, are not part of the view -/
def eraseL : Node → Node
  | .dir m => .dir { m with mtime := .fresh }
  | .link t m => .link t { m with mtime := .fresh, mode := 0o777 }
  | n => n

/-- what a `FileInfo` says about a node: type, permission bits, owner; the modification time of a
regular file (a directory's and a symlink's are erased from the view) -/
def InfoForL (i : Info) (n : Node) : Prop :=
  i.kind = n.kind ∧ i.perm = n.meta.mode ∧ i.uid = n.meta.uid ∧ i.gid = n.meta.gid ∧
    (n.isFile = true → i.mtime = n.meta.mtime)

structure Sim (cfg : Cfg) where
  /-- well-formed disk states: the ones the laws speak about -/
  G : MFS → Prop
  view : Side → MFS → View
  /-- handle `h` of side `s` refers to key `k` -/
  H : Side → Handle → Key → Prop
  /-- side `s` admits `Symlink(t, kp k)` -/
  LinkOK : Side → Key → Path → Prop
  /-- hidden or below a hidden entry -/
  Hid : Side → Key → Prop
  /-- proper ancestor of a hidden entry -/
  Par : Side → Key → Prop
  hid_none : ∀ {m s k}, G m → Hid s k → view s m k = none
  par_dir : ∀ {m s k}, G m → Par s k → (view s m).isDirAt k
  -- static facts of well-formed states
  root_dir : ∀ {m s}, G m → (view s m).isDirAt []
  parent_dir : ∀ {m s k}, G m → view s m k ≠ none → k ≠ [] → (view s m).isDirAt k.dropLast
  pkey : ∀ {m s k}, G m → view s m k ≠ none → PKey k
  mode_lt : ∀ {m s k n}, G m → view s m k = some n → n.meta.mode < 4096
  erased : ∀ {m s k mt}, G m → view s m k = some (.dir mt) → mt.mtime = .fresh
  link_erased : ∀ {m s k t mt}, G m → view s m k = some (.link t mt) → mt.mtime = .fresh ∧ mt.mode = 0o777
  link_canon : ∀ {m s k t mt}, G m → view s m k = some (.link t mt) → clean t = t
  -- read-only calls never change the disk (any argument)
  pure_lstat : ∀ {m s p m' r}, (cfg.side s).call m (.lstat p) = (m', r) → m' = m
  pure_stat : ∀ {m s p m' r}, (cfg.side s).call m (.stat p) = (m', r) → m' = m
  pure_readlink : ∀ {m s p m' r}, (cfg.side s).call m (.readlink p) = (m', r) → m' = m
  pure_open : ∀ {m s p m' r}, (cfg.side s).call m (.open_ p) = (m', r) → m' = m
  pure_openRO : ∀ {m s p perm m' r}, (cfg.side s).call m (.openFile p O_RDONLY perm) = (m', r) → m' = m
  /-- a handle carries the flags it was opened with -/
  openFile_flag : ∀ {m s p flag perm m' h}, (cfg.side s).call m (.openFile p flag perm) = (m', .ok (.handle h)) →
    h.flag = flag
  -- Lstat / Readlink (a final symlink is not followed)
  lstat_some : ∀ {m s k n}, G m → PKey k → view s m k = some n →
    ∃ i, (cfg.side s).call m (.lstat (kp k)) = (m, .ok (.info i)) ∧ InfoForL i n
  lstat_none : ∀ {m s k}, G m → PKey k → NoLinkAnc (view s m) k → view s m k = none →
    ∃ e, (cfg.side s).call m (.lstat (kp k)) = (m, .error e) ∧ e.isNotFound = true
  readlink_link : ∀ {m s k t mt}, G m → PKey k → view s m k = some (.link t mt) →
    (cfg.side s).call m (.readlink (kp k)) = (m, .ok (.str t))
  -- Open (read-only)
  open_some : ∀ {m s k}, G m → PKey k → (view s m).isFileAt k ∨ (view s m).isDirAt k →
    ∃ h, (cfg.side s).call m (.open_ (kp k)) = (m, .ok (.handle h)) ∧ H s h k ∧ h.flag = O_RDONLY
  open_handle : ∀ {m s k m' h}, G m → PKey k → AccF (view s m) k →
    (cfg.side s).call m (.open_ (kp k)) = (m', .ok (.handle h)) → H s h k ∧ h.flag = O_RDONLY
  -- Create / OpenFile: frame for any flags, exact effect for `wflags`
  create_frame : ∀ {m s k m' r}, G m → PKey k → AccF (view s m) k → (cfg.side s).call m (.create (kp k)) = (m', r) →
    G m' ∧ view s.other m' = view s.other m ∧ (∀ j, j ≠ k → view s m' j = view s m j) ∧
      LinkMono (view s m) (view s m') ∧ (∀ h, r = .ok (.handle h) → H s h k ∧ h.flag = wflags)
  openFile_frame : ∀ {m s k flag perm m' r}, G m → PKey k → AccF (view s m) k →
    (cfg.side s).call m (.openFile (kp k) flag perm) = (m', r) →
    G m' ∧ view s.other m' = view s.other m ∧ (∀ j, j ≠ k → view s m' j = view s m j) ∧
      LinkMono (view s m) (view s m') ∧ (∀ h, r = .ok (.handle h) → H s h k)
  openW_file : ∀ {m s k perm c mt}, G m → PKey k → view s m k = some (.file c mt) →
    ∃ m' h, (cfg.side s).call m (.openFile (kp k) wflags perm) = (m', .ok (.handle h)) ∧
      view s m' k = some (.file "" { mt with mtime := .fresh })
  openW_none : ∀ {m s k perm}, G m → PKey k → ¬ Hid s k → view s m k = none → (view s m).parentDir k →
    ∃ m' h mt, (cfg.side s).call m (.openFile (kp k) wflags perm) = (m', .ok (.handle h)) ∧
      view s m' k = some (.file "" mt)
  openW_post : ∀ {m s k perm m' h}, G m → PKey k → AccF (view s m) k →
    (cfg.side s).call m (.openFile (kp k) wflags perm) = (m', .ok (.handle h)) →
    ∃ mt, view s m' k = some (.file "" mt)
  -- handle primitives
  hwrite_ro : ∀ {m s h off d}, MFS.accessMode h.flag = 0 → (cfg.side s).hwrite m h off d = (m, .error .other)
  hwrite_frame : ∀ {m s h k off d m' r}, G m → H s h k → (cfg.side s).hwrite m h off d = (m', r) →
    G m' ∧ view s.other m' = view s.other m ∧ (∀ j, j ≠ k → view s m' j = view s m j) ∧
      LinkMono (view s m) (view s m')
  hwrite_file : ∀ {m s h k off d c mt}, G m → H s h k → MFS.accessMode h.flag ≠ 0 →
    view s m k = some (.file c mt) →
    ∃ m' t, (cfg.side s).hwrite m h off d = (m', .ok ()) ∧
      view s m' k = some (.file (if d.isEmpty then c else MFS.applyWrite h.flag c off d) { mt with mtime := t })
  hread_file : ∀ {m s h k c mt}, G m → H s h k → MFS.accessMode h.flag ≠ 1 →
    view s m k = some (.file c mt) → (cfg.side s).hread m h = .ok c
  hstat_some : ∀ {m s h k n}, G m → H s h k → view s m k = some n →
    ∃ i, (cfg.side s).hstat m h = .ok i ∧ InfoForL i n
  readdir_plain : ∀ {m s h k ns}, G m → H s h k → (cfg.side s).hreaddirnames m h = .ok ns → ∀ n ∈ ns, Plain n
  -- Mkdir (does not follow) / MkdirAll (follows)
  mkdir_frame : ∀ {m s k perm m' r}, G m → PKey k → NoLinkAnc (view s m) k →
    (cfg.side s).call m (.mkdir (kp k) perm) = (m', r) →
    G m' ∧ view s.other m' = view s.other m ∧ (∀ j, j ≠ k → view s m' j = view s m j) ∧
      LinkMono (view s m) (view s m')
  /-- every key is unchanged or was absent and now is a directory -/
  mkdirAll_frame : ∀ {m s k perm m' r}, G m → PKey k → AccF (view s m) k →
    (cfg.side s).call m (.mkdirAll (kp k) perm) = (m', r) →
    G m' ∧ view s.other m' = view s.other m ∧ (∀ j, ¬ j <+: k → view s m' j = view s m j) ∧
      (∀ j, view s m' j = view s m j ∨ (view s m j = none ∧ (view s m').isDirAt j)) ∧
      (r = .ok .unit → (view s m').isDirAt k)
  mkdirAll_ok : ∀ {m s k perm}, G m → PKey k → ¬ Hid s k → k = [] ∨ (view s m).parentDir k →
    view s m k = none ∨ (view s m).isDirAt k →
    ∃ m', (cfg.side s).call m (.mkdirAll (kp k) perm) = (m', .ok .unit) ∧
      (∀ j, j ≠ k → view s m' j = view s m j) ∧ ((view s m).isDirAt k → view s m' k = view s m k)
  -- Remove / RemoveAll (a final symlink is removed, never followed)
  remove_frame : ∀ {m s k m' r}, G m → PKey k → k ≠ [] → NoLinkAnc (view s m) k →
    (cfg.side s).call m (.remove (kp k)) = (m', r) →
    G m' ∧ view s.other m' = view s.other m ∧ (∀ j, j ≠ k → view s m' j = view s m j) ∧
      LinkMono (view s m) (view s m')
  remove_ok : ∀ {m s k}, G m → PKey k → k ≠ [] → ¬ Par s k →
    (view s m).isFileAt k ∨ isLinkAt (view s m) k ∨ ((view s m).isDirAt k ∧ ¬ (view s m).hasChild k) →
    ∃ m', (cfg.side s).call m (.remove (kp k)) = (m', .ok .unit) ∧ view s m' k = none
  removeAll_frame : ∀ {m s k m' r}, G m → PKey k → k ≠ [] → NoLinkAnc (view s m) k →
    (cfg.side s).call m (.removeAll (kp k)) = (m', r) →
    G m' ∧ view s.other m' = view s.other m ∧ (∀ j, ¬ k <+: j → view s m' j = view s m j) ∧
      LinkMono (view s m) (view s m')
  -- Rename (neither path is followed).  When the source is not a non-empty directory: only the two
  -- keys change, the old key holds no new symlink, and a symlink at the new key was there before or
  -- was the source.  An existing directory at the new path is refused.
  rename_frame : ∀ {m s ko kn m' r}, G m → PKey ko → PKey kn → NoLinkAnc (view s m) ko → NoLinkAnc (view s m) kn →
    (cfg.side s).call m (.rename (kp ko) (kp kn)) = (m', r) →
    G m' ∧ view s.other m' = view s.other m ∧
      (¬ ((view s m).isDirAt ko ∧ (view s m).hasChild ko) →
        (∀ j, j ≠ ko → j ≠ kn → view s m' j = view s m j) ∧
        (∀ t mt', view s m' ko = some (.link t mt') → ∃ mt, view s m ko = some (.link t mt)) ∧
        (∀ t mt', view s m' kn = some (.link t mt') →
          (∃ mt, view s m kn = some (.link t mt)) ∨ (∃ mt, view s m ko = some (.link t mt)))) ∧
      ((view s m).isDirAt kn → view s m' = view s m)
  -- metadata: Chmod, Chown, Chtimes follow a final symlink; Lchown does not
  chmod_frame : ∀ {m s k mode m' r}, G m → PKey k → AccF (view s m) k → (cfg.side s).call m (.chmod (kp k) mode) = (m', r) →
    G m' ∧ view s.other m' = view s.other m ∧ (∀ j, j ≠ k → view s m' j = view s m j) ∧
      LinkMono (view s m) (view s m')
  chmod_some : ∀ {m s k mode n}, G m → PKey k → view s m k = some n → n.isLink = false →
    ∃ m', (cfg.side s).call m (.chmod (kp k) mode) = (m', .ok .unit) ∧
      view s m' k = some (n.setMeta { n.meta with mode := mode &&& 0o7777 })
  chown_frame : ∀ {m s k u g m' r}, G m → PKey k → AccF (view s m) k → (cfg.side s).call m (.chown (kp k) u g) = (m', r) →
    G m' ∧ view s.other m' = view s.other m ∧ (∀ j, j ≠ k → view s m' j = view s m j) ∧
      LinkMono (view s m) (view s m')
  chown_some : ∀ {m s k u g n}, G m → PKey k → view s m k = some n → n.isLink = false →
    ∃ m', (cfg.side s).call m (.chown (kp k) u g) = (m', .ok .unit) ∧ view s m' k = some (chownNode n u g)
  /-- `Lchown`: confined to the key; a symlink stays a symlink with the same target -/
  lchown_frame : ∀ {m s k u g m' r}, G m → PKey k → NoLinkAnc (view s m) k →
    (cfg.side s).call m (.lchown (kp k) u g) = (m', r) →
    G m' ∧ view s.other m' = view s.other m ∧ (∀ j, j ≠ k → view s m' j = view s m j) ∧
      LinkMono (view s m) (view s m') ∧
      (∀ t mt, view s m k = some (.link t mt) → ∃ mt', view s m' k = some (.link t mt'))
  lchown_link : ∀ {m s k u g t mt}, G m → PKey k → view s m k = some (.link t mt) →
    ∃ m', (cfg.side s).call m (.lchown (kp k) u g) = (m', .ok .unit) ∧
      view s m' k = some (chownNode (.link t mt) u g)
  chtimes_frame : ∀ {m s k a t m' r}, G m → PKey k → AccF (view s m) k → (cfg.side s).call m (.chtimes (kp k) a t) = (m', r) →
    G m' ∧ view s.other m' = view s.other m ∧ (∀ j, j ≠ k → view s m' j = view s m j) ∧
      LinkMono (view s m) (view s m')
  chtimes_file : ∀ {m s k a t c mt}, G m → PKey k → view s m k = some (.file c mt) →
    ∃ m', (cfg.side s).call m (.chtimes (kp k) a t) = (m', .ok .unit) ∧
      view s m' k = some (.file c { mt with mtime := t })
  chtimes_dir : ∀ {m s k a t}, G m → PKey k → (view s m).isDirAt k →
    ∃ m', (cfg.side s).call m (.chtimes (kp k) a t) = (m', .ok .unit) ∧ view s m' k = view s m k
  -- Symlink (the new path is not followed): confined to the key for any target text; for a target
  -- text that is a `Readlink` result (cleaned), success means the key now is a symlink with exactly
  -- that text, and the call succeeds when the side admits it, the key is absent and its parent is
  -- a directory
  symlink_frame : ∀ {m s k t m' r}, G m → PKey k → NoLinkAnc (view s m) k →
    (cfg.side s).call m (.symlink t (kp k)) = (m', r) →
    G m' ∧ view s.other m' = view s.other m ∧ (∀ j, j ≠ k → view s m' j = view s m j)
  symlink_post : ∀ {m s k t m' ret}, G m → PKey k → NoLinkAnc (view s m) k → clean t = t →
    (cfg.side s).call m (.symlink t (kp k)) = (m', .ok ret) →
    ∃ mt', view s m' k = some (.link t mt')
  symlink_ok : ∀ {m s k t}, G m → PKey k → clean t = t → LinkOK s k t → view s m k = none →
    (view s m).parentDir k → ∃ m', (cfg.side s).call m (.symlink t (kp k)) = (m', .ok .unit)

end NL
end BFS
