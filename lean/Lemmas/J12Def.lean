import Model.Restart
/-! the definitions live in Model/Restart.lean (executed by the driver) -/
