import Lemmas.PNStr
/-!
  Lemmas/PNName.lean — what `PrefixFS.reportedName` (prefixfs_file.go `newPrefixFile`,
  prefixfs_file_info.go `newPrefixFileInfo`) yields on the prefixed path of a name that stays inside,
  for EVERY stored prefix `pre` (a cleaned string: `PrefixFS.mk p = clean p`) and every name string.
-/
namespace BFS
namespace PN
open PrefixFS

/-- the prefix has at least one component: it is neither `/` nor `.` -/
def HasComp (pre : Path) : Prop := (cleanC pre).comps ≠ []

instance (pre : Path) : Decidable (HasComp pre) := inferInstanceAs (Decidable (_ ≠ _))

/-- the cleaned, rooted form of a name (`/` + the components that survive cleaning): the name under
which the caller reaches the entry, as PrefixFS sees it -/
def rootedName (n : Path) : Path := join rootP (clean n)

/-- the component sequence of `pre` occurs contiguously among the components of `s` -/
def Mentions (pre s : Path) : Prop := (cleanC pre).comps <:+: (cleanC s).comps

instance (pre s : Path) : Decidable (Mentions pre s) := inferInstanceAs (Decidable (_ <:+: _))

theorem rootP_ne_nil : rootP ≠ [] := by decide

theorem staysInside_of_comps_nil {n : Path} (h : (cleanC n).comps = []) : StaysInside n := by
  unfold StaysInside; rw [h]; simp

/-! ### the rooted name -/

theorem cleanC_rootedName {n : Path} (hs : StaysInside n) :
    cleanC (rootedName n) = ⟨true, (cleanC n).comps⟩ := by
  unfold rootedName
  rw [cleanC_join_clean rootP_ne_nil hs]
  rfl

theorem clean_rootedName (n : Path) : clean (rootedName n) = rootedName n :=
  join_clean_is_clean _ _ rootP_ne_nil

theorem rootedName_eq {n : Path} (hs : StaysInside n) :
    rootedName n = '/' :: joinSep (cleanC n).comps := by
  rw [eq_render_of_clean (clean_rootedName n), cleanC_rootedName hs, render_rooted]

theorem staysInside_rootedName {n : Path} (hs : StaysInside n) : StaysInside (rootedName n) := by
  unfold StaysInside
  rw [cleanC_rootedName hs]
  exact hs

theorem isAbs_rootedName (n : Path) : isAbs (rootedName n) = true := by
  unfold rootedName isAbs
  rw [isRooted_join_left _ rootP_ne_nil]
  rfl

/-! ### the prefixed path `join pre (clean n)` as a string -/

theorem cleanC_self (pre : Path) : cleanC pre = ⟨isRooted pre, (cleanC pre).comps⟩ := rfl

theorem pre_ne_nil {pre : Path} (hpc : clean pre = pre) : pre ≠ [] := by
  rw [← hpc]; exact clean_ne_nil pre

theorem pre_eq_render {pre : Path} (hpc : clean pre = pre) :
    pre = CPath.render ⟨isRooted pre, (cleanC pre).comps⟩ := eq_render_of_clean hpc

theorem cleanC_prefixed {pre n : Path} (hpc : clean pre = pre) (hs : StaysInside n) :
    cleanC (join pre (clean n)) = ⟨isRooted pre, (cleanC pre).comps ++ (cleanC n).comps⟩ :=
  cleanC_join_clean (pre_ne_nil hpc) hs

theorem prefixed_eq_render {pre n : Path} (hpc : clean pre = pre) (hs : StaysInside n) :
    join pre (clean n) = CPath.render ⟨isRooted pre, (cleanC pre).comps ++ (cleanC n).comps⟩ := by
  rw [eq_render_of_clean (join_clean_is_clean pre (clean n) (pre_ne_nil hpc)), cleanC_prefixed hpc hs]

/-- a name that cleans to the root (`/`, ``, `.`, `//.`, …) is handed down as the prefix itself -/
theorem prefixed_root {pre n : Path} (hpc : clean pre = pre) (hn : (cleanC n).comps = []) :
    join pre (clean n) = pre := by
  rw [prefixed_eq_render hpc (staysInside_of_comps_nil hn), hn, List.append_nil]
  exact (pre_eq_render hpc).symm

/-- … every other name as `pre + "/" + its cleaned components` -/
theorem prefixed_below {pre n : Path} (hpc : clean pre = pre) (hc : HasComp pre) (hs : StaysInside n)
    (hn : (cleanC n).comps ≠ []) :
    join pre (clean n) = pre ++ '/' :: joinSep (cleanC n).comps := by
  rw [prefixed_eq_render hpc hs, render_append hc hn]
  congr 1

theorem prefixed_ne {pre n : Path} (hpc : clean pre = pre) (hs : StaysInside n)
    (hn : (cleanC n).comps ≠ []) : join pre (clean n) ≠ pre := by
  intro e
  have h1 := cleanC_prefixed hpc hs
  rw [e, cleanC_self pre] at h1
  have h2 : (cleanC pre).comps = (cleanC pre).comps ++ (cleanC n).comps := congrArg CPath.comps h1
  exact hn (List.self_eq_append_right.mp h2)

/-- re-entering the rooted name through the same prefix gives the same prefixed path -/
theorem prefixed_rootedName {pre n : Path} (hpc : clean pre = pre) (hs : StaysInside n) :
    join pre (clean (rootedName n)) = join pre (clean n) := by
  apply eq_of_cleanC_eq (join_clean_is_clean _ _ (pre_ne_nil hpc)) (join_clean_is_clean _ _ (pre_ne_nil hpc))
  rw [cleanC_prefixed hpc hs, cleanC_prefixed hpc (staysInside_rootedName hs), cleanC_rootedName hs]

/-! ### `reportedName` on handles: the base object reports the path it was opened with -/

/-- prefix with at least one component: the handle's name is the rooted cleaned name -/
theorem reportedName_handle {pre n : Path} (hpc : clean pre = pre) (hc : HasComp pre) (hs : StaysInside n) :
    reportedName pre (join pre (clean n)) (join pre (clean n)) = rootedName n := by
  by_cases hn : (cleanC n).comps = []
  · rw [prefixed_root hpc hn, rootedName_eq hs, hn]
    unfold reportedName
    simp only [if_true]
    rfl
  · have hne := prefixed_ne hpc hs hn
    rw [rootedName_eq hs]
    unfold reportedName
    rw [if_neg hne]
    rw [prefixed_below hpc hc hs hn, hasPrefix_append, trimPrefix_append]
    have hp := pre_ne_nil hpc
    simp [hp]

/-- prefix `/`: the handle's name is the rooted cleaned name WITHOUT its leading separator (the
root itself: `/`) -/
theorem reportedName_handle_rootprefix {n : Path} (hs : StaysInside n) :
    reportedName rootP (join rootP (clean n)) (join rootP (clean n)) =
      if (cleanC n).comps = [] then rootP else joinSep (cleanC n).comps := by
  have hr : join rootP (clean n) = rootedName n := rfl
  rw [hr, rootedName_eq hs]
  by_cases hn : (cleanC n).comps = []
  · rw [if_pos hn, hn]
    decide
  · rw [if_neg hn]
    have hj := joinSep_ne_nil hn (cleanC_NF n)
    unfold reportedName
    have hne : ('/' :: joinSep (cleanC n).comps) ≠ rootP := by
      intro e
      apply hj
      unfold rootP at e
      exact (List.cons.inj e).2
    rw [if_neg hne]
    have : '/' :: joinSep (cleanC n).comps = rootP ++ joinSep (cleanC n).comps := rfl
    rw [this, hasPrefix_append, trimPrefix_append]
    simp [hj, rootP_ne_nil]

/-! ### `reportedName` on infos: the base object reports `Base` of the path it was given -/

/-- the root's info is named by the separator, whatever the base object reports -/
theorem reportedName_root {pre n : Path} (hpc : clean pre = pre) (hn : (cleanC n).comps = [])
    (baseName : Path) : reportedName pre (join pre (clean n)) baseName = rootP := by
  rw [prefixed_root hpc hn]
  unfold reportedName
  simp only [if_true]
  rfl

theorem base_prefixed {pre n : Path} (hpc : clean pre = pre) (hs : StaysInside n)
    (hn : (cleanC n).comps ≠ []) :
    base (join pre (clean n)) = (cleanC n).comps.getLast hn := by
  rw [prefixed_eq_render hpc hs]
  have hne : (cleanC pre).comps ++ (cleanC n).comps ≠ [] := by simp [hn]
  rw [base_render hne]
  · exact List.getLast_append_of_ne_nil _ hn
  · intro x hx
    rcases List.mem_append.mp hx with h | h
    · exact cleanC_NF pre x h
    · exact cleanC_NF n x h

theorem base_clean {n : Path} (hn : (cleanC n).comps ≠ []) :
    base (clean n) = (cleanC n).comps.getLast hn := by
  unfold clean
  exact base_render hn (cleanC_NF n)

/-- a stored prefix that contains a separator (every absolute prefix; a relative one with at least
two components): the info of every entry but the root keeps the name the base object reports, the
last component of the cleaned name -/
theorem reportedName_info {pre n : Path} (hpc : clean pre = pre) (hsep : '/' ∈ pre) (hs : StaysInside n)
    (hn : (cleanC n).comps ≠ []) :
    reportedName pre (join pre (clean n)) (base (join pre (clean n))) = base (join pre (clean n)) := by
  have hne := prefixed_ne hpc hs hn
  unfold reportedName
  rw [if_neg hne]
  have hb := base_prefixed hpc hs hn
  have hok : NameOK ((cleanC n).comps.getLast hn) := cleanC_NF n _ (List.getLast_mem hn)
  rw [hb, hasPrefix_name_false hok hsep]
  simp

/-! ### `reportedInfoName` (since the repair of D26 `newPrefixFileInfo` overrides the root's name only) -/

theorem reportedInfoName_root {pre n : Path} (hpc : clean pre = pre) (hn : (cleanC n).comps = [])
    (baseName : Path) : reportedInfoName pre (join pre (clean n)) baseName = rootP := by
  rw [prefixed_root hpc hn]
  unfold reportedInfoName
  simp only [if_true]

/-- every prefix, relative ones included: the info of every entry but the root keeps the name the base
object reports -/
theorem reportedInfoName_info {pre n : Path} (hpc : clean pre = pre) (hs : StaysInside n)
    (hn : (cleanC n).comps ≠ []) (baseName : Path) :
    reportedInfoName pre (join pre (clean n)) baseName = baseName := by
  have hne := prefixed_ne hpc hs hn
  unfold reportedInfoName
  rw [if_neg hne]

/-! ### the rooted name again: `Base`, re-entering it, mentioning -/

theorem base_rootedName {n : Path} (hs : StaysInside n) (hn : (cleanC n).comps ≠ []) :
    base (rootedName n) = (cleanC n).comps.getLast hn := by
  rw [eq_render_of_clean (clean_rootedName n), cleanC_rootedName hs]
  exact base_render hn (cleanC_NF n)

theorem base_rootedName_root {n : Path} (hn : (cleanC n).comps = []) : base (rootedName n) = rootP := by
  rw [rootedName_eq (staysInside_of_comps_nil hn), hn]
  decide

/-- joining the rooted name below the prefix gives the prefixed path of the name -/
theorem join_rootedName {pre n : Path} (hpc : clean pre = pre) (hs : StaysInside n) :
    join pre (rootedName n) = join pre (clean n) := by
  have := prefixed_rootedName hpc hs
  rw [clean_rootedName] at this
  exact this

/-- an entry name that is neither `.` nor `..` is its own cleaned form -/
theorem cleanC_name {b : Name} (hb : NameOK b) (hd : b ≠ dot) : cleanC b = ⟨false, [b]⟩ := by
  have hc : CPath.Canon ⟨false, [b]⟩ :=
    { ok := by intro n hn; rw [List.mem_singleton.mp hn]; exact ⟨hb, hd⟩
      lead := by unfold DDLeading; simp
      rootedNoDD := by intro h; cases h }
  have := cleanC_render hc
  rw [render_unrooted (by simp)] at this
  exact this

theorem infix_singleton {α} {l : List α} {b : α} (h : l <:+: [b]) (hl : l ≠ []) : l = [b] := by
  obtain ⟨s, t, e⟩ := h
  cases l with
  | nil => exact absurd rfl hl
  | cons x xs =>
    cases s with
    | nil =>
      simp only [List.nil_append, List.cons_append, List.cons.injEq] at e
      obtain ⟨rfl, e2⟩ := e
      have : xs = [] := (List.append_eq_nil_iff.mp e2).1
      rw [this]
    | cons y ys =>
      simp only [List.cons_append, List.cons.injEq] at e
      have := e.2
      simp at this

theorem singleton_infix_of_mem {α} {l : List α} {b : α} (h : b ∈ l) : [b] <:+: l := by
  obtain ⟨s, t, e⟩ := List.append_of_mem h
  exact ⟨s, t, by rw [e]; simp⟩

/-- if the prefix (with at least one component) occurs in a single entry name's component form, the
name is the prefix's only component, and whoever has that name among the components mentions it -/
theorem mentions_of_last {pre n : Path} (hc : HasComp pre)
    (hn : (cleanC n).comps ≠ [])
    (hm : Mentions pre ((cleanC n).comps.getLast hn)) : Mentions pre n := by
  have hmem := List.getLast_mem hn
  have hok := (cleanC_canon n).ok _ hmem
  unfold Mentions at hm ⊢
  rw [cleanC_name hok.1 hok.2] at hm
  rw [infix_singleton hm hc]
  exact singleton_infix_of_mem hmem

theorem not_mentions_root {pre : Path} (hc : HasComp pre) : ¬ Mentions pre rootP := by
  intro hm
  unfold Mentions at hm
  have : (cleanC rootP).comps = [] := by decide
  rw [this] at hm
  exact hc (List.eq_nil_of_infix_nil hm)

end PN
end BFS
