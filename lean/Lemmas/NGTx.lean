import Lemmas.NGOps
import Lemmas.NG16Loop
import Lemmas.NLTx
import Lemmas.NLSimOS
/-!
  Lemmas/NGTx.lean (Lemmas/GTx.lean retargeted to the nested layering) — names through FLAT VISIBLE links
  in the README / `NewWithFS` layering `N.nestedCfg bk hk`: the covered-operation predicate `NL.G.Op.Covered`
  (= `NL.Op.Covered` of Lemmas/NLOps.lean demanded of the RESOLVED key `NG.rkN bk hk w k = NG.resN w.fs bk hk [] k`),
  "every covered operation keeps the transaction invariant `NL.Inv`" for the instance `NL.nlSim`, histories,
  transactions.  Rollback never resolves a name (it works on tracked keys), so the Rollback half is that of
  Lemmas/NLRestore.lean / NLTx.lean, verbatim.
-/
namespace BFS
namespace NL
namespace G
open BackupFS F16 NG N

/-- if the (resolved) key currently is a symlink — and is therefore going to be backed up — the base
filesystem admits re-creating it -/
def LinkOKAt {cfg : Cfg} (S : Sim cfg) (w : World) (r : Key) : Prop :=
  ∀ t mt, S.view .base w.fs r = some (.link t mt) → S.LinkOK .base r t

/-- the (resolved) key currently is not a symlink -/
def NotLinkAt {cfg : Cfg} (S : Sim cfg) (w : World) (r : Key) : Prop := ¬ isLinkAt (S.view .base w.fs) r

/-- The operations the nested through-flat-links theorem covers, judged in the state they are issued in.
Names are absolute (any spelling) and MAY PASS THROUGH SYMLINKED DIRECTORIES; the VISIBLE links of the
disk must be flat at that moment (`NG.FlatN bk hk`: every symlink at or below the base root `bk` and not
at or below the location `bk ++ hk` satisfies `F16.targetOK`; a visible link may lead INTO the location).
With `k` the key of the cleaned name and `r = rkN bk hk w k = NG.resN w.fs bk hk [] k` the key `realPath`
resolves it to through the sealing `HiddenFS` (no proper ancestor of `r` is a symlink in the visible base
view, its final component is that of `k`; `r` may be at or below the location — then the base refuses
the call), what `NL.Op.Covered` demands of `k` is demanded of `r`:
* operations that *follow* a final symlink — Create, OpenFile with a flag other than `O_RDONLY`, Chmod,
  Chown, Chtimes, MkdirAll — : `r` is not a symlink in the visible base view (K-through-final-symlink);
* operations that do not follow — Mkdir, Remove, Lchown, Rename (both names, resolved independently),
  Symlink (new name), RemoveAll (every visible entry at or below `r`) — : if the entry currently is a
  symlink, BOTH layers of the nested base admit re-creating it (`NL.NLLinkOK … .base`: K-escaping-link and
  its nested variant, a link into the location);
* `Symlink(_, new)`, and `Rename(old, new)` whose resolved source currently is a symlink: no tracked
  key lies strictly below the resolved new name (K-link-over-tracked);
* `Remove`/`RemoveAll` do not name the root; the resolved source of a `Rename` is not a non-empty
  directory (K-rename-nonempty-dir); `ForceBackup` is outside (C17).
Read-only operations (and `OpenFile` with `O_RDONLY`) do not resolve names and need nothing. -/
def Op.Covered {cfg : Cfg} (bk hk : Key) (S : Sim cfg) (w : World) : Op → Prop
  | .creat p _ | .mkdirAll p _ | .chmod p _ | .chown p _ _ | .chtimes p _ =>
    isAbs p = true ∧ FlatN bk hk w.fs ∧ ∀ k, PKey k → clean p = kp k → NotLinkAt S w (rkN bk hk w k)
  | .write p flag _ _ => flag = O_RDONLY ∨
      (isAbs p = true ∧ FlatN bk hk w.fs ∧ ∀ k, PKey k → clean p = kp k → NotLinkAt S w (rkN bk hk w k))
  | .mkdir p _ | .lchown p _ _ =>
    isAbs p = true ∧ FlatN bk hk w.fs ∧ ∀ k, PKey k → clean p = kp k → LinkOKAt S w (rkN bk hk w k)
  | .remove p => isAbs p = true ∧ clean p ≠ rootP ∧ FlatN bk hk w.fs ∧
      ∀ k, PKey k → clean p = kp k → LinkOKAt S w (rkN bk hk w k)
  | .removeAll p => isAbs p = true ∧ clean p ≠ rootP ∧ FlatN bk hk w.fs ∧
      ∀ k, PKey k → clean p = kp k → LOK S (rkN bk hk w k) w
  | .rename o n => isAbs o = true ∧ isAbs n = true ∧ FlatN bk hk w.fs ∧
      ∀ ko kn, PKey ko → PKey kn → clean o = kp ko → clean n = kp kn →
        LinkOKAt S w (rkN bk hk w ko) ∧ LinkOKAt S w (rkN bk hk w kn) ∧
        ¬ ((S.view .base w.fs).isDirAt (rkN bk hk w ko) ∧ (S.view .base w.fs).hasChild (rkN bk hk w ko)) ∧
        (isLinkAt (S.view .base w.fs) (rkN bk hk w ko) → NoneBelow w (rkN bk hk w kn))
  | .symlink _ n => isAbs n = true ∧ FlatN bk hk w.fs ∧
      ∀ kn, PKey kn → clean n = kp kn → LinkOKAt S w (rkN bk hk w kn) ∧ NoneBelow w (rkN bk hk w kn)
  | .stat _ | .lstat _ | .readlink _ => True
  | .force _ => False

/-- a history all of whose operations are covered in the state they are issued in -/
def CoveredHist (cfg : Cfg) (bk hk : Key) (S : Sim cfg) : World → List Op → Prop
  | _, [] => True
  | w, op :: rest => Op.Covered bk hk S w op ∧ CoveredHist cfg bk hk S (op.step cfg w) rest

/-- histories of several transactions, each covered in the state it starts from -/
def CoveredTxs (cfg : Cfg) (bk hk : Key) (S : Sim cfg) : World → List (List Op) → Prop
  | _, [] => True
  | w, ops :: rest => CoveredHist cfg bk hk S w ops ∧ CoveredTxs cfg bk hk S (runTx cfg w ops) rest

section
variable {bk hk dd : Key} {hr : NRoots bk hk dd} {v0 : View}

/-- what the nested OS instance supplies for a name with cleaned key `k` when the visible links are flat
(any fault plan) -/
theorem resolved {w : World}
    (hinv : Inv (nlSim bk hk dd hr) v0 w) (hflat : FlatN bk hk w.fs) {name : Path} {k : Key}
    (hpk : PKey k) (hname : clean name = kp k) :
    PKey (rkN bk hk w k) ∧ L.G.ResTo (nestedCfg bk hk) w name (rkN bk hk w k) ∧
      NoLinkAnc ((nlSim bk hk dd hr).view .base w.fs) (rkN bk hk w k) := by
  have hg : NLGood bk hk dd w.fs := hinv.good
  exact ⟨rkN_pkey hr hg hflat hpk, resToN hr hg hflat hpk hname, rkN_noLinkAnc hg hflat k⟩

/-- T04G (operations): on the OS model behind the nested layering, a covered operation — successful or not, under any fault
plan — keeps the transaction invariant -/
theorem op_keeps {w : World} {op : Op}
    (hinv : Inv (nlSim bk hk dd hr) v0 w)
    (hc : Op.Covered bk hk (nlSim bk hk dd hr) w op) :
    Kept (nlSim bk hk dd hr) v0 w (op.step (nestedCfg bk hk) w) := by
  have key : Sat (op.exec (nestedCfg bk hk)) w
      (fun w' _ => Kept (nlSim bk hk dd hr) v0 w w') := by
    cases op with
    | creat p d =>
      obtain ⟨habs, hflat, h⟩ := hc
      obtain ⟨k, hpk, hname⟩ := clean_abs habs
      obtain ⟨hr, hres, hacc⟩ := resolved hinv hflat hpk hname
      exact sat_creatG hinv hr hres ⟨hacc, h k hpk hname⟩
    | write p f pm d =>
      apply sat_writeG hinv
      rcases hc with h | ⟨habs, hflat, h⟩
      · exact Or.inl h
      · obtain ⟨k, hpk, hname⟩ := clean_abs habs
        obtain ⟨hr, hres, hacc⟩ := resolved hinv hflat hpk hname
        exact Or.inr ⟨_, hr, hres, ⟨hacc, h k hpk hname⟩⟩
    | mkdir p m =>
      obtain ⟨habs, hflat, h⟩ := hc
      obtain ⟨k, hpk, hname⟩ := clean_abs habs
      obtain ⟨hr, hres, hacc⟩ := resolved hinv hflat hpk hname
      exact sat_unit_out' (sat_mkdirG hinv hr hres ⟨hacc, h k hpk hname⟩)
    | mkdirAll p m =>
      obtain ⟨habs, hflat, h⟩ := hc
      obtain ⟨k, hpk, hname⟩ := clean_abs habs
      obtain ⟨hr, hres, hacc⟩ := resolved hinv hflat hpk hname
      exact sat_unit_out (sat_mkdirAllG hinv hr hres ⟨hacc, h k hpk hname⟩)
    | remove p =>
      obtain ⟨habs, hnr, hflat, h⟩ := hc
      obtain ⟨k, hpk, hname⟩ := clean_abs habs
      have hne : k ≠ [] := by
        intro e; subst e; exact hnr hname
      obtain ⟨hr, hres, hacc⟩ := resolved hinv hflat hpk hname
      exact sat_unit_out' (sat_removeG hinv hr (rkN_ne hne) hres ⟨hacc, h k hpk hname⟩)
    | removeAll p =>
      obtain ⟨habs, hnr, hflat, h⟩ := hc
      obtain ⟨k, hpk, hname⟩ := clean_abs habs
      have hne : k ≠ [] := by
        intro e; subst e; exact hnr hname
      obtain ⟨hr, hres, hacc⟩ := resolved hinv hflat hpk hname
      exact sat_unit_out (sat_removeAllG hinv hr (rkN_ne hne) hres hacc (h k hpk hname))
    | rename o n =>
      obtain ⟨habso, habsn, hflat, h⟩ := hc
      obtain ⟨ko, hko, ho⟩ := clean_abs habso
      obtain ⟨kn, hkn, hn⟩ := clean_abs habsn
      obtain ⟨hlo, hln, hleaf, hnb⟩ := h ko kn hko hkn ho hn
      obtain ⟨hro, hreso, hacco⟩ := resolved hinv hflat hko ho
      obtain ⟨hrn, hresn, haccn⟩ := resolved hinv hflat hkn hn
      exact sat_unit_out (sat_renameG hinv hro hrn hreso hresn ⟨hacco, hlo⟩ ⟨haccn, hln⟩ hleaf hnb)
    | symlink o n =>
      obtain ⟨habs, hflat, h⟩ := hc
      obtain ⟨kn, hkn, hn⟩ := clean_abs habs
      obtain ⟨hln, hnb⟩ := h kn hkn hn
      obtain ⟨hrn, hresn, haccn⟩ := resolved hinv hflat hkn hn
      exact sat_unit_out (sat_symlinkG hinv hrn hresn ⟨haccn, hln⟩ hnb)
    | chmod p m =>
      obtain ⟨habs, hflat, h⟩ := hc
      obtain ⟨k, hpk, hname⟩ := clean_abs habs
      obtain ⟨hr, hres, hacc⟩ := resolved hinv hflat hpk hname
      exact sat_unit_out' (sat_chmodG hinv hr hres ⟨hacc, h k hpk hname⟩)
    | chown p u g =>
      obtain ⟨habs, hflat, h⟩ := hc
      obtain ⟨k, hpk, hname⟩ := clean_abs habs
      obtain ⟨hr, hres, hacc⟩ := resolved hinv hflat hpk hname
      exact sat_unit_out' (sat_chownG hinv hr hres ⟨hacc, h k hpk hname⟩)
    | lchown p u g =>
      obtain ⟨habs, hflat, h⟩ := hc
      obtain ⟨k, hpk, hname⟩ := clean_abs habs
      obtain ⟨hr, hres, hacc⟩ := resolved hinv hflat hpk hname
      exact sat_unit_out' (sat_lchownG hinv hr hres ⟨hacc, h k hpk hname⟩)
    | chtimes p t =>
      obtain ⟨habs, hflat, h⟩ := hc
      obtain ⟨k, hpk, hname⟩ := clean_abs habs
      obtain ⟨hr, hres, hacc⟩ := resolved hinv hflat hpk hname
      exact sat_unit_out' (sat_chtimesG hinv hr hres ⟨hacc, h k hpk hname⟩)
    | stat p => exact NL.op_keeps (op := .stat p) hinv trivial
    | lstat p => exact NL.op_keeps (op := .lstat p) hinv trivial
    | readlink p => exact NL.op_keeps (op := .readlink p) hinv trivial
    | force p => exact absurd hc id
  exact key

/-- T04G (histories): after any covered history the invariant holds -/
theorem history_keeps : ∀ (ops : List Op) (w : World),
    Inv (nlSim bk hk dd hr) v0 w →
    CoveredHist (nestedCfg bk hk) bk hk (nlSim bk hk dd hr) w ops →
    Kept (nlSim bk hk dd hr) v0 w (runOps (nestedCfg bk hk) w ops)
  | [], w, hinv, _ => Kept.refl hinv
  | op :: rest, w, hinv, hc => by
    have h1 := op_keeps hinv hc.1
    have h2 := history_keeps rest (op.step (nestedCfg bk hk) w) h1.inv hc.2
    exact h1.trans h2

/-- T04G, one transaction: on healthy filesystems, after any covered history Rollback restores every
key of the base view except the root, and re-establishes the start conditions -/
theorem tx_restores {w : World} (hg : NLGood bk hk dd w.fs) (hinfos : w.infos = []) (hnf : w.faults = [])
    (hbl : BackupLinksOK (nlSim bk hk dd hr) w.fs) (ops : List Op)
    (hcov : CoveredHist (nestedCfg bk hk) bk hk (nlSim bk hk dd hr) w ops) :
    NLGood bk hk dd (runTx (nestedCfg bk hk) w ops).fs ∧ (runTx (nestedCfg bk hk) w ops).infos = [] ∧
      (runTx (nestedCfg bk hk) w ops).faults = [] ∧
      BackupLinksOK (nlSim bk hk dd hr) (runTx (nestedCfg bk hk) w ops).fs ∧
      SameBelowRoot (nlview bk hk .base w.fs) (nlview bk hk .base (runTx (nestedCfg bk hk) w ops).fs) := by
  have hpk := history_keeps (hr := hr) ops w (Inv.init hg hinfos hbl) hcov
  have hr := (sat_rollback (cfg := nestedCfg bk hk) hpk.inv (hpk.faults.trans hnf)).elim
  exact ⟨hr.1, rollback_resets_infos (nestedCfg bk hk) _, hr.2.1,
    backupLinksOK_after hpk.inv hr.1 hr.2.2.1 hr.2.2.2, hr.2.2.1⟩

/-- T04G for any number of consecutive transactions on the same BackupFS -/
theorem txs_restore : ∀ (txs : List (List Op)) (w : World), NLGood bk hk dd w.fs → w.infos = [] → w.faults = [] →
    BackupLinksOK (nlSim bk hk dd hr) w.fs →
    CoveredTxs (nestedCfg bk hk) bk hk (nlSim bk hk dd hr) w txs →
    SameBelowRoot (nlview bk hk .base w.fs) (nlview bk hk .base (txs.foldl (runTx (nestedCfg bk hk)) w).fs)
  | [], w, _, _, _, _, _ => fun _ _ => rfl
  | ops :: rest, w, hg, hi, hf, hb, hc => by
    obtain ⟨g1, i1, f1, b1, h1⟩ := tx_restores hg hi hf hb ops hc.1
    have h2 := txs_restore rest (runTx (nestedCfg bk hk) w ops) g1 i1 f1 b1 hc.2
    intro k hpk
    rw [List.foldl_cons, h2 k hpk, h1 k hpk]

/-- whatever the fault plan did to the operations of a covered history, once the filesystems are
healthy again Rollback restores the base -/
theorem tx_restores_after_faults {w : World} (hg : NLGood bk hk dd w.fs) (hinfos : w.infos = [])
    (hbl : BackupLinksOK (nlSim bk hk dd hr) w.fs) (ops : List Op)
    (hcov : CoveredHist (nestedCfg bk hk) bk hk (nlSim bk hk dd hr) w ops) :
    SameBelowRoot (nlview bk hk .base w.fs)
      (nlview bk hk .base (rollback (nestedCfg bk hk) { runOps (nestedCfg bk hk) w ops with faults := [] }).1.fs) := by
  have hpk := history_keeps (hr := hr) ops w (Inv.init hg hinfos hbl) hcov
  exact ((sat_rollback (cfg := nestedCfg bk hk) (hpk.inv.with_faults []) rfl).elim).2.2.1

end

end G
end NL
end BFS
