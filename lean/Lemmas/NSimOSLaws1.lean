import Lemmas.NSimOSFwd
/-!
  Lemmas/NSimOSLaws1.lean — the laws of `N.Sim` for the nested layering: how a frame of the inner
  filesystem becomes a frame of the two sides, the static facts, the read-only calls, `Lstat`,
  `Open`, `Create`/`OpenFile`, and the handle primitives.
-/
namespace BFS.N
open HiddenFS

section
variable {bk hk dd : Key} {s : Side} {m m' : MFS} {k : Key}

/-! ### frames -/

theorem frame_refl (hg : NGood bk hk dd m) (K : Key → Prop) :
    NGood bk hk dd m ∧ nview bk hk s.other m = nview bk hk s.other m ∧
      ∀ j, ¬ K j → nview bk hk s m j = nview bk hk s m j := ⟨hg, rfl, fun _ _ => rfl⟩

/-- the keys of side `s`, as keys of the inner filesystem, are on the right side of the location -/
def OnSide (hk : Key) : Side → Key → Prop
  | .base, j => ¬ hk <+: j
  | .backup, j => hk <+: j

/-- a frame of the inner filesystem off the keys `KI`, all on side `s`, as a frame of side `s` -/
theorem transfer (_h : NRoots bk hk dd) (hg : NGood bk hk dd m) (g1 : OSGood bk dd m') {KI : Key → Prop}
    (hKI : ∀ j, KI j → OnSide hk s j)
    (hloc : s = .backup → ∃ mt, m'.get (bk ++ hk) = some (.dir mt))
    (f : ∀ j, ¬ KI j → osView bk dd .base m' j = osView bk dd .base m j) :
    NGood bk hk dd m' ∧ nview bk hk s.other m' = nview bk hk s.other m ∧
      ∀ j, ¬ KI (off hk s ++ j) → nview bk hk s m' j = nview bk hk s m j := by
  cases s with
  | base =>
    refine ⟨⟨g1, ?_⟩, ?_, ?_⟩
    · have : ¬ KI hk := fun hK => hKI hk hK List.prefix_rfl
      exact erase_eq_dir (f hk this) hg.loc
    · funext x
      show nview bk hk .backup m' x = nview bk hk .backup m x
      rw [nview_backup, nview_backup]
      exact f (hk ++ x) (fun hK => hKI _ hK (List.prefix_append _ _))
    · intro j hj
      by_cases hh : hk <+: j
      · rw [nview_base_hid hh, nview_base_hid hh]
      · rw [nview_base_vis hh, nview_base_vis hh]
        exact f j hj
  | backup =>
    refine ⟨⟨g1, hloc rfl⟩, ?_, ?_⟩
    · funext x
      show nview bk hk .base m' x = nview bk hk .base m x
      by_cases hh : hk <+: x
      · rw [nview_base_hid hh, nview_base_hid hh]
      · rw [nview_base_vis hh, nview_base_vis hh]
        exact f x (fun hK => hh (hKI x hK))
    · intro j hj
      rw [nview_backup, nview_backup]
      exact f (hk ++ j) hj

theorem onSide_off (hv : ¬ NHid hk s k) : OnSide hk s (off hk s ++ k) := by
  cases s with
  | base => exact hv
  | backup => exact List.prefix_append _ _

/-- the single-key form -/
theorem transfer1 (h : NRoots bk hk dd) (hg : NGood bk hk dd m) (g1 : OSGood bk dd m') (hv : ¬ NHid hk s k)
    (hloc : s = .backup → ∃ mt, m'.get (bk ++ hk) = some (.dir mt))
    (f : ∀ j, j ≠ off hk s ++ k → osView bk dd .base m' j = osView bk dd .base m j) :
    NGood bk hk dd m' ∧ nview bk hk s.other m' = nview bk hk s.other m ∧
      ∀ j, j ≠ k → nview bk hk s m' j = nview bk hk s m j := by
  obtain ⟨a, b, c⟩ := transfer (s := s) (KI := (· = off hk s ++ k)) h hg g1
    (fun j hj => by subst hj; exact onSide_off hv) hloc f
  exact ⟨a, b, fun j hj => c j (fun e => hj (List.append_cancel_left e))⟩

/-! ### static facts -/

theorem nview_some {n : Node} (h : nview bk hk s m k = some n) :
    ¬ NHid hk s k ∧ osView bk dd .base m (off hk s ++ k) = some n := by
  cases s with
  | base => exact nview_base_some h
  | backup => exact ⟨id, by rw [← nview_backup_eq]; exact h⟩

theorem nview_ne_none (h : nview bk hk s m k ≠ none) :
    ¬ NHid hk s k ∧ osView bk dd .base m (off hk s ++ k) ≠ none := by
  cases s with
  | base => exact nview_base_ne_none h
  | backup => exact ⟨id, by rw [← nview_backup_eq]; exact h⟩

theorem nview_isDirAt (h : (nview bk hk s m).isDirAt k) :
    ¬ NHid hk s k ∧ (osView bk dd .base m).isDirAt (off hk s ++ k) := by
  obtain ⟨mt, h⟩ := h
  obtain ⟨a, b⟩ := nview_some (dd := dd) h
  exact ⟨a, mt, b⟩

theorem nview_isFileAt (h : (nview bk hk s m).isFileAt k) :
    ¬ NHid hk s k ∧ (osView bk dd .base m).isFileAt (off hk s ++ k) := by
  obtain ⟨c, mt, h⟩ := h
  obtain ⟨a, b⟩ := nview_some (dd := dd) h
  exact ⟨a, c, mt, b⟩

theorem nview_none_vis (hv : ¬ NHid hk s k) (h : nview bk hk s m k = none) :
    osView bk dd .base m (off hk s ++ k) = none := by
  rw [← nview_eq hv]; exact h

theorem nhid_nil (h : NRoots bk hk dd) : ¬ NHid hk s [] := by
  cases s with
  | base => intro e; exact h.nh (List.prefix_nil.mp e)
  | backup => exact id

theorem nhid_dropLast (hv : ¬ NHid hk s k) : ¬ NHid hk s k.dropLast := by
  cases s with
  | base => exact vis_dropLast hv
  | backup => exact id

theorem n_hid_none (hh : NHid hk s k) : nview bk hk s m k = none := by
  cases s with
  | base => exact nview_base_hid hh
  | backup => exact hh.elim

theorem n_par_dir (hg : NGood bk hk dd m) (hp : NPar hk s k) : (nview bk hk s m).isDirAt k := by
  cases s with
  | backup => exact hp.elim
  | base =>
    obtain ⟨mt, hloc⟩ := hg.loc
    have hpre : bk ++ k <+: bk ++ hk := (List.prefix_append_right_inj _).mpr hp.1
    have hne : bk ++ k ≠ bk ++ hk := fun e => hp.2 (List.append_cancel_left e)
    obtain ⟨mt', hd⟩ := hg.os.ancestor hloc hpre hne
    refine ⟨{ mt' with mtime := .fresh }, ?_⟩
    rw [nview_base_vis (not_hid_of_par hp), hd]
    rfl

theorem n_root_dir (h : NRoots bk hk dd) (hg : NGood bk hk dd m) : (nview bk hk s m).isDirAt [] := by
  cases s with
  | base =>
    obtain ⟨mt, hr⟩ := os_root_dir (s := .base) hg.os
    exact ⟨mt, by rw [nview_eq (dd := dd) (s := .base) (nhid_nil h)]; exact hr⟩
  | backup =>
    obtain ⟨mt, hloc⟩ := hg.loc
    refine ⟨{ mt with mtime := .fresh }, ?_⟩
    rw [nview_backup, List.append_nil, hloc]
    rfl

theorem n_parent_dir (hg : NGood bk hk dd m) (hv : nview bk hk s m k ≠ none) (hne : k ≠ []) :
    (nview bk hk s m).isDirAt k.dropLast := by
  obtain ⟨hvis, hv'⟩ := nview_ne_none (dd := dd) hv
  obtain ⟨mt, hd⟩ := os_parent_dir (s := .base) hg.os hv' (by simp [hne])
  rw [append_dropLast hne] at hd
  exact ⟨mt, by rw [nview_eq (dd := dd) (nhid_dropLast hvis)]; exact hd⟩

theorem n_pkey (hg : NGood bk hk dd m) (hv : nview bk hk s m k ≠ none) : PKey k := by
  obtain ⟨_, hv'⟩ := nview_ne_none (dd := dd) hv
  exact (os_pkey (s := .base) hg.os hv').right

theorem n_no_link {t : Path} {mt : Meta} (hg : NGood bk hk dd m) : nview bk hk s m k ≠ some (.link t mt) := by
  intro h
  exact os_no_link (s := .base) hg.os (nview_some (dd := dd) h).2

theorem n_mode_lt {n : Node} (hg : NGood bk hk dd m) (hv : nview bk hk s m k = some n) : n.meta.mode < 4096 :=
  os_mode_lt (s := .base) hg.os (nview_some (dd := dd) hv).2

theorem n_erased {mt : Meta} (hg : NGood bk hk dd m) (hv : nview bk hk s m k = some (.dir mt)) : mt.mtime = .fresh :=
  os_erased (s := .base) hg.os (nview_some (dd := dd) hv).2

/-! ### read-only calls never change the disk (any argument) -/

/-- a call that the inner filesystem executes without changing the state does not change it through
either layer -/
theorem n_pure {c : Call} {r : Except Err Ret} (hnr : ∀ n, c ≠ .removeAll n)
    (hb : ∀ c', HiddenFS.translate (nhs hk) c = .ok c' → ∀ m1 r1, (inner bk dd).call m c' = (m1, r1) → m1 = m)
    (hk' : ∀ c', PrefixFS.translate (PrefixFS.mk (kp hk)) c = .ok c' →
      ∀ m1 r1, (inner bk dd).call m c' = (m1, r1) → m1 = m)
    (he : ((nestedCfg bk hk).side s).call m c = (m', r)) : m' = m := by
  cases s with
  | base =>
    rw [side_base (dd := dd), hiddenFS_call _ _ _ _ hnr] at he
    cases htr : HiddenFS.translate (HiddenFS.mk [kp hk]) c with
    | error e => rw [htr] at he; cases he; rfl
    | ok c' =>
      rw [htr] at he
      have := hb c' htr _ _ rfl
      cases he
      exact this
  | backup =>
    rw [side_backup (dd := dd), prefixFS_call_gen] at he
    cases htr : PrefixFS.translate (PrefixFS.mk (kp hk)) c with
    | error e => rw [htr] at he; cases he; rfl
    | ok c' =>
      rw [htr] at he
      have := hk' c' htr _ _ rfl
      cases he
      exact this

theorem htr_shape {c c' : Call} {hs : List Path} (h : HiddenFS.translate hs c = .ok c') :
    (∀ p, c = .lstat p → c' = .lstat p) ∧ (∀ p, c = .stat p → c' = .stat p) ∧
    (∀ p, c = .readlink p → c' = .readlink p) ∧ (∀ p, c = .open_ p → c' = .openFile p O_RDONLY 0) ∧
    (∀ p fl pm, c = .openFile p fl pm → c' = .openFile p fl pm) := by
  refine ⟨?_, ?_, ?_, ?_, ?_⟩ <;> intros <;> subst_vars <;>
    simp only [HiddenFS.translate, bind, Except.bind, pure, Except.pure] at h <;>
    (split at h <;> cases h <;> rfl)

theorem n_pure_lstat {p : Path} {r : Except Err Ret} (h : NRoots bk hk dd)
    (he : ((nestedCfg bk hk).side s).call m (.lstat p) = (m', r)) : m' = m := by
  refine n_pure (dd := dd) (by intro n e; cases e) ?_ ?_ he
  · intro c' htr m1 r1 hc
    rw [(htr_shape htr).1 p rfl] at hc
    exact os_pure_lstat h.r1 hc
  · intro c' htr m1 r1 hc
    obtain ⟨p', rfl⟩ := tr_shape_lstat htr
    exact os_pure_lstat h.r1 hc

theorem n_pure_stat {p : Path} {r : Except Err Ret} (h : NRoots bk hk dd)
    (he : ((nestedCfg bk hk).side s).call m (.stat p) = (m', r)) : m' = m := by
  refine n_pure (dd := dd) (by intro n e; cases e) ?_ ?_ he
  · intro c' htr m1 r1 hc
    rw [(htr_shape htr).2.1 p rfl] at hc
    exact os_pure_stat h.r1 hc
  · intro c' htr m1 r1 hc
    obtain ⟨p', rfl⟩ := tr_shape_stat htr
    exact os_pure_stat h.r1 hc

theorem n_pure_readlink {p : Path} {r : Except Err Ret} (h : NRoots bk hk dd)
    (he : ((nestedCfg bk hk).side s).call m (.readlink p) = (m', r)) : m' = m := by
  refine n_pure (dd := dd) (by intro n e; cases e) ?_ ?_ he
  · intro c' htr m1 r1 hc
    rw [(htr_shape htr).2.2.1 p rfl] at hc
    exact os_pure_readlink h.r1 hc
  · intro c' htr m1 r1 hc
    obtain ⟨p', rfl⟩ := tr_shape_readlink htr
    exact os_pure_readlink h.r1 hc

theorem n_pure_open {p : Path} {r : Except Err Ret} (h : NRoots bk hk dd)
    (he : ((nestedCfg bk hk).side s).call m (.open_ p) = (m', r)) : m' = m := by
  refine n_pure (dd := dd) (by intro n e; cases e) ?_ ?_ he
  · intro c' htr m1 r1 hc
    rw [(htr_shape htr).2.2.2.1 p rfl] at hc
    exact os_pure_openRO h.r1 hc
  · intro c' htr m1 r1 hc
    obtain ⟨p', rfl⟩ := tr_shape_open htr
    exact os_pure_open h.r1 hc

theorem n_pure_openRO {p : Path} {perm : Nat} {r : Except Err Ret} (h : NRoots bk hk dd)
    (he : ((nestedCfg bk hk).side s).call m (.openFile p O_RDONLY perm) = (m', r)) : m' = m := by
  refine n_pure (dd := dd) (by intro n e; cases e) ?_ ?_ he
  · intro c' htr m1 r1 hc
    rw [(htr_shape htr).2.2.2.2 p _ _ rfl] at hc
    exact os_pure_openRO h.r1 hc
  · intro c' htr m1 r1 hc
    obtain ⟨p', rfl⟩ := tr_shape_openFile htr
    exact os_pure_openRO h.r1 hc

end
end BFS.N
