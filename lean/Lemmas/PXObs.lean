import Lemmas.PXCall
/-!
  Lemmas/PXObs.lean — through the layer: one `PrefixFS(kp pk)` call on two agreeing disks
  (`prefix_call_same`), the read-only calls without any assumption on the umask
  (`prefix_readonly_same`), and handles returned through the layer name keys at or below `pk`
  (`prefix_handle_inside`).
-/
namespace BFS
namespace PX
open MFS D

/-- the calls that cannot change the disk -/
def ReadOnly : Call → Prop
  | .stat _ => True
  | .lstat _ => True
  | .readlink _ => True
  | .open_ _ => True
  | _ => False

instance (c : Call) : Decidable (ReadOnly c) := by
  cases c <;> unfold ReadOnly <;> exact inferInstance

/-- `os.Open`: the disk is untouched and the result is a function of name resolution alone -/
def openRes (t : Path) : Res → Except Err Handle
  | .err e => .error e
  | .found k (.dir _) => .ok { key := k, name := t, isDir := true, flag := O_RDONLY }
  | .found _ (.link _ _) => .error .loop
  | .found k (.file _ _) => .ok { key := k, name := t, isDir := false, flag := O_RDONLY }
  | .missing _ _ => .error .notExist

theorem openFile_rdonly (m : MFS) (t : Path) : m.openFile t O_RDONLY 0 = (m, openRes t (namei m t true)) := by
  unfold MFS.openFile
  have h1 : hasFlag O_RDONLY O_CREATE = false := by decide
  have h2 : accessMode O_RDONLY = 0 := by decide
  simp only [h1, h2, Bool.false_and, Bool.not_false, bne_self_eq_false, Bool.false_or, Bool.false_eq_true,
    if_false, Bool.not_false, if_true]
  cases namei m t true with
  | err e => rfl
  | missing p n => rfl
  | found k n => cases n <;> rfl

section
variable {pk : Key}

theorem map_post_ok_handle {pre : Path} {c c' : Call} {r : Except Err Ret} {h : Handle}
    (hr : r.map (prefixPost pre c c') = .ok (.handle h)) : ∃ h0, r = .ok (.handle h0) ∧ h0.key = h.key := by
  cases r with
  | error e => cases hr
  | ok ret =>
    cases ret with
    | handle h0 =>
      refine ⟨h0, rfl, ?_⟩
      simp only [Except.map, post_handle, Except.ok.injEq, Ret.handle.injEq] at hr
      rw [← hr]
    | unit => cases c <;> simp [Except.map, prefixPost] at hr
    | info i => cases c <;> simp [Except.map, prefixPost] at hr
    | str s => cases c <;> simp [Except.map, prefixPost] at hr

theorem liftU_not_handle (x : MFS × Except Err Unit) (h : Handle) : (liftU x).2 ≠ .ok (.handle h) := by
  unfold liftU
  cases x.2 with
  | error e => intro hh; cases hh
  | ok u => intro hh; cases hh

/-- a handle returned by an OS call with names at or below `pk` names a key at or below `pk` -/
theorem osCall_handle_inside {m : MFS} (hpk : PKey pk) (hd : PrefDirs pk m) (ht : Tame pk m) {c c' : Call}
    (hk : KeyCall pk c c') {h : Handle} (hr : (osCall m c').2 = .ok (.handle h)) : pk <+: h.key := by
  have key : ∀ (x : Key) (hx : PKey x) (fl pm : Nat),
      (m.openFile (kp (pk ++ x)) fl pm).2.map Ret.handle = .ok (.handle h) → pk <+: h.key := by
    intro x hx fl pm hh
    obtain ⟨K, hK, hN⟩ := namei_inside hpk hd ht hx (TextOf.kp (pk ++ x)) (!(hasFlag fl O_CREATE && hasFlag fl O_EXCL))
    cases ho : (m.openFile (kp (pk ++ x)) fl pm).2 with
    | error e => rw [ho] at hh; cases hh
    | ok h0 =>
      rw [ho] at hh
      simp only [Except.map, Except.ok.injEq, Ret.handle.injEq] at hh
      rw [← hh, openFile_handle_key hN ho]
      exact hK
  cases hk with
  | create n x hx _ => exact key x hx _ _ hr
  | open_ n x hx _ => exact key x hx _ _ hr
  | openFile n f p x hx _ => exact key x hx _ _ hr
  | stat n x hx _ =>
    exfalso
    simp only [osCall] at hr
    cases hs : m.stat (kp (pk ++ x)) <;> (rw [hs] at hr; cases hr)
  | lstat n x hx _ =>
    exfalso
    simp only [osCall] at hr
    cases hs : m.lstat (kp (pk ++ x)) <;> (rw [hs] at hr; cases hr)
  | readlink n x hx _ =>
    exfalso
    simp only [osCall] at hr
    cases hs : m.readlink (kp (pk ++ x)) <;> (rw [hs] at hr; cases hr)
  | mkdir n p x hx _ => exact absurd hr (liftU_not_handle _ _)
  | mkdirAll n p x hx _ => exact absurd hr (liftU_not_handle _ _)
  | remove n x hx _ => exact absurd hr (liftU_not_handle _ _)
  | removeAll n x hx _ => exact absurd hr (liftU_not_handle _ _)
  | rename o n x y hx hy _ _ => exact absurd hr (liftU_not_handle _ _)
  | chmod n md x hx _ => exact absurd hr (liftU_not_handle _ _)
  | chown n u g x hx _ => exact absurd hr (liftU_not_handle _ _)
  | chtimes n a t x hx _ => exact absurd hr (liftU_not_handle _ _)
  | symlink o n o' x hx _ => exact absurd hr (liftU_not_handle _ _)
  | lchown n u g x hx _ => exact absurd hr (liftU_not_handle _ _)

/-- a handle returned through `PrefixFS(kp pk)` names a key at or below `pk` -/
theorem prefix_handle_inside {m : MFS} (hpk : PKey pk) (hd : PrefDirs pk m) (ht : Tame pk m) {c : Call}
    {h : Handle} (hr : ((prefixFS (kp pk) osfs).call m c).2 = .ok (.handle h)) : pk <+: h.key := by
  rcases prefix_call_cases hpk m c with ⟨e, he, hc⟩ | ⟨c', hk, he, hc⟩
  · rw [hc] at hr; cases hr
  · rw [hc] at hr
    obtain ⟨h0, h1, h2⟩ := map_post_ok_handle hr
    rw [← h2]
    exact osCall_handle_inside hpk hd ht hk h1

/-- one call through `PrefixFS(kp pk)` on two agreeing disks: same result, agreeing disks -/
theorem prefix_call_same {m1 m2 : MFS} (hpk : PKey pk) (hd1 : PrefDirs pk m1) (hd2 : PrefDirs pk m2)
    (ht : Tame pk m1) (hs1 : DomSup m1) (hs2 : DomSup m2) (ha : Agree pk m1 m2) (c : Call) :
    ((prefixFS (kp pk) osfs).call m1 c).2 = ((prefixFS (kp pk) osfs).call m2 c).2 ∧
      Agree pk ((prefixFS (kp pk) osfs).call m1 c).1 ((prefixFS (kp pk) osfs).call m2 c).1 := by
  rcases prefix_call_cases hpk m1 c with ⟨e, he, hc⟩ | ⟨c', hk, he, hc⟩
  · rcases prefix_call_cases hpk m2 c with ⟨e2, he2, hc2⟩ | ⟨c2, _, he2, _⟩
    · rw [hc, hc2]
      rw [he] at he2
      cases he2
      exact ⟨rfl, ha⟩
    · rw [he] at he2; cases he2
  · rcases prefix_call_cases hpk m2 c with ⟨e2, he2, _⟩ | ⟨c2, _, he2, hc2⟩
    · rw [he] at he2; cases he2
    · rw [he] at he2
      cases he2
      rw [hc, hc2]
      obtain ⟨h1, h2⟩ := osCall_same hpk hd1 hd2 ht hs1 hs2 ha hk
      exact ⟨by simp only; rw [h1], h2⟩

/-- the read-only OS calls: disk untouched; same result on disks that agree at and below `pk`
(nothing is assumed about the umask) -/
theorem osCall_readonly {m : MFS} {c c' : Call} (hk : KeyCall pk c c') (hro : ReadOnly c) :
    (osCall m c').1 = m := by
  cases hk with
  | open_ n x hx _ =>
    show (m.openFile _ O_RDONLY 0).1 = m
    rw [openFile_rdonly]
  | stat n x hx _ => rfl
  | lstat n x hx _ => rfl
  | readlink n x hx _ => rfl
  | create n x hx _ => exact False.elim hro
  | mkdir n p x hx _ => exact False.elim hro
  | mkdirAll n p x hx _ => exact False.elim hro
  | openFile n f p x hx _ => exact False.elim hro
  | remove n x hx _ => exact False.elim hro
  | removeAll n x hx _ => exact False.elim hro
  | rename o n x y hx hy _ _ => exact False.elim hro
  | chmod n md x hx _ => exact False.elim hro
  | chown n u g x hx _ => exact False.elim hro
  | chtimes n a t x hx _ => exact False.elim hro
  | symlink o n o' x hx _ => exact False.elim hro
  | lchown n u g x hx _ => exact False.elim hro

theorem osCall_readonly_same {m1 m2 : MFS} (hpk : PKey pk) (hd1 : PrefDirs pk m1) (hd2 : PrefDirs pk m2)
    (ht : Tame pk m1) (hag : AgreeIn pk m1 m2) {c c' : Call} (hk : KeyCall pk c c') (hro : ReadOnly c) :
    (osCall m1 c').2 = (osCall m2 c').2 := by
  have E : ∀ {x : Key}, PKey x → ∀ f, namei m1 (kp (pk ++ x)) f = namei m2 (kp (pk ++ x)) f :=
    fun hx f => namei_agree hpk hd1 hd2 ht hag hx (TextOf.kp _) f
  cases hk with
  | open_ n x hx _ =>
    show (m1.openFile _ O_RDONLY 0).2.map _ = (m2.openFile _ O_RDONLY 0).2.map _
    rw [openFile_rdonly, openFile_rdonly, E hx]
  | stat n x hx _ =>
    show (m1.stat _).map _ = (m2.stat _).map _
    rw [stat_agree (E hx _)]
  | lstat n x hx _ =>
    show (m1.lstat _).map _ = (m2.lstat _).map _
    rw [lstat_agree (E hx _)]
  | readlink n x hx _ =>
    show (m1.readlink _).map _ = (m2.readlink _).map _
    rw [readlink_agree (E hx _)]
  | create n x hx _ => exact False.elim hro
  | mkdir n p x hx _ => exact False.elim hro
  | mkdirAll n p x hx _ => exact False.elim hro
  | openFile n f p x hx _ => exact False.elim hro
  | remove n x hx _ => exact False.elim hro
  | removeAll n x hx _ => exact False.elim hro
  | rename o n x y hx hy _ _ => exact False.elim hro
  | chmod n md x hx _ => exact False.elim hro
  | chown n u g x hx _ => exact False.elim hro
  | chtimes n a t x hx _ => exact False.elim hro
  | symlink o n o' x hx _ => exact False.elim hro
  | lchown n u g x hx _ => exact False.elim hro

theorem prefix_readonly {m : MFS} (hpk : PKey pk) {c : Call} (hro : ReadOnly c) :
    ((prefixFS (kp pk) osfs).call m c).1 = m := by
  rcases prefix_call_cases hpk m c with ⟨e, he, hc⟩ | ⟨c', hk, he, hc⟩
  · rw [hc]
  · rw [hc]; exact osCall_readonly hk hro

theorem prefix_readonly_same {m1 m2 : MFS} (hpk : PKey pk) (hd1 : PrefDirs pk m1) (hd2 : PrefDirs pk m2)
    (ht : Tame pk m1) (hag : AgreeIn pk m1 m2) {c : Call} (hro : ReadOnly c) :
    ((prefixFS (kp pk) osfs).call m1 c).2 = ((prefixFS (kp pk) osfs).call m2 c).2 := by
  rcases prefix_call_cases hpk m1 c with ⟨e, he, hc⟩ | ⟨c', hk, he, hc⟩
  · rcases prefix_call_cases hpk m2 c with ⟨e2, he2, hc2⟩ | ⟨c2, _, he2, _⟩
    · rw [hc, hc2]
      rw [he] at he2
      cases he2
      rfl
    · rw [he] at he2; cases he2
  · rcases prefix_call_cases hpk m2 c with ⟨e2, he2, _⟩ | ⟨c2, _, he2, hc2⟩
    · rw [he] at he2; cases he2
    · rw [he] at he2
      cases he2
      rw [hc, hc2]
      simp only
      rw [osCall_readonly_same hpk hd1 hd2 ht hag hk hro]

end
end PX
end BFS
