import Lemmas.NSimOSLaws2
/-!
  Lemmas/NSimOSLaws3.lean — the laws of `N.Sim` for the nested layering: metadata calls, `Mkdir`,
  `Remove`, `MkdirAll`.
-/
namespace BFS.N
open HiddenFS

section
variable {bk hk dd : Key} {s : Side} {m m' : MFS} {k : Key}

/-! ### metadata -/

theorem n_chmod_frame {mode : Nat} {r : Except Err Ret} (h : NRoots bk hk dd) (hg : NGood bk hk dd m) (hk' : PKey k)
    (he : ((nestedCfg bk hk).side s).call m (.chmod (kp k) mode) = (m', r)) :
    NGood bk hk dd m' ∧ nview bk hk s.other m' = nview bk hk s.other m ∧
      (∀ j, j ≠ k → nview bk hk s m' j = nview bk hk s m j) := by
  by_cases hh : NHid hk s k
  · obtain ⟨e, hr⟩ := refused_single h hk' hh (f := (Call.chmod · mode))
      (Or.inr (Or.inr (Or.inr (Or.inr (Or.inr (Or.inr (Or.inl ⟨mode, rfl⟩)))))))
    rw [hr m] at he; cases he
    exact frame_refl (s := s) hg (· = k)
  · have hi := (fwd_chmod h hk' hh mode).inv he
    obtain ⟨g1, _, f⟩ := os_chmod_frame h.r1 hg.os (pk_off h s hk') hi
    exact transfer1 h hg g1 hh
      (fun hs => by subst hs; exact (os_chmod_frame h.r2 hg.os2 hk' ((fwd2_chmod h hk' mode).eq hi)).1.bdir) f

theorem n_chmod_some {mode : Nat} {n : Node} (h : NRoots bk hk dd) (hg : NGood bk hk dd m) (hk' : PKey k)
    (hv : nview bk hk s m k = some n) :
    ∃ m', ((nestedCfg bk hk).side s).call m (.chmod (kp k) mode) = (m', .ok .unit) ∧
      nview bk hk s m' k = some (n.setMeta { n.meta with mode := mode &&& 0o7777 }) := by
  obtain ⟨hvis, hv'⟩ := nview_some (dd := dd) hv
  obtain ⟨m1, hc, hp⟩ := os_chmod_some (mode := mode) h.r1 hg.os (pk_off h s hk') hv'
  exact ⟨m1, (fwd_chmod h hk' hvis mode).unit_of hc, by rw [nview_eq (dd := dd) hvis]; exact hp⟩

theorem n_chown_frame {u g : Int} {r : Except Err Ret} (h : NRoots bk hk dd) (hg : NGood bk hk dd m) (hk' : PKey k)
    (he : ((nestedCfg bk hk).side s).call m (.chown (kp k) u g) = (m', r)) :
    NGood bk hk dd m' ∧ nview bk hk s.other m' = nview bk hk s.other m ∧
      (∀ j, j ≠ k → nview bk hk s m' j = nview bk hk s m j) := by
  by_cases hh : NHid hk s k
  · obtain ⟨e, hr⟩ := refused_single h hk' hh (f := (Call.chown · u g))
      (Or.inr (Or.inr (Or.inr (Or.inr (Or.inr (Or.inr (Or.inr (Or.inl ⟨u, g, rfl⟩))))))))
    rw [hr m] at he; cases he
    exact frame_refl (s := s) hg (· = k)
  · have hi := (fwd_chown h hk' hh u g).inv he
    obtain ⟨g1, _, f⟩ := os_chown_frame h.r1 hg.os (pk_off h s hk') hi
    exact transfer1 h hg g1 hh
      (fun hs => by subst hs; exact (os_chown_frame h.r2 hg.os2 hk' ((fwd2_chown h hk' u g).eq hi)).1.bdir) f

theorem n_chown_some {u g : Int} {n : Node} (h : NRoots bk hk dd) (hg : NGood bk hk dd m) (hk' : PKey k)
    (hv : nview bk hk s m k = some n) :
    ∃ m', ((nestedCfg bk hk).side s).call m (.chown (kp k) u g) = (m', .ok .unit) ∧
      nview bk hk s m' k = some (chownNode n u g) := by
  obtain ⟨hvis, hv'⟩ := nview_some (dd := dd) hv
  obtain ⟨m1, hc, hp⟩ := os_chown_some (u := u) (g := g) h.r1 hg.os (pk_off h s hk') hv'
  exact ⟨m1, (fwd_chown h hk' hvis u g).unit_of hc, by rw [nview_eq (dd := dd) hvis]; exact hp⟩

theorem n_lchown_frame {u g : Int} {r : Except Err Ret} (h : NRoots bk hk dd) (hg : NGood bk hk dd m) (hk' : PKey k)
    (he : ((nestedCfg bk hk).side s).call m (.lchown (kp k) u g) = (m', r)) :
    NGood bk hk dd m' ∧ nview bk hk s.other m' = nview bk hk s.other m ∧
      (∀ j, j ≠ k → nview bk hk s m' j = nview bk hk s m j) := by
  by_cases hh : NHid hk s k
  · obtain ⟨e, hr⟩ := refused_single h hk' hh (f := (Call.lchown · u g))
      (Or.inr (Or.inr (Or.inr (Or.inr (Or.inr (Or.inr (Or.inr (Or.inr (Or.inl ⟨u, g, rfl⟩)))))))))
    rw [hr m] at he; cases he
    exact frame_refl (s := s) hg (· = k)
  · have hi := (fwd_lchown h hk' hh u g).inv he
    obtain ⟨g1, _, f⟩ := os_lchown_frame h.r1 hg.os (pk_off h s hk') hi
    exact transfer1 h hg g1 hh
      (fun hs => by subst hs; exact (os_lchown_frame h.r2 hg.os2 hk' ((fwd2_lchown h hk' u g).eq hi)).1.bdir) f

theorem n_chtimes_frame {a t : Time} {r : Except Err Ret} (h : NRoots bk hk dd) (hg : NGood bk hk dd m) (hk' : PKey k)
    (he : ((nestedCfg bk hk).side s).call m (.chtimes (kp k) a t) = (m', r)) :
    NGood bk hk dd m' ∧ nview bk hk s.other m' = nview bk hk s.other m ∧
      (∀ j, j ≠ k → nview bk hk s m' j = nview bk hk s m j) := by
  by_cases hh : NHid hk s k
  · obtain ⟨e, hr⟩ := refused_single h hk' hh (f := (Call.chtimes · a t))
      (Or.inr (Or.inr (Or.inr (Or.inr (Or.inr (Or.inr (Or.inr (Or.inr (Or.inr ⟨a, t, rfl⟩)))))))))
    rw [hr m] at he; cases he
    exact frame_refl (s := s) hg (· = k)
  · have hi := (fwd_chtimes h hk' hh a t).inv he
    obtain ⟨g1, _, f⟩ := os_chtimes_frame h.r1 hg.os (pk_off h s hk') hi
    exact transfer1 h hg g1 hh
      (fun hs => by subst hs; exact (os_chtimes_frame h.r2 hg.os2 hk' ((fwd2_chtimes h hk' a t).eq hi)).1.bdir) f

theorem n_chtimes_file {a t : Time} {c : String} {mt : Meta} (h : NRoots bk hk dd) (hg : NGood bk hk dd m)
    (hk' : PKey k) (hv : nview bk hk s m k = some (.file c mt)) :
    ∃ m', ((nestedCfg bk hk).side s).call m (.chtimes (kp k) a t) = (m', .ok .unit) ∧
      nview bk hk s m' k = some (.file c { mt with mtime := t }) := by
  obtain ⟨hvis, hv'⟩ := nview_some (dd := dd) hv
  obtain ⟨m1, hc, hp⟩ := os_chtimes_file (a := a) (t := t) h.r1 hg.os (pk_off h s hk') hv'
  exact ⟨m1, (fwd_chtimes h hk' hvis a t).unit_of hc, by rw [nview_eq (dd := dd) hvis]; exact hp⟩

theorem n_chtimes_dir {a t : Time} (h : NRoots bk hk dd) (hg : NGood bk hk dd m)
    (hk' : PKey k) (hv : (nview bk hk s m).isDirAt k) :
    ∃ m', ((nestedCfg bk hk).side s).call m (.chtimes (kp k) a t) = (m', .ok .unit) ∧
      nview bk hk s m' k = nview bk hk s m k := by
  obtain ⟨hvis, hv'⟩ := nview_isDirAt (dd := dd) hv
  obtain ⟨m1, hc, hp⟩ := os_chtimes_dir (a := a) (t := t) h.r1 hg.os (pk_off h s hk') hv'
  exact ⟨m1, (fwd_chtimes h hk' hvis a t).unit_of hc, by
    rw [nview_eq (dd := dd) hvis, nview_eq (dd := dd) hvis]; exact hp⟩

/-! ### `Mkdir`, `Remove` -/

theorem n_mkdir_frame {perm : Nat} {r : Except Err Ret} (h : NRoots bk hk dd) (hg : NGood bk hk dd m) (hk' : PKey k)
    (he : ((nestedCfg bk hk).side s).call m (.mkdir (kp k) perm) = (m', r)) :
    NGood bk hk dd m' ∧ nview bk hk s.other m' = nview bk hk s.other m ∧
      (∀ j, j ≠ k → nview bk hk s m' j = nview bk hk s m j) := by
  by_cases hh : NHid hk s k
  · obtain ⟨e, hr⟩ := refused_single h hk' hh (f := (Call.mkdir · perm)) (Or.inr (Or.inl ⟨perm, rfl⟩))
    rw [hr m] at he; cases he
    exact frame_refl (s := s) hg (· = k)
  · have hi := (fwd_mkdir h hk' hh perm).inv he
    obtain ⟨g1, _, f⟩ := os_mkdir_frame h.r1 hg.os (pk_off h s hk') hi
    exact transfer1 h hg g1 hh
      (fun hs => by subst hs; exact (os_mkdir_frame h.r2 hg.os2 hk' ((fwd2_mkdir h hk' perm).eq hi)).1.bdir) f

theorem off_ne (hne : k ≠ []) : off hk s ++ k ≠ [] := by simp [hne]

theorem n_remove_frame {r : Except Err Ret} (h : NRoots bk hk dd) (hg : NGood bk hk dd m) (hk' : PKey k)
    (hne : k ≠ []) (he : ((nestedCfg bk hk).side s).call m (.remove (kp k)) = (m', r)) :
    NGood bk hk dd m' ∧ nview bk hk s.other m' = nview bk hk s.other m ∧
      (∀ j, j ≠ k → nview bk hk s m' j = nview bk hk s m j) := by
  by_cases hh : NHid hk s k
  · obtain ⟨e, hr⟩ := refused_single h hk' hh (f := Call.remove)
      (Or.inr (Or.inr (Or.inr (Or.inr (Or.inr (Or.inl rfl))))))
    rw [hr m] at he; cases he
    exact frame_refl (s := s) hg (· = k)
  · have hi := (fwd_remove h hk' hh).inv he
    obtain ⟨g1, _, f⟩ := os_remove_frame h.r1 hg.os (pk_off h s hk') (off_ne hne) hi
    exact transfer1 h hg g1 hh
      (fun hs => by subst hs; exact (os_remove_frame h.r2 hg.os2 hk' hne ((fwd2_remove h hk').eq hi)).1.bdir) f

/-- the children of a visible key that does not lead to the hidden location are visible -/
theorem child_vis (hv : ¬ NHid hk s k) (hp : ¬ NPar hk s k) (n : Name) : ¬ NHid hk s (k ++ [n]) := by
  cases s with
  | backup => exact id
  | base =>
    intro e
    rcases List.prefix_concat_iff.mp e with e1 | e1
    · exact hp ⟨e1 ▸ List.prefix_append _ _, fun e2 => by
        have := congrArg List.length (e2.trans e1)
        simp at this⟩
    · exact hv e1

/-- nothing hidden lies below such a key -/
theorem below_vis (hv : ¬ NHid hk s k) (hp : ¬ NPar hk s k) {j : Key} (hkj : k <+: j) : ¬ NHid hk s j := by
  cases s with
  | backup => exact id
  | base =>
    intro e
    rcases below_cases hkj e with h1 | h1
    · exact hv h1
    · exact hp h1

theorem n_hasChild (hv : ¬ NHid hk s k) (hp : ¬ NPar hk s k)
    (hc : (osView bk dd .base m).hasChild (off hk s ++ k)) : (nview bk hk s m).hasChild k := by
  obtain ⟨n, hn⟩ := hc
  refine ⟨n, ?_⟩
  rw [nview_eq (dd := dd) (child_vis hv hp n), ← List.append_assoc]
  exact hn

theorem n_remove_ok (h : NRoots bk hk dd) (hg : NGood bk hk dd m) (hk' : PKey k) (hne : k ≠ [])
    (hp : ¬ NPar hk s k)
    (hv : (nview bk hk s m).isFileAt k ∨ ((nview bk hk s m).isDirAt k ∧ ¬ (nview bk hk s m).hasChild k)) :
    ∃ m', ((nestedCfg bk hk).side s).call m (.remove (kp k)) = (m', .ok .unit) ∧ nview bk hk s m' k = none := by
  have hvis : ¬ NHid hk s k := by
    rcases hv with hv | ⟨hv, _⟩
    · exact (nview_isFileAt (dd := dd) hv).1
    · exact (nview_isDirAt (dd := dd) hv).1
  have hv' : (osView bk dd .base m).isFileAt (off hk s ++ k) ∨
      ((osView bk dd .base m).isDirAt (off hk s ++ k) ∧ ¬ (osView bk dd .base m).hasChild (off hk s ++ k)) := by
    rcases hv with hv | ⟨hv, hc⟩
    · exact Or.inl (nview_isFileAt (dd := dd) hv).2
    · exact Or.inr ⟨(nview_isDirAt (dd := dd) hv).2, fun hc' => hc (n_hasChild hvis hp hc')⟩
  obtain ⟨m1, hc, hgone⟩ := os_remove_ok h.r1 hg.os (pk_off h s hk') (off_ne hne) hv'
  exact ⟨m1, (fwd_remove h hk' hvis).unit_of hc, by rw [nview_eq (dd := dd) hvis]; exact hgone⟩

/-! ### `MkdirAll` -/

theorem off_prefix {j : Key} : off hk s ++ j <+: off hk s ++ k ↔ j <+: k := List.prefix_append_right_inj _

theorem n_mkdirAll_frame {perm : Nat} {r : Except Err Ret} (h : NRoots bk hk dd) (hg : NGood bk hk dd m)
    (hk' : PKey k) (he : ((nestedCfg bk hk).side s).call m (.mkdirAll (kp k) perm) = (m', r)) :
    NGood bk hk dd m' ∧ nview bk hk s.other m' = nview bk hk s.other m ∧
      (∀ j, ¬ j <+: k → nview bk hk s m' j = nview bk hk s m j) ∧
      (∀ j, (nview bk hk s m).isFileAt j → nview bk hk s m' j = nview bk hk s m j) ∧
      (r = .ok .unit → (nview bk hk s m').isDirAt k) := by
  by_cases hh : NHid hk s k
  · obtain ⟨e, hr⟩ := refused_single h hk' hh (f := (Call.mkdirAll · perm)) (Or.inr (Or.inr (Or.inl ⟨perm, rfl⟩)))
    rw [hr m] at he; cases he
    exact ⟨hg, rfl, fun _ _ => rfl, fun _ _ => rfl, fun e => by cases e⟩
  · have hf := fwd_mkdirAll h hk' hh perm
    have hi := hf.inv he
    have hK := pk_off h s hk'
    obtain ⟨g1, _, _, _, f5⟩ := os_mkdirAll_frame h.r1 hg.os hK hi
    -- existing entries are untouched: only new directories along the chain appear
    have hext : Ext bk dd .base (off hk s ++ k) m m' := by
      have hi' := hi
      rw [show (inner bk dd).call m (.mkdirAll (kp (off hk s ++ k)) perm) = _ from side_mkdirAll .base h.r1 hK perm] at hi'
      obtain ⟨h1, _⟩ := Prod.mk.inj hi'
      have hlen : (off hk s ++ k).length < (kp (osRoot bk dd .base ++ (off hk s ++ k))).length + 2 := by
        have h1 := kp_length (h.pb.append hK)
        have h2 : (bk ++ (off hk s ++ k)).length = bk.length + (off hk s ++ k).length := List.length_append
        show _ < (kp (bk ++ (off hk s ++ k))).length + 2
        omega
      exact (mkdirAll_spec .base perm h.r1 _ _ _ m m' _ hg.os hK (TextOf.kp _) hlen (Prod.ext h1 rfl)).2.1
    have f : ∀ j, ¬ (j <+: off hk s ++ k ∧ osView bk dd .base m j = none) →
        osView bk dd .base m' j = osView bk dd .base m j := by
      intro j hj
      rcases hext (bk ++ j) with e | ⟨j', hj', e, hnone, _⟩
      · exact e
      · have : j = j' := List.append_cancel_left e
        subst this
        exact absurd ⟨hj', by show (m.get (bk ++ j)).map eraseMt = none; rw [hnone]; rfl⟩ hj
    obtain ⟨a, b, c⟩ := transfer (s := s) h hg g1 (KI := fun j => j <+: off hk s ++ k ∧ osView bk dd .base m j = none)
      (by
        intro j ⟨hj, hnone⟩
        cases s with
        | base => exact vis_of_prefix hh hj
        | backup =>
          show hk <+: j
          rcases List.prefix_or_prefix_of_prefix hj (List.prefix_append hk k) with h1 | h1
          · by_cases e : j = hk
            · exact e ▸ List.prefix_rfl
            · exfalso
              obtain ⟨mt, hd⟩ := n_par_dir (s := .base) hg (show NPar hk .base j from ⟨h1, e⟩)
              rw [nview_base_vis (not_hid_of_par ⟨h1, e⟩)] at hd
              rw [show osView bk dd .base m j = (m.get (bk ++ j)).map eraseMt from rfl, hd] at hnone
              cases hnone
          · exact h1)
      (fun hs => by
        subst hs; exact (os_mkdirAll_frame h.r2 hg.os2 hk' ((fwd2_mkdirAll h hk' perm).eq hi)).1.bdir) f
    refine ⟨a, b, ?_, ?_, ?_⟩
    · intro j hj
      exact c j (fun hK' => hj (off_prefix.mp hK'.1))
    · intro j hfile
      obtain ⟨hvj, c0, mt, hfj⟩ := nview_isFileAt (dd := dd) hfile
      exact c j (fun hK' => by rw [hK'.2] at hfj; cases hfj)
    · intro hr
      subst hr
      have := f5 (by rw [hf.unit_inv he])
      obtain ⟨mt, hd⟩ := this
      exact ⟨mt, by rw [nview_eq (dd := dd) hh]; exact hd⟩

theorem n_mkdirAll_ok {perm : Nat} (h : NRoots bk hk dd) (hg : NGood bk hk dd m) (hk' : PKey k)
    (hvis : ¬ NHid hk s k) (hp : k = [] ∨ (nview bk hk s m).parentDir k)
    (hv : nview bk hk s m k = none ∨ (nview bk hk s m).isDirAt k) :
    ∃ m', ((nestedCfg bk hk).side s).call m (.mkdirAll (kp k) perm) = (m', .ok .unit) ∧
      (∀ j, j ≠ k → nview bk hk s m' j = nview bk hk s m j) ∧
      ((nview bk hk s m).isDirAt k → nview bk hk s m' k = nview bk hk s m k) := by
  have hp' : off hk s ++ k = [] ∨ (osView bk dd .base m).parentDir (off hk s ++ k) := by
    rcases hp with rfl | hp
    · cases s with
      | base => exact Or.inl rfl
      | backup =>
        right
        obtain ⟨mt, hloc⟩ := hg.loc
        refine ⟨by simp [off, h.nh], ?_⟩
        show (osView bk dd .base m).isDirAt (hk ++ []).dropLast
        rw [List.append_nil]
        have : osView bk dd .base m hk ≠ none := by
          show (m.get (bk ++ hk)).map eraseMt ≠ none
          rw [hloc]; simp
        exact os_parent_dir (s := .base) hg.os this h.nh
    · exact Or.inr (n_parentDir hvis hp)
  have hv' : osView bk dd .base m (off hk s ++ k) = none ∨ (osView bk dd .base m).isDirAt (off hk s ++ k) := by
    rcases hv with hv | hv
    · exact Or.inl (nview_none_vis (dd := dd) hvis hv)
    · exact Or.inr (nview_isDirAt (dd := dd) hv).2
  obtain ⟨m1, hc, f, hd⟩ := os_mkdirAll_ok (perm := perm) h.r1 hg.os (pk_off h s hk') hp' hv'
  refine ⟨m1, (fwd_mkdirAll h hk' hvis perm).unit_of hc, ?_, ?_⟩
  · intro j hj
    by_cases hhj : NHid hk s j
    · rw [n_hid_none hhj, n_hid_none hhj]
    · rw [nview_eq (dd := dd) hhj, nview_eq (dd := dd) hhj]
      exact f _ (fun e => hj (List.append_cancel_left e))
  · intro hdir
    rw [nview_eq (dd := dd) hvis, nview_eq (dd := dd) hvis]
    exact hd (nview_isDirAt (dd := dd) hdir).2

end
end BFS.N
