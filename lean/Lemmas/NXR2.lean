import Lemmas.NXFoot
import Lemmas.R2Split
import Lemmas.R2Recover
import Lemmas.TNInvB
/-!
  Lemmas/NXR2.lean (copy of the `Sim`-dependent parts of Lemmas/R2Split.lean and of
  Lemmas/R2Recover.lean over `N.Sim`) — the two halves of `Rollback` (`restorePart`, `cleanupPart`,
  `rollback_split`, `CS.*`, `Frozen.*`: shared, they do not depend on the contract), their footprints
  over the nested contract, `N.Inv.recoverable` and `N.rollback_crash_dichotomy`.
-/
namespace BFS.N
open BackupFS

variable {cfg : Cfg} {S : Sim cfg} {v0 : View}

/-- **the restore half never touches the backup** and stays within the base footprint of the tracked
map — whatever the fault plan, whatever it returns; the plan it hands on lists tracked entries only -/
theorem sat_restorePart_foot {w : World} {infos : List (Path × Option Info)} (hg : S.G w.fs)
    (hkeys : ∀ p oi, (p, oi) ∈ infos → ∃ k, PKey k ∧ p = kp k)
    (hroot : (kp [], none) ∉ infos)
    (hnolink : ∀ p i, (p, some i) ∈ infos → i.kind ≠ .link) :
    Sat (restorePart cfg infos) w (fun w' r =>
      S.Foot (BaseFoot (S.view .backup w.fs) infos) (FileFoot (S.view .backup w.fs) infos) (fun _ => False) w w' ∧
        ∀ res, r = .ok res → PlanOK infos res.1) := by
  have hsome : ∀ {p : Path} {i : Info}, p ≠ rootP → (p, some i) ∈ infos → ∃ k, p = kp k ∧ TrackedKey infos k (some i) := by
    intro p i hp hm
    obtain ⟨k, hk, rfl⟩ := hkeys p _ hm
    exact ⟨k, rfl, hk, fun e => hp (by rw [e]; rfl), hm⟩
  have hnone : ∀ {p : Path}, (p, none) ∈ infos → ∃ k, p = kp k ∧ TrackedKey infos k none := by
    intro p hm
    obtain ⟨k, hk, rfl⟩ := hkeys p _ hm
    exact ⟨k, rfl, hk, fun e => hroot (e ▸ hm), hm⟩
  unfold restorePart
  apply Sat.bind
  apply (sat_classify_any S (infos := infos) infos {} w w (fun _ h => h) (SameFS.refl w) hg (PlanOK.empty _)).mono
  intro w1 r ⟨hs1, hplan⟩
  have h1 : S.Foot (BaseFoot (S.view .backup w.fs) infos) (FileFoot (S.view .backup w.fs) infos) (fun _ => False) w w1 := Sim.Foot.of_same hg hs1
  cases r with
  | error e => exact ⟨h1, fun res h => by cases h⟩
  | ok pl =>
    have hpl := hplan pl rfl
    simp only
    refine ⟨?_, fun res h => by rw [restoreLoops_fst cfg infos pl w1 res h]; exact hpl⟩
    show Sat (restoreLoops cfg infos pl) w1 (fun w' _ => S.Foot (BaseFoot (S.view .backup w.fs) infos) (FileFoot (S.view .backup w.fs) infos) (fun _ => False) w w')
    unfold restoreLoops
    -- created entries are removed
    apply Sat.seq (P := S.Foot (BaseFoot (S.view .backup w.fs) infos) (FileFoot (S.view .backup w.fs) infos) (fun _ => False) w) _ (fun _ h => h)
    rotate_left
    · apply sat_forEach_any (P := S.Foot (BaseFoot (S.view .backup w.fs) infos) (FileFoot (S.view .backup w.fs) infos) (fun _ => False) w) _ w1 h1
      intro x hx w' h'
      obtain ⟨k, rfl, ht⟩ := hnone (hpl.rem x ((sortBy_perm _ _).mem_iff.mp hx))
      exact (sat_removeBaseAct_chg h'.good ht.1 ht.2.1).mono (fun _ _ hc => h'.trans
        (Sim.Foot.of_base hc (fun j e => ⟨k, none, ht, Or.inl e⟩) (fun j e => ⟨k, none, ht, Or.inl e⟩)))
    intro e1 w2 h2
    -- directories are restored
    apply Sat.seq (P := S.Foot (BaseFoot (S.view .backup w.fs) infos) (FileFoot (S.view .backup w.fs) infos) (fun _ => False) w) _ (fun _ h => h)
    rotate_left
    · apply sat_forEach_any (P := S.Foot (BaseFoot (S.view .backup w.fs) infos) (FileFoot (S.view .backup w.fs) infos) (fun _ => False) w) _ w2 h2
      intro x hx w' h'
      obtain ⟨hp, i, hm, hkind⟩ := hpl.dirs x ((sortBy_perm _ _).mem_iff.mp hx)
      obtain ⟨k, rfl, ht⟩ := hsome hp hm
      exact (sat_restoreDirAct_frame h'.good ht.1 ht.2.1).mono (fun _ _ hc => h'.trans
        (Sim.Foot.of_dir hc (fun j hj => ⟨k, some i, ht, Or.inr (Or.inr ⟨i, rfl, hkind, hj⟩)⟩)
          ⟨k, some i, ht, Or.inl rfl⟩))
    intro e2 w3 h3
    -- files are restored
    apply Sat.seq (P := S.Foot (BaseFoot (S.view .backup w.fs) infos) (FileFoot (S.view .backup w.fs) infos) (fun _ => False) w) _ (fun _ h => h)
    rotate_left
    · apply sat_forEach_any (P := S.Foot (BaseFoot (S.view .backup w.fs) infos) (FileFoot (S.view .backup w.fs) infos) (fun _ => False) w) _ w3 h3
      intro x hx w' h'
      obtain ⟨hp, i, hm, hkind⟩ := hpl.files x ((sortBy_perm _ _).mem_iff.mp hx)
      obtain ⟨k, rfl, ht⟩ := hsome hp hm
      have hbk : S.view .backup w'.fs = S.view .backup w.fs := funext (fun j => h'.backup j (fun h => h))
      exact (sat_restoreFileAct_chg h'.good ht.1 ht.2.1).mono (fun _ _ hc => h'.trans
        (Sim.Foot.of_base hc (fun j hj => ⟨k, some i, ht, (FileReach.touches hkind (hbk ▸ hj)).touches⟩)
          (fun j hj => ⟨k, some i, ht, FileReach.touches hkind (hbk ▸ hj)⟩)))
    intro e3 w4 h4
    -- no symlink is tracked
    have hnl : ∀ x, x ∈ pl.links → False := by
      intro x hx
      obtain ⟨_, i, hm, hkind⟩ := hpl.links x hx
      exact hnolink x i hm hkind
    apply Sat.seq (P := S.Foot (BaseFoot (S.view .backup w.fs) infos) (FileFoot (S.view .backup w.fs) infos) (fun _ => False) w) _ (fun _ h => h)
    rotate_left
    · apply sat_forEach_any (P := S.Foot (BaseFoot (S.view .backup w.fs) infos) (FileFoot (S.view .backup w.fs) infos) (fun _ => False) w) _ w4 h4
      intro x hx w' h'
      exact absurd ((sortBy_perm _ _).mem_iff.mp hx) (hnl x)
    intro e4 w5 h5
    exact Sat.pure h5

/-- **the clean-up half never touches the base** — whatever the fault plan, whatever it returns -/
theorem sat_cleanupPart_foot {w : World} {r : RestoreRes} (hg : S.G w.fs) (hpk : PlanKeys r.1) :
    Sat (cleanupPart cfg r) w (fun w' _ =>
      S.Foot (fun _ => False) (fun _ => False) (fun _ => True) w w') := by
  unfold cleanupPart
  have h0 : S.Foot (fun _ => False) (fun _ => False) (fun _ => True) w w := Sim.Foot.refl hg
  apply Sat.seq (P := S.Foot (fun _ => False) (fun _ => False) (fun _ => True) w) _ (fun _ h => h)
  rotate_left
  · exact sat_removeBackupPaths_foot h0 (fun p hp => by
      obtain ⟨k, hk, hne, e⟩ := hpk p (Or.inl hp); exact ⟨k, hk, hne, e, trivial⟩)
  intro e5 w6 h6
  apply Sat.seq (P := S.Foot (fun _ => False) (fun _ => False) (fun _ => True) w) _ (fun _ h => h)
  rotate_left
  · exact sat_removeBackupPaths_foot h6 (fun p hp => by
      obtain ⟨k, hk, hne, e⟩ := hpk p (Or.inr (Or.inl hp)); exact ⟨k, hk, hne, e, trivial⟩)
  intro e6 w7 h7
  apply Sat.seq (P := S.Foot (fun _ => False) (fun _ => False) (fun _ => True) w) _ (fun _ h => h)
  rotate_left
  · exact sat_removeBackupPaths_foot h7 (fun p hp => by
      obtain ⟨k, hk, hne, e⟩ := hpk p (Or.inr (Or.inr hp)); exact ⟨k, hk, hne, e, trivial⟩)
  intro e7 w8 h8
  apply Sat.bind
  apply Sat.modifyW
  apply Sat.pure
  exact ⟨h8.good, h8.base, h8.files, h8.backup⟩

/-- the literal per-entry form of the invariant -/
theorem Inv.recoverable {w : World} (h : Inv S v0 w) {k : Key} {node : Node} (hv : v0 k = some node) :
    (w.infos.lookup (kp k) = none ∧ S.view .base w.fs k = some node) ∨
    (∃ i, TS w k i ∧ InfoFor i node ∧
      ∀ c mt, node = .file c mt → ∃ mt', S.view .backup w.fs k = some (.file c mt')) := by
  have hk : PKey k := h.v0_pkey (by rw [hv]; exact Option.some_ne_none _)
  rcases tracked_cases w k with hu | htn | ⟨i, hts⟩
  · exact Or.inl ⟨hu, by rw [h.frame k hk hu]; exact hv⟩
  · have := h.absent k hk htn
    rw [hv] at this; cases this
  · obtain ⟨n, hn, hfor, hcopy⟩ := h.saved k i hk hts
    rw [hv] at hn; cases hn
    exact Or.inr ⟨i, hts, hfor, hcopy⟩

/-- facts about the tracked map that the footprint lemmas ask for -/
theorem Inv.root_not_absent {w : World} (h : Inv S v0 w) : (kp [], none) ∉ w.infos := by
  intro hm
  have hl := h.mem_iff.mp hm
  have := h.absent [] (by intro n hn; cases hn) hl
  obtain ⟨mt, hmt⟩ := h.v0_root
  rw [this] at hmt; cases hmt

theorem Inv.no_link_tracked {w : World} (h : Inv S v0 w) : ∀ p i, (p, some i) ∈ w.infos → i.kind ≠ .link := by
  intro p i hm hkind
  obtain ⟨k, hk, rfl⟩ := h.keys p _ hm
  rcases h.ts_kind hk (h.mem_iff.mp hm) with e | e <;> rw [hkind] at e <;> cases e

/-- under the invariant every key tracked as a regular file has its copy, a regular file, in the
backup: the `RemoveAll` branch of `restoreFile` is dead and the footprint is the named one -/
theorem Inv.copies_intact {w : World} (h : Inv S v0 w) : CopiesIntact (S.view .backup w.fs) w.infos := by
  rintro k i ⟨hk, _, hm⟩ hkind
  obtain ⟨c, mt', _, hb⟩ := h.file_target hk (h.mem_iff.mp hm) hkind
  exact ⟨c, mt', hb⟩

/-- an untracked original lies outside the base footprint of the tracked map: it is not tracked
itself and not above a tracked directory (ancestors of tracked entries are tracked); nothing below
a tracked regular file is in the footprint, the backup copies being intact -/
theorem Inv.untracked_not_in_foot {w : World} (h : Inv S v0 w) {j : Key}
    (hu : w.infos.lookup (kp j) = none) (_hv : v0 j ≠ none) : ¬ BaseFoot (S.view .backup w.fs) w.infos j := by
  intro hf
  obtain ⟨k, oi, ⟨hk, hne, hm⟩, ht⟩ := hf.named h.copies_intact
  have hl := h.mem_iff.mp hm
  rcases ht with rfl | ⟨i, rfl, hkind, hpre⟩
  · rw [hu] at hl; cases hl
  · exact h.anc k i hk hl j hpre hu

/-- **Rollback under a crash plan.** -/
theorem rollback_crash_dichotomy {w : World} (hinv : Inv S v0 w) {fl : List Fault} (hfl : CrashOnly fl) :
    S.G (rollback cfg (withFaults fl w)).1.fs ∧
    ((∀ k, k ≠ [] → S.view .base (rollback cfg (withFaults fl w)).1.fs k = v0 k) ∨
     ((∀ j, S.view .backup (rollback cfg (withFaults fl w)).1.fs j = S.view .backup w.fs j) ∧
      ∀ j, ¬ BaseFoot (S.view .backup w.fs) w.infos j →
        S.view .base (rollback cfg (withFaults fl w)).1.fs j = S.view .base w.fs j)) := by
  have hkeys := hinv.keys
  have hroot := hinv.root_not_absent
  have hnolink := hinv.no_link_tracked
  -- the restore half under the crash plan
  obtain ⟨res, hres⟩ := restorePart_total cfg w.infos (withFaults fl w)
  have hfoot := (sat_restorePart_foot (S := S) (w := withFaults fl w) (infos := w.infos) hinv.good hkeys hroot hnolink).elim
  obtain ⟨hf1, hplan⟩ := hfoot
  have hpk : PlanKeys res.1 := planOK_keys (hplan res hres) hkeys
  have hsplit : rollback cfg (withFaults fl w) = cleanupPart cfg res (restorePart cfg w.infos (withFaults fl w)).1 := by
    rw [rollback_split, M.bind_apply]
    simp only [withFaults_infos]
    cases hrp : restorePart cfg w.infos (withFaults fl w) with
    | mk w1 r =>
      rw [hrp] at hres
      simp only at hres
      subst hres
      rfl
  rw [hsplit]
  cases hcr : crashed (restorePart cfg w.infos (withFaults fl w)).1 with
  | true =>
    -- the crash point lies in the restore half: the clean-up half is frozen
    obtain ⟨hfs, _⟩ := Frozen.cleanupPart (cfg := cfg) res _ hcr
    rw [hfs]
    exact ⟨hf1.good, Or.inr ⟨fun j => hf1.backup j (fun h => h), fun j hj => hf1.base j hj⟩⟩
  | false =>
    -- no primitive of the restore half was refused: it ran as on healthy filesystems
    have hsim := (CS.restorePart (cfg := cfg) hfl w.infos).sim (withFaults [] w) rfl hcr
    have hsim' : restorePart cfg w.infos (withFaults fl w) =
        (withFaults fl (restorePart cfg w.infos (withFaults [] w)).1, (restorePart cfg w.infos (withFaults [] w)).2) := hsim
    have hresn : (restorePart cfg w.infos (withFaults [] w)).2 = .ok res := by
      rw [hsim'] at hres; exact hres
    -- the fault-free Rollback restores, and its clean-up half does not touch the base
    have hinvn : Inv S v0 (withFaults [] w) := hinv.with_faults []
    have hrb := (sat_rollback (cfg := cfg) hinvn rfl).elim
    have hfootn := (sat_restorePart_foot (S := S) (w := withFaults [] w) (infos := w.infos) hinv.good hkeys hroot hnolink).elim
    have hsplitn : rollback cfg (withFaults [] w) = cleanupPart cfg res (restorePart cfg w.infos (withFaults [] w)).1 := by
      rw [rollback_split, M.bind_apply]
      simp only [withFaults_infos]
      cases hrp : restorePart cfg w.infos (withFaults [] w) with
      | mk w1 r =>
        rw [hrp] at hresn
        simp only at hresn
        subst hresn
        rfl
    rw [hsplitn] at hrb
    have hc1 := (sat_cleanupPart_foot (S := S) (r := res) hfootn.1.good hpk).elim
    have hg1' : S.G (restorePart cfg w.infos (withFaults fl w)).1.fs := hf1.good
    have hc2 := (sat_cleanupPart_foot (S := S) (r := res) hg1' hpk).elim
    refine ⟨hc2.good, Or.inl ?_⟩
    intro k hk
    rw [hc2.base k (fun h => h), ← hrb.2.2 k hk, hc1.base k (fun h => h), hsim']
    rfl

end BFS.N
