import Lemmas.JTNum
/-! JSON text layer (C12): objects — `parseMembers` on the encoder's member lists. -/
namespace BFS.JsonText

/-- a rendered value starts with a character that is not whitespace -/
def NoWsHead (l : List Char) : Prop := ∃ c r, l = c :: r ∧ isWs c = false

theorem skipWs_cons_of_not_ws (c : Char) (r : List Char) (h : isWs c = false) :
    skipWs (c :: r) = c :: r := by
  simp [skipWs, h]

theorem skipWs_noWsHead {l : List Char} (h : NoWsHead l) (rest : List Char) :
    skipWs (l ++ rest) = l ++ rest := by
  obtain ⟨c, r, rfl, hc⟩ := h
  exact skipWs_cons_of_not_ws c _ hc

theorem member_eq (k v tail : List Char) :
    member k v ++ tail = '"' :: (encBody k ++ '"' :: ':' :: (v ++ tail)) := by
  simp [member, encStrL]

/-- the last member of an object -/
theorem parseMembers_last {σ : Type} (pv : List Char → σ → List Char → Option (σ × List Char))
    (fuel : Nat) (st st' : σ) (k v rest : List Char) (hv : NoWsHead v)
    (hpv : ∀ rest, Delim rest → pv k st (v ++ rest) = some (st', rest)) :
    parseMembers pv (fuel + 1) st (member k v ++ '}' :: rest) = some (st', rest) := by
  rw [member_eq]
  simp only [parseMembers, if_true, decStr_encBody]
  rw [skipWs_cons_of_not_ws ':' _ (by decide)]
  simp only [if_true]
  rw [skipWs_noWsHead hv, hpv _ ⟨'}', rest, rfl, Or.inr rfl⟩]
  simp only
  rw [skipWs_cons_of_not_ws '}' _ (by decide)]
  simp only [show ('}' : Char) ≠ ',' by decide, if_false, if_true]

/-- a member followed by another one -/
theorem parseMembers_more {σ : Type} (pv : List Char → σ → List Char → Option (σ × List Char))
    (fuel : Nat) (st st' : σ) (k v tail : List Char) (hv : NoWsHead v)
    (hpv : ∀ rest, Delim rest → pv k st (v ++ rest) = some (st', rest)) :
    parseMembers pv (fuel + 1) st (member k v ++ ',' :: '"' :: tail)
      = parseMembers pv fuel st' ('"' :: tail) := by
  rw [member_eq]
  simp only [parseMembers, if_true, decStr_encBody]
  rw [skipWs_cons_of_not_ws ':' _ (by decide)]
  simp only [if_true]
  rw [skipWs_noWsHead hv, hpv _ ⟨',', _, rfl, Or.inl rfl⟩]
  simp only
  rw [skipWs_cons_of_not_ws ',' _ (by decide)]
  simp only [if_true]
  rw [skipWs_cons_of_not_ws '"' _ (by decide)]

/-- a rendered member: key, value text, and what reading it does to the parser state -/
abbrev RMember (σ : Type) := List Char × List Char × (σ → σ)

def renderMembers {σ : Type} (l : List (RMember σ)) : List Char :=
  joinComma (l.map (fun t => member t.1 t.2.1))

theorem renderMembers_cons_cons {σ : Type} (t t' : RMember σ) (l : List (RMember σ)) :
    renderMembers (t :: t' :: l) = member t.1 t.2.1 ++ ',' :: renderMembers (t' :: l) := rfl

theorem renderMembers_head {σ : Type} (t : RMember σ) (l : List (RMember σ)) :
    ∃ r, renderMembers (t :: l) = '"' :: r := by
  cases l with
  | nil => exact ⟨_, by simp [renderMembers, joinComma, member, encStrL]; rfl⟩
  | cons t' l => exact ⟨_, by rw [renderMembers_cons_cons]; simp [member, encStrL]; rfl⟩

/-- a non-empty member list written by the encoder is read member by member -/
theorem parseMembers_render {σ : Type} (pv : List Char → σ → List Char → Option (σ × List Char)) :
    ∀ (l : List (RMember σ)) (t : RMember σ) (st : σ) (rest : List Char) (fuel : Nat),
      (t :: l).length ≤ fuel →
      (∀ u ∈ t :: l, NoWsHead u.2.1 ∧
        ∀ st rest, Delim rest → pv u.1 st (u.2.1 ++ rest) = some (u.2.2 st, rest)) →
      parseMembers pv fuel st (renderMembers (t :: l) ++ '}' :: rest)
        = some ((t :: l).foldl (fun s u => u.2.2 s) st, rest)
  | [], t, st, rest, fuel, hf, h => by
    obtain ⟨f, rfl⟩ : ∃ f, fuel = f + 1 := ⟨fuel - 1, by simp at hf; omega⟩
    obtain ⟨hv, hpv⟩ := h t (by simp)
    simp only [renderMembers, List.map_cons, List.map_nil, joinComma, List.foldl_cons, List.foldl_nil]
    exact parseMembers_last pv f st _ _ _ rest hv (hpv st)
  | t' :: l, t, st, rest, fuel, hf, h => by
    obtain ⟨f, rfl⟩ : ∃ f, fuel = f + 1 := ⟨fuel - 1, by simp at hf; omega⟩
    obtain ⟨hv, hpv⟩ := h t (by simp)
    obtain ⟨r, hr⟩ := renderMembers_head t' l
    rw [renderMembers_cons_cons, List.append_assoc, List.cons_append, hr, List.cons_append,
      parseMembers_more pv f st _ _ _ _ hv (hpv st), ← List.cons_append, ← hr]
    rw [parseMembers_render pv l t' (t.2.2 st) rest f (by simp at hf ⊢; omega)
      (fun u hu => h u (List.mem_cons_of_mem _ hu))]
    rfl

/-- an object written by the encoder, `{` already consumed -/
theorem parseObj_render {σ : Type} (pv : List Char → σ → List Char → Option (σ × List Char))
    (l : List (RMember σ)) (st : σ) (rest : List Char)
    (h : ∀ u ∈ l, NoWsHead u.2.1 ∧
        ∀ st rest, Delim rest → pv u.1 st (u.2.1 ++ rest) = some (u.2.2 st, rest)) :
    parseObj pv st (renderMembers l ++ '}' :: rest) = some (l.foldl (fun s u => u.2.2 s) st, rest) := by
  cases l with
  | nil =>
    simp only [renderMembers, List.map_nil, joinComma, List.nil_append, parseObj, List.foldl_nil]
    rw [skipWs_cons_of_not_ws '}' _ (by decide)]
    simp
  | cons t l =>
    obtain ⟨r, hr⟩ := renderMembers_head t l
    unfold parseObj
    rw [hr, List.cons_append, skipWs_cons_of_not_ws '"' _ (by decide)]
    simp only [show ('"' : Char) ≠ '}' by decide, if_false]
    rw [← List.cons_append, ← hr]
    apply parseMembers_render pv l t st rest _ _ h
    have hlen : (t :: l).length ≤ (renderMembers (t :: l)).length := by
      clear hr h
      induction l generalizing t with
      | nil => obtain ⟨r', hr'⟩ := renderMembers_head t []; rw [hr']; simp
      | cons t' l ih =>
        have := ih t'
        rw [renderMembers_cons_cons]
        simp only [List.length_cons, List.length_append] at this ⊢
        omega
    have : (renderMembers (t :: l) ++ '}' :: rest).length = (r ++ '}' :: rest).length + 1 := by
      rw [hr]; simp
    simp only [List.length_append, List.length_cons] at this hlen ⊢
    omega

end BFS.JsonText
