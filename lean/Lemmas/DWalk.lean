import Lemmas.DHid
import Lemmas.Sort
/-!
  Lemmas/DWalk.lean — a state invariant of `HiddenFS.RemoveAll` over ANY inner filesystem: if `Lstat`
  and `Open` keep `I`, and `Remove(p)` keeps `I` for every name `p` that the hidden check reports
  visible, then the whole program (guard, `Lstat`, the `Walk`, the deepest-first removal of the
  collected directories) keeps `I` — for every name string, every depth bound, whatever it returns.
-/
namespace BFS
namespace D
open HiddenFS

section
variable {σ : Type} (hs : List Path) (inner : FSI σ) (I : σ → Prop)

/-- the accumulator of the walk holds only visible names -/
def AllVisible (a : List Path) : Prop := ∀ d ∈ a, isHidden d hs = .ok false

structure StepInv : Prop where
  lstat : ∀ s p, I s → I (inner.call s (.lstat p)).1
  open_ : ∀ s p, I s → I (inner.call s (.open_ p)).1
  remove : ∀ s p, I s → isHidden p hs = .ok false → I (inner.call s (.remove p)).1

variable {hs inner I}

theorem fsiLstat_inv (H : StepInv hs inner I) (s : σ) (p : Path) (h : I s) : I (fsiLstat inner s p).1 := by
  have := H.lstat s p h
  unfold fsiLstat
  cases hc : inner.call s (.lstat p) with
  | mk s1 r =>
    rw [hc] at this
    cases r with
    | error e => exact this
    | ok v => cases v <;> exact this

theorem fsiReadDirNames_inv (H : StepInv hs inner I) (s : σ) (p : Path) (h : I s) :
    I (fsiReadDirNames inner s p).1 := by
  have := H.open_ s p h
  unfold fsiReadDirNames
  cases hc : inner.call s (.open_ p) with
  | mk s1 r =>
    rw [hc] at this
    cases r with
    | error e => exact this
    | ok v =>
      cases v with
      | handle hd =>
        simp only
        cases inner.hreaddirnames s1 hd <;> exact this
      | unit => exact this
      | info i => exact this
      | str t => exact this

theorem hiddenRemoveFn_inv (H : StepInv hs inner I) (s : σ) (a : List Path) (p : Path) (i : Option Info)
    (e : Option Err) (h : I s) (ha : AllVisible hs a) :
    I (hiddenRemoveFn hs inner s a p i e).1.1 ∧ AllVisible hs (hiddenRemoveFn hs inner s a p i e).1.2 := by
  unfold hiddenRemoveFn
  cases e with
  | some e => exact ⟨h, ha⟩
  | none =>
    simp only
    cases hh : isHidden p hs with
    | error e => exact ⟨h, ha⟩
    | ok b =>
      cases b with
      | true => exact ⟨h, ha⟩
      | false =>
        simp only
        cases i with
        | none => exact ⟨h, ha⟩
        | some i =>
          simp only
          split
          · refine ⟨h, ?_⟩
            intro d hd
            rcases List.mem_append.mp hd with hd | hd
            · exact ha d hd
            · simp only [List.mem_singleton] at hd
              subst hd
              exact hh
          · have htr : HiddenFS.translate hs (.remove p) = .ok (.remove p) := by
              simp only [HiddenFS.translate, bind, Except.bind, pure, Except.pure, hguard_of_visible _ hh]
            rw [htr]
            simp only
            have := H.remove s p h hh
            cases hc : inner.call s (.remove p) with
            | mk s1 r =>
              rw [hc] at this
              cases r <;> exact ⟨this, ha⟩

def RecInv (hs : List Path) (inner : FSI σ) (I : σ → Prop) (fuel : Nat) : Prop :=
  ∀ (s : σ) (a : List Path) (p : Path) (i : Info), I s → AllVisible hs a →
    I (walkRec (fsiWalkOps inner) (hiddenRemoveFn hs inner) fuel s a p i).1.1 ∧
    AllVisible hs (walkRec (fsiWalkOps inner) (hiddenRemoveFn hs inner) fuel s a p i).1.2

def NamesInv (hs : List Path) (inner : FSI σ) (I : σ → Prop) (fuel : Nat) : Prop :=
  ∀ (names : List Name) (s : σ) (a : List Path) (p : Path), I s → AllVisible hs a →
    I (walkNames (fsiWalkOps inner) (hiddenRemoveFn hs inner) fuel s a p names).1.1 ∧
    AllVisible hs (walkNames (fsiWalkOps inner) (hiddenRemoveFn hs inner) fuel s a p names).1.2

theorem namesInv_of_rec (H : StepInv hs inner I) {fuel : Nat} (hrec : RecInv hs inner I fuel) :
    NamesInv hs inner I fuel := by
  intro names
  induction names with
  | nil =>
    intro s a p h ha
    rw [walkNames]
    exact ⟨h, ha⟩
  | cons n rest ih =>
    intro s a p h ha
    rw [walkNames]
    have hl := fsiLstat_inv H s (join p n) h
    cases hls : (fsiWalkOps inner).lstat s (join p n) with
    | mk s1 r1 =>
      rw [show fsiLstat inner s (join p n) = (s1, r1) from hls] at hl
      simp only at hl
      cases r1 with
      | error e =>
        simp only
        have hf := hiddenRemoveFn_inv H s1 a (join p n) none (some e) hl ha
        cases hfe : hiddenRemoveFn hs inner s1 a (join p n) none (some e) with
        | mk sa oe =>
          rw [hfe] at hf
          obtain ⟨s2, a2⟩ := sa
          cases oe with
          | some e' => exact hf
          | none => exact ih s2 a2 p hf.1 hf.2
      | ok fi =>
        simp only
        have hr := hrec s1 a (join p n) fi hl ha
        cases hw : walkRec (fsiWalkOps inner) (hiddenRemoveFn hs inner) fuel s1 a (join p n) fi with
        | mk sa oe =>
          rw [hw] at hr
          obtain ⟨s2, a2⟩ := sa
          cases oe with
          | some e' => exact hr
          | none => exact ih s2 a2 p hr.1 hr.2

theorem walk_inv (H : StepInv hs inner I) : ∀ fuel, RecInv hs inner I fuel ∧ NamesInv hs inner I fuel
  | 0 => by
    have hrec : RecInv hs inner I 0 := by
      intro s a p i h ha
      rw [walkRec]
      exact ⟨h, ha⟩
    exact ⟨hrec, namesInv_of_rec H hrec⟩
  | fuel + 1 => by
    have ih := (walk_inv H fuel).2
    have hrec : RecInv hs inner I (fuel + 1) := by
      intro s a p i h ha
      rw [walkRec]
      have hfn := hiddenRemoveFn_inv H s a p (some i) none h ha
      cases hf : hiddenRemoveFn hs inner s a p (some i) none with
      | mk sa oe =>
        rw [hf] at hfn
        obtain ⟨s1, a1⟩ := sa
        cases oe with
        | some e => exact hfn
        | none =>
          simp only
          split
          · exact hfn
          · have hrd := fsiReadDirNames_inv H s1 p hfn.1
            cases hr : (fsiWalkOps inner).readDirNames s1 p with
            | mk s2 r2 =>
              rw [show fsiReadDirNames inner s1 p = (s2, r2) from hr] at hrd
              simp only at hrd
              cases r2 with
              | error e => exact hiddenRemoveFn_inv H s2 a1 p (some i) (some e) hrd hfn.2
              | ok names => exact ih names s2 a1 p hrd hfn.2
    exact ⟨hrec, namesInv_of_rec H hrec⟩

theorem walkTree_inv (H : StepInv hs inner I) (fuel : Nat) (s : σ) (p : Path) (h : I s) :
    I (walkTree (fsiWalkOps inner) (hiddenRemoveFn hs inner) fuel s [] p).1.1 ∧
    AllVisible hs (walkTree (fsiWalkOps inner) (hiddenRemoveFn hs inner) fuel s [] p).1.2 := by
  have ha : AllVisible hs [] := fun _ hd => by cases hd
  unfold walkTree
  have hl := fsiLstat_inv H s p h
  cases hls : (fsiWalkOps inner).lstat s p with
  | mk s1 r1 =>
    rw [show fsiLstat inner s p = (s1, r1) from hls] at hl
    simp only at hl
    cases r1 with
    | error e => exact hiddenRemoveFn_inv H s1 [] p none (some e) hl ha
    | ok info => exact (walk_inv H fuel).1 s1 [] p info hl ha

theorem hiddenRemoveDirs_inv (H : StepInv hs inner I) :
    ∀ (ds : List Path) (s : σ), I s → AllVisible hs ds → I (hiddenRemoveDirs hs inner s ds).1
  | [], s, h, _ => by rw [hiddenRemoveDirs]; exact h
  | d :: ds, s, h, ha => by
    rw [hiddenRemoveDirs]
    have hrest : AllVisible hs ds := fun x hx => ha x (List.mem_cons_of_mem _ hx)
    cases isParentOfHidden d hs with
    | error e => exact h
    | ok b =>
      cases b with
      | true => exact hiddenRemoveDirs_inv H ds s h hrest
      | false =>
        simp only
        have := H.remove s d h (ha d (by simp))
        cases hc : inner.call s (.remove d) with
        | mk s1 r =>
          rw [hc] at this
          cases r with
          | error e => exact this
          | ok v => exact hiddenRemoveDirs_inv H ds s1 this hrest

/-- the whole of `HiddenFS.RemoveAll` keeps the invariant -/
theorem hiddenRemoveAll_inv (H : StepInv hs inner I) (fuel : Nat) (s : σ) (name : Path) (h : I s) :
    I (hiddenRemoveAll hs inner fuel s name).1 := by
  unfold hiddenRemoveAll
  cases hg : hguard hs name .hiddenNotExist with
  | error e => exact h
  | ok u =>
    simp only
    have hv := hguard_ok hg
    have hl := H.lstat s name h
    cases hc : inner.call s (.lstat name) with
    | mk s1 r =>
      rw [hc] at hl
      simp only at hl
      cases r with
      | error e => simp only; split <;> exact hl
      | ok v =>
        cases v with
        | info fi =>
          simp only
          split
          · have := H.remove s1 name hl hv
            cases hc2 : inner.call s1 (.remove name) with
            | mk s2 r2 =>
              rw [hc2] at this
              cases r2 <;> exact this
          · have hw := walkTree_inv H fuel s1 name hl
            cases hwt : walkTree (fsiWalkOps inner) (hiddenRemoveFn hs inner) fuel s1 [] name with
            | mk sa oe =>
              rw [hwt] at hw
              obtain ⟨s2, dirs⟩ := sa
              cases oe with
              | some e => exact hw.1
              | none =>
                simp only
                apply hiddenRemoveDirs_inv H _ s2 hw.1
                intro d hd
                unfold sortMost at hd
                exact hw.2 d ((sortBy_perm _ _).mem_iff.mp hd)
        | unit => exact hl
        | handle hd => exact hl
        | str t => exact hl

end
end D
end BFS
