import Lemmas.SimOSLaws4
/-!
  Lemmas/SimOSLaws5.lean — `Mkdir`, `Remove`, `RemoveAll`.
-/
namespace BFS
open MFS

section
variable {bk kk : Key}

/-- the wrapper for calls returning no value -/
theorem unit_call_state {m m' : MFS} {s : Side} {c c' : Call} {x : MFS × Except Err Unit} {r : Except Err Ret}
    (hr : Roots bk kk) (htr : PrefixFS.translate (kp (osRoot bk kk s)) c = .ok c') (hos : osCall m c' = liftU x)
    (h : ((osCfg bk kk).side s).call m c = (m', r)) : x = (m', x.2) ∧ r = x.2.map (fun _ => Ret.unit) := by
  rw [side_call_unit hr s m htr hos] at h
  obtain ⟨h1, h2⟩ := Prod.mk.inj h
  exact ⟨Prod.ext h1 rfl, h2.symm⟩

/-! ### `Mkdir` -/

theorem mkdir_mode_lt (perm um : Nat) (sg : Bool) :
    (perm &&& 0o1777) &&& (0o7777 ^^^ um) ||| (if sg then S_ISGID else 0) < 4096 := by
  have h1 : (perm &&& 0o1777) &&& (0o7777 ^^^ um) < 2 ^ 12 :=
    Nat.lt_of_le_of_lt (Nat.le_trans Nat.and_le_left Nat.and_le_right) (by decide)
  have h2 : (if sg then S_ISGID else 0) < 2 ^ 12 := by cases sg <;> decide
  exact Nat.or_lt_two_pow h1 h2

theorem mkdir_spec {m m' : MFS} (s : Side) {k : Key} {t : Path} {perm : Nat} {r : Except Err Unit} (hr : Roots bk kk)
    (hg : OSGood bk kk m) (hk : PKey k) (ht : TextOf t (osRoot bk kk s ++ k)) (h : m.mkdir t perm = (m', r)) :
    OSGood bk kk m' ∧ EqOff m m' (osRoot bk kk s ++ k) ∧
      (r = .ok () → m.get (osRoot bk kk s ++ k) = none ∧ ∃ mt, m'.get (osRoot bk kk s ++ k) = some (.dir mt)) ∧
      (∀ e, r = .error e → m' = m) := by
  unfold MFS.mkdir at h
  rcases namei_below_text s hr hg hk ht false with ⟨n, hn, hnl, hres⟩ | ⟨hne, mt, hn, hp, hres⟩ | ⟨e, hne, hn, hp, hres, he⟩
  · rw [hres] at h
    cases h
    exact ⟨hg, EqOff.refl _ _, (fun e => by cases e), fun _ _ => rfl⟩
  · rw [hres] at h
    simp only [dropLast_append_getLast' hne] at h
    cases h
    have hc := ((hr.pkey s).append hk).getLast hne
    have hnone : m.get ((osRoot bk kk s ++ k).dropLast ++ [(osRoot bk kk s ++ k).getLast hne]) = none := by
      rw [dropLast_append_getLast' hne]; exact hn
    have hgood := good_set_new (n' := .dir ⟨(perm &&& 0o1777) &&& (0o7777 ^^^ m.umask) ||| (if (inheritGid m (osRoot bk kk s ++ k).dropLast).2 then S_ISGID else 0), 0, (inheritGid m (osRoot bk kk s ++ k).dropLast).1, .fresh⟩)
      hg hp hc hnone rfl (mkdir_mode_lt _ _ _)
    rw [dropLast_append_getLast' hne] at hgood
    refine ⟨good_touchDir hgood _, (EqOff.set _ _ _).touch _, fun _ => ⟨hn, ?_⟩, (fun _ e => by cases e)⟩
    rw [touchDir_dir, set_get_self]
    exact ⟨_, rfl⟩
  · rw [hres] at h
    cases h
    exact ⟨hg, EqOff.refl _ _, (fun e => by cases e), fun _ _ => rfl⟩

theorem os_mkdir_frame {m m' : MFS} {s : Side} {k : Key} {perm : Nat} {r : Except Err Ret} (hr : Roots bk kk)
    (hg : OSGood bk kk m) (hk : PKey k) (h : ((osCfg bk kk).side s).call m (.mkdir (kp k) perm) = (m', r)) :
    OSGood bk kk m' ∧ osView bk kk s.other m' = osView bk kk s.other m ∧
      (∀ j, j ≠ k → osView bk kk s m' j = osView bk kk s m j) := by
  obtain ⟨h1, _⟩ := unit_call_state (x := m.mkdir (kp (osRoot bk kk s ++ k)) perm) hr
    (tr_mkdir (hr.pkey s) hk perm) rfl h
  obtain ⟨g1, g2, _⟩ := mkdir_spec s hr hg hk (TextOf.kp _) h1
  exact ⟨g1, frame_of hr g2⟩

/-! ### `Remove` -/

theorem hasChildren_false_iff {m : MFS} (hg : OSGood bk kk m) (K : Key) :
    m.hasChildren K = false ↔ ∀ c, m.get (K ++ [c]) = none := by
  unfold MFS.hasChildren
  rw [List.any_eq_false]
  constructor
  · intro h c
    cases hc : m.get (K ++ [c]) with
    | none => rfl
    | some n =>
      exfalso
      apply h (K ++ [c]) (hg.dom _ n hc)
      simp [parentKey, hc]
  · intro h c _ hp
    simp only [Bool.and_eq_true, decide_eq_true_eq] at hp
    obtain ⟨⟨hne, hpar⟩, hsome⟩ := hp
    have := h (c.getLast hne)
    unfold parentKey at hpar
    rw [← hpar, dropLast_append_getLast' hne] at this
    rw [this] at hsome
    cases hsome

theorem key_ne_roots {s : Side} {k : Key} (hr : Roots bk kk) (hne : k ≠ []) :
    osRoot bk kk s ++ k ≠ bk ∧ osRoot bk kk s ++ k ≠ kk := by
  have h1 : osRoot bk kk s ++ k ≠ osRoot bk kk s := by
    intro e
    have := congrArg List.length e
    simp at this
    exact hne this
  have h2 : osRoot bk kk s ++ k ≠ osRoot bk kk s.other := by
    intro e
    exact hr.apart s k [] (by simpa using e)
  cases s
  · exact ⟨h1, h2⟩
  · exact ⟨h2, h1⟩

theorem remove_spec {m m' : MFS} (s : Side) {k : Key} {r : Except Err Unit} (hr : Roots bk kk)
    (hg : OSGood bk kk m) (hk : PKey k) (hne : k ≠ []) (h : m.remove (kp (osRoot bk kk s ++ k)) = (m', r)) :
    OSGood bk kk m' ∧ EqOff m m' (osRoot bk kk s ++ k) := by
  unfold MFS.remove at h
  have hKne : osRoot bk kk s ++ k ≠ [] := by simp [hne]
  obtain ⟨hb, hkk⟩ := key_ne_roots (s := s) hr hne
  rcases namei_below s hr hg hk false with ⟨n, hn, hnl, hres⟩ | ⟨_, mt, hn, hp, hres⟩ | ⟨e, _, hn, hp, hres, he⟩
  · rw [hres] at h
    simp only [hKne, if_false] at h
    cases n with
    | link t mt => cases hnl
    | dir mt =>
      simp only at h
      split at h
      · cases h; exact ⟨hg, EqOff.refl _ _⟩
      · rename_i hch
        cases h
        have hch' := (hasChildren_false_iff hg _).mp (by simpa using hch)
        exact ⟨good_touchDir (good_set_none hg hch' hb hkk hKne) _, (EqOff.set _ _ _).touch _⟩
    | file c mt =>
      simp only at h
      cases h
      have hch' : ∀ c', m.get (osRoot bk kk s ++ k ++ [c']) = none := fun c' =>
        hg.below_nondir (List.prefix_append _ _) (by simp) hn rfl
      exact ⟨good_touchDir (good_set_none hg hch' hb hkk hKne) _, (EqOff.set _ _ _).touch _⟩
  · rw [hres] at h
    cases h
    exact ⟨hg, EqOff.refl _ _⟩
  · rw [hres] at h
    cases h
    exact ⟨hg, EqOff.refl _ _⟩

theorem os_remove_frame {m m' : MFS} {s : Side} {k : Key} {r : Except Err Ret} (hr : Roots bk kk)
    (hg : OSGood bk kk m) (hk : PKey k) (hne : k ≠ [])
    (h : ((osCfg bk kk).side s).call m (.remove (kp k)) = (m', r)) :
    OSGood bk kk m' ∧ osView bk kk s.other m' = osView bk kk s.other m ∧
      (∀ j, j ≠ k → osView bk kk s m' j = osView bk kk s m j) := by
  obtain ⟨h1, _⟩ := unit_call_state (x := m.remove (kp (osRoot bk kk s ++ k))) hr (tr_remove (hr.pkey s) hk) rfl h
  obtain ⟨g1, g2⟩ := remove_spec s hr hg hk hne h1
  exact ⟨g1, frame_of hr g2⟩

theorem os_remove_ok {m : MFS} {s : Side} {k : Key} (hr : Roots bk kk) (hg : OSGood bk kk m) (hk : PKey k)
    (hne : k ≠ [])
    (hv : (osView bk kk s m).isFileAt k ∨ ((osView bk kk s m).isDirAt k ∧ ¬ (osView bk kk s m).hasChild k)) :
    ∃ m', ((osCfg bk kk).side s).call m (.remove (kp k)) = (m', .ok .unit) ∧ osView bk kk s m' k = none := by
  have hKne : osRoot bk kk s ++ k ≠ [] := by simp [hne]
  rw [side_call_unit hr s m (tr_remove (hr.pkey s) hk) (x := m.remove (kp (osRoot bk kk s ++ k))) rfl]
  have hnone : ∀ P, osView bk kk s ((m.set (osRoot bk kk s ++ k) none).touchDir P) k = none := by
    intro P
    rw [osView_eq, touchDir_erase, set_get_self]
    rfl
  unfold MFS.remove
  rcases hv with hv | ⟨hv, hch⟩
  · obtain ⟨c, mt, h0⟩ := osView_isFileAt hv
    rw [namei_live hr hg hk h0]
    simp only [hKne, if_false]
    exact ⟨_, rfl, hnone _⟩
  · obtain ⟨mt, h0⟩ := osView_isDirAt hv
    rw [namei_live hr hg hk h0]
    have hc : m.hasChildren (osRoot bk kk s ++ k) = false := by
      rw [hasChildren_false_iff hg]
      intro c
      cases hcc : m.get (osRoot bk kk s ++ k ++ [c]) with
      | none => rfl
      | some n =>
        exfalso
        apply hch
        refine ⟨c, ?_⟩
        rw [osView_eq, ← List.append_assoc, hcc]
        simp
    simp only [hKne, if_false, hc, Bool.false_eq_true]
    exact ⟨_, rfl, hnone _⟩

/-! ### `RemoveAll` -/

theorem endsWithDot_kp {K : Key} (hK : PKey K) (hne : K ≠ []) : endsWithDot (kp K) = false := by
  cases h : endsWithDot (kp K) with
  | false => rfl
  | true =>
    exfalso
    unfold endsWithDot at h
    simp only [Bool.or_eq_true, Bool.and_eq_true, decide_eq_true_eq] at h
    rcases h with h | ⟨_, h⟩
    · have : isRooted (kp K) = true := isRooted_kp K
      rw [h] at this
      exact absurd this (by decide)
    · have hsp : kp K = (kp K).take ((kp K).length - 2) ++ '/' :: ['.'] := by
        conv => lhs; rw [← List.take_append_drop ((kp K).length - 2) (kp K), h]
      have h1 : (splitSep (kp K)).getLast? = some ['.'] := by
        rw [hsp, splitSep_append]
        have : splitSep ['.'] = [['.']] := by decide
        rw [this, List.getLast?_concat]
      have h2 : splitSep (kp K) = [] :: K := by
        unfold BFS.kp
        rw [splitSep_cons_sep, splitSep_joinSep K hne hK.nameOK]
      rw [h2, List.getLast?_cons_of_ne_nil hne, List.getLast?_eq_some_getLast hne] at h1
      have := (hK.getLast hne).2.2.1
      apply this
      simpa [dot] using h1

/-- off the subtree of `K` the two states agree up to directory timestamps -/
def EqOffTree (m m' : MFS) (K : Key) : Prop :=
  ∀ K', ¬ K <+: K' → (m'.get K').map eraseMt = (m.get K').map eraseMt

theorem not_prefix_roots {s : Side} {k : Key} (hr : Roots bk kk) (hne : k ≠ []) :
    ¬ osRoot bk kk s ++ k <+: bk ∧ ¬ osRoot bk kk s ++ k <+: kk := by
  have h1 : ¬ osRoot bk kk s ++ k <+: osRoot bk kk s := by
    intro e
    have := e.length_le
    simp at this
    exact hne (List.length_eq_zero_iff.mp (by omega))
  have h2 : ¬ osRoot bk kk s ++ k <+: osRoot bk kk s.other := by
    intro e
    exact hr.disj s (List.IsPrefix.trans (List.prefix_append _ _) e)
  cases s
  · exact ⟨h1, h2⟩
  · exact ⟨h2, h1⟩

theorem removeAll_spec {m m' : MFS} (s : Side) {k : Key} {r : Except Err Unit} (hr : Roots bk kk)
    (hg : OSGood bk kk m) (hk : PKey k) (hne : k ≠ []) (h : m.removeAll (kp (osRoot bk kk s ++ k)) = (m', r)) :
    OSGood bk kk m' ∧ EqOffTree m m' (osRoot bk kk s ++ k) := by
  have hKne : osRoot bk kk s ++ k ≠ [] := by simp [hne]
  unfold MFS.removeAll at h
  simp only [kp_ne_nil, if_false, endsWithDot_kp ((hr.pkey s).append hk) hKne, Bool.false_eq_true] at h
  obtain ⟨hb, hkk⟩ := not_prefix_roots (s := s) hr hne
  rcases namei_below s hr hg hk false with ⟨n, hn, hnl, hres⟩ | ⟨_, mt, hn, hp, hres⟩ | ⟨e, _, hn, hp, hres, he⟩
  · rw [hres] at h
    simp only [hKne, if_false] at h
    cases h
    refine ⟨good_touchDir (good_removeSubtree hg hb hkk) _, ?_⟩
    intro K' hK'
    rw [touchDir_erase, removeSubtree_get_other m hK']
  · rw [hres] at h
    cases h
    exact ⟨hg, fun _ _ => rfl⟩
  · rw [hres] at h
    cases e <;> simp only at h <;> cases h <;> exact ⟨hg, fun _ _ => rfl⟩

theorem Roots.not_under (hr : Roots bk kk) (s : Side) (x : Key) : ¬ osRoot bk kk s <+: osRoot bk kk s.other ++ x := by
  intro h
  rcases List.prefix_or_prefix_of_prefix h (List.prefix_append (osRoot bk kk s.other) x) with h | h
  · exact hr.disj s h
  · exact hr.disj' s h

theorem frame_tree_of {m m' : MFS} {s : Side} {k : Key} (hr : Roots bk kk)
    (h : EqOffTree m m' (osRoot bk kk s ++ k)) :
    osView bk kk s.other m' = osView bk kk s.other m ∧
      (∀ j, ¬ k <+: j → osView bk kk s m' j = osView bk kk s m j) := by
  refine ⟨?_, ?_⟩
  · funext x
    apply h
    intro e
    exact hr.not_under s x (List.IsPrefix.trans (List.prefix_append _ _) e)
  · intro j hj
    apply h
    intro e
    exact hj ((List.prefix_append_right_inj _).mp e)

theorem os_removeAll_frame {m m' : MFS} {s : Side} {k : Key} {r : Except Err Ret} (hr : Roots bk kk)
    (hg : OSGood bk kk m) (hk : PKey k) (hne : k ≠ [])
    (h : ((osCfg bk kk).side s).call m (.removeAll (kp k)) = (m', r)) :
    OSGood bk kk m' ∧ osView bk kk s.other m' = osView bk kk s.other m ∧
      (∀ j, ¬ k <+: j → osView bk kk s m' j = osView bk kk s m j) := by
  obtain ⟨h1, _⟩ := unit_call_state (x := m.removeAll (kp (osRoot bk kk s ++ k))) hr
    (tr_removeAll (hr.pkey s) hk) rfl h
  obtain ⟨g1, g2⟩ := removeAll_spec s hr hg hk hne h1
  exact ⟨g1, frame_tree_of hr g2⟩

theorem os_removeAll_ok {m : MFS} {s : Side} {k : Key} (hr : Roots bk kk) (hg : OSGood bk kk m) (hk : PKey k)
    (hne : k ≠ []) (hv : osView bk kk s m k ≠ none) :
    ∃ m', ((osCfg bk kk).side s).call m (.removeAll (kp k)) = (m', .ok .unit) ∧
      (∀ j, k <+: j → osView bk kk s m' j = none) := by
  have hKne : osRoot bk kk s ++ k ≠ [] := by simp [hne]
  obtain ⟨n0, h0⟩ := osView_ne_none hv
  rw [side_call_unit hr s m (tr_removeAll (hr.pkey s) hk) (x := m.removeAll (kp (osRoot bk kk s ++ k))) rfl]
  unfold MFS.removeAll
  simp only [kp_ne_nil, if_false, endsWithDot_kp ((hr.pkey s).append hk) hKne, Bool.false_eq_true]
  rw [namei_live hr hg hk h0]
  simp only [hKne, if_false]
  refine ⟨_, rfl, ?_⟩
  intro j hj
  rw [osView_eq, touchDir_erase, removeSubtree_get_under m ((List.prefix_append_right_inj _).mpr hj)]
  rfl

end
end BFS
