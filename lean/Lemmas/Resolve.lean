import Lemmas.Collect
/-! Structure of `resolvePathWithInfo`. -/
namespace BFS
namespace BackupFS

theorem iterAux_ne_nil : ∀ (p pre : Path), p ≠ [] → iterAux pre p ≠ []
  | [], _, h => absurd rfl h
  | [r], pre, _ => by simp [iterAux]
  | r :: r2 :: rs, pre, _ => by
    simp only [iterAux]
    split
    · simp
    · exact iterAux_ne_nil (r2 :: rs) _ (by simp)

/-- the last prefix `IterateDirTree` visits is the whole path -/
theorem iterAux_getLast : ∀ (p pre : Path), p ≠ [] → (iterAux pre p).getLast? = some (pre ++ p)
  | [], _, h => absurd rfl h
  | [r], pre, _ => by simp [iterAux]
  | r :: r2 :: rs, pre, _ => by
    have ih := iterAux_getLast (r2 :: rs) (pre ++ [r]) (by simp)
    have hne := iterAux_ne_nil (r2 :: rs) (pre ++ [r]) (by simp)
    simp only [iterAux]
    split
    · rw [List.getLast?_cons_of_ne_nil hne] at *
      rw [ih]; simp
    · rw [ih]; simp
where
  List.getLast?_cons_of_ne_nil {α} {a : α} {l : List α} (h : l ≠ []) : (a :: l).getLast? = l.getLast? := by
    cases l with
    | nil => exact absurd rfl h
    | cons b t => simp [List.getLast?_cons_cons]

theorem iterateDirTree_getLast (p : Path) (h : p ≠ []) : (iterateDirTree p).getLast? = some p := by
  unfold iterateDirTree
  have := iterAux_getLast p [] h
  simpa using this

/-- a configuration in which `Lstat` on the base never reports a symlink (at the states at hand) -/
def NoLinksSeen (cfg : Cfg) : Prop :=
  ∀ (w w' : World) (p : Path) (i : Info), primInfo cfg .base (.lstat p) w = (w', .ok i) → i.isSymlink = false

/-- T16.3 (no-link case) without symlinks resolution is the identity on the list of prefixes:
the loop returns the last element it was given -/
theorem resolveLoop_no_links (cfg : Cfg) (hnl : NoLinksSeen cfg) :
    ∀ (fuel : Nat) (l : List Path) (last : Path) (fi : Option Info) (w w' : World) (r : Path) (o : Option Info),
      l.length < fuel → resolveLoop cfg fuel l last fi w = (w', .ok (r, o)) → r = l.getLast?.getD last
  | 0, l, _, _, _, _, _, _, hlen, _ => by omega
  | _ + 1, [], last, fi, w, w', r, o, _, h => by
    simp only [resolveLoop, M.pure_apply, Prod.mk.injEq, Except.ok.injEq] at h
    simp [h.2.1]
  | fuel + 1, p :: rest, last, fi, w, w', r, o, hlen, h => by
    unfold resolveLoop at h
    obtain ⟨res, w1, hres, h⟩ := M.bind_ok_inv h
    rw [attempt_apply] at hres
    simp only [Prod.mk.injEq, Except.ok.injEq] at hres
    obtain ⟨hw1, hres⟩ := hres
    cases res with
    | error e =>
      simp only at h
      split at h
      · simp only [M.pure_apply, Prod.mk.injEq, Except.ok.injEq] at h
        rw [← h.2.1]
        obtain ⟨x, hx⟩ : ∃ x, (p :: rest).getLast? = some x := by
          cases hgl : (p :: rest).getLast? with
          | none => simp at hgl
          | some x => exact ⟨x, rfl⟩
        rw [hx]; rfl
      · simp [M.throw] at h
    | ok i =>
      have hi : i.isSymlink = false := hnl w (primInfo cfg .base (.lstat p) w).1 p i (by
        cases hp : primInfo cfg .base (.lstat p) w with
        | mk wa ra => rw [hp] at hres; simp only at hres; rw [hres])
      simp only [hi, Bool.false_eq_true, if_false] at h
      have := resolveLoop_no_links cfg hnl fuel rest p (some i) w1 w' r o (by simp at hlen; omega) h
      rw [this]
      cases rest with
      | nil => simp
      | cons q qs =>
        rw [List.getLast?_cons_cons]
        obtain ⟨x, hx⟩ : ∃ x, (q :: qs).getLast? = some x := by
          cases hgl : (q :: qs).getLast? with
          | none => simp at hgl
          | some x => exact ⟨x, rfl⟩
        rw [hx]; rfl

end BackupFS
end BFS
