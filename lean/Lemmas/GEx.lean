import Lemmas.GTx
import Lemmas.F16Ex
/-!
  Lemmas/GEx.lean — decidable sufficient tests for the clauses of `G.Op.Covered` on concrete states
  (used by the non-vacuity example of Props/C01G.lean).
-/
namespace BFS
namespace L
namespace G
open BackupFS F16

instance (bk kk : Key) (s : Side) (k : Key) (t : Path) : Decidable (osLinkOK bk kk s k t) := by
  unfold osLinkOK; exact inferInstance

/-- a disk given as a list holds no symlink at or below `kk` -/
theorem listDisk_no_links_below {kk : Key} {l : List (Key × Node)}
    (h : l.all (fun e => !(kk.isPrefixOf e.1) || !e.2.isLink) = true) :
    ∀ k t mt, (listDisk l).get (kk ++ k) ≠ some (.link t mt) := by
  intro k t mt hget
  have hm := lookup_mem hget
  have := List.all_eq_true.mp h _ hm
  have hp : kk.isPrefixOf (kk ++ k) = true := List.isPrefixOf_iff_prefix.mpr (List.prefix_append _ _)
  simp [hp, Node.isLink] at this

theorem notLinkAt_of {cfg : Cfg} {S : LSim cfg} {bk : Key} {w : World} {k r : Key} {n : Option Node}
    (hr : rk bk w k = r) (hv : S.view .base w.fs r = n) (hn : ∀ t mt, n ≠ some (.link t mt)) :
    NotLinkAt S w (rk bk w k) := by
  rintro ⟨t, mt, h⟩
  rw [hr, hv] at h
  exact hn t mt h

theorem linkOKAt_of {cfg : Cfg} {S : LSim cfg} {bk : Key} {w : World} {k r : Key} {n : Option Node}
    (hr : rk bk w k = r) (hv : S.view .base w.fs r = n)
    (hn : ∀ t mt, n = some (.link t mt) → S.LinkOK .base r t) :
    LinkOKAt S w (rk bk w k) := by
  intro t mt h
  rw [hr] at h ⊢
  rw [hv] at h
  exact hn t mt h

/-- the tracked keys are `ks`, none of which lies strictly below `K` -/
theorem noneBelow_of_keys {w : World} {K : Key} {ks : List Key} (hl : w.infos.map Prod.fst = ks.map kp)
    (hks : ∀ j ∈ ks, PKey j) (h : ks.all (fun j => !(K.isPrefixOf j) || j == K) = true) : NoneBelow w K := by
  intro j hj ht hpre
  have hm : kp j ∈ w.infos.map Prod.fst := by
    apply Classical.byContradiction
    intro hn
    apply ht
    generalize w.infos = l at hn
    induction l with
    | nil => rfl
    | cons a l ih =>
      obtain ⟨p, x⟩ := a
      simp only [List.map_cons, List.mem_cons, not_or] at hn
      have : (kp j == p) = false := by simpa using hn.1
      simp only [List.lookup, this]
      exact ih hn.2
  rw [hl] at hm
  obtain ⟨j', hj', e⟩ := List.mem_map.mp hm
  have := kp_inj (hks j' hj') hj e
  subst this
  have := List.all_eq_true.mp h _ hj'
  have hp : K.isPrefixOf j' = true := List.isPrefixOf_iff_prefix.mpr hpre
  simpa [hp] using this

/-- decidable sufficient test for `LOK … r w` on the OS instance: every live symlink at or below
`bk ++ r` is admitted by the base `PrefixFS` -/
def lokB (bk kk : Key) (m : MFS) (r : Key) : Bool :=
  m.dom.all (fun K =>
    match m.get K with
    | some (.link t _) => !((bk ++ r).isPrefixOf K) ||
        decide (osLinkOK bk kk .base (K.drop bk.length) (PrefixFS.readlinkPost (kp bk) t))
    | _ => true)

theorem lok_of_lokB {bk kk : Key} {hbk : PKey bk} {hkk : PKey kk} {hne1 : bk ≠ []} {hne2 : kk ≠ []}
    {hd1 : ¬ bk <+: kk} {hd2 : ¬ kk <+: bk} {w : World} {r : Key} (hg : OSGoodL bk kk w.fs)
    (h : lokB bk kk w.fs r = true) : LOK (osSimL bk kk hbk hkk hne1 hne2 hd1 hd2) r w := by
  intro j t mt hpre hv
  obtain ⟨n0, h0, he⟩ := osViewL_some (bk := bk) (kk := kk) (s := .base) hv
  obtain ⟨raw, m0, rfl, rfl, _⟩ := eraseV_link he
  have h0' : w.fs.get (bk ++ j) = some (.link raw m0) := h0
  have hdom := hg.dom _ _ h0'
  have := List.all_eq_true.mp h _ hdom
  rw [h0'] at this
  have hp : (bk ++ r).isPrefixOf (bk ++ j) = true :=
    List.isPrefixOf_iff_prefix.mpr ((List.prefix_append_right_inj _).mpr hpre)
  simp only [hp, Bool.not_true, Bool.false_or, decide_eq_true_eq, List.drop_left'] at this
  exact this

end G
end L
end BFS
