import Lemmas.NSim
import Lemmas.SimOS
import Lemmas.SimOSDir
import Lemmas.HiddenRC
import Model.NewWithFS
/-!
  Lemmas/NSimOSBase.lean — the nested (README) layering over the OS model: definitions and the
  shape of a call through each of its two sides.

  `nestedCfg bk hk = NewWithFS (PrefixFS (kp bk) osfs) (kp hk)`:
  * base   = `HiddenFS [kp hk]` over `PrefixFS (kp bk)` over the OS — the tree below `bk` with
    the subtree at `hk` masked;
  * backup = `PrefixFS (kp hk)` over `PrefixFS (kp bk)` over the OS — the subtree at `bk ++ hk`.

  Both sides forward to the *inner* filesystem `PrefixFS (kp bk) osfs`, which is the base side of
  `osCfg bk dd` for any directory `dd` disjoint from `bk`; its laws (`Lemmas/SimOSLaws*.lean`)
  and the theorems about `HiddenFS.RemoveAll` (`Lemmas/HiddenRA/RB/RC.lean`, stated over a
  `BFS.Sim`) are reused through the instances `osSim bk dd` and `osSim (bk ++ hk) dd`.
-/
namespace BFS.N
open HiddenFS

/-- the README layering: `NewPrefixFS(osfs, root)`, then `NewWithFS(·, loc)` -/
def nestedCfg (bk hk : Key) : Cfg := newWithFS (prefixFS (kp bk) osfs) (kp hk)

/-- hypotheses on the keys: the base root `bk`, the backup location `hk` below it, and an
auxiliary directory `dd` outside the base root (the anchor of the reused `osSim` instances) -/
structure NRoots (bk hk dd : Key) : Prop where
  pb : PKey bk
  ph : PKey hk
  pd : PKey dd
  nb : bk ≠ []
  nh : hk ≠ []
  nd : dd ≠ []
  d1 : ¬ bk <+: dd
  d2 : ¬ dd <+: bk

section
variable {bk hk dd : Key}

theorem NRoots.r1 (h : NRoots bk hk dd) : Roots bk dd := ⟨h.pb, h.pd, h.nb, h.nd, h.d1, h.d2⟩

theorem NRoots.pbh (h : NRoots bk hk dd) : PKey (bk ++ hk) := h.pb.append h.ph

theorem NRoots.r2 (h : NRoots bk hk dd) : Roots (bk ++ hk) dd := by
  refine ⟨h.pbh, h.pd, by simp [h.nb], h.nd, ?_, ?_⟩
  · intro e
    exact h.d1 (List.IsPrefix.trans (List.prefix_append _ _) e)
  · intro e
    rcases List.prefix_or_prefix_of_prefix e (List.prefix_append bk hk) with h1 | h1
    · exact h.d2 h1
    · exact h.d1 h1

/-- the inner filesystem with its view of everything below `bk` -/
def R (h : NRoots bk hk dd) : BFS.Sim (osCfg bk dd) := osSim bk dd h.pb h.pd h.nb h.nd h.d1 h.d2

theorem RD (h : NRoots bk hk dd) : SimDir (R h) := osSimDir bk dd h.pb h.pd h.nb h.nd h.d1 h.d2

/-! ### views -/

/-- base: the node at `bk ++ k` unless `k` is at or below the hidden location;
backup: the node at `bk ++ hk ++ k` (directory timestamps erased) -/
def nview (bk hk : Key) : Side → MFS → View
  | .base, m => fun k => if hk <+: k then none else (m.get (bk ++ k)).map eraseMt
  | .backup, m => fun k => (m.get (bk ++ hk ++ k)).map eraseMt

/-- hidden keys of a side -/
def NHid (hk : Key) : Side → Key → Prop
  | .base, k => hk <+: k
  | .backup, _ => False

/-- proper ancestors of the hidden location -/
def NPar (hk : Key) : Side → Key → Prop
  | .base, k => k <+: hk ∧ k ≠ hk
  | .backup, _ => False

/-- where a side's root sits below `bk` -/
def off (hk : Key) : Side → Key
  | .base => []
  | .backup => hk

/-- handles: the OS key, and the key is visible -/
def NH (bk hk : Key) (s : Side) (h : Handle) (k : Key) : Prop :=
  h.key = bk ++ (off hk s ++ k) ∧ ¬ NHid hk s k

/-- well-formed disks: as for the disjoint layering (roots `bk`, `dd`), and the backup location
is a directory -/
structure NGood (bk hk dd : Key) (m : MFS) : Prop where
  os : OSGood bk dd m
  loc : ∃ mt, m.get (bk ++ hk) = some (.dir mt)

theorem NGood.os2 {m : MFS} (hg : NGood bk hk dd m) : OSGood (bk ++ hk) dd m :=
  ⟨hg.os.root, hg.os.pkey, hg.os.dom, hg.os.mode, hg.os.parent, hg.loc, hg.os.kdir, by
    intro k t mt hp
    rcases hp with hp | hp
    · exact hg.os.nolink k t mt (Or.inl (List.IsPrefix.trans (List.prefix_append _ _) hp))
    · exact hg.os.nolink k t mt (Or.inr hp)⟩

/-- erased equality of the nodes at `bk ++ j` -/
def FvEq (bk : Key) (m m' : MFS) (j : Key) : Prop :=
  (m'.get (bk ++ j)).map eraseMt = (m.get (bk ++ j)).map eraseMt

theorem nview_base_vis {m : MFS} {k : Key} (hv : ¬ hk <+: k) :
    nview bk hk .base m k = (m.get (bk ++ k)).map eraseMt := by
  simp [nview, hv]

theorem nview_base_hid {m : MFS} {k : Key} (hh : hk <+: k) : nview bk hk .base m k = none := by
  simp [nview, hh]

theorem nview_backup {m : MFS} {k : Key} :
    nview bk hk .backup m k = (m.get (bk ++ (hk ++ k))).map eraseMt := by
  simp [nview]

/-- what the base view shows it shows of the inner view -/
theorem nview_base_some {m : MFS} {k : Key} {n : Node} (h : nview bk hk .base m k = some n) :
    ¬ hk <+: k ∧ osView bk dd .base m k = some n := by
  by_cases hh : hk <+: k
  · rw [nview_base_hid hh] at h; cases h
  · rw [nview_base_vis hh] at h; exact ⟨hh, h⟩

theorem nview_base_ne_none {m : MFS} {k : Key} (h : nview bk hk .base m k ≠ none) :
    ¬ hk <+: k ∧ osView bk dd .base m k ≠ none := by
  by_cases hh : hk <+: k
  · rw [nview_base_hid hh] at h; exact absurd rfl h
  · rw [nview_base_vis hh] at h; exact ⟨hh, h⟩

theorem nview_base_isDirAt {m : MFS} {k : Key} (h : (nview bk hk .base m).isDirAt k) :
    ¬ hk <+: k ∧ (osView bk dd .base m).isDirAt k := by
  obtain ⟨mt, h⟩ := h
  obtain ⟨a, b⟩ := nview_base_some (dd := dd) h
  exact ⟨a, mt, b⟩

theorem nview_base_isFileAt {m : MFS} {k : Key} (h : (nview bk hk .base m).isFileAt k) :
    ¬ hk <+: k ∧ (osView bk dd .base m).isFileAt k := by
  obtain ⟨c, mt, h⟩ := h
  obtain ⟨a, b⟩ := nview_base_some (dd := dd) h
  exact ⟨a, c, mt, b⟩

/-- at a visible key a side shows what the inner filesystem shows at `off ++ k` -/
theorem nview_eq {m : MFS} {s : Side} {k : Key} (hv : ¬ NHid hk s k) :
    nview bk hk s m k = osView bk dd .base m (off hk s ++ k) := by
  cases s with
  | base => exact nview_base_vis hv
  | backup => exact nview_backup

theorem nview_backup_eq {m : MFS} {k : Key} :
    nview bk hk .backup m k = osView bk dd .base m (hk ++ k) := nview_backup

theorem nview_backup_eq2 {m : MFS} {k : Key} :
    nview bk hk .backup m k = osView (bk ++ hk) dd .base m k := rfl

/-! ### prefixes -/

theorem vis_of_prefix {a k : Key} (hv : ¬ hk <+: k) (ha : a <+: k) : ¬ hk <+: a :=
  fun h => hv (List.IsPrefix.trans h ha)

theorem vis_dropLast {k : Key} (hv : ¬ hk <+: k) : ¬ hk <+: k.dropLast :=
  vis_of_prefix hv (List.dropLast_prefix k)

theorem prefix_antisymm {a b : Key} (h1 : a <+: b) (h2 : b <+: a) : a = b :=
  h1.eq_of_length (Nat.le_antisymm h1.length_le h2.length_le)

theorem not_hid_of_par {k : Key} (hp : k <+: hk ∧ k ≠ hk) : ¬ hk <+: k :=
  fun h => hp.2 (prefix_antisymm hp.1 h)

theorem hidK_iff {j : Key} : HidK [hk] j ↔ hk <+: j := by simp [HidK]
theorem parK_iff {j : Key} : ParK [hk] j ↔ (j <+: hk ∧ j ≠ hk) := by simp [ParK]

/-- a key below which a hidden key lies is hidden, the hidden location, or one of its ancestors -/
theorem below_cases {k j : Key} (hkj : k <+: j) (hj : hk <+: j) : hk <+: k ∨ (k <+: hk ∧ k ≠ hk) := by
  rcases List.prefix_or_prefix_of_prefix hkj hj with h | h
  · by_cases e : k = hk
    · exact Or.inl (e ▸ List.prefix_rfl)
    · exact Or.inr ⟨h, e⟩
  · exact Or.inl h

/-! ### the stored hidden list -/

/-- what `NewHiddenFS([kp hk])` stores -/
def nhs (hk : Key) : List Path := HiddenFS.mk [kp hk]

theorem nhidKeys (h : NRoots bk hk dd) : HidKeys (nhs hk) [hk] :=
  hidKeys_mk (hks := [hk]) (by intro x hx; simp at hx; subst hx; exact h.ph)

theorem isHidden_vis (h : NRoots bk hk dd) {k : Key} (hk' : PKey k) (hv : ¬ hk <+: k) :
    isHidden (kp k) (nhs hk) = .ok false := by
  rw [isHidden_kp (nhidKeys h) hk']
  simp [hidK_iff, hv]

theorem isHidden_hid (h : NRoots bk hk dd) {k : Key} (hk' : PKey k) (hh : hk <+: k) :
    isHidden (kp k) (nhs hk) = .ok true := by
  rw [isHidden_kp (nhidKeys h) hk']
  simp [hidK_iff, hh]

theorem hguard_vis (h : NRoots bk hk dd) {k : Key} (hk' : PKey k) (hv : ¬ hk <+: k) (e : Err) :
    hguard (nhs hk) (kp k) e = .ok () := hguard_of_visible e (isHidden_vis h hk' hv)

theorem hguard_hid (h : NRoots bk hk dd) {k : Key} (hk' : PKey k) (hh : hk <+: k) (e : Err) :
    hguard (nhs hk) (kp k) e = .error e := hguard_of_hidden e (isHidden_hid h hk' hh)

/-! ### the two sides as layers over the inner filesystem -/

/-- the inner filesystem `PrefixFS (kp bk) osfs`, in the form the `osSim` laws speak about -/
abbrev inner (bk dd : Key) : FSI MFS := (osCfg bk dd).side .base

theorem side_base : (nestedCfg bk hk).side .base = hiddenFS [kp hk] (inner bk dd) := rfl
theorem side_backup : (nestedCfg bk hk).side .backup = prefixFS (kp hk) (inner bk dd) := rfl

theorem hiddenFS_call {σ} (hps : List Path) (fs : FSI σ) (s : σ) (c : Call) (hnr : ∀ n, c ≠ .removeAll n) :
    (hiddenFS hps fs).call s c =
      (match HiddenFS.translate (HiddenFS.mk hps) c with
       | .error e => (s, .error e)
       | .ok c' => ((fs.call s c').1, (fs.call s c').2.map (hiddenPost c c'))) := by
  cases c <;> first | rfl | exact absurd rfl (hnr _)

/-- a call the hidden check lets through reaches the inner filesystem -/
theorem base_call_ok {m : MFS} {c c' : Call} (hnr : ∀ n, c ≠ .removeAll n)
    (htr : HiddenFS.translate (nhs hk) c = .ok c') :
    ((nestedCfg bk hk).side .base).call m c =
      (((inner bk dd).call m c').1, ((inner bk dd).call m c').2.map (hiddenPost c c')) := by
  unfold nhs at htr
  rw [side_base (dd := dd), hiddenFS_call _ _ _ _ hnr, htr]

/-- a call the hidden check refuses changes nothing -/
theorem base_call_err {m : MFS} {c : Call} {e : Err} (hnr : ∀ n, c ≠ .removeAll n)
    (htr : HiddenFS.translate (nhs hk) c = .error e) :
    ((nestedCfg bk hk).side .base).call m c = (m, .error e) := by
  unfold nhs at htr
  rw [side_base (dd := bk), hiddenFS_call _ _ _ _ hnr, htr]

theorem base_removeAll {m : MFS} {n : Path} :
    ((nestedCfg bk hk).side .base).call m (.removeAll n) =
      liftU (hiddenRemoveAll (nhs hk) (inner bk dd) 64 m (rmName n)) := rfl

theorem prefixFS_call_gen {σ} (pre : Path) (fs : FSI σ) (s : σ) (c : Call) :
    (prefixFS pre fs).call s c =
      (match PrefixFS.translate (PrefixFS.mk pre) c with
       | .error e => (s, .error e)
       | .ok c' => ((fs.call s c').1, (fs.call s c').2.map (prefixPost (PrefixFS.mk pre) c c'))) := rfl

/-- a call through the backup side reaches the inner filesystem with the location prepended -/
theorem backup_call_ok (h : NRoots bk hk dd) {m : MFS} {c c1 : Call}
    (htr : PrefixFS.translate (kp hk) c = .ok c1) :
    ((nestedCfg bk hk).side .backup).call m c =
      (((inner bk dd).call m c1).1, ((inner bk dd).call m c1).2.map (prefixPost (kp hk) c c1)) := by
  rw [side_backup (dd := dd), prefixFS_call_gen, mk_kp h.ph, htr]

theorem backup_call_err (h : NRoots bk hk dd) {m : MFS} {c : Call} {e : Err}
    (htr : PrefixFS.translate (kp hk) c = .error e) :
    ((nestedCfg bk hk).side .backup).call m c = (m, .error e) := by
  rw [side_backup (dd := dd), prefixFS_call_gen, mk_kp h.ph, htr]

/-- the inner call and the call of the one-layer `PrefixFS (kp (bk ++ hk)) osfs` reach the OS
with the same translated call: same resulting state -/
theorem inner_state_eq (h : NRoots bk hk dd) {m : MFS} {c c1 c2 : Call}
    (h1 : PrefixFS.translate (kp bk) c1 = .ok c2) (h2 : PrefixFS.translate (kp (bk ++ hk)) c = .ok c2) :
    (((osCfg (bk ++ hk) dd).side .base).call m c).1 = ((inner bk dd).call m c1).1 := by
  rw [side_call h.r2 .base m h2, side_call h.r1 .base m h1]

/-! ### handle primitives pass through -/

theorem side_hread' (s : Side) : ((nestedCfg bk hk).side s).hread = MFS.hread := by cases s <;> rfl
theorem side_hwrite' (s : Side) : ((nestedCfg bk hk).side s).hwrite = MFS.hwrite := by cases s <;> rfl
theorem side_hstat' (s : Side) : ((nestedCfg bk hk).side s).hstat = MFS.hstat := by cases s <;> rfl
theorem backup_hreaddirnames : ((nestedCfg bk hk).side .backup).hreaddirnames = MFS.hreaddirnames := rfl
theorem base_hreaddirnames (m : MFS) (hd : Handle) :
    ((nestedCfg bk hk).side .base).hreaddirnames m hd =
      (match MFS.hreaddirnames m hd with
       | .error e => .error e
       | .ok names => hiddenFilter (nhs hk) hd.lname names) := rfl

theorem hiddenFilter_sub (hs : List Path) (d : Path) : ∀ (l r : List Name), hiddenFilter hs d l = .ok r →
    ∀ n ∈ r, n ∈ l
  | [], r, h => by
    simp only [hiddenFilter] at h
    cases h
    intro n hn; cases hn
  | x :: xs, r, h => by
    unfold hiddenFilter at h
    split at h
    · cases h
    · rename_i hid _
      split at h
      · cases h
      · rename_i rest hrest
        cases h
        intro n hn
        have ih := hiddenFilter_sub hs d xs rest hrest
        split at hn
        · exact List.mem_cons_of_mem _ (ih n hn)
        · rcases List.mem_cons.mp hn with e | hn
          · rw [e]; simp
          · exact List.mem_cons_of_mem _ (ih n hn)

end
end BFS.N
