import Lemmas.NLInv
/-!
  Lemmas/NLTrack.lean (copy of Lemmas/LTrack.lean over `NL.Sim`) — `backupRequired`, `backupDirs`, `tryBackup` (incl. its symlink branch),
  `realPath` and `prepare` over an `Sim`: for a key none of whose proper ancestors is a symlink in
  the base view they preserve the invariant under every fault plan, never change the base view, only
  track prefixes of the key, and on success leave the resolved path tracked.
-/
namespace BFS
namespace NL
open BackupFS

variable {cfg : Cfg} {S : Sim cfg} {v0 : View}

/-! ### backupRequired -/

theorem sat_backupRequired {k : Key} {w : World} (hinv : Inv S v0 w) (hk : PKey k)
    (hacc : NoLinkAnc (S.view .base w.fs) k) :
    Sat (backupRequired cfg (kp k)) w (fun w' r => Adv S v0 w w' ∧ OnlyAdded (· = k) w w' ∧
      ∀ oi req, r = .ok (oi, req) →
        (req = false → w'.infos.lookup (kp k) = some oi) ∧
        (req = true → w'.infos.lookup (kp k) = none ∧
          ∃ i n, oi = some i ∧ S.view .base w'.fs k = some n ∧ InfoForL i n)) := by
  unfold backupRequired lookupInfo
  apply Sat.bind
  apply Sat.bind
  apply Sat.getW
  simp only
  apply Sat.pure
  simp only
  cases hl : w.infos.lookup (kp k) with
  | some info =>
    simp only
    apply Sat.pure
    refine ⟨Adv.refl hinv, OnlyAdded.refl w, ?_⟩
    intro oi req h
    cases h
    exact ⟨fun _ => hl, fun h => by cases h⟩
  | none =>
    simp only
    apply Sat.bind
    apply Sat.attempt
    apply (sat_lstat hinv.good hk hacc).mono
    intro w1 r ⟨hs, hr⟩
    have hinv1 := hinv.of_same hs
    have hl1 : w1.infos.lookup (kp k) = none := by rw [hs.infos]; exact hl
    simp only
    rcases hr with ⟨n, i, hv, rfl, hfor⟩ | ⟨hv, e, rfl, hnf⟩ | ⟨rfl, hf⟩
    · simp only
      apply Sat.pure
      refine ⟨Adv.of_same hinv hs, OnlyAdded.of_infos hs.infos, ?_⟩
      intro oi req h
      cases h
      exact ⟨fun h => (by cases h), fun _ => ⟨hl1, i, n, rfl, (by rw [hs.fs]; exact hv), hfor⟩⟩
    · simp only [hnf, if_true]
      apply Sat.bind
      have hv1 : S.view .base w1.fs k = none := by rw [hs.fs]; exact hv
      apply Sat.of_eq (setInfo_untracked hl1)
      simp only
      apply Sat.pure
      have hadd := Adv.add (S := S) (v0 := v0) (x := none) hk hl1
        (hinv1.add_none hk hl1 hv1 (by rw [hs.fs]; exact hacc))
      refine ⟨(Adv.of_same hinv hs).trans hadd, (OnlyAdded.of_infos hs.infos).trans (OnlyAdded.add hk), ?_⟩
      intro oi req h
      cases h
      exact ⟨fun _ => lookup_snoc_self hl1, fun h => by cases h⟩
    · simp only [Err.isNotFound, Bool.false_eq_true, if_false]
      apply Sat.throw
      refine ⟨Adv.of_same hinv hs, OnlyAdded.of_infos hs.infos, ?_⟩
      intro oi req h; cases h

/-! ### backupDirs -/

theorem sat_copyDir_weak' {s : Side} {d : Key} {i : Info} {w : World} (hg : S.G w.fs) (hd : PKey d)
    (hacc : i.isDir = true → AccF (S.view s w.fs) d) :
    Sat (copyDir cfg s (kp d) i) w (fun w' r => S.Soft s d w w' ∧ (r = .ok () → i.isDir = true)) :=
  ⟨(sat_copyDir_weak hg hd hacc).elim, copyDir_ok_isDir⟩

theorem infoForL_dir {i : Info} {n : Node} (hfor : InfoForL i n) (hd : i.isDir = true) : ∃ mt, n = .dir mt := by
  have hk := hfor.1
  cases n with
  | dir mt => exact ⟨mt, rfl⟩
  | file c mt => simp [Info.isDir, hk, Node.kind] at hd
  | link t mt => simp [Info.isDir, hk, Node.kind] at hd

/-- one step of the `backupDirs` visitor, for a key all of whose proper ancestors are tracked -/
theorem sat_visit_cons {a : Key} {rest : List Path} {w : World} {Q : World → Except Err Unit → Prop}
    (hinv : Inv S v0 w) (ha : PKey a) (hacc : NoLinkAnc (S.view .base w.fs) a)
    (hpre : ∀ b, b <+: a → b ≠ a → Tracked w b)
    (hstop : ∀ w' e, Adv S v0 w w' → OnlyAdded (· = a) w w' → Q w' (.error e))
    (hnext : ∀ w', Adv S v0 w w' → OnlyAdded (· = a) w w' → Tracked w' a →
      Sat (backupDirsVisit cfg rest) w' Q) :
    Sat (backupDirsVisit cfg (kp a :: rest)) w Q := by
  unfold backupDirsVisit
  apply Sat.bind
  apply (sat_backupRequired hinv ha hacc).mono
  intro w1 r ⟨hadv1, hon1, hres⟩
  cases r with
  | error e => exact hstop w1 e hadv1 hon1
  | ok pr =>
    obtain ⟨fi, required⟩ := pr
    obtain ⟨hfalse, htrue⟩ := hres fi required rfl
    simp only
    cases required with
    | false =>
      simp only [Bool.not_false, if_true]
      apply hnext w1 hadv1 hon1
      unfold Tracked
      rw [(hfalse rfl)]
      simp
    | true =>
      simp only [Bool.not_true, Bool.false_eq_true, if_false]
      obtain ⟨hun1, i, n, rfl, hv1, hfor⟩ := htrue rfl
      simp only
      -- the backup side of `a` is not reached through a symlink
      have haccb : i.isDir = true → AccF (S.view .backup w1.fs) a := by
        intro hisd
        obtain ⟨mt, rfl⟩ := infoForL_dir hfor hisd
        refine ⟨hadv1.inv.backup_noLinkAnc ha hun1 (by rw [hv1]; simp)
          (fun b hb hne => (hpre b hb hne).monoNL hadv1), ?_⟩
        exact hadv1.inv.backup_notLink hun1 (isLinkAt_not_dir ⟨mt, hv1⟩)
      apply Sat.bind
      apply (sat_copyDir_weak' (S := S) (s := .backup) (i := i) hadv1.inv.good ha haccb).mono
      intro w2 r2 ⟨hsoft, hisd⟩
      have hadv2 : Adv S v0 w1 w2 := Adv.backup_soft hadv1.inv ha hun1 hsoft
      have hon2 : OnlyAdded (· = a) w1 w2 := OnlyAdded.of_infos hsoft.infos
      cases r2 with
      | error e => exact hstop _ e (hadv1.trans hadv2) (hon1.trans hon2)
      | ok u =>
        simp only
        have hisdir := hisd rfl
        have hun2 : w2.infos.lookup (kp a) = none := by
          rw [hsoft.infos]; exact hun1
        apply Sat.bind
        apply Sat.of_eq (setInfo_untracked hun2)
        simp only
        have hv2 : S.view .base w2.fs a = some n := by
          rw [hadv2.base]; exact hv1
        obtain ⟨mt, hn⟩ := infoForL_dir hfor hisdir
        have hinv3 := hadv2.inv.add_some (i := i) ha hun2 hv2 hfor
          (by intro c mt' e; rw [hn] at e; cases e)
          (by intro t mt' e; rw [hn] at e; cases e)
          (by
            intro b hb hne
            exact ((hpre b hb hne).monoNL hadv1).monoNL hadv2)
        have hadv3 := Adv.add (S := S) (v0 := v0) (x := some i) ha hun2 hinv3
        apply hnext _ ((hadv1.trans hadv2).trans hadv3) ((hon1.trans hon2).trans (OnlyAdded.add ha))
        unfold Tracked
        rw [show (addInfo w2 (kp a) (some i)).infos.lookup (kp a) = some (some i) from
          lookup_snoc_self hun2]
        simp

/-- the visitor over the remaining ancestors `pre ++ [x₁]`, `pre ++ [x₁, x₂]`, … -/
theorem sat_visit : ∀ (xs : List Name) (pre : Key) (w : World), PKey (pre ++ xs) → Inv S v0 w →
    NoLinkAnc (S.view .base w.fs) (pre ++ xs) →
    (∀ b, b <+: pre → Tracked w b) →
    Sat (backupDirsVisit cfg ((inits1 xs).map (fun l => kp (pre ++ l)))) w (fun w' r =>
      Adv S v0 w w' ∧ OnlyAdded (· <+: pre ++ xs) w w' ∧
        (r = .ok () → ∀ b, b <+: pre ++ xs → Tracked w' b))
  | [], pre, w, _, hinv, _, hpre => by
    simp only [inits1, List.map_nil, backupDirsVisit, List.append_nil]
    apply Sat.pure
    exact ⟨Adv.refl hinv, OnlyAdded.refl w, fun _ => hpre⟩
  | x :: xs, pre, w, hpk, hinv, hacc, hpre => by
    have hlist : (inits1 (x :: xs)).map (fun l => kp (pre ++ l)) =
        kp (pre ++ [x]) :: (inits1 xs).map (fun l => kp ((pre ++ [x]) ++ l)) := by
      simp [inits1, List.map_map, Function.comp_def]
    rw [hlist]
    have happ : (pre ++ [x]) ++ xs = pre ++ x :: xs := by simp
    have hpfx : pre ++ [x] <+: pre ++ x :: xs := ⟨xs, happ⟩
    have ha : PKey (pre ++ [x]) := hpk.of_prefix hpfx
    have hsub : ∀ j, j = pre ++ [x] → j <+: pre ++ x :: xs := by
      intro j hj; subst hj; exact hpfx
    apply sat_visit_cons hinv ha (hacc.of_prefix hpfx)
    · intro b hb hne
      rcases prefix_snoc_iff.mp hb with h | h
      · exact hpre b h
      · exact absurd h hne
    · intro w' e hadv hon
      refine ⟨hadv, hon.mono hsub, ?_⟩
      intro h; cases h
    · intro w' hadv hon htr
      have hpre' : ∀ b, b <+: pre ++ [x] → Tracked w' b := by
        intro b hb
        rcases prefix_snoc_iff.mp hb with h | h
        · exact (hpre b h).monoNL hadv
        · subst h; exact htr
      have ih := sat_visit xs (pre ++ [x]) w' (by rw [happ]; exact hpk) hadv.inv
        (by rw [happ, hadv.base]; exact hacc) hpre'
      rw [happ] at ih
      apply ih.mono
      intro w'' r ⟨hadv', hon', hall⟩
      exact ⟨hadv.trans hadv', (hon.mono hsub).trans hon', hall⟩

theorem sat_backupDirs {d : Key} {w : World} (hinv : Inv S v0 w) (hd : PKey d)
    (hacc : NoLinkAnc (S.view .base w.fs) d) :
    Sat (backupDirs cfg (kp d)) w (fun w' r => Adv S v0 w w' ∧ OnlyAdded (· <+: d) w w' ∧
      (r = .ok () → ∀ b, b <+: d → Tracked w' b)) := by
  unfold backupDirs
  rw [iterateDirTree_kp hd]
  have hroot : rootP = kp [] := rfl
  rw [hroot]
  apply sat_visit_cons hinv PKey.nil (NoLinkAnc.root _)
  · intro b hb hne
    exact absurd (List.prefix_nil.mp hb) hne
  · intro w' e hadv hon
    refine ⟨hadv, hon.mono (fun j hj => by subst hj; exact List.nil_prefix), ?_⟩
    intro h; cases h
  · intro w' hadv hon htr
    have := sat_visit (cfg := cfg) d [] w' (by simpa using hd) hadv.inv
      (by simp only [List.nil_append]; rw [hadv.base]; exact hacc)
      (by intro b hb; rw [List.prefix_nil.mp hb]; exact htr)
    simp only [List.nil_append] at this
    apply this.mono
    intro w'' r ⟨hadv', hon', hall⟩
    exact ⟨hadv.trans hadv', (hon.mono (fun j hj => by subst hj; exact List.nil_prefix)).trans hon', hall⟩

/-! ### tryBackup -/

theorem dropLast_prefix' (k : Key) : k.dropLast <+: k := List.dropLast_prefix k

theorem sat_tryBackup {k : Key} {w : World} (hinv : Inv S v0 w) (hk : PKey k)
    (hacc : NoLinkAnc (S.view .base w.fs) k)
    (hlok : ∀ t mt, S.view .base w.fs k = some (.link t mt) → S.LinkOK .base k t) :
    Sat (tryBackup cfg (kp k)) w (fun w' r => Adv S v0 w w' ∧ OnlyAdded (· <+: k) w w' ∧
      (r = .ok () → ∀ b, b <+: k → Tracked w' b)) := by
  unfold tryBackup
  apply Sat.bind
  apply (sat_backupRequired hinv hk hacc).mono
  intro w1 r1 ⟨hadv1, hon1', hres⟩
  have hon1 : OnlyAdded (· <+: k) w w1 := hon1'.mono (fun j hj => by subst hj; exact List.prefix_rfl)
  cases r1 with
  | error e => exact ⟨hadv1, hon1, by intro h; cases h⟩
  | ok pr =>
    obtain ⟨info, needsBackup⟩ := pr
    obtain ⟨hfalse, htrue⟩ := hres info needsBackup rfl
    simp only
    -- the directory whose chain is backed up
    have hdir : ∀ inf : Option Info, ∃ d, PKey d ∧ backupDirPath inf (kp k) = kp d ∧ (d = k ∨ d = k.dropLast) ∧
        (∀ i, inf = some i → i.isDir = true → d = k) ∧ (∀ i, inf = some i → i.isDir = false → d = k.dropLast) := by
      intro inf
      cases inf with
      | none => exact ⟨k.dropLast, hk.dropLast, (by simp [backupDirPath, dir_kp hk]), Or.inr rfl, (by intro i h; cases h), (by intro i h; cases h)⟩
      | some i =>
        cases hd : i.isDir with
        | true =>
          refine ⟨k, hk, (by simp [backupDirPath, hd]), Or.inl rfl, fun _ _ _ => rfl, ?_⟩
          intro i' h h'; cases h; rw [hd] at h'; cases h'
        | false =>
          refine ⟨k.dropLast, hk.dropLast, (by simp [backupDirPath, hd, dir_kp hk]), Or.inr rfl, ?_, fun _ _ _ => rfl⟩
          intro i' h h'; cases h; rw [hd] at h'; cases h'
    obtain ⟨d, hd, hdeq, hdk, hd_dir, hd_file⟩ := hdir info
    rw [hdeq]
    have hdpre : d <+: k := by
      rcases hdk with rfl | rfl
      · exact List.prefix_rfl
      · exact dropLast_prefix' k
    have hacc1 : NoLinkAnc (S.view .base w1.fs) k := by rw [hadv1.base]; exact hacc
    apply Sat.bind
    apply (sat_backupDirs hadv1.inv hd (hacc1.of_prefix hdpre)).mono
    intro w2 r2 ⟨hadv2, hon2, hall⟩
    have hadv12 := hadv1.trans hadv2
    have hon12 : OnlyAdded (· <+: k) w w2 :=
      hon1.trans (hon2.mono (fun j hj => List.IsPrefix.trans hj hdpre))
    cases r2 with
    | error e => exact ⟨hadv12, hon12, by intro h; cases h⟩
    | ok u2 =>
      simp only
      have hall := hall rfl
      have hpref : ∀ w', (∀ b, b <+: d → Tracked w' b) → Tracked w' k → ∀ b, b <+: k → Tracked w' b := by
        intro w' hd' hk' b hb
        by_cases hbk : b = k
        · subst hbk; exact hk'
        · rcases hdk with rfl | rfl
          · exact hd' b hb
          · exact hd' b (prefix_proper_dropLast hb hbk)
      cases needsBackup with
      | false =>
        simp only [Bool.not_false, if_true]
        apply Sat.pure
        refine ⟨hadv12, hon12, fun _ => ?_⟩
        have : Tracked w1 k := by unfold Tracked; rw [hfalse rfl]; simp
        exact hpref w2 hall (this.monoNL hadv2)
      | true =>
        simp only [Bool.not_true, Bool.false_eq_true, if_false]
        obtain ⟨hun1, i, n, rfl, hv1, hfor⟩ := htrue rfl
        simp only
        cases hisd : i.isDir with
        | true =>
          simp only [if_true]
          apply Sat.pure
          refine ⟨hadv12, hon12, fun _ => ?_⟩
          have := hd_dir i rfl hisd
          subst this
          exact hall
        | false =>
          simp only [Bool.false_eq_true, if_false]
          have hdl := hd_file i rfl hisd
          subst hdl
          have hkne : k ≠ [] := by
            intro e; subst e
            obtain ⟨mt', hroot⟩ := S.root_dir (s := .base) hadv1.inv.good
            rw [hroot] at hv1; cases hv1
            simp [Info.isDir, hfor.1, Node.kind] at hisd
          have hun2 : w2.infos.lookup (kp k) = none := by
            cases hl : w2.infos.lookup (kp k) with
            | none => rfl
            | some x =>
              exfalso
              have ht : Tracked w2 k := by unfold Tracked; rw [hl]; simp
              rcases hon2 k hk ht with h | h
              · exact h hun1
              · exact not_prefix_dropLast hkne h
          have hv2 : S.view .base w2.fs k = some n := by rw [hadv2.base]; exact hv1
          have hg2 := hadv2.inv.good
          -- the backup side of `k` is not reached through a symlink
          have haccb2 : NoLinkAnc (S.view .backup w2.fs) k :=
            hadv2.inv.backup_noLinkAnc hk hun2 (by rw [hv2]; simp)
              (fun b hb hne => hall b (prefix_proper_dropLast hb hne))
          cases hreg : i.isRegular with
          | true =>
            simp only [if_true]
            -- the node is a regular file
            obtain ⟨c, mt, hn⟩ : ∃ c mt, n = .file c mt := by
              have hkd := hfor.1
              cases n with
              | file c mt => exact ⟨c, mt, rfl⟩
              | dir mt => simp [Info.isRegular, hkd, Node.kind] at hreg
              | link t mt => simp [Info.isRegular, hkd, Node.kind] at hreg
            subst hn
            apply Sat.bind
            apply (sat_open_ro (S := S) hg2 hk (S.accF_present hg2 hv2 rfl)).mono
            intro w3 r3 ⟨hs3, hwh, _⟩
            have hadv3 : Adv S v0 w w3 := hadv12.trans (Adv.of_same hadv2.inv hs3)
            have hon3 : OnlyAdded (· <+: k) w w3 := hon12.trans (OnlyAdded.of_infos hs3.infos)
            cases r3 with
            | error e => exact ⟨hadv3, hon3, by intro h; cases h⟩
            | ok sf =>
              simp only
              obtain ⟨hside, hH, hflag⟩ := hwh sf rfl
              have hinv3 := hadv3.inv
              have hun3 : w3.infos.lookup (kp k) = none := by rw [hs3.infos]; exact hun2
              have hv3 : S.view .base w3.fs k = some (.file c mt) := by rw [hs3.fs]; exact hv2
              have haccb3 : AccF (S.view .backup w3.fs) k := by
                rw [hs3.fs]
                exact ⟨haccb2, hadv2.inv.backup_notLink hun2 (isLinkAt_not_file ⟨c, mt, hv2⟩)⟩
              apply Sat.bind
              apply Sat.attempt
              -- copy, then record
              have hcopy : Sat (do copyFile cfg .backup (kp k) i sf; setInfo (kp k) (some i) : M Unit) w3
                  (fun w' r => Adv S v0 w3 w' ∧ OnlyAdded (· <+: k) w3 w' ∧ (r = .ok () → Tracked w' k)) := by
                apply Sat.bind
                apply (sat_copyFile (S := S) (s := .backup) (ks := k) (data := c) (mt0 := mt) hinv3.good hk haccb3
                  hside hH (by rw [hflag]; decide) hv3 hreg
                  (by rw [hfor.2.1]; exact S.mode_lt hinv3.good hv3)).mono
                intro w4 r4 ⟨hc4, hp4, _⟩
                have hadv4 : Adv S v0 w3 w4 := Adv.backup_soft hinv3 hk hun3 hc4.soft
                have hon4 : OnlyAdded (· <+: k) w3 w4 := OnlyAdded.of_infos hc4.infos
                cases r4 with
                | error e => exact ⟨hadv4, hon4, by intro h; cases h⟩
                | ok u4 =>
                  simp only
                  have hun4 : w4.infos.lookup (kp k) = none := by rw [hc4.infos]; exact hun3
                  apply Sat.of_eq (setInfo_untracked hun4)
                  have hv4 : S.view .base w4.fs k = some (.file c mt) := by rw [hadv4.base]; exact hv3
                  have hinv5 := hadv4.inv.add_some (i := i) hk hun4 hv4 hfor
                    (by
                      intro c' mt' hn
                      cases hn
                      exact ⟨_, hp4 rfl⟩)
                    (by intro t mt' e; cases e)
                    (by
                      intro b hb hne
                      exact (((hall b (prefix_proper_dropLast hb hne)).monoNL (Adv.of_same hadv2.inv hs3))).monoNL hadv4)
                  refine ⟨hadv4.trans (Adv.add hk hun4 hinv5),
                    hon4.trans ((OnlyAdded.add hk).mono (fun j hj => by subst hj; exact List.prefix_rfl)), fun _ => ?_⟩
                  unfold Tracked
                  rw [show (addInfo w4 (kp k) (some i)).infos.lookup (kp k) = some (some i) from lookup_snoc_self hun4]
                  simp
              apply hcopy.mono
              intro w5 r5 ⟨hadv5, hon5, htr5⟩
              simp only
              apply Sat.bind
              apply Sat.attempt
              apply (sat_hClose (wh := sf) (w := w5)).mono
              intro w6 r6 ⟨hs6, _⟩
              simp only
              have hadv6 : Adv S v0 w w6 := (hadv3.trans hadv5).trans (Adv.of_same hadv5.inv hs6)
              have hon6 : OnlyAdded (· <+: k) w w6 := (hon3.trans hon5).trans (OnlyAdded.of_infos hs6.infos)
              cases r5 with
              | error e => exact ⟨hadv6, hon6, by intro h; cases h⟩
              | ok u5 =>
                cases u5
                refine ⟨hadv6, hon6, fun _ => ?_⟩
                have hk6 : Tracked w6 k := (htr5 rfl).monoNL (Adv.of_same hadv5.inv hs6)
                apply hpref w6 _ hk6
                intro b hb
                exact (((hall b hb).monoNL (Adv.of_same hadv2.inv hs3)).monoNL hadv5).monoNL (Adv.of_same hadv5.inv hs6)
          | false =>
            simp only [Bool.false_eq_true, if_false]
            -- the node is a symlink
            obtain ⟨t, mt, hn⟩ : ∃ t mt, n = .link t mt := by
              have hkd := hfor.1
              cases n with
              | link t mt => exact ⟨t, mt, rfl⟩
              | dir mt => simp [Info.isDir, hkd, Node.kind] at hisd
              | file c mt => simp [Info.isRegular, hkd, Node.kind] at hreg
            subst hn
            have hlink2 : isLinkAt (S.view .base w2.fs) k := ⟨t, mt, hv2⟩
            apply Sat.bind
            have hcs := sat_copySymlink (cfg := cfg) (S := S) (s := .backup) (i := i) hg2 hk haccb2
              (show S.view Side.backup.other w2.fs k = some (.link t mt) from hv2)
            apply hcs.mono
            intro w3 r3 ⟨hc3, hp3, _⟩
            have hadv3' : Adv S v0 w2 w3 := Adv.backup_link hadv2.inv hk hun2 hlink2 hc3
            have hadv3 : Adv S v0 w w3 := hadv12.trans hadv3'
            have hon3 : OnlyAdded (· <+: k) w w3 := hon12.trans (OnlyAdded.of_infos hc3.infos)
            cases r3 with
            | error e => exact ⟨hadv3, hon3, by intro h; cases h⟩
            | ok u3 =>
              simp only
              have hun3 : w3.infos.lookup (kp k) = none := by rw [hc3.infos]; exact hun2
              apply Sat.of_eq (setInfo_untracked hun3)
              have hv3 : S.view .base w3.fs k = some (.link t mt) := by rw [hadv3'.base]; exact hv2
              obtain ⟨mt', hb3, _, _⟩ := hp3 rfl
              have hinv4 := hadv3'.inv.add_some (i := i) hk hun3 hv3 hfor
                (by intro c' mt'' e; cases e)
                (by
                  intro t' mt'' e
                  cases e
                  exact ⟨⟨mt', hb3⟩, hlok t mt (by rw [← hadv12.base]; exact hv2)⟩)
                (by
                  intro b hb hne
                  exact (hall b (prefix_proper_dropLast hb hne)).monoNL hadv3')
              have hadv4 := Adv.add (S := S) (v0 := v0) (x := some i) hk hun3 hinv4
              refine ⟨hadv3.trans hadv4,
                hon3.trans ((OnlyAdded.add hk).mono (fun j hj => by subst hj; exact List.prefix_rfl)), fun _ => ?_⟩
              have hk4 : Tracked (addInfo w3 (kp k) (some i)) k := by
                unfold Tracked
                rw [show (addInfo w3 (kp k) (some i)).infos.lookup (kp k) = some (some i) from lookup_snoc_self hun3]
                simp
              apply hpref _ _ hk4
              intro b hb
              exact ((hall b hb).monoNL hadv3').monoNL hadv4

/-! ### realPath / prepare -/

/-- the list `resolveLoop` runs over: paths of keys, none of which — except possibly the last —
is a symlink in the base view -/
def ResOK (v : View) : List Path → Prop
  | [] => True
  | p :: rest => (∃ a, PKey a ∧ p = kp a ∧ NoLinkAnc v a ∧ (rest ≠ [] → ¬ isLinkAt v a)) ∧ ResOK v rest

theorem sat_resolveLoop : ∀ (fuel : Nat) (l : List Path) (last : Path) (fi : Option Info) (w : World),
    S.G w.fs → ResOK (S.view .base w.fs) l → l.length < fuel →
    Sat (resolveLoop cfg fuel l last fi) w (fun w' r => SameFS w w' ∧
      ∀ p oi, r = .ok (p, oi) → p = l.getLast?.getD last)
  | 0, l, _, _, _, _, _, hlen => by omega
  | _ + 1, [], last, fi, w, _, _, _ => by
    unfold resolveLoop
    apply Sat.pure
    refine ⟨SameFS.refl w, ?_⟩
    intro p oi h; cases h; rfl
  | fuel + 1, p :: rest, last, fi, w, hg, hl, hlen => by
    unfold resolveLoop
    obtain ⟨⟨a, ha, rfl, hacc, hnl⟩, hrest⟩ := hl
    apply Sat.bind
    apply Sat.attempt
    apply (sat_lstat hg ha hacc).mono
    intro w1 r ⟨hs, hr⟩
    simp only
    have hlast : ∀ x, (kp a :: rest).getLast?.getD x = rest.getLast?.getD (kp a) := by
      intro x
      cases rest with
      | nil => rfl
      | cons q qs =>
        rw [List.getLast?_cons_cons]
        cases hq : (q :: qs).getLast? with
        | none => simp at hq
        | some y => rfl
    rcases hr with ⟨n, i, hv, rfl, hfor⟩ | ⟨hv, e, rfl, hnf⟩ | ⟨rfl, hf⟩
    · simp only
      cases hsl : i.isSymlink with
      | false =>
        simp only [Bool.false_eq_true, if_false]
        apply (sat_resolveLoop fuel rest (kp a) (some i) w1 (hs.fs ▸ hg)
          (by rw [hs.fs]; exact hrest) (by simp at hlen; omega)).mono
        intro w2 r2 ⟨hs2, hres⟩
        refine ⟨hs.trans hs2, ?_⟩
        intro p oi h
        rw [hres p oi h, hlast]
      | true =>
        simp only [if_true]
        -- a symlink: it is the last element
        have hlk : isLinkAt (S.view .base w.fs) a := by
          have hkd := hfor.1
          cases n with
          | link t mt => exact ⟨t, mt, hv⟩
          | file c mt => simp [Info.isSymlink, hkd, Node.kind] at hsl
          | dir mt => simp [Info.isSymlink, hkd, Node.kind] at hsl
        have hre : rest = [] := by
          apply Classical.byContradiction
          intro hne
          exact hnl hne hlk
        subst hre
        apply Sat.bind
        have hrl : Sat (primStr cfg .base (.readlink (kp a))) w1 (fun w' _ => SameFS w1 w') := by
          unfold primStr
          apply Sat.bind
          apply (sat_primCall_pure (fun m' r h => S.pure_readlink h)).mono
          intro w2 r2 ⟨hs2, _⟩
          cases r2 with
          | error e => exact hs2
          | ok ret => cases ret <;> exact hs2
        apply hrl.mono
        intro w2 r2 hs2
        cases r2 with
        | error e => exact ⟨hs.trans hs2, by intro p oi h; cases h⟩
        | ok linked =>
          simp only [List.map_nil]
          have : ∀ f, Sat (resolveLoop cfg f [] (kp a) (some i)) w2 (fun w' r => SameFS w w' ∧
              ∀ p oi, r = .ok (p, oi) → p = ([kp a] : List Path).getLast?.getD last) := by
            intro f
            cases f with
            | zero =>
              unfold resolveLoop
              apply Sat.pure
              exact ⟨hs.trans hs2, by intro p oi h; cases h; rfl⟩
            | succ f =>
              unfold resolveLoop
              apply Sat.pure
              exact ⟨hs.trans hs2, by intro p oi h; cases h; rfl⟩
          exact this fuel
    · simp only [hnf, if_true]
      apply Sat.pure
      refine ⟨hs, ?_⟩
      intro p oi h
      cases h
      rw [hlast, hlast]
    · simp only [Err.isNotFound, Bool.false_eq_true, if_false]
      apply Sat.throw
      exact ⟨hs, by intro p oi h; cases h⟩

/-- the chain of a key without symlink ancestors is resolvable -/
theorem resOK_chain {v : View} {k : Key} (hk : PKey k) (hacc : NoLinkAnc v k) :
    ∀ (xs : List Name) (pre : Key), pre ++ xs = k →
      ResOK v ((inits1 xs).map (fun l => kp (pre ++ l)))
  | [], _, _ => trivial
  | x :: xs, pre, he => by
    have hlist : (inits1 (x :: xs)).map (fun l => kp (pre ++ l)) =
        kp (pre ++ [x]) :: (inits1 xs).map (fun l => kp ((pre ++ [x]) ++ l)) := by
      simp [inits1, List.map_map, Function.comp_def]
    rw [hlist]
    have happ : (pre ++ [x]) ++ xs = k := by rw [← he]; simp
    have hpfx : pre ++ [x] <+: k := ⟨xs, happ⟩
    refine ⟨⟨pre ++ [x], hk.of_prefix hpfx, rfl, hacc.of_prefix hpfx, ?_⟩, resOK_chain hk hacc xs (pre ++ [x]) happ⟩
    intro hne
    have hxs : xs ≠ [] := by
      intro e; subst e; simp [inits1] at hne
    apply hacc (pre ++ [x]) hpfx
    intro e
    have := congrArg List.length e
    rw [← happ] at this
    simp at this
    exact hxs this

theorem sat_realPath {name : Path} {k : Key} {w : World} (hg : S.G w.fs) (hk : PKey k)
    (hname : clean name = kp k) (hacc : NoLinkAnc (S.view .base w.fs) k) :
    Sat (realPath cfg name) w (fun w' r => SameFS w w' ∧ ∀ p, r = .ok p → p = kp k) := by
  unfold realPath resolvePathWithInfo
  rw [hname]
  simp only [kp_ne_nil, if_false]
  apply Sat.bind
  have hres : ResOK (S.view .base w.fs) (iterateDirTree (kp k)) := by
    rw [iterateDirTree_kp hk]
    refine ⟨⟨[], PKey.nil, rfl, NoLinkAnc.root _, fun _ => isLinkAt_not_dir (S.root_dir hg)⟩, ?_⟩
    have := resOK_chain (v := S.view .base w.fs) hk hacc k [] (by simp)
    simpa using this
  apply (sat_resolveLoop (S := S) _ (iterateDirTree (kp k)) (kp k) none w hg hres (by omega)).mono
  intro w1 r ⟨hs, hres⟩
  cases r with
  | error e => exact ⟨hs, by intro p h; cases h⟩
  | ok pr =>
    apply Sat.pure
    refine ⟨hs, ?_⟩
    intro p h
    cases h
    rw [hres pr.1 pr.2 rfl, iterateDirTree_getLast _ (kp_ne_nil k)]
    rfl

theorem sat_prepare {name : Path} {k : Key} {w : World} (hinv : Inv S v0 w) (hk : PKey k)
    (hname : clean name = kp k) (hacc : NoLinkAnc (S.view .base w.fs) k)
    (hlok : ∀ t mt, S.view .base w.fs k = some (.link t mt) → S.LinkOK .base k t) :
    Sat (prepare cfg name) w (fun w' r => Adv S v0 w w' ∧ OnlyAdded (· <+: k) w w' ∧
      ∀ p, r = .ok p → p = kp k ∧ ∀ b, b <+: k → Tracked w' b) := by
  unfold prepare
  apply Sat.bind
  apply (sat_realPath (S := S) hinv.good hk hname hacc).mono
  intro w1 r ⟨hs, hres⟩
  have hadv1 := Adv.of_same hinv hs
  have hon1 : OnlyAdded (· <+: k) w w1 := OnlyAdded.of_infos hs.infos
  cases r with
  | error e => exact ⟨hadv1, hon1, by intro p h; cases h⟩
  | ok p =>
    simp only
    have hp := hres p rfl
    subst hp
    apply Sat.bind
    apply (sat_tryBackup hadv1.inv hk (by rw [hs.fs]; exact hacc) (by rw [hs.fs]; exact hlok)).mono
    intro w2 r2 ⟨hadv2, hon2, htr⟩
    cases r2 with
    | error e => exact ⟨hadv1.trans hadv2, hon1.trans hon2, by intro p h; cases h⟩
    | ok u =>
      apply Sat.pure
      refine ⟨hadv1.trans hadv2, hon1.trans hon2, ?_⟩
      intro p h
      cases h
      exact ⟨rfl, htr rfl⟩

end NL
end BFS
