import Lemmas.F16Res
import Lemmas.NLSimOS
/-!
  Lemmas/NG16Def.lean — vocabulary of "names through flat links" in the NESTED (README / `NewWithFS`)
  layering: base = `HiddenFS [kp hk]` over `PrefixFS (kp bk) osfs`, backup = `PrefixFS (kp hk)` over the
  same `PrefixFS`.

  * `FlatN bk hk m` : the flatness predicate of Lemmas/F16Def.lean demanded of the VISIBLE symlinks only
    (at or below the base root `bk`, not at or below the location `bk ++ hk`).  The copies of symlinks
    that a transaction stores below the location are never looked at by `realPath` (their names are
    hidden), and need not be flat.  Decidable; implied by `F16.Flat bk m`.
  * `resN m bk hk`  : the key-level specification of `resolvePathWithInfo` run through the sealing
    `HiddenFS`: `F16.resK`, except that at a component `D ++ [s]` at or below the location the `Lstat` is
    refused with `ErrHiddenNotExist` — an error of the not-found class — so the loop appends the
    remaining components verbatim and stops.
-/
namespace BFS
namespace NG
open MFS F16

/-- the flatness test over the visible symlinks -/
def flatNB (bk hk : Key) (m : MFS) : Bool :=
  m.dom.all (fun K =>
    match m.get K with
    | some (.link t _) => !(bk.isPrefixOf K) || (bk ++ hk).isPrefixOf K || targetOK m bk K t
    | _ => true)

/-- FLAT VISIBLE link topology: every symlink at or below the base root `bk` that is not at or below
the backup location `bk ++ hk` satisfies `F16.targetOK` (non-empty target text of at most 100
components, `..` applied at real directories only, lexical effective target at or below `bk` with no
symlink among its components — the last included; the effective target MAY lie at or below the
location). -/
def FlatN (bk hk : Key) (m : MFS) : Prop := flatNB bk hk m = true

instance (bk hk : Key) (m : MFS) : Decidable (FlatN bk hk m) := inferInstanceAs (Decidable (_ = true))

theorem FlatN.target {bk hk kk : Key} {m : MFS} (hf : FlatN bk hk m) (hg : L.OSGoodL bk kk m) {k : Key} {t : Path}
    {mt : Meta} (hK : m.get (bk ++ k) = some (.link t mt)) (hv : ¬ hk <+: k) : TargetOK m bk (bk ++ k) t := by
  unfold FlatN flatNB at hf
  rw [List.all_eq_true] at hf
  have := hf (bk ++ k) (hg.dom _ _ hK)
  rw [hK] at this
  have h1 : bk.isPrefixOf (bk ++ k) = true := List.isPrefixOf_iff_prefix.mpr (List.prefix_append _ _)
  have h2 : (bk ++ hk).isPrefixOf (bk ++ k) = false := by
    cases h : (bk ++ hk).isPrefixOf (bk ++ k) with
    | false => rfl
    | true => exact absurd ((List.prefix_append_right_inj _).mp (List.isPrefixOf_iff_prefix.mp h)) hv
  simp only [h1, h2, Bool.not_true, Bool.false_or] at this
  exact targetOK_iff.mp this

/-- a disk that is flat altogether is flat in its visible part -/
theorem flatN_of_flat {bk hk : Key} {m : MFS} (h : Flat bk m) : FlatN bk hk m := by
  unfold Flat flatB at h
  unfold FlatN flatNB
  rw [List.all_eq_true] at h ⊢
  intro K hK
  have := h K hK
  split
  · rename_i t mt hget
    rw [hget] at this
    simp only [Bool.or_eq_true] at this ⊢
    rcases this with h1 | h1
    · exact Or.inl (Or.inl h1)
    · exact Or.inr h1
  · rfl

/-- key-level specification of `resolvePathWithInfo` through the sealing `HiddenFS`: `D` is the
location resolved so far, the list holds the caller's remaining components -/
def resN (m : MFS) (bk hk : Key) : Key → List Name → Key
  | D, [] => D
  | D, s :: S =>
    if S = [] then D ++ [s]
    else if hk <+: D ++ [s] then D ++ s :: S
    else
      match m.get (bk ++ D ++ [s]) with
      | some (.dir _) => resN m bk hk (D ++ [s]) S
      | some (.link t _) => resN m bk hk (effK bk (D ++ [s]) t) S
      | _ => D ++ s :: S

section
variable {bk hk : Key} {m : MFS}

theorem resN_single (D : Key) (s : Name) : resN m bk hk D [s] = D ++ [s] := by simp [resN]

theorem resN_hid {D : Key} {s : Name} (S : List Name) (h : hk <+: D ++ [s]) :
    resN m bk hk D (s :: S) = D ++ s :: S := by
  rw [resN]
  split
  · rename_i hS; rw [hS]
  · rfl

theorem resN_dir {D : Key} {s : Name} {S : List Name} (hS : S ≠ []) (hv : ¬ hk <+: D ++ [s]) {mt : Meta}
    (h : m.get (bk ++ D ++ [s]) = some (.dir mt)) : resN m bk hk D (s :: S) = resN m bk hk (D ++ [s]) S := by
  rw [resN]; simp only [hS, if_false, hv, h]

theorem resN_link {D : Key} {s : Name} {S : List Name} (hS : S ≠ []) (hv : ¬ hk <+: D ++ [s]) {t : Path} {mt : Meta}
    (h : m.get (bk ++ D ++ [s]) = some (.link t mt)) :
    resN m bk hk D (s :: S) = resN m bk hk (effK bk (D ++ [s]) t) S := by
  rw [resN]; simp only [hS, if_false, hv, h]

theorem resN_none {D : Key} {s : Name} {S : List Name} (h : m.get (bk ++ D ++ [s]) = none) :
    resN m bk hk D (s :: S) = D ++ s :: S := by
  rw [resN]
  split
  · rename_i hS; rw [hS]
  · split
    · rfl
    · simp only [h]

theorem resN_file {D : Key} {s : Name} {S : List Name} {ct : String} {mt : Meta}
    (h : m.get (bk ++ D ++ [s]) = some (.file ct mt)) : resN m bk hk D (s :: S) = D ++ s :: S := by
  rw [resN]
  split
  · rename_i hS; rw [hS]
  · split
    · rfl
    · simp only [h]

/-- from a location that is not a live directory nothing is resolved any more -/
theorem resN_dead {kk : Key} (hg : L.OSGoodL bk kk m) {D : Key} (hD : ¬ ∃ mt, m.get (bk ++ D) = some (.dir mt)) :
    ∀ S, resN m bk hk D S = D ++ S
  | [] => by simp [resN]
  | s :: S => resN_none (none_below hg hD s [])

/-- a prefix of `D ++ s :: S` that does not have `hk` as a prefix, where `D ++ [s]` has: a prefix of `D` -/
theorem prefix_of_hid {D : Key} {s : Name} {S : List Name} {p : Key} (hh : hk <+: D ++ [s])
    (hp : p <+: D ++ s :: S) (hv : ¬ hk <+: p) : p <+: D := by
  have hw : D ++ s :: S = (D ++ [s]) ++ S := by simp
  rw [hw] at hp
  rcases List.prefix_or_prefix_of_prefix hp (List.prefix_append _ _) with h1 | h1
  · by_cases he : p = D ++ [s]
    · exact absurd (he ▸ hh) hv
    · have := prefix_dropLast h1 he
      rwa [List.dropLast_concat] at this
  · exact absurd (List.IsPrefix.trans hh h1) hv

/-- a result at or below the location stays there when `D ++ [s]` is -/
theorem hid_append {D : Key} {s : Name} (S : List Name) (hh : hk <+: D ++ [s]) : hk <+: D ++ s :: S := by
  have hw : D ++ s :: S = (D ++ [s]) ++ S := by simp
  rw [hw]
  exact List.IsPrefix.trans hh (List.prefix_append _ _)

/-- **outside the location the two specifications agree**: a resolution whose result is not at or
below the location never met the refusal clause -/
theorem resN_eq_resK : ∀ (S : List Name) (D : Key), ¬ hk <+: resN m bk hk D S → resN m bk hk D S = resK m bk D S
  | [], D, _ => by simp [resN, resK]
  | [s], D, _ => by rw [resN_single, resK_single]
  | s :: s' :: S, D, h => by
    have hne : s' :: S ≠ [] := by simp
    by_cases hh : hk <+: D ++ [s]
    · rw [resN_hid _ hh] at h
      exact absurd (hid_append _ hh) h
    · cases hk' : m.get (bk ++ D ++ [s]) with
      | none => rw [resN_none hk', resK_none hk']
      | some n =>
        cases n with
        | file ct mt => rw [resN_file hk', resK_file hk']
        | dir mt =>
          rw [resN_dir hne hh hk'] at h ⊢
          rw [resK_dir hne hk']
          exact resN_eq_resK (s' :: S) _ h
        | link t mt =>
          rw [resN_link hne hh hk'] at h ⊢
          rw [resK_link hne hk']
          exact resN_eq_resK (s' :: S) _ h

/-- the final component is the caller's -/
theorem resN_getLast : ∀ (S : List Name) (D : Key), S ≠ [] → (resN m bk hk D S).getLast? = S.getLast?
  | [], _, h => absurd rfl h
  | [s], D, _ => by rw [resN_single]; simp
  | s :: s' :: S, D, _ => by
    have hS : s' :: S ≠ [] := by simp
    rw [List.getLast?_cons_cons]
    by_cases hh : hk <+: D ++ [s]
    · rw [resN_hid _ hh, getLast?_append_ne _ _ (by simp), List.getLast?_cons_cons]
    · cases hk' : m.get (bk ++ D ++ [s]) with
      | none => rw [resN_none hk', getLast?_append_ne _ _ (by simp), List.getLast?_cons_cons]
      | some n =>
        cases n with
        | file ct mt =>
          rw [resN_file hk', getLast?_append_ne _ _ (by simp), List.getLast?_cons_cons]
        | dir mt => rw [resN_dir hS hh hk']; exact resN_getLast (s' :: S) _ hS
        | link t mt => rw [resN_link hS hh hk']; exact resN_getLast (s' :: S) _ hS

theorem resN_ne {k : Key} (D : Key) (hne : k ≠ []) : resN m bk hk D k ≠ [] := by
  intro e
  have := resN_getLast (m := m) (bk := bk) (hk := hk) k D hne
  rw [e] at this
  cases k with
  | nil => exact hne rfl
  | cons a l =>
    have h2 : (a :: l).getLast? ≠ none := by simp
    exact h2 this.symm

theorem resN_pkey {kk : Key} (hb : PKey bk) (hg : L.OSGoodL bk kk m) (hflat : FlatN bk hk m) :
    ∀ (S : List Name) (D : Key), PKey D → PKey S → PKey (resN m bk hk D S)
  | [], D, hD, _ => by simpa [resN] using hD
  | [s], D, hD, hS => by rw [resN_single]; exact hD.append hS
  | s :: s' :: S, D, hD, hS => by
    have hne : s' :: S ≠ [] := by simp
    have hs : Plain s := hS s (by simp)
    have hS' : PKey (s' :: S) := fun n hn => hS n (List.mem_cons_of_mem _ hn)
    by_cases hh : hk <+: D ++ [s]
    · rw [resN_hid _ hh]; exact hD.append hS
    · cases hk' : m.get (bk ++ D ++ [s]) with
      | none => rw [resN_none hk']; exact hD.append hS
      | some n =>
        cases n with
        | file ct mt => rw [resN_file hk']; exact hD.append hS
        | dir mt => rw [resN_dir hne hh hk']; exact resN_pkey hb hg hflat _ _ (hD.snoc hs) hS'
        | link t mt =>
          rw [resN_link hne hh hk']
          rw [List.append_assoc] at hk'
          have hok := hflat.target hg hk' hh
          exact resN_pkey hb hg hflat _ _ (effK_pkey hb (hD.snoc hs) hok) hS'

/-- no VISIBLE proper ancestor of the resolved path is a symlink -/
theorem resN_nolink {kk : Key} (hg : L.OSGoodL bk kk m) (hflat : FlatN bk hk m) :
    ∀ (S : List Name) (D : Key), NoLinkUpto m (bk ++ D) →
      ∀ p, p <+: resN m bk hk D S → p ≠ resN m bk hk D S → ¬ hk <+: p → ∀ t mt, m.get (bk ++ p) ≠ some (.link t mt)
  | [], D, h => by
    intro p hp _ _
    simp only [resN] at hp
    exact h (bk ++ p) ((List.prefix_append_right_inj _).mpr hp)
  | [s], D, h => by
    intro p hp hne _
    rw [resN_single] at hp hne
    have := prefix_dropLast hp hne
    rw [List.dropLast_concat] at this
    exact h (bk ++ p) ((List.prefix_append_right_inj _).mpr this)
  | s :: s' :: S, D, h => by
    have hne : s' :: S ≠ [] := by simp
    have other : (¬ ∃ mt, m.get (bk ++ D ++ [s]) = some (.dir mt)) →
        (∀ t mt, m.get (bk ++ D ++ [s]) ≠ some (.link t mt)) →
        ∀ p, p <+: D ++ s :: s' :: S → p ≠ D ++ s :: s' :: S → ∀ t mt, m.get (bk ++ p) ≠ some (.link t mt) := by
      intro hnd hnlk p hp _ t mt hget
      have hw : D ++ s :: s' :: S = (D ++ [s]) ++ (s' :: S) := by simp
      rw [hw] at hp
      rcases List.prefix_or_prefix_of_prefix hp (List.prefix_append _ _) with h1 | h1
      · by_cases he : p = D ++ [s]
        · rw [he, ← List.append_assoc] at hget; exact hnlk t mt hget
        · have := prefix_dropLast h1 he
          rw [List.dropLast_concat] at this
          exact h (bk ++ p) ((List.prefix_append_right_inj _).mpr this) t mt hget
      · obtain ⟨Y, rfl⟩ := h1
        cases Y with
        | nil => rw [List.append_nil, ← List.append_assoc] at hget; exact hnlk t mt hget
        | cons c X =>
          have : bk ++ (D ++ [s] ++ c :: X) = (bk ++ D ++ [s]) ++ c :: X := by simp
          rw [this, none_below hg hnd c X] at hget; cases hget
    by_cases hh : hk <+: D ++ [s]
    · rw [resN_hid _ hh]
      intro p hp _ hv
      exact h (bk ++ p) ((List.prefix_append_right_inj _).mpr (prefix_of_hid hh hp hv))
    · cases hk' : m.get (bk ++ D ++ [s]) with
      | none =>
        rw [resN_none hk']
        intro p hp hne' _
        exact other (by rintro ⟨mt, h'⟩; rw [hk'] at h'; cases h') (by intro t mt h'; rw [hk'] at h'; cases h') p hp hne'
      | some n =>
        cases n with
        | file ct mt =>
          rw [resN_file hk']
          intro p hp hne' _
          exact other (by rintro ⟨mt, h'⟩; rw [hk'] at h'; cases h') (by intro t mt h'; rw [hk'] at h'; cases h') p hp hne'
        | dir mt =>
          rw [resN_dir hne hh hk']
          apply resN_nolink hg hflat
          rw [← List.append_assoc]
          exact noLinkUpto_snoc h (by intro t mt' h'; rw [hk'] at h'; cases h')
        | link t mt =>
          rw [resN_link hne hh hk']
          rw [List.append_assoc] at hk'
          have hok := hflat.target hg hk' hh
          apply resN_nolink hg hflat
          rw [effK_spec hok]
          exact hok.nolink

/-- once a prefix of the caller's path resolves to something absent, the rest is appended verbatim -/
theorem resN_tail : ∀ (A : List Name) (D : Key) (T : List Name), A ≠ [] → ¬ hk <+: resN m bk hk D A →
    m.get (bk ++ resN m bk hk D A) = none → resN m bk hk D (A ++ T) = resN m bk hk D A ++ T
  | [], _, _, h, _, _ => absurd rfl h
  | [c], D, T, _, _, hn => by
    rw [resN_single] at hn ⊢
    rw [← List.append_assoc] at hn
    rw [List.singleton_append, resN_none hn]
    simp
  | s :: s' :: A, D, T, _, hv, hn => by
    have hne : s' :: A ≠ [] := by simp
    have hne' : s' :: A ++ T ≠ [] := by simp
    rw [List.cons_append]
    by_cases hh : hk <+: D ++ [s]
    · rw [resN_hid _ hh, resN_hid _ hh]; simp
    · cases hk' : m.get (bk ++ D ++ [s]) with
      | none => rw [resN_none hk', resN_none hk']; simp
      | some n =>
        cases n with
        | file ct mt => rw [resN_file hk', resN_file hk']; simp
        | dir mt =>
          rw [resN_dir hne hh hk'] at hn hv ⊢
          rw [resN_dir hne' hh hk']
          exact resN_tail (s' :: A) _ T hne hv hn
        | link t mt =>
          rw [resN_link hne hh hk'] at hn hv ⊢
          rw [resN_link hne' hh hk']
          exact resN_tail (s' :: A) _ T hne hv hn

/-- a prefix of the name that resolves into the location makes the whole name resolve into it -/
theorem resN_prefix_hid : ∀ (A : List Name) (D : Key) (T : List Name), A ≠ [] → hk <+: resN m bk hk D A →
    hk <+: resN m bk hk D (A ++ T)
  | [], _, _, h, _ => absurd rfl h
  | [c], D, T, _, hh => by
    rw [resN_single] at hh
    rw [List.singleton_append, resN_hid _ hh]
    exact hid_append _ hh
  | s :: s' :: A, D, T, _, hv => by
    have hne : s' :: A ≠ [] := by simp
    have hne' : s' :: A ++ T ≠ [] := by simp
    rw [List.cons_append]
    by_cases hh : hk <+: D ++ [s]
    · rw [resN_hid _ hh]; exact hid_append _ hh
    · cases hk' : m.get (bk ++ D ++ [s]) with
      | none =>
        rw [resN_none hk'] at hv ⊢
        have hw : D ++ s :: (s' :: A ++ T) = (D ++ s :: s' :: A) ++ T := by simp
        rw [hw]; exact List.IsPrefix.trans hv (List.prefix_append _ _)
      | some n =>
        cases n with
        | file ct mt =>
          rw [resN_file hk'] at hv ⊢
          have hw : D ++ s :: (s' :: A ++ T) = (D ++ s :: s' :: A) ++ T := by simp
          rw [hw]; exact List.IsPrefix.trans hv (List.prefix_append _ _)
        | dir mt =>
          rw [resN_dir hne hh hk'] at hv
          rw [resN_dir hne' hh hk']
          exact resN_prefix_hid (s' :: A) _ T hne hv
        | link t mt =>
          rw [resN_link hne hh hk'] at hv
          rw [resN_link hne' hh hk']
          exact resN_prefix_hid (s' :: A) _ T hne hv

end

end NG
end BFS
