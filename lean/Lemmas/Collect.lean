import Lemmas.Keeps
/-! When `forEachCollect` reports no failure, every action succeeded in turn. -/
namespace BFS
namespace BackupFS

/-- every action of the list succeeded, threading the state -/
inductive AllOk {α} (f : α → M Unit) : List α → World → World → Prop
  | nil (w : World) : AllOk f [] w w
  | cons {x : α} {xs : List α} {w w1 w2 : World} :
      f x w = (w1, .ok ()) → AllOk f xs w1 w2 → AllOk f (x :: xs) w w2

theorem forEachCollect_false {α} {f : α → M Unit} : ∀ {xs : List α} {w w' : World},
    forEachCollect f xs w = (w', .ok false) → AllOk f xs w w'
  | [], w, w', h => by
    simp only [forEachCollect, M.pure_apply] at h
    cases h
    exact AllOk.nil w
  | x :: xs, w, w', h => by
    unfold forEachCollect at h
    rw [M.bind_apply, attempt_apply] at h
    simp only at h
    rw [M.bind_apply] at h
    obtain ⟨b, hb⟩ := forEachCollect_total f xs (f x w).1
    cases hrest : forEachCollect f xs (f x w).1 with
    | mk w2 r =>
      rw [hrest] at h hb
      simp only at hb
      subst hb
      simp only [M.pure_apply] at h
      cases hfx : f x w with
      | mk w1 r1 =>
        rw [hfx] at h hrest
        simp only at h hrest
        cases r1 with
        | error e => simp at h
        | ok u =>
          simp only [Prod.mk.injEq, Except.ok.injEq] at h
          obtain ⟨hw, hbf⟩ := h
          subst hw; subst hbf
          exact AllOk.cons (by rw [hfx]) (forEachCollect_false hrest)

end BackupFS
end BFS
