import Lemmas.NXForce
import Lemmas.ForceWalk
/-!
  Lemmas/NXForceWalk.lean (copy of Lemmas/ForceWalk.lean over `N.Sim`) — the recursive branch of `tryRemoveBackup` (the backup holds a *directory*
  at a path the transaction tracks as "did not exist"), which lifts the last hypothesis about the
  backup filesystem from `sat_forceBackup`.

  Everything that branch does happens at or below `k`: backup-side removals and deletions of
  tracking entries (`Below`).  Since `k` did not exist when the transaction began and is not a
  directory now, neither the original nor the current base view has anything strictly below `k`, so
  dropping those entries keeps the invariant — for the original view while the entry of `k` itself
  is still there, for the view re-based at `k` once it is gone (`Inv.below`).
-/
namespace BFS.N
open BackupFS

variable {cfg : Cfg} {S : Sim cfg} {v0 : View}

/-- nothing lives below a key that is not a directory -/
theorem GoodView.below {Hid Par : Key → Prop} {v : View} (h : GoodView Hid Par v) {k : Key} (hk : ¬ v.isDirAt k) :
    ∀ j, k <+: j → j ≠ k → v j = none := by
  have key : ∀ n (t : List Name), t.length = n → t ≠ [] → v (k ++ t) = none := by
    intro n
    induction n with
    | zero => intro t ht hne; exact absurd (List.length_eq_zero_iff.mp ht) hne
    | succ n ih =>
      intro t ht hne
      rcases List.eq_nil_or_concat t with rfl | ⟨t', x, rfl⟩
      · exact absurd rfl hne
      · rw [List.concat_eq_append] at ht ⊢
        apply Classical.byContradiction
        intro hp
        have hd := h.parent (k := k ++ (t' ++ [x])) hp (by simp)
        have hdl : (k ++ (t' ++ [x])).dropLast = k ++ t' := by
          rw [← List.append_assoc, List.dropLast_concat]
        rw [hdl] at hd
        by_cases ht' : t' = []
        · subst ht'; simp at hd; exact hk hd
        · have := ih t' (by simp at ht; omega) ht'
          obtain ⟨mt, hmt⟩ := hd
          rw [this] at hmt; cases hmt
  intro j hj hne
  obtain ⟨t, rfl⟩ := hj
  exact key t.length t rfl (by intro e; subst e; simp at hne)

/-! ### steps confined to the keys at or below `k` -/

/-- from `w` to `w'`: backup-side changes and deleted tracking entries, all at or below `k` -/
structure Below (S : Sim cfg) (k : Key) (w w' : World) : Prop where
  good : S.G w'.fs
  base : S.view .base w'.fs = S.view .base w.fs
  faults : w'.faults = w.faults
  backup : ∀ j, ¬ k <+: j → S.view .backup w'.fs j = S.view .backup w.fs j
  sub : w'.infos.Sublist w.infos
  gone : ∀ p x, (p, x) ∈ w.infos → (p, x) ∉ w'.infos → ∃ j, PKey j ∧ k <+: j ∧ p = kp j

theorem Below.refl {k : Key} {w : World} (hg : S.G w.fs) : Below S k w w :=
  ⟨hg, rfl, rfl, fun _ _ => rfl, List.Sublist.refl _, fun _ _ h h' => absurd h h'⟩

theorem Below.trans {k : Key} {a b c : World} (h1 : Below S k a b) (h2 : Below S k b c) : Below S k a c := by
  refine ⟨h2.good, h2.base.trans h1.base, h2.faults.trans h1.faults,
    fun j hj => (h2.backup j hj).trans (h1.backup j hj), h2.sub.trans h1.sub, ?_⟩
  intro p x hm hn
  by_cases hb : (p, x) ∈ b.infos
  · exact h2.gone p x hb hn
  · exact h1.gone p x hm hb

theorem Below.of_same {k : Key} {w w' : World} (hg : S.G w.fs) (hs : SameFS w w') : Below S k w w' :=
  ⟨hs.fs ▸ hg, (by rw [hs.fs]), hs.faults, fun _ _ => (by rw [hs.fs]), (by rw [hs.infos]; exact List.Sublist.refl _),
    fun p x h h' => absurd (hs.infos ▸ h) h'⟩

theorem Below.of_chg {k : Key} {K : Key → Prop} {w w' : World} (hc : S.Chg .backup K w w')
    (hK : ∀ j, K j → k <+: j) : Below S k w w' :=
  ⟨hc.good, hc.other, hc.faults, fun j hj => hc.frame j (fun h => hj (hK j h)),
    (by rw [hc.infos]; exact List.Sublist.refl _), fun p x h h' => absurd (hc.infos ▸ h) h'⟩

theorem Below.of_del {k j : Key} {w : World} (hg : S.G w.fs) (hj : PKey j) (hkj : k <+: j) :
    Below S k w (delInfo w (kp j)) := by
  refine ⟨hg, rfl, rfl, fun _ _ => rfl, List.filter_sublist, ?_⟩
  intro p x hm hn
  refine ⟨j, hj, hkj, ?_⟩
  apply Classical.byContradiction
  intro hne
  exact hn (List.mem_filter.mpr ⟨hm, by simpa using hne⟩)

/-- an entry that is gone stays gone -/
theorem Below.lookup_none {k : Key} {w w' : World} (h : Below S k w w') {p : Path}
    (hl : w.infos.lookup p = none) : w'.infos.lookup p = none := by
  cases hl' : w'.infos.lookup p with
  | none => rfl
  | some x => exact absurd (h.sub.subset (mem_of_lookup hl')) (not_mem_of_lookup_none hl)

/-- the invariant after steps at or below a key `k` that did not exist when the transaction began
and is not a directory now, for any reference view `v` that agrees with the original off `k` and
shows at `k` the original node (nothing) while `k` is tracked, the current one once it is not -/
theorem Inv.below_aux {w w' : World} {k : Key} {v : View} (h : Inv S v0 w) (hb : Below S k w w')
    (hv0 : v0 k = none) (hnow : ¬ (S.view .base w.fs).isDirAt k)
    (hgv : GoodView (S.Hid .base) (S.Par .base) v) (hoff : ∀ j, j ≠ k → v j = v0 j)
    (hun : w'.infos.lookup (kp k) = none → v k = S.view .base w.fs k)
    (htr : w'.infos.lookup (kp k) ≠ none → v k = v0 k) : Inv S v w' := by
  have horig : ¬ v0.isDirAt k := by
    intro ⟨mt, hmt⟩; rw [hv0] at hmt; cases hmt
  have hnd' : (w'.infos.map Prod.fst).Nodup := List.Nodup.sublist (List.Sublist.map _ hb.sub) h.nodup
  -- entries that survive are the old ones
  have ha : ∀ p x, w'.infos.lookup p = some x → w.infos.lookup p = some x := by
    intro p x hl
    exact lookup_of_mem h.nodup (hb.sub.subset (mem_of_lookup hl))
  -- entries that are gone were at or below `k`
  have hgone : ∀ j, PKey j → w'.infos.lookup (kp j) = none → w.infos.lookup (kp j) = none ∨ k <+: j := by
    intro j hj hl
    cases hl0 : w.infos.lookup (kp j) with
    | none => exact Or.inl rfl
    | some x =>
      right
      obtain ⟨j', hj', hkj', he⟩ := hb.gone (kp j) x (mem_of_lookup hl0) (not_mem_of_lookup_none hl)
      rw [kp_inj hj hj' he]; exact hkj'
  -- a key tracked with a `FileInfo` is not at or below `k`
  have hsaved_off : ∀ j i, PKey j → w.infos.lookup (kp j) = some (some i) → ¬ k <+: j := by
    intro j i hj hl hkj
    obtain ⟨n, hn, _, _⟩ := h.saved j i hj hl
    by_cases hjk : j = k
    · subst hjk; rw [hv0] at hn; cases hn
    · rw [h.v0_below horig j hkj hjk] at hn; cases hn
  have hne_of : ∀ j, ¬ k <+: j → j ≠ k := by
    intro j hj e; subst e; exact hj (List.prefix_refl _)
  refine ⟨hb.good, hgv, ?_, hnd', ?_, ?_, ?_, ?_⟩
  · intro p oi hm
    exact h.keys p oi (hb.sub.subset hm)
  · intro j hj hl
    rw [hb.base]
    by_cases hjk : j = k
    · subst hjk; exact (hun hl).symm
    · rw [hoff j hjk]
      rcases hgone j hj hl with h0 | hkj
      · exact h.frame j hj h0
      · rw [h.v0_below horig j hkj hjk]
        exact (S.goodView h.good .base).below hnow j hkj hjk
  · intro j hj hl
    have hl0 := ha _ _ hl
    by_cases hjk : j = k
    · subst hjk
      rw [htr (by rw [hl]; simp)]; exact hv0
    · rw [hoff j hjk]; exact h.absent j hj hl0
  · intro j i hj hl
    have hl0 := ha _ _ hl
    have hkj := hsaved_off j i hj hl0
    obtain ⟨n, hn, hfor, hcopy⟩ := h.saved j i hj hl0
    refine ⟨n, (by rw [hoff j (hne_of j hkj)]; exact hn), hfor, ?_⟩
    intro c mt hnc
    obtain ⟨mt', hv⟩ := hcopy c mt hnc
    exact ⟨mt', by rw [hb.backup j hkj]; exact hv⟩
  · intro j i hj hl a haj
    have hl0 := ha _ _ hl
    have hkj := hsaved_off j i hj hl0
    intro hla
    rcases hgone a (hj.of_prefix haj) hla with h0 | hka
    · exact h.anc j i hj hl0 a haj h0
    · exact hkj (hka.trans haj)

theorem Inv.below {w w' : World} {k : Key} (h : Inv S v0 w) (hb : Below S k w w') (hk : PKey k)
    (hv0 : v0 k = none) (hnow : ¬ (S.view .base w.fs).isDirAt k) (hpar : v0.parentDir k) :
    (w'.infos.lookup (kp k) ≠ none → Inv S v0 w') ∧
    (w'.infos.lookup (kp k) = none → Inv S (rebase v0 k (S.view .base w.fs k)) w') := by
  have horig : ¬ v0.isDirAt k := by
    intro ⟨mt, hmt⟩; rw [hv0] at hmt; cases hmt
  constructor
  · intro htr
    exact h.below_aux hb hv0 hnow h.orig (fun _ _ => rfl) (fun hl => absurd hl htr) (fun _ => rfl)
  · intro hun
    exact h.below_aux hb hv0 hnow (GoodView.rebase h.orig (S.goodView h.good .base) hk horig hnow hpar)
      (fun j hj => rebase_ne v0 _ hj) (fun _ => rebase_self v0 k _) (fun hl => absurd hun hl)

/-! ### the walk over the backup tree, generically -/

theorem walk_lstat_same_side (S : Sim cfg) (s : Side) {p : Path} {w : World} :
    SameFS w ((worldWalkOps cfg s).lstat w p).1 := by
  have : Sat (primInfo cfg s (.lstat p)) w (fun w' _ => SameFS w w') := by
    unfold primInfo
    apply Sat.bind
    apply (sat_primCall_pure (fun m' r h => S.pure_lstat h)).mono
    intro w1 r ⟨hs, _⟩
    cases r with
    | error e => exact hs
    | ok ret => cases ret <;> exact hs
  exact this

theorem walk_readDir_side {s : Side} {j : Key} {w : World} (hg : S.G w.fs) (hj : PKey j) :
    SameFS w ((worldWalkOps cfg s).readDirNames w (kp j)).1 ∧
      ∀ ns, ((worldWalkOps cfg s).readDirNames w (kp j)).2 = .ok ns → ∀ n ∈ ns, Plain n := by
  have : Sat (do
      let h ← primOpen cfg s (.open_ (kp j))
      let r ← attempt (hReaddirnames cfg h)
      let _ ← attempt (hClose h)
      match r with
      | .ok ns => pure (sortStrings ns)
      | .error e => M.throw e : M (List Name)) w
      (fun w' r => SameFS w w' ∧ ∀ ns, r = .ok ns → ∀ n ∈ ns, Plain n) := by
    apply Sat.bind
    apply (sat_open_ro (S := S) hg hj).mono
    intro w1 r1 ⟨hs1, hwh, _⟩
    cases r1 with
    | error e => exact ⟨hs1, by intro ns h; cases h⟩
    | ok wh =>
      simp only
      obtain ⟨hside, hH, _⟩ := hwh wh rfl
      apply Sat.bind
      apply Sat.attempt
      have hrd : Sat (hReaddirnames cfg wh) w1 (fun w' r => SameFS w1 w' ∧ ∀ ns, r = .ok ns → ∀ n ∈ ns, Plain n) := by
        unfold hReaddirnames
        apply Sat.bind
        apply Sat.primH
        · intro _ w2 h2; exact ⟨h2, by intro ns h; cases h⟩
        · intro w2 h2
          apply Sat.bind
          apply Sat.getW
          simp only
          cases hrd : (cfg.side wh.side).hreaddirnames w2.fs wh.h with
          | error e => exact ⟨h2, by intro ns h; cases h⟩
          | ok ns =>
            apply Sat.pure
            refine ⟨h2, ?_⟩
            intro ns' h; cases h
            rw [hside, h2.fs, hs1.fs] at hrd
            exact S.readdir_plain hg hH hrd
      apply hrd.mono
      intro w2 r2 ⟨hs2, hpl⟩
      simp only
      apply Sat.bind
      apply Sat.attempt
      apply (sat_hClose (wh := wh) (w := w2)).mono
      intro w3 r3 ⟨hs3, _⟩
      simp only
      have hs := (hs1.trans hs2).trans hs3
      cases r2 with
      | error e => exact ⟨hs, by intro ns h; cases h⟩
      | ok ns =>
        apply Sat.pure
        refine ⟨hs, ?_⟩
        intro ns' h; cases h
        intro n hn
        exact hpl ns rfl n ((sortBy_perm strLt ns).mem_iff.mp hn)
  exact this

/-- a predicate on walk states that the walk function keeps at every key at or below `k`, and that
does not look at the trace, is kept by the whole walk -/
structure WalkInv (S : Sim cfg) (s : Side) (fn : WalkFn World (List Path)) (k : Key)
    (P : World → List Path → Prop) : Prop where
  same : ∀ w w' a, P w a → SameFS w w' → P w' a
  good : ∀ w a, P w a → S.G w.fs
  step : ∀ w a j info err, P w a → PKey j → k <+: j → P (fn w a (kp j) info err).1.1 (fn w a (kp j) info err).1.2

def WalkRecP (s : Side) (fn : WalkFn World (List Path)) (k : Key) (P : World → List Path → Prop)
    (fuel : Nat) : Prop :=
  ∀ (w : World) (a : List Path) (j : Key) (info : Info), P w a → PKey j → k <+: j →
    P (walkRec (worldWalkOps cfg s) fn fuel w a (kp j) info).1.1
      (walkRec (worldWalkOps cfg s) fn fuel w a (kp j) info).1.2

def WalkNamesP (s : Side) (fn : WalkFn World (List Path)) (k : Key) (P : World → List Path → Prop)
    (fuel : Nat) : Prop :=
  ∀ (names : List Name) (w : World) (a : List Path) (j : Key), (∀ n ∈ names, Plain n) →
    P w a → PKey j → k <+: j →
    P (walkNames (worldWalkOps cfg s) fn fuel w a (kp j) names).1.1
      (walkNames (worldWalkOps cfg s) fn fuel w a (kp j) names).1.2

theorem walkNamesP_of_rec {s : Side} {fn : WalkFn World (List Path)} {k : Key} {P : World → List Path → Prop}
    (hI : WalkInv S s fn k P) {fuel : Nat} (hrec : WalkRecP (cfg := cfg) s fn k P fuel) :
    WalkNamesP (cfg := cfg) s fn k P fuel := by
  intro names
  induction names with
  | nil =>
    intro w a j _ h _ _
    rw [walkNames]
    exact h
  | cons n rest ih =>
    intro w a j hpl h hj hkj
    have hn : Plain n := hpl n (by simp)
    have hrest : ∀ m ∈ rest, Plain m := fun m hm => hpl m (List.mem_cons_of_mem _ hm)
    have hj' : PKey (j ++ [n]) := hj.snoc hn
    have hkj' : k <+: j ++ [n] := prefix_snoc_of n hkj
    rw [walkNames]
    simp only [join_kp hj hn]
    have hsame := walk_lstat_same_side (cfg := cfg) S s (p := kp (j ++ [n])) (w := w)
    cases hl : (worldWalkOps cfg s).lstat w (kp (j ++ [n])) with
    | mk w1 r1 =>
      rw [hl] at hsame
      have h1 : P w1 a := hI.same _ _ _ h hsame
      cases r1 with
      | error e =>
        simp only
        have hfn := hI.step w1 a (j ++ [n]) none (some e) h1 hj' hkj'
        cases hf : fn w1 a (kp (j ++ [n])) none (some e) with
        | mk sa oe =>
          rw [hf] at hfn
          obtain ⟨s2, a2⟩ := sa
          cases oe with
          | some e' => exact hfn
          | none => exact ih s2 a2 j hrest hfn hj hkj
      | ok fi =>
        simp only
        have hr := hrec w1 a (j ++ [n]) fi h1 hj' hkj'
        cases hw : walkRec (worldWalkOps cfg s) fn fuel w1 a (kp (j ++ [n])) fi with
        | mk sa oe =>
          rw [hw] at hr
          obtain ⟨s2, a2⟩ := sa
          cases oe with
          | some e' => exact hr
          | none => exact ih s2 a2 j hrest hr hj hkj

theorem walk_inv {s : Side} {fn : WalkFn World (List Path)} {k : Key} {P : World → List Path → Prop}
    (hI : WalkInv S s fn k P) :
    ∀ fuel, WalkRecP (cfg := cfg) s fn k P fuel ∧ WalkNamesP (cfg := cfg) s fn k P fuel
  | 0 => by
    have hrec : WalkRecP (cfg := cfg) s fn k P 0 := by
      intro w a j info h _ _
      rw [walkRec]
      exact h
    exact ⟨hrec, walkNamesP_of_rec hI hrec⟩
  | fuel + 1 => by
    have ih := (walk_inv hI fuel).2
    have hrec : WalkRecP (cfg := cfg) s fn k P (fuel + 1) := by
      intro w a j info h hj hkj
      rw [walkRec]
      have hfn := hI.step w a j (some info) none h hj hkj
      cases hf : fn w a (kp j) (some info) none with
      | mk sa oe =>
        rw [hf] at hfn
        obtain ⟨s1, a1⟩ := sa
        cases oe with
        | some e => exact hfn
        | none =>
          simp only
          split
          · exact hfn
          · have hrd := walk_readDir_side (cfg := cfg) (S := S) (s := s) (j := j) (w := s1) (hI.good _ _ hfn) hj
            cases hr : (worldWalkOps cfg s).readDirNames s1 (kp j) with
            | mk s2 r2 =>
              rw [hr] at hrd
              have h2 : P s2 a1 := hI.same _ _ _ hfn hrd.1
              cases r2 with
              | error e => exact hI.step s2 a1 j (some info) (some e) h2 hj hkj
              | ok names => exact ih names s2 a1 j (hrd.2 names rfl) h2 hj hkj
    exact ⟨hrec, walkNamesP_of_rec hI hrec⟩

/-! ### the walk of `tryRemoveBackup` -/

/-- state of the walk of `tryRemoveBackup` from `w0`: everything so far happened at or below `k`,
the collected directories are key paths at or below `k`, and `k` itself is among them -/
structure RB (S : Sim cfg) (k : Key) (w0 w : World) (ds : List Path) : Prop where
  below : Below S k w0 w
  keys : ∀ p ∈ ds, ∃ j, PKey j ∧ k <+: j ∧ p = kp j
  root : kp k ∈ ds

/-- `Remove` on the backup, then `delete(baseInfos, ·)`, at a key at or below `k` -/
theorem sat_removeDel {k j : Key} {w : World} (hg : S.G w.fs) (hkne : k ≠ []) (hj : PKey j) (hkj : k <+: j) :
    Sat (do primUnit cfg .backup (.remove (kp j)); deleteInfo (kp j) : M Unit) w
      (fun w' _ => Below S k w w') := by
  apply Sat.bind
  apply (sat_primUnit_chg (S := S) (s := .backup) (c := .remove (kp j)) (K := (· = j)) hg
    (fun m' r h => by
      obtain ⟨g, o, f⟩ := S.remove_frame hg hj (ne_nil_of_prefix hkne hkj) h
      exact ⟨g, o, fun i hi => f i hi⟩)).mono
  intro w1 r1 hc
  have hb1 : Below S k w w1 := Below.of_chg hc (fun i hi => by subst hi; exact hkj)
  cases r1 with
  | error e => exact hb1
  | ok u =>
    simp only
    apply Sat.of_eq (deleteInfo_eq w1 (kp j))
    exact hb1.trans (Below.of_del hc.good hj hkj)

theorem removeBackupFn_rb {k : Key} (hkne : k ≠ []) {w0 : World} :
    WalkInv S .backup (removeBackupFn cfg) k (RB S k w0) := by
  refine ⟨?_, ?_, ?_⟩
  · intro w w' a h hs
    exact ⟨h.below.trans (Below.of_same h.below.good hs), h.keys, h.root⟩
  · intro w a h
    exact h.below.good
  · intro w a j info err h hj hkj
    unfold removeBackupFn
    cases err with
    | some e => exact h
    | none =>
      cases info with
      | none => exact h
      | some i =>
        simp only
        split
        · refine ⟨h.below, ?_, List.mem_append_left _ h.root⟩
          intro p hp
          rcases List.mem_append.mp hp with hp | hp
          · exact h.keys p hp
          · simp only [List.mem_singleton] at hp
            exact ⟨j, hj, hkj, hp⟩
        · have hrem := (sat_removeDel (cfg := cfg) (S := S) h.below.good hkne hj hkj).elim
          cases hr : (do primUnit cfg .backup (.remove (kp j)); deleteInfo (kp j) : M Unit) w with
          | mk w' r =>
            rw [hr] at hrem
            cases r <;> exact ⟨h.below.trans hrem, h.keys, h.root⟩

/-- the whole walk from a key at which the backup holds a directory -/
theorem walkTree_rb {k : Key} {w : World} (hg : S.G w.fs) (hk : PKey k) (hkne : k ≠ [])
    (hdir : (S.view .backup w.fs).isDirAt k) :
    Below S k w (walkTree (worldWalkOps cfg .backup) (removeBackupFn cfg) 64 w [] (kp k)).1.1 ∧
    ((walkTree (worldWalkOps cfg .backup) (removeBackupFn cfg) 64 w [] (kp k)).2 = none →
      (∀ p ∈ (walkTree (worldWalkOps cfg .backup) (removeBackupFn cfg) 64 w [] (kp k)).1.2,
        ∃ j, PKey j ∧ k <+: j ∧ p = kp j) ∧
      kp k ∈ (walkTree (worldWalkOps cfg .backup) (removeBackupFn cfg) 64 w [] (kp k)).1.2) := by
  have hI := removeBackupFn_rb (cfg := cfg) (S := S) hkne (w0 := w)
  unfold walkTree
  have hl : LstatPost S .backup k w ((worldWalkOps cfg .backup).lstat w (kp k)).1
      ((worldWalkOps cfg .backup).lstat w (kp k)).2 := (sat_lstat (S := S) (s := .backup) hg hk).elim
  cases hlr : (worldWalkOps cfg .backup).lstat w (kp k) with
  | mk w1 r1 =>
    rw [hlr] at hl
    obtain ⟨hs, hr⟩ := hl
    have hb1 : Below S k w w1 := Below.of_same hg hs
    cases r1 with
    | error e =>
      exact ⟨hb1, by intro h; cases h⟩
    | ok info =>
      simp only
      have hisd : info.isDir = true := by
        rcases hr with ⟨n, i, hv, hi, hfor⟩ | ⟨_, e, he, _⟩ | ⟨he, _⟩
        · cases hi
          obtain ⟨mt, hmt⟩ := hdir
          rw [hmt] at hv; cases hv
          have : info.kind = .dir := hfor.1
          simp [Info.isDir, this]
        · cases he
        · cases he
      have hall : RB S k w
          (walkRec (worldWalkOps cfg .backup) (removeBackupFn cfg) (63 + 1) w1 [] (kp k) info).1.1
          (walkRec (worldWalkOps cfg .backup) (removeBackupFn cfg) (63 + 1) w1 [] (kp k) info).1.2 := by
        rw [walkRec]
        have hfn : removeBackupFn cfg w1 [] (kp k) (some info) none = ((w1, [kp k]), none) := by
          simp [removeBackupFn, hisd]
        rw [hfn]
        simp only [hisd, Bool.not_true, Bool.false_eq_true, if_false]
        have h1 : RB S k w w1 [kp k] :=
          ⟨hb1, (by intro p hp; simp only [List.mem_singleton] at hp; exact ⟨k, hk, List.prefix_refl _, hp⟩),
            (by simp)⟩
        have hrd := walk_readDir_side (cfg := cfg) (S := S) (s := .backup) (j := k) (w := w1) hb1.good hk
        cases hrr : (worldWalkOps cfg .backup).readDirNames w1 (kp k) with
        | mk s2 r2 =>
          rw [hrr] at hrd
          have h2 : RB S k w s2 [kp k] := hI.same _ _ _ h1 hrd.1
          cases r2 with
          | error e => exact hI.step s2 [kp k] k (some info) (some e) h2 hk (List.prefix_refl _)
          | ok names =>
            exact (walk_inv (cfg := cfg) hI 63).2 names s2 [kp k] k (hrd.2 names rfl) h2 hk (List.prefix_refl _)
      exact ⟨hall.below, fun _ => ⟨hall.keys, hall.root⟩⟩

theorem sat_removeBackupDirs {k : Key} (hkne : k ≠ []) : ∀ (ds : List Path) (w : World), S.G w.fs →
    (∀ p ∈ ds, ∃ j, PKey j ∧ k <+: j ∧ p = kp j) →
    Sat (removeBackupDirs cfg ds) w (fun w' r => Below S k w w' ∧
      (r = .ok () → ∀ p ∈ ds, w'.infos.lookup p = none))
  | [], w, hg, _ => by
    unfold removeBackupDirs
    apply Sat.pure
    exact ⟨Below.refl hg, by intro _ p hp; cases hp⟩
  | d :: ds, w, hg, hd => by
    unfold removeBackupDirs
    obtain ⟨j, hj, hkj, rfl⟩ := hd d (by simp)
    have hjne := ne_nil_of_prefix hkne hkj
    apply Sat.bind
    apply (sat_primUnit_chg (S := S) (s := .backup) (c := .removeAll (kp j)) (K := (j <+: ·)) hg
      (fun m' r h => by
        obtain ⟨g, o, f⟩ := S.removeAll_frame hg hj hjne h
        exact ⟨g, o, fun i hi => f i hi⟩)).mono
    intro w1 r1 hc
    have hb1 : Below S k w w1 := Below.of_chg hc (fun i hi => hkj.trans hi)
    cases r1 with
    | error e => exact ⟨hb1, by intro h; cases h⟩
    | ok u =>
      simp only
      apply Sat.bind
      apply Sat.of_eq (deleteInfo_eq w1 (kp j))
      simp only
      have hb2 : Below S k w (delInfo w1 (kp j)) := hb1.trans (Below.of_del hc.good hj hkj)
      apply (sat_removeBackupDirs hkne ds (delInfo w1 (kp j)) hb2.good
        (fun p hp => hd p (List.mem_cons_of_mem _ hp))).mono
      intro w3 r3 ⟨hb3, hres⟩
      refine ⟨hb2.trans hb3, ?_⟩
      intro hr p hp
      rcases List.mem_cons.mp hp with rfl | hp
      · exact hb3.lookup_none (delInfo_lookup_self w1 _)
      · exact hres hr p hp

/-! ### `tryRemoveBackup` and `ForceBackup` without any hypothesis about the backup -/

theorem Inv.below_or {w w' : World} {k : Key} (h : Inv S v0 w) (hb : Below S k w w') (hk : PKey k)
    (hv0 : v0 k = none) (hnow : ¬ (S.view .base w.fs).isDirAt k) (hpar : v0.parentDir k) :
    Inv S v0 w' ∨ Inv S (rebase v0 k (S.view .base w.fs k)) w' := by
  obtain ⟨h1, h2⟩ := h.below hb hk hv0 hnow hpar
  cases hl : w'.infos.lookup (kp k) with
  | none => exact Or.inr (h2 hl)
  | some x => exact Or.inl (h1 (by rw [hl]; simp))

/-- `tryRemoveBackup` on a non-directory key, all branches: on success the entry of `k` is gone and
the invariant holds for the view re-based at `k`; on failure it holds for the original or for the
re-based view -/
theorem sat_tryRemoveBackup_full {k : Key} {w : World} (hinv : Inv S v0 w) (hk : PKey k)
    (horig : ¬ v0.isDirAt k) (hnow : ¬ (S.view .base w.fs).isDirAt k) (hpar : v0.parentDir k) :
    Sat (tryRemoveBackup cfg (kp k)) w (fun w' r =>
      w'.faults = w.faults ∧ S.view .base w'.fs = S.view .base w.fs ∧
      (r = .ok () → Inv S (rebase v0 k (S.view .base w.fs k)) w') ∧
      (∀ e, r = .error e → Inv S v0 w' ∨ Inv S (rebase v0 k (S.view .base w.fs k)) w')) := by
  by_cases hbak : v0 k = none → ¬ (S.view .backup w.fs).isDirAt k
  · apply (sat_tryRemoveBackup (cfg := cfg) hinv hk horig hnow hpar hbak).mono
    intro w' r ⟨h1, h2, h3, h4⟩
    exact ⟨h1, h2, h3, fun e he => Or.inl (h4 e he).1⟩
  · have hv0 : v0 k = none := Classical.byContradiction (fun h => hbak (fun h' => absurd h' h))
    have hdir : (S.view .backup w.fs).isDirAt k :=
      Classical.byContradiction (fun h => hbak (fun _ => h))
    have hkne : k ≠ [] := hpar.1
    obtain ⟨mtd, hmtd⟩ := hdir
    unfold tryRemoveBackup lookupInfo
    apply Sat.bind
    apply Sat.bind
    apply Sat.getW
    simp only
    apply Sat.pure
    simp only
    cases hl : w.infos.lookup (kp k) with
    | none =>
      simp only
      apply Sat.pure
      refine ⟨rfl, rfl, fun _ => ?_, fun e h => by cases h⟩
      rw [hinv.frame k hk hl, rebase_id]; exact hinv
    | some x =>
      simp only
      apply Sat.bind
      apply Sat.bind
      apply Sat.attempt
      apply (sat_lstat hinv.good hk).mono
      intro w1 r ⟨hs, hr⟩
      have hg1 : S.G w1.fs := hs.fs ▸ hinv.good
      simp only
      rcases hr with ⟨n, i, hv, rfl, hfor⟩ | ⟨hv, e, rfl, hnf⟩ | ⟨rfl, hf⟩
      · simp only
        apply Sat.pure
        simp only
        rw [hmtd] at hv
        cases hv
        have hisd : i.isDir = true := by
          have : i.kind = .dir := hfor.1
          simp [Info.isDir, this]
        simp only [hisd, Bool.not_true, Bool.false_eq_true, if_false]
        have hdir1 : (S.view .backup w1.fs).isDirAt k := ⟨mtd, by rw [hs.fs]; exact hmtd⟩
        have hb1 : Below S k w w1 := Below.of_same hinv.good hs
        apply Sat.bind
        have hw : Sat (fun w => match walkTree (worldWalkOps cfg .backup) (removeBackupFn cfg) 64 w [] (kp k) with
            | ((w', dirs), none) => (w', Except.ok dirs)
            | ((w', _), some e) => (w', Except.error e) : M (List Path)) w1
            (fun w' r => Below S k w1 w' ∧ ∀ dirs, r = .ok dirs →
              (∀ p ∈ dirs, ∃ j, PKey j ∧ k <+: j ∧ p = kp j) ∧ kp k ∈ dirs) := by
          have hwt := walkTree_rb (cfg := cfg) (S := S) hg1 hk hkne hdir1
          unfold Sat
          show Below S k w1 (match walkTree (worldWalkOps cfg .backup) (removeBackupFn cfg) 64 w1 [] (kp k) with
              | ((w', dirs), none) => (w', Except.ok dirs)
              | ((w', _), some e) => (w', Except.error e)).1 ∧
            ∀ dirs, (match walkTree (worldWalkOps cfg .backup) (removeBackupFn cfg) 64 w1 [] (kp k) with
              | ((w', dirs), none) => (w', Except.ok dirs)
              | ((w', _), some e) => (w', Except.error e)).2 = .ok dirs →
                (∀ p ∈ dirs, ∃ j, PKey j ∧ k <+: j ∧ p = kp j) ∧ kp k ∈ dirs
          cases hx : walkTree (worldWalkOps cfg .backup) (removeBackupFn cfg) 64 w1 [] (kp k) with
          | mk sa oe =>
            rw [hx] at hwt
            obtain ⟨s2, a2⟩ := sa
            cases oe with
            | some e' => exact ⟨hwt.1, by intro d h; cases h⟩
            | none => exact ⟨hwt.1, by intro d h; cases h; exact hwt.2 rfl⟩
        apply hw.mono
        intro w3 r3 ⟨hb3, hdirs⟩
        have hb13 := hb1.trans hb3
        cases r3 with
        | error e =>
          exact ⟨hb13.faults, hb13.base, (by intro h; cases h),
            fun _ _ => hinv.below_or hb13 hk hv0 hnow hpar⟩
        | ok dirs =>
          simp only
          obtain ⟨hkeys, hroot⟩ := hdirs dirs rfl
          apply (sat_removeBackupDirs (cfg := cfg) (S := S) hkne (sortMost dirs) w3 hb3.good
            (fun p hp => hkeys p ((sortBy_perm _ dirs).mem_iff.mp hp))).mono
          intro w4 r4 ⟨hb4, hres⟩
          have hb := hb13.trans hb4
          refine ⟨hb.faults, hb.base, ?_, fun _ _ => hinv.below_or hb hk hv0 hnow hpar⟩
          intro hr
          exact (hinv.below hb hk hv0 hnow hpar).2
            (hres hr (kp k) ((sortBy_perm _ dirs).mem_iff.mpr hroot))
      · rw [hmtd] at hv; cases hv
      · simp only [Err.isNotFound, Bool.false_eq_true, if_false]
        apply Sat.throw
        exact ⟨hs.faults, (by rw [hs.fs]), (fun h => by cases h), fun _ _ => Or.inl (hinv.of_same hs)⟩

/-- C17, core, without any hypothesis about the backup filesystem -/
theorem sat_forceBackup_full {name : Path} {k : Key} {w : World} (hinv : Inv S v0 w) (hk : PKey k)
    (hname : clean name = kp k)
    (horig : ¬ v0.isDirAt k) (hnow : ¬ (S.view .base w.fs).isDirAt k) (hpar : v0.parentDir k) :
    Sat (forceBackup cfg name) w (fun w' r =>
      (Inv S v0 w' ∨ Inv S (rebase v0 k (S.view .base w.fs k)) w') ∧ w'.faults = w.faults ∧
      S.view .base w'.fs = S.view .base w.fs ∧
      (r = .ok () → Inv S (rebase v0 k (S.view .base w.fs k)) w' ∧ ∀ b, b <+: k → Tracked w' b)) := by
  unfold forceBackup
  apply Sat.bind
  apply (sat_realPath (S := S) hinv.good hk hname).mono
  intro w1 r ⟨hs, hres⟩
  have hinv1 := hinv.of_same hs
  cases r with
  | error e => exact ⟨Or.inl hinv1, hs.faults, (by rw [hs.fs]), (by intro h; cases h)⟩
  | ok p =>
    simp only
    have hp := hres p rfl
    subst hp
    apply Sat.bind
    apply (sat_tryRemoveBackup_full (cfg := cfg) hinv1 hk horig (by rw [hs.fs]; exact hnow) hpar).mono
    intro w2 r2 ⟨hf2, hb2, hok2, herr2⟩
    rw [hs.fs] at hb2 hok2 herr2
    cases r2 with
    | error e => exact ⟨herr2 e rfl, hf2.trans hs.faults, hb2, (by intro h; cases h)⟩
    | ok u =>
      simp only
      have hinv2 := hok2 rfl
      apply (sat_tryBackup hinv2 hk).mono
      intro w3 r3 ⟨hadv, htr⟩
      exact ⟨Or.inr hadv.inv, hadv.faults.trans (hf2.trans hs.faults), hadv.base.trans hb2,
        fun h => ⟨hadv.inv, htr h⟩⟩

/-! ### ForceBackup, then any covered history, then Rollback (no hypothesis about the backup) -/

/-- C17, generic form: on healthy filesystems, after a covered history `ops₁`, a successful
`ForceBackup(p)` and a further covered history `ops₂`, Rollback leaves `p` as it was at the moment of
the ForceBackup call and every other key below the root as it was when the transaction began -/
theorem force_then_rollback_full {w : World} (hg : S.G w.fs) (hinfos : w.infos = []) (hnf : w.faults = [])
    (ops₁ ops₂ : List Op) {name : Path} {k : Key} (hk : PKey k) (hname : clean name = kp k)
    (hcov1 : CoveredHist cfg S w ops₁)
    (horig : ¬ (S.view .base w.fs).isDirAt k)
    (hnow : ¬ (S.view .base (runOps cfg w ops₁).fs).isDirAt k)
    (hpar : (S.view .base w.fs).parentDir k)
    (hok : (forceBackup cfg name (runOps cfg w ops₁)).2 = .ok ())
    (hcov2 : CoveredHist cfg S (forceBackup cfg name (runOps cfg w ops₁)).1 ops₂) :
    S.G (runTx cfg (forceBackup cfg name (runOps cfg w ops₁)).1 ops₂).fs ∧
    (runTx cfg (forceBackup cfg name (runOps cfg w ops₁)).1 ops₂).infos = [] ∧
    (runTx cfg (forceBackup cfg name (runOps cfg w ops₁)).1 ops₂).faults = [] ∧
    ∀ j, j ≠ [] → S.view .base (runTx cfg (forceBackup cfg name (runOps cfg w ops₁)).1 ops₂).fs j =
      if j = k then S.view .base (runOps cfg w ops₁).fs k else S.view .base w.fs j := by
  have h1 := history_keeps (cfg := cfg) ops₁ w (Inv.init hg hinfos) hcov1
  obtain ⟨_, hfl, _, hres⟩ :=
    (sat_forceBackup_full (cfg := cfg) (name := name) h1.inv hk hname horig hnow hpar).elim
  have hinv2 := (hres hok).1
  have h2 := history_keeps (cfg := cfg) ops₂ _ hinv2 hcov2
  have hr := (sat_rollback (cfg := cfg) h2.inv (h2.faults.trans (hfl.trans (h1.faults.trans hnf)))).elim
  refine ⟨hr.1, rollback_resets_infos cfg _, hr.2.1, ?_⟩
  intro j hj
  exact hr.2.2 j hj

/-- the same with the ForceBackup as one operation of a single history `ops₁ ++ force p :: ops₂` -/
theorem force_in_history_rollback_full {w : World} (hg : S.G w.fs) (hinfos : w.infos = []) (hnf : w.faults = [])
    (ops₁ ops₂ : List Op) {name : Path} {k : Key} (hk : PKey k) (hname : clean name = kp k)
    (hcov1 : CoveredHist cfg S w ops₁)
    (horig : ¬ (S.view .base w.fs).isDirAt k)
    (hnow : ¬ (S.view .base (runOps cfg w ops₁).fs).isDirAt k)
    (hpar : (S.view .base w.fs).parentDir k)
    (hok : (Op.exec cfg (.force name) (runOps cfg w ops₁)).2 = .ok .unit)
    (hcov2 : CoveredHist cfg S (Op.step cfg (runOps cfg w ops₁) (.force name)) ops₂) :
    ∀ j, j ≠ [] → S.view .base (runTx cfg w (ops₁ ++ .force name :: ops₂)).fs j =
      if j = k then S.view .base (runOps cfg w ops₁).fs k else S.view .base w.fs j := by
  obtain ⟨hstep, hiff⟩ := force_step cfg name (runOps cfg w ops₁)
  have hrun : runTx cfg w (ops₁ ++ .force name :: ops₂) =
      runTx cfg (forceBackup cfg name (runOps cfg w ops₁)).1 ops₂ := by
    unfold runTx
    rw [runOps_append, ← hstep]
    rfl
  rw [hrun]
  rw [hstep] at hcov2
  exact (force_then_rollback_full hg hinfos hnf ops₁ ops₂ hk hname hcov1 horig hnow hpar
    (hiff.mp hok) hcov2).2.2.2

/-- whatever the fault plan did to the operations and to the ForceBackup itself (which may have
failed half-way): once the filesystems are healthy again, Rollback restores every key other than
`p` below the root to its original node, and `p` either to its original node or to the one it held
at the moment of the ForceBackup call; if the ForceBackup succeeded, to the latter -/
theorem force_then_rollback_after_faults_full {w : World} (hg : S.G w.fs) (hinfos : w.infos = [])
    (ops₁ ops₂ : List Op) {name : Path} {k : Key} (hk : PKey k) (hname : clean name = kp k)
    (hcov1 : CoveredHist cfg S w ops₁)
    (horig : ¬ (S.view .base w.fs).isDirAt k)
    (hnow : ¬ (S.view .base (runOps cfg w ops₁).fs).isDirAt k)
    (hpar : (S.view .base w.fs).parentDir k)
    (hcov2 : CoveredHist cfg S (forceBackup cfg name (runOps cfg w ops₁)).1 ops₂) :
    let w3 := runOps cfg (forceBackup cfg name (runOps cfg w ops₁)).1 ops₂
    let v := S.view .base (rollback cfg { w3 with faults := [] }).1.fs
    (∀ j, j ≠ [] → j ≠ k → v j = S.view .base w.fs j) ∧
    (v k = S.view .base w.fs k ∨ v k = S.view .base (runOps cfg w ops₁).fs k) ∧
    ((forceBackup cfg name (runOps cfg w ops₁)).2 = .ok () → v k = S.view .base (runOps cfg w ops₁).fs k) := by
  intro w3 v
  have hkne : k ≠ [] := hpar.1
  have h1 := history_keeps (cfg := cfg) ops₁ w (Inv.init hg hinfos) hcov1
  obtain ⟨hdis, _, _, hres⟩ :=
    (sat_forceBackup_full (cfg := cfg) (name := name) h1.inv hk hname horig hnow hpar).elim
  have hreb : ∀ {w' : World}, Inv S (rebase (S.view .base w.fs) k (S.view .base (runOps cfg w ops₁).fs k)) w' →
      ∀ j, j ≠ [] → S.view .base (rollback cfg { w' with faults := [] }).1.fs j =
        rebase (S.view .base w.fs) k (S.view .base (runOps cfg w ops₁).fs k) j :=
    fun h => ((sat_rollback (cfg := cfg) (h.with_faults []) rfl).elim).2.2
  have hor : ∀ {w' : World}, Inv S (S.view .base w.fs) w' →
      ∀ j, j ≠ [] → S.view .base (rollback cfg { w' with faults := [] }).1.fs j = S.view .base w.fs j :=
    fun h => ((sat_rollback (cfg := cfg) (h.with_faults []) rfl).elim).2.2
  refine ⟨?_, ?_, ?_⟩
  · intro j hj hjk
    rcases hdis with h | h
    · exact hor (history_keeps (cfg := cfg) ops₂ _ h hcov2).inv j hj
    · rw [show v j = _ from hreb (history_keeps (cfg := cfg) ops₂ _ h hcov2).inv j hj, rebase_ne _ _ hjk]
  · rcases hdis with h | h
    · exact Or.inl (hor (history_keeps (cfg := cfg) ops₂ _ h hcov2).inv k hkne)
    · right
      rw [show v k = _ from hreb (history_keeps (cfg := cfg) ops₂ _ h hcov2).inv k hkne, rebase_self]
  · intro hok
    have h := (hres hok).1
    rw [show v k = _ from hreb (history_keeps (cfg := cfg) ops₂ _ h hcov2).inv k hkne, rebase_self]

end BFS.N
