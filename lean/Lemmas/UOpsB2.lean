import Lemmas.UOpsB
import Lemmas.TFrame
/-!
  Lemmas/UOpsB2.lean — tier 2 (C03 through flat symlinks): `StepB` for the single-path mutators without a
  handle and for the read-only operations.
-/
namespace BFS
namespace U
open BackupFS MFS F16

section
variable {bk kk : Key}
variable (hr : Roots bk kk) {v0 : View} {r0 : Option Node} {w : World} {name : Path} {k : Key}
include hr

/-- the resolved key has no symlink among its proper ancestors, on any disk with the base view of `w` -/
theorem rk_noLinkAnc_of_view (hg : L.OSGoodL bk kk w.fs) (hflat : Flat bk w.fs) (k : Key) {m : MFS}
    (hv : L.osViewL bk kk .base m = L.osViewL bk kk .base w.fs) :
    L.NoLinkAnc (L.osViewL bk kk .base m) (L.G.rk bk w k) := by
  rw [hv]; exact L.G.rk_noLinkAnc (kk := kk) hg hflat k

omit hr in
theorem accF_of_view {m : MFS} {r : Key} (hna : L.NoLinkAnc (L.osViewL bk kk .base m) r)
    (hv : L.osViewL bk kk .base m = L.osViewL bk kk .base w.fs)
    (hfin : ∀ t mt, w.fs.get (bk ++ r) ≠ some (.link t mt)) : L.AccF (L.osViewL bk kk .base m) r := by
  refine ⟨hna, ?_⟩
  rw [hv]
  intro hl
  obtain ⟨raw, mt, hget⟩ := L.osViewL_isLinkAt hl
  exact hfin raw mt hget

omit hr in
theorem linkOKBoth_of_notLink {r : Key} (hfin : ∀ t mt, w.fs.get (bk ++ r) ≠ some (.link t mt)) :
    LinkOKBoth bk kk w r := by
  intro t mt hv
  obtain ⟨raw, m0, h0, _⟩ := L.osViewL_link hv
  exact absurd h0 (hfin raw m0)

theorem stepB_of_prep {op : Op} {c : Path → Call}
    (hexec : Op.exec (osCfg bk kk) op =
      (do (prepare (osCfg bk kk) name >>= fun r => primUnit (osCfg bk kk) .base (c r)); pure OpOut.unit : M OpOut))
    (hphase : (Op.backupPhase (osCfg bk kk) op w).2 = (prepare (osCfg bk kk) name w).2.map (fun _ => ()))
    (hdirect : Op.direct (baseFS bk kk) w.fs op = directUnit (baseFS bk kk) w.fs (c name))
    (h : BInvL (osSimLR hr) r0
        ((do (prepare (osCfg bk kk) name >>= fun r => primUnit (osCfg bk kk) .base (c r)); pure OpOut.unit : M OpOut) w).1 ∧
      (∀ e, (prepare (osCfg bk kk) name w).2 = .error e → e = .typeMismatch ∧
        (directUnit (baseFS bk kk) w.fs (c name)).1 = w.fs ∧
        ∃ e', (directUnit (baseFS bk kk) w.fs (c name)).2 = .error e' ∧ FailCls e')) :
    StepB hr r0 w op := by
  refine ⟨by rw [hexec]; exact h.1, ?_⟩
  intro e he
  rw [hphase] at he
  rw [hdirect]
  apply h.2 e
  cases hp : (prepare (osCfg bk kk) name w).2 with
  | ok p => rw [hp] at he; cases he
  | error e' => rw [hp] at he; cases he; rfl

theorem mkdir_stepB (hinv : L.Inv (osSimLR hr) v0 w) (hb : BInvL (osSimLR hr) r0 w) (hflat : Flat bk w.fs) (hk : PKey k)
    (hname : clean name = kp k) (hlen : k.length ≤ 40) (hlok : LinkOKBoth bk kk w (L.G.rk bk w k)) (perm : Nat) :
    StepB hr r0 w (.mkdir name perm) := by
  have hrk := L.G.rk_pkey hr hinv.good hflat hk
  exact stepB_of_prep hr (c := fun r => .mkdir r perm) rfl (prepPhase_snd _ _ _) rfl
    (single_stepB hr (c := fun r => .mkdir r perm) (sys := fun m p => m.mkdir p perm) (f := false) hinv hb hflat hk hname hlen hlok
      (fun m => (base_call_spelling m hk hname).2.1 perm)
      (fun m j hj => side_mkdir hr m j hj perm)
      (fun m t e h he => ⟨e, by show m.mkdir t perm = _; unfold MFS.mkdir; rw [h], he⟩)
      (fun m m' res hg hv h => (L.os_mkdir_frame (s := .base) hr hg hrk (rk_noLinkAnc_of_view hr hinv.good hflat k hv) h).2.1))

theorem remove_stepB (hinv : L.Inv (osSimLR hr) v0 w) (hb : BInvL (osSimLR hr) r0 w) (hflat : Flat bk w.fs) (hk : PKey k)
    (hname : clean name = kp k) (hne : k ≠ []) (hlen : k.length ≤ 40) (hlok : LinkOKBoth bk kk w (L.G.rk bk w k)) :
    StepB hr r0 w (.remove name) := by
  have hrk := L.G.rk_pkey hr hinv.good hflat hk
  exact stepB_of_prep hr (c := fun r => .remove r) rfl (prepPhase_snd _ _ _) rfl
    (single_stepB hr (c := fun r => .remove r) (sys := fun m p => m.remove p) (f := false) hinv hb hflat hk hname hlen hlok
      (fun m => (base_call_spelling m hk hname).2.2.2.2.1)
      (fun m j hj => side_remove hr m j hj)
      (fun m t e h he => ⟨e, by show m.remove t = _; unfold MFS.remove; rw [h], he⟩)
      (fun m m' res hg hv h => (L.os_remove_frame (s := .base) hr hg hrk (L.G.rk_ne hne)
        (rk_noLinkAnc_of_view hr hinv.good hflat k hv) h).2.1))

theorem lchown_stepB (hinv : L.Inv (osSimLR hr) v0 w) (hb : BInvL (osSimLR hr) r0 w) (hflat : Flat bk w.fs) (hk : PKey k)
    (hname : clean name = kp k) (hlen : k.length ≤ 40) (hlok : LinkOKBoth bk kk w (L.G.rk bk w k)) (u g : Int) :
    StepB hr r0 w (.lchown name u g) := by
  have hrk := L.G.rk_pkey hr hinv.good hflat hk
  exact stepB_of_prep hr (c := fun r => .lchown r u g) rfl (prepPhase_snd _ _ _) rfl
    (single_stepB hr (c := fun r => .lchown r u g) (sys := fun m p => m.lchown p u g) (f := false) hinv hb hflat hk hname hlen hlok
      (fun m => (base_call_spelling m hk hname).2.2.2.2.2.2.2.2.1 u g)
      (fun m j hj => side_lchown hr m j hj u g)
      (fun m t e h he => ⟨e, by show m.lchown t u g = _; unfold MFS.lchown; rw [h], he⟩)
      (fun m m' res hg hv h => (L.os_lchown_frame (s := .base) hr hg hrk
        (rk_noLinkAnc_of_view hr hinv.good hflat k hv) h).2.1))

theorem chmod_stepB (hinv : L.Inv (osSimLR hr) v0 w) (hb : BInvL (osSimLR hr) r0 w) (hflat : Flat bk w.fs) (hk : PKey k)
    (hname : clean name = kp k) (hlen : k.length ≤ 40)
    (hfin : ∀ t mt, w.fs.get (bk ++ L.G.rk bk w k) ≠ some (.link t mt)) (mode : Nat) :
    StepB hr r0 w (.chmod name mode) := by
  have hrk := L.G.rk_pkey hr hinv.good hflat hk
  exact stepB_of_prep hr (c := fun r => .chmod r mode) rfl (prepPhase_snd _ _ _) rfl
    (single_stepB hr (c := fun r => .chmod r mode) (sys := fun m p => m.chmod p mode) (f := true) hinv hb hflat hk hname hlen
      (linkOKBoth_of_notLink hfin)
      (fun m => (base_call_spelling m hk hname).2.2.2.2.2.2.1 mode)
      (fun m j hj => side_chmod hr m j hj mode)
      (fun m t e h he => ⟨e, by show m.chmod t mode = _; unfold MFS.chmod; rw [h], he⟩)
      (fun m m' res hg hv h => (L.os_chmod_frame (s := .base) hr hg hrk
        (accF_of_view (rk_noLinkAnc_of_view hr hinv.good hflat k hv) hv hfin) h).2.1))

theorem chown_stepB (hinv : L.Inv (osSimLR hr) v0 w) (hb : BInvL (osSimLR hr) r0 w) (hflat : Flat bk w.fs) (hk : PKey k)
    (hname : clean name = kp k) (hlen : k.length ≤ 40)
    (hfin : ∀ t mt, w.fs.get (bk ++ L.G.rk bk w k) ≠ some (.link t mt)) (u g : Int) :
    StepB hr r0 w (.chown name u g) := by
  have hrk := L.G.rk_pkey hr hinv.good hflat hk
  exact stepB_of_prep hr (c := fun r => .chown r u g) rfl (prepPhase_snd _ _ _) rfl
    (single_stepB hr (c := fun r => .chown r u g) (sys := fun m p => m.chown p u g) (f := true) hinv hb hflat hk hname hlen
      (linkOKBoth_of_notLink hfin)
      (fun m => (base_call_spelling m hk hname).2.2.2.2.2.2.2.1 u g)
      (fun m j hj => side_chown hr m j hj u g)
      (fun m t e h he => ⟨e, by show m.chown t u g = _; unfold MFS.chown; rw [h], he⟩)
      (fun m m' res hg hv h => (L.os_chown_frame (s := .base) hr hg hrk
        (accF_of_view (rk_noLinkAnc_of_view hr hinv.good hflat k hv) hv hfin) h).2.1))

theorem chtimes_stepB (hinv : L.Inv (osSimLR hr) v0 w) (hb : BInvL (osSimLR hr) r0 w) (hflat : Flat bk w.fs) (hk : PKey k)
    (hname : clean name = kp k) (hlen : k.length ≤ 40)
    (hfin : ∀ t mt, w.fs.get (bk ++ L.G.rk bk w k) ≠ some (.link t mt)) (t : Time) :
    StepB hr r0 w (.chtimes name t) := by
  have hrk := L.G.rk_pkey hr hinv.good hflat hk
  exact stepB_of_prep hr (c := fun r => .chtimes r t t) rfl (prepPhase_snd _ _ _) rfl
    (single_stepB hr (c := fun r => .chtimes r t t) (sys := fun m p => m.chtimes p t) (f := true) hinv hb hflat hk hname hlen
      (linkOKBoth_of_notLink hfin)
      (fun m => (base_call_spelling m hk hname).2.2.2.2.2.2.2.2.2.1 t t)
      (fun m j hj => side_chtimes hr m j hj t t)
      (fun m t' e h he => ⟨e, by show m.chtimes t' t = _; unfold MFS.chtimes; rw [h], he⟩)
      (fun m m' res hg hv h => (L.os_chtimes_frame (s := .base) hr hg hrk
        (accF_of_view (rk_noLinkAnc_of_view hr hinv.good hflat k hv) hv hfin) h).2.1))

/-- read-only operations: nothing changes, no backup phase -/
theorem readonly_stepB (hb : BInvL (osSimLR hr) r0 w) {op : Op} (hro : op.ReadOnly) : StepB hr r0 w op := by
  refine ⟨hb.of_same (readonly_sameFS hr w hro), ?_⟩
  intro e he
  exfalso
  cases op with
  | stat p => cases he
  | lstat p => cases he
  | readlink p => cases he
  | write p flag perm d =>
    have hf : flag = O_RDONLY := hro
    subst hf
    unfold Op.backupPhase at he
    simp only [if_true] at he
    cases he
  | _ => exact hro

end

end U
end BFS
