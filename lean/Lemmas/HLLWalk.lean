import Lemmas.DWalk
/-!
  Lemmas/HLLWalk.lean — a state invariant of `HiddenFS.RemoveAll` over ANY inner filesystem with a
  PATH-DEPENDENT admissibility predicate (generalises `D.hiddenRemoveAll_inv`, whose `Remove` step
  must keep the invariant for EVERY visible name — false on disks with symlinks, where a visible
  name may run through a symlink into a hidden directory).

  `A s p` — "name `p` may be handed to `Remove`/`Lstat` in state `s`" (instance: no proper ancestor
  of its key is a symlink); `B s p` — "`p` may be descended into" (instance: neither the key nor an
  ancestor is a symlink).  If
  * `Lstat` and `Open` do not change the state,
  * `Remove(p)` of an admissible, visible `p` keeps `I` and both predicates for all names,
  * an admissible name that `Lstat` reports as a directory may be descended into,
  * the entries that a listing of such a directory returns are admissible,
  then the whole program keeps `I` when started on an admissible name.
-/
namespace BFS
namespace HLL
open HiddenFS D

section
variable {σ : Type} (hs : List Path) (inner : FSI σ) (I : σ → Prop) (A B : σ → Path → Prop)

structure StepInvR : Prop where
  lstat_state : ∀ s p, (inner.call s (.lstat p)).1 = s
  open_state : ∀ s p, (inner.call s (.open_ p)).1 = s
  b_to_a : ∀ s p, B s p → A s p
  remove : ∀ s p, I s → A s p → isHidden p hs = .ok false →
    I (inner.call s (.remove p)).1 ∧
    (∀ q, A s q → A (inner.call s (.remove p)).1 q) ∧ (∀ q, B s q → B (inner.call s (.remove p)).1 q)
  isdir : ∀ s p fi, I s → A s p → (inner.call s (.lstat p)).2 = .ok (.info fi) → fi.isDir = true → B s p
  child : ∀ s p h names, I s → B s p → (inner.call s (.open_ p)).2 = .ok (.handle h) →
    inner.hreaddirnames s h = .ok names → ∀ n ∈ sortStrings names, A s (join p n)

/-- admissibility never decreases -/
def Le (s s' : σ) : Prop := (∀ q, A s q → A s' q) ∧ (∀ q, B s q → B s' q)

variable {hs inner I A B}

theorem Le.refl (s : σ) : Le A B s s := ⟨fun _ h => h, fun _ h => h⟩

theorem Le.trans {s1 s2 s3 : σ} (h1 : Le A B s1 s2) (h2 : Le A B s2 s3) : Le A B s1 s3 :=
  ⟨fun q h => h2.1 q (h1.1 q h), fun q h => h2.2 q (h1.2 q h)⟩

theorem fsiLstat_eq (H : StepInvR hs inner I A B) (s : σ) (p : Path) :
    (fsiLstat inner s p).1 = s ∧
    ∀ fi, (fsiLstat inner s p).2 = .ok fi → (inner.call s (.lstat p)).2 = .ok (.info fi) := by
  have h1 := H.lstat_state s p
  unfold fsiLstat
  cases hc : inner.call s (.lstat p) with
  | mk s1 r =>
    rw [hc] at h1
    simp only at h1
    subst h1
    cases r with
    | error e => exact ⟨rfl, fun fi h => by cases h⟩
    | ok v =>
      cases v with
      | info i => exact ⟨rfl, fun fi h => by cases h; rfl⟩
      | unit => exact ⟨rfl, fun fi h => by cases h⟩
      | handle hd => exact ⟨rfl, fun fi h => by cases h⟩
      | str t => exact ⟨rfl, fun fi h => by cases h⟩

theorem fsiReadDirNames_eq (H : StepInvR hs inner I A B) (s : σ) (p : Path) (hI : I s) (hB : B s p) :
    (fsiReadDirNames inner s p).1 = s ∧
    ∀ names, (fsiReadDirNames inner s p).2 = .ok names → ∀ n ∈ names, A s (join p n) := by
  have h1 := H.open_state s p
  have hch := H.child s p
  unfold fsiReadDirNames
  cases hc : inner.call s (.open_ p) with
  | mk s1 r =>
    rw [hc] at h1 hch
    simp only at h1 hch
    subst h1
    cases r with
    | error e => exact ⟨rfl, fun names h => by cases h⟩
    | ok v =>
      cases v with
      | handle hd =>
        simp only
        cases hrd : inner.hreaddirnames s1 hd with
        | error e => exact ⟨rfl, fun names h => by cases h⟩
        | ok names =>
          refine ⟨rfl, ?_⟩
          intro names' h n hn
          cases h
          exact hch hd names hI hB rfl hrd n hn
      | unit => exact ⟨rfl, fun names h => by cases h⟩
      | info i => exact ⟨rfl, fun names h => by cases h⟩
      | str t => exact ⟨rfl, fun names h => by cases h⟩

/-- what the loops maintain: the invariant, a visible accumulator every element of which may still
be descended into, admissibility only growing -/
structure Out (hs : List Path) (I : σ → Prop) (A B : σ → Path → Prop) (s : σ) (r : σ × List Path) : Prop where
  inv : I r.1
  vis : AllVisible hs r.2
  acc : ∀ d ∈ r.2, B r.1 d
  le : Le A B s r.1

theorem hiddenRemoveFn_out (H : StepInvR hs inner I A B) (s : σ) (a : List Path) (p : Path) (i : Option Info)
    (e : Option Err) (h : I s) (ha : AllVisible hs a) (hb : ∀ d ∈ a, B s d) (hp : A s p)
    (hd : ∀ fi, i = some fi → fi.isDir = true → B s p) :
    Out hs I A B s (hiddenRemoveFn hs inner s a p i e).1 := by
  have base : Out hs I A B s (s, a) := ⟨h, ha, hb, Le.refl s⟩
  unfold hiddenRemoveFn
  cases e with
  | some e => exact base
  | none =>
    simp only
    cases hh : isHidden p hs with
    | error e => exact base
    | ok b =>
      cases b with
      | true => exact base
      | false =>
        simp only
        cases i with
        | none => exact base
        | some i =>
          simp only
          split
          · rename_i hdir
            refine ⟨h, ?_, ?_, Le.refl s⟩
            · intro d hd'
              rcases List.mem_append.mp hd' with hd' | hd'
              · exact ha d hd'
              · simp only [List.mem_singleton] at hd'
                subst hd'
                exact hh
            · intro d hd'
              rcases List.mem_append.mp hd' with hd' | hd'
              · exact hb d hd'
              · simp only [List.mem_singleton] at hd'
                subst hd'
                exact hd i rfl hdir
          · have htr : HiddenFS.translate hs (.remove p) = .ok (.remove p) := by
              simp only [HiddenFS.translate, bind, Except.bind, pure, Except.pure, hguard_of_visible _ hh]
            rw [htr]
            simp only
            obtain ⟨g1, g2, g3⟩ := H.remove s p h hp hh
            cases hc : inner.call s (.remove p) with
            | mk s1 r =>
              rw [hc] at g1 g2 g3
              simp only at g1 g2 g3
              cases r <;> exact ⟨g1, ha, fun d hd' => g3 d (hb d hd'), ⟨g2, g3⟩⟩

def RecOut (hs : List Path) (inner : FSI σ) (I : σ → Prop) (A B : σ → Path → Prop) (fuel : Nat) : Prop :=
  ∀ (s : σ) (a : List Path) (p : Path) (i : Info), I s → AllVisible hs a → (∀ d ∈ a, B s d) → A s p →
    (i.isDir = true → B s p) →
    Out hs I A B s (walkRec (fsiWalkOps inner) (hiddenRemoveFn hs inner) fuel s a p i).1

def NamesOut (hs : List Path) (inner : FSI σ) (I : σ → Prop) (A B : σ → Path → Prop) (fuel : Nat) : Prop :=
  ∀ (names : List Name) (s : σ) (a : List Path) (p : Path), I s → AllVisible hs a → (∀ d ∈ a, B s d) →
    (∀ n ∈ names, A s (join p n)) →
    Out hs I A B s (walkNames (fsiWalkOps inner) (hiddenRemoveFn hs inner) fuel s a p names).1

theorem Out.chain {s s1 : σ} {r : σ × List Path} (hle : Le A B s s1) (h : Out hs I A B s1 r) : Out hs I A B s r :=
  ⟨h.inv, h.vis, h.acc, hle.trans h.le⟩

theorem namesOut_of_rec (H : StepInvR hs inner I A B) {fuel : Nat} (hrec : RecOut hs inner I A B fuel) :
    NamesOut hs inner I A B fuel := by
  intro names
  induction names with
  | nil =>
    intro s a p h ha hb _
    rw [walkNames]
    exact ⟨h, ha, hb, Le.refl s⟩
  | cons n rest ih =>
    intro s a p h ha hb hn
    rw [walkNames]
    obtain ⟨hl1, hl2⟩ := fsiLstat_eq H s (join p n)
    have hpn : A s (join p n) := hn n (by simp)
    have hrest : ∀ n' ∈ rest, A s (join p n') := fun n' hn' => hn n' (List.mem_cons_of_mem _ hn')
    cases hls : (fsiWalkOps inner).lstat s (join p n) with
    | mk s1 r1 =>
      have hls' : fsiLstat inner s (join p n) = (s1, r1) := hls
      rw [hls'] at hl1 hl2
      simp only at hl1 hl2
      subst hl1
      cases r1 with
      | error e =>
        simp only
        have hf := hiddenRemoveFn_out H s1 a (join p n) none (some e) h ha hb hpn (fun fi e' => by cases e')
        cases hfe : hiddenRemoveFn hs inner s1 a (join p n) none (some e) with
        | mk sa oe =>
          rw [hfe] at hf
          obtain ⟨s2, a2⟩ := sa
          cases oe with
          | some e' => exact hf
          | none =>
            exact Out.chain hf.le (ih s2 a2 p hf.inv hf.vis hf.acc (fun n' hn' => hf.le.1 _ (hrest n' hn')))
      | ok fi =>
        simp only
        have hdir : fi.isDir = true → B s1 (join p n) := fun hd =>
          H.isdir s1 (join p n) fi h hpn (hl2 fi rfl) hd
        have hr := hrec s1 a (join p n) fi h ha hb hpn hdir
        cases hw : walkRec (fsiWalkOps inner) (hiddenRemoveFn hs inner) fuel s1 a (join p n) fi with
        | mk sa oe =>
          rw [hw] at hr
          obtain ⟨s2, a2⟩ := sa
          cases oe with
          | some e' => exact hr
          | none =>
            exact Out.chain hr.le (ih s2 a2 p hr.inv hr.vis hr.acc (fun n' hn' => hr.le.1 _ (hrest n' hn')))

theorem walk_out (H : StepInvR hs inner I A B) : ∀ fuel, RecOut hs inner I A B fuel ∧ NamesOut hs inner I A B fuel
  | 0 => by
    have hrec : RecOut hs inner I A B 0 := by
      intro s a p i h ha hb _ _
      rw [walkRec]
      exact ⟨h, ha, hb, Le.refl s⟩
    exact ⟨hrec, namesOut_of_rec H hrec⟩
  | fuel + 1 => by
    have ih := (walk_out H fuel).2
    have hrec : RecOut hs inner I A B (fuel + 1) := by
      intro s a p i h ha hb hp hd
      rw [walkRec]
      have hfn := hiddenRemoveFn_out H s a p (some i) none h ha hb hp (fun fi e hdir => by cases e; exact hd hdir)
      cases hf : hiddenRemoveFn hs inner s a p (some i) none with
      | mk sa oe =>
        rw [hf] at hfn
        obtain ⟨s1, a1⟩ := sa
        cases oe with
        | some e => exact hfn
        | none =>
          simp only
          split
          · exact hfn
          · rename_i hdir
            have hdir' : i.isDir = true := by simpa using hdir
            have hB1 : B s1 p := hfn.le.2 p (hd hdir')
            obtain ⟨hr1, hr2⟩ := fsiReadDirNames_eq H s1 p hfn.inv hB1
            cases hr : (fsiWalkOps inner).readDirNames s1 p with
            | mk s2 r2 =>
              have hr' : fsiReadDirNames inner s1 p = (s2, r2) := hr
              rw [hr'] at hr1 hr2
              simp only at hr1 hr2
              subst hr1
              cases r2 with
              | error e =>
                exact Out.chain hfn.le (hiddenRemoveFn_out H s2 a1 p (some i) (some e) hfn.inv hfn.vis hfn.acc
                  (H.b_to_a _ _ hB1) (fun _ _ _ => hB1))
              | ok names =>
                exact Out.chain hfn.le (ih names s2 a1 p hfn.inv hfn.vis hfn.acc (hr2 names rfl))
    exact ⟨hrec, namesOut_of_rec H hrec⟩

theorem walkTree_out (H : StepInvR hs inner I A B) (fuel : Nat) (s : σ) (p : Path) (h : I s) (hp : A s p) :
    Out hs I A B s (walkTree (fsiWalkOps inner) (hiddenRemoveFn hs inner) fuel s [] p).1 := by
  have ha : AllVisible hs [] := fun _ hd => by cases hd
  have hb : ∀ d ∈ ([] : List Path), B s d := fun _ hd => by cases hd
  unfold walkTree
  obtain ⟨hl1, hl2⟩ := fsiLstat_eq H s p
  cases hls : (fsiWalkOps inner).lstat s p with
  | mk s1 r1 =>
    have hls' : fsiLstat inner s p = (s1, r1) := hls
    rw [hls'] at hl1 hl2
    simp only at hl1 hl2
    subst hl1
    cases r1 with
    | error e => exact hiddenRemoveFn_out H s1 [] p none (some e) h ha hb hp (fun fi e' => by cases e')
    | ok info =>
      exact (walk_out H fuel).1 s1 [] p info h ha hb hp (fun hd => H.isdir s1 p info h hp (hl2 info rfl) hd)

theorem hiddenRemoveDirs_invR (H : StepInvR hs inner I A B) :
    ∀ (ds : List Path) (s : σ), I s → AllVisible hs ds → (∀ d ∈ ds, B s d) → I (hiddenRemoveDirs hs inner s ds).1
  | [], s, h, _, _ => by rw [hiddenRemoveDirs]; exact h
  | d :: ds, s, h, ha, hb => by
    rw [hiddenRemoveDirs]
    have hrest : AllVisible hs ds := fun x hx => ha x (List.mem_cons_of_mem _ hx)
    have hbrest : ∀ x ∈ ds, B s x := fun x hx => hb x (List.mem_cons_of_mem _ hx)
    cases isParentOfHidden d hs with
    | error e => exact h
    | ok b =>
      cases b with
      | true => exact hiddenRemoveDirs_invR H ds s h hrest hbrest
      | false =>
        simp only
        obtain ⟨g1, _, g3⟩ := H.remove s d h (H.b_to_a _ _ (hb d (by simp))) (ha d (by simp))
        cases hc : inner.call s (.remove d) with
        | mk s1 r =>
          rw [hc] at g1 g3
          simp only at g1 g3
          cases r with
          | error e => exact g1
          | ok v => exact hiddenRemoveDirs_invR H ds s1 g1 hrest (fun x hx => g3 x (hbrest x hx))

/-- the whole of `HiddenFS.RemoveAll` keeps the invariant when started on an admissible name -/
theorem hiddenRemoveAll_invR (H : StepInvR hs inner I A B) (fuel : Nat) (s : σ) (name : Path) (h : I s)
    (hp : A s name) : I (hiddenRemoveAll hs inner fuel s name).1 := by
  unfold hiddenRemoveAll
  cases hg : hguard hs name .hiddenNotExist with
  | error e => exact h
  | ok u =>
    simp only
    have hv := hguard_ok hg
    have hl := H.lstat_state s name
    cases hc : inner.call s (.lstat name) with
    | mk s1 r =>
      rw [hc] at hl
      simp only at hl
      subst hl
      cases r with
      | error e => simp only; split <;> exact h
      | ok v =>
        cases v with
        | info fi =>
          simp only
          split
          · obtain ⟨g1, _, _⟩ := H.remove s1 name h hp hv
            cases hc2 : inner.call s1 (.remove name) with
            | mk s2 r2 =>
              rw [hc2] at g1
              cases r2 <;> exact g1
          · have hw := walkTree_out H fuel s1 name h hp
            cases hwt : walkTree (fsiWalkOps inner) (hiddenRemoveFn hs inner) fuel s1 [] name with
            | mk sa oe =>
              rw [hwt] at hw
              obtain ⟨s2, dirs⟩ := sa
              cases oe with
              | some e => exact hw.inv
              | none =>
                simp only
                apply hiddenRemoveDirs_invR H _ s2 hw.inv
                · intro d hd
                  unfold sortMost at hd
                  exact hw.vis d ((sortBy_perm _ _).mem_iff.mp hd)
                · intro d hd
                  unfold sortMost at hd
                  exact hw.acc d ((sortBy_perm _ _).mem_iff.mp hd)
        | unit => exact h
        | handle hd => exact h
        | str t => exact h

end
end HLL
end BFS
