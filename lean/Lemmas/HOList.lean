import Lemmas.HOWF
import Lemmas.PXObs
import Lemmas.Listing
/-!
  Lemmas/HOList.lean — what can be read through a handle returned by HiddenFS: the handle names a
  visible key, its listing filter name cleans to the path of that key; on two disks that agree on
  the visible keys `Read`, `File.Stat` and the FILTERED `Readdirnames` give the same.
-/
namespace BFS
namespace HO
open MFS D PX HiddenFS

theorem join_clean_left (pre x : Path) (hne : pre ≠ []) : join pre x = join (clean pre) x := by
  have hne' := clean_ne_nil pre
  have h1 : cleanC (join pre x) = cleanC (join (clean pre) x) := by
    rw [cleanC_join x hne, cleanC_join x hne', isRooted_clean, cleanC_clean]
  have h2 : clean (join pre x) = clean (join (clean pre) x) := by
    show (cleanC _).render = (cleanC _).render
    rw [h1]
  rw [← join_clean_is_clean pre x hne, ← join_clean_is_clean (clean pre) x hne', h2]

section
variable {bk : Key} {hks : List Key} {hs : List Path}

/-- the hidden check `hiddenFile.Readdirnames` applies to the entry `n` of the directory opened as `lname` -/
theorem entry_hidden_key (H : HidKeys hs hks) {lname : Path} {x : Key} (hx : PKey x) (hne : lname ≠ [])
    (hc : clean lname = kp x) {n : Name} (hn : Plain n) :
    isHidden (join lname n) hs = .ok (decide (HidK hks (x ++ [n]))) := by
  rw [join_clean_left lname n hne, hc, join_kp hx hn, isHidden_kp H (hx.append (PKey.single hn))]

theorem mem_sortStrings {l : List Path} {n : Path} : n ∈ sortStrings l ↔ n ∈ l :=
  (sortBy_perm strLt l).mem_iff

/-- what listings need of a disk: live keys are made of plain names, and `dom` enumerates them -/
structure PlainDom (m : MFS) : Prop where
  pkey : ∀ k n, m.get k = some n → PKey k
  ds : DomSup m

theorem PlainDom.of_wfb {pk : Key} {m : MFS} (h : WFB pk m) : PlainDom m := ⟨h.pkey, wfb_domSup h⟩

/-- the names `Readdirnames` reports on a well-formed disk: plain names of live children -/
theorem children_plain {m : MFS} (hw : PlainDom m) (K : Key) :
    ∀ n, n ∈ sortStrings (m.childNames K) → Plain n ∧ (m.get (K ++ [n])).isSome := by
  intro n hn
  have hl := (mem_childNames' hw.ds K n).mp (mem_sortStrings.mp hn)
  obtain ⟨nd, hnd⟩ := Option.isSome_iff_exists.mp hl
  exact ⟨hw.pkey _ nd hnd n (by simp), hl⟩

theorem visibleName_iff (H : HidKeys hs hks) {lname : Path} {x : Key} (hx : PKey x) (hne : lname ≠ [])
    (hc : clean lname = kp x) {n : Name} (hn : Plain n) :
    visibleName hs lname n = true ↔ ¬ HidK hks (x ++ [n]) := by
  unfold visibleName
  rw [entry_hidden_key H hx hne hc hn]
  by_cases hh : HidK hks (x ++ [n])
  · simp [hh]
  · simp [hh]

/-- the visible entries of a visible directory, in listing order, are the same on two disks that agree
on the visible keys -/
theorem visible_children_same (H : HidKeys hs hks) {m1 m2 : MFS} (hw1 : PlainDom m1) (hw2 : PlainDom m2)
    (ha : Agr (Vis bk hks) m1 m2) {x : Key} (hx : PKey x) {lname : Path} (hne : lname ≠ [])
    (hc : clean lname = kp x) :
    (sortStrings (m1.childNames (bk ++ x))).filter (visibleName hs lname) =
      (sortStrings (m2.childNames (bk ++ x))).filter (visibleName hs lname) := by
  have nd : ∀ m : MFS, ((sortStrings (m.childNames (bk ++ x))).filter (visibleName hs lname)).Nodup :=
    fun m => ((sortBy_perm strLt _).symm.nodup (childNames_nodup m (bk ++ x))).sublist List.filter_sublist
  have pw : ∀ m : MFS, ((sortStrings (m.childNames (bk ++ x))).filter (visibleName hs lname)).Pairwise (leOf strLt) :=
    fun m => (sortBy_pairwise strictTotal_strLt _).sublist List.filter_sublist
  have one : ∀ {a b : MFS}, PlainDom a → Agr (Vis bk hks) a b → DomSup b → ∀ n,
      n ∈ (sortStrings (a.childNames (bk ++ x))).filter (visibleName hs lname) →
      n ∈ (sortStrings (b.childNames (bk ++ x))).filter (visibleName hs lname) := by
    intro a b hwa hab hsb n hn
    rw [List.mem_filter] at hn ⊢
    obtain ⟨hn1, hn2⟩ := hn
    obtain ⟨hpl, hl⟩ := children_plain hwa _ n hn1
    refine ⟨?_, hn2⟩
    rw [mem_sortStrings, mem_childNames' hsb]
    have hvis := (visibleName_iff H hx hne hc hpl).mp hn2
    have hV : Vis bk hks (bk ++ x ++ [n]) := by
      rw [List.append_assoc]; exact vis_key hvis
    rw [← hab.get _ hV]
    exact hl
  have hperm : ((sortStrings (m1.childNames (bk ++ x))).filter (visibleName hs lname)).Perm
      ((sortStrings (m2.childNames (bk ++ x))).filter (visibleName hs lname)) := by
    rw [List.perm_ext_iff_of_nodup (nd m1) (nd m2)]
    intro n
    exact ⟨one hw1 ha hw2.ds n, one hw2 ha.symm hw1.ds n⟩
  exact (sorted_perm_unique strictTotal_strLt hperm (pw m1)).trans
    (sorted_perm_unique strictTotal_strLt (List.Perm.refl _) (pw m2)).symm

/-- the filtered listing of a visible directory is the same on two disks that agree on the visible keys -/
theorem filtered_listing_same (H : HidKeys hs hks) {m1 m2 : MFS} (hw1 : PlainDom m1) (hw2 : PlainDom m2)
    (ha : Agr (Vis bk hks) m1 m2) {x : Key} (hx : PKey x) (hv : ¬ HidK hks x) {h : Handle}
    (hk : h.key = bk ++ x) (hne : h.lname ≠ []) (hc : clean h.lname = kp x) :
    (match m1.hreaddirnames h with
      | .error e => (.error e : Except Err (List Name))
      | .ok names => hiddenFilter hs h.lname names) =
    (match m2.hreaddirnames h with
      | .error e => .error e
      | .ok names => hiddenFilter hs h.lname names) := by
  unfold MFS.hreaddirnames
  rw [← ha.get h.key (hk ▸ vis_key hv)]
  cases hg : m1.get h.key with
  | none => rfl
  | some node =>
    cases node with
    | file c mt => rfl
    | link t mt => rfl
    | dir mt =>
      simp only
      have noerr : ∀ {m : MFS}, PlainDom m → NoErr hs h.lname (sortStrings (m.childNames h.key)) := by
        intro m hw n hn
        exact ⟨_, entry_hidden_key H hx hne hc (children_plain hw _ n hn).1⟩
      rw [hiddenFilter_ok hs h.lname _ (noerr hw1), hiddenFilter_ok hs h.lname _ (noerr hw2)]
      congr 1
      unfold visible
      rw [hk]
      exact visible_children_same H hw1 hw2 ha hx hne hc

/-! ### which handles HiddenFS returns -/

theorem translate_primary {c c1 : Call} (h : translate hs c = .ok c1) : c1.primaryPath = c.primaryPath := by
  cases c <;> simp only [translate, bind, Except.bind, pure, Except.pure] at h
  case rename o n =>
    repeat (first | (cases h; rfl) | split at h | cases h)
  case symlink o n =>
    repeat (first | (cases h; rfl) | split at h | cases h)
  all_goals (
    split at h
    · cases h
    · cases h; rfl)

end

section
variable {bk : Key} {hks : List Key} {hp : List Path}

/-- a handle returned by HiddenFS over `PrefixFS(kp bk)` on a link-free disk: its key is a visible key
`bk ++ x`, and the name its listings are filtered with cleans to `kp x` -/
theorem hidden_handle_facts (H : HidKeys (HiddenFS.mk hp) hks) (hne : hks ≠ []) (hbk : PKey bk) {m : MFS}
    (hw : WFB bk m) {c : Call} (hnra : ∀ n, c ≠ .removeAll n) {h : Handle}
    (hr : ((hiddenFS hp (prefixFS (kp bk) osfs)).call m c).2 = .ok (.handle h)) :
    ∃ x, PKey x ∧ ¬ HidK hks x ∧ h.key = bk ++ x ∧ h.lname ≠ [] ∧ clean h.lname = kp x := by
  rw [hiddenFS_call_gen hp _ m c hnra] at hr
  cases htr : translate (HiddenFS.mk hp) c with
  | error e => rw [htr] at hr; cases hr
  | ok c1 =>
    rw [htr] at hr
    simp only at hr
    obtain ⟨hvis, _, _⟩ := translate_ok_visible htr
    have hprim := translate_primary htr
    -- peel `hiddenPost`
    cases hpr : ((prefixFS (kp bk) osfs).call m c1).2 with
    | error e => rw [hpr] at hr; cases hr
    | ok ret =>
      rw [hpr] at hr
      cases ret with
      | unit => cases hr
      | info i => cases hr
      | str s => cases hr
      | handle h0 =>
        simp only [Except.map, hiddenPost, Except.ok.injEq, Ret.handle.injEq] at hr
        subst hr
        simp only
        rcases prefix_call_cases hbk m c1 with ⟨e, he, hc⟩ | ⟨c2, hk, he, hc⟩
        · rw [hc] at hpr; cases hpr
        · rw [hc] at hpr
          obtain ⟨h00, h1, h2⟩ := map_post_ok_handle hpr
          rw [← h2, ← hprim]
          have key : ∀ (n : Path) (x : Key) (fl pm : Nat), PKey x → n ∈ c1.accessPaths →
              PrefixFS.prefixPath (kp bk) n = .ok (kp (bk ++ x)) →
              (m.openFile (kp (bk ++ x)) fl pm).2.map Ret.handle = .ok (.handle h00) →
              ∃ x, PKey x ∧ ¬ HidK hks x ∧ h00.key = bk ++ x ∧ n ≠ [] ∧ clean n = kp x := by
            intro n x fl pm hx hn hpp hh
            have hN := NC.of_case (hw.resolve_key hbk hx (TextOf.kp (bk ++ x))
              (!(hasFlag fl O_CREATE && hasFlag fl O_EXCL)))
            obtain ⟨y, hy, hcy, hvy⟩ := visible_key H hne (hvis n hn)
            have hxy := prefixPath_key_eq hbk hx hy hcy hpp
            subst hxy
            refine ⟨x, hx, hvy, ?_, ?_, hcy⟩
            · cases ho : (m.openFile (kp (bk ++ x)) fl pm).2 with
              | error e => rw [ho] at hh; cases hh
              | ok h' =>
                rw [ho] at hh
                simp only [Except.map, Except.ok.injEq, Ret.handle.injEq] at hh
                rw [← hh]
                exact openFile_handle_key hN ho
            · intro e
              rw [e] at hcy
              have : clean ([] : Path) = ['.'] := by decide
              rw [this] at hcy
              simp [kp] at hcy
          cases hk with
          | create n x hx hpp => exact key n x _ _ hx (by simp [Call.accessPaths]) hpp h1
          | open_ n x hx hpp => exact key n x _ _ hx (by simp [Call.accessPaths]) hpp h1
          | openFile n f p x hx hpp => exact key n x _ _ hx (by simp [Call.accessPaths]) hpp h1
          | stat n x hx _ =>
            exfalso
            simp only [osCall] at h1
            cases hs : m.stat (kp (bk ++ x)) <;> (rw [hs] at h1; cases h1)
          | lstat n x hx _ =>
            exfalso
            simp only [osCall] at h1
            cases hs : m.lstat (kp (bk ++ x)) <;> (rw [hs] at h1; cases h1)
          | readlink n x hx _ =>
            exfalso
            simp only [osCall] at h1
            cases hs : m.readlink (kp (bk ++ x)) <;> (rw [hs] at h1; cases h1)
          | mkdir n p x hx _ => exact absurd h1 (liftU_not_handle _ _)
          | mkdirAll n p x hx _ => exact absurd h1 (liftU_not_handle _ _)
          | remove n x hx _ => exact absurd h1 (liftU_not_handle _ _)
          | removeAll n x hx _ => exact absurd h1 (liftU_not_handle _ _)
          | rename o n x y hx hy _ _ => exact absurd h1 (liftU_not_handle _ _)
          | chmod n md x hx _ => exact absurd h1 (liftU_not_handle _ _)
          | chown n u g x hx _ => exact absurd h1 (liftU_not_handle _ _)
          | chtimes n a t x hx _ => exact absurd h1 (liftU_not_handle _ _)
          | symlink o n o' x hx _ => exact absurd h1 (liftU_not_handle _ _)
          | lchown n u g x hx _ => exact absurd h1 (liftU_not_handle _ _)

/-- reads through a handle on a visible key, on two disks that agree on the visible keys -/
theorem hidden_through_same (H : HidKeys (HiddenFS.mk hp) hks) {m1 m2 : MFS} (hw1 : PlainDom m1) (hw2 : PlainDom m2)
    (ha : Agr (Vis bk hks) m1 m2) {x : Key} (hx : PKey x) (hv : ¬ HidK hks x) {h : Handle}
    (hk : h.key = bk ++ x) (hne : h.lname ≠ []) (hc : clean h.lname = kp x) :
    ((hiddenFS hp (prefixFS (kp bk) osfs)).hread m1 h, (hiddenFS hp (prefixFS (kp bk) osfs)).hstat m1 h,
        (hiddenFS hp (prefixFS (kp bk) osfs)).hreaddirnames m1 h) =
      ((hiddenFS hp (prefixFS (kp bk) osfs)).hread m2 h, (hiddenFS hp (prefixFS (kp bk) osfs)).hstat m2 h,
        (hiddenFS hp (prefixFS (kp bk) osfs)).hreaddirnames m2 h) := by
  have e1 : m1.hread h = m2.hread h := by
    unfold MFS.hread; rw [ha.get h.key (hk ▸ vis_key hv)]
  have e2 : m1.hstat h = m2.hstat h := by
    unfold MFS.hstat; rw [ha.get h.key (hk ▸ vis_key hv)]
  have e3 := filtered_listing_same H hw1 hw2 ha hx hv hk hne hc
  show (m1.hread h, m1.hstat h, _) = (m2.hread h, m2.hstat h, _)
  rw [e1, e2]
  congr 2

end
end HO
end BFS
