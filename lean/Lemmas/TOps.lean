import Lemmas.TFail
import Lemmas.OpsB
import Lemmas.TDirect
/-!
  Lemmas/TOps.lean — transparency of one operation (C03), single-path mutators and read-only
  operations: the operation through BackupFS (`Op.exec`) and the same operation issued directly on
  the base filesystem (`Op.direct`) agree in result and leave the same base view (`Transp`).
-/
namespace BFS
open BackupFS MFS

section
variable {bk kk : Key}

/-- the `Sim` instance of the OS model for given roots -/
abbrev osSimR (hr : Roots bk kk) : Sim (osCfg bk kk) := osSim bk kk hr.pb hr.pk hr.nb hr.nk hr.d1 hr.d2

/-- the result through BackupFS agrees with the direct result: same data on success; on failure
the same error class, except that BackupFS reports `errDirInfoExpected` (class `typeMismatch`, raised by
`backupDirs` when a proper ancestor of the name is a regular file) where the direct call reports
ENOTDIR (for `Rename`: ENOTDIR, or the ENOENT of the other name) -/
def ResAgree (rx : Except Err OpOut) (rd : Except Err DOut) : Prop :=
  match rx, rd with
  | .ok a, .ok b => a.data = b
  | .error e1, .error e2 => e1 = e2 ∨ (e1 = .typeMismatch ∧ e2.isNotFound = true)
  | _, _ => False

/-- transparency of one step: `w'`, `r` the world and result after the operation through BackupFS,
`d` the outcome of the direct call -/
structure Transp (bk kk : Key) (w' : World) (r : Except Err OpOut) (d : MFS × Except Err DOut) : Prop where
  res : ResAgree r d.2
  twin : Twin bk kk w'.fs d.1

theorem Twin.refl {m : MFS} (hg : OSGood bk kk m) : Twin bk kk m m := ⟨hg, hg, BEq.refl bk m⟩

theorem twin_of_adv (hr : Roots bk kk) {v0 : View} {r0 : Option Node} {w w1 : World}
    (hinv : InvB (osSimR hr) v0 r0 w) (hadv : AdvB (osSimR hr) v0 r0 w w1) (hu : w1.fs.umask = w.fs.umask) :
    Twin bk kk w1.fs w.fs := by
  refine ⟨hadv.inv.good, hinv.good, ?_, hu⟩
  intro K hK
  obtain ⟨j, rfl⟩ := hK
  exact congrFun hadv.base j

/-! ### primitives on healthy filesystems -/

theorem sat_primCall_nf {cfg : Cfg} {side : Side} {c : Call} {w : World} (hnf : w.faults = []) :
    Sat (primCall cfg side c) w (fun w' r => w'.fs = ((cfg.side side).call w.fs c).1 ∧
      r = ((cfg.side side).call w.fs c).2 ∧ w'.infos = w.infos ∧ w'.faults = w.faults) := by
  apply Sat.primCall
  · intro hf; exact absurd hnf hf
  · intro w1 h1; exact ⟨rfl, rfl, h1.infos, h1.faults⟩

theorem sat_primH_nf {wh : WHandle} {method : String} {extra : List Path} {mu : Bool} {w : World}
    (hnf : w.faults = []) :
    Sat (primH wh method extra mu) w (fun w' r => SameFS w w' ∧ r = .ok ()) := by
  apply Sat.primH
  · intro hf; exact absurd hnf hf
  · intro w1 h1; exact ⟨h1, rfl⟩

theorem directUnit_fst (fs : FSI MFS) (m : MFS) (c : Call) : (directUnit fs m c).1 = (fs.call m c).1 := by
  unfold directUnit
  cases fs.call m c with
  | mk m' r => cases r <;> rfl

theorem directUnit_snd (fs : FSI MFS) (m : MFS) (c : Call) :
    (directUnit fs m c).2 = (fs.call m c).2.map (fun _ => DOut.unit) := by
  unfold directUnit
  cases fs.call m c with
  | mk m' r => cases r <;> rfl

theorem resAgree_unit (r : Except Err Ret) :
    ResAgree (r.map (fun _ => OpOut.unit)) (r.map (fun _ => DOut.unit)) := by
  cases r with
  | ok a => rfl
  | error e => exact Or.inl rfl

/-- a base call returning nothing, then `pure .unit` -/
theorem sat_unit_nf {cfg : Cfg} {c : Call} {w : World} (hnf : w.faults = []) :
    Sat (do primUnit cfg .base c; pure OpOut.unit : M OpOut) w (fun w' r =>
      w'.fs = ((cfg.side .base).call w.fs c).1 ∧
      r = ((cfg.side .base).call w.fs c).2.map (fun _ => OpOut.unit)) := by
  apply Sat.bind
  unfold primUnit
  apply Sat.bind
  apply (sat_primCall_nf hnf).mono
  intro w1 r ⟨hfs, hr, _, _⟩
  cases r with
  | error e => exact ⟨hfs, by rw [← hr]; rfl⟩
  | ok a =>
    apply Sat.pure
    apply Sat.pure
    exact ⟨hfs, by rw [← hr]; rfl⟩

/-! ### single-path mutators without a handle -/

theorem single_transp (hr : Roots bk kk) {v0 : View} {r0 : Option Node} {w : World} {name : Path} {k : Key}
    {c : Path → Call} (hinv : InvB (osSimR hr) v0 r0 w) (hk : PKey k) (hname : clean name = kp k)
    (hspell : ∀ m, (baseFS bk kk).call m (c name) = (baseFS bk kk).call m (c (kp k)))
    (hrel : ∀ m1 m2, Twin bk kk m1 m2 → CallRel bk kk m1 m2 (c (kp k)))
    (hfail : ∀ m, OSGood bk kk m → FileAnc (osView bk kk .base m) k →
      (baseFS bk kk).call m (c (kp k)) = (m, .error .notDir)) :
    Sat (do (prepare (osCfg bk kk) name >>= fun r => primUnit (osCfg bk kk) .base (c r)); pure OpOut.unit : M OpOut) w
      (fun w' r => Transp bk kk w' r (directUnit (baseFS bk kk) w.fs (c name))) := by
  have hd1 := directUnit_fst (baseFS bk kk) w.fs (c name)
  have hd2 := directUnit_snd (baseFS bk kk) w.fs (c name)
  rw [hspell] at hd1 hd2
  show Sat ((prepare (osCfg bk kk) name >>= fun r => primUnit (osCfg bk kk) .base (c r)) >>= fun _ => pure OpOut.unit) w _
  have hassoc : ((prepare (osCfg bk kk) name >>= fun r => primUnit (osCfg bk kk) .base (c r)) >>= fun _ => (pure OpOut.unit : M OpOut)) =
      (prepare (osCfg bk kk) name >>= fun r => (do primUnit (osCfg bk kk) .base (c r); pure OpOut.unit : M OpOut)) := by
    funext w0
    simp only [M.bind_apply]
    cases prepare (osCfg bk kk) name w0 with
    | mk w1 r => cases r <;> rfl
  rw [hassoc]
  apply Sat.bind
  apply ((sat_prepareT hinv hk hname).and
    (show Sat (prepare (osCfg bk kk) name) w (fun w' _ => w'.fs.umask = w.fs.umask) from
      prepare_ku (osCfg_keeps_umask bk kk) name w)).mono
  intro w1 r ⟨⟨hadv, hok, hfl⟩, hu⟩
  have htw := twin_of_adv hr hinv hadv hu
  cases r with
  | error e =>
    obtain ⟨he, hfa⟩ := hfl e rfl
    have hcall := hfail w.fs hinv.good hfa
    rw [hcall] at hd1 hd2
    refine ⟨?_, ?_⟩
    · rw [hd2, he]
      exact Or.inr ⟨rfl, rfl⟩
    · rw [hd1]; exact htw
  | ok p =>
    obtain ⟨hp, _⟩ := hok p rfl
    subst hp
    simp only
    apply (sat_unit_nf (cfg := osCfg bk kk) (c := c (kp k)) hadv.inv.nofault).mono
    intro w2 r2 ⟨hfs, hr2⟩
    obtain ⟨hres, htw2⟩ := hrel w1.fs w.fs htw
    refine ⟨?_, ?_⟩
    · rw [hd2, hr2]
      show ResAgree (((baseFS bk kk).call w1.fs (c (kp k))).2.map _) _
      rw [hres]
      exact resAgree_unit _
    · rw [hd1, hfs]
      exact htw2

end

end BFS
