import Lemmas.DMkAll
import Lemmas.DKeys
/-!
  Lemmas/DConf.lean — the effect on the disk of one OS call whose entry names are keys at or below
  `pk`, on a disk without symlinks at/below `pk` and among its ancestors (`WFB pk m`); and the
  confinement relation it implies when the directory `pk` exists.
-/
namespace BFS
namespace D
open MFS

/-- what the OS call `c'` (names `kp (pk ++ x)`) does to the disk -/
def Effect (pk : Key) (m m' : MFS) : Call → Prop
  | .removeAll p => ∃ x, PKey x ∧ p = kp (pk ++ x) ∧ BelowK m m' (pk ++ x)
  | .rename o n => ∃ x y, PKey x ∧ PKey y ∧ o = kp (pk ++ x) ∧ n = kp (pk ++ y) ∧
      (m' = m ∨ Moved m m' (pk ++ x) (pk ++ y))
  | .mkdirAll p _ => ∃ x, PKey x ∧ p = kp (pk ++ x) ∧ MkAll m m' (pk ++ x)
  | c => ∃ x, PKey x ∧ c.primaryPath = kp (pk ++ x) ∧ At m m' (pk ++ x)

theorem osCall_effect {pk : Key} {m : MFS} (hg : WFB pk m) (hpk : PKey pk) {c c' : Call}
    (hk : KeyCall pk c c') : Effect pk m (osCall m c').1 c' := by
  have R : ∀ {x : Key}, PKey x → ∀ f, NC m (pk ++ x) (namei m (kp (pk ++ x)) f) :=
    fun hx f => NC.of_case (hg.resolve_key hpk hx (TextOf.kp _) f)
  cases hk with
  | create n x hx _ => exact ⟨x, hx, rfl, at_openFile _ _ (R hx _)⟩
  | mkdir n p x hx _ => exact ⟨x, hx, rfl, at_mkdir _ (R hx _)⟩
  | mkdirAll n p x hx _ =>
    exact ⟨x, hx, rfl, (mkdirAll_frame p _ (pk ++ x) _ m _ _ hg (hpk.append hx)
      (Or.inl (List.prefix_append _ _)) (TextOf.kp _) rfl).2⟩
  | open_ n x hx _ => exact ⟨x, hx, rfl, at_openFile _ _ (R hx _)⟩
  | openFile n f p x hx _ => exact ⟨x, hx, rfl, at_openFile _ _ (R hx _)⟩
  | remove n x hx _ => exact ⟨x, hx, rfl, at_remove (R hx _)⟩
  | removeAll n x hx _ => exact ⟨x, hx, rfl, belowK_removeAll (R hx _)⟩
  | rename o n x y hx hy _ _ => exact ⟨x, y, hx, hy, rfl, rfl, rename_frame (R hx _) (R hy _)⟩
  | stat n x hx _ => exact ⟨x, hx, rfl, At.refl _ _⟩
  | chmod n md x hx _ => exact ⟨x, hx, rfl, at_chmod _ (R hx _)⟩
  | chown n u g x hx _ => exact ⟨x, hx, rfl, at_chown _ _ (R hx _)⟩
  | chtimes n a t x hx _ => exact ⟨x, hx, rfl, at_chtimes _ (R hx _)⟩
  | lstat n x hx _ => exact ⟨x, hx, rfl, At.refl _ _⟩
  | symlink o n o' x hx _ => exact ⟨x, hx, rfl, at_symlink _ (R hx _)⟩
  | readlink n x hx _ => exact ⟨x, hx, rfl, At.refl _ _⟩
  | lchown n u g x hx _ => exact ⟨x, hx, rfl, at_lchown _ _ (R hx _)⟩

/-! ### confinement -/

/-- outside the subtree of `pk` nothing changes — except that the parent directory of `pk` gets a
fresh mtime if the entry `pk` itself disappears -/
structure Confined (pk : Key) (m m' : MFS) : Prop where
  other : ∀ j, ¬ pk <+: j → j ≠ pk.dropLast → m'.get j = m.get j
  par : pk ≠ [] → Stamp (m.get pk.dropLast) (m'.get pk.dropLast)
  same : (m'.get pk).isSome → ∀ j, ¬ pk <+: j → m'.get j = m.get j

theorem Confined.refl (pk : Key) (m : MFS) : Confined pk m m :=
  ⟨fun _ _ _ => rfl, fun _ => Stamp.refl _, fun _ _ _ => rfl⟩

theorem Confined.of_all {pk : Key} {m m' : MFS} (key : ∀ j, ¬ pk <+: j → m'.get j = m.get j) :
    Confined pk m m' :=
  ⟨fun j hj _ => key j hj, fun hne => by rw [key _ (not_prefix_dropLast hne)]; exact Stamp.refl _,
    fun _ => key⟩

theorem not_below_of_dropLast {pk K : Key} (hK : pk <+: K) (hne : K ≠ pk) {j : Key} (hj : ¬ pk <+: j) :
    j ≠ K.dropLast := by
  intro e
  apply hj
  rw [e]
  exact prefix_dropLast hK (Ne.symm hne)

theorem confined_of_at {pk K : Key} {m m' : MFS} (hK : pk <+: K) (hlive : (m.get pk).isSome)
    (h : At m m' K) : Confined pk m m' := by
  by_cases he : K = pk
  · subst he
    refine ⟨fun j hj hj' => h.other j (fun e => hj (e ▸ List.prefix_rfl)) hj', h.par, ?_⟩
    intro hs j hj
    exact h.same (by rw [hs, hlive]) j (fun e => hj (e ▸ List.prefix_rfl))
  · exact Confined.of_all fun j hj =>
      h.other j (fun e => hj (e ▸ hK)) (not_below_of_dropLast hK he hj)

theorem confined_of_belowK {pk K : Key} {m m' : MFS} (hK : pk <+: K) (hlive : (m.get pk).isSome)
    (h : BelowK m m' K) : Confined pk m m' := by
  by_cases he : K = pk
  · subst he
    refine ⟨fun j hj hj' => h.other j hj hj', h.par, ?_⟩
    intro hs j hj
    exact h.same (by rw [hs, hlive]) j hj
  · exact Confined.of_all fun j hj =>
      h.other j (fun e => hj (hK.trans e)) (not_below_of_dropLast hK he hj)

theorem confined_of_moved {pk Ko Kn : Key} {m m' : MFS} (hKo : pk <+: Ko) (hKn : pk <+: Kn)
    (hdir : ∃ mt, m.get pk = some (.dir mt)) (h : Moved m m' Ko Kn) : Confined pk m m' := by
  have h1 : Ko ≠ pk := by
    intro e; subst e; exact h.apart hKn
  have h2 : Kn ≠ pk := by
    intro e; subst e
    obtain ⟨mt, hd⟩ := hdir
    exact h.tgt mt hd
  exact Confined.of_all fun j hj =>
    h.other j (fun e => hj (hKo.trans e)) (fun e => hj (hKn.trans e))
      (not_below_of_dropLast hKo h1 hj) (not_below_of_dropLast hKn h2 hj)

theorem confined_of_mkAll {pk : Key} {m m' : MFS} (hg : WFB pk m) {K : Key} (hK : pk <+: K)
    (hlive : (m.get pk).isSome) (h : MkAll m m' K) : Confined pk m m' := by
  have hn : m.get pk ≠ none := by
    intro e; rw [e] at hlive; cases hlive
  apply Confined.of_all
  intro j hj
  rcases h j with h | ⟨a, b⟩ | ⟨_, c, a, b⟩
  · exact h
  · -- an absent prefix of `K` is not a prefix of the live `pk`, so it is below `pk`
    exfalso
    rcases List.prefix_or_prefix_of_prefix a hK with h1 | h1
    · exact hn (hg.below_none h1 b)
    · exact hj h1
  · exfalso
    rcases List.prefix_or_prefix_of_prefix a hK with h1 | h1
    · exact hn (hg.below_none h1 b)
    · -- `pk <+: j ++ [c]` with `pk ≠ j ++ [c]` (the latter is absent)
      have hne : pk ≠ j ++ [c] := by
        intro e; rw [← e] at b; exact hn b
      have := prefix_dropLast h1 hne
      rw [List.dropLast_concat] at this
      exact hj this

/-- every OS call with names at or below the live directory `pk` is confined to it -/
theorem confined_of_effect {pk : Key} {m m' : MFS} (hg : WFB pk m) (hdir : ∃ mt, m.get pk = some (.dir mt))
    {c' : Call} (h : Effect pk m m' c') : Confined pk m m' := by
  have hlive : (m.get pk).isSome := by
    obtain ⟨mt, hd⟩ := hdir
    rw [hd]; rfl
  have hp : ∀ x : Key, pk <+: pk ++ x := fun x => List.prefix_append _ _
  cases c' <;> simp only [Effect] at h
  case removeAll p =>
    obtain ⟨x, _, _, hb⟩ := h
    exact confined_of_belowK (hp x) hlive hb
  case rename o n =>
    obtain ⟨x, y, _, _, _, _, hm⟩ := h
    rcases hm with rfl | hm
    · exact Confined.refl _ _
    · exact confined_of_moved (hp x) (hp y) hdir hm
  case mkdirAll p perm =>
    obtain ⟨x, _, _, hb⟩ := h
    exact confined_of_mkAll hg (hp x) hlive hb
  all_goals (
    obtain ⟨x, _, _, hb⟩ := h
    exact confined_of_at (hp x) hlive hb)

/-! ### the prefix directory survives everything but its own removal -/

theorem pk_stays {pk x : Key} {m m' : MFS} (hd : (m.get pk).isSome) (ha : At m m' (pk ++ x))
    (hkeep : (m.get (pk ++ x)).isSome → (m'.get (pk ++ x)).isSome) : (m'.get pk).isSome := by
  by_cases hxe : x = []
  · subst hxe
    simp only [List.append_nil] at hkeep
    exact hkeep hd
  · have hne : pk ≠ pk ++ x := by
      intro e
      have := congrArg List.length e
      simp at this
      exact hxe this
    by_cases hpar : pk = (pk ++ x).dropLast
    · have hne' : pk ++ x ≠ [] := by simp [hxe]
      have := (ha.par hne').isSome
      rw [← hpar] at this
      rw [this]; exact hd
    · rw [ha.other pk hne hpar]; exact hd

theorem osCall_keeps_prefix {pk : Key} {m : MFS} (hg : WFB pk m) (hpk : PKey pk)
    (hdir : ∃ mt, m.get pk = some (.dir mt)) {c c' : Call} (hk : KeyCall pk c c')
    (hrm : ∀ n, c ≠ .remove n ∧ c ≠ .removeAll n) : ((osCall m c').1.get pk).isSome := by
  have R : ∀ {x : Key}, PKey x → ∀ f, NC m (pk ++ x) (namei m (kp (pk ++ x)) f) :=
    fun hx f => NC.of_case (hg.resolve_key hpk hx (TextOf.kp _) f)
  have hd : (m.get pk).isSome := by
    obtain ⟨mt, h⟩ := hdir
    rw [h]; rfl
  have hp : ∀ x : Key, pk <+: pk ++ x := fun x => List.prefix_append _ _
  cases hk with
  | create n x hx _ => exact pk_stays hd (at_openFile _ _ (R hx _)) (keep_openFile _ _ (R hx _))
  | mkdir n p x hx _ => exact pk_stays hd (at_mkdir _ (R hx _)) (keep_mkdir _ (R hx _))
  | mkdirAll n p x hx _ =>
    have h : MkAll m (osCall m (.mkdirAll (kp (pk ++ x)) p)).1 (pk ++ x) :=
      (mkdirAll_frame p _ (pk ++ x) _ m _ _ hg (hpk.append hx)
        (Or.inl (List.prefix_append _ _)) (TextOf.kp _) rfl).2
    rcases h pk with h | ⟨_, b⟩ | ⟨a, _⟩
    · rw [h]; exact hd
    · rw [b] at hd; cases hd
    · rw [a.isSome]; exact hd
  | open_ n x hx _ => exact pk_stays hd (at_openFile _ _ (R hx _)) (keep_openFile _ _ (R hx _))
  | openFile n f p x hx _ => exact pk_stays hd (at_openFile _ _ (R hx _)) (keep_openFile _ _ (R hx _))
  | remove n x hx _ => exact absurd rfl (hrm n).1
  | removeAll n x hx _ => exact absurd rfl (hrm n).2
  | rename o n x y hx hy _ _ =>
    show ((m.rename _ _).1.get pk).isSome
    rcases rename_frame (R hx false) (R hy false) with h | h
    · rw [h]; exact hd
    · have h1 : ¬ pk ++ x <+: pk := by
        intro e
        apply h.apart
        exact e.trans (hp y)
      have h2 : ¬ pk ++ y <+: pk := by
        intro e
        have hy : y = [] := by
          have := e.length_le
          simp only [List.length_append] at this
          exact List.length_eq_zero_iff.mp (by omega)
        obtain ⟨mt, hdd⟩ := hdir
        apply h.tgt mt
        rw [hy, List.append_nil]
        exact hdd
      rw [(h.stamp pk h1 h2).isSome]; exact hd
  | stat n x hx _ => exact hd
  | chmod n md x hx _ => exact pk_stays hd (at_chmod _ (R hx _)) (keep_chmod _ (R hx _))
  | chown n u g x hx _ => exact pk_stays hd (at_chown _ _ (R hx _)) (keep_chown _ _ (R hx _))
  | chtimes n a t x hx _ => exact pk_stays hd (at_chtimes _ (R hx _)) (keep_chtimes _ (R hx _))
  | lstat n x hx _ => exact hd
  | symlink o n o' x hx _ => exact pk_stays hd (at_symlink _ (R hx _)) (keep_symlink _ (R hx _))
  | readlink n x hx _ => exact hd
  | lchown n u g x hx _ => exact pk_stays hd (at_lchown _ _ (R hx _)) (keep_lchown _ _ (R hx _))

/-- through the layer: refused (disk and error as they are) or one OS call with keys below `pk` -/
theorem prefix_call_cases {pk : Key} (hpk : PKey pk) (m : MFS) (c : Call) :
    (∃ e, PrefixFS.translate (kp pk) c = .error e ∧ (prefixFS (kp pk) osfs).call m c = (m, .error e)) ∨
    (∃ c', KeyCall pk c c' ∧ PrefixFS.translate (kp pk) c = .ok c' ∧
      (prefixFS (kp pk) osfs).call m c = ((osCall m c').1, (osCall m c').2.map (prefixPost (kp pk) c c'))) := by
  cases h : PrefixFS.translate (kp pk) c with
  | error e =>
    left
    refine ⟨e, rfl, ?_⟩
    rw [prefixFS_call, mk_kp hpk, h]
  | ok c' =>
    right
    refine ⟨c', translate_keyCall hpk h, rfl, ?_⟩
    rw [prefixFS_call, mk_kp hpk, h]

/-! ### handles -/

theorem openFile_handle_key {m : MFS} {K : Key} {t : Path} {flag perm : Nat} {h : Handle}
    (hN : NC m K (namei m t (!(hasFlag flag O_CREATE && hasFlag flag O_EXCL))))
    (hr : (m.openFile t flag perm).2 = .ok h) : h.key = K := by
  unfold MFS.openFile at hr
  simp only at hr
  rcases hN with ⟨n, hn, hres⟩ | ⟨hne, mt, hn, hp, hres⟩ | ⟨e, hres⟩
  · rw [hres] at hr
    simp only at hr
    split at hr
    · cases hr
    · cases n with
      | dir mt =>
        simp only at hr
        split at hr
        · cases hr
        · cases hr; rfl
      | link tg mt => cases hr
      | file c mt =>
        simp only at hr
        split at hr <;> (cases hr; rfl)
  · rw [hres] at hr
    simp only at hr
    split at hr
    · cases hr
    · cases hr
      exact dropLast_append_getLast' hne
  · rw [hres] at hr
    cases hr

/-- a write through a handle changes the node at the handle's key only -/
theorem hwrite_frame (m : MFS) (h : Handle) (off : Nat) (d : String) (j : Key) (hj : j ≠ h.key) :
    (m.hwrite h off d).1.get j = m.get j := by
  unfold MFS.hwrite
  split
  · rfl
  · split
    · split
      · rfl
      · exact set_get_ne m _ hj
    · rfl

end D
end BFS
