import Lemmas.DTame2
/-!
  Lemmas/PXAgree.lean — two disks that hold the same node at every key at or below `pk`
  (`AgreeIn pk m1 m2`), both with `pk` and its ancestors live directories, the links below `pk` tame:
  kernel name resolution of every text naming a key at or below `pk` gives EXACTLY the same outcome
  on both (same `Res`, fuel and hop count included) — what is outside `pk` is never consulted, except
  that the ancestors of `pk` are directories, which both disks share.
-/
namespace BFS
namespace PX
open MFS D

/-- the two disks hold the same node at every key at or below `pk` -/
def AgreeIn (pk : Key) (m1 m2 : MFS) : Prop := ∀ K, pk <+: K → m1.get K = m2.get K

theorem AgreeIn.refl (pk : Key) (m : MFS) : AgreeIn pk m m := fun _ _ => rfl

theorem AgreeIn.symm {pk : Key} {m1 m2 : MFS} (h : AgreeIn pk m1 m2) : AgreeIn pk m2 m1 :=
  fun K hK => (h K hK).symm

theorem AgreeIn.trans {pk : Key} {m1 m2 m3 : MFS} (h1 : AgreeIn pk m1 m2) (h2 : AgreeIn pk m2 m3) :
    AgreeIn pk m1 m3 := fun K hK => (h1 K hK).trans (h2 K hK)

/-- tameness only looks below `pk` -/
theorem AgreeIn.tame {pk : Key} {m1 m2 : MFS} (h : AgreeIn pk m1 m2) (ht : Tame pk m1) : Tame pk m2 :=
  fun k t mt hk hl => ht k t mt hk ((h k hk).trans hl)

theorem walk_cons_plain (m : MFS) (f : Bool) (fuel hops : Nat) (cur : Key) {c : Name} (rest : List Name)
    (hc1 : (c = [] || c = dot) = false) (hc2 : c ≠ dotdot) :
    walk m f (fuel + 1) hops cur (c :: rest) =
      (match m.get (cur ++ [c]) with
       | none => if trivialRest rest then .missing cur c else .err .notExist
       | some (.dir _) => walk m f fuel hops (cur ++ [c]) rest
       | some (.file ct mt) => if trivialRest rest then .found (cur ++ [c]) (.file ct mt) else .err .notDir
       | some (.link t mt) =>
         if trivialRest rest && !f then .found (cur ++ [c]) (.link t mt)
         else if hops ≥ 40 then .err .loop
         else if t = [] then .err .notExist
         else walk m f fuel (hops + 1) (if isRooted t then [] else cur) (splitSep t ++ rest)) := by
  rw [walk]
  simp only [hc1, Bool.false_eq_true, if_false, hc2]
  cases m.get (cur ++ [c]) with
  | none => rfl
  | some n => cases n <;> rfl

section
variable {pk : Key} {m1 m2 : MFS}

/-- the walk invariant of `DLink` on the second disk -/
theorem winv_transfer (hd2 : PrefDirs pk m2) (hag : AgreeIn pk m1 m2) {cur : Key} {comps : List Name}
    (h : WInv pk m1 cur comps) : WInv pk m2 cur comps := by
  refine ⟨?_, h.nodd, h.pos⟩
  rcases h.pos with hin | ⟨d, _, hcd, _⟩
  · obtain ⟨mt, hm⟩ := h.dir
    exact ⟨mt, by rw [← hag cur hin]; exact hm⟩
  · exact hd2 cur ⟨d, hcd⟩

/-- resolution from an invariant position gives the same outcome on both disks -/
theorem walk_agree (hd1 : PrefDirs pk m1) (hd2 : PrefDirs pk m2) (ht : Tame pk m1) (hag : AgreeIn pk m1 m2)
    (f : Bool) :
    ∀ (fuel hops : Nat) (cur : Key) (comps : List Name), WInv pk m1 cur comps →
      walk m1 f fuel hops cur comps = walk m2 f fuel hops cur comps := by
  intro fuel
  induction fuel with
  | zero =>
    intro hops cur comps _
    rw [walk, walk]
  | succ fuel ih =>
    intro hops cur comps hI
    cases comps with
    | nil =>
      have hin : pk <+: cur := by
        rcases hI.pos with h | ⟨d, hne, _, hp⟩
        · exact h
        · exfalso
          apply hne
          simpa [strip] using hp
      rw [walk_nil, walk_nil, hag cur hin]
    | cons c rest =>
      have hndr : dotdot ∉ rest := fun h => hI.nodd (List.mem_cons_of_mem _ h)
      by_cases hc1 : (c = [] || c = dot) = true
      · rw [walk_skip m1 f fuel hops cur rest hc1, walk_skip m2 f fuel hops cur rest hc1]
        apply ih
        refine ⟨hI.dir, hndr, ?_⟩
        have hpos := hI.pos
        rw [strip_cons_triv hc1] at hpos
        exact hpos
      · have hc1' : (c = [] || c = dot) = false := by simpa using hc1
        have hc2 : c ≠ dotdot := fun e => hI.nodd (e ▸ List.mem_cons_self)
        rw [walk_cons_plain m1 f fuel hops cur rest hc1' hc2, walk_cons_plain m2 f fuel hops cur rest hc1' hc2]
        rcases hI.pos with hin | ⟨d, hne, hcd, hp⟩
        · -- inside `pk`: both disks hold the same node
          have hk : pk <+: cur ++ [c] := hin.trans (List.prefix_append _ _)
          rw [← hag _ hk]
          cases hg : m1.get (cur ++ [c]) with
          | none => rfl
          | some n =>
            cases n with
            | dir mt =>
              simp only
              exact ih hops (cur ++ [c]) rest ⟨⟨mt, hg⟩, hndr, Or.inl hk⟩
            | file ct mt => rfl
            | link t mt =>
              simp only
              by_cases h1 : (trivialRest rest && !f) = true
              · simp only [h1, if_true]
              · simp only [h1, if_false]
                by_cases h2 : hops ≥ 40
                · simp only [h2, if_true]
                · simp only [h2, if_false]
                  by_cases h3 : t = []
                  · simp only [h3, if_true]
                  · simp only [h3, if_false]
                    obtain ⟨htd, htr⟩ := ht _ t mt hk hg
                    apply ih
                    have hnd : dotdot ∉ splitSep t ++ rest := by
                      intro h
                      rcases List.mem_append.mp h with h | h
                      · exact htd h
                      · exact hndr h
                    by_cases hr : isRooted t = true
                    · simp only [hr, if_true]
                      refine ⟨hd1 [] List.nil_prefix, hnd, ?_⟩
                      by_cases hpk : pk = []
                      · left; rw [hpk]; exact List.nil_prefix
                      · right
                        refine ⟨pk, hpk, by simp, ?_⟩
                        rw [strip_append]
                        exact (htr hr).trans (List.prefix_append _ _)
                    · simp only [hr, if_false]
                      exact ⟨hI.dir, hnd, Or.inl hin⟩
        · -- still descending towards `pk`: `c` is its next component, a directory on both disks
          cases d with
          | nil => exact absurd rfl hne
          | cons c' d' =>
            rw [strip_cons_keep hc1'] at hp
            have hcc : c' = c := (List.cons_prefix_cons.mp hp).1
            subst hcc
            have hp' : d' <+: strip rest := (List.cons_prefix_cons.mp hp).2
            have hpre : cur ++ [c'] <+: pk := by
              rw [← hcd]
              exact ⟨d', by simp⟩
            obtain ⟨mt1, hg1⟩ := hd1 _ hpre
            obtain ⟨mt2, hg2⟩ := hd2 _ hpre
            rw [hg1, hg2]
            simp only
            apply ih
            refine ⟨⟨mt1, hg1⟩, hndr, ?_⟩
            by_cases hd' : d' = []
            · left
              subst hd'
              rw [← hcd]
              exact List.prefix_rfl
            · right
              exact ⟨d', hd', by rw [← hcd]; simp, hp'⟩

/-- the invariant at the start of the resolution of a text naming a key at or below `pk` -/
theorem winv_text (hpk : PKey pk) (hd1 : PrefDirs pk m1) {x : Key} (hx : PKey x) {tl : List Name}
    (htl : trivialRest tl = true) : WInv pk m1 [] ([] :: (pk ++ x ++ tl)) := by
  have htriv : ∀ c ∈ tl, c = [] ∨ c = dot := by
    intro c hc
    unfold trivialRest at htl
    simpa using List.all_eq_true.mp htl c hc
  refine ⟨hd1 [] List.nil_prefix, ?_, ?_⟩
  · intro h
    rcases List.mem_cons.mp h with h | h
    · cases h
    · rcases List.mem_append.mp h with h | h
      · exact ((hpk.append hx) _ h).2.2.2 rfl
      · rcases htriv _ h with e | e <;> cases e
  · by_cases hpe : pk = []
    · left; rw [hpe]; exact List.nil_prefix
    · right
      refine ⟨pk, hpe, by simp, ?_⟩
      rw [strip_cons_triv (by decide), strip_append, strip_pkey (hpk.append hx)]
      exact (List.prefix_append pk x).trans (List.prefix_append _ _)

/-- resolution of any text naming a key at or below `pk`: the same outcome on both disks -/
theorem namei_agree (hpk : PKey pk) (hd1 : PrefDirs pk m1) (hd2 : PrefDirs pk m2) (ht : Tame pk m1)
    (hag : AgreeIn pk m1 m2) {x : Key} (hx : PKey x) {t : Path} (htx : TextOf t (pk ++ x)) (f : Bool) :
    namei m1 t f = namei m2 t f := by
  obtain ⟨tl, hs, htl, _⟩ := splitSep_text (hpk.append hx) htx
  unfold namei
  simp only [htx.ne_nil, if_false, hs]
  exact walk_agree hd1 hd2 ht hag f _ _ _ _ (winv_text hpk hd1 hx htl)

end
end PX
end BFS
