import Lemmas.NLOps
import Lemmas.NLRestore
/-!
  Lemmas/NLTx.lean (copy of Lemmas/LTx.lean over `NL.Sim`) — transactions over an `Sim`: after any covered history Rollback restores every
  key of the base view except the root, and re-establishes the start condition, so the statement
  holds for any number of consecutive transactions.  (`runTx`, `SameBelowRoot` are those of
  Lemmas/Restore.lean.)
-/
namespace BFS
namespace NL
open BackupFS

variable {cfg : Cfg} {S : Sim cfg} {v0 : View}

theorem Inv.with_faults {w : World} (h : Inv S v0 w) (f : List Fault) : Inv S v0 { w with faults := f } :=
  ⟨h.good, h.orig, h.keys, h.nodup, h.frame, h.absent, h.saved, h.anc, h.blink, h.bklinks⟩

/-- after Rollback the start condition on backup symlinks holds again -/
theorem backupLinksOK_after {w w' : World} (hinv : Inv S v0 w) (hg' : S.G w'.fs)
    (hbase : ∀ k, k ≠ [] → S.view .base w'.fs k = v0 k)
    (hmono : LinkMono (S.view .backup w.fs) (S.view .backup w'.fs)) : BackupLinksOK S w'.fs := by
  intro k hl'
  have hl := hmono.isLinkAt hl'
  have hk : PKey k := backup_pkey hinv.good hl
  have hroot : ∀ (v : View), v.isDirAt [] → isLinkAt v k → k ≠ [] := by
    intro v hd hlk e
    subst e
    exact isLinkAt_not_dir hd hlk
  rcases hinv.bklinks k hl with ⟨i, hts, hkind⟩ | ⟨hun, hb⟩
  · obtain ⟨n, hn, hfor, _, _⟩ := hinv.saved k i hk hts
    have hnk := hfor.1
    rw [hkind] at hnk
    cases n with
    | link t mt =>
      have hv0 : isLinkAt v0 k := ⟨t, mt, hn⟩
      have hne := hroot v0 hinv.orig.root hv0
      exact ⟨t, mt, by rw [hbase k hne]; exact hn⟩
    | file c mt => cases hnk
    | dir mt => cases hnk
  · have hne := hroot _ (S.root_dir hinv.good) hb
    obtain ⟨t, mt, ht⟩ := hb
    exact ⟨t, mt, by rw [hbase k hne, ← hinv.frame k hk hun]; exact ht⟩

/-- T01L, generic form: on healthy filesystems, after any covered history Rollback restores every
key of the base view except the root -/
theorem tx_restores {w : World} (hg : S.G w.fs) (hinfos : w.infos = []) (hnf : w.faults = [])
    (hbl : BackupLinksOK S w.fs) (ops : List Op) (hcov : CoveredHist cfg S w ops) :
    S.G (runTx cfg w ops).fs ∧ (runTx cfg w ops).infos = [] ∧ (runTx cfg w ops).faults = [] ∧
      BackupLinksOK S (runTx cfg w ops).fs ∧
      SameBelowRoot (S.view .base w.fs) (S.view .base (runTx cfg w ops).fs) := by
  have hk := history_keeps (cfg := cfg) ops w (Inv.init hg hinfos hbl) hcov
  have hr := (sat_rollback (cfg := cfg) hk.inv (hk.faults.trans hnf)).elim
  exact ⟨hr.1, rollback_resets_infos cfg _, hr.2.1, backupLinksOK_after hk.inv hr.1 hr.2.2.1 hr.2.2.2, hr.2.2.1⟩

/-- histories of several transactions, each covered in the state it starts from -/
def CoveredTxs (cfg : Cfg) (S : Sim cfg) : World → List (List Op) → Prop
  | _, [] => True
  | w, ops :: rest => CoveredHist cfg S w ops ∧ CoveredTxs cfg S (runTx cfg w ops) rest

/-- T01L for any number of consecutive transactions on the same BackupFS -/
theorem txs_restore : ∀ (txs : List (List Op)) (w : World), S.G w.fs → w.infos = [] → w.faults = [] →
    BackupLinksOK S w.fs → CoveredTxs cfg S w txs →
    SameBelowRoot (S.view .base w.fs) (S.view .base (txs.foldl (runTx cfg) w).fs)
  | [], w, _, _, _, _, _ => fun _ _ => rfl
  | ops :: rest, w, hg, hi, hf, hb, hc => by
    obtain ⟨g1, i1, f1, b1, h1⟩ := tx_restores (cfg := cfg) hg hi hf hb ops hc.1
    have h2 := txs_restore rest (runTx cfg w ops) g1 i1 f1 b1 hc.2
    intro k hk
    rw [List.foldl_cons, h2 k hk, h1 k hk]

/-- whatever the fault plan did to the operations of a covered history, once the filesystems are
healthy again Rollback restores the base -/
theorem tx_restores_after_faults {w : World} (hg : S.G w.fs) (hinfos : w.infos = [])
    (hbl : BackupLinksOK S w.fs) (ops : List Op) (hcov : CoveredHist cfg S w ops) :
    SameBelowRoot (S.view .base w.fs)
      (S.view .base (rollback cfg { runOps cfg w ops with faults := [] }).1.fs) := by
  have hk := history_keeps (cfg := cfg) ops w (Inv.init hg hinfos hbl) hcov
  exact ((sat_rollback (cfg := cfg) (hk.inv.with_faults []) rfl).elim).2.2.1

end NL
end BFS
