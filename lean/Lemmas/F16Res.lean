import Lemmas.F16Walk
/-!
  Lemmas/F16Res.lean — the key-level resolver `resK` on a flat disk:
  * `walk_resK` / `namei_resK` : the kernel, resolving the caller's path without following the final
    component, ends exactly where it ends on the resolved path;
  * `resK_nolink`  : no proper ancestor of the resolved path is a symlink;
  * `resK_getLast` : the final component is the caller's;
  * `resK_tail`    : once a prefix of the caller's path names nothing, the rest is appended verbatim.
-/
namespace BFS
namespace F16
open MFS

section
variable {bk kk : Key} {m : MFS}

theorem resK_single (D : Key) (s : Name) : resK m bk D [s] = D ++ [s] := by simp [resK]

theorem resK_dir {D : Key} {s : Name} {S : List Name} (hS : S ≠ []) {mt : Meta}
    (h : m.get (bk ++ D ++ [s]) = some (.dir mt)) : resK m bk D (s :: S) = resK m bk (D ++ [s]) S := by
  rw [resK]; simp only [hS, if_false, h]

theorem resK_link {D : Key} {s : Name} {S : List Name} (hS : S ≠ []) {t : Path} {mt : Meta}
    (h : m.get (bk ++ D ++ [s]) = some (.link t mt)) :
    resK m bk D (s :: S) = resK m bk (effK bk (D ++ [s]) t) S := by
  rw [resK]; simp only [hS, if_false, h]

theorem resK_none {D : Key} {s : Name} {S : List Name} (h : m.get (bk ++ D ++ [s]) = none) :
    resK m bk D (s :: S) = D ++ s :: S := by
  rw [resK]
  split
  · rename_i hS; rw [hS]
  · simp only [h]

theorem resK_file {D : Key} {s : Name} {S : List Name} {ct : String} {mt : Meta}
    (h : m.get (bk ++ D ++ [s]) = some (.file ct mt)) : resK m bk D (s :: S) = D ++ s :: S := by
  rw [resK]
  split
  · rename_i hS; rw [hS]
  · simp only [h]

/-- from a location that is not a live directory nothing is resolved any more -/
theorem resK_dead (hg : L.OSGoodL bk kk m) {D : Key} (hD : ¬ ∃ mt, m.get (bk ++ D) = some (.dir mt)) :
    ∀ S, resK m bk D S = D ++ S
  | [] => by simp [resK]
  | s :: S => resK_none (none_below hg hD s [])

theorem getLast?_append_ne {α} (D S : List α) (h : S ≠ []) : (D ++ S).getLast? = S.getLast? := by
  rw [List.getLast?_append]
  cases hS : S.getLast? with
  | none => exact absurd (List.getLast?_eq_none_iff.mp hS) h
  | some x => rfl

theorem resK_getLast : ∀ (S : List Name) (D : Key), S ≠ [] → (resK m bk D S).getLast? = S.getLast?
  | [], _, h => absurd rfl h
  | [s], D, _ => by rw [resK_single]; simp
  | s :: s' :: S, D, _ => by
    have hS : s' :: S ≠ [] := by simp
    rw [List.getLast?_cons_cons]
    cases hk : m.get (bk ++ D ++ [s]) with
    | none => rw [resK_none hk, getLast?_append_ne _ _ (by simp), List.getLast?_cons_cons]
    | some n =>
      cases n with
      | file ct mt =>
        rw [resK_file hk, getLast?_append_ne _ _ (by simp), List.getLast?_cons_cons]
      | dir mt => rw [resK_dir hS hk]; exact resK_getLast (s' :: S) _ hS
      | link t mt => rw [resK_link hS hk]; exact resK_getLast (s' :: S) _ hS

/-- no symlink at `bk` or above it -/
theorem noLinkUpto_root (hg : L.OSGoodL bk kk m) : NoLinkUpto m (bk ++ []) := by
  intro p hp t mt h
  rw [List.append_nil] at hp
  obtain ⟨mt0, h0⟩ := hg.bdir
  by_cases he : p = bk
  · rw [he, h0] at h; cases h
  · obtain ⟨mt1, h1⟩ := hg.ancestor h0 hp he
    rw [h1] at h; cases h

theorem noLinkUpto_snoc {K : Key} {c : Name} (h : NoLinkUpto m K) (hc : ∀ t mt, m.get (K ++ [c]) ≠ some (.link t mt)) :
    NoLinkUpto m (K ++ [c]) := by
  intro p hp t mt
  by_cases he : p = K ++ [c]
  · rw [he]; exact hc t mt
  · have := prefix_dropLast hp he
    rw [List.dropLast_concat] at this
    exact h p this t mt

theorem resK_pkey (hb : PKey bk) (hg : L.OSGoodL bk kk m) (hflat : Flat bk m) :
    ∀ (S : List Name) (D : Key), PKey D → PKey S → PKey (resK m bk D S)
  | [], D, hD, _ => by simpa [resK] using hD
  | [s], D, hD, hS => by rw [resK_single]; exact hD.append hS
  | s :: s' :: S, D, hD, hS => by
    have hne : s' :: S ≠ [] := by simp
    have hs : Plain s := hS s (by simp)
    have hS' : PKey (s' :: S) := fun n hn => hS n (List.mem_cons_of_mem _ hn)
    cases hk : m.get (bk ++ D ++ [s]) with
    | none => rw [resK_none hk]; exact hD.append hS
    | some n =>
      cases n with
      | file ct mt => rw [resK_file hk]; exact hD.append hS
      | dir mt => rw [resK_dir hne hk]; exact resK_pkey hb hg hflat _ _ (hD.snoc hs) hS'
      | link t mt =>
        rw [resK_link hne hk]
        have hok := hflat.target hg hk (by rw [List.append_assoc]; exact List.prefix_append _ _)
        rw [List.append_assoc] at hok
        exact resK_pkey hb hg hflat _ _ (effK_pkey hb (hD.snoc hs) hok) hS'

/-- (3) no proper ancestor of the resolved path is a symlink -/
theorem resK_nolink (hg : L.OSGoodL bk kk m) (hflat : Flat bk m) :
    ∀ (S : List Name) (D : Key), NoLinkUpto m (bk ++ D) → L.NoLinkProper m (bk ++ resK m bk D S)
  | [], D, h => by simpa [resK] using L.noLinkProper_of_upto h
  | [s], D, h => by
    rw [resK_single, ← List.append_assoc]
    intro p hp hne
    have := prefix_dropLast hp hne
    rw [List.dropLast_concat] at this
    exact h p this
  | s :: s' :: S, D, h => by
    have hne : s' :: S ≠ [] := by simp
    have other : (¬ ∃ mt, m.get (bk ++ D ++ [s]) = some (.dir mt)) →
        (∀ t mt, m.get (bk ++ D ++ [s]) ≠ some (.link t mt)) →
        L.NoLinkProper m (bk ++ (D ++ s :: s' :: S)) := by
      intro hnd hnlk p hp _ t mt hget
      have hw : bk ++ (D ++ s :: s' :: S) = (bk ++ D ++ [s]) ++ (s' :: S) := by simp
      rw [hw] at hp
      rcases List.prefix_or_prefix_of_prefix hp (List.prefix_append _ _) with h1 | h1
      · by_cases he : p = bk ++ D ++ [s]
        · rw [he] at hget; exact hnlk t mt hget
        · have := prefix_dropLast h1 he
          rw [List.dropLast_concat] at this
          exact h p this t mt hget
      · obtain ⟨Y, rfl⟩ := h1
        cases Y with
        | nil => rw [List.append_nil] at hget; exact hnlk t mt hget
        | cons c X => rw [none_below hg hnd c X] at hget; cases hget
    cases hk : m.get (bk ++ D ++ [s]) with
    | none =>
      rw [resK_none hk]
      exact other (by rintro ⟨mt, h'⟩; rw [hk] at h'; cases h') (by intro t mt h'; rw [hk] at h'; cases h')
    | some n =>
      cases n with
      | file ct mt =>
        rw [resK_file hk]
        exact other (by rintro ⟨mt, h'⟩; rw [hk] at h'; cases h') (by intro t mt h'; rw [hk] at h'; cases h')
      | dir mt =>
        rw [resK_dir hne hk]
        apply resK_nolink hg hflat
        rw [← List.append_assoc]
        exact noLinkUpto_snoc h (by intro t mt' h'; rw [hk] at h'; cases h')
      | link t mt =>
        rw [resK_link hne hk]
        have hok := hflat.target hg hk (by rw [List.append_assoc]; exact List.prefix_append _ _)
        rw [List.append_assoc] at hok
        apply resK_nolink hg hflat
        rw [effK_spec hok]
        exact hok.nolink

/-- (2) the kernel's walk over the caller's remaining components from the directory resolved so far
ends as the canonical walk over the resolved path does -/
theorem walk_resK (hg : L.OSGoodL bk kk m) (hflat : Flat bk m) :
    ∀ (S : List Name) (d : Key) (fuel hops : Nat), PKey S → S ≠ [] →
      (∃ mt, m.get (bk ++ d) = some (.dir mt)) → hops + S.length ≤ 40 → 101 * S.length < fuel →
      walk m false fuel hops (bk ++ d) S = nf m (bk ++ resK m bk d S)
  | [], _, _, _, _, h, _, _, _ => absurd rfl h
  | [s], d, fuel, hops, hS, _, hd, _, hf => by
    rw [resK_single, ← List.append_assoc, nf_live hg hd]
    apply walk_indep m [s] (bk ++ d) fuel _ hops 0 hS
    · intro p hp hne hne'
      exfalso
      obtain ⟨r, hr⟩ := hp
      cases p with
      | nil => exact hne rfl
      | cons x xs =>
        simp only [List.cons_append, List.cons.injEq] at hr
        have : xs = [] := (List.append_eq_nil_iff.mp hr.2).1
        apply hne'; rw [hr.1, this]
    · simp at hf ⊢; omega
    · simp
  | s :: s' :: S, d, fuel, hops, hS, _, hd, hh, hf => by
    have hne : s' :: S ≠ [] := by simp
    have hs : Plain s := hS s (by simp)
    have hS' : PKey (s' :: S) := fun n hn => hS n (List.mem_cons_of_mem _ hn)
    have htr : trivialRest (s' :: S) = false := trivialRest_pkey hS' hne
    obtain ⟨g, rfl⟩ : ∃ g, fuel = g + 1 := ⟨fuel - 1, by omega⟩
    simp only [List.length_cons] at hh hf
    rw [walk_step m false g hops (bk ++ d) hs]
    cases hk : m.get (bk ++ d ++ [s]) with
    | none =>
      simp only [htr]
      rw [resK_none hk]
      have hw : bk ++ (d ++ s :: s' :: S) = (bk ++ d) ++ s :: s' :: S := by simp
      rw [hw]
      unfold nf
      exact ((walk_root_fail hg false hd hs (s' :: S) htr (by simp; omega)).1 hk).symm
    | some n =>
      cases n with
      | file ct mt =>
        simp only [htr]
        rw [resK_file hk]
        have hw : bk ++ (d ++ s :: s' :: S) = (bk ++ d) ++ s :: s' :: S := by simp
        rw [hw]
        unfold nf
        exact ((walk_root_fail hg false hd hs (s' :: S) htr (by simp; omega)).2 ct mt hk).symm
      | dir mt =>
        simp only
        rw [resK_dir hne hk]
        rw [List.append_assoc] at hk ⊢
        exact walk_resK hg hflat (s' :: S) (d ++ [s]) g hops hS' hne ⟨mt, hk⟩
          (by simp only [List.length_cons]; omega) (by simp only [List.length_cons]; omega)
      | link t mt =>
        have hok := hflat.target hg hk (by rw [List.append_assoc]; exact List.prefix_append _ _)
        rw [List.append_assoc] at hok
        have hspec := effK_spec hok
        have h40 : ¬ hops ≥ 40 := by omega
        simp only [htr, Bool.false_and, Bool.false_eq_true, if_false, h40, hok.ne]
        rw [resK_link hne hk]
        -- the kernel starts at `startK`
        have hstart : (if isRooted t = true then [] else bk ++ d) = startK (bk ++ (d ++ [s])) t := by
          unfold startK
          rw [← List.append_assoc, List.dropLast_concat]
        rw [hstart]
        have hlive : ∃ mt, m.get (startK (bk ++ (d ++ [s])) t) = some (.dir mt) := by
          rw [← hstart]
          split
          · exact hg.root
          · exact hd
        have hE : lexK (startK (bk ++ (d ++ [s])) t) (splitSep t) = bk ++ effK bk (d ++ [s]) t := by
          rw [hspec]; rfl
        have hlen := hok.len
        rcases walk_target hg (!isRooted t) false (s' :: S) htr (splitSep t) _ g (hops + 1)
          (fun c hc => splitSep_sepfree t c hc) hlive hok.dd hok.nolink (by omega) with
          ⟨hl, hw⟩ | ⟨hdead, e, hw, hcanon⟩
        · rw [hw, hE]
          rw [hE] at hl
          exact walk_resK hg hflat (s' :: S) _ (g - (splitSep t).length) (hops + 1) hS' hne hl
            (by simp only [List.length_cons]; omega) (by simp only [List.length_cons]; omega)
        · rw [hw]
          rw [hE] at hdead hcanon
          rw [resK_dead hg hdead, ← List.append_assoc]
          unfold nf
          exact (hcanon _ 0 (by simp; omega)).symm

/-- (2) name resolution that does not follow the final component gives the same outcome — the same
physical entry, or the same parent directory and final name, or the same error — on the caller's
path and on the resolved path -/
theorem namei_resK (hr : Roots bk kk) (hg : L.OSGoodL bk kk m) (hflat : Flat bk m) {k : Key} (hk : PKey k)
    (hlen : k.length ≤ 40) :
    namei m (kp (bk ++ resK m bk [] k)) false = namei m (kp (bk ++ k)) false := by
  by_cases hne : k = []
  · subst hne; rfl
  · have hpr := resK_pkey hr.pb hg hflat k [] PKey.nil hk
    have hnl := resK_nolink hg hflat k [] (noLinkUpto_root hg)
    rw [namei_kp_nf (hr.pb.append hpr) (by simp [hr.nb]) hnl]
    rw [namei_eq_walk m false (hr.pb.append hk) (by simp [hr.nb])]
    rw [walk_from_root hg false hg.bdir k (by simp; omega)]
    have := walk_resK hg hflat k [] (4096 + (bk ++ k).length - bk.length) 0 hk hne
      (by simpa using hg.bdir) (by omega) (by simp; omega)
    rw [List.append_nil] at this
    exact this.symm

/-- (5) if the resolved form of a prefix `A` of the caller's components names nothing, the remaining
components are appended verbatim -/
theorem resK_tail : ∀ (A : List Name) (D : Key) (T : List Name), A ≠ [] →
    m.get (bk ++ resK m bk D A) = none → resK m bk D (A ++ T) = resK m bk D A ++ T
  | [], _, _, h, _ => absurd rfl h
  | [c], D, T, _, hn => by
    rw [resK_single] at hn ⊢
    rw [← List.append_assoc] at hn
    rw [List.singleton_append, resK_none hn]
    simp
  | s :: s' :: A, D, T, _, hn => by
    have hne : s' :: A ≠ [] := by simp
    have hne' : s' :: A ++ T ≠ [] := by simp
    rw [List.cons_append]
    cases hk : m.get (bk ++ D ++ [s]) with
    | none => rw [resK_none hk, resK_none hk]; simp
    | some n =>
      cases n with
      | file ct mt => rw [resK_file hk, resK_file hk]; simp
      | dir mt =>
        rw [resK_dir hne hk] at hn ⊢
        rw [resK_dir hne' hk]
        exact resK_tail (s' :: A) _ T hne hn
      | link t mt =>
        rw [resK_link hne hk] at hn ⊢
        rw [resK_link hne' hk]
        exact resK_tail (s' :: A) _ T hne hn

/-- the prefix `A` of the caller's path names nothing under OS semantics iff its resolved form is
absent from the disk -/
theorem resK_absent_of_not_found (hr : Roots bk kk) (hg : L.OSGoodL bk kk m) (hflat : Flat bk m) {A : Key}
    (hA : PKey A) (hlen : A.length ≤ 40) (hnf : ∀ K n, namei m (kp (bk ++ A)) false ≠ .found K n) :
    m.get (bk ++ resK m bk [] A) = none := by
  have hpr := resK_pkey hr.pb hg hflat A [] PKey.nil hA
  have hnl := resK_nolink hg hflat A [] (noLinkUpto_root hg)
  rw [← namei_resK hr hg hflat hA hlen] at hnf
  rcases L.namei_cases_nf hg (hr.pb.append hpr) hnl (TextOf.kp _) with
    ⟨n, _, hres⟩ | ⟨_, _, hn, _, _⟩ | ⟨_, _, hn, _, _, _⟩
  · exact absurd hres (hnf _ _)
  · exact hn
  · exact hn

end

end F16
end BFS
