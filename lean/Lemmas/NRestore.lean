import Lemmas.NOps
import Lemmas.Restore
import Lemmas.SimDir
/-!
  Lemmas/NRestore.lean (copy of Lemmas/Restore.lean over `N.Sim`) — `Rollback` on a healthy pair of filesystems (empty fault plan), started in
  a state satisfying the transaction invariant, puts every key of the base view except the root
  back to what it was when the transaction began.
-/
namespace BFS.N
open BackupFS

variable {cfg : Cfg} {S : Sim cfg} {v0 : View}

/-! ### the views are trees -/

/-- every proper ancestor of a live key is a live directory -/
theorem Sim.anc (S : Sim cfg) {m : MFS} {s : Side} (hg : S.G m) :
    ∀ (n : Nat) (j : Key), j.length = n → S.view s m j ≠ none →
      ∀ p, p <+: j → p ≠ j → (S.view s m).isDirAt p := by
  intro n
  induction n with
  | zero =>
    intro j hl _ p hp hne
    have : j = [] := List.length_eq_zero_iff.mp hl
    subst this
    exact absurd (List.prefix_nil.mp hp) hne
  | succ n ih =>
    intro j hl hv p hp hne
    have hjne : j ≠ [] := by intro e; rw [e] at hl; cases hl
    have hpar := S.parent_dir hg hv hjne
    have hp' := prefix_dropLast' hp hne
    by_cases he : p = j.dropLast
    · exact he ▸ hpar
    · obtain ⟨mt, hd⟩ := hpar
      exact ih j.dropLast (by simp [hl]) (by rw [hd]; simp) p hp' he

/-- nothing lives below an absent key -/
theorem Sim.none_below (S : Sim cfg) {m : MFS} {s : Side} (hg : S.G m) {j p : Key}
    (hp : p <+: j) (hv : S.view s m p = none) : S.view s m j = none := by
  cases hj : S.view s m j with
  | none => rfl
  | some n =>
    exfalso
    by_cases he : p = j
    · rw [he, hj] at hv; cases hv
    · obtain ⟨mt, hd⟩ := S.anc hg j.length j rfl (by rw [hj]; simp) p hp he
      rw [hd] at hv; cases hv

/-! ### generic rule for the `multiErr` loops -/

theorem sat_forEach {α} {f : α → M Unit} {J : List α → World → Prop}
    (hstep : ∀ x rest w, J (x :: rest) w → Sat (f x) w (fun w' r => r = .ok () ∧ J rest w')) :
    ∀ (l : List α) (w : World), J l w →
      Sat (forEachCollect f l) w (fun w' r => r = .ok false ∧ J [] w')
  | [], w, h => by
    unfold forEachCollect
    exact Sat.pure ⟨rfl, h⟩
  | x :: xs, w, h => by
    unfold forEachCollect
    apply Sat.bind
    apply Sat.attempt
    apply (hstep x xs w h).mono
    intro w1 r1 ⟨hr1, hj1⟩
    subst hr1
    simp only
    apply Sat.bind
    apply (sat_forEach hstep xs w1 hj1).mono
    intro w2 r2 ⟨hr2, hj2⟩
    subst hr2
    simp only
    exact Sat.pure ⟨rfl, hj2⟩

/-! ### lexists without faults -/

theorem sat_lexists {s : Side} {k : Key} {w : World} (hg : S.G w.fs) (hk : PKey k) (hnf : w.faults = []) :
    Sat (lexists cfg s (kp k)) w (fun w' r => SameFS w w' ∧
      (∀ n, S.view s w.fs k = some n → ∃ i, r = .ok (some i) ∧ InfoFor i n) ∧
      (S.view s w.fs k = none → r = .ok none)) := by
  unfold lexists
  apply Sat.bind
  apply Sat.attempt
  apply (sat_lstat hg hk).mono
  intro w1 r ⟨hs, hr⟩
  simp only
  rcases hr with ⟨n, i, hv, rfl, hfor⟩ | ⟨hv, e, rfl, hnfd⟩ | ⟨_, hf⟩
  · apply Sat.pure
    refine ⟨hs, ?_, ?_⟩
    · intro n' hn'; rw [hv] at hn'; cases hn'; exact ⟨i, rfl, hfor⟩
    · intro h; rw [hv] at h; cases h
  · simp only [hnfd, if_true]
    apply Sat.pure
    refine ⟨hs, ?_, fun _ => rfl⟩
    intro n' hn'; rw [hv] at hn'; cases hn'
  · exact absurd hnf hf

/-! ### the tracked map as a function of keys -/

theorem mem_of_lookup {α} {l : List (Path × α)} {p : Path} {x : α} (h : l.lookup p = some x) : (p, x) ∈ l := by
  induction l with
  | nil => cases h
  | cons a l ih =>
    obtain ⟨q, y⟩ := a
    simp only [List.lookup] at h
    split at h
    · rename_i heq
      have : p = q := by simpa using heq
      cases h; subst this; simp
    · exact List.mem_cons_of_mem _ (ih h)

theorem lookup_of_mem {α} {l : List (Path × α)} {p : Path} {x : α} (hnd : (l.map Prod.fst).Nodup)
    (h : (p, x) ∈ l) : l.lookup p = some x := by
  induction l with
  | nil => cases h
  | cons a l ih =>
    obtain ⟨q, y⟩ := a
    simp only [List.map_cons, List.nodup_cons] at hnd
    simp only [List.lookup]
    rcases List.mem_cons.mp h with heq | hm
    · cases heq; simp
    · have hne : p ≠ q := by
        intro e; subst e
        exact hnd.1 (List.mem_map.mpr ⟨(p, x), hm, rfl⟩)
      have : (p == q) = false := by simpa using hne
      simp only [this]
      exact ih hnd.2 hm

/-- `k` is tracked as "did not exist" -/
def TN (w : World) (k : Key) : Prop := w.infos.lookup (kp k) = some none
/-- `k` is tracked with the `FileInfo` `i` -/
def TS (w : World) (k : Key) (i : Info) : Prop := w.infos.lookup (kp k) = some (some i)

/-! ### the first loop of Rollback -/

structure Classified (S : Sim cfg) (w : World) (l : List (Path × Option Info)) (pl pl' : RollbackPlan) : Prop where
  failed : pl'.failed = pl.failed
  removeBase : ∀ p, p ∈ pl'.removeBase ↔ p ∈ pl.removeBase ∨
    ∃ k, PKey k ∧ p = kp k ∧ (p, none) ∈ l ∧ S.view .base w.fs k ≠ none
  dirs : ∀ p, p ∈ pl'.dirs ↔ p ∈ pl.dirs ∨ ∃ i, (p, some i) ∈ l ∧ p ≠ rootP ∧ i.kind = .dir
  files : ∀ p, p ∈ pl'.files ↔ p ∈ pl.files ∨ ∃ i, (p, some i) ∈ l ∧ p ≠ rootP ∧ i.kind = .file
  links : ∀ p, p ∈ pl'.links ↔ p ∈ pl.links ∨ ∃ i, (p, some i) ∈ l ∧ p ≠ rootP ∧ i.kind = .link

theorem Classified.nil (w : World) (pl : RollbackPlan) : Classified S w [] pl pl :=
  ⟨rfl, fun p => by simp, fun p => by simp, fun p => by simp, fun p => by simp⟩

theorem sat_classify :
    ∀ (l : List (Path × Option Info)) (pl : RollbackPlan) (w : World), S.G w.fs → w.faults = [] →
      (∀ p oi, (p, oi) ∈ l → ∃ k, PKey k ∧ p = kp k) →
      Sat (classify cfg l pl) w (fun w' r => SameFS w w' ∧ ∃ pl', r = .ok pl' ∧ Classified S w l pl pl')
  | [], pl, w, _, _, _ => by
    unfold classify
    exact Sat.pure ⟨SameFS.refl w, pl, rfl, Classified.nil w pl⟩
  | (p, none) :: rest, pl, w, hg, hnf, hkeys => by
    unfold classify
    obtain ⟨k, hk, rfl⟩ := hkeys p none (by simp)
    have hkeys' : ∀ p oi, (p, oi) ∈ rest → ∃ k, PKey k ∧ p = kp k :=
      fun p oi h => hkeys p oi (List.mem_cons_of_mem _ h)
    apply Sat.bind
    apply Sat.attempt
    apply (sat_lexists (S := S) hg hk hnf).mono
    intro w1 r1 ⟨hs1, hsome, hnone⟩
    have hg1 : S.G w1.fs := hs1.fs ▸ hg
    have hnf1 : w1.faults = [] := by rw [hs1.faults]; exact hnf
    simp only
    cases hv : S.view .base w.fs k with
    | none =>
      rw [hnone hv]
      simp only
      apply (sat_classify rest pl w1 hg1 hnf1 hkeys').mono
      intro w2 r2 ⟨hs2, pl', hr2, hc⟩
      refine ⟨hs1.trans hs2, pl', hr2, ?_⟩
      have hfs : w1.fs = w.fs := hs1.fs
      refine ⟨hc.failed, ?_, ?_, ?_, ?_⟩
      · intro q
        rw [hc.removeBase q, hfs]
        constructor
        · rintro (h | ⟨j, hj, rfl, hm, hp⟩)
          · exact Or.inl h
          · exact Or.inr ⟨j, hj, rfl, List.mem_cons_of_mem _ hm, hp⟩
        · rintro (h | ⟨j, hj, rfl, hm, hp⟩)
          · exact Or.inl h
          · rcases List.mem_cons.mp hm with heq | hm
            · have : j = k := kp_inj hj hk (Prod.mk.inj heq).1
              subst this; exact absurd hv hp
            · exact Or.inr ⟨j, hj, rfl, hm, hp⟩
      · intro q; rw [hc.dirs q]; simp
      · intro q; rw [hc.files q]; simp
      · intro q; rw [hc.links q]; simp
    | some n =>
      obtain ⟨i, hr1, _⟩ := hsome n hv
      rw [hr1]
      simp only
      apply (sat_classify rest _ w1 hg1 hnf1 hkeys').mono
      intro w2 r2 ⟨hs2, pl', hr2, hc⟩
      refine ⟨hs1.trans hs2, pl', hr2, ?_⟩
      have hfs : w1.fs = w.fs := hs1.fs
      refine ⟨hc.failed, ?_, ?_, ?_, ?_⟩
      · intro q
        rw [hc.removeBase q, hfs]
        simp only [List.mem_append, List.mem_singleton]
        constructor
        · rintro ((h | h) | ⟨j, hj, rfl, hm, hp⟩)
          · exact Or.inl h
          · subst h; exact Or.inr ⟨k, hk, rfl, by simp, by rw [hv]; simp⟩
          · exact Or.inr ⟨j, hj, rfl, List.mem_cons_of_mem _ hm, hp⟩
        · rintro (h | ⟨j, hj, rfl, hm, hp⟩)
          · exact Or.inl (Or.inl h)
          · rcases List.mem_cons.mp hm with heq | hm
            · have : j = k := kp_inj hj hk (Prod.mk.inj heq).1
              subst this; exact Or.inl (Or.inr rfl)
            · exact Or.inr ⟨j, hj, rfl, hm, hp⟩
      · intro q; rw [hc.dirs q]; simp
      · intro q; rw [hc.files q]; simp
      · intro q; rw [hc.links q]; simp
  | (p, some i) :: rest, pl, w, hg, hnf, hkeys => by
    unfold classify
    have hkeys' : ∀ p oi, (p, oi) ∈ rest → ∃ k, PKey k ∧ p = kp k :=
      fun p oi h => hkeys p oi (List.mem_cons_of_mem _ h)
    have hmem : ∀ (q : Path) (j : Info), (q, some j) ∈ (p, some i) :: rest ↔ (q = p ∧ j = i) ∨ (q, some j) ∈ rest := by
      intro q j; simp
    by_cases hroot : p = rootP
    · subst hroot
      simp only [if_true]
      apply Sat.bind
      apply (sat_ensureRoot (S := S) hg i).mono
      intro w1 r1 ⟨hs1, f, hr1, hf⟩
      have hg1 : S.G w1.fs := hs1.fs ▸ hg
      have hnf1 : w1.faults = [] := by rw [hs1.faults]; exact hnf
      obtain rfl := hf hnf
      subst hr1
      simp only [Bool.false_eq_true, if_false]
      apply (sat_classify rest pl w1 hg1 hnf1 hkeys').mono
      intro w2 r2 ⟨hs2, pl', hr2, hc⟩
      have hc : Classified S w rest pl pl' := by
        refine ⟨hc.failed, ?_, hc.dirs, hc.files, hc.links⟩
        intro q; rw [hc.removeBase q, hs1.fs]
      refine ⟨hs1.trans hs2, pl', hr2, hc.failed, ?_, ?_, ?_, ?_⟩
      · intro q; rw [hc.removeBase q]; simp
      · intro q; rw [hc.dirs q]
        constructor
        · rintro (h | ⟨j, hm, hq, hkd⟩)
          · exact Or.inl h
          · exact Or.inr ⟨j, List.mem_cons_of_mem _ hm, hq, hkd⟩
        · rintro (h | ⟨j, hm, hq, hkd⟩)
          · exact Or.inl h
          · rcases (hmem q j).mp hm with ⟨hqp, _⟩ | hm
            · exact absurd hqp hq
            · exact Or.inr ⟨j, hm, hq, hkd⟩
      · intro q; rw [hc.files q]
        constructor
        · rintro (h | ⟨j, hm, hq, hkd⟩)
          · exact Or.inl h
          · exact Or.inr ⟨j, List.mem_cons_of_mem _ hm, hq, hkd⟩
        · rintro (h | ⟨j, hm, hq, hkd⟩)
          · exact Or.inl h
          · rcases (hmem q j).mp hm with ⟨hqp, _⟩ | hm
            · exact absurd hqp hq
            · exact Or.inr ⟨j, hm, hq, hkd⟩
      · intro q; rw [hc.links q]
        constructor
        · rintro (h | ⟨j, hm, hq, hkd⟩)
          · exact Or.inl h
          · exact Or.inr ⟨j, List.mem_cons_of_mem _ hm, hq, hkd⟩
        · rintro (h | ⟨j, hm, hq, hkd⟩)
          · exact Or.inl h
          · rcases (hmem q j).mp hm with ⟨hqp, _⟩ | hm
            · exact absurd hqp hq
            · exact Or.inr ⟨j, hm, hq, hkd⟩
    · simp only [hroot, if_false]
      cases hkind : i.kind with
      | dir =>
        simp only
        apply (sat_classify rest _ w hg hnf hkeys').mono
        intro w2 r2 ⟨hs2, pl', hr2, hc⟩
        refine ⟨hs2, pl', hr2, hc.failed, ?_, ?_, ?_, ?_⟩
        · intro q; rw [hc.removeBase q]; simp
        · intro q; rw [hc.dirs q]
          simp only [List.mem_append, List.mem_singleton]
          constructor
          · rintro ((h | h) | ⟨j, hm, hq, hkd⟩)
            · exact Or.inl h
            · subst h; exact Or.inr ⟨i, by simp, hroot, hkind⟩
            · exact Or.inr ⟨j, List.mem_cons_of_mem _ hm, hq, hkd⟩
          · rintro (h | ⟨j, hm, hq, hkd⟩)
            · exact Or.inl (Or.inl h)
            · rcases (hmem q j).mp hm with ⟨rfl, _⟩ | hm
              · exact Or.inl (Or.inr rfl)
              · exact Or.inr ⟨j, hm, hq, hkd⟩
        · intro q; rw [hc.files q]
          constructor
          · rintro (h | ⟨j, hm, hq, hkd⟩)
            · exact Or.inl h
            · exact Or.inr ⟨j, List.mem_cons_of_mem _ hm, hq, hkd⟩
          · rintro (h | ⟨j, hm, hq, hkd⟩)
            · exact Or.inl h
            · rcases (hmem q j).mp hm with ⟨rfl, rfl⟩ | hm
              · rw [hkind] at hkd; cases hkd
              · exact Or.inr ⟨j, hm, hq, hkd⟩
        · intro q; rw [hc.links q]
          constructor
          · rintro (h | ⟨j, hm, hq, hkd⟩)
            · exact Or.inl h
            · exact Or.inr ⟨j, List.mem_cons_of_mem _ hm, hq, hkd⟩
          · rintro (h | ⟨j, hm, hq, hkd⟩)
            · exact Or.inl h
            · rcases (hmem q j).mp hm with ⟨rfl, rfl⟩ | hm
              · rw [hkind] at hkd; cases hkd
              · exact Or.inr ⟨j, hm, hq, hkd⟩
      | file =>
        simp only
        apply (sat_classify rest _ w hg hnf hkeys').mono
        intro w2 r2 ⟨hs2, pl', hr2, hc⟩
        refine ⟨hs2, pl', hr2, hc.failed, ?_, ?_, ?_, ?_⟩
        · intro q; rw [hc.removeBase q]; simp
        · intro q; rw [hc.dirs q]
          constructor
          · rintro (h | ⟨j, hm, hq, hkd⟩)
            · exact Or.inl h
            · exact Or.inr ⟨j, List.mem_cons_of_mem _ hm, hq, hkd⟩
          · rintro (h | ⟨j, hm, hq, hkd⟩)
            · exact Or.inl h
            · rcases (hmem q j).mp hm with ⟨rfl, rfl⟩ | hm
              · rw [hkind] at hkd; cases hkd
              · exact Or.inr ⟨j, hm, hq, hkd⟩
        · intro q; rw [hc.files q]
          simp only [List.mem_append, List.mem_singleton]
          constructor
          · rintro ((h | h) | ⟨j, hm, hq, hkd⟩)
            · exact Or.inl h
            · subst h; exact Or.inr ⟨i, by simp, hroot, hkind⟩
            · exact Or.inr ⟨j, List.mem_cons_of_mem _ hm, hq, hkd⟩
          · rintro (h | ⟨j, hm, hq, hkd⟩)
            · exact Or.inl (Or.inl h)
            · rcases (hmem q j).mp hm with ⟨rfl, _⟩ | hm
              · exact Or.inl (Or.inr rfl)
              · exact Or.inr ⟨j, hm, hq, hkd⟩
        · intro q; rw [hc.links q]
          constructor
          · rintro (h | ⟨j, hm, hq, hkd⟩)
            · exact Or.inl h
            · exact Or.inr ⟨j, List.mem_cons_of_mem _ hm, hq, hkd⟩
          · rintro (h | ⟨j, hm, hq, hkd⟩)
            · exact Or.inl h
            · rcases (hmem q j).mp hm with ⟨rfl, rfl⟩ | hm
              · rw [hkind] at hkd; cases hkd
              · exact Or.inr ⟨j, hm, hq, hkd⟩
      | link =>
        simp only
        apply (sat_classify rest _ w hg hnf hkeys').mono
        intro w2 r2 ⟨hs2, pl', hr2, hc⟩
        refine ⟨hs2, pl', hr2, hc.failed, ?_, ?_, ?_, ?_⟩
        · intro q; rw [hc.removeBase q]; simp
        · intro q; rw [hc.dirs q]
          constructor
          · rintro (h | ⟨j, hm, hq, hkd⟩)
            · exact Or.inl h
            · exact Or.inr ⟨j, List.mem_cons_of_mem _ hm, hq, hkd⟩
          · rintro (h | ⟨j, hm, hq, hkd⟩)
            · exact Or.inl h
            · rcases (hmem q j).mp hm with ⟨rfl, rfl⟩ | hm
              · rw [hkind] at hkd; cases hkd
              · exact Or.inr ⟨j, hm, hq, hkd⟩
        · intro q; rw [hc.files q]
          constructor
          · rintro (h | ⟨j, hm, hq, hkd⟩)
            · exact Or.inl h
            · exact Or.inr ⟨j, List.mem_cons_of_mem _ hm, hq, hkd⟩
          · rintro (h | ⟨j, hm, hq, hkd⟩)
            · exact Or.inl h
            · rcases (hmem q j).mp hm with ⟨rfl, rfl⟩ | hm
              · rw [hkind] at hkd; cases hkd
              · exact Or.inr ⟨j, hm, hq, hkd⟩
        · intro q; rw [hc.links q]
          simp only [List.mem_append, List.mem_singleton]
          constructor
          · rintro ((h | h) | ⟨j, hm, hq, hkd⟩)
            · exact Or.inl h
            · subst h; exact Or.inr ⟨i, by simp, hroot, hkind⟩
            · exact Or.inr ⟨j, List.mem_cons_of_mem _ hm, hq, hkd⟩
          · rintro (h | ⟨j, hm, hq, hkd⟩)
            · exact Or.inl (Or.inl h)
            · rcases (hmem q j).mp hm with ⟨rfl, _⟩ | hm
              · exact Or.inl (Or.inr rfl)
              · exact Or.inr ⟨j, hm, hq, hkd⟩

/-! the plan lists are duplicate-free -/

structure PlanND (pl : RollbackPlan) (L : List Path) : Prop where
  rb : pl.removeBase.Nodup
  ds : pl.dirs.Nodup
  fs : pl.files.Nodup
  rbL : ∀ p ∈ pl.removeBase, p ∉ L
  dsL : ∀ p ∈ pl.dirs, p ∉ L
  fsL : ∀ p ∈ pl.files, p ∉ L

theorem nodup_snoc {l : List Path} {p : Path} (h : l.Nodup) (hp : p ∉ l) : (l ++ [p]).Nodup := by
  apply List.nodup_append.mpr
  refine ⟨h, by simp, ?_⟩
  intro a ha b hb
  simp only [List.mem_singleton] at hb
  subst hb
  intro e; subst e; exact hp ha

theorem PlanND.tail {pl : RollbackPlan} {p : Path} {L : List Path} (h : PlanND pl (p :: L)) : PlanND pl L :=
  ⟨h.rb, h.ds, h.fs, fun q hq hl => h.rbL q hq (List.mem_cons_of_mem _ hl),
    fun q hq hl => h.dsL q hq (List.mem_cons_of_mem _ hl), fun q hq hl => h.fsL q hq (List.mem_cons_of_mem _ hl)⟩

theorem sat_classify_nd : ∀ (l : List (Path × Option Info)) (pl : RollbackPlan) (w : World),
    (l.map Prod.fst).Nodup → PlanND pl (l.map Prod.fst) →
    Sat (classify cfg l pl) w (fun _ r => ∀ pl', r = .ok pl' → PlanND pl' [])
  | [], pl, w, _, hnd => by
    unfold classify
    apply Sat.pure
    intro pl' h; cases h; exact hnd
  | (p, none) :: rest, pl, w, hl, hnd => by
    unfold classify
    simp only [List.map_cons, List.nodup_cons] at hl
    have hnd' := hnd.tail
    apply Sat.bind
    apply Sat.attempt
    unfold Sat
    simp only
    cases (lexists cfg .base p w).2 with
    | error e =>
      exact sat_classify_nd rest _ _ hl.2 ⟨hnd'.rb, hnd'.ds, hnd'.fs, hnd'.rbL, hnd'.dsL, hnd'.fsL⟩
    | ok o =>
      cases o with
      | none => exact sat_classify_nd rest _ _ hl.2 hnd'
      | some i =>
        apply sat_classify_nd rest _ _ hl.2
        refine ⟨nodup_snoc hnd.rb (fun h => hnd.rbL p h (by simp)), hnd'.ds, hnd'.fs, ?_, hnd'.dsL, hnd'.fsL⟩
        intro q hq
        rcases List.mem_append.mp hq with hq | hq
        · exact hnd'.rbL q hq
        · simp only [List.mem_singleton] at hq; subst hq; exact hl.1
  | (p, some i) :: rest, pl, w, hl, hnd => by
    unfold classify
    simp only [List.map_cons, List.nodup_cons] at hl
    have hnd' := hnd.tail
    split
    · apply Sat.bind_total (ensureRoot_total cfg p i)
      intro f w1
      cases f
      · exact sat_classify_nd rest _ _ hl.2 hnd'
      · exact sat_classify_nd rest _ _ hl.2 (by cases hnd'; constructor <;> assumption)
    · cases i.kind with
      | dir =>
        apply sat_classify_nd rest _ _ hl.2
        refine ⟨hnd'.rb, nodup_snoc hnd.ds (fun h => hnd.dsL p h (by simp)), hnd'.fs, hnd'.rbL, ?_, hnd'.fsL⟩
        intro q hq
        rcases List.mem_append.mp hq with hq | hq
        · exact hnd'.dsL q hq
        · simp only [List.mem_singleton] at hq; subst hq; exact hl.1
      | file =>
        apply sat_classify_nd rest _ _ hl.2
        refine ⟨hnd'.rb, hnd'.ds, nodup_snoc hnd.fs (fun h => hnd.fsL p h (by simp)), hnd'.rbL, hnd'.dsL, ?_⟩
        intro q hq
        rcases List.mem_append.mp hq with hq | hq
        · exact hnd'.fsL q hq
        · simp only [List.mem_singleton] at hq; subst hq; exact hl.1
      | link =>
        exact sat_classify_nd rest _ _ hl.2 ⟨hnd'.rb, hnd'.ds, hnd'.fs, hnd'.rbL, hnd'.dsL, hnd'.fsL⟩

/-! ### facts about the original view -/

theorem Inv.v0_root {w : World} (h : Inv S v0 w) : v0.isDirAt [] := by
  exact h.orig.root

theorem Inv.v0_parent {w : World} (h : Inv S v0 w) {k : Key} (hk : v0 k ≠ none) (hne : k ≠ []) :
    v0.isDirAt k.dropLast := by
  exact h.orig.parent hk hne

theorem Inv.v0_nolink {w : World} (h : Inv S v0 w) {k : Key} {t : Path} {mt : Meta} : v0 k ≠ some (.link t mt) := by
  exact h.orig.nolink

theorem Inv.v0_mode {w : World} (h : Inv S v0 w) {k : Key} {n : Node} (hk : v0 k = some n) : n.meta.mode < 4096 := by
  exact h.orig.mode hk

theorem Inv.v0_erased {w : World} (h : Inv S v0 w) {k : Key} {mt : Meta} (hk : v0 k = some (.dir mt)) :
    mt.mtime = .fresh := by
  exact h.orig.erased hk

theorem Inv.v0_pkey {w : World} (h : Inv S v0 w) {k : Key} (hk : v0 k ≠ none) : PKey k := by
  exact h.orig.pkey hk

/-- nothing existed below a key that did not exist or was a regular file -/
theorem Inv.v0_below {w : World} (h : Inv S v0 w) {k : Key} (hk : ¬ v0.isDirAt k) :
    ∀ j, k <+: j → j ≠ k → v0 j = none := by
  have key : ∀ n (t : List Name), t.length = n → t ≠ [] → v0 (k ++ t) = none := by
    intro n
    induction n with
    | zero => intro t ht hne; exact absurd (List.length_eq_zero_iff.mp ht) hne
    | succ n ih =>
      intro t ht hne
      rcases List.eq_nil_or_concat t with rfl | ⟨t', x, rfl⟩
      · exact absurd rfl hne
      · rw [List.concat_eq_append] at ht ⊢
        apply Classical.byContradiction
        intro hp
        have hd := h.v0_parent (k := k ++ (t' ++ [x])) hp (by simp)
        have hdl : (k ++ (t' ++ [x])).dropLast = k ++ t' := by
          rw [← List.append_assoc, List.dropLast_concat]
        rw [hdl] at hd
        by_cases ht' : t' = []
        · subst ht'; simp at hd; exact hk hd
        · have := ih t' (by simp at ht; omega) ht'
          obtain ⟨mt, hmt⟩ := hd
          rw [this] at hmt; cases hmt
  intro j hj hne
  obtain ⟨t, rfl⟩ := hj
  exact key t.length t rfl (by intro e; subst e; simp at hne)

/-! ### progress of Rollback on the base -/

/-- `D` is the set of keys already put back: they show what they showed originally; every other
key is as it was when Rollback began; the backup view, tracked map and (empty) fault plan are
untouched -/
structure Mid (S : Sim cfg) (v0 : View) (w : World) (D : Key → Prop) (w' : World) : Prop where
  good : S.G w'.fs
  infos : w'.infos = w.infos
  faults : w'.faults = []
  backup : S.view .backup w'.fs = S.view .backup w.fs
  done : ∀ k, D k → S.view .base w'.fs k = v0 k
  rest : ∀ k, ¬ D k → S.view .base w'.fs k = S.view .base w.fs k

theorem Mid.congr {w w' : World} {D D' : Key → Prop} (h : Mid S v0 w D w') (hd : ∀ k, D k ↔ D' k) :
    Mid S v0 w D' w' :=
  ⟨h.good, h.infos, h.faults, h.backup, fun k hk => h.done k ((hd k).mpr hk),
    fun k hk => h.rest k (fun hk' => hk ((hd k).mp hk'))⟩

theorem Mid.same {w w' w'' : World} {D : Key → Prop} (h : Mid S v0 w D w') (hs : SameFS w' w'') :
    Mid S v0 w D w'' :=
  ⟨hs.fs ▸ h.good, hs.infos.trans h.infos, hs.faults.trans h.faults, by rw [hs.fs]; exact h.backup,
    fun k hk => by rw [hs.fs]; exact h.done k hk, fun k hk => by rw [hs.fs]; exact h.rest k hk⟩

/-- a base-side step confined to one key that it puts back -/
theorem Mid.step {w w' w'' : World} {D D' : Key → Prop} {k : Key} (h : Mid S v0 w D w')
    (hc : S.Chg .base (· = k) w' w'') (hk : S.view .base w''.fs k = v0 k)
    (hD' : ∀ j, D' j ↔ D j ∨ j = k) : Mid S v0 w D' w'' := by
  refine ⟨hc.good, hc.infos.trans h.infos, hc.faults.trans h.faults, hc.other.trans h.backup, ?_, ?_⟩
  · intro j hj
    by_cases hjk : j = k
    · subst hjk; exact hk
    · rw [hc.frame j hjk]
      rcases (hD' j).mp hj with hd | hd
      · exact h.done j hd
      · exact absurd hd hjk
  · intro j hj
    have hjk : j ≠ k := fun e => hj ((hD' j).mpr (Or.inr e))
    rw [hc.frame j hjk]
    exact h.rest j (fun hd => hj ((hD' j).mpr (Or.inl hd)))

theorem tracked_cases (w : World) (k : Key) :
    w.infos.lookup (kp k) = none ∨ TN w k ∨ ∃ i, TS w k i := by
  unfold TN TS
  cases h : w.infos.lookup (kp k) with
  | none => exact Or.inl rfl
  | some o =>
    cases o with
    | none => exact Or.inr (Or.inl rfl)
    | some i => exact Or.inr (Or.inr ⟨i, rfl⟩)

/-- a key that shows something now although it did not exist originally is tracked as absent -/
theorem Inv.present_new {w : World} (h : Inv S v0 w) {c : Key} (hc : PKey c)
    (hnow : S.view .base w.fs c ≠ none) (horig : v0 c = none) : TN w c := by
  rcases tracked_cases w c with hu | ht | ⟨i, hts⟩
  · rw [h.frame c hc hu] at hnow; exact absurd horig hnow
  · exact ht
  · obtain ⟨n, hn, _⟩ := h.saved c i hc hts
    rw [horig] at hn; cases hn

/-! ### phase 1: remove what the transaction created, deepest first -/

theorem phase1 {w w1 : World} (hinv : Inv S v0 w) (hnf : w.faults = []) (hs : SameFS w w1)
    (l : List Path) (hl : ∀ p, p ∈ l ↔ ∃ k, PKey k ∧ p = kp k ∧ TN w k ∧ S.view .base w.fs k ≠ none)
    (hnd : l.Nodup) :
    Sat (forEachCollect (removeBaseAct cfg) (sortMost l)) w1 (fun w' r => r = .ok false ∧
      Mid S v0 w (fun k => PKey k ∧ TN w k) w') := by
  let R : Path → Path → Prop := fun p q => ∀ a b, PKey a → PKey b → p = kp a → q = kp b → b.length ≤ a.length
  let D : List Path → Key → Prop := fun rest k => PKey k ∧ TN w k ∧ kp k ∉ rest
  let J : List Path → World → Prop := fun rest w' =>
    rest.Pairwise R ∧ rest.Nodup ∧ (∀ p ∈ rest, p ∈ l) ∧ Mid S v0 w (D rest) w'
  have hperm := sortBy_perm (fun a b => lessFPS b a) l
  have hstep : ∀ x rest w', J (x :: rest) w' →
      Sat (removeBaseAct cfg x) w' (fun w'' r => r = .ok () ∧ J rest w'') := by
    intro x rest w' ⟨hpw, hnd', hmem, hmid⟩
    obtain ⟨k, hk, rfl, htn, hpres⟩ := (hl x).mp (hmem x (by simp))
    have hxr : kp k ∉ rest := (List.nodup_cons.mp hnd').1
    have hnotD : ¬ D (kp k :: rest) k := fun hd => hd.2.2 (by simp)
    have hvk : S.view .base w'.fs k = S.view .base w.fs k := hmid.rest k hnotD
    have habs : v0 k = none := hinv.absent k hk htn
    have hkne : k ≠ [] := by
      intro e; subst e
      obtain ⟨mt, hroot⟩ := hinv.v0_root
      rw [habs] at hroot; cases hroot
    -- no child is left
    have hnochild : ¬ (S.view .base w'.fs).hasChild k := by
      rintro ⟨name, hc⟩
      have hcp : PKey (k ++ [name]) := S.pkey hmid.good hc
      have hcorig : v0 (k ++ [name]) = none :=
        hinv.v0_below (k := k) (by rintro ⟨mt, h⟩; rw [habs] at h; cases h) _ ⟨[name], rfl⟩ (by simp)
      by_cases hdc : D (kp k :: rest) (k ++ [name])
      · rw [hmid.done _ hdc] at hc; exact hc hcorig
      · rw [hmid.rest _ hdc] at hc
        have htnc : TN w (k ++ [name]) := hinv.present_new hcp hc hcorig
        have hin : kp (k ++ [name]) ∈ kp k :: rest := by
          apply Classical.byContradiction
          intro hnin; exact hdc ⟨hcp, htnc, hnin⟩
        rcases List.mem_cons.mp hin with heq | hin
        · have := kp_inj hcp hk heq
          have := congrArg List.length this
          simp at this
        · have := (List.pairwise_cons.mp hpw).1 _ hin k (k ++ [name]) hk hcp rfl rfl
          simp only [List.length_append, List.length_singleton] at this
          omega
    have hnode : (S.view .base w'.fs).isFileAt k ∨ ((S.view .base w'.fs).isDirAt k ∧ ¬ (S.view .base w'.fs).hasChild k) := by
      cases hn : S.view .base w'.fs k with
      | none => rw [hvk] at hn; exact absurd hn hpres
      | some n =>
        cases n with
        | file c mt => exact Or.inl ⟨c, mt, hn⟩
        | dir mt => exact Or.inr ⟨⟨mt, hn⟩, hnochild⟩
        | link t mt => exact absurd hn (S.no_link hmid.good)
    unfold removeBaseAct
    apply (sat_primUnit_exact (S := S) (s := .base) (c := .remove (kp k)) (K := (· = k))
      (P := fun m' => S.view .base m' k = none) hmid.good
      (fun m' r h => by
        obtain ⟨g, o, f⟩ := S.remove_frame hmid.good hk hkne h
        exact ⟨g, o, fun j hj => f j hj⟩)
      (S.remove_ok hmid.good hk hkne
        (fun hp => by obtain ⟨mt, h⟩ := hinv.orig.par hp; rw [habs] at h; cases h) hnode)).mono
    intro w'' r ⟨hc, hp, hof⟩
    obtain ⟨u, hr⟩ := OnlyFault.nofault hof hmid.faults
    subst hr
    refine ⟨rfl, (List.pairwise_cons.mp hpw).2, (List.nodup_cons.mp hnd').2,
      fun p hp' => hmem p (List.mem_cons_of_mem _ hp'), ?_⟩
    apply hmid.step hc (by rw [hp rfl, habs])
    intro j
    constructor
    · rintro ⟨hj, htj, hjr⟩
      by_cases hjk : j = k
      · exact Or.inr hjk
      · left
        refine ⟨hj, htj, ?_⟩
        intro hin
        rcases List.mem_cons.mp hin with heq | hin
        · exact hjk (kp_inj hj hk heq)
        · exact hjr hin
    · rintro (⟨hj, htj, hjr⟩ | rfl)
      · exact ⟨hj, htj, fun hin => hjr (List.mem_cons_of_mem _ hin)⟩
      · exact ⟨hk, htn, hxr⟩
  have hinit : J (sortMost l) w1 := by
    refine ⟨sortMost_kp_pairwise l, hperm.nodup_iff.mpr hnd, fun p hp => hperm.mem_iff.mp hp, ?_⟩
    refine ⟨hs.fs ▸ hinv.good, hs.infos, by rw [hs.faults]; exact hnf, by rw [hs.fs], ?_, fun k _ => by rw [hs.fs]⟩
    rintro k ⟨hk, htn, hnin⟩
    rw [hs.fs, hinv.absent k hk htn]
    apply Classical.byContradiction
    intro hne
    exact hnin (hperm.mem_iff.mpr ((hl (kp k)).mpr ⟨k, hk, rfl, htn, hne⟩))
  apply (sat_forEach hstep (sortMost l) w1 hinit).mono
  intro w' r ⟨hr, _, _, _, hmid⟩
  refine ⟨hr, hmid.congr ?_⟩
  intro k
  simp [D]

/-! ### phase 2: restore directories, shallowest first -/

/-- tracked with a directory's info, and not the root -/
def TSDir (w : World) (k : Key) : Prop := k ≠ [] ∧ ∃ i, TS w k i ∧ i.kind = .dir
/-- tracked with a regular file's info -/
def TSFile (w : World) (k : Key) : Prop := ∃ i, TS w k i ∧ i.kind = .file

theorem TN_not_TS {w : World} {k : Key} {i : Info} (h : TS w k i) : ¬ TN w k := by
  unfold TN TS at *; rw [h]; intro e; cases e

theorem Inv.ts_node {w : World} (h : Inv S v0 w) {k : Key} {i : Info} (hk : PKey k) (hts : TS w k i) :
    ∃ n, v0 k = some n ∧ InfoFor i n ∧ i.perm < 4096 := by
  obtain ⟨n, hn, hfor, _⟩ := h.saved k i hk hts
  exact ⟨n, hn, hfor, by rw [hfor.2.1]; exact h.v0_mode hn⟩

/-- the parent of a key tracked with an info is the root or a tracked directory -/
theorem Inv.parent_tsdir {w : World} (h : Inv S v0 w) {k : Key} {i : Info} (hk : PKey k) (hts : TS w k i)
    (hne : k ≠ []) : k.dropLast = [] ∨ TSDir w k.dropLast := by
  by_cases ha : k.dropLast = []
  · exact Or.inl ha
  · right
    obtain ⟨n, hn, _⟩ := h.ts_node hk hts
    obtain ⟨mt, hmt⟩ := h.v0_parent (k := k) (by rw [hn]; simp) hne
    have hpa : PKey k.dropLast := hk.dropLast
    have htr := h.anc k i hk hts k.dropLast (List.dropLast_prefix k)
    rcases tracked_cases w k.dropLast with hu | htn | ⟨ia, htsa⟩
    · exact absurd hu htr
    · have := h.absent _ hpa htn; rw [this] at hmt; cases hmt
    · obtain ⟨na, hna, hfora, _⟩ := h.ts_node hpa htsa
      rw [hmt] at hna; cases hna
      exact ⟨ha, ia, htsa, hfora.1⟩

theorem Inv.dir_target {w : World} (h : Inv S v0 w) {k : Key} {i : Info} (hk : PKey k) (hts : TS w k i)
    (hkind : i.kind = .dir) : v0 k = some (restoredDir i) := by
  obtain ⟨n, hn, hfor, _⟩ := h.ts_node hk hts
  cases n with
  | dir mt =>
    rw [hn]
    have hfr := h.v0_erased hn
    obtain ⟨_, hp, hu, hg, _⟩ := hfor
    cases mt
    simp only [Node.meta] at hp hu hg hfr
    simp [restoredDir, hp, hu, hg, hfr]
  | file c mt => have := hfor.1; rw [hkind] at this; cases this
  | link t mt => have := hfor.1; rw [hkind] at this; cases this

theorem Inv.file_target {w : World} (h : Inv S v0 w) {k : Key} {i : Info} (hk : PKey k) (hts : TS w k i)
    (hkind : i.kind = .file) : ∃ c mt', v0 k = some (restoredFile c i) ∧ S.view .backup w.fs k = some (.file c mt') := by
  obtain ⟨n, hn, hfor, hcopy⟩ := h.saved k i hk hts
  cases n with
  | file c mt =>
    obtain ⟨mt', hb⟩ := hcopy c mt rfl
    refine ⟨c, mt', ?_, hb⟩
    rw [hn]
    obtain ⟨_, hp, hu, hg, ht⟩ := hfor
    have ht := ht rfl
    cases mt
    simp only [Node.meta] at hp hu hg ht
    simp [restoredFile, hp, hu, hg, ht]
  | dir mt => have := hfor.1; rw [hkind] at this; cases this
  | link t mt => have := hfor.1; rw [hkind] at this; cases this

theorem infoFor_ts {w : World} {k : Key} {i : Info} (h : TS w k i) : infoFor w.infos (kp k) = some i := by
  unfold infoFor; unfold TS at h; rw [h]; rfl

theorem dropLast_length_lt {k : Key} (h : k ≠ []) : k.dropLast.length < k.length := by
  rw [List.length_dropLast]
  have : 0 < k.length := List.length_pos_iff.mpr h
  omega

theorem phase2 {w w1 : World} (hinv : Inv S v0 w)
    (hmid : Mid S v0 w (fun k => PKey k ∧ TN w k) w1)
    (l : List Path) (hl : ∀ p, p ∈ l ↔ ∃ k, PKey k ∧ p = kp k ∧ TSDir w k) (hnd : l.Nodup) :
    Sat (forEachCollect (restoreDirAct cfg w.infos) (sortLeast l)) w1 (fun w' r => r = .ok false ∧
      Mid S v0 w (fun k => PKey k ∧ (TN w k ∨ TSDir w k)) w') := by
  let R : Path → Path → Prop := fun p q => ∀ a b, PKey a → PKey b → p = kp a → q = kp b → a.length ≤ b.length
  let D : List Path → Key → Prop := fun rest k => PKey k ∧ (TN w k ∨ (TSDir w k ∧ kp k ∉ rest))
  let J : List Path → World → Prop := fun rest w' =>
    rest.Pairwise R ∧ rest.Nodup ∧ (∀ p ∈ rest, p ∈ l) ∧ Mid S v0 w (D rest) w'
  have hperm := sortBy_perm lessFPS l
  have hstep : ∀ x rest w', J (x :: rest) w' →
      Sat (restoreDirAct cfg w.infos x) w' (fun w'' r => r = .ok () ∧ J rest w'') := by
    intro x rest w' ⟨hpw, hnd', hmem, hm⟩
    obtain ⟨k, hk, rfl, hkne, i, hts, hkind⟩ := (hl x).mp (hmem x (by simp))
    have hxr : kp k ∉ rest := (List.nodup_cons.mp hnd').1
    have hnotD : ¬ D (kp k :: rest) k := by
      rintro ⟨_, htn | ⟨_, hnin⟩⟩
      · exact TN_not_TS hts htn
      · exact hnin (by simp)
    obtain ⟨n, hn, hfor, hperm4⟩ := hinv.ts_node hk hts
    have htarget := hinv.dir_target hk hts hkind
    have hisdir : i.isDir = true := by simp [Info.isDir, hkind]
    -- the parent is already a directory
    have hparent : ∀ w2, S.Chg .base (· = k) w' w2 → (S.view .base w2.fs).parentDir k := by
      intro w2 hc
      refine ⟨hkne, ?_⟩
      have hak : k.dropLast ≠ k := by
        intro e; have := dropLast_length_lt hkne; rw [e] at this; omega
      unfold View.isDirAt
      rw [show S.view .base w2.fs k.dropLast = S.view .base w'.fs k.dropLast from hc.frame _ hak]
      rcases hinv.parent_tsdir hk hts hkne with ha | ha
      · rw [ha]; exact S.root_dir hm.good
      · have hpa : PKey k.dropLast := hk.dropLast
        have hDa : D (kp k :: rest) k.dropLast := by
          refine ⟨hpa, Or.inr ⟨ha, ?_⟩⟩
          intro hin
          rcases List.mem_cons.mp hin with heq | hin
          · exact hak (kp_inj hpa hk heq)
          · have := (List.pairwise_cons.mp hpw).1 _ hin k k.dropLast hk hpa rfl rfl
            have := dropLast_length_lt hkne
            omega
        obtain ⟨_, ia, htsa, hka⟩ := ha
        rw [hm.done _ hDa, hinv.dir_target hpa htsa hka]
        exact ⟨_, rfl⟩
    unfold restoreDirAct
    apply Sat.bind
    apply (sat_lexists (S := S) (s := .base) hm.good hk hm.faults).mono
    intro wa ra ⟨hsa, hsome, hnone⟩
    have hga : S.G wa.fs := hsa.fs ▸ hm.good
    have hfa : wa.faults = [] := by rw [hsa.faults]; exact hm.faults
    -- make room
    have hroom : ∃ cur, ra = .ok cur ∧ Sat (BFS.whenM (match cur with
        | some fi => !fi.isDir
        | none => false) (primUnit cfg .base (.remove (kp k)))) wa (fun w2 r => r = .ok () ∧
          S.Chg .base (· = k) w' w2 ∧ (S.view .base w2.fs k = none ∨ (S.view .base w2.fs).isDirAt k)) := by
      cases hv : S.view .base w'.fs k with
      | none =>
        refine ⟨none, hnone hv, ?_⟩
        apply Sat.whenM
        · intro h; cases h
        · intro _
          exact ⟨rfl, Sim.Chg.of_same hm.good hsa, Or.inl (by rw [hsa.fs]; exact hv)⟩
      | some nd =>
        obtain ⟨fi, hra, hfi⟩ := hsome nd hv
        refine ⟨some fi, hra, ?_⟩
        cases nd with
        | dir mt =>
          have : fi.isDir = true := by simp [Info.isDir, hfi.1, Node.kind]
          apply Sat.whenM
          · intro h; simp [this] at h
          · intro _
            exact ⟨rfl, Sim.Chg.of_same hm.good hsa, Or.inr ⟨mt, by rw [hsa.fs]; exact hv⟩⟩
        | link t mt => exact absurd hv (S.no_link hm.good)
        | file c mt =>
          apply Sat.whenM
          · intro _
            apply (sat_primUnit_exact (S := S) (s := .base) (c := .remove (kp k)) (K := (· = k))
              (P := fun m' => S.view .base m' k = none) hga
              (fun m' r h => by
                obtain ⟨g, o, f⟩ := S.remove_frame hga hk hkne h
                exact ⟨g, o, fun j hj => f j hj⟩)
              (S.remove_ok hga hk hkne
                (fun hp => by
                  obtain ⟨mt', h⟩ := S.par_dir hm.good hp
                  rw [hv] at h; cases h)
                (Or.inl ⟨c, mt, by rw [hsa.fs]; exact hv⟩))).mono
            intro w2 r2 ⟨hc2, hp2, hof2⟩
            obtain ⟨u, hr⟩ := OnlyFault.nofault hof2 hfa
            subst hr
            exact ⟨rfl, Sim.Chg.same_left hsa hc2, Or.inl (hp2 rfl)⟩
          · intro h
            have : fi.isDir = false := by simp [Info.isDir, hfi.1, Node.kind]
            simp [this] at h
    obtain ⟨cur, hra, hroomsat⟩ := hroom
    subst hra
    simp only
    apply Sat.bind
    apply hroomsat.mono
    intro w2 r2 ⟨hr2, hc2, hcur2⟩
    subst hr2
    simp only [infoFor_ts hts]
    have hf2 : w2.faults = [] := by rw [hc2.faults]; exact hm.faults
    apply (sat_copyDir_strong (S := S) (s := .base) (i := i) hc2.good hk hkne hisdir hperm4
      (fun hh => by rw [hinv.orig.hid hh] at hn; cases hn)
      (hparent w2 hc2) hcur2).mono
    intro w3 r3 ⟨hc3, hof3, hp3⟩
    obtain ⟨u, hr⟩ := OnlyFault.nofault hof3 hf2
    subst hr
    refine ⟨rfl, (List.pairwise_cons.mp hpw).2, (List.nodup_cons.mp hnd').2,
      fun p hp' => hmem p (List.mem_cons_of_mem _ hp'), ?_⟩
    apply hm.step (hc2.trans hc3) (by rw [hp3 rfl, htarget])
    intro j
    constructor
    · rintro ⟨hj, htn | ⟨hd, hjr⟩⟩
      · exact Or.inl ⟨hj, Or.inl htn⟩
      · by_cases hjk : j = k
        · exact Or.inr hjk
        · left
          refine ⟨hj, Or.inr ⟨hd, ?_⟩⟩
          intro hin
          rcases List.mem_cons.mp hin with heq | hin
          · exact hjk (kp_inj hj hk heq)
          · exact hjr hin
    · rintro (⟨hj, htn | ⟨hd, hjr⟩⟩ | rfl)
      · exact ⟨hj, Or.inl htn⟩
      · exact ⟨hj, Or.inr ⟨hd, fun hin => hjr (List.mem_cons_of_mem _ hin)⟩⟩
      · exact ⟨hk, Or.inr ⟨⟨hkne, i, hts, hkind⟩, hxr⟩⟩
  have hinit : J (sortLeast l) w1 := by
    refine ⟨sortLeast_kp_pairwise l, hperm.nodup_iff.mpr hnd, fun p hp => hperm.mem_iff.mp hp, ?_⟩
    apply hmid.congr
    intro k
    constructor
    · rintro ⟨hk, htn⟩; exact ⟨hk, Or.inl htn⟩
    · rintro ⟨hk, htn | ⟨hd, hnin⟩⟩
      · exact ⟨hk, htn⟩
      · exact absurd (hperm.mem_iff.mpr ((hl (kp k)).mpr ⟨k, hk, rfl, hd⟩)) hnin
  apply (sat_forEach hstep (sortLeast l) w1 hinit).mono
  intro w' r ⟨hr, _, _, _, hm⟩
  refine ⟨hr, hm.congr ?_⟩
  intro k
  simp [D]

/-! ### phase 3: restore regular files -/

theorem sat_hStat {wh : WHandle} {k : Key} {n : Node} {w : World} (hg : S.G w.fs)
    (hH : S.H wh.side wh.h k) (hv : S.view wh.side w.fs k = some n) :
    Sat (hStat cfg wh) w (fun w' r => SameFS w w' ∧ OnlyFault w r ∧ ∀ fi, r = .ok fi → InfoFor fi n) := by
  unfold hStat
  apply Sat.bind
  apply Sat.primH
  · intro hf w1 h1
    exact ⟨h1, by intro e h; cases h; exact ⟨rfl, hf⟩, by intro fi h; cases h⟩
  · intro w1 h1
    apply Sat.bind
    apply Sat.getW
    simp only
    obtain ⟨i, hi, hfor⟩ := S.hstat_some (h1.fs ▸ hg) hH (by rw [h1.fs]; exact hv)
    rw [hi]
    apply Sat.pure
    exact ⟨h1, OnlyFault.ok, by intro fi h; cases h; exact hfor⟩

theorem phase3 {w w2 : World} (hinv : Inv S v0 w)
    (hmid : Mid S v0 w (fun k => PKey k ∧ (TN w k ∨ TSDir w k)) w2)
    (l : List Path) (hl : ∀ p, p ∈ l ↔ ∃ k, PKey k ∧ p = kp k ∧ TSFile w k) (hnd : l.Nodup) :
    Sat (forEachCollect (restoreFileAct cfg w.infos) (sortStrings l)) w2 (fun w' r => r = .ok false ∧
      Mid S v0 w (fun k => PKey k ∧ (TN w k ∨ TSDir w k ∨ TSFile w k)) w') := by
  let D : List Path → Key → Prop := fun rest k => PKey k ∧ (TN w k ∨ TSDir w k ∨ (TSFile w k ∧ kp k ∉ rest))
  let J : List Path → World → Prop := fun rest w' =>
    rest.Nodup ∧ (∀ p ∈ rest, p ∈ l) ∧ Mid S v0 w (D rest) w'
  have hperm := sortBy_perm strLt l
  have hstep : ∀ x rest w', J (x :: rest) w' →
      Sat (restoreFileAct cfg w.infos x) w' (fun w'' r => r = .ok () ∧ J rest w'') := by
    intro x rest w' ⟨hnd', hmem, hm⟩
    obtain ⟨k, hk, rfl, i, hts, hkind⟩ := (hl x).mp (hmem x (by simp))
    have hxr : kp k ∉ rest := (List.nodup_cons.mp hnd').1
    obtain ⟨c, mtb, htarget, hbak⟩ := hinv.file_target hk hts hkind
    obtain ⟨n, hn, hfor, hperm4⟩ := hinv.ts_node hk hts
    have hreg : i.isRegular = true := by simp [Info.isRegular, hkind]
    have hkne : k ≠ [] := by
      intro e; subst e
      obtain ⟨mt, hroot⟩ := hinv.v0_root
      rw [htarget] at hroot; cases hroot
    have hnodir : ¬ v0.isDirAt k := by
      rintro ⟨mt, h⟩; rw [htarget] at h; cases h
    -- the key was a regular file: it is neither hidden nor an ancestor of a hidden entry
    have hvisk : ¬ S.Hid .base k := fun hh => by rw [hinv.orig.hid hh] at hn; cases hn
    have hnopar : ¬ S.Par .base k := fun hp => hnodir (hinv.orig.par hp)
    -- nothing is left below the key
    have hbelow : ∀ j, k <+: j → j ≠ k → S.view .base w'.fs j = none := by
      intro j hj hjk
      have horig := hinv.v0_below hnodir j hj hjk
      by_cases hD : D (kp k :: rest) j
      · rw [hm.done j hD]; exact horig
      · rw [hm.rest j hD]
        apply Classical.byContradiction
        intro hne
        have hpj : PKey j := S.pkey hinv.good hne
        exact hD ⟨hpj, Or.inl (hinv.present_new hpj hne horig)⟩
    -- the parent directory has been restored
    have hparent : (S.view .base w'.fs).isDirAt k.dropLast := by
      rcases hinv.parent_tsdir hk hts hkne with ha | ha
      · rw [ha]; exact S.root_dir hm.good
      · have hpa : PKey k.dropLast := hk.dropLast
        obtain ⟨_, ia, htsa, hka⟩ := ha
        unfold View.isDirAt
        rw [hm.done _ ⟨hpa, Or.inr (Or.inl ⟨‹_›, ia, htsa, hka⟩)⟩, hinv.dir_target hpa htsa hka]
        exact ⟨_, rfl⟩
    have hak : k.dropLast ≠ k := by
      intro e; have := dropLast_length_lt hkne; rw [e] at this; omega
    have hvk' : S.view .backup w'.fs k = some (.file c mtb) := by rw [hm.backup]; exact hbak
    unfold restoreFileAct
    simp only [infoFor_ts hts]
    unfold restoreFile
    apply Sat.bind
    apply (sat_open_ro (S := S) (s := .backup) hm.good hk).mono
    intro wa ra ⟨hsa, hwh, hofa⟩
    obtain ⟨f, hra⟩ := OnlyFault.nofault (hofa (Or.inl ⟨c, mtb, hvk'⟩)) hm.faults
    subst hra
    obtain ⟨hside, hH, hflag⟩ := hwh f rfl
    simp only
    have hga : S.G wa.fs := hsa.fs ▸ hm.good
    have hfa : wa.faults = [] := by rw [hsa.faults]; exact hm.faults
    apply Sat.bind
    apply Sat.attempt
    -- the body of restoreFile
    have hbody : Sat (do
        let fi ← hStat cfg f
        let baseFi ← lexists cfg .base (kp k)
        let replaced := match baseFi with
          | some b => !b.isRegular
          | none => false
        if !fi.isRegular then primUnit cfg .base (.removeAll (kp k))
        else BFS.whenM replaced (primUnit cfg .base (.remove (kp k)))
        copyFile cfg .base (kp k) i f : M Unit) wa
        (fun w3 r => r = .ok () ∧ S.Chg .base (· = k) w' w3 ∧ S.view .base w3.fs k = some (restoredFile c i)) := by
      apply Sat.bind
      apply (sat_hStat (S := S) (wh := f) (k := k) hga (by rw [hside]; exact hH)
        (by rw [hside, hsa.fs]; exact hvk')).mono
      intro wb rb ⟨hsb, hofb, hfi⟩
      obtain ⟨fi, hrb⟩ := OnlyFault.nofault hofb hfa
      subst hrb
      have hfireg : fi.isRegular = true := by
        have := (hfi fi rfl).1
        simp [Info.isRegular, this, Node.kind]
      simp only
      have hsab := hsa.trans hsb
      have hgb : S.G wb.fs := hsab.fs ▸ hm.good
      have hfb : wb.faults = [] := by rw [hsab.faults]; exact hm.faults
      apply Sat.bind
      apply (sat_lexists (S := S) (s := .base) hgb hk hfb).mono
      intro wc rc ⟨hsc, hsome, hnone⟩
      have hsac := hsab.trans hsc
      have hgc : S.G wc.fs := hsac.fs ▸ hm.good
      have hfc : wc.faults = [] := by rw [hsac.faults]; exact hm.faults
      have hroom : ∃ cur, rc = .ok cur ∧ Sat (BFS.whenM (match cur with
          | some b => !b.isRegular
          | none => false) (primUnit cfg .base (.remove (kp k)))) wc (fun w3 r => r = .ok () ∧
            S.Chg .base (· = k) w' w3 ∧ CanWrite S .base (S.view .base w3.fs) k) := by
        have hpar : ∀ w3, S.Chg .base (· = k) w' w3 → (S.view .base w3.fs).parentDir k := by
          intro w3 hc
          refine ⟨hkne, ?_⟩
          unfold View.isDirAt
          rw [hc.frame _ hak]
          exact hparent
        cases hv : S.view .base w'.fs k with
        | none =>
          refine ⟨none, hnone (by rw [hsab.fs]; exact hv), ?_⟩
          apply Sat.whenM
          · intro h; cases h
          · intro _
            have hc := Sim.Chg.of_same (S := S) (s := .base) (K := (· = k)) hm.good hsac
            exact ⟨rfl, hc, Or.inr ⟨by rw [hsac.fs]; exact hv, hpar wc hc, hvisk⟩⟩
        | some nd =>
          obtain ⟨bi, hrc, hbi⟩ := hsome nd (by rw [hsab.fs]; exact hv)
          refine ⟨some bi, hrc, ?_⟩
          cases nd with
          | file c' mt' =>
            have : bi.isRegular = true := by simp [Info.isRegular, hbi.1, Node.kind]
            apply Sat.whenM
            · intro h; simp [this] at h
            · intro _
              exact ⟨rfl, Sim.Chg.of_same hm.good hsac, Or.inl ⟨c', mt', by rw [hsac.fs]; exact hv⟩⟩
          | link t mt' => exact absurd hv (S.no_link hm.good)
          | dir mt' =>
            apply Sat.whenM
            · intro _
              -- the directory in the way is empty: what the transaction created below it went in phase 1
              have hnochild : ¬ (S.view .base wc.fs).hasChild k := by
                rintro ⟨name, hch⟩
                rw [hsac.fs] at hch
                exact hch (hbelow (k ++ [name]) ⟨[name], rfl⟩ (by simp))
              apply (sat_primUnit_exact (S := S) (s := .base) (c := .remove (kp k)) (K := (· = k))
                (P := fun m' => S.view .base m' k = none) hgc
                (fun m' r h => by
                  obtain ⟨g, o, f'⟩ := S.remove_frame hgc hk hkne h
                  exact ⟨g, o, fun j hj => f' j hj⟩)
                (S.remove_ok hgc hk hkne hnopar (Or.inr ⟨⟨mt', by rw [hsac.fs]; exact hv⟩, hnochild⟩))).mono
              intro w3 r3 ⟨hc3, hp3, hof3⟩
              obtain ⟨u, hr⟩ := OnlyFault.nofault hof3 hfc
              subst hr
              have hc := Sim.Chg.same_left hsac hc3
              exact ⟨rfl, hc, Or.inr ⟨hp3 rfl, hpar w3 hc, hvisk⟩⟩
            · intro h
              have : bi.isRegular = false := by simp [Info.isRegular, hbi.1, Node.kind]
              simp [this] at h
      obtain ⟨cur, hrc, hroomsat⟩ := hroom
      subst hrc
      simp only [hfireg, Bool.not_true, Bool.false_eq_true, if_false]
      apply Sat.bind
      apply hroomsat.mono
      intro w3 r3 ⟨hr3, hc3, hcw3⟩
      subst hr3
      simp only
      have hf3 : w3.faults = [] := by rw [hc3.faults]; exact hm.faults
      have hvk3 : S.view Side.base.other w3.fs k = some (.file c mtb) := by
        rw [hc3.other]; exact hvk'
      apply (sat_copyFile (S := S) (s := .base) (ks := k) (data := c) (mt0 := mtb) hc3.good hk
        hside hH (by rw [hflag]; decide) hvk3 hreg hperm4).mono
      intro w4 r4 ⟨hc4, hp4, hof4⟩
      obtain ⟨u, hr⟩ := OnlyFault.nofault (hof4 hcw3) hf3
      subst hr
      exact ⟨rfl, hc3.trans hc4, hp4 rfl⟩
    apply hbody.mono
    intro w3 r3 ⟨hr3, hc3, hv3⟩
    subst hr3
    simp only
    apply Sat.bind
    apply Sat.attempt
    apply (sat_hClose (wh := f) (w := w3)).mono
    intro w4 r4 ⟨hs4, _⟩
    simp only
    apply Sat.pure
    refine ⟨rfl, (List.nodup_cons.mp hnd').2, fun p hp' => hmem p (List.mem_cons_of_mem _ hp'), ?_⟩
    apply hm.step (hc3.same_right hs4) (by rw [hs4.fs, hv3, htarget])
    intro j
    constructor
    · rintro ⟨hj, htn | hd | ⟨hf, hjr⟩⟩
      · exact Or.inl ⟨hj, Or.inl htn⟩
      · exact Or.inl ⟨hj, Or.inr (Or.inl hd)⟩
      · by_cases hjk : j = k
        · exact Or.inr hjk
        · left
          refine ⟨hj, Or.inr (Or.inr ⟨hf, ?_⟩)⟩
          intro hin
          rcases List.mem_cons.mp hin with heq | hin
          · exact hjk (kp_inj hj hk heq)
          · exact hjr hin
    · rintro (⟨hj, htn | hd | ⟨hf, hjr⟩⟩ | rfl)
      · exact ⟨hj, Or.inl htn⟩
      · exact ⟨hj, Or.inr (Or.inl hd)⟩
      · exact ⟨hj, Or.inr (Or.inr ⟨hf, fun hin => hjr (List.mem_cons_of_mem _ hin)⟩)⟩
      · exact ⟨hk, Or.inr (Or.inr ⟨⟨i, hts, hkind⟩, hxr⟩)⟩
  have hinit : J (sortStrings l) w2 := by
    refine ⟨hperm.nodup_iff.mpr hnd, fun p hp => hperm.mem_iff.mp hp, ?_⟩
    apply hmid.congr
    intro k
    constructor
    · rintro ⟨hk, htn | hd⟩
      · exact ⟨hk, Or.inl htn⟩
      · exact ⟨hk, Or.inr (Or.inl hd)⟩
    · rintro ⟨hk, htn | hd | ⟨hf, hnin⟩⟩
      · exact ⟨hk, Or.inl htn⟩
      · exact ⟨hk, Or.inr hd⟩
      · exact absurd (hperm.mem_iff.mpr ((hl (kp k)).mpr ⟨k, hk, rfl, hf⟩)) hnin
  apply (sat_forEach hstep (sortStrings l) w2 hinit).mono
  intro w' r ⟨hr, _, _, hm⟩
  refine ⟨hr, hm.congr ?_⟩
  intro k
  simp [D]

/-! ### phases 5–7: removing the backup copies does not touch the base -/

theorem sat_forEach_any {α} {f : α → M Unit} {P : World → Prop} :
    ∀ (l : List α) (w : World), P w → (∀ x ∈ l, ∀ w, P w → Sat (f x) w (fun w' _ => P w')) →
      Sat (forEachCollect f l) w (fun w' _ => P w')
  | [], w, h, _ => by
    unfold forEachCollect
    exact Sat.pure h
  | x :: xs, w, h, hstep => by
    unfold forEachCollect
    apply Sat.bind
    apply Sat.attempt
    apply (hstep x (by simp) w h).mono
    intro w1 r1 h1
    simp only
    apply Sat.bind
    apply (sat_forEach_any xs w1 h1 (fun y hy => hstep y (List.mem_cons_of_mem _ hy))).mono
    intro w2 r2 h2
    cases r2 with
    | error e => exact h2
    | ok b => exact Sat.pure h2

/-- what the clean-up of the backup keeps: disk well-formed, tracked map, empty fault plan, base view -/
structure Fin (S : Sim cfg) (w : World) (vb : View) (w' : World) : Prop where
  good : S.G w'.fs
  infos : w'.infos = w.infos
  faults : w'.faults = []
  base : S.view .base w'.fs = vb

theorem sat_cleanupAct {w0 w : World} {vb : View} {k : Key} (h : Fin S w0 vb w) (hk : PKey k) (hne : k ≠ []) :
    Sat (cleanupAct cfg (kp k)) w (fun w' _ => Fin S w0 vb w') := by
  unfold cleanupAct
  apply Sat.bind
  apply (sat_lexists (S := S) (s := .backup) h.good hk h.faults).mono
  intro w1 r1 ⟨hs1, _, _⟩
  have h1 : Fin S w0 vb w1 := ⟨hs1.fs ▸ h.good, hs1.infos.trans h.infos, hs1.faults.trans h.faults, by rw [hs1.fs]; exact h.base⟩
  cases r1 with
  | error e => exact h1
  | ok o =>
    cases o with
    | none => exact Sat.pure h1
    | some i =>
      simp only
      apply (sat_primUnit_chg (S := S) (s := .backup) (K := (· = k)) h1.good (fun m' r hc => by
        obtain ⟨g, o, f⟩ := S.remove_frame h1.good hk hne hc
        exact ⟨g, o, fun j hj => f j hj⟩)).mono
      intro w2 _ hc
      exact ⟨hc.good, hc.infos.trans h1.infos, hc.faults.trans h1.faults, hc.other.trans h1.base⟩

theorem sat_removeBackupPaths {w0 w : World} {vb : View} {ps : List Path} (h : Fin S w0 vb w)
    (hps : ∀ p ∈ ps, ∃ k, PKey k ∧ k ≠ [] ∧ p = kp k) :
    Sat (removeBackupPaths cfg ps) w (fun w' _ => Fin S w0 vb w') := by
  unfold removeBackupPaths
  apply sat_forEach_any (P := Fin S w0 vb) _ w h
  intro x hx w' h'
  obtain ⟨k, hk, hne, rfl⟩ := hps x ((sortBy_perm _ ps).mem_iff.mp hx)
  exact sat_cleanupAct h' hk hne

/-! ### Rollback restores the base -/

theorem Inv.mem_iff {w : World} (h : Inv S v0 w) {p : Path} {x : Option Info} :
    (p, x) ∈ w.infos ↔ w.infos.lookup p = some x :=
  ⟨lookup_of_mem h.nodup, mem_of_lookup⟩

theorem Inv.ts_kind {w : World} (h : Inv S v0 w) {k : Key} {i : Info} (hk : PKey k) (hts : TS w k i) :
    i.kind = .dir ∨ i.kind = .file := by
  obtain ⟨n, hn, hfor, _⟩ := h.ts_node hk hts
  cases n with
  | dir mt => exact Or.inl hfor.1
  | file c mt => exact Or.inr hfor.1
  | link t mt => exact absurd hn h.v0_nolink

theorem Inv.tsfile_ne_root {w : World} (h : Inv S v0 w) {k : Key} (hk : PKey k) (hf : TSFile w k) : k ≠ [] := by
  obtain ⟨i, hts, hkind⟩ := hf
  obtain ⟨c, mtb, htarget, _⟩ := h.file_target hk hts hkind
  intro e; subst e
  obtain ⟨mt, hroot⟩ := h.v0_root
  rw [htarget] at hroot; cases hroot

/-- T01 (Rollback): from a state satisfying the transaction invariant, on healthy filesystems,
Rollback puts every key of the base view except the root back to its original node -/
theorem sat_rollback {w : World} (hinv : Inv S v0 w) (hnf : w.faults = []) :
    Sat (rollback cfg) w (fun w' _ => S.G w'.fs ∧ w'.faults = [] ∧
      ∀ k, k ≠ [] → S.view .base w'.fs k = v0 k) := by
  unfold rollback
  apply Sat.bind
  apply Sat.getW
  simp only
  apply Sat.bind
  -- the first loop
  have hc1 := (sat_classify (cfg := cfg) (S := S) w.infos {} w hinv.good hnf hinv.keys).elim
  have hc2 := (sat_classify_nd (cfg := cfg) w.infos {} w hinv.nodup
    ⟨List.nodup_nil, List.nodup_nil, List.nodup_nil, (by intro p h; cases h), (by intro p h; cases h), (by intro p h; cases h)⟩).elim
  cases hrun : classify cfg w.infos {} w with
  | mk w1 r1 =>
    rw [hrun] at hc1 hc2
    obtain ⟨hs1, pl, hr1, hcl⟩ := hc1
    subst hr1
    have hpnd := hc2 pl rfl
    apply Sat.of_eq hrun
    simp only
    -- the plan, in terms of keys
    have hrb : ∀ p, p ∈ pl.removeBase ↔ ∃ k, PKey k ∧ p = kp k ∧ TN w k ∧ S.view .base w.fs k ≠ none := by
      intro p
      rw [hcl.removeBase p]
      constructor
      · rintro (h | ⟨k, hk, rfl, hm, hp⟩)
        · cases h
        · exact ⟨k, hk, rfl, hinv.mem_iff.mp hm, hp⟩
      · rintro ⟨k, hk, rfl, htn, hp⟩
        exact Or.inr ⟨k, hk, rfl, hinv.mem_iff.mpr htn, hp⟩
    have hds : ∀ p, p ∈ pl.dirs ↔ ∃ k, PKey k ∧ p = kp k ∧ TSDir w k := by
      intro p
      rw [hcl.dirs p]
      constructor
      · rintro (h | ⟨i, hm, hroot, hkind⟩)
        · cases h
        · obtain ⟨k, hk, rfl⟩ := hinv.keys p (some i) hm
          exact ⟨k, hk, rfl, fun e => hroot ((kp_eq_root_iff hk).mpr e), i, hinv.mem_iff.mp hm, hkind⟩
      · rintro ⟨k, hk, rfl, hne, i, hts, hkind⟩
        exact Or.inr ⟨i, hinv.mem_iff.mpr hts, fun e => hne ((kp_eq_root_iff hk).mp e), hkind⟩
    have hfs : ∀ p, p ∈ pl.files ↔ ∃ k, PKey k ∧ p = kp k ∧ TSFile w k := by
      intro p
      rw [hcl.files p]
      constructor
      · rintro (h | ⟨i, hm, hroot, hkind⟩)
        · cases h
        · obtain ⟨k, hk, rfl⟩ := hinv.keys p (some i) hm
          exact ⟨k, hk, rfl, i, hinv.mem_iff.mp hm, hkind⟩
      · rintro ⟨k, hk, rfl, i, hts, hkind⟩
        exact Or.inr ⟨i, hinv.mem_iff.mpr hts,
          fun e => hinv.tsfile_ne_root hk ⟨i, hts, hkind⟩ ((kp_eq_root_iff hk).mp e), hkind⟩
    have hls : pl.links = [] := by
      apply List.eq_nil_iff_forall_not_mem.mpr
      intro p hp
      rcases (hcl.links p).mp hp with h | ⟨i, hm, _, hkind⟩
      · cases h
      · obtain ⟨k, hk, rfl⟩ := hinv.keys p (some i) hm
        rcases hinv.ts_kind hk (hinv.mem_iff.mp hm) with h | h <;> rw [hkind] at h <;> cases h
    -- phase 1
    apply Sat.bind
    apply (phase1 (cfg := cfg) hinv hnf hs1 pl.removeBase hrb hpnd.rb).mono
    intro w2 r2 ⟨hr2, hm2⟩
    subst hr2
    simp only
    -- phase 2
    apply Sat.bind
    apply (phase2 (cfg := cfg) hinv hm2 pl.dirs hds hpnd.ds).mono
    intro w3 r3 ⟨hr3, hm3⟩
    subst hr3
    simp only
    -- phase 3
    apply Sat.bind
    apply (phase3 (cfg := cfg) hinv hm3 pl.files hfs hpnd.fs).mono
    intro w4 r4 ⟨hr4, hm4⟩
    subst hr4
    simp only
    -- phase 4: there are no symlinks to restore
    rw [hls]
    apply Sat.bind
    have h4 : Sat (forEachCollect (restoreLinkAct cfg w.infos) (sortStrings [])) w4
        (fun w' r => w' = w4) := by
      simp only [sortStrings, sortBy, forEachCollect]
      exact Sat.pure rfl
    apply h4.mono
    intro w5 r5 h5
    subst h5
    have hfin : Fin S w (S.view .base w5.fs) w5 := ⟨hm4.good, hm4.infos, hm4.faults, rfl⟩
    have hend : ∀ w' : World, S.view .base w'.fs = S.view .base w5.fs → ∀ k, k ≠ [] → S.view .base w'.fs k = v0 k := by
      intro w' hf k hkne
      rw [hf]
      by_cases hD : PKey k ∧ (TN w k ∨ TSDir w k ∨ TSFile w k)
      · exact hm4.done k hD
      · rw [hm4.rest k hD]
        by_cases hk : PKey k
        · rcases tracked_cases w k with hu | htn | ⟨i, hts⟩
          · exact hinv.frame k hk hu
          · exact absurd ⟨hk, Or.inl htn⟩ hD
          · rcases hinv.ts_kind hk hts with hkd | hkd
            · exact absurd ⟨hk, Or.inr (Or.inl ⟨hkne, i, hts, hkd⟩)⟩ hD
            · exact absurd ⟨hk, Or.inr (Or.inr ⟨i, hts, hkd⟩)⟩ hD
        · have h1 : S.view .base w.fs k = none := by
            apply Classical.byContradiction
            intro h; exact hk (S.pkey hinv.good h)
          have h2 : v0 k = none := by
            apply Classical.byContradiction
            intro h; exact hk (hinv.v0_pkey h)
          rw [h1, h2]
    have hkeys : ∀ (ps : List Path), (∀ p ∈ ps, ∃ k, PKey k ∧ p = kp k ∧ k ≠ []) →
        ∀ p ∈ ps, ∃ k, PKey k ∧ k ≠ [] ∧ p = kp k := by
      intro ps h p hp
      obtain ⟨k, hk, hp', hne⟩ := h p hp
      exact ⟨k, hk, hne, hp'⟩
    cases r5 with
    | error e => exact ⟨hfin.good, hfin.faults, hend w5 rfl⟩
    | ok e4 =>
      simp only
      apply Sat.bind
      apply (sat_removeBackupPaths (S := S) (ps := []) hfin (by intro p hp; cases hp)).mono
      intro w6 r6 hf6
      cases r6 with
      | error e => exact ⟨hf6.good, hf6.faults, hend w6 hf6.base⟩
      | ok e5 =>
        simp only
        apply Sat.bind
        apply (sat_removeBackupPaths (S := S) (ps := pl.files) hf6 (by
          intro p hp
          obtain ⟨k, hk, rfl, hf⟩ := (hfs p).mp hp
          exact ⟨k, hk, hinv.tsfile_ne_root hk hf, rfl⟩)).mono
        intro w7 r7 hf7
        cases r7 with
        | error e => exact ⟨hf7.good, hf7.faults, hend w7 hf7.base⟩
        | ok e6 =>
          simp only
          apply Sat.bind
          apply (sat_removeBackupPaths (S := S) (ps := pl.dirs) hf7 (by
            intro p hp
            obtain ⟨k, hk, rfl, hd⟩ := (hds p).mp hp
            exact ⟨k, hk, hd.1, rfl⟩)).mono
          intro w8 r8 hf8
          cases r8 with
          | error e => exact ⟨hf8.good, hf8.faults, hend w8 hf8.base⟩
          | ok e7 =>
            simp only
            apply Sat.bind
            apply Sat.modifyW
            simp only
            apply Sat.pure
            exact ⟨hf8.good, hf8.faults, hend { w8 with infos := [] } hf8.base⟩

/-! ### transactions -/

theorem Inv.with_faults {w : World} (h : Inv S v0 w) (f : List Fault) : Inv S v0 { w with faults := f } :=
  ⟨h.good, h.orig, h.keys, h.nodup, h.frame, h.absent, h.saved, h.anc⟩

/-- T01, generic form: on healthy filesystems, after any covered history Rollback restores every
key of the base view except the root -/
theorem tx_restores {w : World} (hg : S.G w.fs) (hinfos : w.infos = []) (hnf : w.faults = [])
    (ops : List Op) (hcov : CoveredHist cfg S w ops) :
    S.G (runTx cfg w ops).fs ∧ (runTx cfg w ops).infos = [] ∧ (runTx cfg w ops).faults = [] ∧
      SameBelowRoot (S.view .base w.fs) (S.view .base (runTx cfg w ops).fs) := by
  have hk := history_keeps (cfg := cfg) ops w (Inv.init hg hinfos) hcov
  have hr := (sat_rollback (cfg := cfg) hk.inv (hk.faults.trans hnf)).elim
  exact ⟨hr.1, rollback_resets_infos cfg _, hr.2.1, hr.2.2⟩

/-- histories of several transactions, each covered in the state it starts from -/
def CoveredTxs (cfg : Cfg) (S : Sim cfg) : World → List (List Op) → Prop
  | _, [] => True
  | w, ops :: rest => CoveredHist cfg S w ops ∧ CoveredTxs cfg S (runTx cfg w ops) rest

/-- T01 for any number of consecutive transactions on the same BackupFS -/
theorem txs_restore : ∀ (txs : List (List Op)) (w : World), S.G w.fs → w.infos = [] → w.faults = [] →
    CoveredTxs cfg S w txs →
    SameBelowRoot (S.view .base w.fs) (S.view .base (txs.foldl (runTx cfg) w).fs)
  | [], w, _, _, _, _ => fun _ _ => rfl
  | ops :: rest, w, hg, hi, hf, hc => by
    obtain ⟨g1, i1, f1, h1⟩ := tx_restores (cfg := cfg) hg hi hf ops hc.1
    have h2 := txs_restore rest (runTx cfg w ops) g1 i1 f1 hc.2
    intro k hk
    rw [List.foldl_cons, h2 k hk, h1 k hk]

/-- T08 (second half): whatever the fault plan did to the operations of a covered history, once
the filesystems are healthy again Rollback restores the base -/
theorem tx_restores_after_faults {w : World} (hg : S.G w.fs) (hinfos : w.infos = [])
    (ops : List Op) (hcov : CoveredHist cfg S w ops) :
    SameBelowRoot (S.view .base w.fs)
      (S.view .base (rollback cfg { runOps cfg w ops with faults := [] }).1.fs) := by
  have hk := history_keeps (cfg := cfg) ops w (Inv.init hg hinfos) hcov
  exact ((sat_rollback (cfg := cfg) (hk.inv.with_faults []) rfl).elim).2.2

end BFS.N
