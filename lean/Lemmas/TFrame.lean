import Lemmas.TStepAll
/-!
  Lemmas/TFrame.lean — the frame of the direct call (what `os.*` behind `PrefixFS` leaves alone),
  used for the corollary "an operation affects exactly the entry the caller named"; and
  "read-only operations change nothing" for every world and fault plan.
-/
namespace BFS
open BackupFS MFS

section
variable {bk kk : Key}

/-- key `j` is none of the entries the operation names: the named entry itself (both names for
`Rename`), the missing ancestor chain for `MkdirAll`, the subtree for `RemoveAll` -/
def Op.Outside (op : Op) (j : Key) : Prop :=
  match op with
  | .creat p _ | .write p _ _ _ | .mkdir p _ | .remove p | .chmod p _ | .chown p _ _ | .lchown p _ _
  | .chtimes p _ => ∀ k, PKey k → clean p = kp k → j ≠ k
  | .mkdirAll p _ => ∀ k, PKey k → clean p = kp k → ¬ j <+: k
  | .removeAll p => ∀ k, PKey k → clean p = kp k → ¬ k <+: j
  | .rename o n => ∀ ko kn, PKey ko → PKey kn → clean o = kp ko → clean n = kp kn → j ≠ ko ∧ j ≠ kn
  | .stat _ | .lstat _ | .readlink _ | .symlink _ _ | .force _ => True

theorem directOpen_frame (hr : Roots bk kk) {m : MFS} (hg : OSGood bk kk m) {k j : Key} (hjk : j ≠ k) {c : Call}
    (data : String)
    (hlaw : ∀ m' r, (baseFS bk kk).call m c = (m', r) → OSGood bk kk m' ∧
      (∀ j, j ≠ k → osView bk kk .base m' j = osView bk kk .base m j) ∧
      (∀ hd, r = .ok (.handle hd) → hd.key = bk ++ k)) :
    osView bk kk .base (directOpen (baseFS bk kk) m c data).1 j = osView bk kk .base m j := by
  unfold directOpen
  cases hc : (baseFS bk kk).call m c with
  | mk m1 r =>
    obtain ⟨g1, f1, hkey⟩ := hlaw m1 r hc
    cases r with
    | error e => exact f1 j hjk
    | ok ret =>
      cases ret with
      | handle hd =>
        simp only
        unfold directWrite
        split
        · exact f1 j hjk
        · have hk := hkey hd rfl
          cases hw : (baseFS bk kk).hwrite m1 hd 0 data with
          | mk m2 r2 =>
            have hfr := (os_hwrite_frame (s := .base) (k := k) (h := hd) (off := 0) (d := data) hr g1 hk hw).2.2 j hjk
            cases r2 <;> exact hfr.trans (f1 j hjk)
      | unit => exact f1 j hjk
      | info i => exact f1 j hjk
      | str s => exact f1 j hjk

/-- the direct call leaves every key outside the named entries as it is -/
theorem direct_frame (hr : Roots bk kk) {w : World} (hg : OSGood bk kk w.fs) {op : Op}
    (hc : Op.Covered (osSimR hr) w op) {j : Key} (hj : op.Outside j) :
    osView bk kk .base (Op.direct (baseFS bk kk) w.fs op).1 j = osView bk kk .base w.fs j := by
  cases op with
  | creat p d =>
    obtain ⟨k, hk, hname⟩ := clean_abs hc
    have hjk := hj k hk hname
    apply directOpen_frame hr hg hjk d
    intro m' r h
    rw [(base_call_spelling w.fs hk hname).1] at h
    obtain ⟨a, _, b, c⟩ := os_create_frame (s := .base) hr hg hk h
    exact ⟨a, b, fun hd e => (c hd e).1⟩
  | write p f pm d =>
    obtain ⟨k, hk, hname⟩ := clean_abs hc
    have hjk := hj k hk hname
    apply directOpen_frame hr hg hjk d
    intro m' r h
    rw [(base_call_spelling w.fs hk hname).2.2.2.1 f pm] at h
    obtain ⟨a, _, b, c⟩ := os_openFile_frame (s := .base) hr hg hk h
    exact ⟨a, b, c⟩
  | mkdir p pm =>
    obtain ⟨k, hk, hname⟩ := clean_abs hc
    show osView bk kk .base (directUnit _ _ _).1 j = _
    rw [directUnit_fst, (base_call_spelling w.fs hk hname).2.1 pm]
    exact (os_mkdir_frame (s := .base) hr hg hk (Prod.ext rfl rfl)).2.2 j (hj k hk hname)
  | mkdirAll p pm =>
    obtain ⟨k, hk, hname⟩ := clean_abs hc
    show osView bk kk .base (directUnit _ _ _).1 j = _
    rw [directUnit_fst, (base_call_spelling w.fs hk hname).2.2.1 pm]
    exact (os_mkdirAll_frame (s := .base) hr hg hk (Prod.ext rfl rfl)).2.2.1 j (hj k hk hname)
  | remove p =>
    obtain ⟨k, hk, hname⟩ := clean_abs hc.1
    have hne : k ≠ [] := by
      intro e; subst e; exact hc.2 hname
    show osView bk kk .base (directUnit _ _ _).1 j = _
    rw [directUnit_fst, (base_call_spelling w.fs hk hname).2.2.2.2.1]
    exact (os_remove_frame (s := .base) hr hg hk hne (Prod.ext rfl rfl)).2.2 j (hj k hk hname)
  | removeAll p =>
    obtain ⟨k, hk, hname⟩ := clean_abs hc.1
    have hne : k ≠ [] := by
      intro e; subst e; exact hc.2 hname
    show osView bk kk .base (directUnit _ _ _).1 j = _
    rw [directUnit_fst, (base_call_spelling w.fs hk hname).2.2.2.2.2.1]
    exact (os_removeAll_frame (s := .base) hr hg hk hne (Prod.ext rfl rfl)).2.2 j (hj k hk hname)
  | rename o n =>
    obtain ⟨ko, hko, ho⟩ := clean_abs hc.1
    obtain ⟨kn, hkn, hn⟩ := clean_abs hc.2.1
    obtain ⟨h1, h2⟩ := hj ko kn hko hkn ho hn
    show osView bk kk .base (directUnit _ _ _).1 j = _
    rw [directUnit_fst, base_rename_spelling w.fs hko hkn ho hn]
    exact (os_rename_frame (s := .base) hr hg hko hkn (Prod.ext rfl rfl)).2.2 (hc.2.2 ko hko ho) j h1 h2
  | symlink o n => exact absurd hc id
  | chmod p md =>
    obtain ⟨k, hk, hname⟩ := clean_abs hc
    show osView bk kk .base (directUnit _ _ _).1 j = _
    rw [directUnit_fst, (base_call_spelling w.fs hk hname).2.2.2.2.2.2.1 md]
    exact (os_chmod_frame (s := .base) hr hg hk (Prod.ext rfl rfl)).2.2 j (hj k hk hname)
  | chown p u g =>
    obtain ⟨k, hk, hname⟩ := clean_abs hc
    show osView bk kk .base (directUnit _ _ _).1 j = _
    rw [directUnit_fst, (base_call_spelling w.fs hk hname).2.2.2.2.2.2.2.1 u g]
    exact (os_chown_frame (s := .base) hr hg hk (Prod.ext rfl rfl)).2.2 j (hj k hk hname)
  | lchown p u g =>
    obtain ⟨k, hk, hname⟩ := clean_abs hc
    show osView bk kk .base (directUnit _ _ _).1 j = _
    rw [directUnit_fst, (base_call_spelling w.fs hk hname).2.2.2.2.2.2.2.2.1 u g]
    exact (os_lchown_frame (s := .base) hr hg hk (Prod.ext rfl rfl)).2.2 j (hj k hk hname)
  | chtimes p t =>
    obtain ⟨k, hk, hname⟩ := clean_abs hc
    show osView bk kk .base (directUnit _ _ _).1 j = _
    rw [directUnit_fst, (base_call_spelling w.fs hk hname).2.2.2.2.2.2.2.2.2.1 t t]
    exact (os_chtimes_frame (s := .base) hr hg hk (Prod.ext rfl rfl)).2.2 j (hj k hk hname)
  | stat p =>
    show osView bk kk .base (directInfo _ _ _).1 j = _
    have : (directInfo (baseFS bk kk) w.fs (.stat p)).1 = ((baseFS bk kk).call w.fs (.stat p)).1 := by
      unfold directInfo
      cases (baseFS bk kk).call w.fs (.stat p) with
      | mk m' r => cases r with
        | error e => rfl
        | ok ret => cases ret <;> rfl
    have hp : ((baseFS bk kk).call w.fs (.stat p)).1 = w.fs := os_pure_stat (s := .base) hr (Prod.ext rfl rfl)
    rw [this, hp]
  | lstat p =>
    show osView bk kk .base (directInfo _ _ _).1 j = _
    have : (directInfo (baseFS bk kk) w.fs (.lstat p)).1 = ((baseFS bk kk).call w.fs (.lstat p)).1 := by
      unfold directInfo
      cases (baseFS bk kk).call w.fs (.lstat p) with
      | mk m' r => cases r with
        | error e => rfl
        | ok ret => cases ret <;> rfl
    have hp : ((baseFS bk kk).call w.fs (.lstat p)).1 = w.fs := os_pure_lstat (s := .base) hr (Prod.ext rfl rfl)
    rw [this, hp]
  | readlink p =>
    show osView bk kk .base (directStr _ _ _).1 j = _
    have : (directStr (baseFS bk kk) w.fs (.readlink p)).1 = ((baseFS bk kk).call w.fs (.readlink p)).1 := by
      unfold directStr
      cases (baseFS bk kk).call w.fs (.readlink p) with
      | mk m' r => cases r with
        | error e => rfl
        | ok ret => cases ret <;> rfl
    have hp : ((baseFS bk kk).call w.fs (.readlink p)).1 = w.fs := os_pure_readlink (s := .base) hr (Prod.ext rfl rfl)
    rw [this, hp]
  | force p => exact absurd hc id

/-! ### read-only operations change nothing, whatever the fault plan -/

/-- Stat, Lstat, Readlink, and OpenFile(O_RDONLY) with whatever is then attempted through the handle -/
def Op.ReadOnly : Op → Prop
  | .stat _ | .lstat _ | .readlink _ => True
  | .write _ flag _ _ => flag = O_RDONLY
  | _ => False

theorem sat_same_info {cfg : Cfg} {S : Sim cfg} {c : Call} {w : World}
    (hpure : ∀ m' r, (cfg.side .base).call w.fs c = (m', r) → m' = w.fs) :
    Sat (primInfo cfg .base c) w (fun w' _ => SameFS w w') := by
  unfold primInfo
  apply Sat.bind
  apply (sat_primCall_pure hpure).mono
  intro w1 r ⟨hs, _⟩
  cases r with
  | error e => exact hs
  | ok ret => cases ret <;> exact hs

theorem readonly_sameFS (hr : Roots bk kk) (w : World) {op : Op} (hro : op.ReadOnly) :
    SameFS w (Op.exec (osCfg bk kk) op w).1 := by
  have key : Sat (Op.exec (osCfg bk kk) op) w (fun w' _ => SameFS w w') := by
    cases op with
    | stat p =>
      unfold Op.exec BackupFS.stat
      apply Sat.bind
      apply (sat_same_info (S := osSimR hr) (fun m' r h => (osSimR hr).pure_stat (s := .base) h)).mono
      intro w1 r hs
      cases r with
      | error e => exact hs
      | ok i => exact Sat.pure hs
    | lstat p =>
      unfold Op.exec BackupFS.lstat
      apply Sat.bind
      apply (sat_same_info (S := osSimR hr) (fun m' r h => (osSimR hr).pure_lstat (s := .base) h)).mono
      intro w1 r hs
      cases r with
      | error e => exact hs
      | ok i => exact Sat.pure hs
    | readlink p =>
      unfold Op.exec BackupFS.readlink primStr
      apply Sat.bind
      apply Sat.bind
      apply (sat_primCall_pure (fun m' r h => (osSimR hr).pure_readlink (s := .base) h)).mono
      intro w1 r ⟨hs, _⟩
      cases r with
      | error e => exact hs
      | ok ret =>
        cases ret with
        | str s => apply Sat.pure; apply Sat.pure; exact hs
        | unit => exact hs
        | info i => exact hs
        | handle h => exact hs
    | write p flag perm d =>
      have hf : flag = O_RDONLY := hro
      subst hf
      unfold Op.exec BackupFS.openFile
      simp only [if_true]
      apply Sat.bind
      unfold primOpen
      apply Sat.bind
      apply (sat_primCall_pure (fun m' r h => (osSimR hr).pure_openRO (s := .base) h)).mono
      intro w1 r ⟨hs1, hr1⟩
      cases hc : ((osCfg bk kk).side .base).call w.fs (.openFile p O_RDONLY 0) with
      | mk m' r' =>
        rw [hc] at hr1
        simp only at hr1
        rcases hr1 with hr1 | ⟨_, hr1⟩
        · rw [hr1]
          cases r' with
          | error e => exact hs1
          | ok ret =>
            cases ret with
            | handle h =>
              apply Sat.pure
              simp only
              have hfl : h.flag = O_RDONLY := (osSimR hr).openFile_flag (s := .base) hc
              -- the write through a read-only handle is refused without touching the disk
              apply Sat.bind
              unfold writeClose
              apply Sat.bind
              apply Sat.attempt
              have h1 : Sat (BFS.whenM (!d.isEmpty) (hWrite (osCfg bk kk) { h := h, arg := (Call.openFile p O_RDONLY 0).primaryPath, side := .base } 0 d)) w1
                  (fun w' _ => SameFS w1 w') := by
                apply Sat.whenM
                · intro _; exact sat_hWrite_ro (osSimR hr) (by rw [hfl]; rfl)
                · intro _; exact SameFS.refl w1
              apply h1.mono
              intro w2 r2 hs2
              simp only
              cases r2 with
              | error e =>
                simp only
                apply Sat.bind
                apply Sat.attempt
                apply (sat_hClose (wh := { h := h, arg := (Call.openFile p O_RDONLY 0).primaryPath, side := .base }) (w := w2)).mono
                intro w3 _ ⟨hs3, _⟩
                apply Sat.pure
                apply Sat.pure
                exact (hs1.trans hs2).trans hs3
              | ok u =>
                simp only
                apply Sat.bind
                apply Sat.attempt
                apply (sat_hClose (wh := { h := h, arg := (Call.openFile p O_RDONLY 0).primaryPath, side := .base }) (w := w2)).mono
                intro w3 r3 ⟨hs3, _⟩
                simp only
                cases r3 <;> (apply Sat.pure; apply Sat.pure; exact (hs1.trans hs2).trans hs3)
            | unit => exact hs1
            | info i => exact hs1
            | str s => exact hs1
        · rw [hr1]; exact hs1
    | creat _ _ => exact absurd hro id
    | mkdir _ _ => exact absurd hro id
    | mkdirAll _ _ => exact absurd hro id
    | remove _ => exact absurd hro id
    | removeAll _ => exact absurd hro id
    | rename _ _ => exact absurd hro id
    | symlink _ _ => exact absurd hro id
    | chmod _ _ => exact absurd hro id
    | chown _ _ _ => exact absurd hro id
    | lchown _ _ _ => exact absurd hro id
    | chtimes _ _ => exact absurd hro id
    | force _ => exact absurd hro id
  exact key

end

end BFS
