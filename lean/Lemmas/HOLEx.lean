import Lemmas.HOL
import Lemmas.HOEx
/-!
  Lemmas/HOLEx.lean — Boolean check implying `WFL` (well-formed disk, symlinks allowed) for table disks.
-/
namespace BFS
namespace HO
open MFS D PX HLL

def wflEntry (tbl : List (Key × Node)) (e : Key × Node) : Bool :=
  decide (PKey e.1) && decide (e.2.meta.mode < 4096) && (decide (e.1 = []) || dirAt tbl e.1.dropLast)

theorem wfl_check {tbl : List (Key × Node)} {u : Nat} (hroot : dirAt tbl [] = true)
    (h : tbl.all (wflEntry tbl) = true) : WFL (ofList tbl u) := by
  have ent : ∀ k n, (ofList tbl u).get k = some n →
      PKey k ∧ n.meta.mode < 4096 ∧ (k = [] ∨ dirAt tbl k.dropLast = true) := by
    intro k n hk
    have := List.all_eq_true.mp h (k, n) (lookup_some_mem hk)
    unfold wflEntry at this
    simp only [Bool.and_eq_true, decide_eq_true_eq, Bool.or_eq_true] at this
    exact ⟨this.1.1, this.1.2, this.2⟩
  have dir_of : ∀ p, dirAt tbl p = true → ∃ mt, (ofList tbl u).get p = some (.dir mt) := by
    intro p hp
    unfold dirAt at hp
    split at hp
    · rename_i mt hm; exact ⟨mt, hm⟩
    · cases hp
  refine ⟨dir_of _ hroot, fun k n hk => (ent k n hk).1, ?_, fun k n hk => (ent k n hk).2.1, ?_⟩
  · intro k n hk
    exact domSup_ofList tbl u k (by rw [hk]; rfl)
  · intro k n hk hne
    rcases (ent k n hk).2.2 with e | e
    · exact absurd e hne
    · exact dir_of _ e

/-- `RouteOK` on a table disk, as a Boolean: no symlink at a proper prefix, none at the key when following -/
def routeB (tbl : List (Key × Node)) (K : Key) (f : Bool) : Bool :=
  (List.range K.length).all (fun i => match tbl.lookup (K.take i) with | some (.link _ _) => false | _ => true) &&
    (!f || match tbl.lookup K with | some (.link _ _) => false | _ => true)

theorem routeOK_check {tbl : List (Key × Node)} {u : Nat} {K : Key} {f : Bool} (h : routeB tbl K f = true) :
    RouteOK (ofList tbl u) K f := by
  unfold routeB at h
  simp only [Bool.and_eq_true, Bool.or_eq_true, Bool.not_eq_true'] at h
  obtain ⟨h1, h2⟩ := h
  refine ⟨?_, ?_⟩
  · intro p hp hne t mt hg
    have hlen : p.length < K.length := by
      rcases Nat.lt_or_ge p.length K.length with a | a
      · exact a
      · exact absurd (List.IsPrefix.eq_of_length_le hp a) hne
    have := List.all_eq_true.mp h1 p.length (List.mem_range.mpr hlen)
    rw [← List.prefix_iff_eq_take.mp hp] at this
    have hg' : tbl.lookup p = some (.link t mt) := hg
    rw [hg'] at this
    cases this
  · intro hf t mt hg
    rcases h2 with h2 | h2
    · rw [hf] at h2; cases h2
    · have hg' : tbl.lookup K = some (.link t mt) := hg
      rw [hg'] at h2
      cases h2

end HO
end BFS
