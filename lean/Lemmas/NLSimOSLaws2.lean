import Lemmas.NLSimOSLaws1
/-!
  Lemmas/NLSimOSLaws2.lean — the laws of `NL.Sim` for the nested layering over disks with symlinks as
  leaves: metadata calls (`Chmod`, `Chown`, `Lchown`, `Chtimes`), `Mkdir`, `Remove`, `MkdirAll`.
-/
namespace BFS.NL
open N HiddenFS

section
variable {bk hk dd : Key} {s : Side} {m m' : MFS} {k : Key}

theorem setMeta_isLink (n : Node) (x : Meta) : (n.setMeta x).isLink = n.isLink := by cases n <;> rfl

theorem chownNode_isLink (n : Node) (u g : Int) : (chownNode n u g).isLink = n.isLink := setMeta_isLink _ _

/-- the standard shape of a single-key frame law: refused when hidden, else the inner law -/
theorem frame_refl' (hg : NLGood bk hk dd m) :
    NLGood bk hk dd m ∧ nlview bk hk s.other m = nlview bk hk s.other m ∧
      (∀ j, j ≠ k → nlview bk hk s m j = nlview bk hk s m j) ∧
      LinkMono (nlview bk hk s m) (nlview bk hk s m) := frame_refl (s := s) hg (· = k)

/-- equal inner entries show as equal entries -/
theorem nl_congr {j : Key} (hv : ¬ NHid hk s j) (e : iv bk dd m' (off hk s ++ j) = iv bk dd m (off hk s ++ j)) :
    nlview bk hk s m' j = nlview bk hk s m j := by
  rw [nlview_eq (dd := dd) hv, nlview_eq (dd := dd) hv]
  exact congrArg (Option.map (rl hk s)) e

/-! ### metadata -/

theorem nl_chmod_frame {mode : Nat} {r : Except Err Ret} (h : NRoots bk hk dd) (hg : NLGood bk hk dd m) (hk' : PKey k)
    (hacc : AccF (nlview bk hk s m) k)
    (he : ((nestedCfg bk hk).side s).call m (.chmod (kp k) mode) = (m', r)) :
    NLGood bk hk dd m' ∧ nlview bk hk s.other m' = nlview bk hk s.other m ∧
      (∀ j, j ≠ k → nlview bk hk s m' j = nlview bk hk s m j) ∧
      LinkMono (nlview bk hk s m) (nlview bk hk s m') := by
  by_cases hh : NHid hk s k
  · obtain ⟨e, hr⟩ := refused_single h hk' hh (f := (Call.chmod · mode))
      (Or.inr (Or.inr (Or.inr (Or.inr (Or.inr (Or.inr (Or.inl ⟨mode, rfl⟩)))))))
    rw [hr m] at he; cases he
    exact frame_refl' hg
  · have hi := (fwd_chmod h hk' hh mode).inv he
    obtain ⟨g1, _, f, lm⟩ := L.os_chmod_frame h.r1 hg.os (pk_off h s hk') (nl_accF hg hh hacc) hi
    obtain ⟨a, b, c⟩ := transfer1 hg g1 hh
      (fun hs => by
        subst hs
        exact (L.os_chmod_frame h.r2 hg.os2 hk' (nl_accF2 hacc) ((fwd2_chmod h hk' mode).eq hi)).1.bdir) f
    exact ⟨a, b, c, nl_linkMono lm s⟩

theorem nl_chmod_some {mode : Nat} {n : Node} (h : NRoots bk hk dd) (hg : NLGood bk hk dd m) (hk' : PKey k)
    (hv : nlview bk hk s m k = some n) (hl : n.isLink = false) :
    ∃ m', ((nestedCfg bk hk).side s).call m (.chmod (kp k) mode) = (m', .ok .unit) ∧
      nlview bk hk s m' k = some (n.setMeta { n.meta with mode := mode &&& 0o7777 }) := by
  obtain ⟨hvis, hv'⟩ := nl_nonlink (dd := dd) hv hl
  obtain ⟨m1, hc, hp⟩ := L.os_chmod_some (mode := mode) h.r1 hg.os (pk_off h s hk') hv' hl
  exact ⟨m1, (fwd_chmod h hk' hvis mode).unit_of hc,
    nl_of_inner_nonlink hvis hp (by rw [setMeta_isLink]; exact hl)⟩

theorem nl_chown_frame {u g : Int} {r : Except Err Ret} (h : NRoots bk hk dd) (hg : NLGood bk hk dd m) (hk' : PKey k)
    (hacc : AccF (nlview bk hk s m) k)
    (he : ((nestedCfg bk hk).side s).call m (.chown (kp k) u g) = (m', r)) :
    NLGood bk hk dd m' ∧ nlview bk hk s.other m' = nlview bk hk s.other m ∧
      (∀ j, j ≠ k → nlview bk hk s m' j = nlview bk hk s m j) ∧
      LinkMono (nlview bk hk s m) (nlview bk hk s m') := by
  by_cases hh : NHid hk s k
  · obtain ⟨e, hr⟩ := refused_single h hk' hh (f := (Call.chown · u g))
      (Or.inr (Or.inr (Or.inr (Or.inr (Or.inr (Or.inr (Or.inr (Or.inl ⟨u, g, rfl⟩))))))))
    rw [hr m] at he; cases he
    exact frame_refl' hg
  · have hi := (fwd_chown h hk' hh u g).inv he
    obtain ⟨g1, _, f, lm⟩ := L.os_chown_frame h.r1 hg.os (pk_off h s hk') (nl_accF hg hh hacc) hi
    obtain ⟨a, b, c⟩ := transfer1 hg g1 hh
      (fun hs => by
        subst hs
        exact (L.os_chown_frame h.r2 hg.os2 hk' (nl_accF2 hacc) ((fwd2_chown h hk' u g).eq hi)).1.bdir) f
    exact ⟨a, b, c, nl_linkMono lm s⟩

theorem nl_chown_some {u g : Int} {n : Node} (h : NRoots bk hk dd) (hg : NLGood bk hk dd m) (hk' : PKey k)
    (hv : nlview bk hk s m k = some n) (hl : n.isLink = false) :
    ∃ m', ((nestedCfg bk hk).side s).call m (.chown (kp k) u g) = (m', .ok .unit) ∧
      nlview bk hk s m' k = some (chownNode n u g) := by
  obtain ⟨hvis, hv'⟩ := nl_nonlink (dd := dd) hv hl
  obtain ⟨m1, hc, hp⟩ := L.os_chown_some (u := u) (g := g) h.r1 hg.os (pk_off h s hk') hv' hl
  exact ⟨m1, (fwd_chown h hk' hvis u g).unit_of hc,
    nl_of_inner_nonlink hvis hp (by rw [chownNode_isLink]; exact hl)⟩

theorem nl_lchown_frame {u g : Int} {r : Except Err Ret} (h : NRoots bk hk dd) (hg : NLGood bk hk dd m) (hk' : PKey k)
    (hna : NoLinkAnc (nlview bk hk s m) k)
    (he : ((nestedCfg bk hk).side s).call m (.lchown (kp k) u g) = (m', r)) :
    NLGood bk hk dd m' ∧ nlview bk hk s.other m' = nlview bk hk s.other m ∧
      (∀ j, j ≠ k → nlview bk hk s m' j = nlview bk hk s m j) ∧
      LinkMono (nlview bk hk s m) (nlview bk hk s m') ∧
      (∀ t mt, nlview bk hk s m k = some (.link t mt) → ∃ mt', nlview bk hk s m' k = some (.link t mt')) := by
  by_cases hh : NHid hk s k
  · obtain ⟨e, hr⟩ := refused_single h hk' hh (f := (Call.lchown · u g))
      (Or.inr (Or.inr (Or.inr (Or.inr (Or.inr (Or.inr (Or.inr (Or.inr (Or.inl ⟨u, g, rfl⟩)))))))))
    rw [hr m] at he; cases he
    obtain ⟨a, b, c, d⟩ := frame_refl' (s := s) (k := k) hg
    exact ⟨a, b, c, d, fun t mt hv => ⟨mt, hv⟩⟩
  · have hi := (fwd_lchown h hk' hh u g).inv he
    obtain ⟨g1, _, f, lm, hlk⟩ := L.os_lchown_frame h.r1 hg.os (pk_off h s hk') (nl_noLinkAnc hg hh hna) hi
    obtain ⟨a, b, c⟩ := transfer1 hg g1 hh
      (fun hs => by
        subst hs
        exact (L.os_lchown_frame h.r2 hg.os2 hk' (nl_noLinkAnc2 hna) ((fwd2_lchown h hk' u g).eq hi)).1.bdir) f
    refine ⟨a, b, c, nl_linkMono lm s, ?_⟩
    intro t mt hv
    obtain ⟨_, t0, h0, ht⟩ := nl_link (dd := dd) hv
    obtain ⟨mt', h1⟩ := hlk t0 mt h0
    exact ⟨mt', by rw [nl_of_inner hh h1, rl_link', ht]⟩

theorem rl_chownNode_link (s : Side) (t0 : Path) (mt : Meta) (u g : Int) :
    rl hk s (chownNode (.link t0 mt) u g) = chownNode (.link (rlt hk s t0) mt) u g := by
  cases s <;> rfl

theorem nl_lchown_link {u g : Int} {t : Path} {mt : Meta} (h : NRoots bk hk dd) (hg : NLGood bk hk dd m)
    (hk' : PKey k) (hv : nlview bk hk s m k = some (.link t mt)) :
    ∃ m', ((nestedCfg bk hk).side s).call m (.lchown (kp k) u g) = (m', .ok .unit) ∧
      nlview bk hk s m' k = some (chownNode (.link t mt) u g) := by
  obtain ⟨hvis, t0, h0, ht⟩ := nl_link (dd := dd) hv
  obtain ⟨m1, hc, hp⟩ := L.os_lchown_link (u := u) (g := g) h.r1 hg.os (pk_off h s hk') h0
  exact ⟨m1, (fwd_lchown h hk' hvis u g).unit_of hc, by rw [nl_of_inner hvis hp, rl_chownNode_link, ht]⟩

theorem nl_chtimes_frame {a t : Time} {r : Except Err Ret} (h : NRoots bk hk dd) (hg : NLGood bk hk dd m) (hk' : PKey k)
    (hacc : AccF (nlview bk hk s m) k)
    (he : ((nestedCfg bk hk).side s).call m (.chtimes (kp k) a t) = (m', r)) :
    NLGood bk hk dd m' ∧ nlview bk hk s.other m' = nlview bk hk s.other m ∧
      (∀ j, j ≠ k → nlview bk hk s m' j = nlview bk hk s m j) ∧
      LinkMono (nlview bk hk s m) (nlview bk hk s m') := by
  by_cases hh : NHid hk s k
  · obtain ⟨e, hr⟩ := refused_single h hk' hh (f := (Call.chtimes · a t))
      (Or.inr (Or.inr (Or.inr (Or.inr (Or.inr (Or.inr (Or.inr (Or.inr (Or.inr ⟨a, t, rfl⟩)))))))))
    rw [hr m] at he; cases he
    exact frame_refl' hg
  · have hi := (fwd_chtimes h hk' hh a t).inv he
    obtain ⟨g1, _, f, lm⟩ := L.os_chtimes_frame h.r1 hg.os (pk_off h s hk') (nl_accF hg hh hacc) hi
    obtain ⟨a', b, c⟩ := transfer1 hg g1 hh
      (fun hs => by
        subst hs
        exact (L.os_chtimes_frame h.r2 hg.os2 hk' (nl_accF2 hacc) ((fwd2_chtimes h hk' a t).eq hi)).1.bdir) f
    exact ⟨a', b, c, nl_linkMono lm s⟩

theorem nl_chtimes_file {a t : Time} {c : String} {mt : Meta} (h : NRoots bk hk dd) (hg : NLGood bk hk dd m)
    (hk' : PKey k) (hv : nlview bk hk s m k = some (.file c mt)) :
    ∃ m', ((nestedCfg bk hk).side s).call m (.chtimes (kp k) a t) = (m', .ok .unit) ∧
      nlview bk hk s m' k = some (.file c { mt with mtime := t }) := by
  obtain ⟨hvis, hv'⟩ := nl_file (dd := dd) hv
  obtain ⟨m1, hc, hp⟩ := L.os_chtimes_file (a := a) (t := t) h.r1 hg.os (pk_off h s hk') hv'
  exact ⟨m1, (fwd_chtimes h hk' hvis a t).unit_of hc, nl_of_inner_nonlink hvis hp rfl⟩

theorem nl_chtimes_dir {a t : Time} (h : NRoots bk hk dd) (hg : NLGood bk hk dd m)
    (hk' : PKey k) (hv : (nlview bk hk s m).isDirAt k) :
    ∃ m', ((nestedCfg bk hk).side s).call m (.chtimes (kp k) a t) = (m', .ok .unit) ∧
      nlview bk hk s m' k = nlview bk hk s m k := by
  obtain ⟨hvis, hv'⟩ := nl_isDirAt (dd := dd) hv
  obtain ⟨m1, hc, hp⟩ := L.os_chtimes_dir (a := a) (t := t) h.r1 hg.os (pk_off h s hk') hv'
  exact ⟨m1, (fwd_chtimes h hk' hvis a t).unit_of hc, nl_congr hvis hp⟩

/-! ### `Mkdir`, `Remove` -/

theorem nl_mkdir_frame {perm : Nat} {r : Except Err Ret} (h : NRoots bk hk dd) (hg : NLGood bk hk dd m) (hk' : PKey k)
    (hna : NoLinkAnc (nlview bk hk s m) k)
    (he : ((nestedCfg bk hk).side s).call m (.mkdir (kp k) perm) = (m', r)) :
    NLGood bk hk dd m' ∧ nlview bk hk s.other m' = nlview bk hk s.other m ∧
      (∀ j, j ≠ k → nlview bk hk s m' j = nlview bk hk s m j) ∧
      LinkMono (nlview bk hk s m) (nlview bk hk s m') := by
  by_cases hh : NHid hk s k
  · obtain ⟨e, hr⟩ := refused_single h hk' hh (f := (Call.mkdir · perm)) (Or.inr (Or.inl ⟨perm, rfl⟩))
    rw [hr m] at he; cases he
    exact frame_refl' hg
  · have hi := (fwd_mkdir h hk' hh perm).inv he
    obtain ⟨g1, _, f, lm⟩ := L.os_mkdir_frame h.r1 hg.os (pk_off h s hk') (nl_noLinkAnc hg hh hna) hi
    obtain ⟨a, b, c⟩ := transfer1 hg g1 hh
      (fun hs => by
        subst hs
        exact (L.os_mkdir_frame h.r2 hg.os2 hk' (nl_noLinkAnc2 hna) ((fwd2_mkdir h hk' perm).eq hi)).1.bdir) f
    exact ⟨a, b, c, nl_linkMono lm s⟩

theorem nl_remove_frame {r : Except Err Ret} (h : NRoots bk hk dd) (hg : NLGood bk hk dd m) (hk' : PKey k)
    (hne : k ≠ []) (hna : NoLinkAnc (nlview bk hk s m) k)
    (he : ((nestedCfg bk hk).side s).call m (.remove (kp k)) = (m', r)) :
    NLGood bk hk dd m' ∧ nlview bk hk s.other m' = nlview bk hk s.other m ∧
      (∀ j, j ≠ k → nlview bk hk s m' j = nlview bk hk s m j) ∧
      LinkMono (nlview bk hk s m) (nlview bk hk s m') := by
  by_cases hh : NHid hk s k
  · obtain ⟨e, hr⟩ := refused_single h hk' hh (f := Call.remove)
      (Or.inr (Or.inr (Or.inr (Or.inr (Or.inr (Or.inl rfl))))))
    rw [hr m] at he; cases he
    exact frame_refl' hg
  · have hi := (fwd_remove h hk' hh).inv he
    obtain ⟨g1, _, f, lm⟩ := L.os_remove_frame h.r1 hg.os (pk_off h s hk') (off_ne hne) (nl_noLinkAnc hg hh hna) hi
    obtain ⟨a, b, c⟩ := transfer1 hg g1 hh
      (fun hs => by
        subst hs
        exact (L.os_remove_frame h.r2 hg.os2 hk' hne (nl_noLinkAnc2 hna) ((fwd2_remove h hk').eq hi)).1.bdir) f
    exact ⟨a, b, c, nl_linkMono lm s⟩

theorem nl_hasChild (hv : ¬ NHid hk s k) (hp : ¬ NPar hk s k)
    (hc : (iv bk dd m).hasChild (off hk s ++ k)) : (nlview bk hk s m).hasChild k := by
  obtain ⟨n, hn⟩ := hc
  refine ⟨n, ?_⟩
  rw [nlview_eq (dd := dd) (child_vis hv hp n), ← List.append_assoc]
  cases hi : iv bk dd m (off hk s ++ k ++ [n]) with
  | none => exact absurd hi hn
  | some n0 => simp

theorem nl_remove_ok (h : NRoots bk hk dd) (hg : NLGood bk hk dd m) (hk' : PKey k) (hne : k ≠ [])
    (hp : ¬ NPar hk s k)
    (hv : (nlview bk hk s m).isFileAt k ∨ isLinkAt (nlview bk hk s m) k ∨
      ((nlview bk hk s m).isDirAt k ∧ ¬ (nlview bk hk s m).hasChild k)) :
    ∃ m', ((nestedCfg bk hk).side s).call m (.remove (kp k)) = (m', .ok .unit) ∧ nlview bk hk s m' k = none := by
  have hvis : ¬ NHid hk s k := by
    rcases hv with hv | hv | ⟨hv, _⟩
    · exact (nl_isFileAt (dd := dd) hv).1
    · exact (nl_isLinkAt (dd := dd) hv).1
    · exact (nl_isDirAt (dd := dd) hv).1
  have hv' : (iv bk dd m).isFileAt (off hk s ++ k) ∨ L.isLinkAt (iv bk dd m) (off hk s ++ k) ∨
      ((iv bk dd m).isDirAt (off hk s ++ k) ∧ ¬ (iv bk dd m).hasChild (off hk s ++ k)) := by
    rcases hv with hv | hv | ⟨hv, hc⟩
    · exact Or.inl (nl_isFileAt (dd := dd) hv).2
    · exact Or.inr (Or.inl (nl_isLinkAt (dd := dd) hv).2)
    · exact Or.inr (Or.inr ⟨(nl_isDirAt (dd := dd) hv).2, fun hc' => hc (nl_hasChild hvis hp hc')⟩)
  obtain ⟨m1, hc, hgone⟩ := L.os_remove_ok h.r1 hg.os (pk_off h s hk') (off_ne hne) hv'
  exact ⟨m1, (fwd_remove h hk' hvis).unit_of hc, nl_of_inner_none hvis hgone⟩

/-! ### `MkdirAll` -/

theorem nl_mkdirAll_frame {perm : Nat} {r : Except Err Ret} (h : NRoots bk hk dd) (hg : NLGood bk hk dd m)
    (hk' : PKey k) (hacc : AccF (nlview bk hk s m) k)
    (he : ((nestedCfg bk hk).side s).call m (.mkdirAll (kp k) perm) = (m', r)) :
    NLGood bk hk dd m' ∧ nlview bk hk s.other m' = nlview bk hk s.other m ∧
      (∀ j, ¬ j <+: k → nlview bk hk s m' j = nlview bk hk s m j) ∧
      (∀ j, nlview bk hk s m' j = nlview bk hk s m j ∨
        (nlview bk hk s m j = none ∧ (nlview bk hk s m').isDirAt j)) ∧
      (r = .ok .unit → (nlview bk hk s m').isDirAt k) := by
  by_cases hh : NHid hk s k
  · obtain ⟨e, hr⟩ := refused_single h hk' hh (f := (Call.mkdirAll · perm)) (Or.inr (Or.inr (Or.inl ⟨perm, rfl⟩)))
    rw [hr m] at he; cases he
    exact ⟨hg, rfl, fun _ _ => rfl, fun _ => Or.inl rfl, fun e => by cases e⟩
  · have hf := fwd_mkdirAll h hk' hh perm
    have hi := hf.inv he
    have hK := pk_off h s hk'
    obtain ⟨g1, _, f3, f4, f5⟩ := L.os_mkdirAll_frame h.r1 hg.os hK (nl_accF hg hh hacc) hi
    have f : ∀ j, ¬ (j <+: off hk s ++ k ∧ iv bk dd m j = none) → iv bk dd m' j = iv bk dd m j := by
      intro j hj
      by_cases hp : j <+: off hk s ++ k
      · rcases f4 j with e | ⟨hn, _⟩
        · exact e
        · exact absurd ⟨hp, hn⟩ hj
      · exact f3 j hp
    obtain ⟨a, b, c⟩ := transfer (s := s) hg g1 (KI := fun j => j <+: off hk s ++ k ∧ iv bk dd m j = none)
      (by
        intro j ⟨hj, hnone⟩
        cases s with
        | base => exact vis_of_prefix hh hj
        | backup =>
          show hk <+: j
          rcases List.prefix_or_prefix_of_prefix hj (List.prefix_append hk k) with h1 | h1
          · exfalso
            obtain ⟨mt, hd⟩ := inner_dir_of_prefix_loc hg h1
            rw [hd] at hnone
            cases hnone
          · exact h1)
      (fun hs => by
        subst hs
        exact (L.os_mkdirAll_frame h.r2 hg.os2 hk' (nl_accF2 hacc) ((fwd2_mkdirAll h hk' perm).eq hi)).1.bdir) f
    refine ⟨a, b, ?_, ?_, ?_⟩
    · intro j hj
      exact c j (fun hK' => hj (off_prefix.mp hK'.1))
    · intro j
      by_cases hhj : NHid hk s j
      · left; rw [n_hid_none hhj, n_hid_none hhj]
      · rcases f4 (off hk s ++ j) with e | ⟨hn, hd⟩
        · left
          exact nl_congr hhj e
        · right
          exact ⟨nl_of_inner_none hhj hn, nl_isDirAt_of hhj hd⟩
    · intro hr
      subst hr
      exact nl_isDirAt_of hh (f5 (by rw [hf.unit_inv he]))

theorem nl_mkdirAll_ok {perm : Nat} (h : NRoots bk hk dd) (hg : NLGood bk hk dd m) (hk' : PKey k)
    (hvis : ¬ NHid hk s k) (hp : k = [] ∨ (nlview bk hk s m).parentDir k)
    (hv : nlview bk hk s m k = none ∨ (nlview bk hk s m).isDirAt k) :
    ∃ m', ((nestedCfg bk hk).side s).call m (.mkdirAll (kp k) perm) = (m', .ok .unit) ∧
      (∀ j, j ≠ k → nlview bk hk s m' j = nlview bk hk s m j) ∧
      ((nlview bk hk s m).isDirAt k → nlview bk hk s m' k = nlview bk hk s m k) := by
  have hp' : off hk s ++ k = [] ∨ (iv bk dd m).parentDir (off hk s ++ k) := by
    rcases hp with rfl | hp
    · cases s with
      | base => exact Or.inl rfl
      | backup =>
        right
        refine ⟨by simp [off, h.nh], ?_⟩
        show (iv bk dd m).isDirAt (hk ++ []).dropLast
        rw [List.append_nil]
        exact inner_dir_of_prefix_loc hg (List.dropLast_prefix hk)
    · exact Or.inr (nl_parentDir hvis hp)
  have hv' : iv bk dd m (off hk s ++ k) = none ∨ (iv bk dd m).isDirAt (off hk s ++ k) := by
    rcases hv with hv | hv
    · exact Or.inl (nl_none_vis (dd := dd) hvis hv)
    · exact Or.inr (nl_isDirAt (dd := dd) hv).2
  obtain ⟨m1, hc, f, hd⟩ := L.os_mkdirAll_ok (perm := perm) h.r1 hg.os (pk_off h s hk') hp' hv'
  refine ⟨m1, (fwd_mkdirAll h hk' hvis perm).unit_of hc, ?_, ?_⟩
  · intro j hj
    by_cases hhj : NHid hk s j
    · rw [n_hid_none hhj, n_hid_none hhj]
    · exact nl_congr hhj (f _ (fun e => hj (List.append_cancel_left e)))
  · intro hdir
    exact nl_congr hvis (hd (nl_isDirAt (dd := dd) hdir).2)

end
end BFS.NL
