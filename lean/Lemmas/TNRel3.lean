import Lemmas.TNRel2
import Lemmas.TRel4
import Lemmas.NSimOS
/-!
  Lemmas/TNRel3.lean — non-interference lifted to the base filesystem of the nested layering
  (`HiddenFS [loc]` over `PrefixFS (kp bk)` over the OS model; `Lemmas/TRel4.lean` for `nestedCfg`):
  for every mutating call on a *visible* key `k` (`¬ hk <+: k`; for `Rename` the old name must not be
  an ancestor of the location either), two well-formed disks that agree at the visible keys
  (`NTwin`) give the same result and again well-formed disks that agree at the visible keys.
-/
namespace BFS.N
open MFS

section
variable {bk hk dd : Key}

/-- the base filesystem the user of the nested layering sees: `HiddenFS [kp hk]` over
`PrefixFS (kp bk)` over the OS model -/
abbrev nbase (bk hk : Key) : FSI MFS := (nestedCfg bk hk).side .base

/-- two well-formed disks of the nested layering that agree at every visible key -/
structure NTwin (bk hk dd : Key) (m1 m2 : MFS) : Prop where
  g1 : NGood bk hk dd m1
  g2 : NGood bk hk dd m2
  eq : VEq bk hk m1 m2

theorem NTwin.v {m1 m2 : MFS} (h : NTwin bk hk dd m1 m2) : VTwin bk hk dd m1 m2 := ⟨h.g1.os, h.g2.os, h.eq⟩

theorem NTwin.refl {m : MFS} (hg : NGood bk hk dd m) : NTwin bk hk dd m m := ⟨hg, hg, VEq.refl bk hk m⟩

theorem NGood.loc_ne {m : MFS} (hg : NGood bk hk dd m) : m.get (bk ++ hk) ≠ none := by
  obtain ⟨mt, h⟩ := hg.loc
  rw [h]; simp

/-- the call gives the same result on the two disks and leaves them related again -/
def NCallRel (bk hk dd : Key) (m1 m2 : MFS) (c : Call) : Prop :=
  ((nbase bk hk).call m1 c).2 = ((nbase bk hk).call m2 c).2 ∧
    NTwin bk hk dd ((nbase bk hk).call m1 c).1 ((nbase bk hk).call m2 c).1

/-- the same for the inner `PrefixFS`, without well-formedness of the results -/
def InnerRel (bk hk dd : Key) (m1 m2 : MFS) (ci : Call) : Prop :=
  ((inner bk dd).call m1 ci).2 = ((inner bk dd).call m2 ci).2 ∧
    VEq bk hk ((inner bk dd).call m1 ci).1 ((inner bk dd).call m2 ci).1

theorem ncallRel_of_fwd {c ci : Call} {m1 m2 : MFS} (hf : Fwd bk hk dd .base c ci)
    (ht : NTwin bk hk dd m1 m2) (hrel : InnerRel bk hk dd m1 m2 ci)
    (hg : ∀ m, NGood bk hk dd m → NGood bk hk dd ((nbase bk hk).call m c).1) :
    NCallRel bk hk dd m1 m2 c := by
  obtain ⟨post, _, hc⟩ := hf
  refine ⟨?_, hg m1 ht.g1, hg m2 ht.g2, ?_⟩
  · show (((nestedCfg bk hk).side .base).call m1 c).2 = (((nestedCfg bk hk).side .base).call m2 c).2
    rw [hc m1, hc m2]
    show Except.map post _ = Except.map post _
    rw [hrel.1]
  · show VEq bk hk (((nestedCfg bk hk).side .base).call m1 c).1 (((nestedCfg bk hk).side .base).call m2 c).1
    rw [hc m1, hc m2]
    exact hrel.2

/-! ### the inner `PrefixFS`, call by call -/

theorem inner_mkdir_relV {m1 m2 : MFS} (h : NRoots bk hk dd) (ht : VTwin bk hk dd m1 m2) {k : Key} (hk' : PKey k)
    (hv : ¬ hk <+: k) (perm : Nat) : InnerRel bk hk dd m1 m2 (.mkdir (kp k) perm) := by
  have e1 := side_call_unit h.r1 .base m1 (tr_mkdir h.pb hk' perm) (x := m1.mkdir (kp (bk ++ k)) perm) rfl
  have e2 := side_call_unit h.r1 .base m2 (tr_mkdir h.pb hk' perm) (x := m2.mkdir (kp (bk ++ k)) perm) rfl
  obtain ⟨a, b⟩ := mkdir_relV ht h.pb hk' hv (TextOf.kp _) perm
  unfold InnerRel inner
  rw [e1, e2]
  exact ⟨map_congr _ a, b⟩

theorem inner_remove_relV {m1 m2 : MFS} (h : NRoots bk hk dd) (ht : NTwin bk hk dd m1 m2) {k : Key} (hk' : PKey k)
    (hv : ¬ hk <+: k) : InnerRel bk hk dd m1 m2 (.remove (kp k)) := by
  have e1 := side_call_unit h.r1 .base m1 (tr_remove h.pb hk') (x := m1.remove (kp (bk ++ k))) rfl
  have e2 := side_call_unit h.r1 .base m2 (tr_remove h.pb hk') (x := m2.remove (kp (bk ++ k))) rfl
  obtain ⟨a, b⟩ := remove_relV ht.v ht.g1.loc_ne ht.g2.loc_ne h.pb hk' hv (TextOf.kp _)
  unfold InnerRel inner
  rw [e1, e2]
  exact ⟨map_congr _ a, b⟩

theorem inner_rename_relV {m1 m2 : MFS} (h : NRoots bk hk dd) (ht : VTwin bk hk dd m1 m2) {ko kn : Key} (hko : PKey ko)
    (hkn : PKey kn) (hpo : Clear hk ko) (hvn : ¬ hk <+: kn) :
    InnerRel bk hk dd m1 m2 (.rename (kp ko) (kp kn)) := by
  have e1 := side_call_unit h.r1 .base m1 (tr_rename h.pb hko hkn) (x := m1.rename (kp (bk ++ ko)) (kp (bk ++ kn))) rfl
  have e2 := side_call_unit h.r1 .base m2 (tr_rename h.pb hko hkn) (x := m2.rename (kp (bk ++ ko)) (kp (bk ++ kn))) rfl
  obtain ⟨a, b⟩ := rename_relV ht h.pb hko hkn hpo hvn (TextOf.kp _) (TextOf.kp _)
  unfold InnerRel inner
  rw [e1, e2]
  exact ⟨map_congr _ a, b⟩

theorem inner_mkdirAll_relV {m1 m2 : MFS} (h : NRoots bk hk dd) (ht : VTwin bk hk dd m1 m2) {k : Key} (hk' : PKey k)
    (hv : ¬ hk <+: k) (perm : Nat) : InnerRel bk hk dd m1 m2 (.mkdirAll (kp k) perm) := by
  have e1 := side_mkdirAll (m := m1) .base h.r1 hk' perm
  have e2 := side_mkdirAll (m := m2) .base h.r1 hk' perm
  have hlen : k.length < (kp (bk ++ k)).length + 2 := by
    have := kp_length (h.pb.append hk')
    simp only [List.length_append] at this
    omega
  obtain ⟨a, b⟩ := mkdirAll_relV h.r1 perm _ k _ m1 m2 ht hk' hv (TextOf.kp _) hlen
  unfold InnerRel inner
  rw [e1, e2]
  exact ⟨map_congr _ a, b⟩

/-- calls that are a `metaOp` -/
theorem inner_meta_relV {m1 m2 : MFS} (h : NRoots bk hk dd) (ht : VTwin bk hk dd m1 m2) {k : Key} (hk' : PKey k)
    (hv : ¬ hk <+: k) {c c' : Call} {follow : Bool} {f : Node → Node} (hec : EraseCongr f)
    (htr : PrefixFS.translate (kp bk) c = .ok c')
    (hos : ∀ m, osCall m c' = liftU (metaOp m (kp (bk ++ k)) follow f)) :
    InnerRel bk hk dd m1 m2 c := by
  have e1 := side_call_unit h.r1 .base m1 htr (hos m1)
  have e2 := side_call_unit h.r1 .base m2 htr (hos m2)
  obtain ⟨a, b⟩ := metaOp_relV ht h.pb hk' hv (TextOf.kp _) follow hec
  unfold InnerRel inner
  rw [e1, e2]
  exact ⟨map_congr _ a, b⟩

theorem inner_chmod_relV {m1 m2 : MFS} (h : NRoots bk hk dd) (ht : VTwin bk hk dd m1 m2) {k : Key} (hk' : PKey k)
    (hv : ¬ hk <+: k) (mode : Nat) : InnerRel bk hk dd m1 m2 (.chmod (kp k) mode) :=
  inner_meta_relV h ht hk' hv (ec_chmod mode) (tr_chmod h.pb hk' mode)
    (fun m => by show liftU (m.chmod _ _) = _; rw [mfs_chmod_eq])

theorem inner_chown_relV {m1 m2 : MFS} (h : NRoots bk hk dd) (ht : VTwin bk hk dd m1 m2) {k : Key} (hk' : PKey k)
    (hv : ¬ hk <+: k) (u g : Int) : InnerRel bk hk dd m1 m2 (.chown (kp k) u g) :=
  inner_meta_relV h ht hk' hv (ec_chown u g) (tr_chown h.pb hk' u g)
    (fun m => by show liftU (m.chown _ _ _) = _; rw [mfs_chown_eq])

theorem inner_lchown_relV {m1 m2 : MFS} (h : NRoots bk hk dd) (ht : VTwin bk hk dd m1 m2) {k : Key} (hk' : PKey k)
    (hv : ¬ hk <+: k) (u g : Int) : InnerRel bk hk dd m1 m2 (.lchown (kp k) u g) :=
  inner_meta_relV h ht hk' hv (ec_chown u g) (tr_lchown h.pb hk' u g)
    (fun m => by show liftU (m.lchown _ _ _) = _; rw [mfs_lchown_eq])

theorem inner_chtimes_relV {m1 m2 : MFS} (h : NRoots bk hk dd) (ht : VTwin bk hk dd m1 m2) {k : Key} (hk' : PKey k)
    (hv : ¬ hk <+: k) (a t : Time) : InnerRel bk hk dd m1 m2 (.chtimes (kp k) a t) :=
  inner_meta_relV h ht hk' hv (ec_chtimes t) (tr_chtimes h.pb hk' a t)
    (fun m => by show liftU (m.chtimes _ _) = _; rw [mfs_chtimes_eq])

theorem inner_openFile_relV {m1 m2 : MFS} (h : NRoots bk hk dd) (ht : VTwin bk hk dd m1 m2) {k : Key} (hk' : PKey k)
    (hv : ¬ hk <+: k) (flag perm : Nat) : InnerRel bk hk dd m1 m2 (.openFile (kp k) flag perm) := by
  have e1 := side_openFile (m := m1) .base h.r1 hk' flag perm
  have e2 := side_openFile (m := m2) .base h.r1 hk' flag perm
  obtain ⟨a, b⟩ := openFile_relV ht h.pb hk' hv (TextOf.kp _) flag perm
  unfold InnerRel inner
  rw [e1, e2]
  exact ⟨map_congr _ a, b⟩

theorem inner_create_relV {m1 m2 : MFS} (h : NRoots bk hk dd) (ht : VTwin bk hk dd m1 m2) {k : Key} (hk' : PKey k)
    (hv : ¬ hk <+: k) : InnerRel bk hk dd m1 m2 (.create (kp k)) := by
  have e1 := side_create (m := m1) .base h.r1 hk'
  have e2 := side_create (m := m2) .base h.r1 hk'
  obtain ⟨a, b⟩ := openFile_relV ht h.pb hk' hv (TextOf.kp _) wflags 0o666
  unfold InnerRel inner
  rw [e1, e2]
  exact ⟨map_congr _ a, b⟩

/-! ### the nested base, call by call -/

variable (h : NRoots bk hk dd) {m1 m2 : MFS} {k : Key}
include h

theorem nbase_mkdir_rel (ht : NTwin bk hk dd m1 m2) (hk' : PKey k) (hv : ¬ hk <+: k) (perm : Nat) :
    NCallRel bk hk dd m1 m2 (.mkdir (kp k) perm) :=
  ncallRel_of_fwd (fwd_mkdir h hk' (s := .base) hv perm) ht (inner_mkdir_relV h ht.v hk' hv perm)
    (fun _ hg => ((nSim bk hk dd h).mkdir_frame (s := .base) hg hk' (Prod.ext rfl rfl)).1)

theorem nbase_mkdirAll_rel (ht : NTwin bk hk dd m1 m2) (hk' : PKey k) (hv : ¬ hk <+: k) (perm : Nat) :
    NCallRel bk hk dd m1 m2 (.mkdirAll (kp k) perm) :=
  ncallRel_of_fwd (fwd_mkdirAll h hk' (s := .base) hv perm) ht (inner_mkdirAll_relV h ht.v hk' hv perm)
    (fun _ hg => ((nSim bk hk dd h).mkdirAll_frame (s := .base) hg hk' (Prod.ext rfl rfl)).1)

theorem nbase_remove_rel (ht : NTwin bk hk dd m1 m2) (hk' : PKey k) (hne : k ≠ []) (hv : ¬ hk <+: k) :
    NCallRel bk hk dd m1 m2 (.remove (kp k)) :=
  ncallRel_of_fwd (fwd_remove h hk' (s := .base) hv) ht (inner_remove_relV h ht hk' hv)
    (fun _ hg => ((nSim bk hk dd h).remove_frame (s := .base) hg hk' hne (Prod.ext rfl rfl)).1)

theorem nbase_chmod_rel (ht : NTwin bk hk dd m1 m2) (hk' : PKey k) (hv : ¬ hk <+: k) (mode : Nat) :
    NCallRel bk hk dd m1 m2 (.chmod (kp k) mode) :=
  ncallRel_of_fwd (fwd_chmod h hk' (s := .base) hv mode) ht (inner_chmod_relV h ht.v hk' hv mode)
    (fun _ hg => ((nSim bk hk dd h).chmod_frame (s := .base) hg hk' (Prod.ext rfl rfl)).1)

theorem nbase_chown_rel (ht : NTwin bk hk dd m1 m2) (hk' : PKey k) (hv : ¬ hk <+: k) (u g : Int) :
    NCallRel bk hk dd m1 m2 (.chown (kp k) u g) :=
  ncallRel_of_fwd (fwd_chown h hk' (s := .base) hv u g) ht (inner_chown_relV h ht.v hk' hv u g)
    (fun _ hg => ((nSim bk hk dd h).chown_frame (s := .base) hg hk' (Prod.ext rfl rfl)).1)

theorem nbase_lchown_rel (ht : NTwin bk hk dd m1 m2) (hk' : PKey k) (hv : ¬ hk <+: k) (u g : Int) :
    NCallRel bk hk dd m1 m2 (.lchown (kp k) u g) :=
  ncallRel_of_fwd (fwd_lchown h hk' (s := .base) hv u g) ht (inner_lchown_relV h ht.v hk' hv u g)
    (fun _ hg => ((nSim bk hk dd h).lchown_frame (s := .base) hg hk' (Prod.ext rfl rfl)).1)

theorem nbase_chtimes_rel (ht : NTwin bk hk dd m1 m2) (hk' : PKey k) (hv : ¬ hk <+: k) (a t : Time) :
    NCallRel bk hk dd m1 m2 (.chtimes (kp k) a t) :=
  ncallRel_of_fwd (fwd_chtimes h hk' (s := .base) hv a t) ht (inner_chtimes_relV h ht.v hk' hv a t)
    (fun _ hg => ((nSim bk hk dd h).chtimes_frame (s := .base) hg hk' (Prod.ext rfl rfl)).1)

theorem nbase_openFile_rel (ht : NTwin bk hk dd m1 m2) (hk' : PKey k) (hv : ¬ hk <+: k) (flag perm : Nat) :
    NCallRel bk hk dd m1 m2 (.openFile (kp k) flag perm) :=
  ncallRel_of_fwd (fwd_openFile h hk' (s := .base) hv flag perm) ht (inner_openFile_relV h ht.v hk' hv flag perm)
    (fun _ hg => ((nSim bk hk dd h).openFile_frame (s := .base) hg hk' (Prod.ext rfl rfl)).1)

theorem nbase_create_rel (ht : NTwin bk hk dd m1 m2) (hk' : PKey k) (hv : ¬ hk <+: k) :
    NCallRel bk hk dd m1 m2 (.create (kp k)) :=
  ncallRel_of_fwd (fwd_create h hk' (s := .base) hv) ht (inner_create_relV h ht.v hk' hv)
    (fun _ hg => ((nSim bk hk dd h).create_frame (s := .base) hg hk' (Prod.ext rfl rfl)).1)

theorem nbase_rename_rel (ht : NTwin bk hk dd m1 m2) {ko kn : Key} (hko : PKey ko) (hkn : PKey kn)
    (hpo : Clear hk ko) (hpn : Clear hk kn) : NCallRel bk hk dd m1 m2 (.rename (kp ko) (kp kn)) :=
  ncallRel_of_fwd (fwd_rename h (s := .base) hko hkn hpo.1 (fun e => hpo.2 e.1) hpn.1 (fun e => hpn.2 e.1)) ht
    (inner_rename_relV h ht.v hko hkn hpo hpn.1)
    (fun _ hg => ((nSim bk hk dd h).rename_frame (s := .base) hg hko hkn (Prod.ext rfl rfl)).1)

/-- a write through a handle on a visible key -/
theorem nbase_hwrite_rel (ht : NTwin bk hk dd m1 m2) {hd : Handle}
    (hkey : hd.key = bk ++ k) (hv : ¬ hk <+: k) (off : Nat) (d : String) :
    ((nbase bk hk).hwrite m1 hd off d).2 = ((nbase bk hk).hwrite m2 hd off d).2 ∧
      NTwin bk hk dd ((nbase bk hk).hwrite m1 hd off d).1 ((nbase bk hk).hwrite m2 hd off d).1 := by
  have hH : NH bk hk .base hd k := ⟨hkey, hv⟩
  have hw : (nbase bk hk).hwrite = MFS.hwrite := side_hwrite' .base
  have g1 : NGood bk hk dd ((nbase bk hk).hwrite m1 hd off d).1 :=
    ((nSim bk hk dd h).hwrite_frame (s := .base) (h := hd) (off := off) (d := d) ht.g1 hH (Prod.ext rfl rfl)).1
  have g2 : NGood bk hk dd ((nbase bk hk).hwrite m2 hd off d).1 :=
    ((nSim bk hk dd h).hwrite_frame (s := .base) (h := hd) (off := off) (d := d) ht.g2 hH (Prod.ext rfl rfl)).1
  rw [hw] at g1 g2 ⊢
  obtain ⟨a, b⟩ := hwrite_relV ht.eq hkey hv off d
  exact ⟨a, g1, g2, b⟩

end

end BFS.N
