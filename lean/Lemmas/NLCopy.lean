import Lemmas.NLChg
/-!
  Lemmas/NLCopy.lean (copy of Lemmas/LCopy.lean over `NL.Sim`) — what `chown`, `copyDir`, `writeFile`, `copyFile` and `copySymlink`
  (fs_utils.go) do to the views of an `Sim`, on either side, under any fault plan: they change at
  most the target key, a successful return means the copy is exact, and without faults they succeed.
  (`OnlyFault`, `restoredDir`, `restoredFile`, `CanWrite`, … are reused from Lemmas/Copy.lean.)
-/
namespace BFS
namespace NL
open BackupFS

variable {cfg : Cfg} {S : Sim cfg}

/-- a mutating primitive whose law promises success: exact effect on success, and the only
possible failure is an injected fault -/
theorem sat_primUnit_exact {s : Side} {c : Call} {K : Key → Prop} {w : World} {P : MFS → Prop}
    (hg : S.G w.fs)
    (hlaw : ∀ m' r, (cfg.side s).call w.fs c = (m', r) →
      S.G m' ∧ S.view s.other m' = S.view s.other w.fs ∧ (∀ j, ¬ K j → S.view s m' j = S.view s w.fs j) ∧
        LinkMono (S.view s w.fs) (S.view s m'))
    (hok : ∃ m', (cfg.side s).call w.fs c = (m', .ok .unit) ∧ P m') :
    Sat (primUnit cfg s c) w (fun w' r => S.Chg s K w w' ∧ (r = .ok () → P w'.fs) ∧
      (∀ e, r = .error e → e = .io ∧ w.faults ≠ [])) := by
  unfold primUnit
  apply Sat.bind
  apply Sat.primCall
  · intro hf w1 h1
    refine ⟨Sim.Chg.of_same hg h1, ?_, ?_⟩
    · intro h; cases h
    · intro e h; cases h; exact ⟨rfl, hf⟩
  · intro w1 h1
    obtain ⟨m', hc, hp⟩ := hok
    obtain ⟨g, o, f, l⟩ := hlaw _ _ hc
    rw [hc]
    apply Sat.pure
    refine ⟨⟨⟨g, o, f, h1.infos, h1.faults⟩, l⟩, fun _ => hp, ?_⟩
    intro e h; cases h

/-- the same without the "no new symlink" clause (for `Symlink`) -/
theorem sat_primUnit_exactL {s : Side} {c : Call} {K : Key → Prop} {w : World} {P : MFS → Prop}
    (hg : S.G w.fs)
    (hlaw : ∀ m' r, (cfg.side s).call w.fs c = (m', r) →
      S.G m' ∧ S.view s.other m' = S.view s.other w.fs ∧ (∀ j, ¬ K j → S.view s m' j = S.view s w.fs j))
    (hok : ∃ m', (cfg.side s).call w.fs c = (m', .ok .unit) ∧ P m') :
    Sat (primUnit cfg s c) w (fun w' r => S.ChgL s K w w' ∧ (r = .ok () → P w'.fs) ∧
      (∀ e, r = .error e → e = .io ∧ w.faults ≠ [])) := by
  unfold primUnit
  apply Sat.bind
  apply Sat.primCall
  · intro hf w1 h1
    refine ⟨Sim.ChgL.of_same hg h1, ?_, ?_⟩
    · intro h; cases h
    · intro e h; cases h; exact ⟨rfl, hf⟩
  · intro w1 h1
    obtain ⟨m', hc, hp⟩ := hok
    obtain ⟨g, o, f⟩ := hlaw _ _ hc
    rw [hc]
    apply Sat.pure
    refine ⟨⟨g, o, f, h1.infos, h1.faults⟩, fun _ => hp, ?_⟩
    intro e h; cases h

/-! ### chown(from, toName, fs) -/

theorem sat_chownTo {s : Side} {k : Key} {i : Info} {n : Node} {w : World}
    (hg : S.G w.fs) (hk : PKey k) (hv : S.view s w.fs k = some n) (hl : n.isLink = false) :
    Sat (chownTo cfg s i (kp k)) w (fun w' r => S.Chg s (· = k) w w' ∧ OnlyFault w r ∧
      (r = .ok () → ∃ md, (md = n.meta.mode ∨ md = MFS.chownMode n) ∧
        S.view s w'.fs k = some (chownToNode n i md))) := by
  have hacc : AccF (S.view s w.fs) k := S.accF_present hg hv hl
  unfold chownTo
  apply Sat.bind
  apply (sat_lstat hg hk hacc.1).mono
  intro w1 r ⟨hs, hr⟩
  have hg1 : S.G w1.fs := hs.fs ▸ hg
  have hv1 : S.view s w1.fs k = some n := by rw [hs.fs]; exact hv
  have hacc1 : AccF (S.view s w1.fs) k := by rw [hs.fs]; exact hacc
  rcases hr with ⟨n', old, hn', rfl, hfor⟩ | ⟨hnone, _⟩ | ⟨rfl, hf⟩
  · rw [hv] at hn'; cases hn'
    simp only
    apply Sat.whenM
    · intro _
      have := sat_primUnit_exact (S := S) (s := s) (c := .chown (kp k) i.uid i.gid) (K := (· = k))
        (P := fun m' => S.view s m' k = some (chownNode n i.uid i.gid)) hg1
        (fun m' r h => by
          obtain ⟨g, o, f, l⟩ := S.chown_frame hg1 hk hacc1 h
          exact ⟨g, o, fun j hj => f j hj, l⟩)
        (S.chown_some hg1 hk hv1 hl)
      apply this.mono
      intro w2 r2 ⟨hc, hp, hof⟩
      refine ⟨Sim.Chg.same_left hs hc, ?_, ?_⟩
      · intro e h; obtain ⟨h1, h2⟩ := hof e h; exact ⟨h1, by rw [← hs.faults]; exact h2⟩
      · intro h
        refine ⟨MFS.chownMode n, Or.inr rfl, ?_⟩
        rw [hp h, chownNode_nat n _ _ hl]
        rfl
    · intro hc
      refine ⟨Sim.Chg.of_same hg hs, OnlyFault.ok, fun _ => ⟨n.meta.mode, Or.inl rfl, ?_⟩⟩
      rw [hv1]
      have : old.uid = i.uid ∧ old.gid = i.gid := by simpa using hc
      unfold chownToNode
      rw [← this.1, ← this.2, hfor.2.2.1, hfor.2.2.2.1]
      exact congrArg some (setMeta_self n).symm
  · rw [hv] at hnone; cases hnone
  · refine ⟨Sim.Chg.of_same hg hs, ?_, ?_⟩
    · intro e h; cases h; exact ⟨rfl, hf⟩
    · intro h; cases h

theorem sat_chownTo_weak {s : Side} {k : Key} {i : Info} {w : World} (hg : S.G w.fs) (hk : PKey k)
    (hacc : AccF (S.view s w.fs) k) :
    Sat (chownTo cfg s i (kp k)) w (fun w' _ => S.Chg s (· = k) w w') := by
  unfold chownTo
  apply Sat.bind
  apply (sat_lstat hg hk hacc.1).mono
  intro w1 r ⟨hs, _⟩
  have hg1 : S.G w1.fs := hs.fs ▸ hg
  have hacc1 : AccF (S.view s w1.fs) k := by rw [hs.fs]; exact hacc
  cases r with
  | error e => exact Sim.Chg.of_same hg hs
  | ok old =>
    simp only
    apply Sat.whenM
    · intro _
      apply (sat_primUnit_chg (S := S) (K := (· = k)) hg1 (fun m' r h => by
        obtain ⟨g, o, f, l⟩ := S.chown_frame hg1 hk hacc1 h
        exact ⟨g, o, fun j hj => f j hj, l⟩)).mono
      intro w2 _ hc
      exact Sim.Chg.same_left hs hc
    · intro _
      exact Sim.Chg.of_same hg hs

/-! ### copyDir -/

/-- a step on side `s` working on key `d` that keeps every regular file and every symlink elsewhere
as it is and creates no symlink -/
structure Sim.Soft (S : Sim cfg) (s : Side) (d : Key) (w w' : World) : Prop where
  good : S.G w'.fs
  other : S.view s.other w'.fs = S.view s.other w.fs
  keep : ∀ j, j ≠ d → (S.view s w.fs).isFileAt j ∨ isLinkAt (S.view s w.fs) j → S.view s w'.fs j = S.view s w.fs j
  links : LinkMono (S.view s w.fs) (S.view s w'.fs)
  infos : w'.infos = w.infos
  faults : w'.faults = w.faults

theorem Sim.Chg.soft {s : Side} {d : Key} {w w' : World} (h : S.Chg s (· = d) w w') : S.Soft s d w w' :=
  ⟨h.good, h.other, fun j hj _ => h.frame j hj, h.links, h.infos, h.faults⟩

theorem Sim.Soft.trans {s : Side} {d : Key} {a b c : World} (h1 : S.Soft s d a b) (h2 : S.Soft s d b c) :
    S.Soft s d a c := by
  refine ⟨h2.good, h2.other.trans h1.other, ?_, h1.links.trans h2.links, h2.infos.trans h1.infos, h2.faults.trans h1.faults⟩
  intro j hj hf
  have e1 := h1.keep j hj hf
  have hf' : (S.view s b.fs).isFileAt j ∨ isLinkAt (S.view s b.fs) j := by
    rcases hf with ⟨c', mt, h⟩ | ⟨t, mt, h⟩
    · exact Or.inl ⟨c', mt, by rw [e1, h]⟩
    · exact Or.inr ⟨t, mt, by rw [e1, h]⟩
  rw [h2.keep j hj hf', e1]

theorem Sim.Soft.accF {s : Side} {d k : Key} {w w' : World} (h : S.Soft s d w w')
    (ha : AccF (S.view s w.fs) k) : AccF (S.view s w'.fs) k := h.links.accF ha

theorem sat_copyDir_weak {s : Side} {d : Key} {i : Info} {w : World} (hg : S.G w.fs) (hd : PKey d)
    (hacc' : i.isDir = true → AccF (S.view s w.fs) d) :
    Sat (copyDir cfg s (kp d) i) w (fun w' _ => S.Soft s d w w') := by
  unfold copyDir
  apply Sat.wrapped
  have hrefl : S.Soft s d w w := (Sim.Chg.refl (K := (· = d)) hg).soft
  apply Sat.ite
  · intro _; exact hrefl
  · intro hisd
    have hacc : AccF (S.view s w.fs) d := hacc' (by simpa using hisd)
    apply Sat.ite
    · intro _; exact hrefl
    · intro _
      apply Sat.bind
      -- MkdirAll
      have hmk : Sat (primUnit cfg s (.mkdirAll (kp d) (i.perm &&& 0o777))) w (fun w' _ => S.Soft s d w w') := by
        unfold primUnit
        apply Sat.bind
        apply Sat.primCall
        · intro _ w1 h1
          exact (Sim.Chg.of_same (K := (· = d)) hg h1).soft
        · intro w1 h1
          obtain ⟨g, o, _, fl, _⟩ := S.mkdirAll_frame hg hd hacc (m' := ((cfg.side s).call w.fs (.mkdirAll (kp d) (i.perm &&& 0o777))).1)
            (r := ((cfg.side s).call w.fs (.mkdirAll (kp d) (i.perm &&& 0o777))).2) rfl
          have hsoft : S.Soft s d w { w1 with fs := ((cfg.side s).call w.fs (.mkdirAll (kp d) (i.perm &&& 0o777))).1 } := by
            refine ⟨g, o, ?_, ?_, h1.infos, h1.faults⟩
            · intro j _ hf
              rcases fl j with e | ⟨hn, _⟩
              · exact e
              · exfalso
                rcases hf with ⟨c', mt, h⟩ | ⟨t, mt, h⟩ <;> rw [hn] at h <;> cases h
            · intro j t mt' hl
              rcases fl j with e | ⟨_, mt, hdir⟩
              · exact ⟨mt', by rw [← e]; exact hl⟩
              · simp only at hl hdir
                rw [hdir] at hl; cases hl
          cases ((cfg.side s).call w.fs (.mkdirAll (kp d) (i.perm &&& 0o777))).2 with
          | ok a => exact Sat.pure hsoft
          | error e => exact hsoft
      apply hmk.mono
      intro w1 r h1
      cases r with
      | error e => exact h1
      | ok u =>
        simp only
        have hg1 := h1.good
        have hacc1 := h1.accF hacc
        apply Sat.bind
        apply (sat_lstat hg1 hd hacc1.1).mono
        intro w2 r2 ⟨hs2, _⟩
        have h2 : S.Soft s d w w2 := h1.trans (Sim.Chg.of_same (K := (· = d)) hg1 hs2).soft
        have hg2 := h2.good
        have hacc2 := h2.accF hacc
        cases r2 with
        | error e => exact h2
        | ok cur =>
          simp only
          apply Sat.bind
          have hchmod : Sat (BFS.whenM (cur.perm ≠ i.perm) (primUnit cfg s (.chmod (kp d) i.perm))) w2
              (fun w' _ => S.Chg s (· = d) w2 w') := by
            apply Sat.whenM
            · intro _
              exact sat_primUnit_chg hg2 (fun m' r h => by
                obtain ⟨g, o, f, l⟩ := S.chmod_frame hg2 hd hacc2 h
                exact ⟨g, o, fun j hj => f j hj, l⟩)
            · intro _; exact Sim.Chg.refl hg2
          apply hchmod.mono
          intro w3 r3 hc3
          have h3 : S.Soft s d w w3 := h2.trans hc3.soft
          have hg3 := h3.good
          have hacc3 := h3.accF hacc
          cases r3 with
          | error e => exact h3
          | ok u3 =>
            simp only
            apply Sat.bind
            have hcht : Sat (BFS.whenM (!timeEq cur.mtime i.mtime)
                (ignorePerm (primUnit cfg s (.chtimes (kp d) i.mtime i.mtime)))) w3
                (fun w' _ => S.Chg s (· = d) w3 w') := by
              apply Sat.whenM
              · intro _
                apply Sat.ignorePerm
                apply (sat_primUnit_chg (S := S) (K := (· = d)) hg3 (fun m' r h => by
                  obtain ⟨g, o, f, l⟩ := S.chtimes_frame hg3 hd hacc3 h
                  exact ⟨g, o, fun j hj => f j hj, l⟩)).mono
                intro w4 r4 hc4
                cases r4 with
                | ok u4 => exact hc4
                | error e => simp only; split <;> exact hc4
              · intro _; exact Sim.Chg.refl hg3
            apply hcht.mono
            intro w4 r4 hc4
            have h4 : S.Soft s d w w4 := h3.trans hc4.soft
            have hg4 := h4.good
            have hacc4 := h4.accF hacc
            cases r4 with
            | error e => exact h4
            | ok u4 =>
              simp only
              apply Sat.ignorePerm
              apply (sat_chownTo_weak (S := S) (i := i) hg4 hd hacc4).mono
              intro w5 r5 hc5
              have h5 : S.Soft s d w w5 := h4.trans hc5.soft
              cases r5 with
              | ok u5 => exact h5
              | error e => simp only; split <;> exact h5

theorem sat_copyDir_strong {s : Side} {d : Key} {i : Info} {w : World} (hg : S.G w.fs) (hd : PKey d)
    (hne : d ≠ []) (hdir : i.isDir = true) (hperm : i.perm < 4096) (hvis : ¬ S.Hid s d)
    (hpar : (S.view s w.fs).parentDir d)
    (hcur : S.view s w.fs d = none ∨ (S.view s w.fs).isDirAt d) :
    Sat (copyDir cfg s (kp d) i) w (fun w' r => S.Chg s (· = d) w w' ∧ OnlyFault w r ∧
      (r = .ok () → S.view s w'.fs d = some (restoredDir i))) := by
  have hacc : AccF (S.view s w.fs) d := by
    refine ⟨S.noLinkAnc_parentDir hg hpar, ?_⟩
    rcases hcur with h | h
    · exact isLinkAt_not_none h
    · exact isLinkAt_not_dir h
  unfold copyDir
  apply Sat.wrapped
  have hroot : ¬ kp d = rootP := fun h => hne ((kp_eq_root_iff hd).mp h)
  simp only [hdir, Bool.not_true, Bool.false_eq_true, if_false, hroot]
  apply Sat.bind
  have hmk := sat_primUnit_exact (S := S) (s := s) (c := .mkdirAll (kp d) (i.perm &&& 0o777)) (K := (· = d))
    (P := fun m' => (S.view s m').isDirAt d) hg
    (fun m'' r heq => by
      obtain ⟨m', hc, hfr, _⟩ := S.mkdirAll_ok (perm := i.perm &&& 0o777) hg hd hvis (Or.inr hpar) hcur
      obtain ⟨g, o, _, fl, _⟩ := S.mkdirAll_frame hg hd hacc heq
      rw [hc] at heq
      cases heq
      refine ⟨g, o, fun j hj => hfr j hj, ?_⟩
      intro j t mt' hl
      rcases fl j with e | ⟨_, mt, hdir'⟩
      · exact ⟨mt', by rw [← e]; exact hl⟩
      · rw [hdir'] at hl; cases hl)
    (by
      obtain ⟨m', hc, _, _⟩ := S.mkdirAll_ok (perm := i.perm &&& 0o777) hg hd hvis (Or.inr hpar) hcur
      obtain ⟨_, _, _, _, hdirAt⟩ := S.mkdirAll_frame hg hd hacc hc
      exact ⟨m', hc, hdirAt rfl⟩)
  apply hmk.mono
  intro w1 r1 ⟨hc1, hp1, hof1⟩
  cases r1 with
  | error e =>
    obtain ⟨he, hf⟩ := hof1 e rfl
    subst he
    refine ⟨hc1, ?_, ?_⟩
    · intro e' h; cases h; exact ⟨rfl, hf⟩
    · intro h; cases h
  | ok u1 =>
    simp only
    have hg1 := hc1.good
    obtain ⟨mt1, hv1⟩ := hp1 rfl
    have hfresh : mt1.mtime = .fresh := S.erased hg1 hv1
    have hacc1 : AccF (S.view s w1.fs) d := S.accF_present hg1 hv1 rfl
    apply Sat.bind
    apply (sat_lstat hg1 hd hacc1.1).mono
    intro w2 r2 ⟨hs2, hr2⟩
    have hc2 : S.Chg s (· = d) w w2 := hc1.same_right hs2
    have hg2 := hc2.good
    have hv2 : S.view s w2.fs d = some (.dir mt1) := by rw [hs2.fs]; exact hv1
    have hf2 : w2.faults = w.faults := hc2.faults
    have hacc2 : AccF (S.view s w2.fs) d := S.accF_present hg2 hv2 rfl
    rcases hr2 with ⟨n', cur, hn', rfl, hfor⟩ | ⟨hnone, _⟩ | ⟨rfl, hf⟩
    · rw [hv1] at hn'; cases hn'
      simp only
      have hcp : cur.perm = mt1.mode := hfor.2.1
      apply Sat.bind
      -- Chmod
      have hchmod : Sat (BFS.whenM (cur.perm ≠ i.perm) (primUnit cfg s (.chmod (kp d) i.perm))) w2
          (fun w' r => S.Chg s (· = d) w2 w' ∧ OnlyFault w2 r ∧
            (r = .ok () → S.view s w'.fs d = some (.dir { mt1 with mode := i.perm }))) := by
        apply Sat.whenM
        · intro _
          apply (sat_primUnit_exact (S := S) (s := s) (c := .chmod (kp d) i.perm) (K := (· = d))
            (P := fun m' => S.view s m' d = some ((Node.dir mt1).setMeta { (Node.dir mt1).meta with mode := i.perm &&& 0o7777 })) hg2
            (fun m' r h => by
              obtain ⟨g, o, f, l⟩ := S.chmod_frame hg2 hd hacc2 h
              exact ⟨g, o, fun j hj => f j hj, l⟩)
            (S.chmod_some hg2 hd hv2 rfl)).mono
          intro w3 r3 ⟨hc3, hp3, hof3⟩
          refine ⟨hc3, hof3, fun h => ?_⟩
          rw [hp3 h, and_7777 hperm]
          rfl
        · intro hcond
          refine ⟨Sim.Chg.refl hg2, OnlyFault.ok, fun _ => ?_⟩
          have : cur.perm = i.perm := by simpa using hcond
          rw [hv2, ← this, hcp]
      apply hchmod.mono
      intro w3 r3 ⟨hc3, hof3, hp3⟩
      have hc3' : S.Chg s (· = d) w w3 := hc2.trans hc3
      have hg3 := hc3.good
      have hf3 : w3.faults = w.faults := hc3'.faults
      cases r3 with
      | error e =>
        obtain ⟨he, hf⟩ := hof3 e rfl
        subst he
        refine ⟨hc3', ?_, ?_⟩
        · intro e' h; cases h; exact ⟨rfl, by rw [← hf2]; exact hf⟩
        · intro h; cases h
      | ok u3 =>
        simp only
        have hv3 := hp3 rfl
        have hacc3 : AccF (S.view s w3.fs) d := S.accF_present hg3 hv3 rfl
        apply Sat.bind
        -- Chtimes
        have hcht : Sat (BFS.whenM (!timeEq cur.mtime i.mtime)
            (ignorePerm (primUnit cfg s (.chtimes (kp d) i.mtime i.mtime)))) w3
            (fun w' r => S.Chg s (· = d) w3 w' ∧ OnlyFault w3 r ∧
              (r = .ok () → S.view s w'.fs d = some (.dir { mt1 with mode := i.perm }))) := by
          apply Sat.whenM
          · intro _
            apply Sat.ignorePerm
            apply (sat_primUnit_exact (S := S) (s := s) (c := .chtimes (kp d) i.mtime i.mtime) (K := (· = d))
              (P := fun m' => S.view s m' d = S.view s w3.fs d) hg3
              (fun m' r h => by
                obtain ⟨g, o, f, l⟩ := S.chtimes_frame hg3 hd hacc3 h
                exact ⟨g, o, fun j hj => f j hj, l⟩)
              (S.chtimes_dir hg3 hd ⟨_, hv3⟩)).mono
            intro w4 r4 ⟨hc4, hp4, hof4⟩
            cases r4 with
            | ok u4 => exact ⟨hc4, OnlyFault.ok, fun _ => by rw [hp4 rfl, hv3]⟩
            | error e =>
              obtain ⟨he, hf⟩ := hof4 e rfl
              subst he
              simp only [Err.isPermission, Bool.false_eq_true, if_false]
              refine ⟨hc4, ?_, ?_⟩
              · intro e' h; cases h; exact ⟨rfl, hf⟩
              · intro h; cases h
          · intro _
            exact ⟨Sim.Chg.refl hg3, OnlyFault.ok, fun _ => hv3⟩
        apply hcht.mono
        intro w4 r4 ⟨hc4, hof4, hp4⟩
        have hc4' : S.Chg s (· = d) w w4 := hc3'.trans hc4
        have hg4 := hc4.good
        have hf4 : w4.faults = w.faults := hc4'.faults
        cases r4 with
        | error e =>
          obtain ⟨he, hf⟩ := hof4 e rfl
          subst he
          refine ⟨hc4', ?_, ?_⟩
          · intro e' h; cases h; exact ⟨rfl, by rw [← hf3]; exact hf⟩
          · intro h; cases h
        | ok u4 =>
          simp only
          have hv4 := hp4 rfl
          apply Sat.ignorePerm
          apply (sat_chownTo (S := S) (i := i) hg4 hd hv4 rfl).mono
          intro w5 r5 ⟨hc5, hof5, hp5⟩
          have hc5' : S.Chg s (· = d) w w5 := hc4'.trans hc5
          cases r5 with
          | ok u5 =>
            refine ⟨hc5', OnlyFault.ok, fun _ => ?_⟩
            obtain ⟨md, hmd, hv5⟩ := hp5 rfl
            rw [hv5]
            have hmd' : md = i.perm := by
              rcases hmd with h | h
              · exact h
              · rw [h]; simp [MFS.chownMode, Node.isDir, Node.meta]
            subst hmd'
            simp [chownToNode, restoredDir, Node.setMeta, Node.meta, hfresh]
          | error e =>
            obtain ⟨he, hf⟩ := hof5 e rfl
            subst he
            simp only [Err.isPermission, Bool.false_eq_true, if_false]
            refine ⟨hc5', ?_, ?_⟩
            · intro e' h; cases h; exact ⟨rfl, by rw [← hf4]; exact hf⟩
            · intro h; cases h
    · rw [hv1] at hnone; cases hnone
    · refine ⟨hc2, ?_, ?_⟩
      · intro e' h; cases h; exact ⟨rfl, by rw [← hc1.faults]; exact hf⟩
      · intro h; cases h

/-! ### writeFile / copyFile -/

theorem sat_hWrite_file {dst : WHandle} {k : Key} {off : Nat} {d cur : String} {mt : Meta} {w : World}
    (hg : S.G w.fs) (hH : S.H dst.side dst.h k) (hacc : MFS.accessMode dst.h.flag ≠ 0)
    (hv : S.view dst.side w.fs k = some (.file cur mt)) :
    Sat (hWrite cfg dst off d) w (fun w' r => S.Chg dst.side (· = k) w w' ∧ OnlyFault w r ∧
      (r = .ok () → ∃ t, S.view dst.side w'.fs k =
        some (.file (if d.isEmpty then cur else MFS.applyWrite dst.h.flag cur off d) { mt with mtime := t }))) := by
  unfold hWrite
  apply Sat.bind
  apply Sat.primH
  · intro hf w1 h1
    refine ⟨Sim.Chg.of_same hg h1, ?_, ?_⟩
    · intro e h; cases h; exact ⟨rfl, hf⟩
    · intro h; cases h
  · intro w1 h1
    have hg1 : S.G w1.fs := h1.fs ▸ hg
    have hv1 : S.view dst.side w1.fs k = some (.file cur mt) := by rw [h1.fs]; exact hv
    obtain ⟨m', t, heq, hv'⟩ := S.hwrite_file (off := off) (d := d) hg1 hH hacc hv1
    obtain ⟨g, o, f, l⟩ := S.hwrite_frame hg1 hH heq
    unfold Sat
    simp only [heq]
    refine ⟨⟨⟨g, by rw [o, h1.fs], fun j hj => by rw [f j hj, h1.fs], h1.infos, h1.faults⟩, ?_⟩, OnlyFault.ok, fun _ => ⟨t, hv'⟩⟩
    rw [h1.fs] at l; exact l

theorem sat_hWrite_frame {dst : WHandle} {k : Key} {off : Nat} {d : String} {w : World}
    (hg : S.G w.fs) (hH : S.H dst.side dst.h k) :
    Sat (hWrite cfg dst off d) w (fun w' _ => S.Chg dst.side (· = k) w w') := by
  unfold hWrite
  apply Sat.bind
  apply Sat.primH
  · intro hf w1 h1
    exact Sim.Chg.of_same hg h1
  · intro w1 h1
    have hg1 : S.G w1.fs := h1.fs ▸ hg
    unfold Sat
    cases heq : (cfg.side dst.side).hwrite w1.fs dst.h off d with
    | mk m' r =>
      obtain ⟨g, o, f, l⟩ := S.hwrite_frame hg1 hH heq
      simp only [heq]
      refine ⟨⟨g, by rw [o, h1.fs], fun j hj => by rw [f j hj, h1.fs], h1.infos, h1.faults⟩, ?_⟩
      rw [h1.fs] at l; exact l

theorem sat_copyChunks {dst src : WHandle} {k : Key} (hH : S.H dst.side dst.h k) (hflag : dst.h.flag = wflags) :
    ∀ (cs : List String) (cur : String) (mt : Meta) (w : World), S.G w.fs →
      S.view dst.side w.fs k = some (.file cur mt) →
      Sat (copyChunks cfg dst src cur.length cs) w (fun w' r => S.Chg dst.side (· = k) w w' ∧ OnlyFault w r ∧
        (r = .ok () → ∃ mt', S.view dst.side w'.fs k = some (.file (cs.foldl (· ++ ·) cur) mt')))
  | [], cur, mt, w, hg, hv => by
    unfold copyChunks
    apply (sat_hRead (src := src) (w := w)).mono
    intro w1 r ⟨hs, hof⟩
    exact ⟨Sim.Chg.of_same hg hs, hof, fun _ => ⟨mt, by rw [hs.fs]; exact hv⟩⟩
  | c :: cs, cur, mt, w, hg, hv => by
    unfold copyChunks
    apply Sat.bind
    apply (sat_hRead (src := src) (w := w)).mono
    intro w1 r1 ⟨hs1, hof1⟩
    cases r1 with
    | error e =>
      refine ⟨Sim.Chg.of_same hg hs1, hof1, ?_⟩
      intro h; cases h
    | ok u1 =>
      simp only
      have hg1 : S.G w1.fs := hs1.fs ▸ hg
      have hv1 : S.view dst.side w1.fs k = some (.file cur mt) := by rw [hs1.fs]; exact hv
      have hacc : MFS.accessMode dst.h.flag ≠ 0 := by rw [hflag]; decide
      apply Sat.bind
      apply (sat_hWrite_file (off := cur.length) (d := c) hg1 hH hacc hv1).mono
      intro w2 r2 ⟨hc2, hof2, hp2⟩
      have hc2' : S.Chg dst.side (· = k) w w2 := Sim.Chg.same_left hs1 hc2
      cases r2 with
      | error e =>
        refine ⟨hc2', OnlyFault.same hs1.faults hof2 (fun _ h => h), ?_⟩
        intro h; cases h
      | ok u2 =>
        simp only
        obtain ⟨t, hv2⟩ := hp2 rfl
        have hcont : (if c.isEmpty then cur else MFS.applyWrite dst.h.flag cur cur.length c) = cur ++ c := by
          split
          · rename_i he
            have : c = "" := by simpa using he
            subst this; simp
          · rw [hflag]; exact applyWrite_append cur c
        rw [hcont] at hv2
        have hlen : cur.length + c.length = (cur ++ c).length := by simp
        rw [hlen]
        apply (sat_copyChunks hH hflag cs (cur ++ c) _ w2 hc2.good hv2).mono
        intro w3 r3 ⟨hc3, hof3, hp3⟩
        refine ⟨hc2'.trans hc3, OnlyFault.same hc2'.faults hof3 (fun _ h => h), ?_⟩
        intro h
        simpa using hp3 h

/-- `writeFile` can open its target: a regular file, or absent with a directory as parent and not hidden -/
def CanWrite (S : Sim cfg) (s : Side) (v : View) (k : Key) : Prop :=
  v.isFileAt k ∨ (v k = none ∧ v.parentDir k ∧ ¬ S.Hid s k)

theorem sat_writeFile {s : Side} {k ks : Key} {perm : Nat} {src : WHandle} {data : String} {mt0 : Meta} {w : World}
    (hg : S.G w.fs) (hk : PKey k) (hacc : AccF (S.view s w.fs) k)
    (hsrc : src.side = s.other) (hHs : S.H s.other src.h ks)
    (hsacc : MFS.accessMode src.h.flag ≠ 1) (hsv : S.view s.other w.fs ks = some (.file data mt0)) :
    Sat (writeFile cfg s (kp k) perm src) w (fun w' r => S.Chg s (· = k) w w' ∧
      (r = .ok () → ∃ mt', S.view s w'.fs k = some (.file data mt')) ∧
      (CanWrite S s (S.view s w.fs) k → OnlyFault w r)) := by
  unfold writeFile
  apply Sat.bind
  -- OpenFile
  unfold primOpen
  apply Sat.bind
  apply Sat.primCall
  · intro hf w1 h1
    refine ⟨Sim.Chg.of_same hg h1, ?_, ?_⟩
    · intro h; cases h
    · intro _ e h; cases h; exact ⟨rfl, hf⟩
  · intro w1 h1
    have hfl : (O_RDWR ||| O_CREATE ||| O_TRUNC) = wflags := rfl
    rw [hfl]
    cases heq : (cfg.side s).call w.fs (.openFile (kp k) wflags (perm &&& 0o777)) with
    | mk m' r =>
      obtain ⟨g, o, f, l, hh⟩ := S.openFile_frame hg hk hacc heq
      have hchg : S.Chg s (· = k) w { w1 with fs := m' } := ⟨⟨g, o, fun j hj => f j hj, h1.infos, h1.faults⟩, l⟩
      have hcanw : CanWrite S s (S.view s w.fs) k → ∃ h, r = .ok (.handle h) := by
        intro hcw
        rcases hcw with ⟨c, mt, hf⟩ | ⟨hn, hp, hvis⟩
        · obtain ⟨m'', h, heq', _⟩ := S.openW_file (perm := perm &&& 0o777) hg hk hf
          rw [heq] at heq'; cases heq'; exact ⟨h, rfl⟩
        · obtain ⟨m'', h, mt, heq', _⟩ := S.openW_none (perm := perm &&& 0o777) hg hk hvis hn hp
          rw [heq] at heq'; cases heq'; exact ⟨h, rfl⟩
      simp only
      cases r with
      | error e =>
        refine ⟨hchg, ?_, ?_⟩
        · intro h; cases h
        · intro hcw
          obtain ⟨h, hh'⟩ := hcanw hcw
          cases hh'
      | ok ret =>
        cases ret with
        | handle h =>
          simp only
          apply Sat.pure
          simp only
          have hH : S.H s h k := hh h rfl
          have hflag : h.flag = wflags := S.openFile_flag heq
          obtain ⟨mt1, hv1⟩ := S.openW_post hg hk hacc heq
          -- peek
          apply Sat.bind
          unfold peek
          apply Sat.bind
          apply Sat.getW
          simp only
          have hsv1 : S.view s.other m' ks = some (.file data mt0) := by rw [o]; exact hsv
          have hread : (cfg.side src.side).hread m' src.h = .ok data := by
            rw [hsrc]; exact S.hread_file g hHs hsacc hsv1
          simp only [hread]
          apply Sat.pure
          simp only
          -- the copy loop
          apply Sat.bind
          apply Sat.attempt
          let dst : WHandle := { h := h, arg := (Call.openFile (kp k) wflags (perm &&& 0o777)).primaryPath, side := s }
          have hloop := sat_copyChunks (cfg := cfg) (S := S) (dst := dst) (src := src) (k := k) hH hflag
            (chunks (data.length + 1) data.toList) "" mt1 { w1 with fs := m' } g hv1
          apply hloop.mono
          intro w2 r2 ⟨hc2, hof2, hp2⟩
          simp only
          apply Sat.bind
          apply Sat.attempt
          apply (sat_hClose (wh := dst) (w := w2)).mono
          intro w3 r3 ⟨hs3, hof3⟩
          simp only
          have hc3 : S.Chg s (· = k) w w3 := (hchg.trans hc2).same_right hs3
          have hf2 : w2.faults = w.faults := (hchg.trans hc2).faults
          cases r2 with
          | error e =>
            refine ⟨hc3, ?_, ?_⟩
            · intro h; cases h
            · intro _ e' h; cases h
              obtain ⟨h1', h2'⟩ := hof2 e rfl
              exact ⟨h1', by rw [← hchg.faults]; exact h2'⟩
          | ok u2 =>
            cases r3 with
            | error e =>
              refine ⟨hc3, ?_, ?_⟩
              · intro h; cases h
              · intro _ e' h; cases h
                obtain ⟨h1', h2'⟩ := hof3 e rfl
                exact ⟨h1', by rw [← hf2]; exact h2'⟩
            | ok u3 =>
              cases u2
              cases u3
              refine ⟨hc3, ?_, fun _ => OnlyFault.ok⟩
              intro _
              obtain ⟨mt', hv2⟩ := hp2 rfl
              refine ⟨mt', ?_⟩
              show S.view s w3.fs k = some (Node.file data mt')
              rw [hs3.fs, hv2, chunks_foldl _ _ _ (by rw [String.length_toList]; omega)]
              simp
        | _ =>
          -- not a handle: reported as an error (and excluded by the law when the open must succeed)
          refine ⟨hchg, ?_, ?_⟩
          · intro h; cases h
          · intro hcw
            obtain ⟨h, hh'⟩ := hcanw hcw
            cases hh'

theorem sat_copyFile {s : Side} {k ks : Key} {i : Info} {src : WHandle} {data : String} {mt0 : Meta} {w : World}
    (hg : S.G w.fs) (hk : PKey k) (hacc : AccF (S.view s w.fs) k)
    (hsrc : src.side = s.other) (hHs : S.H s.other src.h ks)
    (hsacc : MFS.accessMode src.h.flag ≠ 1) (hsv : S.view s.other w.fs ks = some (.file data mt0))
    (hreg : i.isRegular = true) (hperm : i.perm < 4096) :
    Sat (copyFile cfg s (kp k) i src) w (fun w' r => S.Chg s (· = k) w w' ∧
      (r = .ok () → S.view s w'.fs k = some (restoredFile data i)) ∧
      (CanWrite S s (S.view s w.fs) k → OnlyFault w r)) := by
  unfold copyFile
  apply Sat.wrapped
  simp only [hreg, Bool.not_true, Bool.false_eq_true, if_false]
  apply Sat.bind
  apply (sat_writeFile (S := S) (perm := i.perm) hg hk hacc hsrc hHs hsacc hsv).mono
  intro w1 r1 ⟨hc1, hp1, hof1⟩
  -- an error report: `e` is an injected fault
  have herr : ∀ {w' : World} {e : Err}, S.Chg s (· = k) w w' → e = .io ∧ w.faults ≠ [] →
      S.Chg s (· = k) w w' ∧ ((Except.error (wrapV e) : Except Err Unit) = .ok () → S.view s w'.fs k = some (restoredFile data i)) ∧
        (CanWrite S s (S.view s w.fs) k → OnlyFault w (Except.error (wrapV e) : Except Err Unit)) := by
    intro w' e hc ⟨he, hf⟩
    subst he
    refine ⟨hc, ?_, ?_⟩
    · intro h; cases h
    · intro _ e' h; cases h; exact ⟨rfl, hf⟩
  cases r1 with
  | error e =>
    refine ⟨hc1, ?_, ?_⟩
    · intro h; cases h
    · intro hcw e' h
      cases h
      obtain ⟨he, hf⟩ := hof1 hcw e rfl
      subst he
      exact ⟨rfl, hf⟩
  | ok u1 =>
    simp only
    obtain ⟨mt1, hv1⟩ := hp1 rfl
    have hg1 := hc1.good
    apply Sat.bind
    apply Sat.ignorePerm
    apply (sat_chownTo (S := S) (i := i) hg1 hk hv1 rfl).mono
    intro w2 r2 ⟨hc2, hof2, hp2⟩
    have hc2' : S.Chg s (· = k) w w2 := hc1.trans hc2
    cases r2 with
    | error e =>
      obtain ⟨he, hf⟩ := onlyFault_err hc1.faults hof2
      subst he
      simp only [Err.isPermission, Bool.false_eq_true, if_false]
      exact herr hc2' ⟨rfl, hf⟩
    | ok u2 =>
      simp only
      obtain ⟨md, _, hv2⟩ := hp2 rfl
      have hg2 := hc2.good
      have hacc2 : AccF (S.view s w2.fs) k := S.accF_present hg2 hv2 rfl
      apply Sat.bind
      apply (sat_lstat hg2 hk hacc2.1).mono
      intro w3 r3 ⟨hs3, hr3⟩
      have hc3' : S.Chg s (· = k) w w3 := hc2'.same_right hs3
      have hg3 := hc3'.good
      have hv3 : S.view s w3.fs k = some (chownToNode (.file data mt1) i md) := by rw [hs3.fs]; exact hv2
      have hacc3 : AccF (S.view s w3.fs) k := S.accF_present hg3 hv3 rfl
      rcases hr3 with ⟨n', cur, hn', rfl, hfor⟩ | ⟨hnone, _⟩ | ⟨rfl, hf⟩
      · rw [hv2] at hn'; cases hn'
        simp only
        have hcp : cur.perm = md := hfor.2.1
        have hct : cur.mtime = mt1.mtime := hfor.2.2.2.2 rfl
        apply Sat.bind
        have hchmod : Sat (BFS.whenM (cur.perm ≠ i.perm) (primUnit cfg s (.chmod (kp k) i.perm))) w3
            (fun w' r => S.Chg s (· = k) w3 w' ∧ OnlyFault w3 r ∧
              (r = .ok () → S.view s w'.fs k = some (.file data ⟨i.perm, i.uid, i.gid, mt1.mtime⟩))) := by
          apply Sat.whenM
          · intro _
            apply (sat_primUnit_exact (S := S) (s := s) (c := .chmod (kp k) i.perm) (K := (· = k))
              (P := fun m' => S.view s m' k = some ((chownToNode (.file data mt1) i md).setMeta
                { (chownToNode (.file data mt1) i md).meta with mode := i.perm &&& 0o7777 })) hg3
              (fun m' r h => by
                obtain ⟨g, o, f, l⟩ := S.chmod_frame hg3 hk hacc3 h
                exact ⟨g, o, fun j hj => f j hj, l⟩)
              (S.chmod_some hg3 hk hv3 rfl)).mono
            intro w4 r4 ⟨hc4, hp4, hof4⟩
            refine ⟨hc4, hof4, fun h => ?_⟩
            rw [hp4 h, and_7777 hperm]
            rfl
          · intro hcond
            refine ⟨Sim.Chg.refl hg3, OnlyFault.ok, fun _ => ?_⟩
            have : cur.perm = i.perm := by simpa using hcond
            rw [hv3, ← this, hcp]
            rfl
        apply hchmod.mono
        intro w4 r4 ⟨hc4, hof4, hp4⟩
        have hc4' : S.Chg s (· = k) w w4 := hc3'.trans hc4
        have hg4 := hc4.good
        cases r4 with
        | error e => exact herr hc4' (onlyFault_err hc3'.faults hof4)
        | ok u4 =>
          simp only
          have hv4 := hp4 rfl
          have hacc4 : AccF (S.view s w4.fs) k := S.accF_present hg4 hv4 rfl
          apply Sat.whenM
          · intro _
            apply Sat.ignorePerm
            apply (sat_primUnit_exact (S := S) (s := s) (c := .chtimes (kp k) i.mtime i.mtime) (K := (· = k))
              (P := fun m' => S.view s m' k = some (.file data { (⟨i.perm, i.uid, i.gid, mt1.mtime⟩ : Meta) with mtime := i.mtime })) hg4
              (fun m' r h => by
                obtain ⟨g, o, f, l⟩ := S.chtimes_frame hg4 hk hacc4 h
                exact ⟨g, o, fun j hj => f j hj, l⟩)
              (S.chtimes_file hg4 hk hv4)).mono
            intro w5 r5 ⟨hc5, hp5, hof5⟩
            have hc5' : S.Chg s (· = k) w w5 := hc4'.trans hc5
            cases r5 with
            | ok u5 =>
              refine ⟨hc5', fun _ => ?_, fun _ => OnlyFault.ok⟩
              rw [hp5 rfl]; rfl
            | error e =>
              obtain ⟨he, hf⟩ := onlyFault_err hc4'.faults hof5
              subst he
              simp only [Err.isPermission, Bool.false_eq_true, if_false]
              exact herr hc5' ⟨rfl, hf⟩
          · intro hte
            refine ⟨hc4', fun _ => ?_, fun _ => OnlyFault.ok⟩
            have : timeEq cur.mtime i.mtime = true := by simpa using hte
            have := timeEq_eq this
            rw [hv4, ← hct, this]
            rfl
      · rw [hv2] at hnone; cases hnone
      · exact herr hc3' ⟨rfl, by rw [← hc2'.faults]; exact hf⟩

/-! ### copySymlink -/

theorem chownNode_link_nat (t : Path) (mt : Meta) (u g : Nat) :
    chownNode (.link t mt) (u : Int) (g : Int) = .link t { mt with uid := u, gid := g } := by
  unfold chownNode
  have hu : ¬ ((u : Int) < 0) := by omega
  have hgn : ¬ ((g : Int) < 0) := by omega
  simp [hu, hgn, Node.setMeta, Node.meta, Node.isLink]

/-- `copySymlink(source := s.other, target := s, kp k, i)`: the symlink at `k` of the other side
(target text `t`) is re-created on side `s`.  Whatever happens, side `s` changes at most at `k`;
on success `k` holds a symlink with the same text and the owner `i` prescribes; and when the side
admits the link, `k` is absent and its parent is a directory, only an injected fault makes it fail. -/
theorem sat_copySymlink {s : Side} {k : Key} {i : Info} {t : Path} {mt0 : Meta} {w : World}
    (hg : S.G w.fs) (hk : PKey k) (hacc : NoLinkAnc (S.view s w.fs) k)
    (hsrc : S.view s.other w.fs k = some (.link t mt0)) :
    Sat (copySymlink cfg s.other s (kp k) i) w (fun w' r => S.ChgL s (· = k) w w' ∧
      (r = .ok () → ∃ mt', S.view s w'.fs k = some (.link t mt') ∧ mt'.uid = i.uid ∧ mt'.gid = i.gid) ∧
      (S.view s w.fs k = none → (S.view s w.fs).parentDir k → S.LinkOK s k t → i.isSymlink = true → OnlyFault w r)) := by
  have hcanon : clean t = t := S.link_canon hg hsrc
  unfold copySymlink
  apply Sat.wrapped
  apply Sat.ite
  · intro hns
    refine ⟨Sim.ChgL.refl hg, (by intro h; cases h), ?_⟩
    intro _ _ _ his
    rw [his] at hns
    exact absurd hns (by decide)
  · intro _
    apply Sat.bind
    apply (sat_readlink (S := S) hg hk hsrc).mono
    intro w1 r1 ⟨hs1, hr1⟩
    have hg1 : S.G w1.fs := hs1.fs ▸ hg
    have hacc1 : NoLinkAnc (S.view s w1.fs) k := by rw [hs1.fs]; exact hacc
    rcases hr1 with rfl | ⟨rfl, hf⟩
    · simp only
      apply Sat.bind
      -- Symlink
      have hsym : Sat (primUnit cfg s (.symlink t (kp k))) w1 (fun w' r => S.ChgL s (· = k) w1 w' ∧
          (r = .ok () → ∃ mt', S.view s w'.fs k = some (.link t mt')) ∧
          (S.view s w.fs k = none → (S.view s w.fs).parentDir k → S.LinkOK s k t → OnlyFault w1 r)) := by
        unfold primUnit
        apply Sat.bind
        apply Sat.primCall
        · intro hf w2 h2
          refine ⟨Sim.ChgL.of_same hg1 h2, (by intro h; cases h), ?_⟩
          intro _ _ _ e h; cases h; exact ⟨rfl, hf⟩
        · intro w2 h2
          cases heq : (cfg.side s).call w1.fs (.symlink t (kp k)) with
          | mk m' r =>
            obtain ⟨g, o, f⟩ := S.symlink_frame hg1 hk hacc1 heq
            have hchg : S.ChgL s (· = k) w1 { w2 with fs := m' } := ⟨g, o, fun j hj => f j hj, h2.infos, h2.faults⟩
            have hcan : S.view s w.fs k = none → (S.view s w.fs).parentDir k → S.LinkOK s k t → r = .ok .unit := by
              intro hn hp hlok
              obtain ⟨m'', heq'⟩ := S.symlink_ok hg1 hk hcanon hlok (by rw [hs1.fs]; exact hn) (by rw [hs1.fs]; exact hp)
              rw [heq] at heq'; cases heq'; rfl
            simp only
            cases r with
            | error e =>
              refine ⟨hchg, (by intro h; cases h), ?_⟩
              intro hn hp hlok
              have := hcan hn hp hlok
              cases this
            | ok ret =>
              apply Sat.pure
              exact ⟨hchg, fun _ => S.symlink_post hg1 hk hacc1 hcanon heq, fun _ _ _ => OnlyFault.ok⟩
      apply hsym.mono
      intro w2 r2 ⟨hc2, hp2, hof2⟩
      have hc2' : S.ChgL s (· = k) w w2 := Sim.ChgL.same_left hs1 hc2
      cases r2 with
      | error e =>
        refine ⟨hc2', (by intro h; cases h), ?_⟩
        intro hn hp hlok _ e' h
        cases h
        obtain ⟨he, hf⟩ := hof2 hn hp hlok e rfl
        subst he
        exact ⟨rfl, by rw [← hs1.faults]; exact hf⟩
      | ok u2 =>
        simp only
        obtain ⟨mt2, hv2⟩ := hp2 rfl
        have hg2 := hc2.good
        have hacc2 : NoLinkAnc (S.view s w2.fs) k := hc2.noLinkAnc_at hacc1
        -- Lchown
        apply Sat.ignorePerm
        apply (sat_primUnit_exact (S := S) (s := s) (c := .lchown (kp k) i.uid i.gid) (K := (· = k))
          (P := fun m' => S.view s m' k = some (chownNode (.link t mt2) i.uid i.gid)) hg2
          (fun m' r h => by
            obtain ⟨g, o, f, l, _⟩ := S.lchown_frame hg2 hk hacc2 h
            exact ⟨g, o, fun j hj => f j hj, l⟩)
          (S.lchown_link hg2 hk hv2)).mono
        intro w3 r3 ⟨hc3, hp3, hof3⟩
        have hc3' : S.ChgL s (· = k) w w3 := hc2'.trans hc3.toChgL
        cases r3 with
        | ok u3 =>
          refine ⟨hc3', fun _ => ?_, fun _ _ _ _ => OnlyFault.ok⟩
          refine ⟨{ mt2 with uid := i.uid, gid := i.gid }, ?_, rfl, rfl⟩
          rw [hp3 rfl, chownNode_link_nat]
        | error e =>
          obtain ⟨he, hf⟩ := hof3 e rfl
          subst he
          simp only [Err.isPermission, Bool.false_eq_true, if_false]
          refine ⟨hc3', (by intro h; cases h), ?_⟩
          intro _ _ _ _ e' h
          cases h
          exact ⟨rfl, by rw [← hc2'.faults]; exact hf⟩
    · refine ⟨Sim.ChgL.of_same hg hs1, (by intro h; cases h), ?_⟩
      intro _ _ _ _ e h; cases h; exact ⟨rfl, hf⟩

/-! ### opening a file read-only -/

theorem sat_open_ro {s : Side} {k : Key} {w : World} (hg : S.G w.fs) (hk : PKey k)
    (hacc : AccF (S.view s w.fs) k) :
    Sat (primOpen cfg s (.open_ (kp k))) w (fun w' r => SameFS w w' ∧
      (∀ wh, r = .ok wh → wh.side = s ∧ S.H s wh.h k ∧ wh.h.flag = O_RDONLY) ∧
      ((S.view s w.fs).isFileAt k ∨ (S.view s w.fs).isDirAt k → OnlyFault w r)) := by
  unfold primOpen
  apply Sat.bind
  apply (sat_primCall_pure (fun m' r h => S.pure_open h)).mono
  intro w1 r ⟨hs, hr⟩
  have hfault : ∀ {α} (x : Except Err α), x = .error .io → w.faults ≠ [] → OnlyFault w x := by
    intro α x hx hf e he
    rw [hx] at he; cases he; exact ⟨rfl, hf⟩
  cases hc : (cfg.side s).call w.fs (.open_ (kp k)) with
  | mk m' r' =>
    rw [hc] at hr
    simp only at hr
    have hcan : (S.view s w.fs).isFileAt k ∨ (S.view s w.fs).isDirAt k → ∃ h, r' = .ok (.handle h) := by
      intro hv
      obtain ⟨h, heq, _⟩ := S.open_some hg hk hv
      rw [hc] at heq; cases heq; exact ⟨h, rfl⟩
    rcases hr with hr | ⟨hf, hr⟩
    · rw [hr]
      cases r' with
      | error e =>
        refine ⟨hs, (by intro wh h; cases h), ?_⟩
        intro hv; obtain ⟨h, hh⟩ := hcan hv; cases hh
      | ok ret =>
        cases ret with
        | handle h =>
          apply Sat.pure
          refine ⟨hs, ?_, fun _ => OnlyFault.ok⟩
          intro wh hwh
          cases hwh
          obtain ⟨hH, hfl⟩ := S.open_handle hg hk hacc hc
          exact ⟨rfl, hH, hfl⟩
        | _ =>
          refine ⟨hs, (by intro wh h; cases h), ?_⟩
          intro hv; obtain ⟨h, hh⟩ := hcan hv; cases hh
    · rw [hr]
      exact ⟨hs, (by intro wh h; cases h), fun _ => hfault _ rfl hf⟩

end NL
end BFS
