import Lemmas.JTStr
/-! JSON text layer (C12): `\uXXXX` escapes in general and UTF-16 surrogate pairs — what
`json.Unmarshal` additionally accepts in string literals (other producers escape this way). -/
namespace BFS.JsonText

/-- any code unit written as four (lower-case) hex digits is read back -/
theorem hex4_hexDigits (n : Nat) (h : n < 65536) (rest : List Char) :
    hex4 (hexDigit (n / 4096) :: hexDigit (n / 256 % 16) :: hexDigit (n / 16 % 16)
      :: hexDigit (n % 16) :: rest) = some (n, rest) := by
  simp only [hex4, hexVal_hexDigit (n / 4096) (by omega), hexVal_hexDigit (n / 256 % 16) (by omega),
    hexVal_hexDigit (n / 16 % 16) (by omega), hexVal_hexDigit (n % 16) (by omega)]
  congr 2; omega

/-- `\uXXXX` -/
def uEsc (n : Nat) : List Char :=
  ['\\', 'u', hexDigit (n / 4096), hexDigit (n / 256 % 16), hexDigit (n / 16 % 16), hexDigit (n % 16)]

/-- a character of the basic plane (not a surrogate: those are no `Char`s) written as `\uXXXX` -/
theorem decBody_uEsc (fuel : Nat) (c : Char) (h : c.toNat < 65536) (tail : List Char) :
    decBody (fuel + 1) (uEsc c.toNat ++ tail) = consOut c (decBody fuel tail) := by
  have hv := c.valid
  have hns : isSurr c.toNat = false := by
    have : c.toNat < 55296 ∨ 57343 < c.toNat := by
      rcases hv with h1 | h1
      · exact Or.inl h1
      · exact Or.inr h1.1
    unfold isSurr; simp; omega
  simp [uEsc, decBody, hex4_hexDigits c.toNat h, hns, Char.ofNat_toNat]

/-- the UTF-16 form of a character outside the basic plane, as two `\uXXXX` escapes -/
def utf16Esc (c : Char) : List Char :=
  uEsc (55296 + (c.toNat - 65536) / 1024) ++ uEsc (56320 + (c.toNat - 65536) % 1024)

theorem isSurr_of_hi {n : Nat} (h : isHiSurr n = true) : isSurr n = true := by
  unfold isHiSurr at h; unfold isSurr
  simp only [Bool.and_eq_true, decide_eq_true_eq] at h ⊢
  omega

/-- two escapes forming a valid pair (`utf16.DecodeRune`) -/
theorem decBody_pair (fuel hi lo : Nat) (tail : List Char) (hhi : hi < 65536) (hlo : lo < 65536)
    (hh : isHiSurr hi = true) (hl : isLoSurr lo = true) :
    decBody (fuel + 1) (uEsc hi ++ (uEsc lo ++ tail))
      = consOut (Char.ofNat (surrPair hi lo)) (decBody fuel tail) := by
  have h1 := hex4_hexDigits hi hhi
  have h2 := hex4_hexDigits lo hlo
  simp [uEsc, decBody, loSurrHere, h1, h2, isSurr_of_hi hh, hh, hl]

/-- a lone surrogate escape becomes U+FFFD and what follows is processed again (`unquoteBytes`) -/
theorem decBody_lone (fuel n : Nat) (tail : List Char) (hn : n < 65536) (hs : isSurr n = true)
    (hnp : loSurrHere n tail = none) :
    decBody (fuel + 1) (uEsc n ++ tail) = consOut replacement (decBody fuel tail) := by
  have h1 := hex4_hexDigits n hn
  simp [uEsc, decBody, h1, hs, hnp]

/-- a surrogate pair is read as the one character it encodes -/
theorem decBody_utf16Esc (fuel : Nat) (c : Char) (h : 65536 ≤ c.toNat) (tail : List Char) :
    decBody (fuel + 1) (utf16Esc c ++ tail) = consOut c (decBody fuel tail) := by
  have hv := c.valid
  have hlt : c.toNat < 1114112 := by
    rcases hv with h1 | h1
    · have : c.toNat < 55296 := h1
      omega
    · exact h1.2
  have hh : isHiSurr (55296 + (c.toNat - 65536) / 1024) = true := by
    unfold isHiSurr; simp only [Bool.and_eq_true, decide_eq_true_eq]; omega
  have hl : isLoSurr (56320 + (c.toNat - 65536) % 1024) = true := by
    unfold isLoSurr; simp only [Bool.and_eq_true, decide_eq_true_eq]; omega
  have hp : surrPair (55296 + (c.toNat - 65536) / 1024) (56320 + (c.toNat - 65536) % 1024)
      = c.toNat := by unfold surrPair; omega
  unfold utf16Esc
  rw [List.append_assoc, decBody_pair fuel _ _ tail (by omega) (by omega) hh hl, hp, Char.ofNat_toNat]

end BFS.JsonText
