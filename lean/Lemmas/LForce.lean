import Lemmas.LTx
import Lemmas.ForceHist
/-!
  Lemmas/LForce.lean — `ForceBackup(p)` re-baselines a non-directory path (property C17) for trees
  with **symlinks as leaves**, generically over an `LSim`: first part.

  `rebase`, `delInfo` and the list lemmas are those of Lemmas/Force.lean.  New here:
  * `GoodView.rebase` for views with links (the re-based node may be a symlink);
  * `Inv.backup_noLinkAnc_par`: below a parent directory that predates the transaction the backup
    view is not reached through a symlink (so `Lstat`/`Remove` on the stale copy are not redirected);
  * `Inv.del_rebase`: after a backup-side step confined to `k` that leaves no symlink there, and
    `delete(baseInfos, k)`, the invariant `L.Inv` holds for the original view re-based at `k`
    (incl. the two link clauses `blink`, `bklinks`).
-/
namespace BFS
namespace L
open BackupFS

variable {cfg : Cfg} {S : LSim cfg} {v0 : View}

/-! ### the re-based original view -/

/-- re-basing a tree at a key that was not a directory, with a node that is not a directory (a file,
a symlink or nothing) and whose parent directory is part of the tree, gives a tree -/
theorem GoodView.rebase {v : View} {k : Key} (h0 : GoodView v0) (hv : GoodView v) (hk : PKey k)
    (horig : ¬ v0.isDirAt k) (_hnow : ¬ v.isDirAt k) (hpar : v0.parentDir k) :
    GoodView (rebase v0 k (v k)) := by
  obtain ⟨hkne, hpd⟩ := hpar
  refine ⟨?_, ?_, ?_, ?_, ?_, ?_, ?_⟩
  · obtain ⟨mt, hmt⟩ := h0.root
    exact ⟨mt, by rw [rebase_ne v0 _ (fun e => hkne e.symm)]; exact hmt⟩
  · intro j hj hjne
    by_cases hjk : j = k
    · subst hjk
      obtain ⟨mt, hmt⟩ := hpd
      exact ⟨mt, by rw [rebase_ne v0 _ (dropLast_ne_self hkne)]; exact hmt⟩
    · rw [rebase_ne v0 _ hjk] at hj
      obtain ⟨mt, hmt⟩ := h0.parent hj hjne
      have hne : j.dropLast ≠ k := by
        intro e; subst e; exact horig ⟨mt, hmt⟩
      exact ⟨mt, by rw [rebase_ne v0 _ hne]; exact hmt⟩
  · intro j hj
    by_cases hjk : j = k
    · subst hjk; exact hk
    · rw [rebase_ne v0 _ hjk] at hj; exact h0.pkey hj
  · intro j n hj
    by_cases hjk : j = k
    · subst hjk; rw [rebase_self] at hj; exact hv.mode hj
    · rw [rebase_ne v0 _ hjk] at hj; exact h0.mode hj
  · intro j mt hj
    by_cases hjk : j = k
    · subst hjk; rw [rebase_self] at hj; exact hv.erased hj
    · rw [rebase_ne v0 _ hjk] at hj; exact h0.erased hj
  · intro j t mt hj
    by_cases hjk : j = k
    · subst hjk; rw [rebase_self] at hj; exact hv.lerased hj
    · rw [rebase_ne v0 _ hjk] at hj; exact h0.lerased hj
  · intro j t mt hj
    by_cases hjk : j = k
    · subst hjk; rw [rebase_self] at hj; exact hv.canon hj
    · rw [rebase_ne v0 _ hjk] at hj; exact h0.canon hj

/-! ### the backup side of a key whose parent predates the transaction -/

/-- a symlink in the backup view sits at a key that is a symlink in the original view, or in the
current base view at an untracked key (where the two agree) -/
theorem Inv.bklink_orig {w : World} {a : Key} (h : Inv S v0 w) (hl : isLinkAt (S.view .backup w.fs) a) :
    isLinkAt v0 a := by
  have hpa : PKey a := backup_pkey h.good hl
  rcases h.bklinks a hl with ⟨i, hts, hkind⟩ | ⟨hun, hb⟩
  · obtain ⟨n, hn, hfor, _, _⟩ := h.saved a i hpa hts
    have hnk := hfor.1
    rw [hkind] at hnk
    cases n with
    | link t mt => exact ⟨t, mt, hn⟩
    | file c mt => cases hnk
    | dir mt => cases hnk
  · obtain ⟨t, mt, ht⟩ := hb
    exact ⟨t, mt, by rw [← h.frame a hpa hun]; exact ht⟩

/-- if the parent directory of `k` predates the transaction, no proper ancestor of `k` is a symlink in
the backup view -/
theorem Inv.backup_noLinkAnc_par {w : World} {k : Key} (h : Inv S v0 w) (hpar : v0.parentDir k) :
    NoLinkAnc (S.view .backup w.fs) k := by
  intro a ha hne hl
  exact h.orig.noLinkAnc_parentDir hpar a ha hne (h.bklink_orig hl)

/-! ### dropping the entry of `k` re-bases the invariant -/

/-- after a backup-side step confined to `k` (the removal of the old copy — a file or a symlink —,
or nothing at all) that leaves no symlink at `k`, and `delete(baseInfos, k)`, the invariant holds for
the original view re-based at `k` -/
theorem Inv.del_rebase {w w1 : World} {k : Key} (h : Inv S v0 w) (hk : PKey k)
    (horig : ¬ v0.isDirAt k) (hnow : ¬ (S.view .base w.fs).isDirAt k) (hpar : v0.parentDir k)
    (hc : S.ChgL .backup (· = k) w w1) (hnl : ¬ isLinkAt (S.view .backup w1.fs) k) :
    Inv S (rebase v0 k (S.view .base w.fs k)) (delInfo w1 (kp k)) := by
  have hb : S.view .base w1.fs = S.view .base w.fs := hc.other
  have hother : ∀ j, PKey j → j ≠ k → (delInfo w1 (kp k)).infos.lookup (kp j) = w.infos.lookup (kp j) := by
    intro j hj hjk
    rw [delInfo_lookup_ne w1 (fun e => hjk (kp_inj hj hk e)), hc.infos]
  have hself : (delInfo w1 (kp k)).infos.lookup (kp k) = none := delInfo_lookup_self w1 (kp k)
  refine ⟨hc.good, GoodView.rebase h.orig (S.goodView h.good .base) hk horig hnow hpar, ?_, ?_, ?_, ?_, ?_, ?_, ?_, ?_⟩
  · apply delInfo_keys; rw [hc.infos]; exact h.keys
  · apply delInfo_nodup; rw [hc.infos]; exact h.nodup
  · intro j hj hl
    show S.view .base w1.fs j = _
    rw [hb]
    by_cases hjk : j = k
    · subst hjk; rw [rebase_self]
    · rw [hother j hj hjk] at hl
      rw [rebase_ne v0 _ hjk]; exact h.frame j hj hl
  · intro j hj hl
    by_cases hjk : j = k
    · subst hjk; rw [hself] at hl; cases hl
    · rw [hother j hj hjk] at hl
      rw [rebase_ne v0 _ hjk]; exact h.absent j hj hl
  · intro j i hj hl
    by_cases hjk : j = k
    · subst hjk; rw [hself] at hl; cases hl
    · rw [hother j hj hjk] at hl
      obtain ⟨n, hn, hfor, hcopy, hlcopy⟩ := h.saved j i hj hl
      refine ⟨n, (by rw [rebase_ne v0 _ hjk]; exact hn), hfor, ?_, ?_⟩
      · intro c mt hnc
        obtain ⟨mt', hv⟩ := hcopy c mt hnc
        exact ⟨mt', by
          show S.view .backup w1.fs j = _
          rw [hc.frame j hjk]; exact hv⟩
      · intro t mt hnc
        obtain ⟨⟨mt', hv⟩, hok⟩ := hlcopy t mt hnc
        exact ⟨⟨mt', by
          show S.view .backup w1.fs j = _
          rw [hc.frame j hjk]; exact hv⟩, hok⟩
  · intro j i hj hl a ha
    by_cases hjk : j = k
    · subst hjk; rw [hself] at hl; cases hl
    · rw [hother j hj hjk] at hl
      by_cases hak : a = k
      · subst hak
        exfalso
        obtain ⟨n, hn, _, _⟩ := h.saved j i hj hl
        rw [h.v0_below horig j ha hjk] at hn
        cases hn
      · rw [hother a (hj.of_prefix ha) hak]
        exact h.anc j i hj hl a ha
  · intro j hj ht
    show NoLinkAnc (S.view .base w1.fs) j
    rw [hb]
    by_cases hjk : j = k
    · subst hjk; exact absurd hself ht
    · unfold Tracked at ht
      rw [hother j hj hjk] at ht
      exact h.blink j hj ht
  · intro j hl
    have hl1 : isLinkAt (S.view .backup w1.fs) j := hl
    have hjk : j ≠ k := by
      intro e; subst e; exact hnl hl1
    have hj : PKey j := backup_pkey hc.good hl1
    have hl0 : isLinkAt (S.view .backup w.fs) j := by
      obtain ⟨t, mt, ht⟩ := hl1
      exact ⟨t, mt, by rw [← hc.frame j hjk]; exact ht⟩
    show (∃ i, (delInfo w1 (kp k)).infos.lookup (kp j) = some (some i) ∧ _) ∨
      ((delInfo w1 (kp k)).infos.lookup (kp j) = none ∧ isLinkAt (S.view .base w1.fs) j)
    rw [hother j hj hjk, hb]
    exact h.bklinks j hl0

/-! ### a mutating primitive that is promised to succeed -/

/-- like `sat_primUnit_exactL`, remembering that a failed (that is: refused) call changed nothing -/
theorem sat_primUnit_exact' {s : Side} {c : Call} {K : Key → Prop} {w : World} {P : MFS → Prop}
    (hg : S.G w.fs)
    (hlaw : ∀ m' r, (cfg.side s).call w.fs c = (m', r) →
      S.G m' ∧ S.view s.other m' = S.view s.other w.fs ∧ (∀ j, ¬ K j → S.view s m' j = S.view s w.fs j))
    (hok : ∃ m', (cfg.side s).call w.fs c = (m', .ok .unit) ∧ P m') :
    Sat (primUnit cfg s c) w (fun w' r => S.ChgL s K w w' ∧ (r = .ok () → P w'.fs) ∧
      (∀ e, r = .error e → SameFS w w' ∧ w.faults ≠ [])) := by
  unfold primUnit
  apply Sat.bind
  apply Sat.primCall
  · intro hf w1 h1
    exact ⟨LSim.ChgL.of_same hg h1, (by intro h; cases h), fun _ _ => ⟨h1, hf⟩⟩
  · intro w1 h1
    obtain ⟨m', hc, hp⟩ := hok
    obtain ⟨g, o, f⟩ := hlaw _ _ hc
    rw [hc]
    apply Sat.pure
    refine ⟨⟨g, o, f, h1.infos, h1.faults⟩, fun _ => hp, ?_⟩
    intro e h; cases h

end L
end BFS
