import Lemmas.Sim
import Lemmas.KP
/-!
  Lemmas/SimDir.lean — an extension of the contract `Sim` by the two facts `HiddenFS.RemoveAll`'s
  completeness needs and `Sim` lacks: a directory listing returns exactly the names of the live
  children, and a `Remove` that reports success has removed the entry.  Plus consequences of the
  static laws of `Sim` (the view is a tree).
-/
namespace BFS

structure SimDir {cfg : Cfg} (S : Sim cfg) : Prop where
  /-- `Readdirnames(-1)` on a handle of a live directory: exactly the live children -/
  readdir_dir : ∀ {m s h k}, S.G m → S.H s h k → (S.view s m).isDirAt k →
    ∃ ns, (cfg.side s).hreaddirnames m h = .ok ns ∧ ∀ n, n ∈ ns ↔ S.view s m (k ++ [n]) ≠ none
  /-- a listing names no entry twice (needed only for the success clause (C)) -/
  readdir_nodup : ∀ {m s h k ns}, S.G m → S.H s h k → (cfg.side s).hreaddirnames m h = .ok ns → ns.Nodup
  /-- a `Remove` that returns nil has removed the entry -/
  remove_post : ∀ {m s k m' r}, S.G m → PKey k → k ≠ [] →
    (cfg.side s).call m (.remove (kp k)) = (m', .ok r) → S.view s m' k = none

variable {cfg : Cfg}

theorem prefix_dropLast' {p k : Key} (h : p <+: k) (hne : p ≠ k) : p <+: k.dropLast := by
  obtain ⟨t, rfl⟩ := h
  have ht : t ≠ [] := by
    intro e; apply hne; rw [e]; simp
  rw [List.dropLast_append_of_ne_nil ht]
  exact List.prefix_append _ _

/-- every proper ancestor of a live key is a live directory -/
theorem Sim.anc (S : Sim cfg) {m : MFS} {s : Side} (hg : S.G m) :
    ∀ (n : Nat) (j : Key), j.length = n → S.view s m j ≠ none →
      ∀ p, p <+: j → p ≠ j → (S.view s m).isDirAt p := by
  intro n
  induction n with
  | zero =>
    intro j hl _ p hp hne
    have : j = [] := List.length_eq_zero_iff.mp hl
    subst this
    exact absurd (List.prefix_nil.mp hp) hne
  | succ n ih =>
    intro j hl hv p hp hne
    have hjne : j ≠ [] := by intro e; rw [e] at hl; cases hl
    have hpar := S.parent_dir hg hv hjne
    have hp' := prefix_dropLast' hp hne
    by_cases he : p = j.dropLast
    · exact he ▸ hpar
    · obtain ⟨mt, hd⟩ := hpar
      exact ih j.dropLast (by simp [hl]) (by rw [hd]; simp) p hp' he

theorem Sim.ancestor_dir (S : Sim cfg) {m : MFS} {s : Side} (hg : S.G m) {j p : Key}
    (hv : S.view s m j ≠ none) (hp : p <+: j) (hne : p ≠ j) : (S.view s m).isDirAt p :=
  S.anc hg j.length j rfl hv p hp hne

/-- nothing lives below an absent key -/
theorem Sim.none_below (S : Sim cfg) {m : MFS} {s : Side} (hg : S.G m) {j p : Key}
    (hp : p <+: j) (hv : S.view s m p = none) : S.view s m j = none := by
  cases hj : S.view s m j with
  | none => rfl
  | some n =>
    exfalso
    by_cases he : p = j
    · rw [he, hj] at hv; cases hv
    · obtain ⟨mt, hd⟩ := S.ancestor_dir hg (by rw [hj]; simp) hp he
      rw [hd] at hv; cases hv

/-- nothing lives strictly below a key that is not a directory -/
theorem Sim.none_below_nondir (S : Sim cfg) {m : MFS} {s : Side} (hg : S.G m) {j p : Key} {n : Node}
    (hp : p <+: j) (hne : p ≠ j) (hv : S.view s m p = some n) (hn : n.isDir = false) :
    S.view s m j = none := by
  cases hj : S.view s m j with
  | none => rfl
  | some n' =>
    exfalso
    obtain ⟨mt, hd⟩ := S.ancestor_dir hg (by rw [hj]; simp) hp hne
    rw [hd] at hv; cases hv; cases hn

end BFS
