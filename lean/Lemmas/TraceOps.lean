import Lemmas.TraceBackup
/-! Resolution and the read-only methods log only read-only base calls; mutators abort when the
backup fails. -/
namespace BFS
namespace BackupFS

def RO (e : Event) : Prop := e.mutating = false

theorem resolveLoop_logs (cfg : Cfg) : ∀ (fuel : Nat) (l : List Path) (last : Path) (fi : Option Info),
    Logs (resolveLoop cfg fuel l last fi) RO
  | 0, _, _, _ => Logs.pure _ _
  | _ + 1, [], _, _ => Logs.pure _ _
  | fuel + 1, p :: rest, last, fi => by
    unfold resolveLoop
    apply Logs.bind (Logs.attempt (primInfo_logs cfg .base _ (primCall_ro cfg .base _ rfl))); intro res
    cases res with
    | error e => exact Logs.ite (Logs.pure _ _) (Logs.throw _ _)
    | ok i =>
      simp only
      apply Logs.ite
      · apply Logs.bind (primStr_logs cfg .base _ (primCall_ro cfg .base _ rfl)); intro linked
        exact resolveLoop_logs cfg fuel _ _ _
      · exact resolveLoop_logs cfg fuel _ _ _

theorem realPath_logs (cfg : Cfg) (name : Path) : Logs (realPath cfg name) RO := by
  unfold realPath resolvePathWithInfo
  apply Logs.bind
  · apply Logs.ite (Logs.throw _ _)
    exact resolveLoop_logs cfg _ _ _ _
  · intro r; exact Logs.pure _ _

theorem prepare_logs (cfg : Cfg) (name : Path) : Logs (prepare cfg name) (OnSideOrRO .backup) := by
  unfold prepare
  apply Logs.bind ((realPath_logs cfg name).mono (fun _ h => Or.inr h)); intro r
  apply Logs.bind (tryBackup_logs cfg r); intro _
  exact Logs.pure _ _

/-! every single-path mutator is `prepare` followed by exactly one base call -/

theorem mkdir_eq (cfg : Cfg) (n : Path) (p : Nat) :
    mkdir cfg n p = (prepare cfg n >>= fun r => primUnit cfg .base (.mkdir r p)) := by
  unfold mkdir; rfl
theorem mkdirAll_eq (cfg : Cfg) (n : Path) (p : Nat) :
    mkdirAll cfg n p = (prepare cfg n >>= fun r => primUnit cfg .base (.mkdirAll r p)) := by
  unfold mkdirAll; rfl
theorem create_eq (cfg : Cfg) (n : Path) :
    create cfg n = (prepare cfg n >>= fun r => primOpen cfg .base (.create r)) := by
  unfold create; rfl
theorem remove_eq (cfg : Cfg) (n : Path) :
    remove cfg n = (prepare cfg n >>= fun r => primUnit cfg .base (.remove r)) := by
  unfold remove; rfl
theorem chmod_eq (cfg : Cfg) (n : Path) (m : Nat) :
    chmod cfg n m = (prepare cfg n >>= fun r => primUnit cfg .base (.chmod r m)) := by
  unfold chmod; rfl
theorem chown_eq (cfg : Cfg) (n : Path) (u g : Int) :
    chown cfg n u g = (prepare cfg n >>= fun r => primUnit cfg .base (.chown r u g)) := by
  unfold chown; rfl
theorem lchown_eq (cfg : Cfg) (n : Path) (u g : Int) :
    lchown cfg n u g = (prepare cfg n >>= fun r => primUnit cfg .base (.lchown r u g)) := by
  unfold lchown; rfl
theorem chtimes_eq (cfg : Cfg) (n : Path) (a m : Time) :
    chtimes cfg n a m = (prepare cfg n >>= fun r => primUnit cfg .base (.chtimes r a m)) := by
  unfold chtimes; rfl
theorem symlink_eq (cfg : Cfg) (o n : Path) :
    symlink cfg o n = (prepare cfg n >>= fun r => primUnit cfg .base (.symlink o r)) := by
  unfold symlink; rfl
theorem openFile_eq (cfg : Cfg) (n : Path) (f p : Nat) (h : f ≠ O_RDONLY) :
    openFile cfg n f p = (prepare cfg n >>= fun r => primOpen cfg .base (.openFile r f p)) := by
  unfold openFile; simp only [h, if_false]

/-- if preparation (resolution + backup) fails, the combined operation fails with the same error
in the very state preparation ended in: nothing further is executed -/
theorem aborts_after_prepare {α} (cfg : Cfg) (n : Path) (k : Path → M α) (w w' : World) (e : Err)
    (h : prepare cfg n w = (w', .error e)) : (prepare cfg n >>= k) w = (w', .error e) :=
  M.bind_error h

end BackupFS
end BFS
