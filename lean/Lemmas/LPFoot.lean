import Lemmas.LPActs
/-!
  Lemmas/LPFoot.lean — the state-level footprint of `Rollback` over an `LSim` (disks WITH symlinks):
  for ANY world (no transaction invariant) and ANY fault plan, `rollback` changes the base view only
  at keys in the footprint of the tracked map (`BFS.BaseFoot`, the very footprint of the link-free
  theorem; a key tracked as a symlink contributes itself only), regular files AND SYMLINKS only in
  the narrower `BFS.FileFoot`, and the backup view only at keys tracked with an original.

  Two hypotheses, both about ANCESTORS (none about what sits AT a tracked path — a symlink sitting
  at the path of a tracked file or directory is handled by the code and by `Lemmas/LPActs.lean`):
  * `BaseAncOK`   no proper ancestor of a tracked key is a symlink in the base view;
  * `BackupAncOK` no proper ancestor of a key tracked with an original is a symlink in the backup view.
  Symlinks are restored in `sortStrings` order, shallowest first, so a link just created at `a` would
  be traversed by the calls for a tracked `a/x`.  That cannot happen: `restoreSymlink` creates a
  symlink at `a` only when the BACKUP entry of `a` is a symlink (`LSim.ReadlinkStrict`, a law of the OS
  model that the contract did not need so far), and then `a/x` is not tracked with an original by
  `BackupAncOK` (`sat_rollback_foot`, `rollback_frame`).  `sat_rollback_foot_apart` is the version over
  the bare contract, with the condition on the tracked map instead (`LinksApart`).
-/
namespace BFS
namespace L
open BackupFS

variable {cfg : Cfg} {S : LSim cfg}

/-! ### the footprint relation -/

/-- from `w` to `w'` the base view changed at most at the keys in `F` (regular files and symlinks:
at most at the keys in `Ff`), the backup view at most at the keys in `K`; no symlink appeared or
changed target in the backup view; every symlink of the base view was a symlink before or sits at a
key in `Lk`.  Reflexive and transitive; nothing is assumed or kept about the tracked map, the fault
plan, the trace. -/
structure LSim.Foot (S : LSim cfg) (F Ff K Lk : Key → Prop) (w w' : World) : Prop where
  good : S.G w'.fs
  base : ∀ j, ¬ F j → S.view .base w'.fs j = S.view .base w.fs j
  leaves : ∀ j, ¬ Ff j → (S.view .base w.fs).isFileAt j ∨ isLinkAt (S.view .base w.fs) j →
    S.view .base w'.fs j = S.view .base w.fs j
  backup : ∀ j, ¬ K j → S.view .backup w'.fs j = S.view .backup w.fs j
  blinks : LinkMono (S.view .backup w.fs) (S.view .backup w'.fs)
  links : ∀ j, isLinkAt (S.view .base w'.fs) j → isLinkAt (S.view .base w.fs) j ∨ Lk j

section
variable {F Ff K Lk : Key → Prop}

theorem LSim.Foot.of_same {w w' : World} (hg : S.G w.fs) (h : SameFS w w') : S.Foot F Ff K Lk w w' :=
  ⟨h.fs ▸ hg, fun _ _ => by rw [h.fs], fun _ _ _ => by rw [h.fs], fun _ _ => by rw [h.fs],
    LinkMono.of_eq (by rw [h.fs]), fun j hl => Or.inl (by rw [h.fs] at hl; exact hl)⟩

theorem LSim.Foot.refl {w : World} (hg : S.G w.fs) : S.Foot F Ff K Lk w w :=
  LSim.Foot.of_same hg (SameFS.refl w)

theorem leaf_transport {v v' : View} {j : Key} (e : v' j = v j) (hf : v.isFileAt j ∨ isLinkAt v j) :
    v'.isFileAt j ∨ isLinkAt v' j := by
  rcases hf with ⟨c', mt, h⟩ | ⟨t, mt, h⟩
  · exact Or.inl ⟨c', mt, by rw [e, h]⟩
  · exact Or.inr ⟨t, mt, by rw [e, h]⟩

theorem LSim.Foot.trans {a b c : World} (h1 : S.Foot F Ff K Lk a b) (h2 : S.Foot F Ff K Lk b c) :
    S.Foot F Ff K Lk a c := by
  refine ⟨h2.good, fun j hj => (h2.base j hj).trans (h1.base j hj), ?_,
    fun j hj => (h2.backup j hj).trans (h1.backup j hj), h1.blinks.trans h2.blinks, ?_⟩
  · intro j hj hf
    have e1 := h1.leaves j hj hf
    rw [h2.leaves j hj (leaf_transport e1 hf), e1]
  · intro j hl
    rcases h2.links j hl with hb | hk
    · exact h1.links j hb
    · exact Or.inr hk

theorem LSim.Foot.mono {F' Ff' K' Lk' : Key → Prop} {w w' : World} (h : S.Foot F Ff K Lk w w')
    (hF : ∀ j, F j → F' j) (hFf : ∀ j, Ff j → Ff' j) (hK : ∀ j, K j → K' j) (hL : ∀ j, Lk j → Lk' j) :
    S.Foot F' Ff' K' Lk' w w' :=
  ⟨h.good, fun j hj => h.base j (fun hx => hj (hF j hx)), fun j hj hf => h.leaves j (fun hx => hj (hFf j hx)) hf,
    fun j hj => h.backup j (fun hx => hj (hK j hx)), h.blinks,
    fun j hl => (h.links j hl).imp (fun x => x) (hL j)⟩

/-- a base-side step bounded by `X` that creates no symlink, with `X` inside both footprints -/
theorem LSim.Foot.of_base {X : Key → Prop} {w w' : World} (h : S.Chg .base X w w')
    (hF : ∀ j, X j → F j) (hFf : ∀ j, X j → Ff j) : S.Foot F Ff K Lk w w' :=
  ⟨h.good, fun j hj => h.frame j (fun hx => hj (hF j hx)), fun j hj _ => h.frame j (fun hx => hj (hFf j hx)),
    fun j _ => congrFun h.other j, LinkMono.of_eq h.other, fun _ hl => Or.inl (h.links.isLinkAt hl)⟩

/-- a base-side step that touches at most the prefixes of `d` and no regular file or symlink but `d` -/
theorem LSim.Foot.of_dir {d : Key} {w w' : World} (h : S.Chg .base (· <+: d) w w' ∧ S.Soft .base d w w')
    (hF : ∀ j, j <+: d → F j) (hFf : Ff d) : S.Foot F Ff K Lk w w' :=
  ⟨h.1.good, fun j hj => h.1.frame j (fun hx => hj (hF j hx)),
    fun j hj hf => h.2.keep j (fun e => hj (e ▸ hFf)) hf, fun j _ => congrFun h.1.other j,
    LinkMono.of_eq h.1.other, fun _ hl => Or.inl (h.1.links.isLinkAt hl)⟩

/-- a base-side step confined to the single key `k` that may create a symlink there -/
theorem LSim.Foot.of_link {k : Key} {w w' : World} (h : S.ChgL .base (· = k) w w')
    (hF : F k) (hFf : Ff k) (hL : Lk k) : S.Foot F Ff K Lk w w' := by
  refine ⟨h.good, fun j hj => h.frame j (fun e => hj (e ▸ hF)), fun j hj _ => h.frame j (fun e => hj (e ▸ hFf)),
    fun j _ => congrFun h.other j, LinkMono.of_eq h.other, ?_⟩
  intro j hl
  by_cases e : j = k
  · exact Or.inr (e ▸ hL)
  · obtain ⟨t, mt, ht⟩ := hl
    exact Or.inl ⟨t, mt, by rw [← h.frame j e]; exact ht⟩

/-- a backup-side step bounded by `X ⊆ K` -/
theorem LSim.Foot.of_backup {X : Key → Prop} {w w' : World} (h : S.Chg .backup X w w')
    (hK : ∀ j, X j → K j) : S.Foot F Ff K Lk w w' :=
  ⟨h.good, fun j _ => congrFun h.other j, fun j _ _ => congrFun h.other j,
    fun j hj => h.frame j (fun hx => hj (hK j hx)), h.links,
    fun j hl => Or.inl (by
      have e : S.view .base w'.fs = S.view .base w.fs := h.other
      rw [e] at hl; exact hl)⟩

end

/-! ### the first loop: read-only, and the plan it produces lists tracked entries only -/

theorem sat_classify_any (S : LSim cfg) {infos : List (Path × Option Info)} :
    ∀ (l : List (Path × Option Info)) (pl : RollbackPlan) (w0 w : World), (∀ e ∈ l, e ∈ infos) →
      SameFS w0 w → S.G w0.fs → PlanOK infos pl →
      Sat (classify cfg l pl) w (fun w' r => SameFS w0 w' ∧ ∀ pl', r = .ok pl' → PlanOK infos pl')
  | [], pl, w0, w, _, hs, _, hpl => by
    unfold classify
    apply Sat.pure
    exact ⟨hs, fun pl' h => by cases h; exact hpl⟩
  | (p, none) :: rest, pl, w0, w, hl, hs, hg, hpl => by
    unfold classify
    have hmem : (p, none) ∈ infos := hl _ (by simp)
    have hl' : ∀ e ∈ rest, e ∈ infos := fun e he => hl e (List.mem_cons_of_mem _ he)
    apply Sat.bind
    apply Sat.attempt
    apply (sat_lexists_same S (s := .base) (p := p) (w := w)).mono
    intro w1 r h1
    have hs1 := hs.trans h1
    simp only
    cases r with
    | error e => exact sat_classify_any S rest _ w0 w1 hl' hs1 hg ⟨hpl.rem, hpl.dirs, hpl.files, hpl.links⟩
    | ok o =>
      cases o with
      | none => exact sat_classify_any S rest _ w0 w1 hl' hs1 hg hpl
      | some i =>
        exact sat_classify_any S rest _ w0 w1 hl' hs1 hg
          ⟨fun x hx => mem_snoc_cases (P := fun y => (y, none) ∈ infos) hpl.rem hmem hx, hpl.dirs, hpl.files, hpl.links⟩
  | (p, some i) :: rest, pl, w0, w, hl, hs, hg, hpl => by
    unfold classify
    have hmem : (p, some i) ∈ infos := hl _ (by simp)
    have hl' : ∀ e ∈ rest, e ∈ infos := fun e he => hl e (List.mem_cons_of_mem _ he)
    split
    · rename_i hp; subst hp
      have hgw : S.G w.fs := by rw [hs.fs]; exact hg
      apply Sat.bind
      apply (sat_ensureRoot (S := S) hgw i).mono
      intro w1 r1 ⟨h1, f, hr1, _⟩
      subst hr1
      simp only
      cases f
      · exact sat_classify_any S rest _ w0 w1 hl' (hs.trans h1) hg hpl
      · exact sat_classify_any S rest _ w0 w1 hl' (hs.trans h1) hg ⟨hpl.rem, hpl.dirs, hpl.files, hpl.links⟩
    · rename_i hp
      cases hkind : i.kind with
      | dir =>
        exact sat_classify_any S rest _ w0 w hl' hs hg
          ⟨hpl.rem, fun x hx => mem_snoc_cases (P := fun y => y ≠ rootP ∧ ∃ i, (y, some i) ∈ infos ∧ i.kind = .dir)
            hpl.dirs ⟨hp, i, hmem, hkind⟩ hx, hpl.files, hpl.links⟩
      | file =>
        exact sat_classify_any S rest _ w0 w hl' hs hg
          ⟨hpl.rem, hpl.dirs, fun x hx => mem_snoc_cases (P := fun y => y ≠ rootP ∧ ∃ i, (y, some i) ∈ infos ∧ i.kind = .file)
            hpl.files ⟨hp, i, hmem, hkind⟩ hx, hpl.links⟩
      | link =>
        exact sat_classify_any S rest _ w0 w hl' hs hg
          ⟨hpl.rem, hpl.dirs, hpl.files, fun x hx => mem_snoc_cases (P := fun y => y ≠ rootP ∧ ∃ i, (y, some i) ∈ infos ∧ i.kind = .link)
            hpl.links ⟨hp, i, hmem, hkind⟩ hx⟩

/-! ### the hypotheses about ancestors -/

/-- `k` is tracked as a symlink -/
def LinkTracked (infos : List (Path × Option Info)) (k : Key) : Prop :=
  ∃ i, TrackedKey infos k (some i) ∧ i.kind = .link

/-- no proper ancestor of a tracked key is a symlink in the view `v` (of the base) -/
def BaseAncOK (v : View) (infos : List (Path × Option Info)) : Prop :=
  ∀ k oi, TrackedKey infos k oi → NoLinkAnc v k

/-- no proper ancestor of a key tracked with an original is a symlink in the view `v` (of the backup) -/
def BackupAncOK (v : View) (infos : List (Path × Option Info)) : Prop :=
  ∀ k i, TrackedKey infos k (some i) → NoLinkAnc v k

/-- no key tracked as a symlink is a proper ancestor of a key tracked as a symlink -/
def LinksApart (infos : List (Path × Option Info)) : Prop :=
  ∀ a k, LinkTracked infos a → LinkTracked infos k → a <+: k → a = k

theorem sat_removeBackupPaths_foot {F Ff K Lk : Key → Prop} {w0 w : World} {ps : List Path}
    (h : S.Foot F Ff K Lk w0 w)
    (hps : ∀ p ∈ ps, ∃ k, PKey k ∧ k ≠ [] ∧ p = kp k ∧ K k ∧ NoLinkAnc (S.view .backup w0.fs) k) :
    Sat (removeBackupPaths cfg ps) w (fun w' _ => S.Foot F Ff K Lk w0 w') := by
  unfold removeBackupPaths
  apply sat_forEach_any (P := S.Foot F Ff K Lk w0) _ w h
  intro x hx w' h'
  obtain ⟨k, hk, hne, rfl, hK, hna⟩ := hps x ((sortBy_perm _ ps).mem_iff.mp hx)
  exact (sat_cleanupAct_fp h'.good hk hne (h'.blinks.noLinkAnc hna)).mono
    (fun _ _ hc => h'.trans (LSim.Foot.of_backup hc (fun j e => e ▸ hK)))

/-- `k` is tracked as a symlink and its backup entry (view `vb`) is a symlink: the only keys at which
Rollback can create a symlink in the base -/
def LinkFrom (vb : View) (infos : List (Path × Option Info)) (k : Key) : Prop :=
  LinkTracked infos k ∧ isLinkAt vb k

/-- **Rollback stays within the footprint of the tracked map, on disks with symlinks** — any world
whose disk is well-formed (no transaction invariant: both trees may have been modified arbitrarily
by other actors, who may have put symlinks anywhere but ABOVE tracked paths), any fault plan,
whatever Rollback returns.  Core statement: `Lk` bounds where the symlink loop may create symlinks
(`hact`), and no key in `Lk` is a proper ancestor of a key tracked as a symlink (`hsep`). -/
theorem sat_rollback_foot_core {w : World} (hg : S.G w.fs)
    (hkeys : ∀ p oi, (p, oi) ∈ w.infos → ∃ k, PKey k ∧ p = kp k)
    (hroot : (kp [], none) ∉ w.infos)
    (hbase : BaseAncOK (S.view .base w.fs) w.infos)
    (hbackup : BackupAncOK (S.view .backup w.fs) w.infos)
    (Lk : Key → Prop)
    (hsep : ∀ a k, Lk a → LinkTracked w.infos k → a <+: k → a = k)
    (hact : ∀ (k : Key) (w' : World), LinkTracked w.infos k → S.G w'.fs →
      S.view .backup w'.fs = S.view .backup w.fs → NoLinkAnc (S.view .base w'.fs) k →
      Sat (restoreLinkAct cfg w.infos (kp k)) w' (fun w'' _ => S.ChgL .base (· = k) w' w'' ∧
        (¬ Lk k → S.Chg .base (· = k) w' w''))) :
    Sat (rollback cfg) w (fun w' _ =>
      S.Foot (BaseFoot (S.view .backup w.fs) w.infos) (FileFoot (S.view .backup w.fs) w.infos)
        (BackupFoot w.infos) Lk w w') := by
  -- every planned path is the path of a tracked non-root key
  have hsome : ∀ {p : Path} {i : Info}, p ≠ rootP → (p, some i) ∈ w.infos → ∃ k, p = kp k ∧ TrackedKey w.infos k (some i) := by
    intro p i hp hm
    obtain ⟨k, hk, rfl⟩ := hkeys p _ hm
    exact ⟨k, rfl, hk, fun e => hp (by rw [e]; rfl), hm⟩
  have hnone : ∀ {p : Path}, (p, none) ∈ w.infos → ∃ k, p = kp k ∧ TrackedKey w.infos k none := by
    intro p hm
    obtain ⟨k, hk, rfl⟩ := hkeys p _ hm
    exact ⟨k, rfl, hk, fun e => hroot (e ▸ hm), hm⟩
  -- the first three restore loops create no symlink; the fourth only at keys in `Lk`;
  -- no restore loop touches the backup; the clean-up loops never touch the base
  let PR : World → Prop := S.Foot (BaseFoot (S.view .backup w.fs) w.infos) (FileFoot (S.view .backup w.fs) w.infos)
    (fun _ => False) (fun _ => False) w
  let PL : World → Prop := S.Foot (BaseFoot (S.view .backup w.fs) w.infos) (FileFoot (S.view .backup w.fs) w.infos)
    (fun _ => False) Lk w
  let PC : World → Prop := S.Foot (BaseFoot (S.view .backup w.fs) w.infos) (FileFoot (S.view .backup w.fs) w.infos)
    (BackupFoot w.infos) Lk w
  have hPL : ∀ w1, PR w1 → PL w1 := fun w1 h => h.mono (fun _ h => h) (fun _ h => h) (fun _ h => h) (fun _ h => h.elim)
  have hLC : ∀ w1, PL w1 → PC w1 := fun w1 h => h.mono (fun _ h => h) (fun _ h => h) (fun _ h => h.elim) (fun _ h => h)
  have hPC : ∀ w1, PR w1 → PC w1 := fun w1 h => hLC w1 (hPL w1 h)
  -- while no symlink has been created, no proper ancestor of a tracked key is one
  have haccR : ∀ {w1 : World} {k : Key} {oi : Option Info}, PR w1 → TrackedKey w.infos k oi →
      NoLinkAnc (S.view .base w1.fs) k := by
    intro w1 k oi h1 ht a ha hne hl
    rcases h1.links a hl with h0 | hf
    · exact hbase k oi ht a ha hne h0
    · exact hf
  -- in the symlink loop: the symlinks created so far sit at keys in `Lk`, none of which is a proper
  -- ancestor of a key tracked as a symlink
  have haccL : ∀ {w1 : World} {k : Key}, PL w1 → LinkTracked w.infos k → NoLinkAnc (S.view .base w1.fs) k := by
    intro w1 k h1 hlt a ha hne hl
    rcases h1.links a hl with h0 | hla
    · obtain ⟨i, ht, _⟩ := hlt
      exact hbase k _ ht a ha hne h0
    · exact hne (hsep a k hla hlt ha)
  unfold rollback
  apply Sat.bind
  apply Sat.getW
  simp only
  apply Sat.bind
  apply (sat_classify_any S (infos := w.infos) w.infos {} w w (fun _ h => h) (SameFS.refl w) hg (PlanOK.empty _)).mono
  intro w1 r ⟨hs1, hplan⟩
  have h1 : PR w1 := LSim.Foot.of_same hg hs1
  cases r with
  | error e => exact hPC w1 h1
  | ok pl =>
    have hpl := hplan pl rfl
    simp only
    -- created entries are removed
    apply Sat.seq (P := PR) _ hPC
    rotate_left
    · apply sat_forEach_any (P := PR) _ w1 h1
      intro x hx w' h'
      obtain ⟨k, rfl, ht⟩ := hnone (hpl.rem x ((sortBy_perm _ _).mem_iff.mp hx))
      exact (sat_removeBaseAct_fp h'.good ht.1 ht.2.1 (haccR h' ht)).mono (fun _ _ hc => h'.trans
        (LSim.Foot.of_base hc (fun j e => ⟨k, none, ht, Or.inl e⟩) (fun j e => ⟨k, none, ht, Or.inl e⟩)))
    intro e1 w2 h2
    -- directories are restored
    apply Sat.seq (P := PR) _ hPC
    rotate_left
    · apply sat_forEach_any (P := PR) _ w2 h2
      intro x hx w' h'
      obtain ⟨hp, i, hm, hkind⟩ := hpl.dirs x ((sortBy_perm _ _).mem_iff.mp hx)
      obtain ⟨k, rfl, ht⟩ := hsome hp hm
      exact (sat_restoreDirAct_fp h'.good ht.1 ht.2.1 (haccR h' ht)).mono (fun _ _ hc => h'.trans
        (LSim.Foot.of_dir hc (fun j hj => ⟨k, some i, ht, Or.inr (Or.inr ⟨i, rfl, hkind, hj⟩)⟩)
          ⟨k, some i, ht, Or.inl rfl⟩))
    intro e2 w3 h3
    -- files are restored: the backup view is still the one Rollback started with
    apply Sat.seq (P := PR) _ hPC
    rotate_left
    · apply sat_forEach_any (P := PR) _ w3 h3
      intro x hx w' h'
      obtain ⟨hp, i, hm, hkind⟩ := hpl.files x ((sortBy_perm _ _).mem_iff.mp hx)
      obtain ⟨k, rfl, ht⟩ := hsome hp hm
      have hbk : S.view .backup w'.fs = S.view .backup w.fs := funext (fun j => h'.backup j (fun h => h))
      have hbacc : NoLinkAnc (S.view .backup w'.fs) k := by rw [hbk]; exact hbackup k i ht
      exact (sat_restoreFileAct_fp h'.good ht.1 ht.2.1 (haccR h' ht) hbacc).mono (fun _ _ hc => h'.trans
        (LSim.Foot.of_base hc (fun j hj => ⟨k, some i, ht, (FileReach.touches hkind (hbk ▸ hj)).touches⟩)
          (fun j hj => ⟨k, some i, ht, FileReach.touches hkind (hbk ▸ hj)⟩)))
    intro e3 w4 h4
    have h4 : PL w4 := hPL w4 h4
    -- symlinks are restored: each act is confined to its key, where a symlink may appear
    apply Sat.seq (P := PL) _ hLC
    rotate_left
    · apply sat_forEach_any (P := PL) _ w4 h4
      intro x hx w' h'
      obtain ⟨hp, i, hm, hkind⟩ := hpl.links x ((sortBy_perm _ _).mem_iff.mp hx)
      obtain ⟨k, rfl, ht⟩ := hsome hp hm
      have hlt : LinkTracked w.infos k := ⟨i, ht, hkind⟩
      have hbk : S.view .backup w'.fs = S.view .backup w.fs := funext (fun j => h'.backup j (fun h => h))
      apply (hact k w' hlt h'.good hbk (haccL h' hlt)).mono
      intro w'' _ ⟨hc, hcn⟩
      apply h'.trans
      by_cases hlk : Lk k
      · exact LSim.Foot.of_link hc ⟨k, some i, ht, Or.inl rfl⟩ ⟨k, some i, ht, Or.inl rfl⟩ hlk
      · exact LSim.Foot.of_base (hcn hlk) (fun j e => ⟨k, some i, ht, Or.inl e⟩) (fun j e => ⟨k, some i, ht, Or.inl e⟩)
    intro e4 w5 h5
    have h5 : PC w5 := hLC w5 h5
    -- the clean-up of the backup
    apply Sat.seq (P := PC) _ (fun _ h => h)
    rotate_left
    · apply sat_removeBackupPaths_foot h5
      intro x hx
      obtain ⟨hp, i, hm, _⟩ := hpl.links x hx
      obtain ⟨k, rfl, ht⟩ := hsome hp hm
      exact ⟨k, ht.1, ht.2.1, rfl, ⟨i, ht⟩, hbackup k i ht⟩
    intro e5 w6 h6
    apply Sat.seq (P := PC) _ (fun _ h => h)
    rotate_left
    · apply sat_removeBackupPaths_foot h6
      intro x hx
      obtain ⟨hp, i, hm, _⟩ := hpl.files x hx
      obtain ⟨k, rfl, ht⟩ := hsome hp hm
      exact ⟨k, ht.1, ht.2.1, rfl, ⟨i, ht⟩, hbackup k i ht⟩
    intro e6 w7 h7
    apply Sat.seq (P := PC) _ (fun _ h => h)
    rotate_left
    · apply sat_removeBackupPaths_foot h7
      intro x hx
      obtain ⟨hp, i, hm, _⟩ := hpl.dirs x hx
      obtain ⟨k, rfl, ht⟩ := hsome hp hm
      exact ⟨k, ht.1, ht.2.1, rfl, ⟨i, ht⟩, hbackup k i ht⟩
    intro e7 w8 h8
    apply Sat.bind
    apply Sat.modifyW
    apply Sat.pure
    exact ⟨h8.good, h8.base, h8.leaves, h8.backup, h8.blinks, h8.links⟩

/-- over the bare contract, with the condition on the tracked map -/
theorem sat_rollback_foot_apart {w : World} (hg : S.G w.fs)
    (hkeys : ∀ p oi, (p, oi) ∈ w.infos → ∃ k, PKey k ∧ p = kp k)
    (hroot : (kp [], none) ∉ w.infos)
    (hbase : BaseAncOK (S.view .base w.fs) w.infos)
    (hbackup : BackupAncOK (S.view .backup w.fs) w.infos)
    (hapart : LinksApart w.infos) :
    Sat (rollback cfg) w (fun w' _ =>
      S.Foot (BaseFoot (S.view .backup w.fs) w.infos) (FileFoot (S.view .backup w.fs) w.infos)
        (BackupFoot w.infos) (LinkTracked w.infos) w w') :=
  sat_rollback_foot_core hg hkeys hroot hbase hbackup (LinkTracked w.infos) hapart
    (fun k w' hlt hg' _ hacc => by
      obtain ⟨i, ht, hkind⟩ := hlt
      exact (sat_restoreLinkAct_fp hg' ht.1 ht.2.1 hacc).mono
        (fun _ _ h => ⟨h, fun hn => absurd ⟨i, ht, hkind⟩ hn⟩))

/-- with the law "`Readlink` fails on what is not a symlink": no condition on the tracked map -/
theorem sat_rollback_foot (hrl : S.ReadlinkStrict) {w : World} (hg : S.G w.fs)
    (hkeys : ∀ p oi, (p, oi) ∈ w.infos → ∃ k, PKey k ∧ p = kp k)
    (hroot : (kp [], none) ∉ w.infos)
    (hbase : BaseAncOK (S.view .base w.fs) w.infos)
    (hbackup : BackupAncOK (S.view .backup w.fs) w.infos) :
    Sat (rollback cfg) w (fun w' _ =>
      S.Foot (BaseFoot (S.view .backup w.fs) w.infos) (FileFoot (S.view .backup w.fs) w.infos)
        (BackupFoot w.infos) (LinkFrom (S.view .backup w.fs) w.infos) w w') := by
  apply sat_rollback_foot_core hg hkeys hroot hbase hbackup (LinkFrom (S.view .backup w.fs) w.infos)
  · -- a key whose backup entry is a symlink is not a proper ancestor of a key tracked with an original
    intro a k ⟨_, hla⟩ ⟨i, ht, _⟩ hpre
    apply Classical.byContradiction
    intro hne
    exact hbackup k i ht a hpre hne hla
  · intro k w' hlt hg' hbk hacc
    obtain ⟨i, ht, _⟩ := hlt
    have hbacc : NoLinkAnc (S.view .backup w'.fs) k := by rw [hbk]; exact hbackup k i ht
    apply (sat_restoreLinkAct_fp2 hrl hg' ht.1 ht.2.1 hacc hbacc).mono
    intro w'' _ ⟨hc, hcn⟩
    refine ⟨hc, fun hn => hcn (fun hl => hn ⟨⟨i, ht, ‹_›⟩, ?_⟩)⟩
    rw [← hbk]; exact hl

/-! ### the theorem, in plain terms -/

/-- **C13, state level, with symlinks.**  For every world with a well-formed disk — whatever other
actors did to the two trees short of putting a symlink ABOVE a tracked path, whatever the fault plan
— `Rollback` leaves
* the base view unchanged at every key outside `BaseFoot`,
* every regular file and every symlink of the base unchanged outside `FileFoot`,
* the backup view unchanged at every key that is not tracked with an original (`BackupFoot`);
* it creates no symlink in the backup and retargets none, and a symlink of the base afterwards was a
  symlink before or sits at a key tracked as a symlink whose backup entry is a symlink. -/
theorem rollback_frame (S : LSim cfg) (hrl : S.ReadlinkStrict) {w : World} (hg : S.G w.fs)
    (hkeys : ∀ p oi, (p, oi) ∈ w.infos → ∃ k, PKey k ∧ p = kp k)
    (hroot : (kp [], none) ∉ w.infos)
    (hbase : BaseAncOK (S.view .base w.fs) w.infos)
    (hbackup : BackupAncOK (S.view .backup w.fs) w.infos) :
    S.G (rollback cfg w).1.fs ∧
    (∀ j, ¬ BaseFoot (S.view .backup w.fs) w.infos j → S.view .base (rollback cfg w).1.fs j = S.view .base w.fs j) ∧
    (∀ j, ¬ FileFoot (S.view .backup w.fs) w.infos j →
      (S.view .base w.fs).isFileAt j ∨ isLinkAt (S.view .base w.fs) j →
      S.view .base (rollback cfg w).1.fs j = S.view .base w.fs j) ∧
    (∀ j, ¬ BackupFoot w.infos j → S.view .backup (rollback cfg w).1.fs j = S.view .backup w.fs j) ∧
    LinkMono (S.view .backup w.fs) (S.view .backup (rollback cfg w).1.fs) ∧
    (∀ j, isLinkAt (S.view .base (rollback cfg w).1.fs) j →
      isLinkAt (S.view .base w.fs) j ∨ LinkFrom (S.view .backup w.fs) w.infos j) := by
  have h := sat_rollback_foot (S := S) hrl hg hkeys hroot hbase hbackup
  exact ⟨h.good, h.base, h.leaves, h.backup, h.blinks, h.links⟩

/-- the same with the footprints spelled out entry by entry -/
theorem rollback_frame_entries (S : LSim cfg) (hrl : S.ReadlinkStrict) {w : World} (hg : S.G w.fs)
    (hkeys : ∀ p oi, (p, oi) ∈ w.infos → ∃ k, PKey k ∧ p = kp k)
    (hroot : (kp [], none) ∉ w.infos)
    (hbase : BaseAncOK (S.view .base w.fs) w.infos)
    (hbackup : BackupAncOK (S.view .backup w.fs) w.infos) :
    S.G (rollback cfg w).1.fs ∧
    (∀ j, (∀ k oi, (kp k, oi) ∈ w.infos → PKey k → k ≠ [] → ¬ Touches (S.view .backup w.fs) k oi j) →
      S.view .base (rollback cfg w).1.fs j = S.view .base w.fs j) ∧
    (∀ j, (∀ k oi, (kp k, oi) ∈ w.infos → PKey k → k ≠ [] → ¬ TouchesFile (S.view .backup w.fs) k oi j) →
      (S.view .base w.fs).isFileAt j ∨ isLinkAt (S.view .base w.fs) j →
      S.view .base (rollback cfg w).1.fs j = S.view .base w.fs j) ∧
    (∀ j, (j = [] ∨ ∀ i, (kp j, some i) ∉ w.infos) →
      S.view .backup (rollback cfg w).1.fs j = S.view .backup w.fs j) := by
  obtain ⟨g, hb, hf, hk, _, _⟩ := rollback_frame S hrl hg hkeys hroot hbase hbackup
  refine ⟨g, fun j hj => hb j ?_, fun j hj => hf j ?_, fun j hj => hk j ?_⟩
  · rintro ⟨k, oi, ⟨hk, hne, hm⟩, ht⟩
    exact hj k oi hm hk hne ht
  · rintro ⟨k, oi, ⟨hk, hne, hm⟩, ht⟩
    exact hj k oi hm hk hne ht
  · rintro ⟨i, _, hne, hm⟩
    rcases hj with rfl | hj
    · exact hne rfl
    · exact hj i hm

end L
end BFS
