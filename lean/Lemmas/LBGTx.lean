import Lemmas.LBGOps
/-!
  Lemmas/LBGTx.lean — names through FLAT links (`G.Op.Covered`, Lemmas/GTx.lean): every covered operation
  keeps the strengthened invariant `L.InvB` on healthy filesystems; since Rollback never resolves a name,
  the Rollback half is `L.sat_rollbackB` (Lemmas/LBRestore.lean) verbatim: Rollback returns nil and
  leaves the backup as it was, for any number of transactions.
-/
namespace BFS
namespace L
namespace G
open BackupFS F16

section
variable {bk kk : Key} {hbk : PKey bk} {hkk : PKey kk} {hne1 : bk ≠ []} {hne2 : kk ≠ []}
  {hd1 : ¬ bk <+: kk} {hd2 : ¬ kk <+: bk} {v0 : View} {r0 : Option Node}

/-- on the OS model with healthy filesystems, a covered operation (names through flat links) —
successful or not — keeps the strengthened invariant `L.InvB` -/
theorem op_keepsB {w : World} {op : Op}
    (hinv : InvB (osSimL bk kk hbk hkk hne1 hne2 hd1 hd2) v0 r0 w)
    (hc : Op.Covered bk (osSimL bk kk hbk hkk hne1 hne2 hd1 hd2) w op) :
    KeptB (osSimL bk kk hbk hkk hne1 hne2 hd1 hd2) v0 r0 w (op.step (osCfg bk kk) w) := by
  have key : Sat (op.exec (osCfg bk kk)) w
      (fun w' _ => KeptB (osSimL bk kk hbk hkk hne1 hne2 hd1 hd2) v0 r0 w w') := by
    cases op with
    | creat p d =>
      obtain ⟨habs, hflat, h⟩ := hc
      obtain ⟨k, hk, hname⟩ := clean_abs habs
      obtain ⟨hr, hres, hacc⟩ := resolved hinv.inv hflat hk hname
      exact sat_creatGB (osSymErrPure bk kk) hinv hr hres ⟨hacc, h k hk hname⟩
    | write p f pm d =>
      apply sat_writeGB (osSymErrPure bk kk) hinv
      rcases hc with h | ⟨habs, hflat, h⟩
      · exact Or.inl h
      · obtain ⟨k, hk, hname⟩ := clean_abs habs
        obtain ⟨hr, hres, hacc⟩ := resolved hinv.inv hflat hk hname
        exact Or.inr ⟨_, hr, hres, ⟨hacc, h k hk hname⟩⟩
    | mkdir p m =>
      obtain ⟨habs, hflat, h⟩ := hc
      obtain ⟨k, hk, hname⟩ := clean_abs habs
      obtain ⟨hr, hres, hacc⟩ := resolved hinv.inv hflat hk hname
      exact sat_unit_outB' (sat_mkdirGB (osSymErrPure bk kk) hinv hr hres ⟨hacc, h k hk hname⟩)
    | mkdirAll p m =>
      obtain ⟨habs, hflat, h⟩ := hc
      obtain ⟨k, hk, hname⟩ := clean_abs habs
      obtain ⟨hr, hres, hacc⟩ := resolved hinv.inv hflat hk hname
      exact sat_unit_outB (sat_mkdirAllGB (osSymErrPure bk kk) hinv hr hres ⟨hacc, h k hk hname⟩)
    | remove p =>
      obtain ⟨habs, hnr, hflat, h⟩ := hc
      obtain ⟨k, hk, hname⟩ := clean_abs habs
      have hne : k ≠ [] := by
        intro e; subst e; exact hnr hname
      obtain ⟨hr, hres, hacc⟩ := resolved hinv.inv hflat hk hname
      exact sat_unit_outB' (sat_removeGB (osSymErrPure bk kk) hinv hr (rk_ne hne) hres ⟨hacc, h k hk hname⟩)
    | removeAll p =>
      obtain ⟨habs, hnr, hflat, h⟩ := hc
      obtain ⟨k, hk, hname⟩ := clean_abs habs
      have hne : k ≠ [] := by
        intro e; subst e; exact hnr hname
      obtain ⟨hr, hres, hacc⟩ := resolved hinv.inv hflat hk hname
      exact sat_unit_outB (sat_removeAllGB (osSymErrPure bk kk) hinv hr (rk_ne hne) hres hacc (h k hk hname))
    | rename o n =>
      obtain ⟨habso, habsn, hflat, h⟩ := hc
      obtain ⟨ko, hko, ho⟩ := clean_abs habso
      obtain ⟨kn, hkn, hn⟩ := clean_abs habsn
      obtain ⟨hlo, hln, hleaf, hnb⟩ := h ko kn hko hkn ho hn
      obtain ⟨hro, hreso, hacco⟩ := resolved hinv.inv hflat hko ho
      obtain ⟨hrn, hresn, haccn⟩ := resolved hinv.inv hflat hkn hn
      exact sat_unit_outB (sat_renameGB (osSymErrPure bk kk) hinv hro hrn hreso hresn ⟨hacco, hlo⟩ ⟨haccn, hln⟩ hleaf hnb)
    | symlink o n =>
      obtain ⟨habs, hflat, h⟩ := hc
      obtain ⟨kn, hkn, hn⟩ := clean_abs habs
      obtain ⟨hln, hnb⟩ := h kn hkn hn
      obtain ⟨hrn, hresn, haccn⟩ := resolved hinv.inv hflat hkn hn
      exact sat_unit_outB (sat_symlinkGB (osSymErrPure bk kk) hinv hrn hresn ⟨haccn, hln⟩ hnb)
    | chmod p m =>
      obtain ⟨habs, hflat, h⟩ := hc
      obtain ⟨k, hk, hname⟩ := clean_abs habs
      obtain ⟨hr, hres, hacc⟩ := resolved hinv.inv hflat hk hname
      exact sat_unit_outB' (sat_chmodGB (osSymErrPure bk kk) hinv hr hres ⟨hacc, h k hk hname⟩)
    | chown p u g =>
      obtain ⟨habs, hflat, h⟩ := hc
      obtain ⟨k, hk, hname⟩ := clean_abs habs
      obtain ⟨hr, hres, hacc⟩ := resolved hinv.inv hflat hk hname
      exact sat_unit_outB' (sat_chownGB (osSymErrPure bk kk) hinv hr hres ⟨hacc, h k hk hname⟩)
    | lchown p u g =>
      obtain ⟨habs, hflat, h⟩ := hc
      obtain ⟨k, hk, hname⟩ := clean_abs habs
      obtain ⟨hr, hres, hacc⟩ := resolved hinv.inv hflat hk hname
      exact sat_unit_outB' (sat_lchownGB (osSymErrPure bk kk) hinv hr hres ⟨hacc, h k hk hname⟩)
    | chtimes p t =>
      obtain ⟨habs, hflat, h⟩ := hc
      obtain ⟨k, hk, hname⟩ := clean_abs habs
      obtain ⟨hr, hres, hacc⟩ := resolved hinv.inv hflat hk hname
      exact sat_unit_outB' (sat_chtimesGB (osSymErrPure bk kk) hinv hr hres ⟨hacc, h k hk hname⟩)
    | stat p => exact L.op_keepsB (osSymErrPure bk kk) (op := .stat p) hinv trivial
    | lstat p => exact L.op_keepsB (osSymErrPure bk kk) (op := .lstat p) hinv trivial
    | readlink p => exact L.op_keepsB (osSymErrPure bk kk) (op := .readlink p) hinv trivial
    | force p => exact absurd hc id
  exact key

/-- after any covered history the strengthened invariant holds -/
theorem history_keepsB : ∀ (ops : List Op) (w : World),
    InvB (osSimL bk kk hbk hkk hne1 hne2 hd1 hd2) v0 r0 w →
    CoveredHist (osCfg bk kk) bk (osSimL bk kk hbk hkk hne1 hne2 hd1 hd2) w ops →
    KeptB (osSimL bk kk hbk hkk hne1 hne2 hd1 hd2) v0 r0 w (runOps (osCfg bk kk) w ops)
  | [], w, hinv, _ => KeptB.refl hinv
  | op :: rest, w, hinv, hc => by
    have h1 := op_keepsB hinv hc.1
    have h2 := history_keepsB rest (op.step (osCfg bk kk) w) h1.inv hc.2
    exact h1.trans h2


/-- one transaction: Rollback returns nil, the backup is empty again below its root, whose node is unchanged -/
theorem tx_cleanG {w : World} (hg : OSGoodL bk kk w.fs) (hinfos : w.infos = []) (hnf : w.faults = [])
    (hempty : ∀ k, k ≠ [] → osViewL bk kk .backup w.fs k = none) (ops : List Op)
    (hcov : CoveredHist (osCfg bk kk) bk (osSimL bk kk hbk hkk hne1 hne2 hd1 hd2) w ops) :
    (rollback (osCfg bk kk) (runOps (osCfg bk kk) w ops)).2 = .ok false ∧
    (∀ k, k ≠ [] → osViewL bk kk .backup (runTx (osCfg bk kk) w ops).fs k = none) ∧
    osViewL bk kk .backup (runTx (osCfg bk kk) w ops).fs [] = osViewL bk kk .backup w.fs [] := by
  have hk := history_keepsB (hbk := hbk) (hkk := hkk) (hne1 := hne1) (hne2 := hne2) (hd1 := hd1) (hd2 := hd2)
    ops w (InvB.init (S := osSimL bk kk hbk hkk hne1 hne2 hd1 hd2) hg hinfos hnf hempty) hcov
  have hr := (sat_rollbackB (cfg := osCfg bk kk) hk.inv).elim
  exact ⟨hr.1, hr.2.2.2.2.1, hr.2.2.2.2.2⟩

theorem tx_backup_sameG {w : World} (hg : OSGoodL bk kk w.fs) (hinfos : w.infos = []) (hnf : w.faults = [])
    (hempty : ∀ k, k ≠ [] → osViewL bk kk .backup w.fs k = none) (ops : List Op)
    (hcov : CoveredHist (osCfg bk kk) bk (osSimL bk kk hbk hkk hne1 hne2 hd1 hd2) w ops) :
    osViewL bk kk .backup (runTx (osCfg bk kk) w ops).fs = osViewL bk kk .backup w.fs := by
  obtain ⟨_, h1, h2⟩ := tx_cleanG (hbk := hbk) (hkk := hkk) (hne1 := hne1) (hne2 := hne2) (hd1 := hd1) (hd2 := hd2)
    hg hinfos hnf hempty ops hcov
  funext k
  by_cases hk : k = []
  · subst hk; exact h2
  · rw [h1 k hk, hempty k hk]

/-- any number of consecutive transactions: every Rollback returns nil and after the last one the backup
is as it was before the first -/
theorem txs_cleanG : ∀ (txs : List (List Op)) (w : World), OSGoodL bk kk w.fs → w.infos = [] → w.faults = [] →
    (∀ k, k ≠ [] → osViewL bk kk .backup w.fs k = none) →
    CoveredTxs (osCfg bk kk) bk (osSimL bk kk hbk hkk hne1 hne2 hd1 hd2) w txs →
    osViewL bk kk .backup (txs.foldl (runTx (osCfg bk kk)) w).fs = osViewL bk kk .backup w.fs ∧
    ∀ pre ops post, txs = pre ++ ops :: post →
      (rollback (osCfg bk kk) (runOps (osCfg bk kk) (pre.foldl (runTx (osCfg bk kk)) w) ops)).2 = .ok false
  | [], w, _, _, _, _, _ => ⟨rfl, by intro pre ops post h; simp at h⟩
  | ops :: rest, w, hg, hi, hf, he, hc => by
    obtain ⟨g1, i1, f1, _⟩ := tx_restores (hbk := hbk) (hkk := hkk) (hne1 := hne1) (hne2 := hne2) (hd1 := hd1) (hd2 := hd2)
      hg hi hf (backupLinksOK_of_empty (S := osSimL bk kk hbk hkk hne1 hne2 hd1 hd2) hg he) ops hc.1
    obtain ⟨hres, hcl, _⟩ := tx_cleanG (hbk := hbk) (hkk := hkk) (hne1 := hne1) (hne2 := hne2) (hd1 := hd1) (hd2 := hd2)
      hg hi hf he ops hc.1
    have hsame := tx_backup_sameG (hbk := hbk) (hkk := hkk) (hne1 := hne1) (hne2 := hne2) (hd1 := hd1) (hd2 := hd2)
      hg hi hf he ops hc.1
    obtain ⟨h2, h3⟩ := txs_cleanG rest (runTx (osCfg bk kk) w ops) g1 i1 f1 hcl hc.2
    refine ⟨by rw [List.foldl_cons, h2, hsame], ?_⟩
    intro pre ops' post heq
    cases pre with
    | nil =>
      simp only [List.nil_append, List.cons.injEq] at heq
      obtain ⟨rfl, _⟩ := heq
      exact hres
    | cons p pre' =>
      simp only [List.cons_append, List.cons.injEq] at heq
      obtain ⟨rfl, heq⟩ := heq
      rw [List.foldl_cons]
      exact h3 pre' ops' post heq

end

end G
end L
end BFS
