import Lemmas.DFrame
/-!
  Lemmas/DWF.lean — `WFB pk m`: a well-formed disk (a tree of plain names whose inner nodes are
  directories) with no symlink at or below key `pk` nor among the ancestors of `pk`.  Unlike
  `OSGood pk pk m` it does not require the directory `pk` to exist, so it survives the removal of the
  prefix directory itself.  Name resolution of `kp (pk ++ x)` on such disks, and preservation by
  the elementary updates.
-/
namespace BFS
namespace D
open MFS

structure WFB (pk : Key) (m : MFS) : Prop where
  root : ∃ mt, m.get [] = some (.dir mt)
  pkey : ∀ k n, m.get k = some n → PKey k
  dom : ∀ k n, m.get k = some n → k ∈ m.dom
  mode : ∀ k n, m.get k = some n → n.meta.mode < 4096
  parent : ∀ k n, m.get k = some n → k ≠ [] → ∃ mt, m.get k.dropLast = some (.dir mt)
  nolink : ∀ k t mt, (pk <+: k ∨ k <+: pk) → m.get k ≠ some (.link t mt)

theorem WFB.of_good {bk kk : Key} {m : MFS} (hg : OSGood bk kk m) : WFB bk m := by
  refine ⟨hg.root, hg.pkey, hg.dom, hg.mode, hg.parent, ?_⟩
  intro k t mt h
  rcases h with h | h
  · exact hg.nolink k t mt (Or.inl h)
  · by_cases he : k = bk
    · rw [he]; exact hg.nolink bk t mt (Or.inl List.prefix_rfl)
    · obtain ⟨mt0, hb⟩ := hg.bdir
      obtain ⟨mt1, h1⟩ := hg.ancestor hb h he
      rw [h1]; intro e; cases e

theorem WFB.to_good {pk : Key} {m : MFS} (hw : WFB pk m) (hd : ∃ mt, m.get pk = some (.dir mt)) :
    OSGood pk pk m :=
  ⟨hw.root, hw.pkey, hw.dom, hw.mode, hw.parent, hd, hd,
    fun k t mt h => hw.nolink k t mt (Or.inl (h.elim id id))⟩

section
variable {pk : Key}

theorem WFB.anc {m} (hg : WFB pk m) :
    ∀ (n : Nat) (k : Key) (node : Node), k.length = n → m.get k = some node →
      ∀ p, p <+: k → p ≠ k → ∃ mt, m.get p = some (.dir mt) := by
  intro n
  induction n with
  | zero =>
    intro k node hl _ p hp hne
    have : k = [] := List.length_eq_zero_iff.mp hl
    subst this
    exact absurd (List.prefix_nil.mp hp) hne
  | succ n ih =>
    intro k node hl hk p hp hne
    have hkne : k ≠ [] := by intro e; rw [e] at hl; cases hl
    obtain ⟨mt, hpar⟩ := hg.parent k node hk hkne
    have hp' := prefix_dropLast hp hne
    by_cases he : p = k.dropLast
    · exact ⟨mt, he ▸ hpar⟩
    · exact ih k.dropLast _ (by simp [hl]) hpar p hp' he

theorem WFB.ancestor {m} (hg : WFB pk m) {k : Key} {node : Node} (hk : m.get k = some node)
    {p : Key} (hp : p <+: k) (hne : p ≠ k) : ∃ mt, m.get p = some (.dir mt) :=
  hg.anc k.length k node rfl hk p hp hne

theorem WFB.below_none {m} (hg : WFB pk m) {p k : Key} (hp : p <+: k) (h : m.get p = none) :
    m.get k = none := by
  cases hk : m.get k with
  | none => rfl
  | some node =>
    by_cases he : p = k
    · rw [he, hk] at h; cases h
    · obtain ⟨mt, h'⟩ := hg.ancestor hk hp he
      rw [h] at h'; cases h'

theorem WFB.below_nondir {m} (hg : WFB pk m) {p k : Key} {n : Node} (hp : p <+: k) (hne : p ≠ k)
    (h : m.get p = some n) (hnd : n.isDir = false) : m.get k = none := by
  cases hk : m.get k with
  | none => rfl
  | some node =>
    obtain ⟨mt, h'⟩ := hg.ancestor hk hp hne
    rw [h] at h'
    cases h'
    cases hnd

theorem WFB.noLinkUpto {m} (hg : WFB pk m) (x : Key) : NoLinkUpto m (pk ++ x) := by
  intro p hp t mt
  rcases List.prefix_or_prefix_of_prefix hp (List.prefix_append pk x) with h | h
  · exact hg.nolink p t mt (Or.inr h)
  · exact hg.nolink p t mt (Or.inl h)

/-- name resolution of a text naming a key at or below `pk` -/
theorem WFB.resolve {m} (hg : WFB pk m) {t : Path} {K : Key} (hK : PKey K) (hnl : NoLinkUpto m K)
    (h : TextOf t K) (f : Bool) : NameiCase m K (namei m t f) := by
  cases hn : m.get K with
  | some n =>
    have hl : n.isLink = false := by
      cases n with
      | link t mt => exact absurd hn (hnl K List.prefix_rfl t mt)
      | file c mt => rfl
      | dir mt => rfl
    exact .found n hn hl (namei_found m f hK h hn hl (fun p hp hne => hg.ancestor hn hp hne))
  | none =>
    have hne : K ≠ [] := by
      intro e
      obtain ⟨mt, hr⟩ := hg.root
      rw [e, hr] at hn
      cases hn
    by_cases hp : ∃ mt, m.get K.dropLast = some (.dir mt)
    · obtain ⟨mt, hp⟩ := hp
      refine .missing hne mt hn hp (namei_missing m f hK h hne hn ?_)
      intro p hpre hpne
      have hp' := prefix_dropLast hpre hpne
      by_cases he : p = K.dropLast
      · exact ⟨mt, he ▸ hp⟩
      · exact hg.ancestor hp hp' he
    · obtain ⟨e, hr, he⟩ := namei_err m f hK h hne hg.root hp (fun p hpre _ => hnl p hpre)
      exact .err e hne hn hp hr he

theorem WFB.resolve_key {m} (hg : WFB pk m) (hpk : PKey pk) {x : Key} (hx : PKey x) {t : Path}
    (h : TextOf t (pk ++ x)) (f : Bool) : NameiCase m (pk ++ x) (namei m t f) :=
  hg.resolve (hpk.append hx) (hg.noLinkUpto x) h f

/-! ### preservation -/

theorem WFB.set_repl {m : MFS} (hg : WFB pk m) {K : Key} {a b : Node}
    (ha : m.get K = some a) (hd : b.isDir = a.isDir) (hl : b.isLink = a.isLink) (hm : b.meta.mode < 4096) :
    WFB pk (m.set K (some b)) := by
  have hdir : ∀ p, (∃ mt, m.get p = some (.dir mt)) → ∃ mt, (m.set K (some b)).get p = some (.dir mt) := by
    intro p ⟨mt, hp⟩
    by_cases hpk : p = K
    · subst hpk
      rw [ha] at hp
      cases hp
      obtain ⟨mt', rfl⟩ := isDir_true (n := b) (by rw [hd]; rfl)
      exact ⟨mt', set_get_self _ _ _⟩
    · exact ⟨mt, by rw [set_get_ne m _ hpk]; exact hp⟩
  refine ⟨hdir _ hg.root, ?_, ?_, ?_, ?_, ?_⟩
  · intro k n h
    rcases set_get_some h with ⟨rfl, _⟩ | ⟨_, h'⟩
    · exact hg.pkey _ a ha
    · exact hg.pkey k n h'
  · intro k n h
    rcases set_get_some h with ⟨rfl, _⟩ | ⟨_, h'⟩
    · exact mem_set_dom_self _ _ _
    · exact mem_set_dom_of_mem _ _ _ (hg.dom k n h')
  · intro k n h
    rcases set_get_some h with ⟨_, e⟩ | ⟨_, h'⟩
    · cases e; exact hm
    · exact hg.mode k n h'
  · intro k n h hne
    rcases set_get_some h with ⟨rfl, _⟩ | ⟨_, h'⟩
    · exact hdir _ (hg.parent _ a ha hne)
    · exact hdir _ (hg.parent k n h' hne)
  · intro k t mt hpre h
    rcases set_get_some h with ⟨rfl, e⟩ | ⟨_, h'⟩
    · cases e
      cases a with
      | link t' mt' => exact hg.nolink _ t' mt' hpre ha
      | file c mt' => cases hl
      | dir mt' => cases hl
    · exact hg.nolink k t mt hpre h'

theorem WFB.touch {m : MFS} (hg : WFB pk m) (k : Key) : WFB pk (m.touchDir k) := by
  rcases touchDir_cases m k with ⟨mt, hk, e⟩ | e
  · rw [e]
    exact hg.set_repl hk rfl rfl (hg.mode k (.dir mt) hk)
  · rw [e]; exact hg

theorem WFB.set_new {m : MFS} (hg : WFB pk m) {P : Key} {c : Name} {mt : Meta} {n' : Node}
    (hP : m.get P = some (.dir mt)) (hc : Plain c) (hnone : m.get (P ++ [c]) = none)
    (hl : n'.isLink = false) (hm : n'.meta.mode < 4096) :
    WFB pk (m.set (P ++ [c]) (some n')) := by
  have hdir : ∀ p, (∃ mt, m.get p = some (.dir mt)) → ∃ mt, (m.set (P ++ [c]) (some n')).get p = some (.dir mt) := by
    intro p ⟨mt', hp⟩
    have hpk : p ≠ P ++ [c] := by
      intro e; rw [e, hnone] at hp; cases hp
    exact ⟨mt', by rw [set_get_ne m _ hpk]; exact hp⟩
  refine ⟨hdir _ hg.root, ?_, ?_, ?_, ?_, ?_⟩
  · intro k n h
    rcases set_get_some h with ⟨rfl, _⟩ | ⟨_, h'⟩
    · exact (hg.pkey P _ hP).append (PKey.single hc)
    · exact hg.pkey k n h'
  · intro k n h
    rcases set_get_some h with ⟨rfl, _⟩ | ⟨_, h'⟩
    · exact mem_set_dom_self _ _ _
    · exact mem_set_dom_of_mem _ _ _ (hg.dom k n h')
  · intro k n h
    rcases set_get_some h with ⟨_, e⟩ | ⟨_, h'⟩
    · cases e; exact hm
    · exact hg.mode k n h'
  · intro k n h hne
    rcases set_get_some h with ⟨rfl, _⟩ | ⟨_, h'⟩
    · rw [List.dropLast_concat]
      exact hdir _ ⟨mt, hP⟩
    · exact hdir _ (hg.parent k n h' hne)
  · intro k t mt' hpre h
    rcases set_get_some h with ⟨_, e⟩ | ⟨_, h'⟩
    · cases e; cases hl
    · exact hg.nolink k t mt' hpre h'

theorem WFB.set_none {m : MFS} (hg : WFB pk m) {K : Key}
    (hch : ∀ c, m.get (K ++ [c]) = none) (hne : K ≠ []) :
    WFB pk (m.set K none) := by
  have hdir : ∀ p, p ≠ K → (∃ mt, m.get p = some (.dir mt)) → ∃ mt, (m.set K none).get p = some (.dir mt) := by
    intro p hpk ⟨mt', hp⟩
    exact ⟨mt', by rw [set_get_ne m _ hpk]; exact hp⟩
  refine ⟨hdir _ (Ne.symm hne) hg.root, ?_, ?_, ?_, ?_, ?_⟩
  · intro k n h
    rcases set_get_some h with ⟨_, e⟩ | ⟨_, h'⟩
    · cases e
    · exact hg.pkey k n h'
  · intro k n h
    rcases set_get_some h with ⟨_, e⟩ | ⟨_, h'⟩
    · cases e
    · exact mem_set_dom_of_mem _ _ _ (hg.dom k n h')
  · intro k n h
    rcases set_get_some h with ⟨_, e⟩ | ⟨_, h'⟩
    · cases e
    · exact hg.mode k n h'
  · intro k n h hkne
    rcases set_get_some h with ⟨_, e⟩ | ⟨_, h'⟩
    · cases e
    · apply hdir _ ?_ (hg.parent k n h' hkne)
      intro e
      have := hch (k.getLast hkne)
      rw [← e, dropLast_append_getLast' hkne, h'] at this
      cases this
  · intro k t mt' hpre h
    rcases set_get_some h with ⟨_, e⟩ | ⟨_, h'⟩
    · cases e
    · exact hg.nolink k t mt' hpre h'

theorem WFB.hasChildren_false_iff {m : MFS} (hg : WFB pk m) (K : Key) :
    m.hasChildren K = false ↔ ∀ c, m.get (K ++ [c]) = none := by
  unfold MFS.hasChildren
  rw [List.any_eq_false]
  constructor
  · intro h c
    cases hc : m.get (K ++ [c]) with
    | none => rfl
    | some n =>
      exfalso
      apply h (K ++ [c]) (hg.dom _ n hc)
      simp [parentKey, hc]
  · intro h c _ hp
    simp only [Bool.and_eq_true, decide_eq_true_eq] at hp
    obtain ⟨⟨hne, hpar⟩, hsome⟩ := hp
    have := h (c.getLast hne)
    unfold parentKey at hpar
    rw [← hpar, dropLast_append_getLast' hne] at this
    rw [this] at hsome
    cases hsome

/-! ### `Mkdir`, `Remove` keep the disk well-formed -/

theorem WFB.mkdir_wf {m : MFS} (hg : WFB pk m) {K : Key} {t : Path} (hK : PKey K) (perm : Nat)
    (hN : NameiCase m K (namei m t false)) : WFB pk (m.mkdir t perm).1 := by
  unfold MFS.mkdir
  rcases hN with ⟨n, hn, _, hr⟩ | ⟨hne, mt, hn, hp, hr⟩ | ⟨e, _, _, _, hr, _⟩
  · rw [hr]; exact hg
  · rw [hr]
    have hc := hK.getLast hne
    have hnone : m.get (K.dropLast ++ [K.getLast hne]) = none := by
      rw [dropLast_append_getLast' hne]; exact hn
    exact (hg.set_new hp hc hnone rfl (mkdir_mode_lt _ _ _)).touch _
  · rw [hr]; exact hg

theorem WFB.remove_wf {m : MFS} (hg : WFB pk m) {K : Key} {t : Path}
    (hN : NameiCase m K (namei m t false)) : WFB pk (m.remove t).1 := by
  unfold MFS.remove
  rcases hN with ⟨n, hn, hnl, hr⟩ | ⟨hne, mt, hn, hp, hr⟩ | ⟨e, _, _, _, hr, _⟩
  · rw [hr]
    simp only
    split
    · exact hg
    · rename_i hne
      cases n with
      | link tg mt => cases hnl
      | dir mt =>
        simp only
        split
        · exact hg
        · rename_i hch
          have hch' := (hg.hasChildren_false_iff _).mp (by simpa using hch)
          exact (hg.set_none hch' hne).touch _
      | file c mt =>
        have hch' : ∀ c', m.get (K ++ [c']) = none := fun c' =>
          hg.below_nondir (List.prefix_append _ _) (by simp) hn rfl
        exact (hg.set_none hch' hne).touch _
  · rw [hr]; exact hg
  · rw [hr]; exact hg

end
end D
end BFS
