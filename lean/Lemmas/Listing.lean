import Model.Listing
/-! The listing stream of `hiddenFile`: batches concatenate to the visible entries. -/
namespace BFS

/-- the entry `n` of directory `dir` is visible -/
def visibleName (hs : List Path) (dir : Path) (n : Name) : Bool :=
  match HiddenFS.isHidden (join dir n) hs with
  | .ok false => true
  | _ => false

def visible (hs : List Path) (dir : Path) (l : List Name) : List Name := l.filter (visibleName hs dir)

/-- the hidden check succeeds for every entry (always the case when the directory name and the
hidden paths are rooted) -/
def NoErr (hs : List Path) (dir : Path) (l : List Name) : Prop :=
  ∀ n ∈ l, ∃ b, HiddenFS.isHidden (join dir n) hs = .ok b

theorem hiddenFilter_ok (hs : List Path) (dir : Path) : ∀ (l : List Name), NoErr hs dir l →
    hiddenFilter hs dir l = .ok (visible hs dir l)
  | [], _ => rfl
  | n :: ns, h => by
    obtain ⟨b, hb⟩ := h n (by simp)
    have ih := hiddenFilter_ok hs dir ns (fun m hm => h m (List.mem_cons_of_mem _ hm))
    unfold hiddenFilter
    rw [hb, ih]
    cases b <;> simp [visible, visibleName, hb, List.filter_cons]

theorem base_split (rem : List Name) (n : Int) :
    (baseReaddirnames rem n).1 ++ (baseReaddirnames rem n).2.1 = rem ∧
    ((baseReaddirnames rem n).2.2 = true → rem = []) := by
  unfold baseReaddirnames
  split
  · simp
  · split
    · rename_i h; simp [h]
    · simp

theorem visible_append (hs : List Path) (dir : Path) (a b : List Name) :
    visible hs dir (a ++ b) = visible hs dir a ++ visible hs dir b := by
  simp [visible, List.filter_append]

theorem NoErr.of_append_left {hs dir a b} (h : NoErr hs dir (a ++ b)) : NoErr hs dir a :=
  fun n hn => h n (List.mem_append_left _ hn)
theorem NoErr.of_append_right {hs dir a b} (h : NoErr hs dir (a ++ b)) : NoErr hs dir b :=
  fun n hn => h n (List.mem_append_right _ hn)

def outNames : ListOut → List Name
  | .names l => l
  | _ => []

/-- invariant of the refill loop -/
theorem refill_spec (hs : List Path) (dir : Path) (count : Nat) :
    ∀ (fuel : Nat) (avail rem : List Name), NoErr hs dir rem →
      ∀ r, r = refill hs dir count fuel avail rem →
      (∀ e, r.1 ≠ .failed e) ∧
      (r.1 = .eof → avail = [] ∧ visible hs dir rem = []) ∧
      (∀ l, r.1 = .names l → l ++ visible hs dir r.2 = avail ++ visible hs dir rem) ∧
      (r.1 = .eof → visible hs dir r.2 = []) ∧
      NoErr hs dir r.2
  | 0, avail, rem, hne => by
    intro r hr; subst hr
    simp only [refill]
    refine ⟨(by intro e h; cases h), (by intro h; cases h), ?_, (by intro h; cases h), hne⟩
    intro l hl; cases hl; rfl
  | fuel + 1, avail, rem, hne => by
    intro r hr; subst hr
    unfold refill
    by_cases hge : avail.length ≥ count
    · simp only [hge, if_true]
      refine ⟨(by intro e h; cases h), (by intro h; cases h), ?_, (by intro h; cases h), hne⟩
      intro l hl; cases hl; rfl
    · simp only [hge, if_false]
      have hsplit := base_split rem ((count - avail.length : Nat) : Int)
      generalize hb : baseReaddirnames rem ((count - avail.length : Nat) : Int) = br at hsplit
      rcases br with ⟨batch, rem', eof⟩
      simp only at hsplit ⊢
      obtain ⟨hcat, heof⟩ := hsplit
      have hneb : NoErr hs dir batch := by rw [← hcat] at hne; exact hne.of_append_left
      have hner : NoErr hs dir rem' := by rw [← hcat] at hne; exact hne.of_append_right
      rw [hiddenFilter_ok hs dir batch hneb]
      simp only
      have hvis : visible hs dir rem = visible hs dir batch ++ visible hs dir rem' := by
        rw [← hcat, visible_append]
      cases eof with
      | true =>
        simp only [if_true]
        have hrem : rem = [] := heof rfl
        have hb0 : batch = [] ∧ rem' = [] := by
          rw [hrem] at hcat
          exact List.append_eq_nil_iff.mp hcat
        by_cases hpos : (avail ++ visible hs dir batch).length > 0
        · simp only [hpos, if_true]
          refine ⟨(by intro e h; cases h), (by intro h; cases h), ?_, (by intro h; cases h), hner⟩
          intro l hl; cases hl
          rw [hvis]; simp
        · simp only [hpos, if_false]
          have hz : avail ++ visible hs dir batch = [] := by
            apply List.eq_nil_of_length_eq_zero; omega
          obtain ⟨ha, hvb⟩ := List.append_eq_nil_iff.mp hz
          refine ⟨(by intro e h; cases h), ?_, (by intro l h; cases h), ?_, hner⟩
          · intro _; refine ⟨ha, ?_⟩; rw [hvis, hvb, hb0.2]; rfl
          · intro _; rw [hb0.2]; rfl
      | false =>
        simp only [Bool.false_eq_true, if_false]
        have ih := refill_spec hs dir count fuel (avail ++ visible hs dir batch) rem' hner _ rfl
        obtain ⟨i1, i2, i3, i4, i5⟩ := ih
        refine ⟨i1, ?_, ?_, i4, i5⟩
        · intro h
          obtain ⟨ha, hv⟩ := i2 h
          obtain ⟨ha1, hvb⟩ := List.append_eq_nil_iff.mp ha
          exact ⟨ha1, by rw [hvis, hvb, hv]; rfl⟩
        · intro l hl
          rw [i3 l hl, hvis]; simp

/-- one call of `hiddenFile.Readdirnames(count)` -/
theorem call_spec (hs : List Path) (dir : Path) (count : Int) (rem : List Name) (hne : NoErr hs dir rem) :
    ∀ r, r = hiddenReaddirnames hs dir count rem →
    (∀ e, r.1 ≠ .failed e) ∧
    outNames r.1 ++ visible hs dir r.2 = visible hs dir rem ∧
    (r.1 = .eof → visible hs dir rem = []) ∧
    NoErr hs dir r.2 := by
  intro r hr; subst hr
  unfold hiddenReaddirnames
  by_cases hc : count ≤ 0
  · simp only [hc, if_true]
    have hb : baseReaddirnames rem count = (rem, [], false) := by
      unfold baseReaddirnames; simp [hc]
    rw [hb]
    simp only
    rw [hiddenFilter_ok hs dir rem hne]
    simp only
    refine ⟨(by intro e h; cases h), ?_, (by intro h; cases h), (by intro n hn; simp at hn)⟩
    simp [outNames, visible]
  · simp only [hc, if_false]
    have := refill_spec hs dir count.toNat (rem.length + 2) [] rem hne _ rfl
    obtain ⟨i1, i2, i3, i4, i5⟩ := this
    refine ⟨i1, ?_, ?_, i5⟩
    · cases hr : (refill hs dir count.toNat (rem.length + 2) [] rem).1 with
      | names l => simpa [outNames] using i3 l hr
      | eof =>
        simp only [outNames, List.nil_append]
        rw [i4 hr, (i2 hr).2]
      | failed e => exact absurd hr (i1 e)
    · intro h; exact (i2 h).2

/-- a sequence of listing calls on one handle -/
def runCalls (hs : List Path) (dir : Path) : List Int → List Name → List ListOut × List Name
  | [], rem => ([], rem)
  | c :: cs, rem =>
    let r := hiddenReaddirnames hs dir c rem
    let rs := runCalls hs dir cs r.2
    (r.1 :: rs.1, rs.2)

theorem runCalls_spec (hs : List Path) (dir : Path) : ∀ (counts : List Int) (rem : List Name), NoErr hs dir rem →
    ∀ r, r = runCalls hs dir counts rem →
    (∀ o ∈ r.1, ∀ e, o ≠ .failed e) ∧
    r.1.flatMap outNames ++ visible hs dir r.2 = visible hs dir rem
  | [], rem, _ => by intro r hr; subst hr; simp [runCalls]
  | c :: cs, rem, hne => by
    intro r hr; subst hr
    have h1 := call_spec hs dir c rem hne _ rfl
    obtain ⟨a1, a2, _, a4⟩ := h1
    have ih := runCalls_spec hs dir cs _ a4 _ rfl
    obtain ⟨b1, b2⟩ := ih
    simp only [runCalls]
    refine ⟨?_, ?_⟩
    · intro o ho
      rcases List.mem_cons.mp ho with rfl | ho
      · exact a1
      · exact b1 o ho
    · simp only [List.flatMap_cons, List.append_assoc]
      rw [b2, a2]

end BFS
