import Lemmas.S4Ops
/-!
  Lemmas/S4RA.lean — `BackupFS.RemoveAll` of a proper ANCESTOR of the backup location (nested
  layering).  BackupFS.RemoveAll is its own `Walk` over the HiddenFS base, followed by
  `BackupFS.remove` of the collected directories deepest-first.  The listing filter keeps the walk
  away from the location; the argument itself is collected as a directory; and `remove` of it ends in
  `HiddenFS.Remove` → `os.Remove` of a directory that still contains (the way to) the location:
  `ENOTEMPTY`.  So the operation ALWAYS returns an error, whatever the fault plan; the transaction
  invariant (hence the location directory, and Rollback) is kept.
-/
namespace BFS.S4
open BackupFS N D HiddenFS

section
variable {bk hk dd : Key}

/-- `Remove` of a proper ancestor of the location through the base side: the OS refuses, the
directory is not empty; nothing changes -/
theorem remove_par_notEmpty (h : NRoots bk hk dd) {m : MFS} (hg : NGood bk hk dd m) {a : Key} (ha : PKey a)
    (hpar : a <+: hk ∧ a ≠ hk) :
    ((nestedCfg bk hk).side .base).call m (.remove (kp a)) = (m, .error .notEmpty) := by
  have hvis : ¬ hk <+: a := not_hid_of_par hpar
  have htr : HiddenFS.translate (nhs hk) (.remove (kp a)) = .ok (.remove (kp a)) := by
    simp only [HiddenFS.translate, hguard_vis h ha hvis, bind, Except.bind, pure, Except.pure]
  rw [base_call_ok (dd := dd) (by intro n e; cases e) htr]
  rw [show inner bk dd = (osCfg bk dd).side .base from rfl, side_call h.r1 .base m (tr_remove h.pb ha)]
  have hw : WFB bk m := WFB.of_good hg.os
  obtain ⟨t, ht⟩ := hpar.1
  have htne : t ≠ [] := by
    intro e; rw [e, List.append_nil] at ht; exact hpar.2 ht
  obtain ⟨c, t', rfl⟩ := List.exists_cons_of_ne_nil htne
  have hchild : m.get ((bk ++ a) ++ [c]) ≠ none := by
    apply loc_live hg
    rw [← ht]
    refine ⟨t', by simp⟩
  obtain ⟨mt, hdir⟩ := n_par_dir (s := .base) hg hpar
  have hdir' : ∃ mt', m.get (bk ++ a) = some (.dir mt') := by
    rw [nview_base_vis hvis] at hdir
    cases hx : m.get (bk ++ a) with
    | none => rw [hx] at hdir; cases hdir
    | some n =>
      rw [hx] at hdir
      cases n with
      | dir mt' => exact ⟨mt', rfl⟩
      | file c' mt' => simp [eraseMt] at hdir
      | link c' mt' => simp [eraseMt] at hdir
  obtain ⟨mt', hd⟩ := hdir'
  have hN := hw.resolve_key h.pb ha (TextOf.kp (bk ++ a)) false
  have hrem : m.remove (kp (bk ++ a)) = (m, .error .notEmpty) := by
    unfold MFS.remove
    rcases hN with ⟨n, hn, _, hr⟩ | ⟨_, _, hn, _, _⟩ | ⟨_, _, hn, _, _, _⟩
    · rw [hr]
      rw [hd] at hn
      cases hn
      simp only
      have hne : bk ++ a ≠ [] := by simp [h.nb]
      simp only [hne, if_false]
      have hch : m.hasChildren (bk ++ a) = true := by
        cases hc : m.hasChildren (bk ++ a) with
        | true => rfl
        | false => exact absurd ((hw.hasChildren_false_iff _).mp hc c) hchild
      simp only [hch, if_true]
    · rw [hd] at hn; cases hn
    · rw [hd] at hn; cases hn
  have e : osRoot bk dd Side.base = bk := rfl
  simp only [osCall, liftU, e, hrem]
  rfl

/-! ### the accumulator of the walk only grows, and holds the argument -/

section
variable (cfg : Cfg)

theorem removeAllFn_mono (w : World) (dirs : List Path) (sub : Path) (info : Option Info) (err : Option Err) :
    ∀ p ∈ dirs, p ∈ (removeAllFn cfg w dirs sub info err).1.2 := by
  intro p hp
  unfold removeAllFn
  cases err with
  | some e => exact hp
  | none =>
    cases info with
    | none => exact hp
    | some i =>
      simp only
      split
      · exact List.mem_append_left _ hp
      · cases BackupFS.remove cfg sub w with
        | mk w' r => cases r <;> exact hp

def RecMono (ops : WalkOps World) (fuel : Nat) : Prop :=
  ∀ (w : World) (a : List Path) (p : Path) (i : Info), ∀ q ∈ a, q ∈ (walkRec ops (removeAllFn cfg) fuel w a p i).1.2

def NamesMono (ops : WalkOps World) (fuel : Nat) : Prop :=
  ∀ (names : List Name) (w : World) (a : List Path) (p : Path), ∀ q ∈ a,
    q ∈ (walkNames ops (removeAllFn cfg) fuel w a p names).1.2

theorem namesMono_of_rec {ops : WalkOps World} {fuel : Nat} (hrec : RecMono cfg ops fuel) : NamesMono cfg ops fuel := by
  intro names
  induction names with
  | nil =>
    intro w a p q hq
    rw [walkNames]
    exact hq
  | cons n rest ih =>
    intro w a p q hq
    rw [walkNames]
    cases hl : ops.lstat w (join p n) with
    | mk w1 r1 =>
      cases r1 with
      | error e =>
        simp only
        have hfn := removeAllFn_mono cfg w1 a (join p n) none (some e) q hq
        cases hf : removeAllFn cfg w1 a (join p n) none (some e) with
        | mk sa oe =>
          rw [hf] at hfn
          obtain ⟨s2, a2⟩ := sa
          cases oe with
          | some e' => exact hfn
          | none => exact ih s2 a2 p q hfn
      | ok fi =>
        simp only
        have hr := hrec w1 a (join p n) fi q hq
        cases hw : walkRec ops (removeAllFn cfg) fuel w1 a (join p n) fi with
        | mk sa oe =>
          rw [hw] at hr
          obtain ⟨s2, a2⟩ := sa
          cases oe with
          | some e' => exact hr
          | none => exact ih s2 a2 p q hr

theorem walk_mono (ops : WalkOps World) : ∀ fuel, RecMono cfg ops fuel ∧ NamesMono cfg ops fuel
  | 0 => by
    have hrec : RecMono cfg ops 0 := by
      intro w a p i q hq
      rw [walkRec]
      exact hq
    exact ⟨hrec, namesMono_of_rec cfg hrec⟩
  | fuel + 1 => by
    have ih := (walk_mono ops fuel).2
    have hrec : RecMono cfg ops (fuel + 1) := by
      intro w a p i q hq
      rw [walkRec]
      have hfn := removeAllFn_mono cfg w a p (some i) none q hq
      cases hf : removeAllFn cfg w a p (some i) none with
      | mk sa oe =>
        rw [hf] at hfn
        obtain ⟨s1, a1⟩ := sa
        cases oe with
        | some e => exact hfn
        | none =>
          simp only
          split
          · exact hfn
          · cases hr : ops.readDirNames s1 p with
            | mk s2 r2 =>
              cases r2 with
              | error e => exact removeAllFn_mono cfg s2 a1 p (some i) (some e) q hfn
              | ok names => exact ih names s2 a1 p q hfn
    exact ⟨hrec, namesMono_of_rec cfg hrec⟩

/-- a walk from a directory that ends without error has collected that directory -/
theorem walkRec_collects_root (ops : WalkOps World) (fuel : Nat) (w : World) (a : List Path) (p : Path) (i : Info)
    (hd : i.isDir = true) (hok : (walkRec ops (removeAllFn cfg) fuel w a p i).2 = none) :
    p ∈ (walkRec ops (removeAllFn cfg) fuel w a p i).1.2 := by
  cases fuel with
  | zero => rw [walkRec] at hok; cases hok
  | succ fuel =>
    rw [walkRec] at hok ⊢
    have hf : removeAllFn cfg w a p (some i) none = ((w, a ++ [p]), none) := by
      simp [removeAllFn, hd]
    rw [hf] at hok ⊢
    simp only [hd, Bool.not_true, Bool.false_eq_true, if_false] at hok ⊢
    cases hr : ops.readDirNames w p with
    | mk s2 r2 =>
      rw [hr] at hok
      cases r2 with
      | error e =>
        simp only at hok
        have : (removeAllFn cfg s2 (a ++ [p]) p (some i) (some e)).2 = some e := by simp [removeAllFn]
        rw [this] at hok
        cases hok
      | ok names =>
        simp only
        exact (walk_mono cfg ops fuel).2 names s2 (a ++ [p]) p p (by simp)

end

/-! ### `remove` of the ancestor fails -/

theorem sat_remove_par (h : NRoots bk hk dd) {v0 : View} {a : Key} {w : World}
    (hinv : N.Inv (nSim bk hk dd h) v0 w) (ha : PKey a) (hne : a ≠ []) (hpar : a <+: hk ∧ a ≠ hk) :
    Sat (BackupFS.remove (nestedCfg bk hk) (kp a)) w (fun w' r =>
      N.Kept (nSim bk hk dd h) v0 w w' ∧ ∃ e, r = .error e) := by
  have h1 := N.sat_remove (S := nSim bk hk dd h) hinv ha hne (clean_kp ha)
  have h2 : Sat (BackupFS.remove (nestedCfg bk hk) (kp a)) w (fun _ r => ∃ e, r = .error e) := by
    unfold BackupFS.remove
    apply Sat.bind
    apply (N.sat_prepare hinv ha (clean_kp ha)).mono
    intro w1 r1 ⟨hadv, hres⟩
    cases r1 with
    | error e => exact ⟨e, rfl⟩
    | ok p =>
      have := (hres p rfl).1
      subst this
      simp only
      apply Sat.bind
      apply Sat.primCall
      · intro _ w2 _
        exact ⟨_, rfl⟩
      · intro w2 _
        rw [remove_par_notEmpty h hadv.inv.good ha hpar]
        exact ⟨_, rfl⟩
  exact ⟨h1.elim, h2.elim⟩

theorem sat_removeEach_par (h : NRoots bk hk dd) {v0 : View} {a : Key} (ha : PKey a) (hne : a ≠ [])
    (hpar : a <+: hk ∧ a ≠ hk) {w0 : World} :
    ∀ (ds : List Path) (w : World), N.Kept (nSim bk hk dd h) v0 w0 w →
    (∀ p ∈ ds, ∃ j, PKey j ∧ j ≠ [] ∧ p = kp j) →
    Sat (removeEach (nestedCfg bk hk) ds) w (fun w' r =>
      N.Kept (nSim bk hk dd h) v0 w0 w' ∧ (kp a ∈ ds → ∃ e, r = .error e))
  | [], w, hk0, _ => by
    unfold removeEach
    exact Sat.pure ⟨hk0, fun hm => by cases hm⟩
  | d :: ds, w, hk0, hd => by
    unfold removeEach
    obtain ⟨j, hj, hjne, rfl⟩ := hd d (by simp)
    by_cases hja : j = a
    · subst hja
      apply Sat.bind
      apply (sat_remove_par h hk0.inv hj hjne hpar).mono
      intro w1 r1 ⟨hk1, e, he⟩
      subst he
      exact ⟨hk0.trans hk1, fun _ => ⟨e, rfl⟩⟩
    · apply Sat.bind
      apply (N.sat_remove (S := nSim bk hk dd h) hk0.inv hj hjne (clean_kp hj)).mono
      intro w1 r1 hk1
      cases r1 with
      | error e => exact ⟨hk0.trans hk1, fun _ => ⟨e, rfl⟩⟩
      | ok u =>
        apply (sat_removeEach_par h ha hne hpar ds w1 (hk0.trans hk1)
          (fun p hp => hd p (List.mem_cons_of_mem _ hp))).mono
        intro w2 r2 ⟨hk2, hr⟩
        refine ⟨hk2, fun hm => hr ?_⟩
        rcases List.mem_cons.mp hm with e | hm'
        · exact absurd (kp_inj ha hj e).symm hja
        · exact hm'

/-- the `Lstat` of a proper ancestor of the location through the base reports a directory -/
theorem lstat_par_isDir (h : NRoots bk hk dd) {a : Key} (ha : PKey a) (hpar : a <+: hk ∧ a ≠ hk) {w w' : World}
    (hg : NGood bk hk dd w.fs) {i : Info}
    (hl : primInfo (nestedCfg bk hk) .base (.lstat (kp a)) w = (w', .ok i)) : i.isDir = true := by
  have := (N.sat_lstat (S := nSim bk hk dd h) (s := .base) hg ha).elim
  rw [hl] at this
  obtain ⟨_, hr⟩ := this
  obtain ⟨mt, hdir⟩ := n_par_dir (s := .base) hg hpar
  rcases hr with ⟨n, i', hv, he, hfor⟩ | ⟨_, e, he, _⟩ | ⟨he, _⟩
  · cases he
    have hv' : nview bk hk .base w.fs a = some n := hv
    rw [hdir] at hv'
    cases hv'
    have : i.kind = .dir := hfor.1
    simp [Info.isDir, this]
  · cases he
  · cases he

/-- **`RemoveAll` of a proper ancestor of the location** (other than the root): keeps the
transaction invariant and ALWAYS returns an error -/
theorem sat_removeAll_par (h : NRoots bk hk dd) {v0 : View} {name : Path} {a : Key} {w : World}
    (hinv : N.Inv (nSim bk hk dd h) v0 w) (ha : PKey a) (hne : a ≠ []) (hpar : a <+: hk ∧ a ≠ hk)
    (hname : clean name = kp a) :
    Sat (BackupFS.removeAll (nestedCfg bk hk) name) w (fun w' r =>
      N.Kept (nSim bk hk dd h) v0 w w' ∧ ∃ e, r = .error e) := by
  unfold BackupFS.removeAll
  apply Sat.bind
  apply (N.sat_realPath (S := nSim bk hk dd h) hinv.good ha hname).mono
  intro w1 r1 ⟨hs1, hres1⟩
  have hk1 := N.Kept.of_same hinv hs1
  cases r1 with
  | error e => exact ⟨hk1, e, rfl⟩
  | ok r =>
    have := hres1 r rfl; subst this
    simp only
    apply Sat.bind
    apply Sat.attempt
    apply (N.sat_lstat (S := nSim bk hk dd h) (s := .base) hk1.inv.good ha).mono
    intro w2 r2 ⟨hs2, hr2⟩
    have hk2 := hk1.trans (N.Kept.of_same hk1.inv hs2)
    obtain ⟨mt, hdir⟩ := n_par_dir (s := .base) hk1.inv.good hpar
    simp only
    rcases hr2 with ⟨n, fi, hv, rfl, hfor⟩ | ⟨hv, _⟩ | ⟨rfl, _⟩
    · have hv' : nview bk hk .base w1.fs a = some n := hv
      rw [hdir] at hv'
      cases hv'
      have hisd : fi.isDir = true := by
        have : fi.kind = .dir := hfor.1
        simp [Info.isDir, this]
      simp only [hisd, Bool.not_true, Bool.false_eq_true, if_false]
      apply Sat.bind
      have hwalk : N.WalkOK (nSim bk hk dd h) v0 w w2 [] := ⟨hk2, by intro p hp; cases hp⟩
      have hw : Sat (fun w => match walkTree (worldWalkOps (nestedCfg bk hk) .base) (removeAllFn (nestedCfg bk hk)) 64 w [] (kp a) with
          | ((w', dirs), none) => (w', Except.ok dirs)
          | ((w', _), some e) => (w', Except.error e) : M (List Path)) w2
          (fun w' r => N.Kept (nSim bk hk dd h) v0 w w' ∧
            ∀ dirs, r = .ok dirs → (∀ p ∈ dirs, ∃ j, PKey j ∧ j ≠ [] ∧ p = kp j) ∧ kp a ∈ dirs) := by
        have hwt := N.walkTree_ok (cfg := nestedCfg bk hk) hwalk ha hne
        have hroot : (walkTree (worldWalkOps (nestedCfg bk hk) .base) (removeAllFn (nestedCfg bk hk)) 64 w2 [] (kp a)).2 = none →
            kp a ∈ (walkTree (worldWalkOps (nestedCfg bk hk) .base) (removeAllFn (nestedCfg bk hk)) 64 w2 [] (kp a)).1.2 := by
          unfold walkTree
          cases hl : (worldWalkOps (nestedCfg bk hk) .base).lstat w2 (kp a) with
          | mk w3 r3 =>
            cases r3 with
            | error e =>
              simp only
              intro hn
              have : (removeAllFn (nestedCfg bk hk) w3 [] (kp a) none (some e)).2 = some e := by simp [removeAllFn]
              rw [this] at hn
              cases hn
            | ok info =>
              simp only
              have hd := lstat_par_isDir h ha hpar hk2.inv.good hl
              exact walkRec_collects_root _ _ 64 w3 [] (kp a) info hd
        unfold Sat
        show N.Kept (nSim bk hk dd h) v0 w (match walkTree (worldWalkOps (nestedCfg bk hk) .base) (removeAllFn (nestedCfg bk hk)) 64 w2 [] (kp a) with
            | ((w', dirs), none) => (w', Except.ok dirs)
            | ((w', _), some e) => (w', Except.error e)).1 ∧
          ∀ dirs, (match walkTree (worldWalkOps (nestedCfg bk hk) .base) (removeAllFn (nestedCfg bk hk)) 64 w2 [] (kp a) with
            | ((w', dirs), none) => (w', Except.ok dirs)
            | ((w', _), some e) => (w', Except.error e)).2 = .ok dirs →
              (∀ p ∈ dirs, ∃ j, PKey j ∧ j ≠ [] ∧ p = kp j) ∧ kp a ∈ dirs
        cases hx : walkTree (worldWalkOps (nestedCfg bk hk) .base) (removeAllFn (nestedCfg bk hk)) 64 w2 [] (kp a) with
        | mk sa oe =>
          rw [hx] at hwt hroot
          obtain ⟨s2, a2⟩ := sa
          cases oe with
          | some e' => exact ⟨hwt.kept, by intro d hd; cases hd⟩
          | none => exact ⟨hwt.kept, by intro d hd; cases hd; exact ⟨hwt.dirs, hroot rfl⟩⟩
      apply hw.mono
      intro w3 r3 ⟨hk3, hdirs⟩
      cases r3 with
      | error e => exact ⟨hk3, e, rfl⟩
      | ok dirs =>
        simp only
        obtain ⟨hform, hmem⟩ := hdirs dirs rfl
        apply (sat_removeEach_par h ha hne hpar (sortMost dirs) w3 hk3
          (fun p hp => hform p ((sortBy_perm _ dirs).mem_iff.mp hp))).mono
        intro w4 r4 ⟨hk4, hr4⟩
        exact ⟨hk4, hr4 ((sortBy_perm _ dirs).mem_iff.mpr hmem)⟩
    · have hv' : nview bk hk .base w1.fs a = none := hv
      rw [hdir] at hv'
      cases hv'
    · simp only [Err.isNotFound, Bool.false_eq_true, if_false]
      apply Sat.throw
      exact ⟨hk2, _, rfl⟩

end
end BFS.S4
