import Lemmas.LSimOSWalk
/-!
  Lemmas/LSimOSGood.lean — `OSGoodL` is preserved by the elementary state updates of the OS model:
  replacing a node by one of the same directory-ness, creating a node (a symlink too) under a live
  directory, removing a childless node, removing a subtree, moving a subtree, stamping a directory.
-/
namespace BFS
namespace L
open MFS

theorem good_set_repl {bk kk : Key} {m : MFS} (hg : OSGoodL bk kk m) {K : Key} {a b : Node}
    (ha : m.get K = some a) (hd : b.isDir = a.isDir) (hm : b.meta.mode < 4096) :
    OSGoodL bk kk (m.set K (some b)) := by
  have hdir : ∀ p, (∃ mt, m.get p = some (.dir mt)) → ∃ mt, (m.set K (some b)).get p = some (.dir mt) := by
    intro p ⟨mt, hp⟩
    by_cases hpk : p = K
    · subst hpk
      rw [ha] at hp
      cases hp
      obtain ⟨mt', rfl⟩ := isDir_true (n := b) (by rw [hd]; rfl)
      exact ⟨mt', set_get_self _ _ _⟩
    · exact ⟨mt, by rw [set_get_ne m _ hpk]; exact hp⟩
  refine ⟨hdir _ hg.root, ?_, ?_, ?_, ?_, hdir _ hg.bdir, hdir _ hg.kdir⟩
  · intro k n h
    rcases set_get_some h with ⟨rfl, _⟩ | ⟨_, h'⟩
    · exact hg.pkey _ a ha
    · exact hg.pkey k n h'
  · intro k n h
    rcases set_get_some h with ⟨rfl, _⟩ | ⟨_, h'⟩
    · exact mem_set_dom_self _ _ _
    · exact mem_set_dom_of_mem _ _ _ (hg.dom k n h')
  · intro k n h
    rcases set_get_some h with ⟨_, e⟩ | ⟨_, h'⟩
    · cases e; exact hm
    · exact hg.mode k n h'
  · intro k n h hne
    rcases set_get_some h with ⟨rfl, _⟩ | ⟨_, h'⟩
    · exact hdir _ (hg.parent _ a ha hne)
    · exact hdir _ (hg.parent k n h' hne)

theorem good_touchDir {bk kk : Key} {m : MFS} (hg : OSGoodL bk kk m) (k : Key) : OSGoodL bk kk (m.touchDir k) := by
  rcases touchDir_cases m k with ⟨mt, hk, e⟩ | e
  · rw [e]
    exact good_set_repl hg hk rfl (hg.mode k (.dir mt) hk)
  · rw [e]; exact hg

theorem good_set_new {bk kk : Key} {m : MFS} (hg : OSGoodL bk kk m) {P : Key} {c : Name} {mt : Meta} {n' : Node}
    (hP : m.get P = some (.dir mt)) (hc : Plain c) (hnone : m.get (P ++ [c]) = none)
    (hm : n'.meta.mode < 4096) :
    OSGoodL bk kk (m.set (P ++ [c]) (some n')) := by
  have hdir : ∀ p, (∃ mt, m.get p = some (.dir mt)) → ∃ mt, (m.set (P ++ [c]) (some n')).get p = some (.dir mt) := by
    intro p ⟨mt', hp⟩
    have hpk : p ≠ P ++ [c] := by
      intro e; rw [e, hnone] at hp; cases hp
    exact ⟨mt', by rw [set_get_ne m _ hpk]; exact hp⟩
  refine ⟨hdir _ hg.root, ?_, ?_, ?_, ?_, hdir _ hg.bdir, hdir _ hg.kdir⟩
  · intro k n h
    rcases set_get_some h with ⟨rfl, _⟩ | ⟨_, h'⟩
    · exact (hg.pkey P _ hP).append (PKey.single hc)
    · exact hg.pkey k n h'
  · intro k n h
    rcases set_get_some h with ⟨rfl, _⟩ | ⟨_, h'⟩
    · exact mem_set_dom_self _ _ _
    · exact mem_set_dom_of_mem _ _ _ (hg.dom k n h')
  · intro k n h
    rcases set_get_some h with ⟨_, e⟩ | ⟨_, h'⟩
    · cases e; exact hm
    · exact hg.mode k n h'
  · intro k n h hne
    rcases set_get_some h with ⟨rfl, _⟩ | ⟨_, h'⟩
    · rw [List.dropLast_concat]
      exact hdir _ ⟨mt, hP⟩
    · exact hdir _ (hg.parent k n h' hne)

theorem good_set_none {bk kk : Key} {m : MFS} (hg : OSGoodL bk kk m) {K : Key}
    (hch : ∀ c, m.get (K ++ [c]) = none) (hb : K ≠ bk) (hk : K ≠ kk) (hne : K ≠ []) :
    OSGoodL bk kk (m.set K none) := by
  have hdir : ∀ p, p ≠ K → (∃ mt, m.get p = some (.dir mt)) → ∃ mt, (m.set K none).get p = some (.dir mt) := by
    intro p hpk ⟨mt', hp⟩
    exact ⟨mt', by rw [set_get_ne m _ hpk]; exact hp⟩
  refine ⟨hdir _ (Ne.symm hne) hg.root, ?_, ?_, ?_, ?_, hdir _ (Ne.symm hb) hg.bdir, hdir _ (Ne.symm hk) hg.kdir⟩
  · intro k n h
    rcases set_get_some h with ⟨_, e⟩ | ⟨_, h'⟩
    · cases e
    · exact hg.pkey k n h'
  · intro k n h
    rcases set_get_some h with ⟨_, e⟩ | ⟨_, h'⟩
    · cases e
    · exact mem_set_dom_of_mem _ _ _ (hg.dom k n h')
  · intro k n h
    rcases set_get_some h with ⟨_, e⟩ | ⟨_, h'⟩
    · cases e
    · exact hg.mode k n h'
  · intro k n h hkne
    rcases set_get_some h with ⟨_, e⟩ | ⟨_, h'⟩
    · cases e
    · apply hdir _ ?_ (hg.parent k n h' hkne)
      intro e
      have := hch (k.getLast hkne)
      rw [← e, dropLast_append_getLast' hkne, h'] at this
      cases this

theorem good_removeSubtree {bk kk : Key} {m : MFS} (hg : OSGoodL bk kk m) {K : Key}
    (hb : ¬ K <+: bk) (hk : ¬ K <+: kk) : OSGoodL bk kk (m.removeSubtree K) := by
  have hdir : ∀ p, ¬ K <+: p → (∃ mt, m.get p = some (.dir mt)) → ∃ mt, (m.removeSubtree K).get p = some (.dir mt) := by
    intro p hpk ⟨mt', hp⟩
    exact ⟨mt', by rw [removeSubtree_get_other m hpk]; exact hp⟩
  have hroot : ¬ K <+: [] := by
    intro e
    rw [List.prefix_nil] at e
    apply hb
    rw [e]
    exact List.nil_prefix
  refine ⟨hdir _ hroot hg.root, ?_, ?_, ?_, ?_, hdir _ hb hg.bdir, hdir _ hk hg.kdir⟩
  · intro k n h
    exact hg.pkey k n (removeSubtree_get_some h).2
  · intro k n h
    exact hg.dom k n (removeSubtree_get_some h).2
  · intro k n h
    exact hg.mode k n (removeSubtree_get_some h).2
  · intro k n h hkne
    obtain ⟨hp, h'⟩ := removeSubtree_get_some h
    apply hdir _ ?_ (hg.parent k n h' hkne)
    intro e
    exact hp (List.IsPrefix.trans e (dropLast_prefix k))

theorem good_moveSubtree {bk kk : Key} {m : MFS} (hg : OSGoodL bk kk m) {Ko Kn : Key}
    (hKn : PKey Kn) (hnne : Kn ≠ []) (hpar : ∃ mt, m.get Kn.dropLast = some (.dir mt))
    (h1 : ¬ Ko <+: Kn) (hb1 : ¬ Ko <+: bk) (hk1 : ¬ Ko <+: kk) (hb2 : ¬ Kn <+: bk) (hk2 : ¬ Kn <+: kk)
    : OSGoodL bk kk (m.moveSubtree Ko Kn) := by
  have hdir : ∀ p, ¬ Kn <+: p → ¬ Ko <+: p → (∃ mt, m.get p = some (.dir mt)) →
      ∃ mt, (m.moveSubtree Ko Kn).get p = some (.dir mt) := by
    intro p hp1 hp2 ⟨mt', hp⟩
    exact ⟨mt', by rw [moveSubtree_get_other m hp1 hp2]; exact hp⟩
  have hnil : ∀ K : Key, ¬ K <+: bk → ¬ K <+: [] := by
    intro K hK e
    rw [List.prefix_nil] at e
    apply hK
    rw [e]
    exact List.nil_prefix
  refine ⟨hdir _ (hnil _ hb2) (hnil _ hb1) hg.root, ?_, ?_, ?_, ?_, hdir _ hb2 hb1 hg.bdir, hdir _ hk2 hk1 hg.kdir⟩
  · intro k n h
    rcases moveSubtree_get_some h with ⟨x, rfl, h'⟩ | ⟨_, _, h'⟩
    · exact hKn.append (hg.pkey _ n h').right
    · exact hg.pkey k n h'
  · intro k n h
    show k ∈ m.dom ++ _
    rcases moveSubtree_get_some h with ⟨x, rfl, h'⟩ | ⟨_, _, h'⟩
    · apply List.mem_append_right
      apply List.mem_map.mpr
      refine ⟨Ko ++ x, ?_, by rw [List.drop_left]⟩
      apply List.mem_filter.mpr
      exact ⟨hg.dom _ n h', List.isPrefixOf_iff_prefix.mpr (List.prefix_append _ _)⟩
    · exact List.mem_append_left _ (hg.dom k n h')
  · intro k n h
    rcases moveSubtree_get_some h with ⟨x, rfl, h'⟩ | ⟨_, _, h'⟩
    · exact hg.mode _ n h'
    · exact hg.mode k n h'
  · intro k n h hkne
    rcases moveSubtree_get_some h with ⟨x, rfl, h'⟩ | ⟨hk1', hk2', h'⟩
    · by_cases hx : x = []
      · subst hx
        rw [List.append_nil]
        apply hdir _ ?_ ?_ hpar
        · intro e
          have h3 := e.length_le
          have h4 : Kn.dropLast.length = Kn.length - 1 := List.length_dropLast
          have h5 : 0 < Kn.length := List.length_pos_iff.mpr hnne
          omega
        · intro e
          exact h1 (List.IsPrefix.trans e (dropLast_prefix Kn))
      · rw [append_dropLast hx, moveSubtree_get_under]
        have := hg.parent _ n h' (by simp [hx])
        rw [append_dropLast hx] at this
        exact this
    · apply hdir _ ?_ ?_ (hg.parent k n h' hkne)
      · intro e; exact hk1' (List.IsPrefix.trans e (dropLast_prefix k))
      · intro e; exact hk2' (List.IsPrefix.trans e (dropLast_prefix k))

end L
end BFS
