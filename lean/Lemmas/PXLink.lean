import Lemmas.PXObs
/-!
  Lemmas/PXLink.lean — where a symlink created through `PrefixFS(kp pk)` lands, and where the kernel
  goes when it follows a tame link at or below `pk`: it never leaves `pk` (it ends at a key at or
  below `pk`, at an absent entry of a directory at or below `pk`, or fails).
-/
namespace BFS
namespace PX
open MFS D

section
variable {pk : Key}

theorem ds_prefix_call {m : MFS} (hpk : PKey pk) (h : DomSup m) (c : Call) :
    DomSup ((prefixFS (kp pk) osfs).call m c).1 := by
  rcases prefix_call_cases hpk m c with ⟨e, he, hc⟩ | ⟨c', hk, he, hc⟩
  · rw [hc]; exact h
  · rw [hc]; exact ds_osCall h _

/-- the position from which the kernel continues when it follows a tame link at key `K` below `pk`
(the root for an absolute target, the link's directory otherwise; `rest` is what is left of the name
being resolved, without `..`) satisfies the walk invariant of `DLink` -/
theorem tame_link_winv {m : MFS} (hd : PrefDirs pk m) (ht : Tame pk m) {K : Key} {t : Path} {mt : Meta}
    (hK : pk <+: K) (hne : K ≠ pk) (hl : m.get K = some (.link t mt))
    (hpar : ∃ mt, m.get K.dropLast = some (.dir mt)) (rest : List Name) (hrest : dotdot ∉ rest) :
    WInv pk m (if isRooted t then [] else K.dropLast) (splitSep t ++ rest) := by
  obtain ⟨htd, htr⟩ := ht K t mt hK hl
  have hnd : dotdot ∉ splitSep t ++ rest := by
    intro h
    rcases List.mem_append.mp h with h | h
    · exact htd h
    · exact hrest h
  by_cases hr : isRooted t = true
  · simp only [hr, if_true]
    refine ⟨hd [] List.nil_prefix, hnd, ?_⟩
    by_cases hpe : pk = []
    · left; rw [hpe]; exact List.nil_prefix
    · right
      refine ⟨pk, hpe, by simp, ?_⟩
      rw [strip_append]
      exact (htr hr).trans (List.prefix_append _ _)
  · simp only [hr]
    exact ⟨hpar, hnd, Or.inl (prefix_dropLast hK (Ne.symm hne))⟩

/-- following a tame link never leaves `pk`: the walk ends at a key at or below `pk`, at an absent
entry of a live directory at or below `pk`, or fails -/
theorem tame_link_resolves_inside {m : MFS} (hd : PrefDirs pk m) (ht : Tame pk m) {K : Key} {t : Path} {mt : Meta}
    (hK : pk <+: K) (hne : K ≠ pk) (hl : m.get K = some (.link t mt))
    (hpar : ∃ mt, m.get K.dropLast = some (.dir mt)) (f : Bool) (fuel hops : Nat) (rest : List Name)
    (hrest : dotdot ∉ rest) :
    ∃ K', pk <+: K' ∧
      NC m K' (walk m f fuel hops (if isRooted t then [] else K.dropLast) (splitSep t ++ rest)) :=
  walk_inside hd ht f fuel hops _ _ (tame_link_winv hd ht hK hne hl hpar rest hrest)

/-- ... and its outcome is the same on every disk that agrees with this one at and below `pk` -/
theorem tame_link_resolves_same {m m2 : MFS} (hd : PrefDirs pk m) (hd2 : PrefDirs pk m2) (ht : Tame pk m)
    (hag : AgreeIn pk m m2) {K : Key} {t : Path} {mt : Meta}
    (hK : pk <+: K) (hne : K ≠ pk) (hl : m.get K = some (.link t mt))
    (hpar : ∃ mt, m.get K.dropLast = some (.dir mt)) (f : Bool) (fuel hops : Nat) (rest : List Name)
    (hrest : dotdot ∉ rest) :
    walk m f fuel hops (if isRooted t then [] else K.dropLast) (splitSep t ++ rest) =
      walk m2 f fuel hops (if isRooted t then [] else K.dropLast) (splitSep t ++ rest) :=
  walk_agree hd hd2 ht hag f fuel hops _ _ (tame_link_winv hd ht hK hne hl hpar rest hrest)

/-- a successful `Symlink` through the layer: the link sits at a key strictly below `pk` that was
absent, in a live directory, and carries the translated target -/
theorem symlink_lands {m : MFS} (hpk : PKey pk) (hd : PrefDirs pk m) (ht : Tame pk m) {o n o' n' : Path}
    (htr : PrefixFS.translate (kp pk) (.symlink o n) = .ok (.symlink o' n'))
    (hok : ((prefixFS (kp pk) osfs).call m (.symlink o n)).2 = .ok .unit) :
    ∃ K mt, pk <+: K ∧ K ≠ pk ∧ m.get K = none ∧
      ((prefixFS (kp pk) osfs).call m (.symlink o n)).1.get K = some (.link o' mt) ∧
      (∃ mtd, ((prefixFS (kp pk) osfs).call m (.symlink o n)).1.get K.dropLast = some (.dir mtd)) ∧
      (((prefixFS (kp pk) osfs).call m (.symlink o n)).1.get pk).isSome := by
  rcases prefix_call_cases hpk m (.symlink o n) with ⟨e, he, hc⟩ | ⟨c', hk, he, hc⟩
  · rw [hc] at hok; cases hok
  · rw [hc] at hok ⊢
    rw [he] at htr
    cases htr
    cases hk with
    | symlink _ _ _ x hx _ =>
      obtain ⟨K, hK, hN⟩ := namei_inside hpk hd ht hx (TextOf.kp (pk ++ x)) false
      have hu : (m.symlink o' (kp (pk ++ x))).2 = .ok () := by
        simp only [osCall, liftU, map_post_unit] at hok
        exact map_unit_ok hok
      obtain ⟨h1, mt, h2⟩ := symlink_ok o' hN hu
      obtain ⟨mtp, hlive⟩ := prefDirs_live hd
      have hKne : K ≠ pk := by
        intro e
        rw [e, hlive] at h1
        cases h1
      have hat := at_symlink o' hN
      have hne : K ≠ [] := by
        intro e
        rw [e] at hK
        exact hKne (e.trans (List.prefix_nil.mp hK).symm)
      refine ⟨K, mt, hK, hKne, h1, h2, ?_, ?_⟩
      · -- the parent directory: live before (the entry was missing under it), stamped at most
        have hp : ∃ mtd, m.get K.dropLast = some (.dir mtd) := by
          rcases hN with ⟨n0, hn0, _⟩ | ⟨_, mtd, _, hp, _⟩ | ⟨e, hres⟩
          · rw [h1] at hn0; cases hn0
          · exact ⟨mtd, hp⟩
          · exfalso
            unfold MFS.symlink at hu
            split at hu
            · cases hu
            · rw [hres] at hu; cases hu
        exact (hat.par hne).dir.mpr hp
      · obtain ⟨y, rfl⟩ := hK
        exact pk_stays (by rw [hlive]; rfl) hat (keep_symlink o' hN)

end
end PX
end BFS
