import Lemmas.NSimOS
import Lemmas.NOps
import Lemmas.DConf
/-!
  Lemmas/S4Base.lean — C04 at disk level, groundwork: the raw (un-erased, whole-disk) effect of a
  call through the BACKUP side of the nested layering `nestedCfg bk hk` (`PrefixFS (kp hk)` over
  `PrefixFS (kp bk)` over the OS model), and of `copyDir` on that side.

  `Between lo hi j`: key `j` lies on the path from `lo` down to `hi`.  A backup-side call naming
  `kp a` changes the disk only at keys between the location `bk ++ hk` and `bk ++ hk ++ a`.
-/
namespace BFS.S4
open BackupFS N D

section
variable {bk hk dd : Key}

/-- `j` lies on the path from `lo` down to `hi` -/
def Between (lo hi j : Key) : Prop := lo <+: j ∧ j <+: hi

theorem between_append {lo a j : Key} (h : Between lo (lo ++ a) j) : ∃ a', a' <+: a ∧ j = lo ++ a' := by
  obtain ⟨⟨t, rfl⟩, h2⟩ := h
  exact ⟨t, (List.prefix_append_right_inj lo).mp h2, rfl⟩

theorem nestedCfg_eq (bk hk : Key) : nestedCfg bk hk = newWithFS (prefixFS (kp bk) osfs) (kp hk) := rfl

/-! ### the OS call a backup-side call becomes -/

/-- `c` on the backup side reaches the OS as `c2` -/
structure Tr3 (bk hk : Key) (c c2 : Call) : Prop where
  t12 : ∃ c1, PrefixFS.translate (kp hk) c = .ok c1 ∧ PrefixFS.translate (kp bk) c1 = .ok c2
  t3 : PrefixFS.translate (kp (bk ++ hk)) c = .ok c2

theorem backup_state (h : NRoots bk hk dd) {c c2 : Call} (t : Tr3 bk hk c c2) (m : MFS) :
    (((nestedCfg bk hk).side .backup).call m c).1 = (osCall m c2).1 := by
  obtain ⟨c1, t1, t2⟩ := t.t12
  rw [backup_call_ok h t1]
  show ((inner bk dd).call m c1).1 = _
  rw [show inner bk dd = (osCfg bk dd).side .base from rfl, side_call h.r1 .base m t2]

theorem backup_effect (h : NRoots bk hk dd) {m : MFS} (hg : NGood bk hk dd m) {c c2 : Call}
    (t : Tr3 bk hk c c2) : Effect (bk ++ hk) m (((nestedCfg bk hk).side .backup).call m c).1 c2 := by
  rw [backup_state h t]
  exact osCall_effect (WFB.of_good hg.os2) h.pbh (translate_keyCall h.pbh t.t3)

section
variable (h : NRoots bk hk dd) {a : Key} (ha : PKey a)
include h ha

theorem tr3_mkdirAll (p : Nat) : Tr3 bk hk (.mkdirAll (kp a) p) (.mkdirAll (kp (bk ++ hk ++ a)) p) :=
  ⟨⟨_, tr_mkdirAll h.ph ha p, by rw [List.append_assoc]; exact tr_mkdirAll h.pb (h.ph.append ha) p⟩,
    tr_mkdirAll h.pbh ha p⟩
theorem tr3_chmod (md : Nat) : Tr3 bk hk (.chmod (kp a) md) (.chmod (kp (bk ++ hk ++ a)) md) :=
  ⟨⟨_, tr_chmod h.ph ha md, by rw [List.append_assoc]; exact tr_chmod h.pb (h.ph.append ha) md⟩,
    tr_chmod h.pbh ha md⟩
theorem tr3_chown (u g : Int) : Tr3 bk hk (.chown (kp a) u g) (.chown (kp (bk ++ hk ++ a)) u g) :=
  ⟨⟨_, tr_chown h.ph ha u g, by rw [List.append_assoc]; exact tr_chown h.pb (h.ph.append ha) u g⟩,
    tr_chown h.pbh ha u g⟩
theorem tr3_chtimes (x t : Time) : Tr3 bk hk (.chtimes (kp a) x t) (.chtimes (kp (bk ++ hk ++ a)) x t) :=
  ⟨⟨_, tr_chtimes h.ph ha x t, by rw [List.append_assoc]; exact tr_chtimes h.pb (h.ph.append ha) x t⟩,
    tr_chtimes h.pbh ha x t⟩
theorem tr3_openFile (fl p : Nat) : Tr3 bk hk (.openFile (kp a) fl p) (.openFile (kp (bk ++ hk ++ a)) fl p) :=
  ⟨⟨_, tr_openFile h.ph ha fl p, by rw [List.append_assoc]; exact tr_openFile h.pb (h.ph.append ha) fl p⟩,
    tr_openFile h.pbh ha fl p⟩
theorem tr3_remove : Tr3 bk hk (.remove (kp a)) (.remove (kp (bk ++ hk ++ a))) :=
  ⟨⟨_, tr_remove h.ph ha, by rw [List.append_assoc]; exact tr_remove h.pb (h.ph.append ha)⟩,
    tr_remove h.pbh ha⟩
end

/-! ### from the effect to the frame -/

theorem frame_of_at {pk a : Key} {m m' : MFS} (hne : a ≠ []) (h : At m m' (pk ++ a)) :
    ∀ j, ¬ Between pk (pk ++ a) j → m'.get j = m.get j := by
  intro j hj
  apply h.other j
  · intro e; exact hj ⟨e ▸ List.prefix_append _ _, e ▸ List.prefix_rfl⟩
  · intro e
    apply hj
    have hd : (pk ++ a).dropLast = pk ++ a.dropLast := List.dropLast_append_of_ne_nil hne
    rw [e, hd]
    exact ⟨List.prefix_append _ _, (List.prefix_append_right_inj pk).mpr (List.dropLast_prefix a)⟩

theorem frame_of_mkAll {pk a : Key} {m m' : MFS} (hlive : ∀ p, p <+: pk → m.get p ≠ none)
    (h : MkAll m m' (pk ++ a)) : ∀ j, ¬ Between pk (pk ++ a) j → m'.get j = m.get j := by
  intro j hj
  rcases h j with h | ⟨hp, hn⟩ | ⟨_, c, hp, hn⟩
  · exact h
  · exfalso
    rcases List.prefix_or_prefix_of_prefix hp (List.prefix_append pk a) with h1 | h1
    · exact hlive j h1 hn
    · exact hj ⟨h1, hp⟩
  · exfalso
    have hjp : j <+: pk ++ a := (List.prefix_append j [c]).trans hp
    rcases List.prefix_or_prefix_of_prefix hp (List.prefix_append pk a) with h1 | h1
    · exact hlive _ h1 hn
    · -- pk <+: j ++ [c], and j ++ [c] is not a prefix of pk
      rcases List.prefix_or_prefix_of_prefix hjp (List.prefix_append pk a) with h2 | h2
      · -- j <+: pk <+: j ++ [c]: pk = j or pk = j ++ [c]
        rcases N.prefix_snoc_iff.mp h1 with h3 | h3
        · exact hj ⟨h3, hjp⟩
        · exact hlive _ (h3 ▸ List.prefix_rfl) hn
      · exact hj ⟨h2, hjp⟩

theorem loc_live {m : MFS} (hg : NGood bk hk dd m) : ∀ p, p <+: bk ++ hk → m.get p ≠ none := by
  intro p hp
  obtain ⟨mt, hl⟩ := hg.loc
  by_cases e : p = bk ++ hk
  · rw [e, hl]; simp
  · obtain ⟨mt', h'⟩ := hg.os.ancestor hl hp e
    rw [h']; simp

/-- the frame of the five calls `copyDir` issues on the backup side -/
theorem backup_frame (h : NRoots bk hk dd) {m : MFS} (hg : NGood bk hk dd m) {a : Key} (ha : PKey a) (hne : a ≠ [])
    {c : Call}
    (hc : (∃ p, c = .mkdirAll (kp a) p) ∨ (∃ md, c = .chmod (kp a) md) ∨ (∃ u g, c = .chown (kp a) u g) ∨
      (∃ x t, c = .chtimes (kp a) x t)) :
    ∀ j, ¬ Between (bk ++ hk) (bk ++ hk ++ a) j →
      (((nestedCfg bk hk).side .backup).call m c).1.get j = m.get j := by
  have key : ∀ x, PKey x → kp (bk ++ hk ++ a) = kp (bk ++ hk ++ x) → x = a := by
    intro x hx e
    have := kp_inj (h.pbh.append ha) (h.pbh.append hx) e
    exact (List.append_cancel_left this).symm
  rcases hc with ⟨p, rfl⟩ | ⟨md, rfl⟩ | ⟨u, g, rfl⟩ | ⟨x, t, rfl⟩
  · obtain ⟨x, hx, e, hm⟩ := backup_effect h hg (tr3_mkdirAll h ha p)
    rw [key x hx e] at hm
    exact frame_of_mkAll (loc_live hg) hm
  · obtain ⟨x, hx, e, hm⟩ := backup_effect h hg (tr3_chmod h ha md)
    rw [key x hx e] at hm
    exact frame_of_at hne hm
  · obtain ⟨x, hx, e, hm⟩ := backup_effect h hg (tr3_chown h ha u g)
    rw [key x hx e] at hm
    exact frame_of_at hne hm
  · obtain ⟨y, hy, e, hm⟩ := backup_effect h hg (tr3_chtimes h ha x t)
    rw [key y hy e] at hm
    exact frame_of_at hne hm

end
end BFS.S4
