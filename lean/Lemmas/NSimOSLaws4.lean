import Lemmas.NSimOSLaws3
/-!
  Lemmas/NSimOSLaws4.lean — the laws of `N.Sim` for the nested layering: `RemoveAll` (on the base
  side the program `HiddenFS.RemoveAll`, whose safety, completeness and success theorems are those
  of `Lemmas/HiddenRA/RB/RC.lean` over the inner filesystem) and `Rename`.
-/
namespace BFS.N
open HiddenFS MFS

section
variable {bk hk dd : Key} {s : Side} {m m' : MFS} {k : Key}

/-! ### `RemoveAll` -/

theorem n_removeAll_frame {r : Except Err Ret} (h : NRoots bk hk dd) (hg : NGood bk hk dd m) (hk' : PKey k)
    (hne : k ≠ []) (he : ((nestedCfg bk hk).side s).call m (.removeAll (kp k)) = (m', r)) :
    NGood bk hk dd m' ∧ nview bk hk s.other m' = nview bk hk s.other m ∧
      (∀ j, ¬ k <+: j → nview bk hk s m' j = nview bk hk s m j) := by
  cases s with
  | backup =>
    have hi := (fwd_removeAll_backup h hk').inv he
    obtain ⟨g1, _, f⟩ := os_removeAll_frame h.r1 hg.os (h.ph.append hk') (by simp [hne]) hi
    obtain ⟨a, b, c⟩ := transfer (s := .backup) h hg g1 (KI := (hk ++ k <+: ·))
      (fun j hj => List.IsPrefix.trans (List.prefix_append _ _) hj)
      (fun _ => (os_removeAll_frame h.r2 hg.os2 hk' hne ((fwd2_removeAll h hk').eq hi)).1.bdir) f
    exact ⟨a, b, fun j hj => c j (fun e => hj ((List.prefix_append_right_inj _).mp e))⟩
  | base =>
    rw [base_removeAll (dd := dd), rmName_kp hk'] at he
    obtain ⟨h1, _⟩ := Prod.mk.inj he
    have hsafe := hiddenRemoveAll_safe (R h) (nhidKeys h) hk' hne hg.os 64
    change (hiddenRemoveAll (nhs hk) (inner bk dd) 64 m (kp k)).1 = m' at h1
    rw [h1] at hsafe
    obtain ⟨g1, _, f1, f2, _, _⟩ := hsafe
    refine ⟨⟨g1, erase_eq_dir (f2 hk (hidK_iff.mpr List.prefix_rfl)) hg.loc⟩, ?_, ?_⟩
    · funext x
      show nview bk hk .backup m' x = nview bk hk .backup m x
      rw [nview_backup, nview_backup]
      exact f2 (hk ++ x) (hidK_iff.mpr (List.prefix_append _ _))
    · intro j hj
      by_cases hh : hk <+: j
      · rw [nview_base_hid hh, nview_base_hid hh]
      · rw [nview_base_vis hh, nview_base_vis hh]
        exact f1 j hj

theorem n_removeAll_ok (h : NRoots bk hk dd) (hg : NGood bk hk dd m) (hk' : PKey k) (hne : k ≠ [])
    (hp : ¬ NPar hk s k) (hv : nview bk hk s m k ≠ none)
    (hbelow : ∀ j, k <+: j → j ≠ k → nview bk hk s m j = none) :
    ∃ m', ((nestedCfg bk hk).side s).call m (.removeAll (kp k)) = (m', .ok .unit) ∧ nview bk hk s m' k = none := by
  obtain ⟨hvis, hv'⟩ := nview_ne_none (dd := dd) hv
  cases s with
  | backup =>
    obtain ⟨m1, hc, hall⟩ := os_removeAll_ok h.r1 hg.os (h.ph.append hk') (by simp [hne]) hv'
    refine ⟨m1, (fwd_removeAll_backup h hk').unit_of hc, ?_⟩
    rw [nview_backup]
    exact hall (hk ++ k) List.prefix_rfl
  | base =>
    have hnh : ¬ HidK [hk] k := fun e => hvis (hidK_iff.mp e)
    have hht : ∀ j, k <+: j → (R h).view .base m j ≠ none → j.length < k.length + 64 := by
      intro j hj hjv
      by_cases e : j = k
      · subst e; omega
      · exfalso
        have hvj : ¬ hk <+: j := below_vis (s := .base) hvis hp hj
        have := hbelow j hj e
        rw [nview_base_vis hvj] at this
        exact hjv this
    have hok := hiddenRemoveAll_ok (R h) (RD h) (nhidKeys h) hk' hne hg.os 64 hnh hv' hht
    have hgone := hiddenRemoveAll_complete (R h) (RD h) (nhidKeys h) hk' hne hg.os 64 hok k List.prefix_rfl hnh
      (fun hpd => hp (parK_iff.mp hpd.1))
    refine ⟨(hiddenRemoveAll (nhs hk) (inner bk dd) 64 m (kp k)).1, ?_, ?_⟩
    · rw [base_removeAll (dd := dd), rmName_kp hk']
      show ((hiddenRemoveAll (nhs hk) (inner bk dd) 64 m (kp k)).1,
        (hiddenRemoveAll (nhs hk) (inner bk dd) 64 m (kp k)).2.map (fun _ => Ret.unit)) = _
      rw [hok]
      rfl
    · rw [nview_base_vis hvis]
      exact hgone

/-! ### `Rename` -/

/-- `rename(2)` on the OS touches nothing outside the two subtrees -/
theorem rename_tree_spec {bk kk : Key} {m m' : MFS} (s : Side) {ko kn : Key} {r : Except Err Unit}
    (hr : Roots bk kk) (hg : OSGood bk kk m) (hko : PKey ko) (hkn : PKey kn)
    (h : m.rename (kp (osRoot bk kk s ++ ko)) (kp (osRoot bk kk s ++ kn)) = (m', r)) :
    ∀ K', ¬ osRoot bk kk s ++ ko <+: K' → ¬ osRoot bk kk s ++ kn <+: K' →
      (m'.get K').map eraseMt = (m.get K').map eraseMt := by
  have hsame : ∀ K', ¬ osRoot bk kk s ++ ko <+: K' → ¬ osRoot bk kk s ++ kn <+: K' →
      (m.get K').map eraseMt = (m.get K').map eraseMt := fun _ _ _ => rfl
  have hmove : ∀ P1 P2 K', ¬ osRoot bk kk s ++ ko <+: K' → ¬ osRoot bk kk s ++ kn <+: K' →
      ((((m.moveSubtree (osRoot bk kk s ++ ko) (osRoot bk kk s ++ kn)).touchDir P1).touchDir P2).get K').map eraseMt =
        (m.get K').map eraseMt := by
    intro P1 P2 K' h1 h2
    rw [touchDir_erase, touchDir_erase, moveSubtree_get_other m h2 h1]
  unfold MFS.rename at h
  simp only at h
  rcases namei_below s hr hg hkn false with ⟨nn, hnn, hnnl, hresn⟩ | ⟨hnen, mtn, hnn, hpn, hresn⟩ | ⟨en, hnen, hnn, hpn, hresn, hen⟩ <;>
  rcases namei_below s hr hg hko false with ⟨no, hno, hnol, hreso⟩ | ⟨hneo, mto, hno, hpo, hreso⟩ | ⟨eo, hneo, hno, hpo, hreso, heo⟩ <;>
  rw [hresn, hreso] at h <;> simp only at h
  · -- found, found
    cases nn with
    | link t mt => cases hnnl
    | dir mt =>
      simp only at h
      have hc : ¬ (osRoot bk kk s ++ ko = osRoot bk kk s ++ kn ∧
          kp (osRoot bk kk s ++ ko) ≠ kp (osRoot bk kk s ++ kn)) := fun hc => hc.2 (congrArg kp hc.1)
      rw [if_neg hc] at h
      simp only at h; cases h; exact hsame
    | file c mt =>
      simp only at h
      split at h
      · cases h; exact hsame
      split at h
      · cases h; exact hsame
      split at h
      · cases h; exact hsame
      split at h
      · cases h; exact hsame
      split at h
      · cases h; exact hsame
      cases h
      exact hmove _ _
  · cases nn <;> simp only at h <;> cases h <;> exact hsame
  · cases nn <;> simp only at h <;> cases h <;> exact hsame
  · -- missing, found
    simp only [dropLast_append_getLast' hnen] at h
    split at h
    · cases h; exact hsame
    cases h
    exact hmove _ _
  · cases h; exact hsame
  · cases h; exact hsame
  · cases h; exact hsame
  · cases h; exact hsame
  · cases h; exact hsame

/-- the same through the inner filesystem -/
theorem inner_rename_tree {ko kn : Key} {r : Except Err Ret} (h : NRoots bk hk dd) (hg : OSGood bk dd m)
    (hko : PKey ko) (hkn : PKey kn) (hi : (inner bk dd).call m (.rename (kp ko) (kp kn)) = (m', r)) :
    ∀ j, ¬ ko <+: j → ¬ kn <+: j → osView bk dd .base m' j = osView bk dd .base m j := by
  obtain ⟨h1, _⟩ := unit_call_state (s := .base) (x := m.rename (kp (osRoot bk dd .base ++ ko)) (kp (osRoot bk dd .base ++ kn))) h.r1
    (tr_rename h.pb hko hkn) rfl hi
  intro j hj1 hj2
  exact rename_tree_spec .base h.r1 hg hko hkn h1 (bk ++ j)
    (fun e => hj1 ((List.prefix_append_right_inj _).mp e)) (fun e => hj2 ((List.prefix_append_right_inj _).mp e))

theorem n_rename_frame {ko kn : Key} {r : Except Err Ret} (h : NRoots bk hk dd) (hg : NGood bk hk dd m)
    (hko : PKey ko) (hkn : PKey kn)
    (he : ((nestedCfg bk hk).side s).call m (.rename (kp ko) (kp kn)) = (m', r)) :
    NGood bk hk dd m' ∧ nview bk hk s.other m' = nview bk hk s.other m ∧
      (¬ ((nview bk hk s m).isDirAt ko ∧ (nview bk hk s m).hasChild ko) →
        ∀ j, j ≠ ko → j ≠ kn → nview bk hk s m' j = nview bk hk s m j) := by
  by_cases hbad : NHid hk s ko ∨ NPar hk s ko ∨ NHid hk s kn ∨ NPar hk s kn
  · obtain ⟨e, hr⟩ := refused_rename h hko hkn hbad
    rw [hr m] at he; cases he
    exact ⟨hg, rfl, fun _ _ _ _ => rfl⟩
  · have hvo : ¬ NHid hk s ko := fun e => hbad (Or.inl e)
    have hpo : ¬ NPar hk s ko := fun e => hbad (Or.inr (Or.inl e))
    have hvn : ¬ NHid hk s kn := fun e => hbad (Or.inr (Or.inr (Or.inl e)))
    have hpn : ¬ NPar hk s kn := fun e => hbad (Or.inr (Or.inr (Or.inr e)))
    have hf := fwd_rename h hko hkn hvo hpo hvn hpn
    have hi := hf.inv he
    have hKo := pk_off h s hko
    have hKn := pk_off h s hkn
    obtain ⟨g1, _, f3⟩ := os_rename_frame h.r1 hg.os hKo hKn hi
    have ftree := inner_rename_tree h hg.os hKo hKn hi
    obtain ⟨a, b, _⟩ := transfer (s := s) h hg g1 (KI := fun j => off hk s ++ ko <+: j ∨ off hk s ++ kn <+: j)
      (by
        intro j hj
        cases s with
        | base =>
          show ¬ hk <+: j
          rcases hj with hj | hj
          · exact below_vis (s := .base) hvo hpo hj
          · exact below_vis (s := .base) hvn hpn hj
        | backup =>
          show hk <+: j
          rcases hj with hj | hj <;> exact List.IsPrefix.trans (List.prefix_append _ _) hj)
      (fun hs => by subst hs; exact (os_rename_frame h.r2 hg.os2 hko hkn ((fwd2_rename h hko hkn).eq hi)).1.bdir)
      (fun j hj => ftree j (fun e => hj (Or.inl e)) (fun e => hj (Or.inr e)))
    refine ⟨a, b, ?_⟩
    intro hleaf j hj1 hj2
    have hleaf' : ¬ ((osView bk dd .base m).isDirAt (off hk s ++ ko) ∧ (osView bk dd .base m).hasChild (off hk s ++ ko)) := by
      rintro ⟨⟨mt, hd⟩, hc⟩
      exact hleaf ⟨⟨mt, by rw [nview_eq (dd := dd) hvo]; exact hd⟩, n_hasChild hvo hpo hc⟩
    by_cases hhj : NHid hk s j
    · rw [n_hid_none hhj, n_hid_none hhj]
    · rw [nview_eq (dd := dd) hhj, nview_eq (dd := dd) hhj]
      exact f3 hleaf' _ (fun e => hj1 (List.append_cancel_left e)) (fun e => hj2 (List.append_cancel_left e))

end
end BFS.N
