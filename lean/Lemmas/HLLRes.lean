import Lemmas.DConf
import Lemmas.LSimOSLaws5
/-!
  Lemmas/HLLRes.lean — the OS model on well-formed disks with symlinks ANYWHERE (`WFL`: a tree of
  plain names whose inner nodes are directories; a symlink, with any target text, is a leaf).

  Name resolution of the text of a key `K` no proper ancestor of which is a symlink
  (`L.NoLinkProper m K`): the kernel walks along `K` itself, so a call that does not follow a final
  symlink resolves to `K` whatever sits there (`nc_nf`), and a call that follows does when `K` is not
  a symlink (`nc_follow`).  With the frame laws of `Lemmas/DFrame.lean` (which only look at the
  OUTCOME of name resolution) this gives the exact effect of every OS call under that route hypothesis
  (`osCall_effect_links`), including the `os.MkdirAll` program (`mkdirAll_frame_links`: a final
  symlink is harmless there — `Stat` follows it, but nothing is written through it), and `Remove`
  keeping the disk well-formed.
-/
namespace BFS
namespace HLL
open MFS D L

/-- well-formed disk; symlinks may sit anywhere (every live key's parent is a live directory, so a
symlink is always a leaf), with any target text -/
structure WFL (m : MFS) : Prop where
  root : ∃ mt, m.get [] = some (.dir mt)
  pkey : ∀ k n, m.get k = some n → PKey k
  dom : ∀ k n, m.get k = some n → k ∈ m.dom
  mode : ∀ k n, m.get k = some n → n.meta.mode < 4096
  parent : ∀ k n, m.get k = some n → k ≠ [] → ∃ mt, m.get k.dropLast = some (.dir mt)

theorem WFL.good {m : MFS} (h : WFL m) : OSGoodL [] [] m :=
  ⟨h.root, h.pkey, h.dom, h.mode, h.parent, h.root, h.root⟩

theorem WFL.of_good {bk kk : Key} {m : MFS} (h : OSGoodL bk kk m) : WFL m :=
  ⟨h.root, h.pkey, h.dom, h.mode, h.parent⟩

theorem WFL.of_wfb {pk : Key} {m : MFS} (h : WFB pk m) : WFL m :=
  ⟨h.root, h.pkey, h.dom, h.mode, h.parent⟩

/-! ### monotonicity of the route hypotheses -/

theorem noLinkProper_of_linkSub {m m' : MFS} {K : Key} (hl : LinkSub m m') (h : NoLinkProper m K) :
    NoLinkProper m' K := by
  intro p hp hne t mt' hget
  obtain ⟨mt, h'⟩ := hl p t mt' hget
  exact h p hp hne t mt h'

theorem noLinkProper_prefix {m : MFS} {K K' : Key} (h : NoLinkProper m K) (hp : K' <+: K) : NoLinkProper m K' := by
  intro p hpp hne t mt
  apply h p (hpp.trans hp)
  intro e
  subst e
  exact hne (List.IsPrefix.eq_of_length_le hpp hp.length_le)

theorem noLinkUpto_iff {m : MFS} {K : Key} :
    NoLinkUpto m K ↔ NoLinkProper m K ∧ ∀ t mt, m.get K ≠ some (.link t mt) := by
  constructor
  · intro h
    exact ⟨fun p hp _ => h p hp, h K List.prefix_rfl⟩
  · intro ⟨h1, h2⟩ p hp
    by_cases he : p = K
    · subst he; exact h2
    · exact h1 p hp he

theorem noLinkProper_snoc {m : MFS} {K : Key} (h : NoLinkUpto m K) (c : Name) : NoLinkProper m (K ++ [c]) := by
  intro p hp hne
  apply h p
  have := prefix_dropLast hp hne
  rwa [List.dropLast_concat] at this

/-! ### name resolution along the key -/

theorem nc_nf {m : MFS} (hw : WFL m) {K : Key} (hK : PKey K) (hnl : NoLinkProper m K) {t : Path}
    (ht : TextOf t K) : NC m K (namei m t false) := by
  rcases namei_cases_nf hw.good hK hnl ht with ⟨n, hn, hr⟩ | ⟨hne, mt, hn, hp, hr⟩ | ⟨e, _, _, _, hr, _⟩
  · exact .found n hn hr
  · exact .missing hne mt hn hp hr
  · exact .err e hr

theorem nc_follow {m : MFS} (hw : WFL m) {K : Key} (hK : PKey K) (hnl : NoLinkUpto m K) {t : Path}
    (ht : TextOf t K) (f : Bool) : NC m K (namei m t f) :=
  NC.of_case (L.namei_cases hw.good hK hnl ht f)

/-- either way: the final key must not be a symlink only if the call follows -/
theorem nc_any {m : MFS} (hw : WFL m) {K : Key} (hK : PKey K) (hnl : NoLinkProper m K) {t : Path}
    (ht : TextOf t K) (f : Bool) (hf : f = true → ∀ tg mt, m.get K ≠ some (.link tg mt)) :
    NC m K (namei m t f) := by
  cases f with
  | false => exact nc_nf hw hK hnl ht
  | true => exact nc_follow hw hK (noLinkUpto_iff.mpr ⟨hnl, hf rfl⟩) ht true

/-! ### `Remove`, `Mkdir` keep the disk well-formed and create no symlink -/

theorem remove_wfl {m : MFS} (hw : WFL m) {K : Key} {t : Path}
    (hN : NameiCaseNF m K (namei m t false)) : WFL (m.remove t).1 ∧ LinkSub m (m.remove t).1 := by
  have hg := hw.good
  unfold MFS.remove
  have hrm : ∀ P, LinkSub m ((m.set K none).touchDir P) := fun P =>
    (LinkSub.set_nonlink _ _ (by intro t mt' e; cases e)).touch P
  rcases hN with ⟨n, hn, hr⟩ | ⟨hne, mt, hn, hp, hr⟩ | ⟨e, _, _, _, hr, _⟩
  · rw [hr]
    simp only
    split
    · exact ⟨hw, LinkSub.refl _⟩
    · rename_i hne
      have hleaf : n.isDir = false → ∀ c', m.get (K ++ [c']) = none := fun hnd c' =>
        hg.below_nondir (List.prefix_append _ _) (by simp) hn hnd
      cases n with
      | dir mt =>
        simp only
        split
        · exact ⟨hw, LinkSub.refl _⟩
        · rename_i hch
          have hch' := (L.hasChildren_false_iff hg _).mp (by simpa using hch)
          exact ⟨WFL.of_good (L.good_touchDir (L.good_set_none hg hch' hne hne hne) _), hrm _⟩
      | file c mt =>
        exact ⟨WFL.of_good (L.good_touchDir (L.good_set_none hg (hleaf rfl) hne hne hne) _), hrm _⟩
      | link tg mt =>
        exact ⟨WFL.of_good (L.good_touchDir (L.good_set_none hg (hleaf rfl) hne hne hne) _), hrm _⟩
  · rw [hr]; exact ⟨hw, LinkSub.refl _⟩
  · rw [hr]; exact ⟨hw, LinkSub.refl _⟩

theorem mkdir_wfl {m : MFS} (hw : WFL m) {K : Key} (hK : PKey K) {t : Path} (perm : Nat)
    (hN : NC m K (namei m t false)) : WFL (m.mkdir t perm).1 ∧ LinkSub m (m.mkdir t perm).1 := by
  have hg := hw.good
  unfold MFS.mkdir
  rcases hN with ⟨n, hn, hr⟩ | ⟨hne, mt, hn, hp, hr⟩ | ⟨e, hr⟩
  · rw [hr]; exact ⟨hw, LinkSub.refl _⟩
  · rw [hr]
    have hc := hK.getLast hne
    have hnone : m.get (K.dropLast ++ [K.getLast hne]) = none := by
      rw [dropLast_append_getLast' hne]; exact hn
    refine ⟨WFL.of_good (L.good_touchDir (L.good_set_new hg hp hc hnone (mkdir_mode_lt _ _ _)) _), ?_⟩
    exact (LinkSub.set_nonlink _ _ (by intro t mt' e; cases e)).touch _
  · rw [hr]; exact ⟨hw, LinkSub.refl _⟩

/-- `Mkdir` of a live key changes nothing -/
theorem mkdir_live_state {m : MFS} {K : Key} {t : Path} (perm : Nat) {n : Node}
    (hN : NC m K (namei m t false)) (hn : m.get K = some n) : (m.mkdir t perm).1 = m := by
  unfold MFS.mkdir
  rcases hN with ⟨n', _, hr⟩ | ⟨_, _, hn', _, _⟩ | ⟨e, hr⟩
  · rw [hr]
  · rw [hn] at hn'; cases hn'
  · rw [hr]

/-! ### `os.MkdirAll` -/

theorem mkdirAll_frame_links (perm : Nat) :
    ∀ (fuel : Nat) (K : Key) (t : Path) (m m' : MFS) (r : Except Err Unit),
      WFL m → PKey K → NoLinkProper m K → TextOf t K →
      m.mkdirAll perm fuel t = (m', r) → WFL m' ∧ MkAll m m' K ∧ LinkSub m m' := by
  intro fuel
  induction fuel with
  | zero =>
    intro K t m m' r hw _ _ _ h
    simp only [MFS.mkdirAll] at h
    obtain ⟨rfl, _⟩ := Prod.mk.inj h
    exact ⟨hw, MkAll.refl _ _, LinkSub.refl _⟩
  | succ fuel ih =>
    intro K t m m' r hw hK hnl ht h
    cases hst : m.stat t with
    | ok i =>
      rw [mkdirAll_succ_ok m perm fuel t hst] at h
      split at h <;> (obtain ⟨rfl, _⟩ := Prod.mk.inj h; exact ⟨hw, MkAll.refl _ _, LinkSub.refl _⟩)
    | error e0 =>
      -- the key is absent or a symlink (a live non-symlink would have been found by `Stat`)
      have hcase : m.get K = none ∨ ∃ tg mt, m.get K = some (.link tg mt) := by
        cases hn : m.get K with
        | none => exact Or.inl rfl
        | some n =>
          right
          cases n with
          | link tg mt => exact ⟨tg, mt, rfl⟩
          | file c mt =>
            exfalso
            have := namei_found' m true hK ht hn (Or.inl rfl) (fun p hp hne => hw.good.ancestor hn hp hne)
            unfold MFS.stat at hst; rw [this] at hst; cases hst
          | dir mt =>
            exfalso
            have := namei_found' m true hK ht hn (Or.inl rfl) (fun p hp hne => hw.good.ancestor hn hp hne)
            unfold MFS.stat at hst; rw [this] at hst; cases hst
      have hne : K ≠ [] := by
        intro e
        obtain ⟨mt, hr⟩ := hw.root
        rcases hcase with hn | ⟨tg, mt', hn⟩ <;> (rw [e, hr] at hn; cases hn)
      have hpt := text_parent hK hne ht
      have hpl := parentText_length K
      have htp : TextOf (parentText K) K.dropLast := parentText_text
      rw [mkdirAll_succ_err m perm fuel t hst, hpt] at h
      simp only [hpl, if_true] at h
      cases hrec : m.mkdirAll perm fuel (parentText K) with
      | mk m1 r1 =>
        obtain ⟨i1, i2, i3⟩ := ih K.dropLast _ m m1 r1 hw hK.dropLast
          (noLinkProper_prefix hnl (dropLast_prefix K)) htp hrec
        rw [hrec] at h
        cases r1 with
        | error e =>
          simp only at h
          obtain ⟨rfl, _⟩ := Prod.mk.inj h
          exact ⟨i1, i2.mono (dropLast_prefix K), i3⟩
        | ok u =>
          simp only at h
          have hN1 := nc_nf i1 hK (noLinkProper_of_linkSub i3 hnl) ht
          have hm' : m' = (m1.mkdir t perm).1 := by
            rw [← mkdirAllTail_state, h]
          obtain ⟨w2, l2⟩ := mkdir_wfl i1 hK perm hN1
          rcases hcase with hn | ⟨tg, mt, hn⟩
          · rw [hm']
            exact ⟨w2, MkAll.step hne hn i2 (at_mkdir perm hN1), i3.trans l2⟩
          · -- the symlink is still there: `Mkdir` says EEXIST, nothing more happens
            have hK1 : m1.get K = some (.link tg mt) := by
              rcases i2 K with h0 | ⟨a, _⟩ | ⟨a, _⟩
              · rw [h0]; exact hn
              · exfalso
                exact not_prefix_dropLast hne a
              · rcases a with a | ⟨mt0, a, _⟩
                · rw [a]; exact hn
                · rw [hn] at a; cases a
            rw [hm', mkdir_live_state perm hN1 hK1]
            exact ⟨i1, i2.mono (dropLast_prefix K), i3⟩

/-! ### the effect of one OS call under the route hypothesis -/

/-- the calls that follow a final symlink AND can write through it: `Create`, `OpenFile` with
`O_CREATE` (without `O_EXCL`) or with write access and `O_TRUNC`, `Chmod`, `Chown`, `Chtimes`.
(`Stat`, `Open` and `OpenFile` for reading follow too but change nothing; `MkdirAll` stats through
the link and then fails or succeeds without writing; all other calls do not follow.) -/
def followsMut : Call → Bool
  | .create _ => true
  | .openFile _ f _ =>
    !(hasFlag f O_CREATE && hasFlag f O_EXCL) &&
      (hasFlag f O_CREATE || (accessMode f != 0 && hasFlag f O_TRUNC))
  | .chmod _ _ => true
  | .chown _ _ _ => true
  | .chtimes _ _ _ => true
  | _ => false

/-- opening without creation and without truncation leaves the disk alone -/
theorem openFile_nomut_state (m : MFS) (p : Path) (f perm : Nat) (h1 : hasFlag f O_CREATE = false)
    (h2 : (accessMode f != 0 && hasFlag f O_TRUNC) = false) : (m.openFile p f perm).1 = m := by
  unfold MFS.openFile
  simp only [h1, Bool.false_and, Bool.not_false, Bool.false_eq_true, if_false, Bool.or_false]
  cases namei m p true with
  | err e => rfl
  | missing a b => rfl
  | found k n =>
    cases n with
    | dir mt => simp only; split <;> rfl
    | link t mt => rfl
    | file c mt =>
      simp only [h2, Bool.false_eq_true, if_false]

theorem osCall_effect_links {pk : Key} {m : MFS} (hw : WFL m) (hpk : PKey pk) {c c' : Call}
    (hk : KeyCall pk c c')
    (hroute : ∀ x, PKey x → kp (pk ++ x) ∈ c'.accessPaths → NoLinkProper m (pk ++ x))
    (hfinal : followsMut c' = true → ∀ x, PKey x → kp (pk ++ x) ∈ c'.accessPaths →
      ∀ tg mt, m.get (pk ++ x) ≠ some (.link tg mt)) :
    Effect pk m (osCall m c').1 c' := by
  have R : ∀ {x : Key}, PKey x → kp (pk ++ x) ∈ c'.accessPaths →
      NC m (pk ++ x) (namei m (kp (pk ++ x)) false) :=
    fun hx hm => nc_nf hw (hpk.append hx) (hroute _ hx hm) (TextOf.kp _)
  have RF : ∀ {x : Key}, PKey x → kp (pk ++ x) ∈ c'.accessPaths → followsMut c' = true →
      ∀ f, NC m (pk ++ x) (namei m (kp (pk ++ x)) f) :=
    fun hx hm hf f => nc_any hw (hpk.append hx) (hroute _ hx hm) (TextOf.kp _) f
      (fun _ => hfinal hf _ hx hm)
  cases hk with
  | create n x hx _ =>
    exact ⟨x, hx, rfl, at_openFile _ _ (RF hx (by simp [Call.accessPaths]) rfl _)⟩
  | mkdir n p x hx _ => exact ⟨x, hx, rfl, at_mkdir _ (R hx (by simp [Call.accessPaths]))⟩
  | mkdirAll n p x hx _ =>
    exact ⟨x, hx, rfl, (mkdirAll_frame_links p _ (pk ++ x) _ m _ _ hw (hpk.append hx)
      (hroute _ hx (by simp [Call.accessPaths])) (TextOf.kp _) rfl).2.1⟩
  | open_ n x hx _ =>
    refine ⟨x, hx, rfl, ?_⟩
    show At m (m.openFile _ O_RDONLY 0).1 _
    rw [openFile_ro_state]
    exact At.refl _ _
  | openFile n f p x hx _ =>
    refine ⟨x, hx, rfl, ?_⟩
    show At m (m.openFile _ f p).1 _
    by_cases hf : followsMut (.openFile (kp (pk ++ x)) f p) = true
    · exact at_openFile _ _ (RF hx (by simp [Call.accessPaths]) hf _)
    · simp only [followsMut, Bool.and_eq_true, Bool.not_eq_true', not_and, Bool.not_eq_true] at hf
      by_cases hex : (hasFlag f O_CREATE && hasFlag f O_EXCL) = true
      · have := R hx (by simp [Call.accessPaths])
        exact at_openFile _ _ (by rw [hex]; exact this)
      · have hm := hf (by simpa using hex)
        simp only [Bool.or_eq_false_iff] at hm
        rw [openFile_nomut_state m _ f p hm.1 hm.2]
        exact At.refl _ _
  | remove n x hx _ => exact ⟨x, hx, rfl, at_remove (R hx (by simp [Call.accessPaths]))⟩
  | removeAll n x hx _ => exact ⟨x, hx, rfl, belowK_removeAll (R hx (by simp [Call.accessPaths]))⟩
  | rename o n x y hx hy _ _ =>
    exact ⟨x, y, hx, hy, rfl, rfl,
      rename_frame (R hx (by simp [Call.accessPaths])) (R hy (by simp [Call.accessPaths]))⟩
  | stat n x hx _ => exact ⟨x, hx, rfl, At.refl _ _⟩
  | chmod n md x hx _ => exact ⟨x, hx, rfl, at_chmod _ (RF hx (by simp [Call.accessPaths]) rfl _)⟩
  | chown n u g x hx _ => exact ⟨x, hx, rfl, at_chown _ _ (RF hx (by simp [Call.accessPaths]) rfl _)⟩
  | chtimes n a t x hx _ => exact ⟨x, hx, rfl, at_chtimes _ (RF hx (by simp [Call.accessPaths]) rfl _)⟩
  | lstat n x hx _ => exact ⟨x, hx, rfl, At.refl _ _⟩
  | symlink o n o' x hx _ => exact ⟨x, hx, rfl, at_symlink _ (R hx (by simp [Call.accessPaths]))⟩
  | readlink n x hx _ => exact ⟨x, hx, rfl, At.refl _ _⟩
  | lchown n u g x hx _ => exact ⟨x, hx, rfl, at_lchown _ _ (R hx (by simp [Call.accessPaths]))⟩

end HLL
end BFS
