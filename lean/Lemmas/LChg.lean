import Lemmas.LSim
import Lemmas.Track
/-!
  Lemmas/LChg.lean — world-level step relations derived from an `LSim`, and what each primitive
  call of the BackupFS code satisfies (for every fault plan: a refused call changes nothing).
  `ChgL`: a step confined to some keys; `Chg`: in addition no symlink appears or changes target.
-/
namespace BFS
namespace L

variable {cfg : Cfg} (S : LSim cfg)

/-! ### plain facts about views -/

theorem LinkMono.refl (v : View) : LinkMono v v := fun _ _ mt h => ⟨mt, h⟩

theorem LinkMono.trans {a b c : View} (h1 : LinkMono a b) (h2 : LinkMono b c) : LinkMono a c := by
  intro j t mt' h
  obtain ⟨mt, hb⟩ := h2 j t mt' h
  exact h1 j t mt hb

theorem LinkMono.of_eq {v v' : View} (h : v' = v) : LinkMono v v' := by
  subst h; exact LinkMono.refl _

theorem LinkMono.isLinkAt {v v' : View} (h : LinkMono v v') {k : Key} (hl : isLinkAt v' k) : isLinkAt v k := by
  obtain ⟨t, mt, ht⟩ := hl
  obtain ⟨mt0, h0⟩ := h k t mt ht
  exact ⟨t, mt0, h0⟩

theorem LinkMono.noLinkAnc {v v' : View} (h : LinkMono v v') {k : Key} (hn : NoLinkAnc v k) : NoLinkAnc v' k :=
  fun a ha hne hl => hn a ha hne (h.isLinkAt hl)

theorem LinkMono.accF {v v' : View} (h : LinkMono v v') {k : Key} (hn : AccF v k) : AccF v' k :=
  ⟨h.noLinkAnc hn.1, fun hl => hn.2 (h.isLinkAt hl)⟩

theorem prefix_antisymm {α} {a b : List α} (h1 : a <+: b) (h2 : b <+: a) : a = b :=
  h1.eq_of_length_le h2.length_le

theorem NoLinkAnc.of_prefix {v : View} {a k : Key} (h : NoLinkAnc v k) (ha : a <+: k) : NoLinkAnc v a := by
  intro b hb hne hl
  refine h b (List.IsPrefix.trans hb ha) ?_ hl
  intro e
  subst e
  exact hne (prefix_antisymm hb ha)

theorem NoLinkAnc.root (v : View) : NoLinkAnc v [] := by
  intro a ha hne
  exact absurd (List.prefix_nil.mp ha) hne

theorem isLinkAt_not_dir {v : View} {k : Key} (hd : v.isDirAt k) : ¬ isLinkAt v k := by
  rintro ⟨t, mt, h⟩
  obtain ⟨md, hd⟩ := hd
  rw [hd] at h; cases h

theorem isLinkAt_not_file {v : View} {k : Key} (hd : v.isFileAt k) : ¬ isLinkAt v k := by
  rintro ⟨t, mt, h⟩
  obtain ⟨c, md, hd⟩ := hd
  rw [hd] at h; cases h

theorem isLinkAt_not_none {v : View} {k : Key} (hd : v k = none) : ¬ isLinkAt v k := by
  rintro ⟨t, mt, h⟩
  rw [hd] at h; cases h

/-- what makes a view a filesystem tree whose symlinks are leaves: the root is a directory, parents
of live keys are live directories, keys are made of real names, 12 mode bits, directory timestamps
erased, symlink timestamps and modes erased, symlink targets cleaned -/
structure GoodView (v : View) : Prop where
  root : v.isDirAt []
  parent : ∀ {k}, v k ≠ none → k ≠ [] → v.isDirAt k.dropLast
  pkey : ∀ {k}, v k ≠ none → PKey k
  mode : ∀ {k n}, v k = some n → n.meta.mode < 4096
  erased : ∀ {k mt}, v k = some (.dir mt) → mt.mtime = .fresh
  lerased : ∀ {k t mt}, v k = some (.link t mt) → mt.mtime = .fresh ∧ mt.mode = 0o777
  canon : ∀ {k t mt}, v k = some (.link t mt) → clean t = t

theorem LSim.goodView {m : MFS} (hg : S.G m) (s : Side) : GoodView (S.view s m) :=
  ⟨S.root_dir hg, fun h hne => S.parent_dir hg h hne, fun h => S.pkey hg h,
    fun h => S.mode_lt hg h, fun h => S.erased hg h, fun h => S.link_erased hg h, fun h => S.link_canon hg h⟩

/-- every proper ancestor of a live key is a directory -/
theorem GoodView.anc_dir {v : View} (hv : GoodView v) :
    ∀ (n : Nat) (k : Key), k.length = n → v k ≠ none → ∀ a, a <+: k → a ≠ k → v.isDirAt a := by
  intro n
  induction n with
  | zero =>
    intro k hl _ a ha hne
    have : k = [] := List.length_eq_zero_iff.mp hl
    subst this
    exact absurd (List.prefix_nil.mp ha) hne
  | succ n ih =>
    intro k hl hk a ha hne
    have hkne : k ≠ [] := by intro e; rw [e] at hl; cases hl
    have hpar := hv.parent hk hkne
    have ha' : a <+: k.dropLast := prefix_proper_dropLast ha hne
    by_cases he : a = k.dropLast
    · rw [he]; exact hpar
    · refine ih k.dropLast (by simp [hl]) ?_ a ha' he
      obtain ⟨mt, h⟩ := hpar
      rw [h]; simp

theorem GoodView.ancestors {v : View} (hv : GoodView v) {k a : Key} (hk : v k ≠ none) (ha : a <+: k) (hne : a ≠ k) :
    v.isDirAt a := hv.anc_dir k.length k rfl hk a ha hne

theorem GoodView.noLinkAnc_present {v : View} (hv : GoodView v) {k : Key} (hk : v k ≠ none) : NoLinkAnc v k :=
  fun a ha hne => isLinkAt_not_dir (hv.ancestors hk ha hne)

theorem GoodView.noLinkAnc_parentDir {v : View} (hv : GoodView v) {k : Key} (hp : v.parentDir k) : NoLinkAnc v k := by
  intro a ha hne
  have ha' : a <+: k.dropLast := prefix_proper_dropLast ha hne
  obtain ⟨mt, hd⟩ := hp.2
  by_cases he : a = k.dropLast
  · rw [he]; exact isLinkAt_not_dir ⟨mt, hd⟩
  · exact isLinkAt_not_dir (hv.ancestors (by rw [hd]; simp) ha' he)

/-- nothing lives below a key that is absent or not a directory -/
theorem GoodView.below_none {v : View} (hv : GoodView v) {k : Key} (hk : ¬ v.isDirAt k) :
    ∀ j, k <+: j → j ≠ k → v j = none := by
  intro j hj hne
  apply Classical.byContradiction
  intro hp
  exact hk (hv.ancestors hp hj (fun e => hne e.symm))

variable {S}

theorem LSim.noLinkAnc_present {m : MFS} {s : Side} {k : Key} (hg : S.G m) (hk : S.view s m k ≠ none) :
    NoLinkAnc (S.view s m) k := (S.goodView hg s).noLinkAnc_present hk

theorem LSim.noLinkAnc_parentDir {m : MFS} {s : Side} {k : Key} (hg : S.G m) (hp : (S.view s m).parentDir k) :
    NoLinkAnc (S.view s m) k := (S.goodView hg s).noLinkAnc_parentDir hp

theorem LSim.accF_present {m : MFS} {s : Side} {k : Key} {n : Node} (hg : S.G m) (hk : S.view s m k = some n)
    (hl : n.isLink = false) : AccF (S.view s m) k := by
  refine ⟨S.noLinkAnc_present hg (by rw [hk]; simp), ?_⟩
  rintro ⟨t, mt, h⟩
  rw [hk] at h; cases h; cases hl

variable (S)

/-! ### step relations -/

/-- a step on side `s` that changes that side's view at most at the keys in `K`; the other
side's view, the tracked map and the fault plan are untouched -/
structure LSim.ChgL (s : Side) (K : Key → Prop) (w w' : World) : Prop where
  good : S.G w'.fs
  other : S.view s.other w'.fs = S.view s.other w.fs
  frame : ∀ j, ¬ K j → S.view s w'.fs j = S.view s w.fs j
  infos : w'.infos = w.infos
  faults : w'.faults = w.faults

/-- … and no symlink appears or changes its target -/
structure LSim.Chg (s : Side) (K : Key → Prop) (w w' : World) : Prop extends S.ChgL s K w w' where
  links : LinkMono (S.view s w.fs) (S.view s w'.fs)

variable {S}

theorem LSim.ChgL.of_same {s : Side} {K : Key → Prop} {w w' : World} (hg : S.G w.fs) (h : SameFS w w') :
    S.ChgL s K w w' :=
  ⟨h.fs ▸ hg, by rw [h.fs], fun _ _ => by rw [h.fs], h.infos, h.faults⟩

theorem LSim.Chg.of_same {s : Side} {K : Key → Prop} {w w' : World} (hg : S.G w.fs) (h : SameFS w w') :
    S.Chg s K w w' :=
  ⟨LSim.ChgL.of_same hg h, LinkMono.of_eq (by rw [h.fs])⟩

theorem LSim.Chg.refl {s : Side} {K : Key → Prop} {w : World} (hg : S.G w.fs) : S.Chg s K w w :=
  LSim.Chg.of_same hg (SameFS.refl w)

theorem LSim.ChgL.refl {s : Side} {K : Key → Prop} {w : World} (hg : S.G w.fs) : S.ChgL s K w w :=
  LSim.ChgL.of_same hg (SameFS.refl w)

theorem LSim.ChgL.trans {s : Side} {K : Key → Prop} {a b c : World} (h1 : S.ChgL s K a b) (h2 : S.ChgL s K b c) :
    S.ChgL s K a c :=
  ⟨h2.good, h2.other.trans h1.other, fun j hj => (h2.frame j hj).trans (h1.frame j hj),
    h2.infos.trans h1.infos, h2.faults.trans h1.faults⟩

theorem LSim.Chg.trans {s : Side} {K : Key → Prop} {a b c : World} (h1 : S.Chg s K a b) (h2 : S.Chg s K b c) :
    S.Chg s K a c :=
  ⟨h1.toChgL.trans h2.toChgL, h1.links.trans h2.links⟩

theorem LSim.ChgL.mono {s : Side} {K K' : Key → Prop} {w w' : World} (h : S.ChgL s K w w')
    (hk : ∀ j, K j → K' j) : S.ChgL s K' w w' :=
  ⟨h.good, h.other, fun j hj => h.frame j (fun hkj => hj (hk j hkj)), h.infos, h.faults⟩

theorem LSim.Chg.mono {s : Side} {K K' : Key → Prop} {w w' : World} (h : S.Chg s K w w')
    (hk : ∀ j, K j → K' j) : S.Chg s K' w w' :=
  ⟨h.toChgL.mono hk, h.links⟩

theorem LSim.ChgL.same_left {s : Side} {K : Key → Prop} {a b c : World} (h1 : SameFS a b) (h2 : S.ChgL s K b c) :
    S.ChgL s K a c :=
  ⟨h2.good, by rw [h2.other, h1.fs], fun j hj => by rw [h2.frame j hj, h1.fs],
    h2.infos.trans h1.infos, h2.faults.trans h1.faults⟩

theorem LSim.Chg.same_left {s : Side} {K : Key → Prop} {a b c : World} (h1 : SameFS a b) (h2 : S.Chg s K b c) :
    S.Chg s K a c :=
  ⟨h2.toChgL.same_left h1, by have := h2.links; rw [h1.fs] at this; exact this⟩

theorem LSim.ChgL.same_right {s : Side} {K : Key → Prop} {a b c : World} (h1 : S.ChgL s K a b) (h2 : SameFS b c) :
    S.ChgL s K a c :=
  ⟨h2.fs ▸ h1.good, by rw [h2.fs, h1.other], fun j hj => by rw [h2.fs, h1.frame j hj],
    h2.infos.trans h1.infos, h2.faults.trans h1.faults⟩

theorem LSim.Chg.same_right {s : Side} {K : Key → Prop} {a b c : World} (h1 : S.Chg s K a b) (h2 : SameFS b c) :
    S.Chg s K a c :=
  ⟨h1.toChgL.same_right h2, by rw [h2.fs]; exact h1.links⟩

/-- a step confined to `K` keeps `NoLinkAnc`/`AccF` -/
theorem LSim.Chg.accF {s : Side} {K : Key → Prop} {w w' : World} (h : S.Chg s K w w') {k : Key}
    (ha : AccF (S.view s w.fs) k) : AccF (S.view s w'.fs) k := h.links.accF ha

theorem LSim.Chg.noLinkAnc {s : Side} {K : Key → Prop} {w w' : World} (h : S.Chg s K w w') {k : Key}
    (ha : NoLinkAnc (S.view s w.fs) k) : NoLinkAnc (S.view s w'.fs) k := h.links.noLinkAnc ha

/-- a step confined to the single key `k` keeps `NoLinkAnc` of `k` (its ancestors are untouched) -/
theorem LSim.ChgL.noLinkAnc_at {s : Side} {k : Key} {w w' : World} (h : S.ChgL s (· = k) w w')
    (ha : NoLinkAnc (S.view s w.fs) k) : NoLinkAnc (S.view s w'.fs) k := by
  intro a hpre hne hl
  apply ha a hpre hne
  obtain ⟨t, mt, ht⟩ := hl
  exact ⟨t, mt, by rw [← h.frame a hne]; exact ht⟩

/-- the generic frame rule: a primitive whose law bounds its effect satisfies `Chg` whatever the
fault plan does -/
theorem sat_primCall_chg {s : Side} {c : Call} {K : Key → Prop} {w : World} (hg : S.G w.fs)
    (hlaw : ∀ m' r, (cfg.side s).call w.fs c = (m', r) →
      S.G m' ∧ S.view s.other m' = S.view s.other w.fs ∧ (∀ j, ¬ K j → S.view s m' j = S.view s w.fs j) ∧
        LinkMono (S.view s w.fs) (S.view s m')) :
    Sat (primCall cfg s c) w (fun w' _ => S.Chg s K w w') := by
  apply Sat.primCall
  · intro _ w1 h1
    exact LSim.Chg.of_same hg h1
  · intro w1 h1
    obtain ⟨g, o, f, l⟩ := hlaw _ _ rfl
    exact ⟨⟨g, o, f, h1.infos, h1.faults⟩, l⟩

theorem sat_primUnit_chg {s : Side} {c : Call} {K : Key → Prop} {w : World} (hg : S.G w.fs)
    (hlaw : ∀ m' r, (cfg.side s).call w.fs c = (m', r) →
      S.G m' ∧ S.view s.other m' = S.view s.other w.fs ∧ (∀ j, ¬ K j → S.view s m' j = S.view s w.fs j) ∧
        LinkMono (S.view s w.fs) (S.view s m')) :
    Sat (primUnit cfg s c) w (fun w' _ => S.Chg s K w w') := by
  unfold primUnit
  apply Sat.bind
  apply (sat_primCall_chg hg hlaw).mono
  intro w1 r h
  cases r with
  | ok a => exact Sat.pure h
  | error e => exact h

theorem sat_primUnit_chgL {s : Side} {c : Call} {K : Key → Prop} {w : World} (hg : S.G w.fs)
    (hlaw : ∀ m' r, (cfg.side s).call w.fs c = (m', r) →
      S.G m' ∧ S.view s.other m' = S.view s.other w.fs ∧ (∀ j, ¬ K j → S.view s m' j = S.view s w.fs j)) :
    Sat (primUnit cfg s c) w (fun w' _ => S.ChgL s K w w') := by
  unfold primUnit
  apply Sat.bind
  apply Sat.primCall
  · intro _ w1 h1
    exact LSim.ChgL.of_same hg h1
  · intro w1 h1
    obtain ⟨g, o, f⟩ := hlaw _ _ rfl
    have : S.ChgL s K w { w1 with fs := ((cfg.side s).call w.fs c).1 } := ⟨g, o, f, h1.infos, h1.faults⟩
    cases ((cfg.side s).call w.fs c).2 with
    | ok a => exact Sat.pure this
    | error e => exact this

/-! ### Lstat -/

/-- what `Lstat (kp k)` on side `s` tells, under any fault plan: the node, or "not found" when
there is none, or an injected fault -/
def LstatPost (S : LSim cfg) (s : Side) (k : Key) (w : World) (w' : World) (r : Except Err Info) : Prop :=
  SameFS w w' ∧
    ((∃ n i, S.view s w.fs k = some n ∧ r = .ok i ∧ InfoForL i n) ∨
     (S.view s w.fs k = none ∧ ∃ e, r = .error e ∧ e.isNotFound = true) ∨
     (r = .error .io ∧ w.faults ≠ []))

theorem sat_lstat {s : Side} {k : Key} {w : World} (hg : S.G w.fs) (hk : PKey k)
    (hacc : NoLinkAnc (S.view s w.fs) k) :
    Sat (primInfo cfg s (.lstat (kp k))) w (LstatPost S s k w) := by
  unfold primInfo
  apply Sat.bind
  apply (sat_primCall_pure (fun m' r h => S.pure_lstat h)).mono
  intro w1 r ⟨hs, hr⟩
  cases hv : S.view s w.fs k with
  | none =>
    obtain ⟨e, he, hnf⟩ := S.lstat_none hg hk hacc hv
    rw [he] at hr
    rcases hr with rfl | ⟨hf, rfl⟩
    · exact ⟨hs, Or.inr (Or.inl ⟨hv, e, rfl, hnf⟩)⟩
    · exact ⟨hs, Or.inr (Or.inr ⟨rfl, hf⟩)⟩
  | some n =>
    obtain ⟨i, hi, hfor⟩ := S.lstat_some hg hk hv
    rw [hi] at hr
    rcases hr with rfl | ⟨hf, rfl⟩
    · apply Sat.pure
      exact ⟨hs, Or.inl ⟨n, i, hv, rfl, hfor⟩⟩
    · exact ⟨hs, Or.inr (Or.inr ⟨rfl, hf⟩)⟩

/-- the root entry of Rollback's first loop, on a healthy pair of filesystems (the root of either
view is a directory): ONE read-only primitive (Lstat of the root on the base) that finds the
directory; the state is unchanged; no error is collected unless a fault was injected -/
theorem sat_ensureRoot {w : World} (hg : S.G w.fs) (i : Info) :
    Sat (BackupFS.ensureRoot cfg rootP i) w (fun w' r => SameFS w w' ∧ ∃ f, r = .ok f ∧ (w.faults = [] → f = false)) := by
  unfold BackupFS.ensureRoot BackupFS.lexists
  apply Sat.bind
  apply Sat.attempt
  apply Sat.bind
  apply Sat.attempt
  apply (sat_lstat (S := S) (s := .base) (k := []) hg (by intro n hn; cases hn) (fun a ha hne => absurd (List.prefix_nil.mp ha) hne)).mono
  intro w1 r ⟨hs, hr⟩
  obtain ⟨mt, hroot⟩ := S.root_dir (s := .base) hg
  rcases hr with ⟨n, j, hv, rfl, hfor⟩ | ⟨hv, e, rfl, hnfd⟩ | ⟨rfl, hf⟩
  · exact ⟨hs, false, rfl, fun _ => rfl⟩
  · rw [hroot] at hv; cases hv
  · exact ⟨hs, true, rfl, fun h => absurd h hf⟩


/-- `Readlink (kp k)` of a symlink, under any fault plan -/
theorem sat_readlink {s : Side} {k : Key} {t : Path} {mt : Meta} {w : World} (hg : S.G w.fs) (hk : PKey k)
    (hv : S.view s w.fs k = some (.link t mt)) :
    Sat (primStr cfg s (.readlink (kp k))) w (fun w' r => SameFS w w' ∧
      (r = .ok t ∨ (r = .error .io ∧ w.faults ≠ []))) := by
  unfold primStr
  apply Sat.bind
  apply (sat_primCall_pure (fun m' r h => S.pure_readlink h)).mono
  intro w1 r ⟨hs, hr⟩
  rw [S.readlink_link hg hk hv] at hr
  rcases hr with rfl | ⟨hf, rfl⟩
  · apply Sat.pure
    exact ⟨hs, Or.inl rfl⟩
  · exact ⟨hs, Or.inr ⟨rfl, hf⟩⟩

end L
end BFS
