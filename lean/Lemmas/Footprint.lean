import Lemmas.Restore
/-!
  Lemmas/Footprint.lean — the state-level footprint of `Rollback` over a `Sim`: for ANY world
  (no transaction invariant) and ANY fault plan, `rollback` changes the base view only at keys in
  the footprint of the tracked map and the backup view only at tracked keys.  Frame reasoning:
  the unconditional `*_frame` / `pure_*` laws of the contract, plus — for the one decision in
  `restoreFile` that depends on what the backup holds (`Remove` when the backup copy is a regular
  file, `RemoveAll` otherwise) — `open_handle` and `hstat_some`.
-/
namespace BFS
open BackupFS

variable {cfg : Cfg} {S : Sim cfg}

/-! ### result-independent rules of the calculus -/

theorem Sat.seq {α β} {x : M α} {f : α → M β} {w : World} {P Q : World → Prop}
    (hx : Sat x w (fun w1 _ => P w1)) (hpq : ∀ w1, P w1 → Q w1)
    (hf : ∀ a w1, P w1 → Sat (f a) w1 (fun w2 _ => Q w2)) : Sat (x >>= f) w (fun w2 _ => Q w2) := by
  apply Sat.bind
  apply hx.mono
  intro w1 r h1
  cases r with
  | ok a => exact hf a w1 h1
  | error e => exact hpq w1 h1

theorem Sat.attempt_any {α} {x : M α} {w : World} {P : World → Prop}
    (h : Sat x w (fun w1 _ => P w1)) : Sat (BFS.attempt x) w (fun w1 _ => P w1) :=
  Sat.attempt h

namespace BackupFS

theorem Sat.wrapped_any {α} {x : M α} {w : World} {P : World → Prop}
    (h : Sat x w (fun w1 _ => P w1)) : Sat (BFS.BackupFS.wrapped x) w (fun w1 _ => P w1) := by
  apply Sat.wrapped
  apply h.mono
  intro w1 r h1
  cases r with
  | ok a => exact h1
  | error e => exact h1

theorem Sat.ignorePerm_any {x : M Unit} {w : World} {P : World → Prop}
    (h : Sat x w (fun w1 _ => P w1)) : Sat (BFS.BackupFS.ignorePerm x) w (fun w1 _ => P w1) := by
  apply Sat.ignorePerm
  apply h.mono
  intro w1 r h1
  cases r with
  | ok u => exact h1
  | error e => simp only; split <;> exact h1

end BackupFS

theorem Sat.whenM_any {c : Bool} {x : M Unit} {w : World} {P : World → Prop}
    (hx : Sat x w (fun w1 _ => P w1)) (hw : P w) : Sat (BFS.whenM c x) w (fun w1 _ => P w1) :=
  Sat.whenM (fun _ => hx) (fun _ => hw)

/-! ### read-only steps, any fault plan, any path -/

theorem sat_primCall_same {s : Side} {c : Call} {w : World}
    (hpure : ∀ m' r, (cfg.side s).call w.fs c = (m', r) → m' = w.fs) :
    Sat (primCall cfg s c) w (fun w' _ => SameFS w w') :=
  (sat_primCall_pure hpure).mono (fun _ _ h => h.1)

theorem sat_primInfo_same {s : Side} {c : Call} {w : World}
    (hpure : ∀ m' r, (cfg.side s).call w.fs c = (m', r) → m' = w.fs) :
    Sat (primInfo cfg s c) w (fun w' _ => SameFS w w') := by
  unfold primInfo
  apply Sat.seq (sat_primCall_same hpure) (fun _ h => h)
  intro a w1 h1
  cases a <;> first | exact Sat.pure h1 | exact Sat.throw h1

theorem sat_primOpen_same {s : Side} {c : Call} {w : World}
    (hpure : ∀ m' r, (cfg.side s).call w.fs c = (m', r) → m' = w.fs) :
    Sat (primOpen cfg s c) w (fun w' _ => SameFS w w') := by
  unfold primOpen
  apply Sat.seq (sat_primCall_same hpure) (fun _ h => h)
  intro a w1 h1
  cases a <;> first | exact Sat.pure h1 | exact Sat.throw h1

theorem sat_lexists_same (S : Sim cfg) {s : Side} {p : Path} {w : World} :
    Sat (lexists cfg s p) w (fun w' _ => SameFS w w') := by
  unfold lexists
  apply Sat.seq (Sat.attempt_any (sat_primInfo_same (fun m' r h => S.pure_lstat h))) (fun _ h => h)
  intro a w1 h1
  cases a with
  | ok i => exact Sat.pure h1
  | error e =>
    simp only
    split
    · exact Sat.pure h1
    · exact Sat.throw h1

theorem sat_primH_same {wh : WHandle} {method : String} {extra : List Path} {mu : Bool} {w : World} :
    Sat (primH wh method extra mu) w (fun w' _ => SameFS w w') := by
  apply Sat.primH
  · intro _ w1 h1; exact h1
  · intro w1 h1; exact h1

theorem sat_hStat_same {wh : WHandle} {w : World} :
    Sat (hStat cfg wh) w (fun w' _ => SameFS w w') := by
  unfold hStat
  apply Sat.seq (P := SameFS w) sat_primH_same (fun _ h => h)
  · intro _ w1 h1
    apply Sat.bind
    apply Sat.getW
    simp only
    cases (cfg.side wh.side).hstat w1.fs wh.h with
    | ok i => exact Sat.pure h1
    | error e => exact Sat.throw h1

/-! ### `Chg` as an invariant of a sequence of steps -/

theorem Sim.Chg.step {s : Side} {K K' : Key → Prop} {a b c : World} (h1 : S.Chg s K a b) (h2 : S.Chg s K' b c)
    (hk : ∀ j, K' j → K j) : S.Chg s K a c := h1.trans (h2.mono hk)

/-- one mutating primitive whose law bounds its effect by `K'`, run after a `K`-bounded prefix -/
theorem sat_primUnit_step {s : Side} {c : Call} {K K' : Key → Prop} {w0 w : World} (h0 : S.Chg s K w0 w)
    (hk : ∀ j, K' j → K j)
    (hlaw : ∀ m' r, (cfg.side s).call w.fs c = (m', r) →
      S.G m' ∧ S.view s.other m' = S.view s.other w.fs ∧ ∀ j, ¬ K' j → S.view s m' j = S.view s w.fs j) :
    Sat (primUnit cfg s c) w (fun w' _ => S.Chg s K w0 w') :=
  (sat_primUnit_chg h0.good hlaw).mono (fun _ _ h => h0.step h hk)

theorem eq_imp_prefix {d : Key} : ∀ j, j = d → j <+: d := fun _ h => h ▸ List.prefix_refl _

theorem eq_imp_below {d : Key} : ∀ j, j = d → d <+: j := fun _ h => h ▸ List.prefix_refl _

/-! ### copyDir: changes at most the prefixes of its target -/

theorem sat_copyDir_chg {s : Side} {d : Key} {i : Info} {w : World} (hg : S.G w.fs) (hd : PKey d) :
    Sat (copyDir cfg s (kp d) i) w (fun w' _ => S.Chg s (· <+: d) w w') := by
  unfold copyDir
  apply Sat.wrapped_any
  have hrefl : S.Chg s (· <+: d) w w := Sim.Chg.refl hg
  apply Sat.ite
  · intro _; exact Sat.throw hrefl
  · intro _
    apply Sat.ite
    · intro _; exact Sat.pure hrefl
    · intro _
      -- MkdirAll
      apply Sat.seq (P := S.Chg s (· <+: d) w) _ (fun _ h => h)
      · intro _ w1 h1
        -- Lstat
        apply Sat.seq (P := S.Chg s (· <+: d) w)
          ((sat_primInfo_same (fun m' r h => S.pure_lstat h)).mono (fun _ _ h => h1.same_right h)) (fun _ h => h)
        intro cur w2 h2
        -- Chmod
        apply Sat.seq (P := S.Chg s (· <+: d) w) _ (fun _ h => h)
        · intro _ w3 h3
          -- Chtimes
          apply Sat.seq (P := S.Chg s (· <+: d) w) _ (fun _ h => h)
          · intro _ w4 h4
            -- Chown
            apply Sat.ignorePerm_any
            exact (sat_chownTo_weak (S := S) (i := i) h4.good hd).mono (fun _ _ h => h4.step h eq_imp_prefix)
          · apply Sat.whenM_any _ h3
            apply Sat.ignorePerm_any
            exact sat_primUnit_step h3 eq_imp_prefix (fun m' r h => by
              obtain ⟨g, o, f⟩ := S.chtimes_frame h3.good hd h
              exact ⟨g, o, fun j hj => f j hj⟩)
        · apply Sat.whenM_any _ h2
          exact sat_primUnit_step h2 eq_imp_prefix (fun m' r h => by
            obtain ⟨g, o, f⟩ := S.chmod_frame h2.good hd h
            exact ⟨g, o, fun j hj => f j hj⟩)
      · exact sat_primUnit_step hrefl (fun _ h => h) (fun m' r h => by
          obtain ⟨g, o, f, _, _⟩ := S.mkdirAll_frame hg hd h
          exact ⟨g, o, f⟩)

/-- both bounds `copyDir` obeys, whatever it returns: only prefixes of the target change, and no
regular file other than the target -/
theorem sat_copyDir_frame {s : Side} {d : Key} {i : Info} {w : World} (hg : S.G w.fs) (hd : PKey d) :
    Sat (copyDir cfg s (kp d) i) w (fun w' _ => S.Chg s (· <+: d) w w' ∧ S.Soft s d w w') :=
  ⟨sat_copyDir_chg hg hd, sat_copyDir_weak hg hd⟩

/-! ### writeFile / copyFile: change at most the target, whatever the source handle is -/

theorem sat_copyChunks_chg {dst src : WHandle} {k : Key} (hH : S.H dst.side dst.h k) :
    ∀ (cs : List String) (off : Nat) (w0 w : World), S.Chg dst.side (· = k) w0 w →
      Sat (copyChunks cfg dst src off cs) w (fun w' _ => S.Chg dst.side (· = k) w0 w')
  | [], off, w0, w, h0 => by
    unfold copyChunks
    exact (sat_hRead (src := src) (w := w)).mono (fun _ _ h => h0.same_right h.1)
  | c :: cs, off, w0, w, h0 => by
    unfold copyChunks
    apply Sat.seq (P := S.Chg dst.side (· = k) w0)
      ((sat_hRead (src := src) (w := w)).mono (fun _ _ h => h0.same_right h.1)) (fun _ h => h)
    intro _ w1 h1
    apply Sat.seq (P := S.Chg dst.side (· = k) w0)
      ((sat_hWrite_frame (off := off) (d := c) h1.good hH).mono (fun _ _ h => h1.trans h)) (fun _ h => h)
    intro _ w2 h2
    exact sat_copyChunks_chg hH cs _ w0 w2 h2

theorem sat_writeFile_chg {s : Side} {k : Key} {perm : Nat} {src : WHandle} {w : World}
    (hg : S.G w.fs) (hk : PKey k) :
    Sat (writeFile cfg s (kp k) perm src) w (fun w' _ => S.Chg s (· = k) w w') := by
  unfold writeFile
  apply Sat.bind
  unfold primOpen
  apply Sat.bind
  apply Sat.primCall
  · intro _ w1 h1
    exact Sim.Chg.of_same hg h1
  · intro w1 h1
    cases heq : (cfg.side s).call w.fs (.openFile (kp k) (O_RDWR ||| O_CREATE ||| O_TRUNC) (perm &&& 0o777)) with
    | mk m' r =>
      obtain ⟨g, o, f, hh⟩ := S.openFile_frame hg hk heq
      have hchg : S.Chg s (· = k) w { w1 with fs := m' } := ⟨g, o, fun j hj => f j hj, h1.infos, h1.faults⟩
      simp only
      cases r with
      | error e => exact hchg
      | ok ret =>
        cases ret with
        | handle h =>
          simp only
          apply Sat.pure
          simp only
          have hH : S.H s h k := hh h rfl
          -- peek
          apply Sat.seq (P := S.Chg s (· = k) w) _ (fun _ h => h)
          · intro data w2 h2
            let dst : WHandle := { h := h, arg := (Call.openFile (kp k) (O_RDWR ||| O_CREATE ||| O_TRUNC) (perm &&& 0o777)).primaryPath, side := s }
            apply Sat.seq (P := S.Chg s (· = k) w)
              (Sat.attempt_any (sat_copyChunks_chg (cfg := cfg) (S := S) (dst := dst) (src := src) hH _ 0 w w2 h2)) (fun _ h => h)
            intro r2 w3 h3
            apply Sat.seq (P := S.Chg s (· = k) w)
              (Sat.attempt_any ((sat_hClose (wh := dst) (w := w3)).mono (fun _ _ h => h3.same_right h.1))) (fun _ h => h)
            intro r3 w4 h4
            cases r2 with
            | error e => exact Sat.throw h4
            | ok u2 =>
              cases r3 with
              | error e => exact Sat.throw h4
              | ok u3 => exact Sat.pure h4
          · unfold peek
            apply Sat.bind
            apply Sat.getW
            simp only
            cases (cfg.side src.side).hread m' src.h with
            | ok d => exact Sat.pure hchg
            | error e => exact Sat.throw hchg
        | _ => exact hchg

theorem sat_copyFile_chg {s : Side} {k : Key} {i : Info} {src : WHandle} {w : World}
    (hg : S.G w.fs) (hk : PKey k) :
    Sat (copyFile cfg s (kp k) i src) w (fun w' _ => S.Chg s (· = k) w w') := by
  unfold copyFile
  apply Sat.wrapped_any
  apply Sat.ite
  · intro _; exact Sat.throw (Sim.Chg.refl hg)
  · intro _
    apply Sat.seq (P := S.Chg s (· = k) w) (sat_writeFile_chg hg hk) (fun _ h => h)
    intro _ w1 h1
    apply Sat.seq (P := S.Chg s (· = k) w) _ (fun _ h => h)
    · intro _ w2 h2
      apply Sat.seq (P := S.Chg s (· = k) w)
        ((sat_primInfo_same (fun m' r h => S.pure_lstat h)).mono (fun _ _ h => h2.same_right h)) (fun _ h => h)
      intro cur w3 h3
      apply Sat.seq (P := S.Chg s (· = k) w) _ (fun _ h => h)
      · intro _ w4 h4
        apply Sat.whenM_any _ h4
        apply Sat.ignorePerm_any
        exact sat_primUnit_step h4 (fun _ h => h) (fun m' r h => by
          obtain ⟨g, o, f⟩ := S.chtimes_frame h4.good hk h
          exact ⟨g, o, fun j hj => f j hj⟩)
      · apply Sat.whenM_any _ h3
        exact sat_primUnit_step h3 (fun _ h => h) (fun m' r h => by
          obtain ⟨g, o, f⟩ := S.chmod_frame h3.good hk h
          exact ⟨g, o, fun j hj => f j hj⟩)
    · apply Sat.ignorePerm_any
      exact (sat_chownTo_weak (S := S) (i := i) h1.good hk).mono (fun _ _ h => h1.trans h)

/-! ### the acts of Rollback, as `Chg` steps (any world, any fault plan, any result) -/

theorem sat_removeBaseAct_chg {k : Key} {w : World} (hg : S.G w.fs) (hk : PKey k) (hne : k ≠ []) :
    Sat (removeBaseAct cfg (kp k)) w (fun w' _ => S.Chg .base (· = k) w w') := by
  unfold removeBaseAct
  exact sat_primUnit_chg hg (fun m' r h => by
    obtain ⟨g, o, f⟩ := S.remove_frame hg hk hne h
    exact ⟨g, o, fun j hj => f j hj⟩)

/-- restoring a directory touches at most the prefixes of its key, and no regular file elsewhere -/
theorem sat_restoreDirAct_frame {infos : List (Path × Option Info)} {k : Key} {w : World}
    (hg : S.G w.fs) (hk : PKey k) (hne : k ≠ []) :
    Sat (restoreDirAct cfg infos (kp k)) w
      (fun w' _ => S.Chg .base (· <+: k) w w' ∧ S.Soft .base k w w') := by
  unfold restoreDirAct
  have hsame : ∀ {a b : World}, S.G a.fs → SameFS a b → S.Chg .base (· <+: k) a b ∧ S.Soft .base k a b :=
    fun ha h => ⟨Sim.Chg.of_same ha h, (Sim.Chg.of_same (K := (· = k)) ha h).soft⟩
  apply Sat.seq (P := fun w1 => S.Chg .base (· <+: k) w w1 ∧ S.Soft .base k w w1)
    ((sat_lexists_same S).mono (fun _ _ h => hsame hg h)) (fun _ h => h)
  intro cur w1 h1
  apply Sat.seq (P := fun w1 => S.Chg .base (· <+: k) w w1 ∧ S.Soft .base k w w1) _ (fun _ h => h)
  · intro _ w2 h2
    cases infoFor infos (kp k) with
    | none => exact Sat.pure h2
    | some i =>
      exact (sat_copyDir_frame (i := i) h2.1.good hk).mono (fun _ _ h => ⟨h2.1.trans h.1, h2.2.trans h.2⟩)
  · apply Sat.whenM_any _ h1
    exact (sat_primUnit_chg (K := (· = k)) h1.1.good (fun m' r h => by
      obtain ⟨g, o, f⟩ := S.remove_frame h1.1.good hk hne h
      exact ⟨g, o, fun j hj => f j hj⟩)).mono (fun _ _ h => ⟨h1.1.step h eq_imp_prefix, h1.2.trans h.soft⟩)

/-- the keys `restoreFile` for key `k` may change in the base when the backup view is `vb`: `k`
itself (`Remove` of whatever took the file's place, `OpenFile`, writes, `Chown`, `Chmod`, `Chtimes`),
and the keys below `k` ONLY when the backup copy at `k` is not a regular file (then, and only then,
the code calls `RemoveAll`) -/
def FileReach (vb : View) (k j : Key) : Prop := j = k ∨ (¬ vb.isFileAt k ∧ k <+: j)

/-- the tail of `restoreFile`: the deferred `Close`, then the result of the body -/
theorem sat_restoreFile_tail {K : Key → Prop} {w0 w2 : World} {f : WHandle} {r : Except Err Unit}
    (h2 : S.Chg .base K w0 w2) :
    Sat (do
      let _ ← BFS.attempt (hClose f)
      match r with
      | .ok () => pure ()
      | .error e => M.throw e : M Unit) w2 (fun w' _ => S.Chg .base K w0 w') := by
  apply Sat.seq (P := S.Chg .base K w0)
    (Sat.attempt_any ((sat_hClose (wh := f) (w := w2)).mono (fun _ _ h => h2.same_right h.1))) (fun _ h => h)
  intro _ w3 h3
  cases r with
  | ok u => exact Sat.pure h3
  | error e => exact Sat.throw h3

/-- the backup copy is a regular file: `restoreFile` makes room with `Remove`, never `RemoveAll`,
and touches the key itself only — any fault plan, whatever it returns -/
theorem sat_restoreFile_chg_file {k : Key} {bi : Info} {w : World} (hg : S.G w.fs) (hk : PKey k) (hne : k ≠ [])
    (hbf : (S.view .backup w.fs).isFileAt k) :
    Sat (restoreFile cfg (kp k) bi) w (fun w' _ => S.Chg .base (· = k) w w') := by
  obtain ⟨c, mt, hv⟩ := hbf
  unfold restoreFile
  apply Sat.bind
  apply (sat_open_ro (S := S) (s := .backup) hg hk).mono
  intro w1 r1 ⟨hs1, hwh, _⟩
  have h1 : S.Chg .base (· = k) w w1 := Sim.Chg.of_same hg hs1
  cases r1 with
  | error e => exact h1
  | ok f =>
    obtain ⟨hside, hH, _⟩ := hwh f rfl
    simp only
    apply Sat.seq (P := S.Chg .base (· = k) w) (Sat.attempt_any _) (fun _ h => h)
    · intro r w2 h2
      exact sat_restoreFile_tail h2
    · apply Sat.bind
      apply (sat_hStat (S := S) (wh := f) (k := k) (n := .file c mt) (hs1.fs ▸ hg) (by rw [hside]; exact hH)
        (by rw [hside, hs1.fs]; exact hv)).mono
      intro w2 r2 ⟨hs2, _, hfi⟩
      have h2 : S.Chg .base (· = k) w w2 := h1.same_right hs2
      cases r2 with
      | error e => exact h2
      | ok fi =>
        have hfireg : fi.isRegular = true := by
          have := (hfi fi rfl).1
          simp [Info.isRegular, this, Node.kind]
        simp only
        apply Sat.seq (P := S.Chg .base (· = k) w)
          ((sat_lexists_same S).mono (fun _ _ h => h2.same_right h)) (fun _ h => h)
        intro baseFi w3 h3
        simp only [hfireg, Bool.not_true, Bool.false_eq_true, if_false]
        apply Sat.seq (P := S.Chg .base (· = k) w) _ (fun _ h => h)
        · intro _ w4 h4
          exact (sat_copyFile_chg h4.good hk).mono (fun _ _ h => h4.trans h)
        · apply Sat.whenM_any _ h3
          exact sat_primUnit_step h3 (fun _ h => h) (fun m' r h => by
            obtain ⟨g, o, f'⟩ := S.remove_frame h3.good hk hne h
            exact ⟨g, o, fun j hj => f' j hj⟩)

/-- whatever the backup holds at `k`: `restoreFile` touches at most the keys at or below `k` -/
theorem sat_restoreFile_chg_below {k : Key} {bi : Info} {w : World} (hg : S.G w.fs) (hk : PKey k) (hne : k ≠ []) :
    Sat (restoreFile cfg (kp k) bi) w (fun w' _ => S.Chg .base (k <+: ·) w w') := by
  unfold restoreFile
  apply Sat.seq (P := S.Chg .base (k <+: ·) w)
    ((sat_primOpen_same (fun m' r h => S.pure_open h)).mono (fun _ _ h => Sim.Chg.of_same hg h)) (fun _ h => h)
  intro f w1 h1
  apply Sat.seq (P := S.Chg .base (k <+: ·) w) (Sat.attempt_any _) (fun _ h => h)
  · intro r w2 h2
    exact sat_restoreFile_tail h2
  · apply Sat.seq (P := S.Chg .base (k <+: ·) w)
      ((sat_hStat_same (wh := f)).mono (fun _ _ h => h1.same_right h)) (fun _ h => h)
    intro fi w2 h2
    apply Sat.seq (P := S.Chg .base (k <+: ·) w)
      ((sat_lexists_same S).mono (fun _ _ h => h2.same_right h)) (fun _ h => h)
    intro baseFi w3 h3
    have hcopy : ∀ w4, S.Chg .base (k <+: ·) w w4 →
        Sat (copyFile cfg .base (kp k) bi f) w4 (fun w' _ => S.Chg .base (k <+: ·) w w') :=
      fun w4 h4 => (sat_copyFile_chg h4.good hk).mono (fun _ _ h => h4.step h eq_imp_below)
    apply Sat.ite
    · intro _
      apply Sat.seq (P := S.Chg .base (k <+: ·) w) _ (fun _ h => h) (fun _ w4 h4 => hcopy w4 h4)
      exact sat_primUnit_step h3 (fun _ h => h) (fun m' r h => by
        obtain ⟨g, o, f'⟩ := S.removeAll_frame h3.good hk hne h
        exact ⟨g, o, fun j hj => f' j hj⟩)
    · intro _
      apply Sat.seq (P := S.Chg .base (k <+: ·) w) _ (fun _ h => h) (fun _ w4 h4 => hcopy w4 h4)
      apply Sat.whenM_any _ h3
      exact sat_primUnit_step h3 eq_imp_below (fun m' r h => by
        obtain ⟨g, o, f'⟩ := S.remove_frame h3.good hk hne h
        exact ⟨g, o, fun j hj => f' j hj⟩)

/-- restoring a file touches its key, and the keys below it only when the backup copy found there
is not a regular file (`FileReach`) -/
theorem sat_restoreFile_chg {k : Key} {bi : Info} {w : World} (hg : S.G w.fs) (hk : PKey k) (hne : k ≠ []) :
    Sat (restoreFile cfg (kp k) bi) w (fun w' _ => S.Chg .base (FileReach (S.view .backup w.fs) k) w w') := by
  by_cases hbf : (S.view .backup w.fs).isFileAt k
  · exact (sat_restoreFile_chg_file hg hk hne hbf).mono (fun _ _ h => h.mono (fun j e => Or.inl e))
  · exact (sat_restoreFile_chg_below hg hk hne).mono (fun _ _ h => h.mono (fun j hj => Or.inr ⟨hbf, hj⟩))

theorem sat_restoreFileAct_chg {infos : List (Path × Option Info)} {k : Key} {w : World}
    (hg : S.G w.fs) (hk : PKey k) (hne : k ≠ []) :
    Sat (restoreFileAct cfg infos (kp k)) w
      (fun w' _ => S.Chg .base (FileReach (S.view .backup w.fs) k) w w') := by
  unfold restoreFileAct
  cases infoFor infos (kp k) with
  | none => exact Sat.pure (Sim.Chg.refl hg)
  | some i => exact sat_restoreFile_chg hg hk hne

/-- the clean-up of one tracked key: `Lstat`, then `Remove` (never `RemoveAll`) of that key -/
theorem sat_cleanupAct_chg {k : Key} {w : World} (hg : S.G w.fs) (hk : PKey k) (hne : k ≠ []) :
    Sat (cleanupAct cfg (kp k)) w (fun w' _ => S.Chg .backup (· = k) w w') := by
  unfold cleanupAct
  apply Sat.seq (P := S.Chg .backup (· = k) w)
    ((sat_lexists_same S).mono (fun _ _ h => Sim.Chg.of_same hg h)) (fun _ h => h)
  intro o w1 h1
  cases o with
  | none => exact Sat.pure h1
  | some i =>
    exact sat_primUnit_step h1 (fun _ h => h) (fun m' r h => by
      obtain ⟨g, o, f⟩ := S.remove_frame h1.good hk hne h
      exact ⟨g, o, fun j hj => f j hj⟩)

/-! ### the footprint relation -/

/-- from `w` to `w'` the base view changed at most at the keys in `F` (regular files: at most at
the keys in `Ff`) and the backup view at most at the keys in `K`.  Reflexive and transitive;
nothing is assumed or kept about the tracked map, the fault plan, the trace. -/
structure Sim.Foot (S : Sim cfg) (F Ff K : Key → Prop) (w w' : World) : Prop where
  good : S.G w'.fs
  base : ∀ j, ¬ F j → S.view .base w'.fs j = S.view .base w.fs j
  files : ∀ j, ¬ Ff j → (S.view .base w.fs).isFileAt j → S.view .base w'.fs j = S.view .base w.fs j
  backup : ∀ j, ¬ K j → S.view .backup w'.fs j = S.view .backup w.fs j

section
variable {F Ff K : Key → Prop}

theorem Sim.Foot.of_same {w w' : World} (hg : S.G w.fs) (h : SameFS w w') : S.Foot F Ff K w w' :=
  ⟨h.fs ▸ hg, fun _ _ => by rw [h.fs], fun _ _ _ => by rw [h.fs], fun _ _ => by rw [h.fs]⟩

theorem Sim.Foot.refl {w : World} (hg : S.G w.fs) : S.Foot F Ff K w w := Sim.Foot.of_same hg (SameFS.refl w)

theorem Sim.Foot.trans {a b c : World} (h1 : S.Foot F Ff K a b) (h2 : S.Foot F Ff K b c) : S.Foot F Ff K a c := by
  refine ⟨h2.good, fun j hj => (h2.base j hj).trans (h1.base j hj), ?_,
    fun j hj => (h2.backup j hj).trans (h1.backup j hj)⟩
  intro j hj hf
  have e1 := h1.files j hj hf
  have hf' : (S.view .base b.fs).isFileAt j := by
    obtain ⟨c', mt, h⟩ := hf
    exact ⟨c', mt, by rw [e1, h]⟩
  rw [h2.files j hj hf', e1]

theorem Sim.Foot.mono {F' Ff' K' : Key → Prop} {w w' : World} (h : S.Foot F Ff K w w')
    (hF : ∀ j, F j → F' j) (hFf : ∀ j, Ff j → Ff' j) (hK : ∀ j, K j → K' j) : S.Foot F' Ff' K' w w' :=
  ⟨h.good, fun j hj => h.base j (fun hx => hj (hF j hx)), fun j hj hf => h.files j (fun hx => hj (hFf j hx)) hf,
    fun j hj => h.backup j (fun hx => hj (hK j hx))⟩

/-- a base-side step bounded by `X`, with `X` inside both footprints -/
theorem Sim.Foot.of_base {X : Key → Prop} {w w' : World} (h : S.Chg .base X w w')
    (hF : ∀ j, X j → F j) (hFf : ∀ j, X j → Ff j) : S.Foot F Ff K w w' :=
  ⟨h.good, fun j hj => h.frame j (fun hx => hj (hF j hx)), fun j hj _ => h.frame j (fun hx => hj (hFf j hx)),
    fun j _ => congrFun h.other j⟩

/-- a base-side step that touches at most the prefixes of `d` and no regular file but `d` -/
theorem Sim.Foot.of_dir {d : Key} {w w' : World} (h : S.Chg .base (· <+: d) w w' ∧ S.Soft .base d w w')
    (hF : ∀ j, j <+: d → F j) (hFf : Ff d) : S.Foot F Ff K w w' :=
  ⟨h.1.good, fun j hj => h.1.frame j (fun hx => hj (hF j hx)),
    fun j hj hf => h.2.files j (fun e => hj (e ▸ hFf)) hf, fun j _ => congrFun h.1.other j⟩

/-- a backup-side step bounded by `X ⊆ K` -/
theorem Sim.Foot.of_backup {X : Key → Prop} {w w' : World} (h : S.Chg .backup X w w')
    (hK : ∀ j, X j → K j) : S.Foot F Ff K w w' :=
  ⟨h.good, fun j _ => congrFun h.other j, fun j _ _ => congrFun h.other j,
    fun j hj => h.frame j (fun hx => hj (hK j hx))⟩

theorem sat_removeBackupPaths_foot {w0 w : World} {ps : List Path} (h : S.Foot F Ff K w0 w)
    (hps : ∀ p ∈ ps, ∃ k, PKey k ∧ k ≠ [] ∧ p = kp k ∧ K k) :
    Sat (removeBackupPaths cfg ps) w (fun w' _ => S.Foot F Ff K w0 w') := by
  unfold removeBackupPaths
  apply sat_forEach_any (P := S.Foot F Ff K w0) _ w h
  intro x hx w' h'
  obtain ⟨k, hk, hne, rfl, hK⟩ := hps x ((sortBy_perm _ ps).mem_iff.mp hx)
  exact (sat_cleanupAct_chg h'.good hk hne).mono
    (fun _ _ hc => h'.trans (Sim.Foot.of_backup hc (fun j e => e ▸ hK)))

end

/-! ### the first loop: read-only, and the plan it produces lists tracked entries only -/

structure PlanOK (infos : List (Path × Option Info)) (pl : RollbackPlan) : Prop where
  rem : ∀ p ∈ pl.removeBase, (p, none) ∈ infos
  dirs : ∀ p ∈ pl.dirs, p ≠ rootP ∧ ∃ i, (p, some i) ∈ infos ∧ i.kind = .dir
  files : ∀ p ∈ pl.files, p ≠ rootP ∧ ∃ i, (p, some i) ∈ infos ∧ i.kind = .file
  links : ∀ p ∈ pl.links, p ≠ rootP ∧ ∃ i, (p, some i) ∈ infos ∧ i.kind = .link

theorem PlanOK.empty (infos : List (Path × Option Info)) : PlanOK infos {} :=
  ⟨fun _ h => (by cases h), fun _ h => (by cases h), fun _ h => (by cases h), fun _ h => (by cases h)⟩

theorem mem_snoc_cases {α} {l : List α} {a x : α} {P : α → Prop} (hl : ∀ y ∈ l, P y) (ha : P a)
    (hx : x ∈ l ++ [a]) : P x := by
  rcases List.mem_append.mp hx with h | h
  · exact hl x h
  · simp only [List.mem_singleton] at h; subst h; exact ha

theorem sat_classify_any (S : Sim cfg) {infos : List (Path × Option Info)} :
    ∀ (l : List (Path × Option Info)) (pl : RollbackPlan) (w0 w : World), (∀ e ∈ l, e ∈ infos) →
      SameFS w0 w → S.G w0.fs → PlanOK infos pl →
      Sat (classify cfg l pl) w (fun w' r => SameFS w0 w' ∧ ∀ pl', r = .ok pl' → PlanOK infos pl')
  | [], pl, w0, w, _, hs, _, hpl => by
    unfold classify
    apply Sat.pure
    exact ⟨hs, fun pl' h => by cases h; exact hpl⟩
  | (p, none) :: rest, pl, w0, w, hl, hs, hg, hpl => by
    unfold classify
    have hmem : (p, none) ∈ infos := hl _ (by simp)
    have hl' : ∀ e ∈ rest, e ∈ infos := fun e he => hl e (List.mem_cons_of_mem _ he)
    apply Sat.bind
    apply Sat.attempt
    apply (sat_lexists_same S (s := .base) (p := p) (w := w)).mono
    intro w1 r h1
    have hs1 := hs.trans h1
    simp only
    cases r with
    | error e => exact sat_classify_any S rest _ w0 w1 hl' hs1 hg ⟨hpl.rem, hpl.dirs, hpl.files, hpl.links⟩
    | ok o =>
      cases o with
      | none => exact sat_classify_any S rest _ w0 w1 hl' hs1 hg hpl
      | some i =>
        exact sat_classify_any S rest _ w0 w1 hl' hs1 hg
          ⟨fun x hx => mem_snoc_cases (P := fun y => (y, none) ∈ infos) hpl.rem hmem hx, hpl.dirs, hpl.files, hpl.links⟩
  | (p, some i) :: rest, pl, w0, w, hl, hs, hg, hpl => by
    unfold classify
    have hmem : (p, some i) ∈ infos := hl _ (by simp)
    have hl' : ∀ e ∈ rest, e ∈ infos := fun e he => hl e (List.mem_cons_of_mem _ he)
    split
    · rename_i hp; subst hp
      have hgw : S.G w.fs := by rw [hs.fs]; exact hg
      apply Sat.bind
      apply (sat_ensureRoot (S := S) hgw i).mono
      intro w1 r1 ⟨h1, f, hr1, _⟩
      subst hr1
      simp only
      cases f
      · exact sat_classify_any S rest _ w0 w1 hl' (hs.trans h1) hg hpl
      · exact sat_classify_any S rest _ w0 w1 hl' (hs.trans h1) hg ⟨hpl.rem, hpl.dirs, hpl.files, hpl.links⟩
    · rename_i hp
      cases hkind : i.kind with
      | dir =>
        exact sat_classify_any S rest _ w0 w hl' hs hg
          ⟨hpl.rem, fun x hx => mem_snoc_cases (P := fun y => y ≠ rootP ∧ ∃ i, (y, some i) ∈ infos ∧ i.kind = .dir)
            hpl.dirs ⟨hp, i, hmem, hkind⟩ hx, hpl.files, hpl.links⟩
      | file =>
        exact sat_classify_any S rest _ w0 w hl' hs hg
          ⟨hpl.rem, hpl.dirs, fun x hx => mem_snoc_cases (P := fun y => y ≠ rootP ∧ ∃ i, (y, some i) ∈ infos ∧ i.kind = .file)
            hpl.files ⟨hp, i, hmem, hkind⟩ hx, hpl.links⟩
      | link =>
        exact sat_classify_any S rest _ w0 w hl' hs hg
          ⟨hpl.rem, hpl.dirs, hpl.files, fun x hx => mem_snoc_cases (P := fun y => y ≠ rootP ∧ ∃ i, (y, some i) ∈ infos ∧ i.kind = .link)
            hpl.links ⟨hp, i, hmem, hkind⟩ hx⟩

/-! ### the footprint of a tracked map -/

/-- `(kp k, oi)` is an entry of the tracked map, `k` a key other than the root -/
def TrackedKey (infos : List (Path × Option Info)) (k : Key) (oi : Option Info) : Prop :=
  PKey k ∧ k ≠ [] ∧ (kp k, oi) ∈ infos

/-- what one tracked entry `(kp k, oi)` lets Rollback change in the base, the backup view being `vb`
when Rollback starts: `k` itself; the prefixes of `k` if it is tracked as a directory; and the keys
below `k` in ONE situation only — `k` is tracked as a regular file and the backup does not hold a
regular file at `k` (the backup copy was tampered with: `restoreFile` then finds a backup entry that
is not a regular file and calls `RemoveAll`).  When the backup copy is a regular file — always, under
the transaction invariant — whatever took the file's place is taken away with `Remove`, and nothing
below `k` is touched. -/
def Touches (vb : View) (k : Key) (oi : Option Info) (j : Key) : Prop :=
  j = k ∨ (∃ i, oi = some i ∧ i.kind = .file ∧ ¬ vb.isFileAt k ∧ k <+: j) ∨
    (∃ i, oi = some i ∧ i.kind = .dir ∧ j <+: k)

/-- as `Touches`, for regular files: `k` itself, and the keys below a `k` tracked as a regular file
whose backup copy is not a regular file -/
def TouchesFile (vb : View) (k : Key) (oi : Option Info) (j : Key) : Prop :=
  j = k ∨ (∃ i, oi = some i ∧ i.kind = .file ∧ ¬ vb.isFileAt k ∧ k <+: j)

/-- base keys Rollback may change: a tracked key itself (`Remove`, `Chmod`, `Chown`, `Chtimes`,
`OpenFile`, writes); the ancestors of a key tracked as a directory (`MkdirAll` may have to recreate
them); the keys below a key tracked as a regular file whose backup copy is not a regular file (the
one `RemoveAll` left in `restoreFile`) -/
def BaseFoot (vb : View) (infos : List (Path × Option Info)) (j : Key) : Prop :=
  ∃ k oi, TrackedKey infos k oi ∧ Touches vb k oi j

/-- base keys at which Rollback may change a *regular file*: as `BaseFoot`, without the ancestors
of tracked directories (`MkdirAll` never alters a regular file) -/
def FileFoot (vb : View) (infos : List (Path × Option Info)) (j : Key) : Prop :=
  ∃ k oi, TrackedKey infos k oi ∧ TouchesFile vb k oi j

/-- the footprint when every backup copy of a tracked regular file is a regular file: tracked keys
and the ancestors of keys tracked as directories -/
def NamedFoot (infos : List (Path × Option Info)) (j : Key) : Prop :=
  ∃ k oi, TrackedKey infos k oi ∧ (j = k ∨ ∃ i, oi = some i ∧ i.kind = .dir ∧ j <+: k)

/-- every key tracked as a regular file has a regular file as its backup copy -/
def CopiesIntact (vb : View) (infos : List (Path × Option Info)) : Prop :=
  ∀ k i, TrackedKey infos k (some i) → i.kind = .file → vb.isFileAt k

theorem BaseFoot.named {vb : View} {infos : List (Path × Option Info)} (hc : CopiesIntact vb infos) {j : Key}
    (h : BaseFoot vb infos j) : NamedFoot infos j := by
  obtain ⟨k, oi, ht, h | ⟨i, rfl, hkind, hnf, _⟩ | h⟩ := h
  · exact ⟨k, oi, ht, Or.inl h⟩
  · exact absurd (hc k i ht hkind) hnf
  · exact ⟨k, oi, ht, Or.inr h⟩

theorem FileFoot.tracked {vb : View} {infos : List (Path × Option Info)} (hc : CopiesIntact vb infos) {j : Key}
    (h : FileFoot vb infos j) : ∃ oi, TrackedKey infos j oi := by
  obtain ⟨k, oi, ht, rfl | ⟨i, rfl, hkind, hnf, _⟩⟩ := h
  · exact ⟨oi, ht⟩
  · exact absurd (hc k i ht hkind) hnf

/-- backup keys Rollback may change: the keys tracked with an original (`Remove` of that key) -/
def BackupFoot (infos : List (Path × Option Info)) (j : Key) : Prop := ∃ i, TrackedKey infos j (some i)

theorem FileFoot.base {vb : View} {infos : List (Path × Option Info)} {j : Key} (h : FileFoot vb infos j) :
    BaseFoot vb infos j := by
  obtain ⟨k, oi, ht, h | h⟩ := h
  · exact ⟨k, oi, ht, Or.inl h⟩
  · exact ⟨k, oi, ht, Or.inr (Or.inl h)⟩

/-- a `restoreFileAct` step for a key tracked as a regular file, inside the footprint computed from
the backup view `vb` the step finds -/
theorem FileReach.touches {vb : View} {k j : Key} {i : Info} (hkind : i.kind = .file) (h : FileReach vb k j) :
    TouchesFile vb k (some i) j := by
  rcases h with e | ⟨hnf, hpre⟩
  · exact Or.inl e
  · exact Or.inr ⟨i, rfl, hkind, hnf, hpre⟩

theorem TouchesFile.touches {vb : View} {k j : Key} {oi : Option Info} (h : TouchesFile vb k oi j) :
    Touches vb k oi j := by
  rcases h with e | h
  · exact Or.inl e
  · exact Or.inr (Or.inl h)

/-- **Rollback stays within the footprint of the tracked map** — any world whose disk is
well-formed (no transaction invariant: both trees may have been modified arbitrarily by other
actors), any fault plan, whatever Rollback returns. -/
theorem sat_rollback_foot {w : World} (hg : S.G w.fs)
    (hkeys : ∀ p oi, (p, oi) ∈ w.infos → ∃ k, PKey k ∧ p = kp k)
    (hroot : (kp [], none) ∉ w.infos)
    (hnolink : ∀ p i, (p, some i) ∈ w.infos → i.kind ≠ .link) :
    Sat (rollback cfg) w (fun w' _ =>
      S.Foot (BaseFoot (S.view .backup w.fs) w.infos) (FileFoot (S.view .backup w.fs) w.infos)
        (BackupFoot w.infos) w w') := by
  -- every planned path is the path of a tracked non-root key
  have hsome : ∀ {p : Path} {i : Info}, p ≠ rootP → (p, some i) ∈ w.infos → ∃ k, p = kp k ∧ TrackedKey w.infos k (some i) := by
    intro p i hp hm
    obtain ⟨k, hk, rfl⟩ := hkeys p _ hm
    exact ⟨k, rfl, hk, fun e => hp (by rw [e]; rfl), hm⟩
  have hnone : ∀ {p : Path}, (p, none) ∈ w.infos → ∃ k, p = kp k ∧ TrackedKey w.infos k none := by
    intro p hm
    obtain ⟨k, hk, rfl⟩ := hkeys p _ hm
    exact ⟨k, rfl, hk, fun e => hroot (e ▸ hm), hm⟩
  -- the restore loops never touch the backup; the clean-up loops never touch the base
  let PR : World → Prop := S.Foot (BaseFoot (S.view .backup w.fs) w.infos) (FileFoot (S.view .backup w.fs) w.infos)
    (fun _ => False) w
  let PC : World → Prop := S.Foot (BaseFoot (S.view .backup w.fs) w.infos) (FileFoot (S.view .backup w.fs) w.infos)
    (BackupFoot w.infos) w
  have hPC : ∀ w1, PR w1 → PC w1 := fun w1 h => h.mono (fun _ h => h) (fun _ h => h) (fun _ h => h.elim)
  unfold rollback
  apply Sat.bind
  apply Sat.getW
  simp only
  apply Sat.bind
  apply (sat_classify_any S (infos := w.infos) w.infos {} w w (fun _ h => h) (SameFS.refl w) hg (PlanOK.empty _)).mono
  intro w1 r ⟨hs1, hplan⟩
  have h1 : PR w1 := Sim.Foot.of_same hg hs1
  cases r with
  | error e => exact hPC w1 h1
  | ok pl =>
    have hpl := hplan pl rfl
    simp only
    -- created entries are removed
    apply Sat.seq (P := PR) _ hPC
    rotate_left
    · apply sat_forEach_any (P := PR) _ w1 h1
      intro x hx w' h'
      obtain ⟨k, rfl, ht⟩ := hnone (hpl.rem x ((sortBy_perm _ _).mem_iff.mp hx))
      exact (sat_removeBaseAct_chg h'.good ht.1 ht.2.1).mono (fun _ _ hc => h'.trans
        (Sim.Foot.of_base hc (fun j e => ⟨k, none, ht, Or.inl e⟩) (fun j e => ⟨k, none, ht, Or.inl e⟩)))
    intro e1 w2 h2
    -- directories are restored
    apply Sat.seq (P := PR) _ hPC
    rotate_left
    · apply sat_forEach_any (P := PR) _ w2 h2
      intro x hx w' h'
      obtain ⟨hp, i, hm, hkind⟩ := hpl.dirs x ((sortBy_perm _ _).mem_iff.mp hx)
      obtain ⟨k, rfl, ht⟩ := hsome hp hm
      exact (sat_restoreDirAct_frame h'.good ht.1 ht.2.1).mono (fun _ _ hc => h'.trans
        (Sim.Foot.of_dir hc (fun j hj => ⟨k, some i, ht, Or.inr (Or.inr ⟨i, rfl, hkind, hj⟩)⟩)
          ⟨k, some i, ht, Or.inl rfl⟩))
    intro e2 w3 h3
    -- files are restored: the backup view is still the one Rollback started with
    apply Sat.seq (P := PR) _ hPC
    rotate_left
    · apply sat_forEach_any (P := PR) _ w3 h3
      intro x hx w' h'
      obtain ⟨hp, i, hm, hkind⟩ := hpl.files x ((sortBy_perm _ _).mem_iff.mp hx)
      obtain ⟨k, rfl, ht⟩ := hsome hp hm
      have hbk : S.view .backup w'.fs = S.view .backup w.fs := funext (fun j => h'.backup j (fun h => h))
      exact (sat_restoreFileAct_chg h'.good ht.1 ht.2.1).mono (fun _ _ hc => h'.trans
        (Sim.Foot.of_base hc (fun j hj => ⟨k, some i, ht, (FileReach.touches hkind (hbk ▸ hj)).touches⟩)
          (fun j hj => ⟨k, some i, ht, FileReach.touches hkind (hbk ▸ hj)⟩)))
    intro e3 w4 h4
    -- no symlink is tracked
    have hnl : ∀ x, x ∈ pl.links → False := by
      intro x hx
      obtain ⟨_, i, hm, hkind⟩ := hpl.links x hx
      exact hnolink x i hm hkind
    apply Sat.seq (P := PR) _ hPC
    rotate_left
    · apply sat_forEach_any (P := PR) _ w4 h4
      intro x hx w' h'
      exact absurd ((sortBy_perm _ _).mem_iff.mp hx) (hnl x)
    intro e4 w5 h5
    have h5 : PC w5 := hPC w5 h5
    -- the clean-up of the backup
    apply Sat.seq (P := PC) _ (fun _ h => h)
    rotate_left
    · exact sat_removeBackupPaths_foot h5 (fun x hx => absurd hx (hnl x))
    intro e5 w6 h6
    apply Sat.seq (P := PC) _ (fun _ h => h)
    rotate_left
    · apply sat_removeBackupPaths_foot h6
      intro x hx
      obtain ⟨hp, i, hm, _⟩ := hpl.files x hx
      obtain ⟨k, rfl, ht⟩ := hsome hp hm
      exact ⟨k, ht.1, ht.2.1, rfl, i, ht⟩
    intro e6 w7 h7
    apply Sat.seq (P := PC) _ (fun _ h => h)
    rotate_left
    · apply sat_removeBackupPaths_foot h7
      intro x hx
      obtain ⟨hp, i, hm, _⟩ := hpl.dirs x hx
      obtain ⟨k, rfl, ht⟩ := hsome hp hm
      exact ⟨k, ht.1, ht.2.1, rfl, i, ht⟩
    intro e7 w8 h8
    apply Sat.bind
    apply Sat.modifyW
    apply Sat.pure
    exact ⟨h8.good, h8.base, h8.files, h8.backup⟩

/-! ### the theorem, in plain terms -/

/-- `j` is unrelated to the tracked key `k`: not at or below it and not one of its prefixes -/
def Unrelated (j k : Key) : Prop := ¬ k <+: j ∧ ¬ j <+: k

theorem Touches.related {vb : View} {k j : Key} {oi : Option Info} (h : Touches vb k oi j) : k <+: j ∨ j <+: k := by
  rcases h with rfl | ⟨_, _, _, _, h⟩ | ⟨_, _, _, h⟩
  · exact Or.inl (List.prefix_refl _)
  · exact Or.inl h
  · exact Or.inr h

/-- **C13, state level.**  For every world with a well-formed disk — whatever other actors did to
the two trees, whatever the fault plan — `Rollback` leaves
* the base view unchanged at every key outside `BaseFoot`,
* every regular file of the base unchanged outside `FileFoot`,
* the backup view unchanged at every key that is not tracked with an original (`BackupFoot`). -/
theorem rollback_frame (S : Sim cfg) {w : World} (hg : S.G w.fs)
    (hkeys : ∀ p oi, (p, oi) ∈ w.infos → ∃ k, PKey k ∧ p = kp k)
    (hroot : (kp [], none) ∉ w.infos)
    (hnolink : ∀ p i, (p, some i) ∈ w.infos → i.kind ≠ .link) :
    S.G (rollback cfg w).1.fs ∧
    (∀ j, ¬ BaseFoot (S.view .backup w.fs) w.infos j → S.view .base (rollback cfg w).1.fs j = S.view .base w.fs j) ∧
    (∀ j, ¬ FileFoot (S.view .backup w.fs) w.infos j → (S.view .base w.fs).isFileAt j →
      S.view .base (rollback cfg w).1.fs j = S.view .base w.fs j) ∧
    (∀ j, ¬ BackupFoot w.infos j → S.view .backup (rollback cfg w).1.fs j = S.view .backup w.fs j) := by
  have h := sat_rollback_foot (S := S) hg hkeys hroot hnolink
  exact ⟨h.good, h.base, h.files, h.backup⟩

/-- the same with the footprints spelled out entry by entry -/
theorem rollback_frame_entries (S : Sim cfg) {w : World} (hg : S.G w.fs)
    (hkeys : ∀ p oi, (p, oi) ∈ w.infos → ∃ k, PKey k ∧ p = kp k)
    (hroot : (kp [], none) ∉ w.infos)
    (hnolink : ∀ p i, (p, some i) ∈ w.infos → i.kind ≠ .link) :
    S.G (rollback cfg w).1.fs ∧
    (∀ j, (∀ k oi, (kp k, oi) ∈ w.infos → PKey k → k ≠ [] → ¬ Touches (S.view .backup w.fs) k oi j) →
      S.view .base (rollback cfg w).1.fs j = S.view .base w.fs j) ∧
    (∀ j, (∀ k oi, (kp k, oi) ∈ w.infos → PKey k → k ≠ [] → ¬ TouchesFile (S.view .backup w.fs) k oi j) →
      (S.view .base w.fs).isFileAt j → S.view .base (rollback cfg w).1.fs j = S.view .base w.fs j) ∧
    (∀ j, (j = [] ∨ ∀ i, (kp j, some i) ∉ w.infos) →
      S.view .backup (rollback cfg w).1.fs j = S.view .backup w.fs j) := by
  obtain ⟨g, hb, hf, hk⟩ := rollback_frame S hg hkeys hroot hnolink
  refine ⟨g, fun j hj => hb j ?_, fun j hj => hf j ?_, fun j hj => hk j ?_⟩
  · rintro ⟨k, oi, ⟨hk, hne, hm⟩, ht⟩
    exact hj k oi hm hk hne ht
  · rintro ⟨k, oi, ⟨hk, hne, hm⟩, ht⟩
    exact hj k oi hm hk hne ht
  · rintro ⟨i, _, hne, hm⟩
    rcases hj with rfl | hj
    · exact hne rfl
    · exact hj i hm

/-- **C13, state level, backup copies intact.**  When every key tracked as a regular file still has
a regular file as its backup copy (nobody tampered with the backup: this is part of the transaction
invariant), the base changes at `j` only if `j` is tracked or is an ancestor of a key tracked as a
directory, and a regular file of the base changes only if its own key is tracked.  In particular
nothing below the path of a removed-and-replaced original file is touched. -/
theorem rollback_frame_named (S : Sim cfg) {w : World} (hg : S.G w.fs)
    (hkeys : ∀ p oi, (p, oi) ∈ w.infos → ∃ k, PKey k ∧ p = kp k)
    (hroot : (kp [], none) ∉ w.infos)
    (hnolink : ∀ p i, (p, some i) ∈ w.infos → i.kind ≠ .link)
    (hcopies : CopiesIntact (S.view .backup w.fs) w.infos) :
    (∀ j, ¬ NamedFoot w.infos j → S.view .base (rollback cfg w).1.fs j = S.view .base w.fs j) ∧
    (∀ j, (∀ oi, ¬ TrackedKey w.infos j oi) → (S.view .base w.fs).isFileAt j →
      S.view .base (rollback cfg w).1.fs j = S.view .base w.fs j) := by
  obtain ⟨_, hb, hf, _⟩ := rollback_frame S hg hkeys hroot hnolink
  exact ⟨fun j hj => hb j (fun h => hj (h.named hcopies)),
    fun j hj hfile => hf j (fun h => by obtain ⟨oi, ht⟩ := h.tracked hcopies; exact hj oi ht) hfile⟩

/-- the coarse form: in the base, a key unrelated to every tracked key other than the root is
untouched; in the backup, a key that is not itself tracked is untouched.  (Without the exception
of the root the first premise could never hold: the root is a prefix of every key, and every
operation tracks it.) -/
theorem rollback_frame_unrelated (S : Sim cfg) {w : World} (hg : S.G w.fs)
    (hkeys : ∀ p oi, (p, oi) ∈ w.infos → ∃ k, PKey k ∧ p = kp k)
    (hroot : (kp [], none) ∉ w.infos)
    (hnolink : ∀ p i, (p, some i) ∈ w.infos → i.kind ≠ .link) :
    S.G (rollback cfg w).1.fs ∧
    (∀ j, (∀ p oi k, (p, oi) ∈ w.infos → p = kp k → PKey k → k ≠ [] → Unrelated j k) →
      S.view .base (rollback cfg w).1.fs j = S.view .base w.fs j) ∧
    (∀ j, (∀ p oi k, (p, oi) ∈ w.infos → p = kp k → PKey k → j ≠ k) →
      S.view .backup (rollback cfg w).1.fs j = S.view .backup w.fs j) := by
  obtain ⟨g, hb, _, hk⟩ := rollback_frame_entries S hg hkeys hroot hnolink
  refine ⟨g, fun j hj => hb j ?_, fun j hj => ?_⟩
  · intro k oi hm hk hne ht
    obtain ⟨h1, h2⟩ := hj _ oi k hm rfl hk hne
    rcases ht.related with h | h
    · exact h1 h
    · exact h2 h
  · by_cases hpk : PKey j
    · exact hk j (Or.inr (fun i hm => hj _ _ j hm rfl hpk rfl))
    · -- not a key of real entries: absent before and after
      have none_of : ∀ {m : MFS}, S.G m → S.view .backup m j = none := by
        intro m hm
        cases h : S.view .backup m j with
        | none => rfl
        | some n => exact absurd (S.pkey hm (by rw [h]; exact Option.some_ne_none n)) hpk
      rw [none_of g, none_of hg]

/-- with unique keys (the Go map) the hypothesis on the root can be read off `lookup` -/
theorem root_not_tracked_absent {infos : List (Path × Option Info)} (hnd : (infos.map Prod.fst).Nodup)
    (h : infos.lookup (kp []) ≠ some none) : (kp [], none) ∉ infos :=
  fun hm => h (lookup_of_mem hnd hm)

end BFS
