import Lemmas.NYXCopy
/-!
  Lemmas/NYXTrack.lean (copy of Lemmas/X2Track.lean over `N.Sim`) — `backupRequired`, `backupDirs`, `tryBackup`, `prepare` keep the invariant
  `InvX` (exactness of the backup copies) under EVERY fault plan: a copy into the backup is made only
  for an untracked key whose parent is already an exact backup directory and whose backup entry is
  absent or an orphan of the right type; the key is recorded only after the copy returned ok, and then
  the backup view shows the original there; a copy that fails leaves an orphan of the right type.
-/
namespace BFS.N
open BackupFS

variable {cfg : Cfg} {S : Sim cfg} {v0 : View}

/-! ### backupRequired -/

theorem sat_backupRequired_x {k : Key} {w : World} (hinv : InvX S v0 w) (hk : PKey k) :
    Sat (backupRequired cfg (kp k)) w (fun w' _ => XInv S v0 w') := by
  unfold backupRequired lookupInfo
  apply Sat.bind
  apply Sat.bind
  apply Sat.getW
  simp only
  apply Sat.pure
  simp only
  cases hl : w.infos.lookup (kp k) with
  | some info =>
    simp only
    apply Sat.pure
    exact hinv.x
  | none =>
    simp only
    apply Sat.bind
    apply Sat.attempt
    apply (sat_lstat hinv.good hk).mono
    intro w1 r ⟨hs, hr⟩
    have hb1 := hinv.x.of_same hs
    have hl1 : w1.infos.lookup (kp k) = none := by rw [hs.infos]; exact hl
    simp only
    rcases hr with ⟨n, i, hv, rfl, hfor⟩ | ⟨hv, e, rfl, hnf⟩ | ⟨rfl, hf⟩
    · simp only
      apply Sat.pure
      exact hb1
    · simp only [hnf, if_true]
      apply Sat.bind
      apply Sat.of_eq (setInfo_untracked hl1)
      simp only
      apply Sat.pure
      exact hb1.add_plain (fun _ _ _ _ _ h => by cases h)
    · simp only [Err.isNotFound, Bool.false_eq_true, if_false]
      apply Sat.throw
      exact hb1

theorem sat_backupRequiredX {k : Key} {w : World} (hinv : InvX S v0 w) (hk : PKey k) :
    Sat (backupRequired cfg (kp k)) w (fun w' r => AdvX S v0 w w' ∧ OnlyAdded (· = k) w w' ∧
      ∀ oi req, r = .ok (oi, req) →
        (req = false → w'.infos.lookup (kp k) = some oi) ∧
        (req = true → w'.infos.lookup (kp k) = none ∧
          ∃ i n, oi = some i ∧ S.view .base w'.fs k = some n ∧ InfoFor i n)) :=
  ((sat_backupRequired hinv.inv hk).and (sat_backupRequired_x hinv hk)).mono
    (fun _ _ ⟨⟨ha, ho, hres⟩, hb⟩ => ⟨⟨ha, hb⟩, ho, hres⟩)

/-! ### backupDirs -/

/-- one step of the `backupDirs` visitor, for a key all of whose proper ancestors are tracked -/
theorem sat_visit_consX {a : Key} {rest : List Path} {w : World} {Q : World → Except Err Unit → Prop}
    (hinv : InvX S v0 w) (ha : PKey a) (hpre : ∀ b, b <+: a → b ≠ a → Tracked w b)
    (hstop : ∀ w' e, AdvX S v0 w w' → OnlyAdded (· = a) w w' → Q w' (.error e))
    (hnext : ∀ w', AdvX S v0 w w' → OnlyAdded (· = a) w w' → Tracked w' a →
      Sat (backupDirsVisit cfg rest) w' Q) :
    Sat (backupDirsVisit cfg (kp a :: rest)) w Q := by
  unfold backupDirsVisit
  apply Sat.bind
  apply (sat_backupRequiredX hinv ha).mono
  intro w1 r ⟨hadv1, hon1, hres⟩
  cases r with
  | error e => exact hstop w1 e hadv1 hon1
  | ok pr =>
    obtain ⟨fi, required⟩ := pr
    obtain ⟨hfalse, htrue⟩ := hres fi required rfl
    simp only
    cases required with
    | false =>
      simp only [Bool.not_false, if_true]
      apply hnext w1 hadv1 hon1
      unfold Tracked
      rw [(hfalse rfl)]
      simp
    | true =>
      simp only [Bool.not_true, Bool.false_eq_true, if_false]
      obtain ⟨hun1, i, n, rfl, hv1, hfor⟩ := htrue rfl
      simp only
      have hinv1 := hadv1.inv
      have hg1 := hinv1.good
      cases hisd : i.isDir with
      | false =>
        -- `copyDir` refuses before any call
        apply Sat.bind
        apply Sat.of_eq (copyDir_not_dir hisd)
        exact hstop _ _ hadv1 hon1
      | true =>
        have hanc : ∀ b, b <+: a → b ≠ a → w1.infos.lookup (kp b) ≠ none :=
          fun b hb hne => (hpre b hb hne).monoX hadv1
        have hnofile : ∀ c mt, n = .file c mt → ∃ mt', S.view .backup w1.fs a = some (.file c mt') := by
          intro c mt hn
          subst hn
          have : i.kind = .file := hfor.1
          simp [Info.isDir, this] at hisd
        by_cases hroot : a = []
        · -- the root itself: nothing is copied
          subst hroot
          apply Sat.bind
          apply Sat.of_eq (copyDir_root (cfg := cfg) (s := .backup) (i := i) (w := w1) hisd)
          simp only
          apply Sat.bind
          apply Sat.of_eq (setInfo_untracked hun1)
          simp only
          have hinv3 := hinv1.inv.add_some (i := i) ha hun1 hv1 hfor hnofile hanc
          have hb3 : XInv S v0 (addInfo w1 (kp []) (some i)) :=
            hinv1.x.add_plain (fun j _ hj hjne e _ => hjne (kp_inj hj PKey.nil e.symm))
          have hadv3 : AdvX S v0 w1 (addInfo w1 (kp []) (some i)) :=
            ⟨Adv.add (S := S) (v0 := v0) (x := some i) ha hun1 hinv3, hb3⟩
          apply hnext _ (hadv1.trans hadv3) (hon1.trans (OnlyAdded.add ha))
          unfold Tracked
          rw [show (addInfo w1 (kp []) (some i)).infos.lookup (kp []) = some (some i) from
            lookup_snoc_self hun1]
          simp
        · -- the node is a directory
          obtain ⟨mt, hn⟩ : ∃ mt, n = .dir mt := by
            cases n with
            | dir mt => exact ⟨mt, rfl⟩
            | file c mt =>
              have : i.kind = .file := hfor.1
              simp [Info.isDir, this] at hisd
            | link t mt => exact absurd hv1 (S.no_link hg1)
          subst hn
          have hperm : i.perm < 4096 := by rw [hfor.2.1]; exact S.mode_lt hg1 hv1
          have hpar : (S.view .backup w1.fs).parentDir a :=
            ⟨hroot, hinv1.parent_bdir ha hroot hun1 (by rw [hv1]; simp)
              (hanc a.dropLast (List.dropLast_prefix a) (by
                intro e; have := dropLast_length_lt hroot; rw [e] at this; omega))⟩
          have hcur := hinv1.cur_dir ha hroot hun1 hv1
          have hv0a : v0 a = some (.dir mt) := by rw [← hinv1.inv.frame a ha hun1]; exact hv1
          apply Sat.bind
          apply ((sat_copyDir_strong (S := S) (s := .backup) (i := i) hg1 ha hroot hisd hperm (hinv1.x.bvis a) hpar hcur).and
            (X2.sat_copyDir_stab (S := S) (s := .backup) (i := i) hg1 ha (hinv1.x.bvis a) hpar hcur)).mono
          intro w2 r2 ⟨⟨hc2, _, hp2⟩, _, hst2⟩
          have hadv2 : Adv S v0 w1 w2 := Adv.backup_soft hinv1.inv ha hun1 hc2.soft
          have hun2 : w2.infos.lookup (kp a) = none := by rw [hc2.infos]; exact hun1
          have hx2 : XInv S v0 w2 := by
            apply hinv1.x.backup_step' hroot hun1 hc2
            rcases hst2 with ⟨mt', hd'⟩ | hsame
            · right
              intro n' hn'
              rw [hd'] at hn'
              cases hn'
              exact ⟨_, hv0a, rfl⟩
            · exact Or.inl hsame
          have hadvx2 : AdvX S v0 w1 w2 := ⟨hadv2, hx2⟩
          have hon2 : OnlyAdded (· = a) w1 w2 := OnlyAdded.of_infos hc2.infos
          cases r2 with
          | error e => exact hstop _ e (hadv1.trans hadvx2) (hon1.trans hon2)
          | ok u =>
            simp only
            have hv2 : S.view .base w2.fs a = some (.dir mt) := by rw [hadv2.base]; exact hv1
            have hinv3 := hadv2.inv.add_some (i := i) ha hun2 hv2 hfor
              (by intro c mt' hn; cases hn)
              (fun b hb hne => (hanc b hb hne |> fun h => (show Tracked w1 b from h).mono hadv2))
            have hex2 : S.view .backup w2.fs a = v0 a := by
              rw [hp2 rfl, hv0a, x2_restoredDir_eq hfor (S.erased hg1 hv1)]
            have hb3 := hx2.record (i := i) ha hun2 hex2
            apply Sat.bind
            apply Sat.of_eq (setInfo_untracked hun2)
            simp only
            have hadv3 : AdvX S v0 w2 (addInfo w2 (kp a) (some i)) := ⟨Adv.add ha hun2 hinv3, hb3⟩
            apply hnext _ ((hadv1.trans hadvx2).trans hadv3)
              ((hon1.trans hon2).trans (OnlyAdded.add ha))
            unfold Tracked
            rw [show (addInfo w2 (kp a) (some i)).infos.lookup (kp a) = some (some i) from
              lookup_snoc_self hun2]
            simp

/-- the visitor over the remaining ancestors `pre ++ [x₁]`, `pre ++ [x₁, x₂]`, … -/
theorem sat_visitX : ∀ (xs : List Name) (pre : Key) (w : World), PKey (pre ++ xs) → InvX S v0 w →
    (∀ b, b <+: pre → Tracked w b) →
    Sat (backupDirsVisit cfg ((inits1 xs).map (fun l => kp (pre ++ l)))) w (fun w' r =>
      AdvX S v0 w w' ∧ OnlyAdded (· <+: pre ++ xs) w w' ∧
        (r = .ok () → ∀ b, b <+: pre ++ xs → Tracked w' b))
  | [], pre, w, _, hinv, hpre => by
    simp only [inits1, List.map_nil, backupDirsVisit, List.append_nil]
    apply Sat.pure
    exact ⟨AdvX.refl hinv, OnlyAdded.refl w, fun _ => hpre⟩
  | x :: xs, pre, w, hpk, hinv, hpre => by
    have hlist : (inits1 (x :: xs)).map (fun l => kp (pre ++ l)) =
        kp (pre ++ [x]) :: (inits1 xs).map (fun l => kp ((pre ++ [x]) ++ l)) := by
      simp [inits1, List.map_map, Function.comp_def]
    rw [hlist]
    have happ : (pre ++ [x]) ++ xs = pre ++ x :: xs := by simp
    have ha : PKey (pre ++ [x]) := hpk.of_prefix ⟨xs, happ⟩
    have hsub : ∀ j, j = pre ++ [x] → j <+: pre ++ x :: xs := by
      intro j hj; subst hj; exact ⟨xs, happ⟩
    apply sat_visit_consX hinv ha
    · intro b hb hne
      rcases prefix_snoc_iff.mp hb with h | h
      · exact hpre b h
      · exact absurd h hne
    · intro w' e hadv hon
      refine ⟨hadv, hon.mono hsub, ?_⟩
      intro h; cases h
    · intro w' hadv hon htr
      have hpre' : ∀ b, b <+: pre ++ [x] → Tracked w' b := by
        intro b hb
        rcases prefix_snoc_iff.mp hb with h | h
        · exact (hpre b h).monoX hadv
        · subst h; exact htr
      have ih := sat_visitX xs (pre ++ [x]) w' (by rw [happ]; exact hpk) hadv.inv hpre'
      rw [happ] at ih
      apply ih.mono
      intro w'' r ⟨hadv', hon', hall⟩
      exact ⟨hadv.trans hadv', (hon.mono hsub).trans hon', hall⟩

theorem sat_backupDirsX {d : Key} {w : World} (hinv : InvX S v0 w) (hd : PKey d) :
    Sat (backupDirs cfg (kp d)) w (fun w' r => AdvX S v0 w w' ∧ OnlyAdded (· <+: d) w w' ∧
      (r = .ok () → ∀ b, b <+: d → Tracked w' b)) := by
  unfold backupDirs
  rw [iterateDirTree_kp hd]
  have hroot : rootP = kp [] := rfl
  rw [hroot]
  apply sat_visit_consX hinv PKey.nil
  · intro b hb hne
    exact absurd (List.prefix_nil.mp hb) hne
  · intro w' e hadv hon
    refine ⟨hadv, hon.mono (fun j hj => by subst hj; exact List.nil_prefix), ?_⟩
    intro h; cases h
  · intro w' hadv hon htr
    have := sat_visitX (cfg := cfg) d [] w' (by simpa using hd) hadv.inv
      (by intro b hb; rw [List.prefix_nil.mp hb]; exact htr)
    simp only [List.nil_append] at this
    apply this.mono
    intro w'' r ⟨hadv', hon', hall⟩
    exact ⟨hadv.trans hadv', (hon.mono (fun j hj => by subst hj; exact List.nil_prefix)).trans hon', hall⟩

/-! ### tryBackup -/

theorem sat_tryBackupX {k : Key} {w : World} (hinv : InvX S v0 w) (hk : PKey k) :
    Sat (tryBackup cfg (kp k)) w (fun w' r => AdvX S v0 w w' ∧ (r = .ok () → ∀ b, b <+: k → Tracked w' b)) := by
  unfold tryBackup
  apply Sat.bind
  apply (sat_backupRequiredX hinv hk).mono
  intro w1 r1 ⟨hadv1, hon1, hres⟩
  cases r1 with
  | error e => exact ⟨hadv1, by intro h; cases h⟩
  | ok pr =>
    obtain ⟨info, needsBackup⟩ := pr
    obtain ⟨hfalse, htrue⟩ := hres info needsBackup rfl
    simp only
    -- the directory whose chain is backed up
    have hdir : ∀ inf : Option Info, ∃ d, PKey d ∧ backupDirPath inf (kp k) = kp d ∧ (d = k ∨ d = k.dropLast) ∧
        (∀ i, inf = some i → i.isDir = true → d = k) ∧ (∀ i, inf = some i → i.isDir = false → d = k.dropLast) := by
      intro inf
      cases inf with
      | none => exact ⟨k.dropLast, hk.dropLast, (by simp [backupDirPath, dir_kp hk]), Or.inr rfl, (by intro i h; cases h), (by intro i h; cases h)⟩
      | some i =>
        cases hd : i.isDir with
        | true =>
          refine ⟨k, hk, (by simp [backupDirPath, hd]), Or.inl rfl, fun _ _ _ => rfl, ?_⟩
          intro i' h h'; cases h; rw [hd] at h'; cases h'
        | false =>
          refine ⟨k.dropLast, hk.dropLast, (by simp [backupDirPath, hd, dir_kp hk]), Or.inr rfl, ?_, fun _ _ _ => rfl⟩
          intro i' h h'; cases h; rw [hd] at h'; cases h'
    obtain ⟨d, hd, hdeq, hdk, hd_dir, hd_file⟩ := hdir info
    rw [hdeq]
    apply Sat.bind
    apply (sat_backupDirsX hadv1.inv hd).mono
    intro w2 r2 ⟨hadv2, hon2, hall⟩
    have hadv12 := hadv1.trans hadv2
    cases r2 with
    | error e => exact ⟨hadv12, by intro h; cases h⟩
    | ok u2 =>
      simp only
      have hall := hall rfl
      have hpref : ∀ w', (∀ b, b <+: d → Tracked w' b) → Tracked w' k → ∀ b, b <+: k → Tracked w' b := by
        intro w' hd' hk' b hb
        by_cases hbk : b = k
        · subst hbk; exact hk'
        · rcases hdk with rfl | rfl
          · exact hd' b hb
          · exact hd' b (prefix_proper_dropLast hb hbk)
      cases needsBackup with
      | false =>
        simp only [Bool.not_false, if_true]
        apply Sat.pure
        refine ⟨hadv12, fun _ => ?_⟩
        have : Tracked w1 k := by unfold Tracked; rw [hfalse rfl]; simp
        exact hpref w2 hall (this.monoX hadv2)
      | true =>
        simp only [Bool.not_true, Bool.false_eq_true, if_false]
        obtain ⟨hun1, i, n, rfl, hv1, hfor⟩ := htrue rfl
        simp only
        have hnl : ∀ t mt, n ≠ .link t mt := by
          intro t mt e; subst e; exact S.no_link hadv1.inv.good hv1
        cases hisd : i.isDir with
        | true =>
          simp only [if_true]
          apply Sat.pure
          refine ⟨hadv12, fun _ => ?_⟩
          have := hd_dir i rfl hisd
          subst this
          exact hall
        | false =>
          simp only [Bool.false_eq_true, if_false]
          have hdl := hd_file i rfl hisd
          subst hdl
          -- the node is a regular file
          obtain ⟨c, mt, hn⟩ : ∃ c mt, n = .file c mt := by
            cases n with
            | file c mt => exact ⟨c, mt, rfl⟩
            | dir mt =>
              have : i.kind = .dir := hfor.1
              simp [Info.isDir, this] at hisd
            | link t mt => exact absurd rfl (hnl t mt)
          subst hn
          have hkfile : i.kind = .file := hfor.1
          have hreg : i.isRegular = true := by
            simp [Info.isRegular, hkfile]
          simp only [hreg, if_true]
          have hkne : k ≠ [] := by
            intro e; subst e
            obtain ⟨mt', hroot⟩ := S.root_dir (s := .base) hadv1.inv.good
            rw [hroot] at hv1; cases hv1
          have hun2 : w2.infos.lookup (kp k) = none := by
            cases hl : w2.infos.lookup (kp k) with
            | none => rfl
            | some x =>
              exfalso
              have ht : Tracked w2 k := by unfold Tracked; rw [hl]; simp
              rcases hon2 k hk ht with h | h
              · exact h hun1
              · exact not_prefix_dropLast hkne h
          have hv2 : S.view .base w2.fs k = some (.file c mt) := by rw [hadv2.base]; exact hv1
          have hg2 := hadv2.inv.good
          apply Sat.bind
          apply (sat_open_ro (S := S) hg2 hk).mono
          intro w3 r3 ⟨hs3, hwh, _⟩
          have hadv23 := AdvX.of_same hadv2.inv hs3
          have hadv3 : AdvX S v0 w w3 := hadv12.trans hadv23
          cases r3 with
          | error e => exact ⟨hadv3, by intro h; cases h⟩
          | ok sf =>
            simp only
            obtain ⟨hside, hH, hflag⟩ := hwh sf rfl
            have hinv3 := hadv3.inv
            have hun3 : w3.infos.lookup (kp k) = none := by rw [hs3.infos]; exact hun2
            have hv3 : S.view .base w3.fs k = some (.file c mt) := by rw [hs3.fs]; exact hv2
            have hall3 : ∀ b, b <+: k.dropLast → Tracked w3 b := fun b hb => (hall b hb).monoX hadv23
            have hv0k : v0 k = some (.file c mt) := by rw [← hinv3.inv.frame k hk hun3]; exact hv3
            apply Sat.bind
            apply Sat.attempt
            -- copy, then record
            have hcopy : Sat (do copyFile cfg .backup (kp k) i sf; setInfo (kp k) (some i) : M Unit) w3
                (fun w' r => AdvX S v0 w3 w' ∧ (r = .ok () → Tracked w' k)) := by
              have hcw : CanWrite S .backup (S.view .backup w3.fs) k := by
                rcases hinv3.cur_file hk hkne hun3 hv3 with hn | hf
                · exact Or.inr ⟨hn, ⟨hkne, hinv3.parent_bdir hk hkne hun3 (by rw [hv3]; simp)
                    (hall3 _ List.prefix_rfl)⟩, hinv3.x.bvis k⟩
                · exact Or.inl hf
              apply Sat.bind
              apply ((sat_copyFile (S := S) (s := .backup) (ks := k) (data := c) (mt0 := mt) hinv3.good hk
                hside hH (by rw [hflag]; decide) hv3 hreg
                (by rw [hfor.2.1]; exact S.mode_lt hinv3.good hv3)).and
                (X2.sat_copyFile_stab (S := S) (s := .backup) (i := i) (src := sf) hinv3.good hk hcw)).mono
              intro w4 r4 ⟨⟨hc4, hp4, _⟩, _, hst4⟩
              have hadv4 : Adv S v0 w3 w4 := Adv.backup_soft hinv3.inv hk hun3 hc4.soft
              have hx4 : XInv S v0 w4 := by
                apply hinv3.x.backup_step' hkne hun3 hc4
                rcases hst4 with ⟨c', mt', hf'⟩ | hsame
                · right
                  intro n' hn'
                  rw [hf'] at hn'
                  cases hn'
                  exact ⟨_, hv0k, rfl⟩
                · exact Or.inl hsame
              cases r4 with
              | error e => exact ⟨⟨hadv4, hx4⟩, by intro h; cases h⟩
              | ok u4 =>
                simp only
                have hun4 : w4.infos.lookup (kp k) = none := by rw [hc4.infos]; exact hun3
                apply Sat.of_eq (setInfo_untracked hun4)
                have hv4 : S.view .base w4.fs k = some (.file c mt) := by rw [hadv4.base]; exact hv3
                have hinv5 := hadv4.inv.add_some (i := i) hk hun4 hv4 hfor
                  (by
                    intro c' mt' hn
                    cases hn
                    exact ⟨_, hp4 rfl⟩)
                  (by
                    intro b hb hne
                    exact (hall3 b (prefix_proper_dropLast hb hne)).mono hadv4)
                have hex4 : S.view .backup w4.fs k = v0 k := by
                  rw [hp4 rfl, hv0k, x2_restoredFile_eq hfor]
                have hb5 := hx4.record (i := i) hk hun4 hex4
                refine ⟨⟨hadv4.trans (Adv.add hk hun4 hinv5), hb5⟩, fun _ => ?_⟩
                unfold Tracked
                rw [show (addInfo w4 (kp k) (some i)).infos.lookup (kp k) = some (some i) from lookup_snoc_self hun4]
                simp
            apply hcopy.mono
            intro w5 r5 ⟨hadv5, htr5⟩
            simp only
            apply Sat.bind
            apply Sat.attempt
            apply (sat_hClose (wh := sf) (w := w5)).mono
            intro w6 r6 ⟨hs6, _⟩
            simp only
            have hadv56 := AdvX.of_same hadv5.inv hs6
            have hadv6 : AdvX S v0 w w6 := (hadv3.trans hadv5).trans hadv56
            cases r5 with
            | error e => exact ⟨hadv6, by intro h; cases h⟩
            | ok u5 =>
              cases u5
              refine ⟨hadv6, fun _ => ?_⟩
              have hk6 : Tracked w6 k := (htr5 rfl).monoX hadv56
              apply hpref w6 _ hk6
              intro b hb
              exact ((hall3 b hb).monoX hadv5).monoX hadv56

/-! ### prepare -/

theorem sat_prepareX {name : Path} {k : Key} {w : World} (hinv : InvX S v0 w) (hk : PKey k)
    (hname : clean name = kp k) :
    Sat (prepare cfg name) w (fun w' r => AdvX S v0 w w' ∧
      ∀ p, r = .ok p → p = kp k ∧ ∀ b, b <+: k → Tracked w' b) := by
  unfold prepare
  apply Sat.bind
  apply (sat_realPath (S := S) hinv.good hk hname).mono
  intro w1 r ⟨hs, hres⟩
  have hadv1 := AdvX.of_same hinv hs
  cases r with
  | error e => exact ⟨hadv1, by intro p h; cases h⟩
  | ok p =>
    simp only
    have hp := hres p rfl
    subst hp
    apply Sat.bind
    apply (sat_tryBackupX hadv1.inv hk).mono
    intro w2 r2 ⟨hadv2, htr⟩
    cases r2 with
    | error e => exact ⟨hadv1.trans hadv2, by intro p h; cases h⟩
    | ok u =>
      apply Sat.pure
      refine ⟨hadv1.trans hadv2, ?_⟩
      intro p h
      cases h
      exact ⟨rfl, htr rfl⟩

end BFS.N
