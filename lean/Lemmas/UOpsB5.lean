import Lemmas.UOpsB4
/-!
  Lemmas/UOpsB5.lean — tier 2 (C03 through flat symlinks): `StepB` for Rename and for RemoveAll of a
  non-directory.
-/
namespace BFS
namespace U
open BackupFS MFS F16

section
variable {bk kk : Key}
variable (hr : Roots bk kk) {v0 : View} {r0 : Option Node} {w : World}
include hr

/-- on a flat disk every error of the non-following resolution of a name of at most 40 components is of the
not-found class -/
theorem namei_err_isNotFound {m : MFS} (hg : L.OSGoodL bk kk m) (hflat : Flat bk m) {k : Key} (hk : PKey k)
    (hlen : k.length ≤ 40) {e : Err} (h : namei m (kp (bk ++ k)) false = .err e) : e.isNotFound = true := by
  have hrk : PKey (resK m bk [] k) := resK_pkey hr.pb hg hflat k [] PKey.nil hk
  have hnl : L.NoLinkProper m (bk ++ resK m bk [] k) :=
    fun p hp hne t mt => resK_nolink hg hflat k [] (noLinkUpto_root hg) p hp hne t mt
  rw [← namei_resK hr hg hflat hk hlen] at h
  rcases L.namei_cases_nf hg (hr.pb.append hrk) hnl (TextOf.kp _) with ⟨n1, _, hr1⟩ | ⟨_, _, _, _, hr1⟩ |
    ⟨e', _, _, _, hr1, he⟩
  · rw [hr1] at h; cases h
  · rw [hr1] at h; cases h
  · rw [hr1] at h; cases h; exact he

omit hr in
theorem rename_err_old {m : MFS} {o n : Path} {e : Err} (h : namei m o false = .err e) :
    m.rename o n = (m, .error e) := by
  unfold MFS.rename
  simp only [h]
  cases namei m n false with
  | found kn nn => cases nn <;> rfl
  | missing p c => rfl
  | err e2 => rfl

omit hr in
theorem rename_err_new {m : MFS} {o n : Path} {e : Err} (h : namei m n false = .err e) :
    ∃ e', m.rename o n = (m, .error e') ∧ (e' = e ∨ namei m o false = .err e') := by
  unfold MFS.rename
  simp only [h]
  cases ho : namei m o false with
  | found ko no => exact ⟨e, rfl, Or.inl rfl⟩
  | missing p c => exact ⟨e, rfl, Or.inl rfl⟩
  | err e2 => exact ⟨e2, rfl, Or.inr rfl⟩

theorem renPrep_flatB {o n : Path} {ko kn : Key} (hinv : L.Inv (osSimLR hr) v0 w) (hb : BInvL (osSimLR hr) r0 w)
    (hflat : Flat bk w.fs) (hko : PKey ko) (hkn : PKey kn) (ho : clean o = kp ko) (hn : clean n = kp kn)
    (hloko : LinkOKBoth bk kk w (L.G.rk bk w ko)) (hlokn : LinkOKBoth bk kk w (L.G.rk bk w kn)) :
    Sat (renPrep (osCfg bk kk) o n) w (fun w' r => L.Inv (osSimLR hr) v0 w' ∧ BInvL (osSimLR hr) r0 w' ∧
      L.osViewL bk kk .base w'.fs = L.osViewL bk kk .base w.fs ∧
      (∀ p, r = .ok p → p = (kp (L.G.rk bk w ko), kp (L.G.rk bk w kn))) ∧
      (∀ e, r = .error e → e = .typeMismatch ∧
        (FileAnc (L.osViewL bk kk .base w.fs) (L.G.rk bk w ko) ∨ FileAnc (L.osViewL bk kk .base w.fs) (L.G.rk bk w kn)))) := by
  have hg : L.OSGoodL bk kk w.fs := hinv.good
  have hnf := hb.nofault
  have hrko := L.G.rk_pkey hr hg hflat hko
  have hrkn := L.G.rk_pkey hr hg hflat hkn
  have hacco := L.G.rk_noLinkAnc (kk := kk) hg hflat ko
  have haccn := L.G.rk_noLinkAnc (kk := kk) hg hflat kn
  unfold renPrep
  apply Sat.bind
  apply (L.G.sat_realPath_flat hr hnf hg hflat hko ho).mono
  intro w1 r1 ⟨hs1, hr1⟩
  subst hr1
  simp only
  apply Sat.bind
  apply (L.G.sat_realPath_flat hr (w := w1) (hs1.faults.trans hnf) (by rw [hs1.fs]; exact hg)
    (by rw [hs1.fs]; exact hflat) hkn hn).mono
  intro w2 r2 ⟨hs2, hr2⟩
  subst hr2
  rw [hs1.fs]
  simp only
  have hs12 := hs1.trans hs2
  have hinv2 := hinv.of_same hs12
  have hb2 := hb.of_same hs12
  apply Sat.bind
  apply (sat_tryBackupTL (S := osSimLR hr) hinv2 hb2 hrkn
    (by show L.NoLinkAnc (L.osViewL bk kk .base w2.fs) _; rw [hs12.fs]; exact haccn)
    (by
      intro t mt hv
      have hv' : L.osViewL bk kk .base w2.fs (L.G.rk bk w kn) = some (.link t mt) := hv
      rw [hs12.fs] at hv'
      exact hlokn t mt hv')).mono
  intro w3 r3 ⟨hadv3, _, hfail3⟩
  have hbase3 : L.osViewL bk kk .base w3.fs = L.osViewL bk kk .base w.fs := by
    have h' : L.osViewL bk kk .base w3.fs = L.osViewL bk kk .base w2.fs := hadv3.adv.base
    rw [h', hs12.fs]
  cases r3 with
  | error e =>
    refine ⟨hadv3.adv.inv, hadv3.b, hbase3, (by intro p h; cases h), ?_⟩
    intro e' he'
    cases he'
    obtain ⟨h1, h2⟩ := hfail3 e rfl
    have h2' : FileAnc (L.osViewL bk kk .base w2.fs) (L.G.rk bk w kn) := h2
    rw [hs12.fs] at h2'
    exact ⟨h1, Or.inr h2'⟩
  | ok u3 =>
    simp only
    apply Sat.bind
    apply (sat_tryBackupTL (S := osSimLR hr) hadv3.adv.inv hadv3.b hrko
      (by show L.NoLinkAnc (L.osViewL bk kk .base w3.fs) _; rw [hbase3]; exact hacco)
      (by
        intro t mt hv
        have hv' : L.osViewL bk kk .base w3.fs (L.G.rk bk w ko) = some (.link t mt) := hv
        rw [hbase3] at hv'
        exact hloko t mt hv')).mono
    intro w4 r4 ⟨hadv4, _, hfail4⟩
    have hbase4 : L.osViewL bk kk .base w4.fs = L.osViewL bk kk .base w.fs := by
      have h' : L.osViewL bk kk .base w4.fs = L.osViewL bk kk .base w3.fs := hadv4.adv.base
      rw [h', hbase3]
    cases r4 with
    | error e =>
      refine ⟨hadv4.adv.inv, hadv4.b, hbase4, (by intro p h; cases h), ?_⟩
      intro e' he'
      cases he'
      obtain ⟨h1, h2⟩ := hfail4 e rfl
      have h2' : FileAnc (L.osViewL bk kk .base w3.fs) (L.G.rk bk w ko) := h2
      rw [hbase3] at h2'
      exact ⟨h1, Or.inl h2'⟩
    | ok u4 =>
      apply Sat.pure
      exact ⟨hadv4.adv.inv, hadv4.b, hbase4, (by intro p h; cases h; rfl), (by intro e h; cases h)⟩

theorem rename_stepB {o n : Path} {ko kn : Key} (hinv : L.Inv (osSimLR hr) v0 w) (hb : BInvL (osSimLR hr) r0 w)
    (hflat : Flat bk w.fs) (hko : PKey ko) (hkn : PKey kn) (ho : clean o = kp ko) (hn : clean n = kp kn)
    (hleno : ko.length ≤ 40) (hlenn : kn.length ≤ 40)
    (hloko : LinkOKBoth bk kk w (L.G.rk bk w ko)) (hlokn : LinkOKBoth bk kk w (L.G.rk bk w kn)) :
    StepB hr r0 w (.rename o n) := by
  have hg : L.OSGoodL bk kk w.fs := hinv.good
  have hrko := L.G.rk_pkey hr hg hflat hko
  have hrkn := L.G.rk_pkey hr hg hflat hkn
  have hsat := (renPrep_flatB hr hinv hb hflat hko hkn ho hn hloko hlokn).elim
  have hx : Op.exec (osCfg bk kk) (.rename o n) =
      (renPrep (osCfg bk kk) o n >>= fun p => (do primUnit (osCfg bk kk) .base (.rename p.1 p.2); pure OpOut.unit : M OpOut)) := by
    show (do BackupFS.rename (osCfg bk kk) o n; pure OpOut.unit : M OpOut) = _
    rw [rename_eq]
    funext w0
    simp only [M.bind_apply]
    cases renPrep (osCfg bk kk) o n w0 with
    | mk w1 r => cases r <;> rfl
  constructor
  · rw [hx]
    simp only [M.bind_apply]
    revert hsat
    cases renPrep (osCfg bk kk) o n w with
    | mk w1 pr =>
      intro ⟨hinv1, hb1, hbase1, hp, _⟩
      cases pr with
      | error e => exact hb1
      | ok p =>
        have hpe := hp p rfl
        subst hpe
        simp only
        have hsatu := (sat_unit_full (cfg := osCfg bk kk)
          (c := .rename (kp (L.G.rk bk w ko)) (kp (L.G.rk bk w kn))) hb1.nofault).elim
        obtain ⟨hfs, _, hi, hf⟩ := hsatu
        have hcall : (baseFS bk kk).call w1.fs (.rename (kp (L.G.rk bk w ko)) (kp (L.G.rk bk w kn))) =
            (((baseFS bk kk).call w1.fs (.rename (kp (L.G.rk bk w ko)) (kp (L.G.rk bk w kn)))).1,
             ((baseFS bk kk).call w1.fs (.rename (kp (L.G.rk bk w ko)) (kp (L.G.rk bk w kn)))).2) := rfl
        have hv := (L.os_rename_frame (s := .base) hr hinv1.good hrko hrkn
          (rk_noLinkAnc_of_view hr hg hflat ko hbase1) (rk_noLinkAnc_of_view hr hg hflat kn hbase1) hcall).2.1
        have hgoal : BInvL (osSimLR hr) r0
            ((do primUnit (osCfg bk kk) .base (.rename (kp (L.G.rk bk w ko)) (kp (L.G.rk bk w kn))); pure OpOut.unit : M OpOut) w1).1 := by
          apply hb1.of_eq _ hi hf
          show L.osViewL bk kk .backup _ = L.osViewL bk kk .backup w1.fs
          rw [hfs]
          exact hv
        simp only [M.bind_apply] at hgoal
        exact hgoal
  · intro e he
    rw [renPhase_snd] at he
    obtain ⟨_, _, _, _, hfail⟩ := hsat
    have he' : (renPrep (osCfg bk kk) o n w).2 = .error e := by
      cases hp : (renPrep (osCfg bk kk) o n w).2 with
      | ok p => rw [hp] at he; cases he
      | error e' => rw [hp] at he; cases he; rfl
    obtain ⟨h1, hfa⟩ := hfail e he'
    have hd1 := directUnit_fst (baseFS bk kk) w.fs (.rename o n)
    have hd2 := directUnit_snd (baseFS bk kk) w.fs (.rename o n)
    rw [base_rename_spelling w.fs hko hkn ho hn, side_rename hr w.fs ko kn hko hkn] at hd1 hd2
    simp only at hd1 hd2
    show e = .typeMismatch ∧ (directUnit (baseFS bk kk) w.fs (.rename o n)).1 = w.fs ∧
      ∃ e', (directUnit (baseFS bk kk) w.fs (.rename o n)).2 = .error e' ∧ FailCls e'
    rcases hfa with hfa | hfa
    · obtain ⟨e0, hn0, hnf0⟩ := namei_fileAnc hr hg hflat hko hleno hfa false
      rw [rename_err_old hn0] at hd1 hd2
      exact ⟨h1, hd1, e0, hd2, Or.inl hnf0⟩
    · obtain ⟨e0, hn0, hnf0⟩ := namei_fileAnc hr hg hflat hkn hlenn hfa false
      obtain ⟨e', hre, hcls⟩ := rename_err_new (o := kp (bk ++ ko)) hn0
      rw [hre] at hd1 hd2
      refine ⟨h1, hd1, e', hd2, Or.inl ?_⟩
      rcases hcls with rfl | hcls
      · exact hnf0
      · exact namei_err_isNotFound hr hg hflat hko hleno hcls

/-- `RemoveAll` of a name whose resolved key is not a directory -/
theorem removeAll_stepB {name : Path} {k : Key} (hinv : L.Inv (osSimLR hr) v0 w) (hb : BInvL (osSimLR hr) r0 w)
    (hflat : Flat bk w.fs) (hk : PKey k) (hname : clean name = kp k) (hne : k ≠ [])
    (hlok : LinkOKBoth bk kk w (L.G.rk bk w k))
    (hnd : ∀ mt, w.fs.get (bk ++ L.G.rk bk w k) ≠ some (.dir mt)) :
    StepB hr r0 w (.removeAll name) := by
  have hg : L.OSGoodL bk kk w.fs := hinv.good
  have hnf := hb.nofault
  have hrk := L.G.rk_pkey hr hg hflat hk
  have hacc := L.G.rk_noLinkAnc (kk := kk) hg hflat k
  have hpf := (raPrefix_flat hr hnf hg hflat hk hname).elim
  have key : BInvL (osSimLR hr) r0 (Op.exec (osCfg bk kk) (.removeAll name) w).1 ∧
      ∀ e, (Op.backupPhase (osCfg bk kk) (.removeAll name) w).2 = .error e → False := by
    rw [removeAll_exec_eq, removeAll_phase_eq]
    simp only [M.bind_apply]
    revert hpf
    cases raPrefix (osCfg bk kk) name w with
    | mk w2 pr =>
      intro ⟨hs, hcases⟩
      rcases hcases with ⟨n, i, hget, hpr, hkind⟩ | ⟨hget, e, hpr, he⟩
      · subst hpr
        have hnd' : n.isDir = false := by
          cases n with
          | dir mt => exact absurd hget (hnd mt)
          | file c mt => rfl
          | link t mt => rfl
        have hid : i.isDir = false := by
          unfold Info.isDir
          rw [hkind]
          cases n with
          | dir mt => cases hnd'
          | file c mt => rfl
          | link t mt => rfl
        simp only [hid, Bool.not_false, if_true]
        have hinv2 : L.Inv (osSimLR hr) v0 w2 := hinv.of_same hs
        have hb2 := hb.of_same hs
        have hflat2 : Flat bk w2.fs := by rw [hs.fs]; exact hflat
        have hacc2 : L.NoLinkAnc ((osSimLR hr).view .base w2.fs) (L.G.rk bk w k) := by
          show L.NoLinkAnc (L.osViewL bk kk .base w2.fs) _
          rw [hs.fs]; exact hacc
        have hid2 : L.G.rk bk w2 (L.G.rk bk w k) = L.G.rk bk w k :=
          L.G.rk_id (hbk := hr.pb) (hkk := hr.pk) (hne1 := hr.nb) (hne2 := hr.nk) (hd1 := hr.d1) (hd2 := hr.d2)
            hinv2.good hacc2
        -- the resolved key exists: no regular file among its proper ancestors
        have hnofa : ¬ FileAnc (L.osViewL bk kk .base w2.fs) (L.G.rk bk w k) := by
          rintro ⟨a, ha, hane, hfile⟩
          obtain ⟨c, mt, hga⟩ := L.osViewL_isFileAt (s := .base) hfile
          have hga' : w.fs.get (bk ++ a) = some (.file c mt) := by rw [← hs.fs]; exact hga
          have := hg.below_nondir ((List.prefix_append_right_inj bk).mpr ha)
            (fun e => hane (List.append_cancel_left e)) hga' rfl
          rw [this] at hget; cases hget
        have h := single_stepB' hr (c := fun r => .remove r) (name := kp (L.G.rk bk w k))
          (d := (w2.fs, (.error .notExist : Except Err DOut))) hinv2 hb2 hflat2 hrk (clean_kp hrk)
          (by rw [hid2]; intro t mt hv; rw [hs.fs] at hv; exact hlok t mt hv)
          (by rw [hid2]; intro hfa; exact absurd hfa hnofa)
          (fun m m' res hgm hv hc => by
            rw [hid2] at hc
            exact (L.os_remove_frame (s := .base) hr hgm hrk (L.G.rk_ne hne)
              (by rw [hv, hs.fs]; exact hacc) hc).2.1)
        refine ⟨h.1, ?_⟩
        intro e he
        have hph : ((do let _ ← prepare (osCfg bk kk) (kp (L.G.rk bk w k)); pure () : M Unit) w2).2 =
            (prepare (osCfg bk kk) (kp (L.G.rk bk w k)) w2).2.map (fun _ => ()) := prepPhase_snd _ _ _
        rw [hph] at he
        have he' : (prepare (osCfg bk kk) (kp (L.G.rk bk w k)) w2).2 = .error e := by
          cases hp : (prepare (osCfg bk kk) (kp (L.G.rk bk w k)) w2).2 with
          | ok p => rw [hp] at he; cases he
          | error e' => rw [hp] at he; cases he; rfl
        have hfacts := prepare_flatB hr hinv2 hb2 hflat2 hrk (clean_kp hrk)
          (by rw [hid2]; intro t mt hv; rw [hs.fs] at hv; exact hlok t mt hv)
        obtain ⟨_, hfa⟩ := hfacts.fail e he'
        rw [hid2] at hfa
        exact hnofa hfa
      · subst hpr
        simp only [he, if_true]
        refine ⟨hb.of_same hs, ?_⟩
        intro e' he'
        cases he'
  refine ⟨key.1, ?_⟩
  intro e he
  exact absurd he (fun h => key.2 e h)

end

end U
end BFS
