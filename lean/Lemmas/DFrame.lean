import Lemmas.SimOSLaws7
/-!
  Lemmas/DFrame.lean — exact frame laws of the OS model's syscalls (no erasure of directory
  timestamps): a call whose path argument resolves to key `K` changes the node at `K` and stamps
  the parent directory of `K` when it creates or removes the entry; `RemoveAll` changes keys below
  `K`; `Rename` both subtrees.  Stated relative to the *outcome of name resolution* (`NC`), so the
  laws do not care how the key was reached (link-free or through symlinks).
-/
namespace BFS
namespace D
open MFS

/-- a directory got a fresh mtime, or nothing happened -/
def Stamp (a b : Option Node) : Prop :=
  b = a ∨ ∃ mt, a = some (.dir mt) ∧ b = some (.dir { mt with mtime := .fresh })

theorem Stamp.refl (a : Option Node) : Stamp a a := Or.inl rfl

theorem Stamp.trans {a b c : Option Node} (h1 : Stamp a b) (h2 : Stamp b c) : Stamp a c := by
  rcases h1 with rfl | ⟨mt, rfl, rfl⟩
  · exact h2
  · rcases h2 with rfl | ⟨mt', e, rfl⟩
    · exact Or.inr ⟨mt, rfl, rfl⟩
    · cases e
      exact Or.inr ⟨mt, rfl, rfl⟩

theorem Stamp.none_iff {a b : Option Node} (h : Stamp a b) : b = none ↔ a = none := by
  rcases h with rfl | ⟨mt, rfl, rfl⟩
  · exact Iff.rfl
  · simp

theorem Stamp.isSome {a b : Option Node} (h : Stamp a b) : b.isSome = a.isSome := by
  rcases h with rfl | ⟨mt, rfl, rfl⟩ <;> rfl

theorem Stamp.dir {a b : Option Node} (h : Stamp a b) : (∃ mt, b = some (.dir mt)) ↔ ∃ mt, a = some (.dir mt) := by
  rcases h with rfl | ⟨mt, rfl, rfl⟩
  · exact Iff.rfl
  · exact ⟨fun _ => ⟨_, rfl⟩, fun _ => ⟨_, rfl⟩⟩

theorem touchDir_stamp (m : MFS) (P : Key) : Stamp (m.get P) ((m.touchDir P).get P) := by
  rcases touchDir_cases m P with ⟨mt, hk, e⟩ | e
  · rw [e, set_get_self]
    exact Or.inr ⟨mt, hk, rfl⟩
  · rw [e]
    exact Or.inl rfl

/-- the outcome of resolving a path, relative to a key `K` -/
inductive NC (m : MFS) (K : Key) (r : Res) : Prop
  | found (n : Node) (hn : m.get K = some n) (hr : r = .found K n)
  | missing (hne : K ≠ []) (mt : Meta) (hn : m.get K = none) (hp : m.get K.dropLast = some (.dir mt))
      (hr : r = .missing K.dropLast (K.getLast hne))
  | err (e : Err) (hr : r = .err e)

theorem NC.of_case {m : MFS} {K : Key} {r : Res} (h : NameiCase m K r) : NC m K r := by
  rcases h with ⟨n, hn, _, hr⟩ | ⟨hne, mt, hn, hp, hr⟩ | ⟨e, _, _, _, hr, _⟩
  · exact .found n hn hr
  · exact .missing hne mt hn hp hr
  · exact .err e hr

/-- the change a single-entry syscall at key `K` can make: the node at `K`; the parent directory
is stamped, and only when the entry at `K` appears or disappears -/
structure At (m m' : MFS) (K : Key) : Prop where
  other : ∀ j, j ≠ K → j ≠ K.dropLast → m'.get j = m.get j
  par : K ≠ [] → Stamp (m.get K.dropLast) (m'.get K.dropLast)
  same : (m'.get K).isSome = (m.get K).isSome → ∀ j, j ≠ K → m'.get j = m.get j

theorem At.refl (m : MFS) (K : Key) : At m m K := ⟨fun _ _ _ => rfl, fun _ => Stamp.refl _, fun _ _ _ => rfl⟩

theorem At.set (m : MFS) (K : Key) (v : Option Node) : At m (m.set K v) K :=
  ⟨fun j hj _ => set_get_ne m v hj,
   fun hne => by
    have : K.dropLast ≠ K := by
      intro e
      have := congrArg List.length e
      rw [List.length_dropLast] at this
      have := List.length_pos_iff.mpr hne
      omega
    rw [set_get_ne m v this]; exact Stamp.refl _,
   fun _ j hj => set_get_ne m v hj⟩

theorem dropLast_ne_self {K : Key} (hne : K ≠ []) : K.dropLast ≠ K := by
  intro e
  have := congrArg List.length e
  rw [List.length_dropLast] at this
  have := List.length_pos_iff.mpr hne
  omega

/-- an entry created or removed at `K`, the parent stamped -/
theorem At.set_touch (m : MFS) {K : Key} (hne : K ≠ []) (v : Option Node) (hv : v.isSome ≠ (m.get K).isSome) :
    At m ((m.set K v).touchDir K.dropLast) K := by
  have hd := dropLast_ne_self hne
  refine ⟨?_, ?_, ?_⟩
  · intro j hj hj'
    rw [touchDir_get_ne _ hj', set_get_ne m v hj]
  · intro _
    have := touchDir_stamp (m.set K v) K.dropLast
    rwa [set_get_ne m v hd] at this
  · intro h
    rw [touchDir_get_ne _ (Ne.symm hd), set_get_self] at h
    exact absurd h hv

/-! ### metadata syscalls -/

theorem at_metaOp {m : MFS} {K : Key} {t : Path} {follow : Bool} (f : Node → Node)
    (h : NC m K (namei m t follow)) : At m (metaOp m t follow f).1 K := by
  unfold metaOp
  rcases h with ⟨n, hn, hr⟩ | ⟨hne, mt, hn, hp, hr⟩ | ⟨e, hr⟩
  · rw [hr]
    refine ⟨fun j hj _ => set_get_ne m _ hj, ?_, fun _ j hj => set_get_ne m _ hj⟩
    intro hne
    show Stamp _ ((m.set K _).get _)
    rw [set_get_ne m _ (dropLast_ne_self hne)]
    exact Stamp.refl _
  · rw [hr]; exact At.refl m K
  · rw [hr]; exact At.refl m K

theorem at_chmod {m : MFS} {K : Key} {t : Path} (mode : Nat) (h : NC m K (namei m t true)) :
    At m (m.chmod t mode).1 K := by
  rw [mfs_chmod_eq]; exact at_metaOp _ h

theorem at_chown {m : MFS} {K : Key} {t : Path} (u g : Int) (h : NC m K (namei m t true)) :
    At m (m.chown t u g).1 K := by
  rw [mfs_chown_eq]; exact at_metaOp _ h

theorem at_lchown {m : MFS} {K : Key} {t : Path} (u g : Int) (h : NC m K (namei m t false)) :
    At m (m.lchown t u g).1 K := by
  rw [mfs_lchown_eq]; exact at_metaOp _ h

theorem at_chtimes {m : MFS} {K : Key} {t : Path} (mt : Time) (h : NC m K (namei m t true)) :
    At m (m.chtimes t mt).1 K := by
  rw [mfs_chtimes_eq]; exact at_metaOp _ h

/-! ### creating syscalls -/

theorem at_mkdir {m : MFS} {K : Key} {t : Path} (perm : Nat) (h : NC m K (namei m t false)) :
    At m (m.mkdir t perm).1 K := by
  unfold MFS.mkdir
  rcases h with ⟨n, hn, hr⟩ | ⟨hne, mt, hn, hp, hr⟩ | ⟨e, hr⟩
  · rw [hr]; exact At.refl m K
  · rw [hr]
    simp only [dropLast_append_getLast' hne]
    exact At.set_touch m hne _ (by rw [hn]; simp)
  · rw [hr]; exact At.refl m K

theorem at_symlink {m : MFS} {K : Key} {t : Path} (o : Path) (h : NC m K (namei m t false)) :
    At m (m.symlink o t).1 K := by
  unfold MFS.symlink
  split
  · exact At.refl m K
  rcases h with ⟨n, hn, hr⟩ | ⟨hne, mt, hn, hp, hr⟩ | ⟨e, hr⟩
  · rw [hr]; exact At.refl m K
  · rw [hr]
    simp only [dropLast_append_getLast' hne]
    exact At.set_touch m hne _ (by rw [hn]; simp)
  · rw [hr]; exact At.refl m K

theorem at_openFile {m : MFS} {K : Key} {t : Path} (flag perm : Nat)
    (h : NC m K (namei m t (!(hasFlag flag O_CREATE && hasFlag flag O_EXCL)))) :
    At m (m.openFile t flag perm).1 K := by
  unfold MFS.openFile
  simp only
  rcases h with ⟨n, hn, hr⟩ | ⟨hne, mt, hn, hp, hr⟩ | ⟨e, hr⟩
  · rw [hr]
    simp only
    split
    · exact At.refl m K
    · cases n with
      | dir mt => simp only; split <;> exact At.refl m K
      | link tg mt => exact At.refl m K
      | file c mt =>
        simp only
        split
        · refine ⟨fun j hj _ => set_get_ne m _ hj, ?_, fun _ j hj => set_get_ne m _ hj⟩
          intro hne
          show Stamp _ ((m.set K _).get _)
          rw [set_get_ne m _ (dropLast_ne_self hne)]
          exact Stamp.refl _
        · exact At.refl m K
  · rw [hr]
    simp only
    split
    · exact At.refl m K
    · simp only [dropLast_append_getLast' hne]
      exact At.set_touch m hne _ (by rw [hn]; simp)
  · rw [hr]; exact At.refl m K

/-! ### `Remove` -/

theorem at_remove {m : MFS} {K : Key} {t : Path} (h : NC m K (namei m t false)) :
    At m (m.remove t).1 K := by
  unfold MFS.remove
  rcases h with ⟨n, hn, hr⟩ | ⟨hne, mt, hn, hp, hr⟩ | ⟨e, hr⟩
  · rw [hr]
    simp only
    split
    · exact At.refl m K
    · rename_i hne
      have key : At m ((m.set K none).touchDir (parentKey K)) K :=
        At.set_touch m hne none (by rw [hn]; simp)
      cases n with
      | dir mt =>
        simp only
        split
        · exact At.refl m K
        · exact key
      | file c mt => exact key
      | link tg mt => exact key
  · rw [hr]; exact At.refl m K
  · rw [hr]; exact At.refl m K

/-! ### `RemoveAll`: the subtree -/

structure BelowK (m m' : MFS) (K : Key) : Prop where
  other : ∀ j, ¬ K <+: j → j ≠ K.dropLast → m'.get j = m.get j
  par : K ≠ [] → Stamp (m.get K.dropLast) (m'.get K.dropLast)
  same : (m'.get K).isSome = (m.get K).isSome → ∀ j, ¬ K <+: j → m'.get j = m.get j

theorem BelowK.refl (m : MFS) (K : Key) : BelowK m m K := ⟨fun _ _ _ => rfl, fun _ => Stamp.refl _, fun _ _ _ => rfl⟩

theorem not_prefix_dropLast {K : Key} (hne : K ≠ []) : ¬ K <+: K.dropLast := by
  intro h
  have := h.length_le
  rw [List.length_dropLast] at this
  have := List.length_pos_iff.mpr hne
  omega

theorem belowK_removeAll {m : MFS} {K : Key} {t : Path} (h : NC m K (namei m t false)) :
    BelowK m (m.removeAll t).1 K := by
  unfold MFS.removeAll
  split
  · exact BelowK.refl m K
  split
  · exact BelowK.refl m K
  rcases h with ⟨n, hn, hr⟩ | ⟨hne, mt, hn, hp, hr⟩ | ⟨e, hr⟩
  · rw [hr]
    simp only
    split
    · exact BelowK.refl m K
    · rename_i hne
      refine ⟨?_, ?_, ?_⟩
      · intro j hj hj'
        show ((m.removeSubtree K).touchDir K.dropLast).get j = _
        rw [touchDir_get_ne _ hj', removeSubtree_get_other m hj]
      · intro _
        have := touchDir_stamp (m.removeSubtree K) K.dropLast
        rwa [removeSubtree_get_other m (not_prefix_dropLast hne)] at this
      · intro hs
        exfalso
        have h1 : ((m.removeSubtree K).touchDir (parentKey K)).get K = none := by
          unfold parentKey
          rw [touchDir_get_ne _ (Ne.symm (dropLast_ne_self hne))]
          exact removeSubtree_get_under m List.prefix_rfl
        rw [h1, hn] at hs
        cases hs
  · rw [hr]; exact BelowK.refl m K
  · rw [hr]
    cases e <;> exact BelowK.refl m K

/-! ### `Rename` -/

/-- what a rename whose names resolve to `Ko` and `Kn` does -/
structure Moved (m m' : MFS) (Ko Kn : Key) : Prop where
  ko_ne : Ko ≠ []
  kn_ne : Kn ≠ []
  apart : ¬ Ko <+: Kn
  src : (m.get Ko).isSome
  tgt : ∀ mt, m.get Kn ≠ some (.dir mt)
  other : ∀ j, ¬ Ko <+: j → ¬ Kn <+: j → j ≠ Ko.dropLast → j ≠ Kn.dropLast → m'.get j = m.get j
  stamp : ∀ j, ¬ Ko <+: j → ¬ Kn <+: j → Stamp (m.get j) (m'.get j)

theorem moved_of_move (m : MFS) {Ko Kn : Key} (h1 : Ko ≠ []) (h2 : Kn ≠ []) (h3 : ¬ Ko <+: Kn)
    (h4 : (m.get Ko).isSome) (h5 : ∀ mt, m.get Kn ≠ some (.dir mt)) :
    Moved m (((m.moveSubtree Ko Kn).touchDir (parentKey Ko)).touchDir (parentKey Kn)) Ko Kn := by
  unfold parentKey
  refine ⟨h1, h2, h3, h4, h5, ?_, ?_⟩
  · intro j a b c d
    rw [touchDir_get_ne _ d, touchDir_get_ne _ c, moveSubtree_get_other m b a]
  · intro j a b
    have e0 : (m.moveSubtree Ko Kn).get j = m.get j := moveSubtree_get_other m b a
    have s1 : Stamp (m.get j) (((m.moveSubtree Ko Kn).touchDir Ko.dropLast).get j) := by
      by_cases c : j = Ko.dropLast
      · subst c
        have := touchDir_stamp (m.moveSubtree Ko Kn) Ko.dropLast
        rwa [e0] at this
      · rw [touchDir_get_ne _ c, e0]; exact Stamp.refl _
    refine s1.trans ?_
    by_cases d : j = Kn.dropLast
    · subst d
      exact touchDir_stamp _ _
    · rw [touchDir_get_ne _ d]; exact Stamp.refl _

theorem rename_frame {m : MFS} {Ko Kn : Key} {to tn : Path} (ho : NC m Ko (namei m to false))
    (hn : NC m Kn (namei m tn false)) :
    (m.rename to tn).1 = m ∨ Moved m (m.rename to tn).1 Ko Kn := by
  unfold MFS.rename
  simp only
  rcases hn with ⟨nn, hnn, hrn⟩ | ⟨hnne, mtn, hnn, hpn, hrn⟩ | ⟨en, hrn⟩
  · -- new name found
    rcases ho with ⟨no, hno, hro⟩ | ⟨hone, mto, hno, hpo, hro⟩ | ⟨eo, hro⟩
    · rw [hrn, hro]
      cases nn with
      | dir mt =>
        left
        simp only
        by_cases hc : Ko = Kn ∧ to ≠ tn
        · simp only [hc, and_self, if_true, ne_eq, not_false_eq_true]
        · simp only [hc, if_false]
      | file c mt =>
        simp only
        split
        · left; rfl
        split
        · left; rfl
        split
        · left; rfl
        split
        · left; rfl
        · rename_i a b c d
          right
          have hko : Ko ≠ [] := by
            intro e; apply b; rw [e]; exact List.isPrefixOf_iff_prefix.mpr List.nil_prefix
          have hkn : Kn ≠ [] := by
            intro e; apply c; rw [e]; exact List.isPrefixOf_iff_prefix.mpr List.nil_prefix
          simp only [Node.isDir, Bool.false_eq_true, if_false]
          exact moved_of_move m hko hkn (fun e => b (List.isPrefixOf_iff_prefix.mpr e)) (by rw [hno]; rfl)
            (by rw [hnn]; intro mt e; cases e)
      | link tg mt =>
        simp only
        split
        · left; rfl
        split
        · left; rfl
        split
        · left; rfl
        split
        · left; rfl
        · rename_i a b c d
          right
          have hko : Ko ≠ [] := by
            intro e; apply b; rw [e]; exact List.isPrefixOf_iff_prefix.mpr List.nil_prefix
          have hkn : Kn ≠ [] := by
            intro e; apply c; rw [e]; exact List.isPrefixOf_iff_prefix.mpr List.nil_prefix
          simp only [Node.isDir, Bool.false_eq_true, if_false]
          exact moved_of_move m hko hkn (fun e => b (List.isPrefixOf_iff_prefix.mpr e)) (by rw [hno]; rfl)
            (by rw [hnn]; intro mt e; cases e)
    · rw [hrn, hro]
      left
      cases nn <;> rfl
    · rw [hrn, hro]
      left
      cases nn <;> rfl
  · -- new name missing
    rcases ho with ⟨no, hno, hro⟩ | ⟨hone, mto, hno, hpo, hro⟩ | ⟨eo, hro⟩
    · rw [hrn, hro]
      simp only [dropLast_append_getLast' hnne]
      split
      · left; rfl
      · rename_i b
        right
        have hko : Ko ≠ [] := by
          intro e; apply b; rw [e]; exact List.isPrefixOf_iff_prefix.mpr List.nil_prefix
        exact moved_of_move m hko hnne (fun e => b (List.isPrefixOf_iff_prefix.mpr e)) (by rw [hno]; rfl)
          (by rw [hnn]; intro mt e; cases e)
    · rw [hrn, hro]; left; rfl
    · rw [hrn, hro]; left; rfl
  · rw [hrn]
    left
    rcases ho with ⟨no, hno, hro⟩ | ⟨hone, mto, hno, hpo, hro⟩ | ⟨eo, hro⟩ <;> rw [hro]

/-! ### syscalls that never remove the entry they name -/

theorem keep_set_some (m : MFS) (K : Key) (n : Node) : ((m.set K (some n)).get K).isSome := by
  rw [set_get_self]; rfl

theorem keep_metaOp {m : MFS} {K : Key} {t : Path} {follow : Bool} (f : Node → Node)
    (h : NC m K (namei m t follow)) (hl : (m.get K).isSome) : ((metaOp m t follow f).1.get K).isSome := by
  unfold metaOp
  rcases h with ⟨n, hn, hr⟩ | ⟨hne, mt, hn, hp, hr⟩ | ⟨e, hr⟩
  · rw [hr]; exact keep_set_some _ _ _
  · rw [hr]; exact hl
  · rw [hr]; exact hl

theorem keep_chmod {m : MFS} {K : Key} {t : Path} (mode : Nat) (h : NC m K (namei m t true))
    (hl : (m.get K).isSome) : ((m.chmod t mode).1.get K).isSome := by
  rw [mfs_chmod_eq]; exact keep_metaOp _ h hl

theorem keep_chown {m : MFS} {K : Key} {t : Path} (u g : Int) (h : NC m K (namei m t true))
    (hl : (m.get K).isSome) : ((m.chown t u g).1.get K).isSome := by
  rw [mfs_chown_eq]; exact keep_metaOp _ h hl

theorem keep_lchown {m : MFS} {K : Key} {t : Path} (u g : Int) (h : NC m K (namei m t false))
    (hl : (m.get K).isSome) : ((m.lchown t u g).1.get K).isSome := by
  rw [mfs_lchown_eq]; exact keep_metaOp _ h hl

theorem keep_chtimes {m : MFS} {K : Key} {t : Path} (mt : Time) (h : NC m K (namei m t true))
    (hl : (m.get K).isSome) : ((m.chtimes t mt).1.get K).isSome := by
  rw [mfs_chtimes_eq]; exact keep_metaOp _ h hl

theorem keep_mkdir {m : MFS} {K : Key} {t : Path} (perm : Nat) (h : NC m K (namei m t false))
    (hl : (m.get K).isSome) : ((m.mkdir t perm).1.get K).isSome := by
  unfold MFS.mkdir
  rcases h with ⟨n, hn, hr⟩ | ⟨hne, mt, hn, hp, hr⟩ | ⟨e, hr⟩
  · rw [hr]; exact hl
  · rw [hn] at hl; cases hl
  · rw [hr]; exact hl

theorem keep_symlink {m : MFS} {K : Key} {t : Path} (o : Path) (h : NC m K (namei m t false))
    (hl : (m.get K).isSome) : ((m.symlink o t).1.get K).isSome := by
  unfold MFS.symlink
  split
  · exact hl
  rcases h with ⟨n, hn, hr⟩ | ⟨hne, mt, hn, hp, hr⟩ | ⟨e, hr⟩
  · rw [hr]; exact hl
  · rw [hn] at hl; cases hl
  · rw [hr]; exact hl

theorem keep_openFile {m : MFS} {K : Key} {t : Path} (flag perm : Nat)
    (h : NC m K (namei m t (!(hasFlag flag O_CREATE && hasFlag flag O_EXCL))))
    (hl : (m.get K).isSome) : ((m.openFile t flag perm).1.get K).isSome := by
  unfold MFS.openFile
  simp only
  rcases h with ⟨n, hn, hr⟩ | ⟨hne, mt, hn, hp, hr⟩ | ⟨e, hr⟩
  · rw [hr]
    simp only
    split
    · exact hl
    · cases n with
      | dir mt => simp only; split <;> exact hl
      | link tg mt => exact hl
      | file c mt =>
        simp only
        split
        · exact keep_set_some _ _ _
        · exact hl
  · rw [hn] at hl; cases hl
  · rw [hr]; exact hl

/-- a successful `symlink` stores the given target text at the resolved key, which was absent -/
theorem symlink_ok {m : MFS} {K : Key} {t : Path} (o : Path) (h : NC m K (namei m t false))
    (hr : (m.symlink o t).2 = .ok ()) :
    m.get K = none ∧ ∃ mt, (m.symlink o t).1.get K = some (.link o mt) := by
  unfold MFS.symlink at hr ⊢
  split at hr
  · cases hr
  rename_i ho
  simp only [ho, if_false]
  rcases h with ⟨n, hn, hres⟩ | ⟨hne, mt, hn, hp, hres⟩ | ⟨e, hres⟩
  · rw [hres] at hr; cases hr
  · rw [hres]
    simp only [dropLast_append_getLast' hne]
    refine ⟨hn, ⟨0o777, 0, (inheritGid m K.dropLast).1, .fresh⟩, ?_⟩
    show ((m.set K _).touchDir K.dropLast).get K = _
    rw [touchDir_get_ne _ (Ne.symm (dropLast_ne_self hne)), set_get_self]
  · rw [hres] at hr; cases hr

end D
end BFS
