import Lemmas.NLTx
import Lemmas.InvB
/-!
  Lemmas/NLBInv.lean (copy of Lemmas/LBInv.lean over `NL.Sim`) — the transaction invariant of the symlink-leaves development (`NL.Inv`,
  Lemmas/LInv.lean) strengthened by what the *backup* side looks like on healthy filesystems (empty
  fault plan), the analogue of Lemmas/InvB.lean over the contract `LSim`:
  * `bexact` — every non-root key tracked with a `FileInfo` shows, in the backup view, EXACTLY the node
    the base view showed when the transaction began: regular files (content, 12 mode bits, owner,
    mtime), directories (mode bits, owner; timestamps are erased from both views) and symlinks (the
    target text as `Readlink` through the respective side reports it, the owner; a link's mode and
    timestamp are erased from both views);
  * `bonly`  — every non-root key the backup view holds is tracked with a `FileInfo` (the backup never
    holds anything but copies of tracked originals);
  * `broot`  — the backup root's node is what it was.
  `bexact` subsumes the clause `bdirs` of the link-free `BInv`.

  One fact about the filesystems is needed that the contract `LSim` does not state: a `Symlink` call
  that is refused leaves the disk as it was (`SymErrPure`; for the OS model behind two `PrefixFS`
  layers it is proved in Lemmas/LBOS.lean).  The backup `PrefixFS` refuses the copy of a symlink whose
  relative target climbs out of the backup root (K-escaping-link); the operation then fails, nothing
  is recorded, and by this fact nothing is left behind in the backup.
-/
namespace BFS
namespace NL
open BackupFS

/-- nothing is masked on the backup side (`PrefixFS(loc)`: no hidden keys, no ancestors of hidden
keys); what the success laws `openW_none`, `mkdirAll_ok`, `remove_ok` of `NL.Sim` ask for in the
backup view.  A class, so that the copy of Lemmas/LB*.lean threads the fact silently. -/
class BackupPlain {cfg : Cfg} (S : Sim cfg) : Prop where
  bvis : ∀ k, ¬ S.Hid .backup k
  bpar : ∀ k, ¬ S.Par .backup k

variable {cfg : Cfg} {S : Sim cfg} {v0 : View} {r0 : Option Node}

/-- a refused `Symlink` call changes nothing (either side, any arguments) -/
def SymErrPure (cfg : Cfg) : Prop :=
  ∀ (s : Side) (m : MFS) (t p : Path) (m' : MFS) (e : Err),
    (cfg.side s).call m (.symlink t p) = (m', .error e) → m' = m

/-- the backup-side clauses -/
structure BInv (S : Sim cfg) (v0 : View) (r0 : Option Node) (w : World) : Prop where
  nofault : w.faults = []
  broot : S.view .backup w.fs [] = r0
  bexact : ∀ k i, PKey k → k ≠ [] → TS w k i → S.view .backup w.fs k = v0 k
  bonly : ∀ k, k ≠ [] → S.view .backup w.fs k ≠ none → ∃ i, TS w k i

structure InvB (S : Sim cfg) (v0 : View) (r0 : Option Node) (w : World) : Prop where
  inv : Inv S v0 w
  b : BInv S v0 r0 w

theorem InvB.good {w : World} (h : InvB S v0 r0 w) : S.G w.fs := h.inv.good
theorem InvB.nofault {w : World} (h : InvB S v0 r0 w) : w.faults = [] := h.b.nofault

/-- the backup-side clauses look only at the backup view, the tracked map and the fault plan -/
theorem BInv.of_eq {w w' : World} (h : BInv S v0 r0 w) (hv : S.view .backup w'.fs = S.view .backup w.fs)
    (hi : w'.infos = w.infos) (hf : w'.faults = w.faults) : BInv S v0 r0 w' := by
  refine ⟨hf.trans h.nofault, by rw [hv]; exact h.broot, ?_, ?_⟩
  · intro k i hk hne hts
    rw [hv]
    exact h.bexact k i hk hne (by unfold TS at *; rw [← hi]; exact hts)
  · intro k hne hp
    rw [hv] at hp
    obtain ⟨i, hts⟩ := h.bonly k hne hp
    exact ⟨i, by unfold TS at *; rw [hi]; exact hts⟩

theorem BInv.of_same {w w' : World} (h : BInv S v0 r0 w) (hs : SameFS w w') : BInv S v0 r0 w' :=
  h.of_eq (by rw [hs.fs]) hs.infos hs.faults

/-- a base-side step -/
theorem BInv.of_base_chgL {w w' : World} {K : Key → Prop} (h : BInv S v0 r0 w) (hc : S.ChgL .base K w w') :
    BInv S v0 r0 w' :=
  h.of_eq hc.other hc.infos hc.faults

theorem BInv.of_base_chg {w w' : World} {K : Key → Prop} (h : BInv S v0 r0 w) (hc : S.Chg .base K w w') :
    BInv S v0 r0 w' :=
  h.of_base_chgL hc.toChgL

/-- recording an entry that does not concern the backup: "did not exist", or the root -/
theorem BInv.add_plain {w : World} {q : Path} {x : Option Info} (h : BInv S v0 r0 w)
    (hx : ∀ j i, PKey j → j ≠ [] → q = kp j → x ≠ some i) : BInv S v0 r0 (addInfo w q x) := by
  refine ⟨h.nofault, h.broot, ?_, ?_⟩
  · intro j i hj hne hts
    apply h.bexact j i hj hne
    unfold TS addInfo at hts
    unfold TS
    simp only at hts
    rw [List.lookup_append] at hts
    cases hl : w.infos.lookup (kp j) with
    | some y => rw [hl] at hts; exact hts
    | none =>
      exfalso
      rw [hl] at hts
      by_cases hq : kp j = q
      · rw [← hq] at hts
        simp [List.lookup] at hts
        exact hx j i hj hne hq.symm hts
      · have : (kp j == q) = false := by simpa using hq
        simp [List.lookup, this] at hts
  · intro j hne hp
    obtain ⟨i, hts⟩ := h.bonly j hne hp
    exact ⟨i, hts.add⟩

/-- a backup-side step confined to the untracked key `k`, after which `k` shows the original and is
recorded with an info -/
theorem BInv.add_some {w w' : World} {k : Key} {i : Info} (h : BInv S v0 r0 w) (hk : PKey k) (hne : k ≠ [])
    (hun : w.infos.lookup (kp k) = none) (hc : S.ChgL .backup (· = k) w w')
    (hex : S.view .backup w'.fs k = v0 k) :
    BInv S v0 r0 (addInfo w' (kp k) (some i)) := by
  have hun' : w'.infos.lookup (kp k) = none := by rw [hc.infos]; exact hun
  have hself : TS (addInfo w' (kp k) (some i)) k i := by
    unfold TS addInfo; exact lookup_snoc_self hun'
  refine ⟨hc.faults.trans h.nofault, ?_, ?_, ?_⟩
  · show S.view .backup w'.fs [] = r0
    rw [hc.frame [] (fun e => hne e.symm)]; exact h.broot
  · intro j i' hj hjne hts
    show S.view .backup w'.fs j = v0 j
    by_cases hjk : j = k
    · subst hjk; exact hex
    · rw [hc.frame j hjk]
      apply h.bexact j i' hj hjne
      unfold TS addInfo at hts
      unfold TS
      simp only at hts
      rw [lookup_snoc_ne (fun e => hjk (kp_inj hj hk e)), hc.infos] at hts
      exact hts
  · intro j hjne hp
    by_cases hjk : j = k
    · subst hjk; exact ⟨i, hself⟩
    · have hp' : S.view .backup w.fs j ≠ none := by
        rw [← hc.frame j hjk]; exact hp
      obtain ⟨i', hts⟩ := h.bonly j hjne hp'
      have : TS w' j i' := by unfold TS at *; rw [hc.infos]; exact hts
      exact ⟨i', this.add⟩

/-! ### consequences for a key about to be backed up -/

/-- an untracked key is not in the backup -/
theorem BInv.absent {w : World} {k : Key} (h : BInv S v0 r0 w) (hne : k ≠ [])
    (hun : w.infos.lookup (kp k) = none) : S.view .backup w.fs k = none := by
  apply Classical.byContradiction
  intro hp
  obtain ⟨i, hts⟩ := h.bonly k hne hp
  unfold TS at hts
  rw [hun] at hts; cases hts

/-- the parent of an untracked live key, once tracked, is a directory in the backup -/
theorem InvB.parent_bdir {w : World} {k : Key} (h : InvB S v0 r0 w) (hk : PKey k) (hne : k ≠ [])
    (hun : w.infos.lookup (kp k) = none) (hv : S.view .base w.fs k ≠ none)
    (hpar : Tracked w k.dropLast) : (S.view .backup w.fs).isDirAt k.dropLast := by
  by_cases ha : k.dropLast = []
  · rw [ha]; exact S.root_dir h.good
  · have hpa : PKey k.dropLast := hk.dropLast
    have hv0 : v0 k ≠ none := by rw [← h.inv.frame k hk hun]; exact hv
    obtain ⟨mt, hmt⟩ := h.inv.v0_parent hv0 hne
    rcases tracked_cases w k.dropLast with hu | htn | ⟨ia, htsa⟩
    · exact absurd hu hpar
    · have := h.inv.absent _ hpa htn; rw [this] at hmt; cases hmt
    · exact ⟨mt, by rw [h.b.bexact _ ia hpa ha htsa]; exact hmt⟩

/-- a key tracked with a directory's info is a directory in the backup (the clause `bdirs` of the
link-free `BInv`) -/
theorem InvB.bdirs {w : World} {k : Key} {i : Info} (h : InvB S v0 r0 w) (hk : PKey k) (hne : k ≠ [])
    (hts : TS w k i) (hkind : i.kind = .dir) : (S.view .backup w.fs).isDirAt k := by
  unfold View.isDirAt
  rw [h.b.bexact k i hk hne hts, h.inv.dir_target hk hts hkind]
  exact ⟨_, rfl⟩

/-! ### what the copy helpers leave is the original -/

theorem restoredDir_eq {i : Info} {mt : Meta} (hfor : InfoForL i (.dir mt)) (hfr : mt.mtime = .fresh) :
    restoredDir i = .dir mt := by
  obtain ⟨_, hp, hu, hg, _⟩ := hfor
  cases mt
  simp only [Node.meta] at hp hu hg hfr
  simp [restoredDir, hp, hu, hg, hfr]

theorem restoredFile_eq {i : Info} {c : String} {mt : Meta} (hfor : InfoForL i (.file c mt)) :
    restoredFile c i = .file c mt := by
  obtain ⟨_, hp, hu, hg, ht⟩ := hfor
  have ht := ht rfl
  cases mt
  simp only [Node.meta] at hp hu hg ht
  simp [restoredFile, hp, hu, hg, ht]

/-- a symlink of a view is determined by its target text and its owner -/
theorem link_eq {t : Path} {mt mt' : Meta} (h1 : mt.mtime = .fresh ∧ mt.mode = 0o777)
    (h2 : mt'.mtime = .fresh ∧ mt'.mode = 0o777) (hu : mt'.uid = mt.uid) (hg : mt'.gid = mt.gid) :
    Node.link t mt' = Node.link t mt := by
  cases mt; cases mt'
  simp only at h1 h2 hu hg
  simp [h1.1, h1.2, h2.1, h2.2, hu, hg]

/-! ### advancing -/

structure AdvB (S : Sim cfg) (v0 : View) (r0 : Option Node) (w w' : World) : Prop where
  adv : Adv S v0 w w'
  b : BInv S v0 r0 w'

theorem AdvB.inv {w w' : World} (h : AdvB S v0 r0 w w') : InvB S v0 r0 w' := ⟨h.adv.inv, h.b⟩
theorem AdvB.base {w w' : World} (h : AdvB S v0 r0 w w') : S.view .base w'.fs = S.view .base w.fs := h.adv.base

theorem AdvB.refl {w : World} (h : InvB S v0 r0 w) : AdvB S v0 r0 w w := ⟨Adv.refl h.inv, h.b⟩

theorem AdvB.trans {a b c : World} (h1 : AdvB S v0 r0 a b) (h2 : AdvB S v0 r0 b c) : AdvB S v0 r0 a c :=
  ⟨h1.adv.trans h2.adv, h2.b⟩

theorem AdvB.of_same {w w' : World} (h : InvB S v0 r0 w) (hs : SameFS w w') : AdvB S v0 r0 w w' :=
  ⟨Adv.of_same h.inv hs, h.b.of_same hs⟩

theorem _root_.BFS.Tracked.monoNLB {w w' : World} {k : Key} (h : Tracked w k) (ha : AdvB S v0 r0 w w') :
    Tracked w' k := h.monoNL ha.adv

/-- the strengthened invariant at the beginning of a transaction: nothing tracked, healthy
filesystems, an empty backup -/
theorem InvB.init {w : World} (hg : S.G w.fs) (hinfos : w.infos = []) (hnf : w.faults = [])
    (hempty : ∀ k, k ≠ [] → S.view .backup w.fs k = none) :
    InvB S (S.view .base w.fs) (S.view .backup w.fs []) w := by
  refine ⟨Inv.init hg hinfos ?_, hnf, rfl, ?_, ?_⟩
  · intro k hl
    exfalso
    have hne : k ≠ [] := by
      intro e; subst e
      exact isLinkAt_not_dir (S.root_dir hg) hl
    exact isLinkAt_not_none (hempty k hne) hl
  · intro k i _ _ hts; unfold TS at hts; rw [hinfos] at hts; cases hts
  · intro k hne hp; exact absurd (hempty k hne) hp

end NL
end BFS
