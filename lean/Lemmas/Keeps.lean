import Lemmas.TraceRollback
/-! Computations that leave a projection of the world (e.g. the tracked map) untouched. -/
namespace BFS

/-- `x` never changes `f w`, whether it succeeds or fails -/
def Keeps {α β} (f : World → β) (x : M α) : Prop := ∀ w, f (x w).1 = f w

theorem Keeps.pure {α β} (f : World → β) (a : α) : Keeps f (pure a : M α) := fun _ => rfl
theorem Keeps.throw {α β} (f : World → β) (e : Err) : Keeps f (M.throw e : M α) := fun _ => rfl
theorem Keeps.getW {β} (f : World → β) : Keeps f getW := fun _ => rfl

theorem Keeps.bind {α γ β} {f : World → β} {x : M α} {k : α → M γ} (hx : Keeps f x)
    (hk : ∀ a, Keeps f (k a)) : Keeps f (x >>= k) := by
  intro w
  rw [M.bind_apply]
  have h1 := hx w
  cases hxw : x w with
  | mk w' r =>
    rw [hxw] at h1
    cases r with
    | ok a => simp only; rw [hk a w', h1]
    | error e => exact h1

theorem Keeps.attempt {α β} {f : World → β} {x : M α} (hx : Keeps f x) : Keeps f (attempt x) := by
  intro w; rw [attempt_apply]; exact hx w

theorem Keeps.ite {α β} {f : World → β} {c : Prop} [Decidable c] {x y : M α}
    (hx : Keeps f x) (hy : Keeps f y) : Keeps f (if c then x else y) := by
  split
  · exact hx
  · exact hy

theorem Keeps.whenM {β} {f : World → β} {c : Bool} {x : M Unit} (hx : Keeps f x) : Keeps f (whenM c x) := by
  unfold BFS.whenM; exact Keeps.ite hx (Keeps.pure _ _)

/-- the tracked map is not touched by primitive calls -/
theorem account_infos (sig : Sig) (m : Bool) (w : World) : (account sig m w).1.infos = w.infos := by
  unfold account; rfl

theorem execCall_infos (cfg : Cfg) (side : Side) (c : Call) (w : World) :
    (execCall cfg side c w).1.infos = w.infos := by
  unfold execCall
  cases (cfg.side side).call w.fs c
  rfl

theorem primCall_keeps_infos (cfg : Cfg) (side : Side) (c : Call) :
    Keeps (fun w => w.infos) (primCall cfg side c) := by
  intro w
  unfold primCall
  split
  · split
    · rfl
    · exact execCall_infos cfg side c w
  · have ha := account_infos ⟨side, callMethod c, callArgs c⟩ (callMutating c) w
    cases hacc : account ⟨side, callMethod c, callArgs c⟩ (callMutating c) w with
    | mk w1 faulted =>
      rw [hacc] at ha
      simp only at ha
      cases faulted with
      | true => exact ha
      | false =>
        simp only
        rw [execCall_infos, ha]

theorem primH_keeps_infos (wh : WHandle) (m : String) (ex : List Path) (b : Bool) :
    Keeps (fun w => w.infos) (primH wh m ex b) := by
  intro w
  unfold primH account
  simp only
  split <;> rfl

namespace BackupFS

theorem primInfo_keeps (cfg : Cfg) (side : Side) (c : Call) : Keeps (fun w => w.infos) (primInfo cfg side c) := by
  unfold primInfo
  apply Keeps.bind (primCall_keeps_infos cfg side c); intro r
  cases r <;> first | exact Keeps.pure _ _ | exact Keeps.throw _ _

theorem primStr_keeps (cfg : Cfg) (side : Side) (c : Call) : Keeps (fun w => w.infos) (primStr cfg side c) := by
  unfold primStr
  apply Keeps.bind (primCall_keeps_infos cfg side c); intro r
  cases r <;> first | exact Keeps.pure _ _ | exact Keeps.throw _ _

theorem primUnit_keeps (cfg : Cfg) (side : Side) (c : Call) : Keeps (fun w => w.infos) (primUnit cfg side c) := by
  unfold primUnit
  apply Keeps.bind (primCall_keeps_infos cfg side c); intro r
  exact Keeps.pure _ _

theorem primOpen_keeps (cfg : Cfg) (side : Side) (c : Call) : Keeps (fun w => w.infos) (primOpen cfg side c) := by
  unfold primOpen
  apply Keeps.bind (primCall_keeps_infos cfg side c); intro r
  cases r <;> first | exact Keeps.pure _ _ | exact Keeps.throw _ _

/-- T03.3 the read-only methods leave the set of tracked paths untouched -/
theorem stat_keeps (cfg : Cfg) (n : Path) : Keeps (fun w => w.infos) (stat cfg n) := primInfo_keeps cfg _ _
theorem lstat_keeps (cfg : Cfg) (n : Path) : Keeps (fun w => w.infos) (lstat cfg n) := primInfo_keeps cfg _ _
theorem readlink_keeps (cfg : Cfg) (n : Path) : Keeps (fun w => w.infos) (readlink cfg n) := primStr_keeps cfg _ _

theorem ignorePerm_keeps {x : M Unit} (h : Keeps (fun w => w.infos) x) : Keeps (fun w => w.infos) (ignorePerm x) := by
  unfold ignorePerm
  apply Keeps.bind (Keeps.attempt h); intro r
  cases r with
  | ok u => exact Keeps.pure _ _
  | error e => exact Keeps.ite (Keeps.pure _ _) (Keeps.throw _ _)

theorem wrapped_keeps {α} {x : M α} (h : Keeps (fun w => w.infos) x) : Keeps (fun w => w.infos) (wrapped x) := by
  intro w
  unfold wrapped
  have := h w
  cases hx : x w with
  | mk w' r => rw [hx] at this; cases r <;> exact this

theorem chownTo_keeps (cfg : Cfg) (side : Side) (src : Info) (n : Path) :
    Keeps (fun w => w.infos) (chownTo cfg side src n) := by
  unfold chownTo
  apply Keeps.bind (primInfo_keeps cfg side _); intro old
  exact Keeps.whenM (primUnit_keeps cfg side _)

theorem copyDir_keeps (cfg : Cfg) (side : Side) (name : Path) (info : Info) :
    Keeps (fun w => w.infos) (copyDir cfg side name info) := by
  unfold copyDir
  apply wrapped_keeps
  apply Keeps.ite (Keeps.throw _ _)
  apply Keeps.ite (Keeps.pure _ _)
  apply Keeps.bind (primUnit_keeps cfg side _); intro _
  apply Keeps.bind (primInfo_keeps cfg side _); intro cur
  apply Keeps.bind (Keeps.whenM (primUnit_keeps cfg side _)); intro _
  apply Keeps.bind (Keeps.whenM (ignorePerm_keeps (primUnit_keeps cfg side _))); intro _
  exact ignorePerm_keeps (chownTo_keeps cfg side info name)

theorem hWrite_keeps (cfg : Cfg) (wh : WHandle) (off : Nat) (d : String) :
    Keeps (fun w => w.infos) (hWrite cfg wh off d) := by
  unfold hWrite
  apply Keeps.bind (primH_keeps_infos wh _ _ _); intro _
  intro w
  cases (cfg.side wh.side).hwrite w.fs wh.h off d
  rfl

theorem copyChunks_keeps (cfg : Cfg) (dst src : WHandle) :
    ∀ (off : Nat) (cs : List String), Keeps (fun w => w.infos) (copyChunks cfg dst src off cs)
  | _, [] => by unfold copyChunks hRead; exact primH_keeps_infos _ _ _ _
  | off, c :: cs => by
    unfold copyChunks
    apply Keeps.bind (by unfold hRead; exact primH_keeps_infos _ _ _ _); intro _
    apply Keeps.bind (hWrite_keeps cfg dst off c); intro _
    exact copyChunks_keeps cfg dst src _ cs

theorem peek_keeps (cfg : Cfg) (wh : WHandle) : Keeps (fun w => w.infos) (peek cfg wh) := by
  unfold peek
  apply Keeps.bind (Keeps.getW _); intro w
  split <;> first | exact Keeps.pure _ _ | exact Keeps.throw _ _

theorem writeFile_keeps (cfg : Cfg) (side : Side) (name : Path) (perm : Nat) (src : WHandle) :
    Keeps (fun w => w.infos) (writeFile cfg side name perm src) := by
  unfold writeFile
  apply Keeps.bind (primOpen_keeps cfg side _); intro dst
  apply Keeps.bind (peek_keeps cfg src); intro data
  apply Keeps.bind (Keeps.attempt (copyChunks_keeps cfg dst src 0 _)); intro r
  apply Keeps.bind (Keeps.attempt (by unfold hClose; exact primH_keeps_infos _ _ _ _)); intro c
  cases r with
  | error e => exact Keeps.throw _ _
  | ok u => cases c with
    | error e => exact Keeps.throw _ _
    | ok u' => exact Keeps.pure _ _

/-- T02.3 taking a copy never touches the tracked map: an entry is recorded (by the caller)
only after the copy has succeeded -/
theorem copyFile_keeps (cfg : Cfg) (side : Side) (name : Path) (info : Info) (src : WHandle) :
    Keeps (fun w => w.infos) (copyFile cfg side name info src) := by
  unfold copyFile
  apply wrapped_keeps
  apply Keeps.ite (Keeps.throw _ _)
  apply Keeps.bind (writeFile_keeps cfg side name _ src); intro _
  apply Keeps.bind (ignorePerm_keeps (chownTo_keeps cfg side info name)); intro _
  apply Keeps.bind (primInfo_keeps cfg side _); intro cur
  apply Keeps.bind (Keeps.whenM (primUnit_keeps cfg side _)); intro _
  exact Keeps.whenM (ignorePerm_keeps (primUnit_keeps cfg side _))

theorem copySymlink_keeps (cfg : Cfg) (source target : Side) (name : Path) (info : Info) :
    Keeps (fun w => w.infos) (copySymlink cfg source target name info) := by
  unfold copySymlink
  apply wrapped_keeps
  apply Keeps.ite (Keeps.throw _ _)
  apply Keeps.bind (primStr_keeps cfg source _); intro _
  apply Keeps.bind (primUnit_keeps cfg target _); intro _
  exact ignorePerm_keeps (primUnit_keeps cfg target _)

/-- `setInfoIfNotAlreadySeen`: first write wins — an existing entry is never replaced -/
theorem setInfo_first_write_wins (p q : Path) (i : Option Info) (w : World) (v : Option Info)
    (h : w.infos.lookup q = some v) : ((setInfo p i w).1).infos.lookup q = some v := by
  unfold setInfo modifyW
  simp only
  split
  · exact h
  · simp only
    rw [List.lookup_append, h]
    rfl

end BackupFS
end BFS
