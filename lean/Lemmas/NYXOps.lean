import Lemmas.NYXTrack
/-!
  Lemmas/NYXOps.lean (copy of Lemmas/X2Ops.lean over `N.Sim`) — every covered operation keeps the invariant `InvX` (exactness of the backup
  copies, Lemmas/X2Inv.lean) under EVERY fault plan.  The proofs are those of Lemmas/OpsB.lean (pattern
  `KeptB`, this file is its transcription), with `prepare`/`tryBackup` replaced by their `…X` versions
  (Lemmas/X2Track.lean); every other step is a base-side call, which does not concern the backup view.
-/
namespace BFS.N
open BackupFS

variable {cfg : Cfg} {S : Sim cfg} {v0 : View}

/-- the invariant `InvX` holds again, the fault plan is the same, tracked keys stay tracked -/
structure KeptX (S : Sim cfg) (v0 : View) (w w' : World) : Prop where
  inv : InvX S v0 w'
  faults : w'.faults = w.faults
  tracked : ∀ j, Tracked w j → Tracked w' j
  /-- what was tracked stays tracked with the same entry (first write wins) -/
  mono : ∀ p x, w.infos.lookup p = some x → w'.infos.lookup p = some x

theorem KeptX.refl {w : World} (h : InvX S v0 w) : KeptX S v0 w w := ⟨h, rfl, fun _ h => h, fun _ _ h => h⟩

theorem KeptX.of_adv {w w' : World} (h : AdvX S v0 w w') : KeptX S v0 w w' :=
  ⟨h.inv, h.adv.faults, fun _ hj => hj.mono h.adv, h.adv.mono⟩

theorem KeptX.trans {a b c : World} (h1 : KeptX S v0 a b) (h2 : KeptX S v0 b c) : KeptX S v0 a c :=
  ⟨h2.inv, h2.faults.trans h1.faults, fun j hj => h2.tracked j (h1.tracked j hj),
    fun p x hx => h2.mono p x (h1.mono p x hx)⟩

theorem KeptX.of_same {w w' : World} (h : InvX S v0 w) (hs : SameFS w w') : KeptX S v0 w w' :=
  ⟨⟨h.inv.of_same hs, h.x.of_same hs⟩, hs.faults, fun j hj => by unfold Tracked at *; rw [hs.infos]; exact hj,
    fun p x hx => by rw [hs.infos]; exact hx⟩

theorem KeptX.of_chg {w w' : World} {K : Key → Prop} (h : InvX S v0 w) (hc : S.Chg .base K w w')
    (hK : ∀ j, PKey j → K j → Tracked w j) : KeptX S v0 w w' :=
  ⟨⟨h.inv.base_chg hc hK, h.x.of_base_chg hc⟩, hc.faults, fun j hj => by unfold Tracked at *; rw [hc.infos]; exact hj,
    fun p x hx => by rw [hc.infos]; exact hx⟩

/-- a mutating call on the base whose law confines it to tracked keys -/
theorem sat_base_callX {c : Call} {K : Key → Prop} {w : World} (hinv : InvX S v0 w)
    (hK : ∀ j, PKey j → K j → Tracked w j)
    (hlaw : ∀ m' r, (cfg.side .base).call w.fs c = (m', r) →
      S.G m' ∧ S.view Side.base.other m' = S.view Side.base.other w.fs ∧
        ∀ j, ¬ K j → S.view .base m' j = S.view .base w.fs j) :
    Sat (primUnit cfg .base c) w (fun w' _ => KeptX S v0 w w') := by
  apply (sat_primUnit_chg (S := S) hinv.good hlaw).mono
  intro w' _ hc
  exact KeptX.of_chg hinv hc hK

theorem sat_prep_thenX {α} {name : Path} {k : Key} {w : World} {f : Path → M α}
    {Q : World → Except Err α → Prop} (hinv : InvX S v0 w) (hk : PKey k) (hname : clean name = kp k)
    (herr : ∀ w' e, AdvX S v0 w w' → Q w' (.error e))
    (hnext : ∀ w', AdvX S v0 w w' → (∀ b, b <+: k → Tracked w' b) → Sat (f (kp k)) w' Q) :
    Sat (prepare cfg name >>= f) w Q := by
  apply Sat.bind
  apply (sat_prepareX hinv hk hname).mono
  intro w1 r ⟨hadv, hres⟩
  cases r with
  | error e => exact herr w1 e hadv
  | ok p =>
    obtain ⟨hp, htr⟩ := hres p rfl
    subst hp
    exact hnext w1 hadv htr

/-- the single-path mutators: `prepare`, then one base call confined to the resolved key -/
theorem sat_singleX {name : Path} {k : Key} {w : World} {c : Path → Call} (hinv : InvX S v0 w) (hk : PKey k)
    (hname : clean name = kp k)
    (hlaw : ∀ m, S.G m → ∀ m' r, (cfg.side .base).call m (c (kp k)) = (m', r) →
      S.G m' ∧ S.view Side.base.other m' = S.view Side.base.other m ∧
        ∀ j, j ≠ k → S.view .base m' j = S.view .base m j) :
    Sat (prepare cfg name >>= fun r => primUnit cfg .base (c r)) w (fun w' _ => KeptX S v0 w w') := by
  apply sat_prep_thenX hinv hk hname
  · intro w' e hadv; exact KeptX.of_adv hadv
  · intro w' hadv htr
    apply (sat_base_callX (S := S) (K := (· = k)) hadv.inv
      (fun j _ hj => by subst hj; exact htr j List.prefix_rfl)
      (fun m' r h => by
        obtain ⟨g, o, f⟩ := hlaw w'.fs hadv.inv.good m' r h
        exact ⟨g, o, fun j hj => f j hj⟩)).mono
    intro w'' _ hk'
    exact (KeptX.of_adv hadv).trans hk'

theorem sat_mkdirX {name : Path} {k : Key} {perm : Nat} {w : World} (hinv : InvX S v0 w) (hk : PKey k)
    (hname : clean name = kp k) : Sat (BackupFS.mkdir cfg name perm) w (fun w' _ => KeptX S v0 w w') :=
  sat_singleX (c := fun r => .mkdir r perm) hinv hk hname (fun _ hg _ _ h => S.mkdir_frame hg hk h)

theorem sat_removeX {name : Path} {k : Key} {w : World} (hinv : InvX S v0 w) (hk : PKey k) (hne : k ≠ [])
    (hname : clean name = kp k) : Sat (BackupFS.remove cfg name) w (fun w' _ => KeptX S v0 w w') :=
  sat_singleX (c := fun r => .remove r) hinv hk hname (fun _ hg _ _ h => S.remove_frame hg hk hne h)

theorem sat_chmodX {name : Path} {k : Key} {mode : Nat} {w : World} (hinv : InvX S v0 w) (hk : PKey k)
    (hname : clean name = kp k) : Sat (BackupFS.chmod cfg name mode) w (fun w' _ => KeptX S v0 w w') :=
  sat_singleX (c := fun r => .chmod r mode) hinv hk hname (fun _ hg _ _ h => S.chmod_frame hg hk h)

theorem sat_chownX {name : Path} {k : Key} {u g : Int} {w : World} (hinv : InvX S v0 w) (hk : PKey k)
    (hname : clean name = kp k) : Sat (BackupFS.chown cfg name u g) w (fun w' _ => KeptX S v0 w w') :=
  sat_singleX (c := fun r => .chown r u g) hinv hk hname (fun _ hg _ _ h => S.chown_frame hg hk h)

theorem sat_lchownX {name : Path} {k : Key} {u g : Int} {w : World} (hinv : InvX S v0 w) (hk : PKey k)
    (hname : clean name = kp k) : Sat (BackupFS.lchown cfg name u g) w (fun w' _ => KeptX S v0 w w') :=
  sat_singleX (c := fun r => .lchown r u g) hinv hk hname (fun _ hg _ _ h => S.lchown_frame hg hk h)

theorem sat_chtimesX {name : Path} {k : Key} {a t : Time} {w : World} (hinv : InvX S v0 w) (hk : PKey k)
    (hname : clean name = kp k) : Sat (BackupFS.chtimes cfg name a t) w (fun w' _ => KeptX S v0 w w') :=
  sat_singleX (c := fun r => .chtimes r a t) hinv hk hname (fun _ hg _ _ h => S.chtimes_frame hg hk h)

theorem sat_mkdirAllX {name : Path} {k : Key} {perm : Nat} {w : World} (hinv : InvX S v0 w) (hk : PKey k)
    (hname : clean name = kp k) : Sat (BackupFS.mkdirAll cfg name perm) w (fun w' _ => KeptX S v0 w w') := by
  unfold BackupFS.mkdirAll
  apply sat_prep_thenX hinv hk hname
  · intro w' e hadv; exact KeptX.of_adv hadv
  · intro w' hadv htr
    apply (sat_base_callX (S := S) (K := (· <+: k)) hadv.inv
      (fun j _ hj => htr j hj)
      (fun m' r h => by
        obtain ⟨g, o, f, _, _⟩ := S.mkdirAll_frame hadv.inv.good hk h
        exact ⟨g, o, f⟩)).mono
    intro w'' _ hk'
    exact (KeptX.of_adv hadv).trans hk'

/-! ### Create / OpenFile and the writes through the handle -/

theorem sat_writeClose_roX {wh : WHandle} {d : String} {w : World} (hinv : InvX S v0 w)
    (hro : MFS.accessMode wh.h.flag = 0) :
    Sat (writeClose cfg wh d) w (fun w' _ => KeptX S v0 w w') := by
  unfold writeClose
  apply Sat.bind
  apply Sat.attempt
  have h1 : Sat (BFS.whenM (!d.isEmpty) (hWrite cfg wh 0 d)) w (fun w' _ => SameFS w w') := by
    apply Sat.whenM
    · intro _; exact sat_hWrite_ro S hro
    · intro _; exact SameFS.refl w
  apply h1.mono
  intro w1 r1 hs1
  simp only
  cases r1 with
  | error e =>
    simp only
    apply Sat.bind
    apply Sat.attempt
    apply (sat_hClose (wh := wh) (w := w1)).mono
    intro w2 _ ⟨hs2, _⟩
    apply Sat.pure
    exact KeptX.of_same hinv (hs1.trans hs2)
  | ok u =>
    simp only
    apply Sat.bind
    apply Sat.attempt
    apply (sat_hClose (wh := wh) (w := w1)).mono
    intro w2 r2 ⟨hs2, _⟩
    simp only
    cases r2 <;> exact Sat.pure (KeptX.of_same hinv (hs1.trans hs2))

theorem sat_writeCloseX {wh : WHandle} {k : Key} {d : String} {w : World} (hinv : InvX S v0 w)
    (hside : wh.side = .base) (hH : S.H .base wh.h k) (htr : Tracked w k) :
    Sat (writeClose cfg wh d) w (fun w' _ => KeptX S v0 w w') := by
  unfold writeClose
  apply Sat.bind
  apply Sat.attempt
  have h1 : Sat (BFS.whenM (!d.isEmpty) (hWrite cfg wh 0 d)) w (fun w' _ => KeptX S v0 w w') := by
    apply Sat.whenM
    · intro _
      apply (sat_hWrite_frame (S := S) (k := k) hinv.good (by rw [hside]; exact hH)).mono
      intro w1 _ hc
      rw [hside] at hc
      exact KeptX.of_chg hinv hc (fun j _ hj => by subst hj; exact htr)
    · intro _; exact KeptX.refl hinv
  apply h1.mono
  intro w1 r1 hk1
  simp only
  cases r1 with
  | error e =>
    simp only
    apply Sat.bind
    apply Sat.attempt
    apply (sat_hClose (wh := wh) (w := w1)).mono
    intro w2 _ ⟨hs2, _⟩
    apply Sat.pure
    exact hk1.trans (KeptX.of_same hk1.inv hs2)
  | ok u =>
    simp only
    apply Sat.bind
    apply Sat.attempt
    apply (sat_hClose (wh := wh) (w := w1)).mono
    intro w2 r2 ⟨hs2, _⟩
    simp only
    cases r2 <;> exact Sat.pure (hk1.trans (KeptX.of_same hk1.inv hs2))

/-- opening on the base with a law that confines the call to key `k` -/
theorem sat_base_openX {c : Call} {k : Key} {w : World} (hinv : InvX S v0 w) (htr : Tracked w k)
    (hlaw : ∀ m' r, (cfg.side .base).call w.fs c = (m', r) →
      S.G m' ∧ S.view Side.base.other m' = S.view Side.base.other w.fs ∧
        (∀ j, j ≠ k → S.view .base m' j = S.view .base w.fs j) ∧
        (∀ h, r = .ok (.handle h) → S.H .base h k)) :
    Sat (primOpen cfg .base c) w (fun w' r => KeptX S v0 w w' ∧
      ∀ wh, r = .ok wh → wh.side = .base ∧ S.H .base wh.h k) := by
  unfold primOpen
  apply Sat.bind
  apply Sat.primCall
  · intro _ w1 h1
    exact ⟨KeptX.of_same hinv h1, by intro wh h; cases h⟩
  · intro w1 h1
    cases hc : (cfg.side .base).call w.fs c with
    | mk m' r =>
      obtain ⟨g, o, f, hh⟩ := hlaw m' r hc
      have hchg : S.Chg .base (· = k) w { w1 with fs := m' } := ⟨g, o, fun j hj => f j hj, h1.infos, h1.faults⟩
      have hkept : KeptX S v0 w { w1 with fs := m' } :=
        KeptX.of_chg hinv hchg (fun j _ hj => by subst hj; exact htr)
      simp only
      cases r with
      | error e => exact ⟨hkept, by intro wh h; cases h⟩
      | ok ret =>
        cases ret with
        | handle h =>
          apply Sat.pure
          refine ⟨hkept, ?_⟩
          intro wh hwh
          cases hwh
          exact ⟨rfl, hh h rfl⟩
        | _ => exact ⟨hkept, by intro wh h; cases h⟩

theorem sat_creatX {name : Path} {k : Key} {d : String} {w : World} (hinv : InvX S v0 w) (hk : PKey k)
    (hname : clean name = kp k) :
    Sat (Op.exec cfg (.creat name d)) w (fun w' _ => KeptX S v0 w w') := by
  unfold Op.exec BackupFS.create
  apply Sat.bind
  apply sat_prep_thenX hinv hk hname
  · intro w' e hadv; exact KeptX.of_adv hadv
  · intro w1 hadv htr
    apply (sat_base_openX (S := S) (k := k) hadv.inv (htr k List.prefix_rfl)
      (fun m' r h => by
        obtain ⟨g, o, f, hh⟩ := S.create_frame hadv.inv.good hk h
        exact ⟨g, o, f, fun h' hr => (hh h' hr).1⟩)).mono
    intro w2 r2 ⟨hk2, hwh⟩
    have hk02 := (KeptX.of_adv hadv).trans hk2
    cases r2 with
    | error e => exact hk02
    | ok wh =>
      simp only
      obtain ⟨hside, hH⟩ := hwh wh rfl
      have htr2 : Tracked w2 k := hk2.tracked k (htr k List.prefix_rfl)
      apply Sat.bind
      apply (sat_writeCloseX (S := S) (d := d) hk2.inv hside hH htr2).mono
      intro w3 r3 hk3
      cases r3 with
      | error e => exact hk02.trans hk3
      | ok o => exact Sat.pure (hk02.trans hk3)

theorem sat_writeX {name : Path} {k : Key} {flag perm : Nat} {d : String} {w : World} (hinv : InvX S v0 w)
    (hk : PKey k) (hname : clean name = kp k) :
    Sat (Op.exec cfg (.write name flag perm d)) w (fun w' _ => KeptX S v0 w w') := by
  unfold Op.exec BackupFS.openFile
  apply Sat.bind
  by_cases hro : flag = O_RDONLY
  · -- read-only open: no resolution, no tracking, and the write through the handle is refused
    simp only [hro, if_true]
    unfold primOpen
    apply Sat.bind
    apply (sat_primCall_pure (fun m' r h => S.pure_openRO h)).mono
    intro w1 r ⟨hs1, hr⟩
    have hk1 := KeptX.of_same hinv hs1
    cases hc : (cfg.side .base).call w.fs (.openFile name O_RDONLY 0) with
    | mk m' r' =>
      rw [hc] at hr
      simp only at hr
      rcases hr with hr | ⟨_, hr⟩
      · rw [hr]
        cases r' with
        | error e => exact hk1
        | ok ret =>
          cases ret with
          | handle h =>
            apply Sat.pure
            simp only
            have hfl : h.flag = O_RDONLY := S.openFile_flag hc
            apply Sat.bind
            apply (sat_writeClose_roX (S := S) (d := d) hk1.inv (by rw [hfl]; rfl)).mono
            intro w2 r2 hk2
            cases r2 with
            | error e => exact hk1.trans hk2
            | ok o => exact Sat.pure (hk1.trans hk2)
          | _ => exact hk1
      · rw [hr]; exact hk1
  · simp only [hro, if_false]
    apply sat_prep_thenX hinv hk hname
    · intro w' e hadv; exact KeptX.of_adv hadv
    · intro w1 hadv htr
      apply (sat_base_openX (S := S) (k := k) hadv.inv (htr k List.prefix_rfl)
        (fun m' r h => S.openFile_frame hadv.inv.good hk h)).mono
      intro w2 r2 ⟨hk2, hwh⟩
      have hk02 := (KeptX.of_adv hadv).trans hk2
      cases r2 with
      | error e => exact hk02
      | ok wh =>
        simp only
        obtain ⟨hside, hH⟩ := hwh wh rfl
        have htr2 : Tracked w2 k := hk2.tracked k (htr k List.prefix_rfl)
        apply Sat.bind
        apply (sat_writeCloseX (S := S) (d := d) hk2.inv hside hH htr2).mono
        intro w3 r3 hk3
        cases r3 with
        | error e => exact hk02.trans hk3
        | ok o => exact Sat.pure (hk02.trans hk3)

/-! ### Rename -/

theorem sat_renameX {o n : Path} {ko kn : Key} {w : World} (hinv : InvX S v0 w) (hko : PKey ko) (hkn : PKey kn)
    (ho : clean o = kp ko) (hn : clean n = kp kn)
    (hleaf : ¬ ((S.view .base w.fs).isDirAt ko ∧ (S.view .base w.fs).hasChild ko)) :
    Sat (BackupFS.rename cfg o n) w (fun w' _ => KeptX S v0 w w') := by
  unfold BackupFS.rename
  apply Sat.bind
  apply (sat_realPath (S := S) hinv.good hko ho).mono
  intro w1 r1 ⟨hs1, hres1⟩
  have hadv1 := AdvX.of_same hinv hs1
  cases r1 with
  | error e => exact KeptX.of_adv hadv1
  | ok ro =>
    have := hres1 ro rfl; subst this
    simp only
    apply Sat.bind
    apply (sat_realPath (S := S) hadv1.inv.good hkn hn).mono
    intro w2 r2 ⟨hs2, hres2⟩
    have hadv2 := hadv1.trans (AdvX.of_same hadv1.inv hs2)
    cases r2 with
    | error e => exact KeptX.of_adv hadv2
    | ok rn =>
      have := hres2 rn rfl; subst this
      simp only
      apply Sat.bind
      apply (sat_tryBackupX hadv2.inv hkn).mono
      intro w3 r3 ⟨hadv3', htr3⟩
      have hadv3 := hadv2.trans hadv3'
      cases r3 with
      | error e => exact KeptX.of_adv hadv3
      | ok u3 =>
        simp only
        apply Sat.bind
        apply (sat_tryBackupX hadv3.inv hko).mono
        intro w4 r4 ⟨hadv4', htr4⟩
        have hadv4 := hadv3.trans hadv4'
        cases r4 with
        | error e => exact KeptX.of_adv hadv4
        | ok u4 =>
          simp only
          have hleaf4 : ¬ ((S.view .base w4.fs).isDirAt ko ∧ (S.view .base w4.fs).hasChild ko) := by
            rw [hadv4.base]; exact hleaf
          apply (sat_base_callX (S := S) (K := fun j => j = ko ∨ j = kn) hadv4.inv
            (fun j _ hj => by
              rcases hj with rfl | rfl
              · exact htr4 rfl j List.prefix_rfl
              · exact (htr3 rfl j List.prefix_rfl).monoX hadv4')
            (fun m' r h => by
              obtain ⟨g, ot, f⟩ := S.rename_frame hadv4.inv.good hko hkn h
              refine ⟨g, ot, fun j hj => f hleaf4 j (fun e => hj (Or.inl e)) (fun e => hj (Or.inr e))⟩)).mono
          intro w5 _ hk5
          exact (KeptX.of_adv hadv4).trans hk5

/-! ### RemoveAll: the walk -/

/-- state of the walk of `BackupFS.RemoveAll`: invariant, fault plan, and the collected
directories are non-root key paths -/
structure WalkOKX (S : Sim cfg) (v0 : View) (w0 : World) (w : World) (dirs : List Path) : Prop where
  kept : KeptX S v0 w0 w
  dirs : ∀ p ∈ dirs, ∃ j, PKey j ∧ j ≠ [] ∧ p = kp j

theorem WalkOKX.same {w0 w w' : World} {dirs : List Path} (h : WalkOKX S v0 w0 w dirs) (hs : SameFS w w') :
    WalkOKX S v0 w0 w' dirs :=
  ⟨h.kept.trans (KeptX.of_same h.kept.inv hs), h.dirs⟩

/-- the walk function of `RemoveAll` on a non-root key path -/
theorem removeAllFn_okX {w0 w : World} {dirs : List Path} {j : Key} {info : Option Info} {err : Option Err}
    (h : WalkOKX S v0 w0 w dirs) (hj : PKey j) (hne : j ≠ []) :
    WalkOKX S v0 w0 (removeAllFn cfg w dirs (kp j) info err).1.1 (removeAllFn cfg w dirs (kp j) info err).1.2 := by
  unfold removeAllFn
  cases err with
  | some e => exact h
  | none =>
    cases info with
    | none => exact h
    | some i =>
      simp only
      split
      · refine ⟨h.kept, ?_⟩
        intro p hp
        rcases List.mem_append.mp hp with hp | hp
        · exact h.dirs p hp
        · simp only [List.mem_singleton] at hp
          exact ⟨j, hj, hne, hp⟩
      · have hrem := (sat_removeX (S := S) h.kept.inv hj hne (clean_kp hj)).elim
        cases hr : BackupFS.remove cfg (kp j) w with
        | mk w' r =>
          rw [hr] at hrem
          cases r <;> exact ⟨h.kept.trans hrem, h.dirs⟩

def WalkRecOKX (S : Sim cfg) (v0 : View) (w0 : World) (fuel : Nat) : Prop :=
  ∀ (w : World) (a : List Path) (j : Key) (info : Info), WalkOKX S v0 w0 w a → PKey j → j ≠ [] →
    WalkOKX S v0 w0 (walkRec (worldWalkOps cfg .base) (removeAllFn cfg) fuel w a (kp j) info).1.1
      (walkRec (worldWalkOps cfg .base) (removeAllFn cfg) fuel w a (kp j) info).1.2

def WalkNamesOKX (S : Sim cfg) (v0 : View) (w0 : World) (fuel : Nat) : Prop :=
  ∀ (names : List Name) (w : World) (a : List Path) (j : Key), (∀ n ∈ names, Plain n) →
    WalkOKX S v0 w0 w a → PKey j → j ≠ [] →
    WalkOKX S v0 w0 (walkNames (worldWalkOps cfg .base) (removeAllFn cfg) fuel w a (kp j) names).1.1
      (walkNames (worldWalkOps cfg .base) (removeAllFn cfg) fuel w a (kp j) names).1.2

theorem walkNames_of_recX {w0 : World} {fuel : Nat} (hrec : WalkRecOKX (cfg := cfg) S v0 w0 fuel) :
    WalkNamesOKX (cfg := cfg) S v0 w0 fuel := by
  intro names
  induction names with
  | nil =>
    intro w a j _ h _ _
    rw [walkNames]
    exact h
  | cons n rest ih =>
    intro w a j hpl h hj hne
    have hn : Plain n := hpl n (by simp)
    have hrest : ∀ m ∈ rest, Plain m := fun m hm => hpl m (List.mem_cons_of_mem _ hm)
    have hj' : PKey (j ++ [n]) := hj.snoc hn
    have hne' : j ++ [n] ≠ [] := by simp
    rw [walkNames]
    simp only [join_kp hj hn]
    have hsame := walk_lstat_same (cfg := cfg) S (p := kp (j ++ [n])) (w := w)
    cases hl : (worldWalkOps cfg .base).lstat w (kp (j ++ [n])) with
    | mk w1 r1 =>
      rw [hl] at hsame
      have h1 : WalkOKX S v0 w0 w1 a := h.same hsame
      cases r1 with
      | error e =>
        simp only
        have hfn := removeAllFn_okX (cfg := cfg) (info := none) (err := some e) h1 hj' hne'
        cases hf : removeAllFn cfg w1 a (kp (j ++ [n])) none (some e) with
        | mk sa oe =>
          rw [hf] at hfn
          obtain ⟨s2, a2⟩ := sa
          cases oe with
          | some e' => exact hfn
          | none => exact ih s2 a2 j hrest hfn hj hne
      | ok fi =>
        simp only
        have hr := hrec w1 a (j ++ [n]) fi h1 hj' hne'
        cases hw : walkRec (worldWalkOps cfg .base) (removeAllFn cfg) fuel w1 a (kp (j ++ [n])) fi with
        | mk sa oe =>
          rw [hw] at hr
          obtain ⟨s2, a2⟩ := sa
          cases oe with
          | some e' => exact hr
          | none => exact ih s2 a2 j hrest hr hj hne

theorem walk_okX (w0 : World) : ∀ fuel, WalkRecOKX (cfg := cfg) S v0 w0 fuel ∧ WalkNamesOKX (cfg := cfg) S v0 w0 fuel
  | 0 => by
    have hrec : WalkRecOKX (cfg := cfg) S v0 w0 0 := by
      intro w a j info h _ _
      rw [walkRec]
      exact h
    exact ⟨hrec, walkNames_of_recX hrec⟩
  | fuel + 1 => by
    have ih := (walk_okX w0 fuel).2
    have hrec : WalkRecOKX (cfg := cfg) S v0 w0 (fuel + 1) := by
      intro w a j info h hj hne
      rw [walkRec]
      have hfn := removeAllFn_okX (cfg := cfg) (info := some info) (err := none) h hj hne
      cases hf : removeAllFn cfg w a (kp j) (some info) none with
      | mk sa oe =>
        rw [hf] at hfn
        obtain ⟨s1, a1⟩ := sa
        cases oe with
        | some e => exact hfn
        | none =>
          simp only
          split
          · exact hfn
          · have hrd := walk_readDir (cfg := cfg) (S := S) (j := j) (w := s1) hfn.kept.inv.good hj
            cases hr : (worldWalkOps cfg .base).readDirNames s1 (kp j) with
            | mk s2 r2 =>
              rw [hr] at hrd
              have h2 : WalkOKX S v0 w0 s2 a1 := hfn.same hrd.1
              cases r2 with
              | error e => exact removeAllFn_okX h2 hj hne
              | ok names => exact ih names s2 a1 j (hrd.2 names rfl) h2 hj hne
    exact ⟨hrec, walkNames_of_recX hrec⟩

theorem walkTree_okX {w0 w : World} {k : Key} (h : WalkOKX S v0 w0 w []) (hk : PKey k) (hne : k ≠ []) :
    WalkOKX S v0 w0 (walkTree (worldWalkOps cfg .base) (removeAllFn cfg) 64 w [] (kp k)).1.1
      (walkTree (worldWalkOps cfg .base) (removeAllFn cfg) 64 w [] (kp k)).1.2 := by
  unfold walkTree
  have hsame := walk_lstat_same (cfg := cfg) S (p := kp k) (w := w)
  cases hl : (worldWalkOps cfg .base).lstat w (kp k) with
  | mk w3 r3 =>
    rw [hl] at hsame
    have h3 : WalkOKX S v0 w0 w3 [] := h.same hsame
    cases r3 with
    | error e => exact removeAllFn_okX h3 hk hne
    | ok info => exact (walk_okX (cfg := cfg) (S := S) (v0 := v0) w0 64).1 w3 [] k info h3 hk hne

theorem sat_removeEachX {w0 : World} : ∀ (ds : List Path) (w : World), KeptX S v0 w0 w →
    (∀ p ∈ ds, ∃ j, PKey j ∧ j ≠ [] ∧ p = kp j) →
    Sat (removeEach cfg ds) w (fun w' _ => KeptX S v0 w0 w')
  | [], w, h, _ => by
    unfold removeEach
    exact Sat.pure h
  | d :: ds, w, h, hd => by
    unfold removeEach
    obtain ⟨j, hj, hne, rfl⟩ := hd d (by simp)
    apply Sat.bind
    apply (sat_removeX (S := S) h.inv hj hne (clean_kp hj)).mono
    intro w1 r1 hk1
    cases r1 with
    | error e => exact h.trans hk1
    | ok u => exact sat_removeEachX ds w1 (h.trans hk1) (fun p hp => hd p (List.mem_cons_of_mem _ hp))

theorem sat_removeAllX {name : Path} {k : Key} {w : World} (hinv : InvX S v0 w) (hk : PKey k) (hne : k ≠ [])
    (hname : clean name = kp k) :
    Sat (BackupFS.removeAll cfg name) w (fun w' _ => KeptX S v0 w w') := by
  unfold BackupFS.removeAll
  apply Sat.bind
  apply (sat_realPath (S := S) hinv.good hk hname).mono
  intro w1 r1 ⟨hs1, hres1⟩
  have hk1 := KeptX.of_same hinv hs1
  cases r1 with
  | error e => exact hk1
  | ok r =>
    have := hres1 r rfl; subst this
    simp only
    apply Sat.bind
    apply Sat.attempt
    apply (sat_lstat hk1.inv.good hk).mono
    intro w2 r2 ⟨hs2, _⟩
    have hk2 := hk1.trans (KeptX.of_same hk1.inv hs2)
    simp only
    cases r2 with
    | error e =>
      simp only
      split
      · exact Sat.pure hk2
      · exact Sat.throw hk2
    | ok fi =>
      simp only
      split
      · apply (sat_removeX (S := S) hk2.inv hk hne (clean_kp hk)).mono
        intro w3 _ hk3
        exact hk2.trans hk3
      · apply Sat.bind
        have hwalk : WalkOKX S v0 w w2 [] := ⟨hk2, by intro p hp; cases hp⟩
        have hw : Sat (fun w => match walkTree (worldWalkOps cfg .base) (removeAllFn cfg) 64 w [] (kp k) with
            | ((w', dirs), none) => (w', Except.ok dirs)
            | ((w', _), some e) => (w', Except.error e) : M (List Path)) w2
            (fun w' r => KeptX S v0 w w' ∧ ∀ dirs, r = .ok dirs → ∀ p ∈ dirs, ∃ j, PKey j ∧ j ≠ [] ∧ p = kp j) := by
          have hwt := walkTree_okX (cfg := cfg) hwalk hk hne
          unfold Sat
          show KeptX S v0 w (match walkTree (worldWalkOps cfg .base) (removeAllFn cfg) 64 w2 [] (kp k) with
              | ((w', dirs), none) => (w', Except.ok dirs)
              | ((w', _), some e) => (w', Except.error e)).1 ∧
            ∀ dirs, (match walkTree (worldWalkOps cfg .base) (removeAllFn cfg) 64 w2 [] (kp k) with
              | ((w', dirs), none) => (w', Except.ok dirs)
              | ((w', _), some e) => (w', Except.error e)).2 = .ok dirs → ∀ p ∈ dirs, ∃ j, PKey j ∧ j ≠ [] ∧ p = kp j
          cases hx : walkTree (worldWalkOps cfg .base) (removeAllFn cfg) 64 w2 [] (kp k) with
          | mk sa oe =>
            rw [hx] at hwt
            obtain ⟨s2, a2⟩ := sa
            cases oe with
            | some e' => exact ⟨hwt.kept, by intro d h; cases h⟩
            | none => exact ⟨hwt.kept, by intro d h; cases h; exact hwt.dirs⟩
        apply hw.mono
        intro w3 r3 ⟨hk3, hdirs⟩
        cases r3 with
        | error e => exact hk3
        | ok dirs =>
          simp only
          apply sat_removeEachX (S := S) (sortMost dirs) w3 hk3
          intro p hp
          exact hdirs dirs rfl p ((sortBy_perm _ dirs).mem_iff.mp hp)

/-! ### every covered operation keeps the invariant -/

theorem sat_pure_infoX {c : Call} {w : World} (hinv : InvX S v0 w)
    (hpure : ∀ m' r, (cfg.side .base).call w.fs c = (m', r) → m' = w.fs) :
    Sat (primInfo cfg .base c) w (fun w' _ => KeptX S v0 w w') := by
  unfold primInfo
  apply Sat.bind
  apply (sat_primCall_pure hpure).mono
  intro w1 r ⟨hs, _⟩
  have := KeptX.of_same hinv hs
  cases r with
  | error e => exact this
  | ok ret => cases ret <;> exact this

theorem sat_pure_strX {c : Call} {w : World} (hinv : InvX S v0 w)
    (hpure : ∀ m' r, (cfg.side .base).call w.fs c = (m', r) → m' = w.fs) :
    Sat (primStr cfg .base c) w (fun w' _ => KeptX S v0 w w') := by
  unfold primStr
  apply Sat.bind
  apply (sat_primCall_pure hpure).mono
  intro w1 r ⟨hs, _⟩
  have := KeptX.of_same hinv hs
  cases r with
  | error e => exact this
  | ok ret => cases ret <;> exact this

theorem sat_unit_outX {x : M Unit} {w : World} (h : Sat x w (fun w' _ => KeptX S v0 w w')) :
    Sat (do x; pure OpOut.unit : M OpOut) w (fun w' _ => KeptX S v0 w w') := by
  apply Sat.bind
  apply h.mono
  intro w1 r hk
  cases r with
  | error e => exact hk
  | ok u => exact Sat.pure hk

/-- a covered operation, successful or not, under any fault plan, keeps the invariant `InvX` -/
theorem op_keepsX {w : World} {op : Op} (hinv : InvX S v0 w) (hc : Op.Covered S w op) :
    KeptX S v0 w (op.step cfg w) := by
  have key : Sat (op.exec cfg) w (fun w' _ => KeptX S v0 w w') := by
    cases op with
    | creat p d =>
      obtain ⟨k, hk, hname⟩ := clean_abs hc
      exact sat_creatX hinv hk hname
    | write p f pm d =>
      obtain ⟨k, hk, hname⟩ := clean_abs hc
      exact sat_writeX hinv hk hname
    | mkdir p m =>
      obtain ⟨k, hk, hname⟩ := clean_abs hc
      exact sat_unit_outX (sat_mkdirX hinv hk hname)
    | mkdirAll p m =>
      obtain ⟨k, hk, hname⟩ := clean_abs hc
      exact sat_unit_outX (sat_mkdirAllX hinv hk hname)
    | remove p =>
      obtain ⟨k, hk, hname⟩ := clean_abs hc.1
      have hne : k ≠ [] := by
        intro e; subst e; exact hc.2 hname
      exact sat_unit_outX (sat_removeX hinv hk hne hname)
    | removeAll p =>
      obtain ⟨k, hk, hname⟩ := clean_abs hc.1
      have hne : k ≠ [] := by
        intro e; subst e; exact hc.2 hname
      exact sat_unit_outX (sat_removeAllX hinv hk hne hname)
    | rename o n =>
      obtain ⟨ko, hko, ho⟩ := clean_abs hc.1
      obtain ⟨kn, hkn, hn⟩ := clean_abs hc.2.1
      exact sat_unit_outX (sat_renameX hinv hko hkn ho hn (hc.2.2 ko hko ho))
    | symlink o n => exact absurd hc id
    | chmod p m =>
      obtain ⟨k, hk, hname⟩ := clean_abs hc
      exact sat_unit_outX (sat_chmodX hinv hk hname)
    | chown p u g =>
      obtain ⟨k, hk, hname⟩ := clean_abs hc
      exact sat_unit_outX (sat_chownX hinv hk hname)
    | lchown p u g =>
      obtain ⟨k, hk, hname⟩ := clean_abs hc
      exact sat_unit_outX (sat_lchownX hinv hk hname)
    | chtimes p t =>
      obtain ⟨k, hk, hname⟩ := clean_abs hc
      exact sat_unit_outX (sat_chtimesX hinv hk hname)
    | stat p =>
      unfold Op.exec BackupFS.stat
      apply Sat.bind
      apply (sat_pure_infoX hinv (fun m' r h => S.pure_stat h)).mono
      intro w1 r hk
      cases r with
      | error e => exact hk
      | ok i => exact Sat.pure hk
    | lstat p =>
      unfold Op.exec BackupFS.lstat
      apply Sat.bind
      apply (sat_pure_infoX hinv (fun m' r h => S.pure_lstat h)).mono
      intro w1 r hk
      cases r with
      | error e => exact hk
      | ok i => exact Sat.pure hk
    | readlink p =>
      unfold Op.exec BackupFS.readlink
      apply Sat.bind
      apply (sat_pure_strX hinv (fun m' r h => S.pure_readlink h)).mono
      intro w1 r hk
      cases r with
      | error e => exact hk
      | ok i => exact Sat.pure hk
    | force p => exact absurd hc id
  exact key

/-- after any covered history, under any fault plan, the invariant `InvX` holds -/
theorem history_keepsX : ∀ (ops : List Op) (w : World), InvX S v0 w → CoveredHist cfg S w ops →
    KeptX S v0 w (runOps cfg w ops)
  | [], w, hinv, _ => KeptX.refl hinv
  | op :: rest, w, hinv, hc => by
    have h1 := op_keepsX (cfg := cfg) hinv hc.1
    have h2 := history_keepsX rest (op.step cfg w) h1.inv hc.2
    exact h1.trans h2

end BFS.N
