import Lemmas.PNLayer
/-!
  Lemmas/PNLink.lean — the component form of what `PrefixFS.Readlink` returns (`readlinkPost`) for a
  stored target inside the prefix, and the names a directory handle of the OS model lists.
-/
namespace BFS
namespace PN
open PrefixFS

theorem canon_of_nodd {rest : List Name} (hok : ∀ n ∈ rest, NameOK n ∧ n ≠ dot) (hnd : dotdot ∉ rest) :
    CPath.Canon ⟨true, rest⟩ where
  ok := hok
  lead := by
    unfold DDLeading
    apply List.Pairwise.imp_of_mem (R := fun _ _ => True)
    · intro a b _ hb _ _ e; subst e; exact hnd hb
    · simp [List.pairwise_iff_forall_sublist]
  rootedNoDD := fun _ => hnd

/-- a stored target inside the prefix is returned as `/` + its components below the prefix -/
theorem cleanC_readlinkPost_inside {pre t r : Path} (h : relInside pre (clean t) = some r) :
    ∃ rest, (cleanC t).comps = (cleanC pre).comps ++ rest ∧
      (cleanC pre).rooted = (cleanC t).rooted ∧
      cleanC (readlinkPost pre t) = ⟨true, rest⟩ := by
  have hw := within_of_relInside h
  have hr := relInside_of_within hw
  rw [h] at hr
  have hr' := Option.some.inj hr
  unfold Within WithinC at hw
  rw [cleanC_clean] at hw hr'
  obtain ⟨hroot, hpre, hnd⟩ := hw
  refine ⟨(cleanC t).comps.drop (cleanC pre).comps.length, isPrefixOf_decompose hpre, hroot, ?_⟩
  have hok : ∀ n ∈ (cleanC t).comps.drop (cleanC pre).comps.length, NameOK n ∧ n ≠ dot :=
    fun n hn => (cleanC_canon t).ok n (List.mem_of_mem_drop hn)
  have hpost : readlinkPost pre t = join rootP r := by
    unfold readlinkPost
    simp only [h]
  rw [hpost, hr', join_root_remainder hok hnd]
  exact cleanC_render (canon_of_nodd hok hnd)

/-- a stored target outside the prefix is returned cleaned -/
theorem readlinkPost_outside {pre t : Path} (h : relInside pre (clean t) = none) :
    readlinkPost pre t = clean t ∧ ¬ Within pre (clean t) := by
  refine ⟨?_, ?_⟩
  · unfold readlinkPost
    simp only [h]
  · intro hw
    rw [relInside_of_within hw] at h
    cases h

/-- what `Readlink` returns lies at or below the prefix path itself only if the stored target spelled
the prefix twice (`pre/pre/…`) -/
theorem readlinkPost_within {pre t : Path} (hw : Within pre (readlinkPost pre t)) :
    ∃ rest, (cleanC t).comps = (cleanC pre).comps ++ ((cleanC pre).comps ++ rest) := by
  cases h : relInside pre (clean t) with
  | none =>
    obtain ⟨h1, h2⟩ := readlinkPost_outside h
    rw [h1] at hw
    exact absurd hw h2
  | some r =>
    obtain ⟨rest, h1, _, h3⟩ := cleanC_readlinkPost_inside h
    unfold Within WithinC at hw
    rw [h3] at hw
    obtain ⟨_, hp, _⟩ := hw
    simp only at hp
    refine ⟨rest.drop (cleanC pre).comps.length, ?_⟩
    rw [← isPrefixOf_decompose hp]
    exact h1

/-! ### listings of the OS model -/

/-- every name `Readdirnames` reports through a handle is the name of a live entry directly below
the handle's directory (on ANY disk) -/
theorem os_listing_entries {m : MFS} {h : Handle} {names : List Name}
    (hl : m.hreaddirnames h = .ok names) : ∀ n ∈ names, (m.get (h.key ++ [n])).isSome := by
  intro n hn
  unfold MFS.hreaddirnames at hl
  split at hl
  · cases hl
    rw [sortStrings, BackupFS.mem_sortBy] at hn
    unfold MFS.childNames at hn
    rw [List.mem_eraseDups, List.mem_filterMap] at hn
    obtain ⟨c, hc, hlast⟩ := hn
    rw [List.mem_filter] at hc
    obtain ⟨_, hc⟩ := hc
    simp only [Bool.and_eq_true, decide_eq_true_eq] at hc
    obtain ⟨⟨_, hpar⟩, hsome⟩ := hc
    obtain ⟨ys, rfl⟩ := List.getLast?_eq_some_iff.mp hlast
    unfold MFS.parentKey at hpar
    simp only [List.dropLast_concat] at hpar
    subst hpar
    exact hsome
  · cases hl
  · cases hl

end PN
end BFS
