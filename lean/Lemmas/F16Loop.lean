import Lemmas.F16Res
import Lemmas.Restore
/-!
  Lemmas/F16Loop.lean — the code side of the flat fragment: on the OS model behind the base
  `PrefixFS`, in a world without planned faults, `resolveLoop` run on the chain of `D ++ S` returns
  `kp (resK … D S)` and leaves the disk, the tracked map and the fault plan untouched.
-/
namespace BFS
namespace F16
open MFS BackupFS

/-! ### primitives without faults -/

theorem sameFS_setfs {w w1 : World} (hs : SameFS w w1) : SameFS w { w1 with fs := w.fs } :=
  ⟨rfl, hs.infos, hs.faults⟩

theorem sat_primCall_nf {cfg : Cfg} {s : Side} {c : Call} {w : World} (hnf : w.faults = []) {r : Except Err Ret}
    (hc : (cfg.side s).call w.fs c = (w.fs, r)) :
    Sat (primCall cfg s c) w (fun w1 r1 => SameFS w w1 ∧ r1 = r) := by
  apply Sat.primCall
  · intro hf; exact absurd hnf hf
  · intro w1 hs
    rw [hc]
    exact ⟨sameFS_setfs hs, rfl⟩

theorem sat_primInfo_ok {cfg : Cfg} {s : Side} {c : Call} {w : World} (hnf : w.faults = []) {i : Info}
    (hc : (cfg.side s).call w.fs c = (w.fs, .ok (.info i))) :
    Sat (primInfo cfg s c) w (fun w1 r => SameFS w w1 ∧ r = .ok i) := by
  unfold primInfo
  apply Sat.bind
  apply (sat_primCall_nf hnf hc).mono
  intro w1 r1 ⟨hs, hr⟩
  subst hr
  exact Sat.pure ⟨hs, rfl⟩

theorem sat_primInfo_err {cfg : Cfg} {s : Side} {c : Call} {w : World} (hnf : w.faults = []) {e : Err}
    (hc : (cfg.side s).call w.fs c = (w.fs, .error e)) :
    Sat (primInfo cfg s c) w (fun w1 r => SameFS w w1 ∧ r = .error e) := by
  unfold primInfo
  apply Sat.bind
  apply (sat_primCall_nf hnf hc).mono
  intro w1 r1 ⟨hs, hr⟩
  subst hr
  exact ⟨hs, rfl⟩

theorem sat_primStr_ok {cfg : Cfg} {s : Side} {c : Call} {w : World} (hnf : w.faults = []) {t : Path}
    (hc : (cfg.side s).call w.fs c = (w.fs, .ok (.str t))) :
    Sat (primStr cfg s c) w (fun w1 r => SameFS w w1 ∧ r = .ok t) := by
  unfold primStr
  apply Sat.bind
  apply (sat_primCall_nf hnf hc).mono
  intro w1 r1 ⟨hs, hr⟩
  subst hr
  exact Sat.pure ⟨hs, rfl⟩

/-! ### the chain -/

theorem inits1_getLast {α} : ∀ (S : List α), S ≠ [] → (inits1 S).getLast? = some S
  | [], h => absurd rfl h
  | [x], _ => rfl
  | x :: y :: r, _ => by
    have ih := inits1_getLast (y :: r) (by simp)
    have hne : (inits1 (y :: r)).map (x :: ·) ≠ [] := by simp [inits1]
    rw [inits1]
    cases hm : (inits1 (y :: r)).map (x :: ·) with
    | nil => exact absurd hm hne
    | cons a b =>
      rw [List.getLast?_cons_cons, ← hm, List.getLast?_map, ih]
      rfl

theorem inits1_pkey {S p : List Name} (hS : PKey S) (hp : p ∈ inits1 S) : PKey p ∧ p ≠ [] := by
  obtain ⟨hne, hpre⟩ := mem_inits1_iff.mp hp
  exact ⟨hS.of_prefix hpre, hne⟩

section
variable {bk kk : Key}

theorem osRoot_base : osRoot bk kk .base = bk := rfl

/-- Lstat on the base at `kp k`, no faults, no symlink among the proper ancestors of `bk ++ k` -/
theorem sat_lstat_nf (hr : Roots bk kk) {w : World} (hnf : w.faults = []) (hg : L.OSGoodL bk kk w.fs) {k : Key}
    (hk : PKey k) (hnl : L.NoLinkProper w.fs (bk ++ k)) :
    Sat (primInfo (osCfg bk kk) .base (.lstat (kp k))) w (fun w1 r => SameFS w w1 ∧
      ((∃ n i, w.fs.get (bk ++ k) = some n ∧ r = .ok i ∧ i.kind = n.kind) ∨
       (w.fs.get (bk ++ k) = none ∧ ∃ e, r = .error e ∧ e.isNotFound = true))) := by
  cases hget : w.fs.get (bk ++ k) with
  | some n =>
    have hv : L.osViewL bk kk .base w.fs k = some (L.eraseV (kp bk) n) := by
      rw [L.osViewL_eq, osRoot_base, hget]; rfl
    obtain ⟨i, hc, hfor⟩ := L.os_lstat_some hr hg hk hv
    apply (sat_primInfo_ok hnf hc).mono
    intro w1 r ⟨hs, hr'⟩
    exact ⟨hs, Or.inl ⟨n, i, rfl, hr', by rw [hfor.1, L.eraseV_kind]⟩⟩
  | none =>
    have hv : L.osViewL bk kk .base w.fs k = none := by
      rw [L.osViewL_eq, osRoot_base, hget]; rfl
    have hna : L.NoLinkAnc (L.osViewL bk kk .base w.fs) k := by
      intro a ha hne hl
      obtain ⟨raw, mt, hl⟩ := L.osViewL_isLinkAt hl
      rw [osRoot_base] at hl
      exact hnl (bk ++ a) ((List.prefix_append_right_inj _).mpr ha)
        (fun e => hne (List.append_cancel_left e)) raw mt hl
    obtain ⟨e, hc, he⟩ := L.os_lstat_none hr hg hk hna hv
    apply (sat_primInfo_err hnf hc).mono
    intro w1 r ⟨hs, hr'⟩
    exact ⟨hs, Or.inr ⟨rfl, e, hr', he⟩⟩

/-- Readlink on the base at a symlink -/
theorem sat_readlink_nf (hr : Roots bk kk) {w : World} (hnf : w.faults = []) (hg : L.OSGoodL bk kk w.fs) {k : Key}
    (hk : PKey k) {raw : Path} {mt : Meta} (hget : w.fs.get (bk ++ k) = some (.link raw mt)) :
    Sat (primStr (osCfg bk kk) .base (.readlink (kp k))) w (fun w1 r => SameFS w w1 ∧
      r = .ok (PrefixFS.readlinkPost (kp bk) raw)) := by
  have hv : L.osViewL bk kk .base w.fs k =
      some (.link (PrefixFS.readlinkPost (kp bk) raw) { mt with mtime := .fresh, mode := 0o777 }) := by
    rw [L.osViewL_eq, osRoot_base, hget]; rfl
  exact sat_primStr_ok hnf (L.os_readlink_link hr hg hk hv)

theorem isSymlink_of_kind {i : Info} {n : Node} (h : i.kind = n.kind) : i.isSymlink = n.isLink := by
  unfold Info.isSymlink
  rw [h]
  cases n <;> rfl

/-- **the loop**: on the chain of `D ++ S` (elements `kp (D ++ p)`, `p` a non-empty prefix of `S`),
from a link-free location `D`, the loop returns `kp (resK D S)` -/
theorem sat_loop (hr : Roots bk kk) : ∀ (S : List Name) (D : Key) (fuel : Nat) (last : Path) (fi : Option Info)
    (w : World), w.faults = [] → L.OSGoodL bk kk w.fs → Flat bk w.fs → PKey D → PKey S →
    NoLinkUpto w.fs (bk ++ D) → S.length < fuel →
    Sat (resolveLoop (osCfg bk kk) fuel ((inits1 S).map (fun p => kp (D ++ p))) last fi) w
      (fun w' r => SameFS w w' ∧ ∃ o, r = .ok (if S = [] then last else kp (resK w.fs bk D S), o))
  | [], D, fuel, last, fi, w, _, _, _, _, _, _, hf => by
    obtain ⟨g, rfl⟩ : ∃ g, fuel = g + 1 := ⟨fuel - 1, by simp at hf; omega⟩
    simp only [inits1, List.map_nil]
    unfold resolveLoop
    exact Sat.pure ⟨SameFS.refl w, fi, rfl⟩
  | s :: S, D, fuel, last, fi, w, hnf, hg, hflat, hD, hS, hnl, hf => by
    obtain ⟨g, rfl⟩ : ∃ g, fuel = g + 1 := ⟨fuel - 1, by simp at hf; omega⟩
    have hs : Plain s := hS s (by simp)
    have hS' : PKey S := fun n hn => hS n (List.mem_cons_of_mem _ hn)
    have hk : PKey (D ++ [s]) := hD.snoc hs
    have hlist : (inits1 (s :: S)).map (fun p => kp (D ++ p)) =
        kp (D ++ [s]) :: (inits1 S).map (fun p => kp ((D ++ [s]) ++ p)) := by
      simp only [inits1, List.map_cons, List.map_map]
      congr 1
      apply List.map_congr_left
      intro p _
      simp
    have hlastl : ((inits1 (s :: S)).map (fun p => kp (D ++ p))).getLast? = some (kp (D ++ s :: S)) := by
      rw [List.getLast?_map, inits1_getLast _ (by simp)]; rfl
    rw [hlist] at hlastl ⊢
    have hprop : L.NoLinkProper w.fs (bk ++ (D ++ [s])) := by
      intro p hp hne
      rw [← List.append_assoc] at hp hne
      have := prefix_dropLast hp hne
      rw [List.dropLast_concat] at this
      exact hnl p this
    unfold resolveLoop
    apply Sat.bind
    apply Sat.attempt
    apply (sat_lstat_nf hr hnf hg hk hprop).mono
    intro w1 r ⟨hs1, hres⟩
    have hnf1 : w1.faults = [] := by rw [hs1.faults]; exact hnf
    have hfs1 : w1.fs = w.fs := hs1.fs
    have hg1 : L.OSGoodL bk kk w1.fs := by rw [hfs1]; exact hg
    have hflat1 : Flat bk w1.fs := by rw [hfs1]; exact hflat
    simp only [List.cons_ne_nil, if_false]
    rcases hres with ⟨n, i, hget, rfl, hkind⟩ | ⟨hget, e, rfl, he⟩
    · simp only
      rw [isSymlink_of_kind hkind]
      rw [← List.append_assoc] at hget
      cases n with
      | link raw mt =>
        simp only [Node.isLink, if_true]
        have hok := hflat.target hg hget (by rw [List.append_assoc]; exact List.prefix_append _ _)
        rw [List.append_assoc] at hok hget
        apply Sat.bind
        apply (sat_readlink_nf hr hnf1 hg1 hk (by rw [hfs1]; exact hget)).mono
        intro w2 r2 ⟨hs2, hr2⟩
        subst hr2
        simp only
        have hnf2 : w2.faults = [] := by rw [hs2.faults]; exact hnf1
        have hfs2 : w2.fs = w.fs := hs2.fs.trans hfs1
        rw [target_text hr.pb hk (by simp) hok]
        have hpe := effK_pkey hr.pb hk hok
        have hmap : ((inits1 S).map (fun p => kp ((D ++ [s]) ++ p))).map
            (replacePrefix1 (kp (D ++ [s])) (kp (effK bk (D ++ [s]) raw))) =
            (inits1 S).map (fun p => kp (effK bk (D ++ [s]) raw ++ p)) := by
          rw [List.map_map]
          apply List.map_congr_left
          intro p hp
          obtain ⟨hpp, hpne⟩ := inits1_pkey hS' hp
          exact replacePrefix1_kp (by simp) hpe hpp hpne
        rw [hmap]
        have hnlE : NoLinkUpto w2.fs (bk ++ effK bk (D ++ [s]) raw) := by
          rw [hfs2, effK_spec hok]; exact hok.nolink
        apply (sat_loop hr S _ g (kp (D ++ [s])) (some i) w2 hnf2 (by rw [hfs2]; exact hg)
          (by rw [hfs2]; exact hflat) hpe hS' hnlE (by simp at hf; omega)).mono
        intro w3 r3 ⟨hs3, o, hr3⟩
        refine ⟨(hs1.trans hs2).trans hs3, o, ?_⟩
        rw [hr3, hfs2]
        by_cases hSe : S = []
        · subst hSe; simp [resK_single]
        · rw [← List.append_assoc] at hget
          simp only [hSe, if_false, resK_link hSe hget]
      | dir mt =>
        simp only [Node.isLink, Bool.false_eq_true, if_false]
        have hnl' : NoLinkUpto w1.fs (bk ++ (D ++ [s])) := by
          rw [hfs1, ← List.append_assoc]
          exact noLinkUpto_snoc hnl (by intro t mt' h'; rw [hget] at h'; cases h')
        apply (sat_loop hr S _ g (kp (D ++ [s])) (some i) w1 hnf1 hg1 hflat1 hk hS' hnl'
          (by simp at hf; omega)).mono
        intro w3 r3 ⟨hs3, o, hr3⟩
        refine ⟨hs1.trans hs3, o, ?_⟩
        rw [hr3, hfs1]
        by_cases hSe : S = []
        · subst hSe; simp [resK_single]
        · simp only [hSe, if_false, resK_dir hSe hget]
      | file ct mt =>
        simp only [Node.isLink, Bool.false_eq_true, if_false]
        have hnl' : NoLinkUpto w1.fs (bk ++ (D ++ [s])) := by
          rw [hfs1, ← List.append_assoc]
          exact noLinkUpto_snoc hnl (by intro t mt' h'; rw [hget] at h'; cases h')
        apply (sat_loop hr S _ g (kp (D ++ [s])) (some i) w1 hnf1 hg1 hflat1 hk hS' hnl'
          (by simp at hf; omega)).mono
        intro w3 r3 ⟨hs3, o, hr3⟩
        refine ⟨hs1.trans hs3, o, ?_⟩
        rw [hr3, hfs1]
        by_cases hSe : S = []
        · subst hSe; simp [resK_single]
        · simp only [hSe, if_false, resK_file hget]
          have hdead : ¬ ∃ mt', w.fs.get (bk ++ (D ++ [s])) = some (.dir mt') := by
            rintro ⟨mt', h'⟩
            rw [← List.append_assoc, hget] at h'; cases h'
          rw [resK_dead hg hdead]
          simp
    · simp only [he, if_true]
      apply Sat.pure
      refine ⟨hs1, none, ?_⟩
      rw [hlastl]
      rw [← List.append_assoc] at hget
      simp only [Option.getD_some, resK_none hget]

end

end F16
end BFS
