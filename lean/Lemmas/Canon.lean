import Lemmas.Iter
/-!
  Canonical form of cleaned paths; `clean` is idempotent; `cleanC ∘ render = id` on canonical
  forms; cleaning a concatenation continues on the stack of the first part.
-/
namespace BFS

/-- a component that `cleanStep` pushes and never interprets -/
def Plain (n : Name) : Prop := n ≠ [] ∧ '/' ∉ n ∧ n ≠ dot ∧ n ≠ dotdot

/-- earlier non-`..` implies later non-`..`: the `..` components form a leading run -/
def DDLeading (cs : List Name) : Prop := cs.Pairwise (fun a b => a ≠ dotdot → b ≠ dotdot)

structure CPath.Canon (c : CPath) : Prop where
  ok : ∀ n ∈ c.comps, NameOK n ∧ n ≠ dot
  lead : DDLeading c.comps
  rootedNoDD : c.rooted = true → dotdot ∉ c.comps

/-- stack invariant of the component loop (stack is newest first) -/
structure StackInv (rooted : Bool) (st : List Name) : Prop where
  ok : ∀ n ∈ st, NameOK n ∧ n ≠ dot
  lead : st.Pairwise (fun newer older => older ≠ dotdot → newer ≠ dotdot)
  rootedNoDD : rooted = true → dotdot ∉ st

theorem dot_ne_dotdot : dot ≠ dotdot := by decide

theorem StackInv.nil (r : Bool) : StackInv r [] := ⟨by simp, by simp, by simp⟩

theorem cleanStep_inv {rooted st c} (h : StackInv rooted st) (hc : '/' ∉ c) :
    StackInv rooted (cleanStep rooted st c) := by
  unfold cleanStep
  split
  · exact h
  · split
    · exact h
    · rename_i hne hnd
      split
      · rename_i hdd
        subst hdd
        cases st with
        | nil =>
          simp only
          split
          · exact StackInv.nil _
          · rename_i hr
            refine ⟨?_, by simp, ?_⟩
            · intro n hn; simp at hn; subst hn; exact ⟨nameOK_dotdot, fun e => dot_ne_dotdot e.symm⟩
            · intro hr'; exact absurd hr' hr
        | cons t rest =>
          simp only
          split
          · rename_i ht
            subst ht
            refine ⟨?_, ?_, ?_⟩
            · intro n hn
              rcases List.mem_cons.mp hn with rfl | hn
              · exact ⟨nameOK_dotdot, fun e => dot_ne_dotdot e.symm⟩
              · exact h.ok n hn
            · apply List.pairwise_cons.mpr
              refine ⟨?_, h.lead⟩
              intro a ha hne
              exfalso
              rcases List.mem_cons.mp ha with e | ha
              · exact hne e
              · exact (List.pairwise_cons.mp h.lead).1 a ha hne rfl
            · intro hr
              exact absurd (List.mem_cons_self) (h.rootedNoDD hr)
          · refine ⟨fun n hn => h.ok n (List.mem_cons_of_mem _ hn), (List.pairwise_cons.mp h.lead).2, ?_⟩
            intro hr hm
            exact h.rootedNoDD hr (List.mem_cons_of_mem _ hm)
      · rename_i hndd
        refine ⟨?_, ?_, ?_⟩
        · intro n hn
          rcases List.mem_cons.mp hn with rfl | hn
          · exact ⟨⟨hne, hc⟩, hnd⟩
          · exact h.ok n hn
        · apply List.pairwise_cons.mpr
          exact ⟨fun _ _ _ => hndd, h.lead⟩
        · intro hr hm
          rcases List.mem_cons.mp hm with e | hm
          · exact hndd e.symm
          · exact h.rootedNoDD hr hm

theorem foldl_cleanStep_inv (rooted : Bool) :
    ∀ (ws st : List Name), (∀ w ∈ ws, '/' ∉ w) → StackInv rooted st →
      StackInv rooted (ws.foldl (cleanStep rooted) st)
  | [], _, _, h => h
  | w :: ws, st, hws, h => by
    simp only [List.foldl_cons]
    exact foldl_cleanStep_inv rooted ws _ (fun w' hw' => hws w' (List.mem_cons_of_mem _ hw'))
      (cleanStep_inv h (hws w (by simp)))

theorem StackInv.toCanon {rooted st} (h : StackInv rooted st) :
    CPath.Canon { rooted := rooted, comps := st.reverse } := by
  refine ⟨?_, ?_, ?_⟩
  · intro n hn; exact h.ok n (List.mem_reverse.mp hn)
  · unfold DDLeading
    simp only
    rw [List.pairwise_reverse]
    exact h.lead
  · intro hr hm; exact h.rootedNoDD hr (List.mem_reverse.mp hm)

theorem cleanC_canon (p : Path) : (cleanC p).Canon := by
  unfold cleanC
  exact (foldl_cleanStep_inv _ _ [] (splitSep_sepfree p) (StackInv.nil _)).toCanon

theorem CPath.Canon.nf {c : CPath} (h : c.Canon) : c.NF := fun n hn => (h.ok n hn).1

/-- processing canonical components on top of a stack that holds only their predecessors
pushes every one of them -/
theorem foldl_cleanStep_push (rooted : Bool) :
    ∀ (cs st : List Name),
      (∀ n ∈ cs, NameOK n ∧ n ≠ dot) →
      (∀ n ∈ cs, n = dotdot → rooted = false ∧ ∀ m ∈ st, m = dotdot) →
      DDLeading cs →
      cs.foldl (cleanStep rooted) st = cs.reverse ++ st
  | [], st, _, _, _ => by simp
  | c :: cs, st, hok, hdd, hlead => by
    simp only [List.foldl_cons]
    have hc := hok c (by simp)
    have hstep : cleanStep rooted st c = c :: st := by
      unfold cleanStep
      simp only [hc.1.1, hc.2, if_false]
      split
      · rename_i e
        obtain ⟨hr, hall⟩ := hdd c (by simp) e
        cases st with
        | nil => simp [hr]
        | cons t rest => simp [hall t (by simp)]
      · rfl
    rw [hstep]
    have hlead' := List.pairwise_cons.mp hlead
    rw [foldl_cleanStep_push rooted cs (c :: st)
      (fun n hn => hok n (List.mem_cons_of_mem _ hn)) ?_ hlead'.2]
    · simp
    · intro n hn e
      obtain ⟨hr, hall⟩ := hdd n (List.mem_cons_of_mem _ hn) e
      refine ⟨hr, ?_⟩
      intro m hm
      rcases List.mem_cons.mp hm with rfl | hm
      · -- c precedes n = dotdot, hence c = dotdot
        apply Classical.byContradiction
        intro hne
        exact hlead'.1 n hn hne e
      · exact hall m hm

theorem splitSep_cons_sep (rest : Path) : splitSep ('/' :: rest) = [] :: splitSep rest := by
  simp [splitSep]

/-- `cleanC (render c) = c` for canonical `c` -/
theorem cleanC_render {c : CPath} (h : c.Canon) : cleanC c.render = c := by
  have hnf := h.nf
  unfold CPath.NF at hnf
  rcases c with ⟨rooted, cs⟩
  have hpush : ∀ st, (∀ m ∈ st, m = dotdot) → (st = [] ∨ rooted = false) →
      cs.foldl (cleanStep rooted) st = cs.reverse ++ st := by
    intro st hst hr
    apply foldl_cleanStep_push rooted cs st h.ok ?_ h.lead
    intro n hn e
    refine ⟨?_, hst⟩
    cases hrt : rooted with
    | false => rfl
    | true => exact absurd (e ▸ hn) (h.rootedNoDD hrt)
  cases rooted with
  | true =>
    simp only [CPath.render, if_true]
    unfold cleanC
    simp only [isRooted, decide_true, splitSep_cons_sep, List.foldl_cons]
    have h1 : cleanStep true [] [] = [] := by simp [cleanStep]
    rw [h1]
    by_cases hcs : cs = []
    · subst hcs; simp [joinSep, splitSep, cleanStep]
    · rw [splitSep_joinSep cs hcs hnf, hpush [] (by simp) (Or.inl rfl)]
      simp
  | false =>
    by_cases hcs : cs = []
    · subst hcs
      decide
    · simp only [CPath.render, hcs, if_false, Bool.false_eq_true]
      unfold cleanC
      rw [isRooted_joinSep hnf, splitSep_joinSep cs hcs hnf]
      simp only
      rw [hpush [] (by simp) (Or.inl rfl)]
      simp

theorem clean_idempotent (p : Path) : clean (clean p) = clean p := by
  unfold clean
  rw [cleanC_render (cleanC_canon p)]

theorem isClean_clean (p : Path) : IsClean (clean p) := clean_idempotent p

theorem cleanC_clean (p : Path) : cleanC (clean p) = cleanC p := cleanC_render (cleanC_canon p)

end BFS
