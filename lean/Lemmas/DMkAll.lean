import Lemmas.DWF
/-!
  Lemmas/DMkAll.lean — exact frame of `os.MkdirAll` on a disk without symlinks on the way: new
  directories along the chain of the key, the parent of the topmost new one stamped.
-/
namespace BFS
namespace D
open MFS

/-- `m'` is `m` plus new entries at absent prefixes of `K`; a directory in which one was created is
stamped -/
def MkAll (m m' : MFS) (K : Key) : Prop :=
  ∀ j, m'.get j = m.get j ∨ (j <+: K ∧ m.get j = none) ∨
    (Stamp (m.get j) (m'.get j) ∧ ∃ c, j ++ [c] <+: K ∧ m.get (j ++ [c]) = none)

theorem MkAll.refl (m : MFS) (K : Key) : MkAll m m K := fun _ => Or.inl rfl

theorem MkAll.mono {m m' : MFS} {K K' : Key} (h : MkAll m m' K) (hp : K <+: K') : MkAll m m' K' := by
  intro j
  rcases h j with h | ⟨a, b⟩ | ⟨a, c, b, d⟩
  · exact Or.inl h
  · exact Or.inr (Or.inl ⟨a.trans hp, b⟩)
  · exact Or.inr (Or.inr ⟨a, c, b.trans hp, d⟩)

theorem mkdirAllTail_state (m1 : MFS) (perm : Nat) (t : Path) :
    (mkdirAllTail m1 perm t).1 = (m1.mkdir t perm).1 := by
  unfold mkdirAllTail
  cases h : m1.mkdir t perm with
  | mk m2 r2 =>
    cases r2 with
    | ok u => rfl
    | error e =>
      simp only
      cases lstat m2 t with
      | error e' => rfl
      | ok i => simp only; split <;> rfl

theorem MkAll.step {m m1 m' : MFS} {K : Key} (hne : K ≠ []) (hnone : m.get K = none)
    (h1 : MkAll m m1 K.dropLast) (h2 : At m1 m' K) : MkAll m m' K := by
  intro j
  by_cases hjK : j = K
  · subst hjK
    exact Or.inr (Or.inl ⟨List.prefix_rfl, hnone⟩)
  by_cases hjP : j = K.dropLast
  · subst hjP
    have hs := h2.par hne
    rcases h1 K.dropLast with h | ⟨a, b⟩ | ⟨a, c, b, d⟩
    · right; right
      refine ⟨h ▸ hs, K.getLast hne, ?_, ?_⟩
      · rw [dropLast_append_getLast' hne]; exact List.prefix_rfl
      · rw [dropLast_append_getLast' hne]; exact hnone
    · exact Or.inr (Or.inl ⟨a.trans (dropLast_prefix K), b⟩)
    · exact Or.inr (Or.inr ⟨a.trans hs, c, b.trans (dropLast_prefix K), d⟩)
  · have he := h2.other j hjK hjP
    rcases h1 j with h | ⟨a, b⟩ | ⟨a, c, b, d⟩
    · exact Or.inl (he.trans h)
    · exact Or.inr (Or.inl ⟨a.trans (dropLast_prefix K), b⟩)
    · exact Or.inr (Or.inr ⟨he ▸ a, c, b.trans (dropLast_prefix K), d⟩)

theorem WFB.noLinkUpto_comparable {pk : Key} {m : MFS} (hg : WFB pk m) {K : Key} (hc : pk <+: K ∨ K <+: pk) :
    NoLinkUpto m K := by
  intro p hp t mt
  rcases hc with hc | hc
  · rcases List.prefix_or_prefix_of_prefix hp hc with h | h
    · exact hg.nolink p t mt (Or.inr h)
    · exact hg.nolink p t mt (Or.inl h)
  · exact hg.nolink p t mt (Or.inr (hp.trans hc))

theorem comparable_dropLast {pk K : Key} (hc : pk <+: K ∨ K <+: pk) : pk <+: K.dropLast ∨ K.dropLast <+: pk := by
  rcases hc with hc | hc
  · by_cases he : pk = K
    · right; rw [he]; exact dropLast_prefix K
    · left; exact prefix_dropLast hc he
  · right; exact (dropLast_prefix K).trans hc

theorem mkdirAll_frame {pk : Key} (perm : Nat) :
    ∀ (fuel : Nat) (K : Key) (t : Path) (m m' : MFS) (r : Except Err Unit),
      WFB pk m → PKey K → (pk <+: K ∨ K <+: pk) → TextOf t K →
      m.mkdirAll perm fuel t = (m', r) → WFB pk m' ∧ MkAll m m' K := by
  intro fuel
  induction fuel with
  | zero =>
    intro K t m m' r hg _ _ _ h
    simp only [MFS.mkdirAll] at h
    obtain ⟨rfl, _⟩ := Prod.mk.inj h
    exact ⟨hg, MkAll.refl _ _⟩
  | succ fuel ih =>
    intro K t m m' r hg hK hc ht h
    have hN := hg.resolve hK (hg.noLinkUpto_comparable hc) ht true
    cases hst : m.stat t with
    | ok i =>
      rw [mkdirAll_succ_ok m perm fuel t hst] at h
      split at h <;> (obtain ⟨rfl, _⟩ := Prod.mk.inj h; exact ⟨hg, MkAll.refl _ _⟩)
    | error e0 =>
      have hn : m.get K = none := by
        rcases hN with ⟨n, hn, _, hr⟩ | ⟨_, mt, hn, _, hr⟩ | ⟨e, _, hn, _, hr, _⟩
        · unfold MFS.stat at hst; rw [hr] at hst; cases hst
        · exact hn
        · exact hn
      have hne : K ≠ [] := by
        intro e
        obtain ⟨mt, hr⟩ := hg.root
        rw [e, hr] at hn
        cases hn
      have hpt := text_parent hK hne ht
      have hpl := parentText_length K
      have htp : TextOf (parentText K) K.dropLast := parentText_text
      rw [mkdirAll_succ_err m perm fuel t hst, hpt] at h
      simp only [hpl, if_true] at h
      cases hrec : m.mkdirAll perm fuel (parentText K) with
      | mk m1 r1 =>
        obtain ⟨i1, i2⟩ := ih K.dropLast _ m m1 r1 hg hK.dropLast (comparable_dropLast hc) htp hrec
        rw [hrec] at h
        cases r1 with
        | error e =>
          simp only at h
          obtain ⟨rfl, _⟩ := Prod.mk.inj h
          exact ⟨i1, i2.mono (dropLast_prefix K)⟩
        | ok u =>
          simp only at h
          have hN1 := i1.resolve hK (i1.noLinkUpto_comparable hc) ht false
          have hm' : m' = (m1.mkdir t perm).1 := by
            rw [← mkdirAllTail_state, h]
          rw [hm']
          exact ⟨i1.mkdir_wf hK perm hN1, MkAll.step hne hn i2 (at_mkdir perm (NC.of_case hN1))⟩

end D
end BFS
