import Lemmas.LBRestore
import Lemmas.LSimOS
/-!
  Lemmas/LBOS.lean — the one fact about the filesystems that the backup-side invariant `L.InvB` needs
  beyond the contract `LSim`, for the OS model behind two `PrefixFS` layers: a `Symlink` call that
  returns an error leaves the disk exactly as it was (`L.SymErrPure`).  Either `PrefixFS` refuses before
  calling the OS (a relative target that climbs out of the prefix: finding K-escaping-link), or the OS
  call fails (`ENOENT` for an empty target, a name-resolution error, `EEXIST`) — in every case before
  anything is written.
-/
namespace BFS
namespace L
open MFS

/-- `symlink(2)` in the OS model: an error means nothing was written -/
theorem mfs_symlink_err {m m' : MFS} {o n : Path} {e : Err} (h : m.symlink o n = (m', .error e)) : m' = m := by
  unfold MFS.symlink at h
  split at h
  · cases h; rfl
  · split at h
    · cases h; rfl
    · cases h; rfl
    · cases h

/-- through any `PrefixFS` over the OS filesystem a refused `Symlink` changes nothing -/
theorem prefixFS_symlink_err (pre : Path) {m m' : MFS} {t p : Path} {e : Err}
    (h : (prefixFS pre osfs).call m (.symlink t p) = (m', .error e)) : m' = m := by
  rw [prefixFS_call] at h
  cases htr : PrefixFS.translate (PrefixFS.mk pre) (.symlink t p) with
  | error e' =>
    rw [htr] at h
    cases h; rfl
  | ok c' =>
    rw [htr] at h
    simp only at h
    -- the translated call is a `Symlink` again
    have hc : ∃ o' n', c' = .symlink o' n' := by
      simp only [PrefixFS.translate, bind, Except.bind, pure, Except.pure] at htr
      cases hpp : PrefixFS.prefixPath (PrefixFS.mk pre) p with
      | error e1 => rw [hpp] at htr; cases htr
      | ok np =>
        rw [hpp] at htr
        simp only at htr
        split at htr
        · cases hpo : PrefixFS.prefixPath (PrefixFS.mk pre) t with
          | error e2 => rw [hpo] at htr; cases htr
          | ok op => rw [hpo] at htr; cases htr; exact ⟨_, _, rfl⟩
        · split at htr
          · cases htr
          · cases htr; exact ⟨_, _, rfl⟩
    obtain ⟨o', n', rfl⟩ := hc
    have hos : osCall m (.symlink o' n') = liftU (m.symlink o' n') := rfl
    rw [hos] at h
    cases hs : m.symlink o' n' with
    | mk m1 r1 =>
      rw [hs] at h
      cases r1 with
      | ok u => simp [liftU, Except.map] at h
      | error e1 =>
        simp only [liftU, Except.map, Prod.mk.injEq] at h
        rw [← h.1]
        exact mfs_symlink_err hs

theorem osSymErrPure (bk kk : Key) : SymErrPure (osCfg bk kk) := by
  intro s m t p m' e h
  rw [side_eq] at h
  exact prefixFS_symlink_err _ h

end L
end BFS
