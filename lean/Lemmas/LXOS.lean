import Lemmas.LXOps
import Lemmas.LBOS
/-!
  Lemmas/LXOS.lean — the one fact about the filesystems that the exactness invariant `L.InvX` needs
  beyond the contract `LSim`, for the OS model behind two `PrefixFS` layers: `MkdirAll` returns no
  value (`L.MkdirAllUnit`), so a `MkdirAll` that "returns ok" is one the contract's law
  `mkdirAll_frame` speaks about (`r = .ok .unit → the key is a directory`).
-/
namespace BFS
namespace L

theorem prefixFS_mkdirAll_unit (pre : Path) {m m' : MFS} {p : Path} {perm : Nat} {ret : Ret}
    (h : (prefixFS pre osfs).call m (.mkdirAll p perm) = (m', .ok ret)) : ret = .unit := by
  rw [prefixFS_call] at h
  cases htr : PrefixFS.translate (PrefixFS.mk pre) (.mkdirAll p perm) with
  | error e' =>
    rw [htr] at h
    cases h
  | ok c' =>
    rw [htr] at h
    simp only at h
    have hc : ∃ n', c' = .mkdirAll n' perm := by
      simp only [PrefixFS.translate, bind, Except.bind, pure, Except.pure] at htr
      cases hpp : PrefixFS.prefixPath (PrefixFS.mk pre) p with
      | error e1 => rw [hpp] at htr; cases htr
      | ok np => rw [hpp] at htr; cases htr; exact ⟨_, rfl⟩
    obtain ⟨n', rfl⟩ := hc
    have hos : osCall m (.mkdirAll n' perm) = liftU (m.mkdirAll perm (n'.length + 2) n') := rfl
    rw [hos] at h
    cases hs : m.mkdirAll perm (n'.length + 2) n' with
    | mk m1 r1 =>
      rw [hs] at h
      cases r1 with
      | error e1 => simp [liftU, Except.map] at h
      | ok u =>
        simp only [liftU, Except.map, Prod.mk.injEq, Except.ok.injEq] at h
        rw [← h.2]
        rfl

theorem osMkdirAllUnit (bk kk : Key) : MkdirAllUnit (osCfg bk kk) := by
  intro s m p perm m' ret h
  rw [side_eq] at h
  exact prefixFS_mkdirAll_unit _ h

end L
end BFS
