import Lemmas.TNRA2
import Lemmas.TRA3
/-!
  Lemmas/TNRA3.lean — `RemoveAll` in the nested layering (C03), part 3 (`Lemmas/TRA3.lean` for
  `nestedCfg`): `BackupFS.RemoveAll` of a `Clear` key (neither at/below the location nor one of its
  ancestors) against `HiddenFS.RemoveAll` of the nested base on the same disk, case by case on what
  the name denotes in the base view:

  * nothing, no regular file above it: both return nil and change nothing;
  * nothing, a regular file above it (ENOTDIR): BackupFS returns nil, `HiddenFS.RemoveAll` passes the
    ENOTDIR of its `Lstat` on — the exception already present in the disjoint layering;
  * a regular file: one `Remove` on both sides;
  * a directory whose subtree fits the depth bound of the model's `Walk` (64): the two walks run in
    lock step (`Lemmas/TNRA2.lean`); the direct one succeeds by
    `Props.C15.removeAll_transparent_linkfree_partial` (nothing hidden is related to the argument).
-/
namespace BFS.N
open BackupFS MFS HiddenFS

section
variable {bk hk dd : Key}

/-- `Lstat` through the inner filesystem of a key that shows nothing: ENOTDIR below a regular file,
ENOENT otherwise -/
theorem inner_lstat_absent {m : MFS} (h : NRoots bk hk dd) (hg : OSGood bk dd m) {k : Key} (hk' : PKey k)
    (hv : osView bk dd .base m k = none) :
    (FileAnc (osView bk dd .base m) k → (inner bk dd).call m (.lstat (kp k)) = (m, .error .notDir)) ∧
    (¬ FileAnc (osView bk dd .base m) k → (inner bk dd).call m (.lstat (kp k)) = (m, .error .notExist)) := by
  have e1 := side_lstat (m := m) .base h.r1 hk'
  have h0 : m.get (bk ++ k) = none := osView_none hv
  constructor
  · intro hfa
    show ((osCfg bk dd).side .base).call m _ = _
    rw [e1]
    have : m.lstat (kp (osRoot bk dd .base ++ k)) = .error .notDir := by
      unfold MFS.lstat
      rw [show osRoot bk dd .base = bk from rfl, namei_fileAnc h.r1 hg hk' hfa (TextOf.kp _) false]
    rw [this]; rfl
  · intro hnfa
    show ((osCfg bk dd).side .base).call m _ = _
    rw [e1]
    have : m.lstat (kp (osRoot bk dd .base ++ k)) = .error .notExist := by
      unfold MFS.lstat
      rw [show osRoot bk dd .base = bk from rfl]
      rcases namei_cases hg (h.pb.append hk') (hg.noLinkUpto .base k) (TextOf.kp _) false with
        ⟨n, hn, _, _⟩ | ⟨_, _, _, _, hres⟩ | ⟨e, _, _, _, hres, _⟩
      · rw [h0] at hn; cases hn
      · rw [hres]
      · have := namei_err_notExist h.r1 hg hk' hnfa hres
        subst this
        rw [hres]
    rw [this]; rfl

/-- the subtree of `k` fits the depth bound of the model's `Walk` -/
def DepthOK (bk hk : Key) (m : MFS) (k : Key) : Prop :=
  ∀ j, k <+: j → nview bk hk .base m j ≠ none → j.length < k.length + 64

/-- the `RemoveAll` exception: BackupFS returns nil, the direct `RemoveAll` ENOTDIR, nothing changes -/
def RemoveAllENOTDIR (bk hk dd : Key) (w : World) (k : Key) (w' : World) (r : Except Err OpOut)
    (d : MFS × Except Err DOut) : Prop :=
  FileAnc (nview bk hk .base w.fs) k ∧ (∃ a, r = .ok a ∧ a.data = .unit) ∧ d.2 = .error .notDir ∧
    NTwin bk hk dd w'.fs d.1 ∧ d.1 = w.fs

theorem directUnit_removeAll (m : MFS) {name : Path} {k : Key} (hnn : name ≠ []) (hname : clean name = kp k) :
    directUnit (nbase bk hk) m (.removeAll name) =
      ((hiddenRemoveAll (nhs hk) (inner bk dd) 64 m (kp k)).1,
       (hiddenRemoveAll (nhs hk) (inner bk dd) 64 m (kp k)).2.map (fun _ => DOut.unit)) := by
  have hrm : rmName name = kp k := by
    unfold rmName
    rw [if_neg hnn, hname]
  have hc : (nbase bk hk).call m (.removeAll name) =
      liftU (hiddenRemoveAll (nhs hk) (inner bk dd) 64 m (kp k)) := by
    rw [← hrm]; rfl
  refine Prod.ext ?_ ?_
  · rw [directUnit_fst, hc]; rfl
  · rw [directUnit_snd, hc]
    show Except.map _ (Except.map _ _) = _
    cases (hiddenRemoveAll (nhs hk) (inner bk dd) 64 m (kp k)).2 <;> rfl

variable (h : NRoots bk hk dd) {v0 : View} {r0 : Option Node} {w : World} {name : Path} {k : Key}
include h

theorem removeAll_transpN (hinv : InvB (nSim bk hk dd h) v0 r0 w) (hk' : PKey k) (hne : k ≠ [])
    (hc : Clear hk k) (hnn : name ≠ []) (hname : clean name = kp k) (hdepth : DepthOK bk hk w.fs k) :
    Sat (Op.exec (nestedCfg bk hk) (.removeAll name)) w (fun w' r =>
      NTransp bk hk dd True w' r (Op.direct (nbase bk hk) w.fs (.removeAll name)) ∨
      RemoveAllENOTDIR bk hk dd w k w' r (Op.direct (nbase bk hk) w.fs (.removeAll name))) := by
  show Sat _ w (fun w' r => NTransp bk hk dd True w' r (directUnit (nbase bk hk) w.fs (.removeAll name)) ∨
    RemoveAllENOTDIR bk hk dd w k w' r (directUnit (nbase bk hk) w.fs (.removeAll name)))
  rw [directUnit_removeAll (dd := dd) w.fs hnn hname]
  have hg := hinv.good
  have hvis : ¬ hk <+: k := hc.1
  have hgv : hguard (nhs hk) (kp k) .hiddenNotExist = .ok () := hguard_vis h hk' hvis _
  unfold Op.exec BackupFS.removeAll
  apply Sat.bind
  apply Sat.bind
  apply ((sat_realPath (S := nSim bk hk dd h) hinv.good hk' hname).and
    (sat_realPath_ok (S := nSim bk hk dd h) hinv.good hinv.nofault hk' hname)).mono
  intro w1 r1 ⟨⟨hs1, hres1⟩, hok1⟩
  obtain ⟨rp, hrp⟩ := hok1
  subst hrp
  have := hres1 rp rfl; subst this
  simp only
  have hinv1 := (AdvB.of_same hinv hs1).inv
  apply Sat.bind
  apply Sat.attempt
  apply (sat_lstat (S := nSim bk hk dd h) (s := .base) hinv1.good hk').mono
  intro w2 r2 ⟨hs2, hcase⟩
  have hs12 := hs1.trans hs2
  have hinv2 := (AdvB.of_same hinv hs12).inv
  have htw2 : NTwin bk hk dd w2.fs w.fs := by rw [hs12.fs]; exact NTwin.refl hg
  simp only
  rcases hcase with ⟨n, i, hv, rfl, hfor⟩ | ⟨hv, e, rfl, hnfd⟩ | ⟨_, hf⟩
  · -- the name denotes something
    have hv' : nview bk hk .base w.fs k = some n := by
      have : (nSim bk hk dd h).view .base w1.fs k = some n := hv
      rw [hs1.fs] at this; exact this
    have hvin : osView bk dd .base w.fs k = some n := (nview_base_some (dd := dd) hv').2
    obtain ⟨iF, hiF, hforF⟩ := (R h).lstat_some (s := .base) hg.os hk' hvin
    have hiF' : (inner bk dd).call w.fs (.lstat (kp k)) = (w.fs, .ok (.info iF)) := hiF
    have hdF : iF.isDir = i.isDir := by rw [infoFor_isDir hforF, infoFor_isDir hfor]
    have hWR : WR h v0 r0 w.fs.umask w2 w.fs [] := ⟨hinv2, htw2, rfl, by intro p hp; cases hp⟩
    simp only
    cases hisd : i.isDir with
    | false =>
      -- a regular file: one `Remove` on both sides
      simp only [Bool.not_false, if_true]
      have hFeq : hiddenRemoveAll (nhs hk) (inner bk dd) 64 w.fs (kp k) =
          (match (inner bk dd).call w.fs (.remove (kp k)) with
           | (s2, .error e) => (s2, .error e)
           | (s2, .ok _) => (s2, .ok ())) := by
        unfold hiddenRemoveAll
        rw [hgv]
        simp only [hiF', hdF, hisd, Bool.not_false, if_true]
        cases (inner bk dd).call w.fs (.remove (kp k)) with
        | mk s2 r => cases r <;> rfl
      obtain ⟨hag, hR3⟩ := remove_step h hWR hk' hne hvis
      rw [hFeq]
      cases hx : BackupFS.remove (nestedCfg bk hk) (kp k) w2 with
      | mk w3 r3 =>
        cases hy : (inner bk dd).call w.fs (.remove (kp k)) with
        | mk m3 ry =>
          rw [hx, hy] at hag hR3
          simp only at hag hR3
          apply Sat.of_eq hx
          cases ry with
          | error ey =>
            cases r3 with
            | ok u => exact absurd hag id
            | error e3 => exact Or.inl ⟨hag.imp id (fun ⟨a, b⟩ => ⟨a, b, trivial⟩), hR3.2.1⟩
          | ok ret =>
            cases r3 with
            | error e3 => exact absurd hag id
            | ok u =>
              apply Sat.pure
              exact Or.inl ⟨rfl, hR3.2.1⟩
    | true =>
      -- a directory: the walk
      simp only [Bool.not_true, Bool.false_eq_true, if_false]
      have hex : osView bk dd .base w.fs k ≠ none := by rw [hvin]; simp
      have hdepth' : ∀ j, k <+: j → osView bk dd .base w.fs j ≠ none → j.length < k.length + 64 := by
        intro j hkj hj
        apply hdepth j hkj
        have hvj : ¬ hk <+: j := by
          obtain ⟨x, rfl⟩ := hkj
          exact hc.below x
        rw [nview_base_vis hvj]
        exact hj
      have hF := Props.C15.removeAll_transparent_linkfree_partial bk dd h.pb h.pd h.nb h.nd h.d1 h.d2
        [hk] (by intro x hx; simp at hx; subst hx; exact h.ph) k hk' hne w.fs hg.os 64
        (by intro x hx; simp at hx; subst hx; exact hc) hex hdepth'
      simp only at hF
      obtain ⟨hFok, _, _, _⟩ := hF
      have hmk : HiddenFS.mk ([hk].map kp) = nhs hk := rfl
      rw [hmk] at hFok
      have hFok' : (hiddenRemoveAll (nhs hk) (inner bk dd) 64 w.fs (kp k)).2 = .ok () := hFok
      have hFeq : hiddenRemoveAll (nhs hk) (inner bk dd) 64 w.fs (kp k) =
          (match walkTree (fsiWalkOps (inner bk dd)) (hiddenRemoveFn (nhs hk) (inner bk dd)) 64 w.fs [] (kp k) with
           | ((s2, _), some e) => (s2, .error e)
           | ((s2, dirs), none) => hiddenRemoveDirs (nhs hk) (inner bk dd) s2 (sortMost dirs)) := by
        unfold hiddenRemoveAll
        rw [hgv]
        simp only [hiF', hdF, hisd, Bool.not_true, Bool.false_eq_true, if_false]
        cases walkTree (fsiWalkOps (inner bk dd)) (hiddenRemoveFn (nhs hk) (inner bk dd)) 64 w.fs [] (kp k) with
        | mk sa oe =>
          obtain ⟨s2, ds⟩ := sa
          cases oe <;> rfl
      have hsim := removeAll_walk_sim h hWR hk' hne hc
      cases hwF : walkTree (fsiWalkOps (inner bk dd)) (hiddenRemoveFn (nhs hk) (inner bk dd)) 64 w.fs [] (kp k) with
      | mk saF oeF =>
        obtain ⟨mF, dirsF⟩ := saF
        rw [hwF] at hsim hFeq
        cases oeF with
        | some e =>
          rw [hFeq] at hFok'
          cases hFok'
        | none =>
          simp only at hFeq
          obtain ⟨hn1, hn2, hR3⟩ := hsim rfl
          cases hwW : walkTree (worldWalkOps (nestedCfg bk hk) .base) (removeAllFn (nestedCfg bk hk)) 64 w2 [] (kp k) with
          | mk saW oeW =>
            obtain ⟨w3, dirsW⟩ := saW
            rw [hwW] at hn1 hn2 hR3
            simp only at hn1 hn2 hR3
            subst hn1 hn2
            have hgood : ∀ p ∈ sortMost dirsW, GoodP hk p := by
              intro p hp
              exact hR3.2.2.2 p ((sortBy_perm _ dirsW).mem_iff.mp hp)
            have hR3' : WR h v0 r0 w.fs.umask w3 mF [] := ⟨hR3.1, hR3.2.1, hR3.2.2.1, by intro p hp; cases hp⟩
            rw [hFeq] at hFok' ⊢
            obtain ⟨hEok, hEr⟩ := removeEach_sim h (sortMost dirsW) w3 mF hR3' hgood hFok'
            apply Sat.bind
            apply Sat.of_eq (w1 := w3) (r := .ok dirsW) (by simp only [hwW])
            simp only
            cases hre : removeEach (nestedCfg bk hk) (sortMost dirsW) w3 with
            | mk w4 r4 =>
              rw [hre] at hEok hEr
              simp only at hEok hEr
              subst hEok
              apply Sat.of_eq hre
              simp only
              apply Sat.pure
              left
              refine ⟨?_, hEr.2.1⟩
              show ResAgreeN True (.ok .unit) (Except.map _ _)
              rw [hFok']
              rfl
  · -- the name denotes nothing: BackupFS returns nil without touching anything
    simp only [hnfd, if_true]
    apply Sat.pure
    apply Sat.pure
    have hv' : nview bk hk .base w.fs k = none := by
      have : (nSim bk hk dd h).view .base w1.fs k = none := hv
      rw [hs1.fs] at this; exact this
    have hvin : osView bk dd .base w.fs k = none := by
      rw [nview_base_vis hvis] at hv'; exact hv'
    obtain ⟨habs1, habs2⟩ := inner_lstat_absent h hg.os hk' hvin
    by_cases hfa : FileAnc (nview bk hk .base w.fs) k
    · right
      have hcall := habs1 (fileAnc_inner (dd := dd) hfa)
      have hFeq : hiddenRemoveAll (nhs hk) (inner bk dd) 64 w.fs (kp k) = (w.fs, .error .notDir) := by
        unfold hiddenRemoveAll
        rw [hgv]
        simp only [hcall]
        rfl
      rw [hFeq]
      exact ⟨hfa, ⟨_, rfl, rfl⟩, rfl, htw2, rfl⟩
    · left
      have hnfa : ¬ FileAnc (osView bk dd .base w.fs) k := by
        intro hx
        apply hfa
        obtain ⟨a, ha, hane, c, mt, hf⟩ := hx
        refine ⟨a, ha, hane, c, mt, ?_⟩
        rw [nview_base_vis (vis_of_prefix hvis ha)]
        exact hf
      have hcall := habs2 hnfa
      have hFeq : hiddenRemoveAll (nhs hk) (inner bk dd) 64 w.fs (kp k) = (w.fs, .ok ()) := by
        unfold hiddenRemoveAll
        rw [hgv]
        simp only [hcall]
        rfl
      rw [hFeq]
      exact ⟨rfl, htw2⟩
  · exact absurd hinv1.nofault hf

end

end BFS.N
